(* FragmentCorollaries.v — work package c01c: corollaries of the fragment theorems
   (Proofs/CompileCorrect.v eval_fragment, Proofs/CompileCorrect2.v eval_fragment2,
   Proofs/CellFuelProofs.v eval_fragment_done) used by Props/C10.v and Props/C06.v.

   1. Fuel monotonicity of Vm.eval (from RunProofs.run_loop_fuel_mono): a result other than
      NoFuel is the result for every larger fuel.
   2. eval_halt_no_panic (generic, reusable for any fragment theorem of the same shape): if
      for every sufficient fuel the evaluation is the HALT exit [halt_result m] of a machine
      whose %acc represents a reference value, then the evaluation is not a panic for ANY
      fuel (and it is NoFuel or Done of that value for any fuel: eval_halt_cases).
      Instances: fragment_no_panic (expr / ref_eval), fragment2_no_panic (expr2 / ref_eval2).
   3. quote_eval_vm: Vm::eval of (quote d) on every machine satisfying [minv]; the premise
      on the macro expander is PROVED (transform_expr returns a quote form unchanged),
      builtins are irrelevant (empty specification), the global environment is irrelevant
      (empty reference environment).                                                      *)
From Coq Require Import String Lia FMapPositive.
From MW Require Import Model.Base Model.F64 Model.Num Model.Datum Model.TransformDef Model.Transform
  Model.VmTypes Model.Heap Model.Gc Model.VmBase Model.Compile Model.Vm
  Proofs.VmProofs0 Proofs.GcProofs Proofs.SymtabProofs Proofs.QuoteHeapProofs
  Proofs.CompileProofs Proofs.RunProofs Proofs.CompileCorrect Proofs.TailProofs Proofs.FrameSteps
  Proofs.CellFuelProofs Proofs.CompileCorrect2.
From MW Require Model.Builtins.
Open Scope N_scope.

Arguments N.add : simpl never.
Arguments N.sub : simpl never.
Arguments N.mul : simpl never.
Arguments N.eqb : simpl never.
Arguments N.ltb : simpl never.
Arguments N.leb : simpl never.

(* ============================================================ fuel monotonicity of eval *)
(* a result of Vm.eval other than NoFuel is the result for every larger fuel *)
Lemma eval_unfold ob f e s : eval ob f e s =
  match prepare_eval e s with
  | ROk _ s' => run_loop ob f 0 None s'
  | RErr e1 m1 s' => ROk (Failed e1 m1 None) s'
  | RPanic k => RPanic k
  | RNoFuel => RNoFuel
  end.
Proof. reflexivity. Qed.

Lemma eval_fuel_mono ob f g e s : (f <= g)%nat ->
  eval ob f e s <> RNoFuel -> eval ob g e s = eval ob f e s.
Proof.
  intros Hle. rewrite !eval_unfold.
  generalize (prepare_eval e s). intros p Hn.
  destruct p as [u s'|e1 m1 s'|k|]; try reflexivity.
  apply run_loop_fuel_mono; assumption.
Qed.

Lemma eval_fuel_mono_eq ob f g e s x : (f <= g)%nat ->
  eval ob f e s = x -> x <> RNoFuel -> eval ob g e s = x.
Proof.
  intros Hle Hx Hn. rewrite <- Hx. apply eval_fuel_mono; [exact Hle|]. rewrite Hx. exact Hn.
Qed.

(* ============================================================ the HALT exit never panics *)
(* the HALT exit of a machine whose %acc represents a reference value is NoFuel (the fuel
   of the model's get_as_cell, docs/WP-c01b.md R1) or Done of that value *)
Lemma halt_result_cases m r : vrep (acc m) r (hp m) (st m) ->
  halt_result m = RNoFuel \/
  halt_result m = ROk (Done (rcell r)) (with_stack m tempty (sp m)).
Proof.
  intros V. destruct (halt_result m) as [x s'|e1 m1 s'|k|] eqn:E; [right|right|right|left; reflexivity];
    rewrite <- E; apply halt_result_done_nofuel; try exact V; rewrite E; discriminate.
Qed.

Lemma halt_result_no_panic m r : vrep (acc m) r (hp m) (st m) -> forall k, halt_result m <> RPanic k.
Proof.
  intros V k E. destruct (halt_result_cases m r V) as [H|H]; rewrite H in E; discriminate.
Qed.

(* Generic: whenever, for every sufficient fuel, the evaluation of e on s is the HALT exit of
   a machine m whose %acc represents r, the evaluation of e on s with ANY fuel is NoFuel or
   Done r on the machine m with the stack wiped *)
Lemma eval_halt_cases ob e s n m r :
  (forall fuel, (n <= fuel)%nat -> eval ob fuel e s = halt_result m) ->
  vrep (acc m) r (hp m) (st m) ->
  forall fuel, eval ob fuel e s = RNoFuel \/
               eval ob fuel e s = ROk (Done (rcell r)) (with_stack m tempty (sp m)).
Proof.
  intros Hev V fuel.
  destruct (eval ob fuel e s) as [x s'|e1 m1 s'|k|] eqn:E; [right|right|right|left; reflexivity].
  all: assert (Hbig : eval ob (Nat.max fuel n) e s = halt_result m) by (apply Hev; lia).
  all: rewrite (eval_fuel_mono_eq ob fuel (Nat.max fuel n) e s _ ltac:(lia) E ltac:(discriminate)) in Hbig.
  all: destruct (halt_result_cases m r V) as [H|H]; rewrite H in Hbig; try discriminate; exact Hbig.
Qed.

(* ... in particular never a panic, never an error escaping the run loop, for any fuel *)
Lemma eval_halt_no_panic ob e s n m r :
  (forall fuel, (n <= fuel)%nat -> eval ob fuel e s = halt_result m) ->
  vrep (acc m) r (hp m) (st m) ->
  forall fuel k, eval ob fuel e s <> RPanic k.
Proof.
  intros Hev V fuel k E.
  destruct (eval_halt_cases ob e s n m r Hev V fuel) as [H|H]; rewrite H in E; discriminate.
Qed.

(* ============================================================ the two proved fragments *)
Section NoPanic.
Variable ob : N -> M vcell.
Variable bsem : N -> list rval -> option rval.
Hypothesis Hb : forall b, builtin_ok ob bsem b.

Theorem fragment_no_panic e rho r rho' s :
  wf_expr e -> ref_eval bsem rho e r rho' -> minv s -> genv_rel rho s ->
  transform_expr TRANSFORM_FUEL s (cell_of e) = Ok (cell_of e) ->
  forall fuel k, eval ob fuel (cell_of e) s <> RPanic k.
Proof.
  intros Hwf HR MI G Htr.
  destruct (eval_fragment ob bsem Hb e rho r rho' s Hwf HR MI G Htr) as (n & m & Hev & V & _).
  exact (eval_halt_no_panic ob _ s n m r Hev V).
Qed.

(* the outcome for an arbitrary fuel: NoFuel or Done of the reference value *)
Theorem fragment_outcome e rho r rho' s :
  wf_expr e -> ref_eval bsem rho e r rho' -> minv s -> genv_rel rho s ->
  transform_expr TRANSFORM_FUEL s (cell_of e) = Ok (cell_of e) ->
  forall fuel, eval ob fuel (cell_of e) s = RNoFuel \/
               exists s', eval ob fuel (cell_of e) s = ROk (Done (rcell r)) s'.
Proof.
  intros Hwf HR MI G Htr fuel.
  destruct (eval_fragment ob bsem Hb e rho r rho' s Hwf HR MI G Htr) as (n & m & Hev & V & _).
  destruct (eval_halt_cases ob _ s n m r Hev V fuel) as [H|H]; [left; exact H|right; eexists; exact H].
Qed.

Hypothesis He : forall b, builtin_envs ob bsem b.

Theorem fragment2_no_panic e rho r rho' s :
  wf_expr2 e [] -> ref_eval2 bsem [] [] rho e r rho' -> minv s -> genv_rel rho s ->
  transform_expr TRANSFORM_FUEL s (cell_of2 e) = Ok (cell_of2 e) ->
  forall fuel k, eval ob fuel (cell_of2 e) s <> RPanic k.
Proof.
  intros Hwf HR MI G Htr.
  destruct (eval_fragment2 ob bsem Hb He e rho r rho' s Hwf HR MI G Htr) as (n & m & Hev & V & _).
  exact (eval_halt_no_panic ob _ s n m r Hev V).
Qed.

Theorem fragment2_outcome e rho r rho' s :
  wf_expr2 e [] -> ref_eval2 bsem [] [] rho e r rho' -> minv s -> genv_rel rho s ->
  transform_expr TRANSFORM_FUEL s (cell_of2 e) = Ok (cell_of2 e) ->
  forall fuel, eval ob fuel (cell_of2 e) s = RNoFuel \/
               exists s', eval ob fuel (cell_of2 e) s = ROk (Done (rcell r)) s'.
Proof.
  intros Hwf HR MI G Htr fuel.
  destruct (eval_fragment2 ob bsem Hb He e rho r rho' s Hwf HR MI G Htr) as (n & m & Hev & V & _).
  destruct (eval_halt_cases ob _ s n m r Hev V fuel) as [H|H]; [left; exact H|right; eexists; exact H].
Qed.
End NoPanic.

Print Assumptions fragment_no_panic.
Print Assumptions fragment2_no_panic.

(* non-vacuity on the empty machine with the real builtin table and the specification of `not` *)
Lemma ex_transform : transform_expr TRANSFORM_FUEL (vm_empty 8192) (cell_of ex_e) = Ok (cell_of ex_e).
Proof. vm_compute. reflexivity. Qed.
Lemma ex2_transform : transform_expr TRANSFORM_FUEL (vm_empty 8192) (cell_of2 ex2_e) = Ok (cell_of2 ex2_e).
Proof. vm_compute. reflexivity. Qed.

Lemma ex_no_panic : forall fuel k, eval Builtins.other_builtin fuel (cell_of ex_e) (vm_empty 8192) <> RPanic k.
Proof.
  destruct ex_hypotheses as (Hwf & MI & G & HR).
  exact (fragment_no_panic Builtins.other_builtin bsem_not builtin_ok_not ex_e _ _ _ _ Hwf HR MI G ex_transform).
Qed.
Lemma ex2_no_panic : forall fuel k, eval Builtins.other_builtin fuel (cell_of2 ex2_e) (vm_empty 8192) <> RPanic k.
Proof.
  destruct ex2_hypotheses as (Hwf & MI & G & HR).
  exact (fragment2_no_panic Builtins.other_builtin bsem_not builtin_ok_not builtin_envs_not ex2_e _ _ _ _
           Hwf HR MI G ex2_transform).
Qed.

(* ============================================================ (quote d) on the machine *)
(* the quote form of Model/WireDatum.v is the quote form of the fragment *)
Lemma quote_of_cell d : cell_of (EQuote d) = quote_of d.
Proof. reflexivity. Qed.

(* the macro expander leaves a quote form alone, on EVERY machine, for every positive fuel
   (compile.rs:78-118: the head symbol `quote` is tested before any macro lookup) *)
Lemma transform_quote f s d : transform_expr (S f) s (quote_of d) = Ok (quote_of d).
Proof. reflexivity. Qed.
Lemma transform_quote_fuel s d : transform_expr TRANSFORM_FUEL s (quote_of d) = Ok (quote_of d).
Proof. change TRANSFORM_FUEL with (S 3999). apply transform_quote. Qed.

Lemma genv_rel_empty s : genv_rel rho_empty s.
Proof. intros x r H. discriminate. Qed.

(* Vm::eval of (quote d) on every machine s satisfying [minv], for every builtin table *)
Theorem quote_eval_vm (ob : N -> M vcell) d s : heap_datum d -> minv s ->
  exists n m, cext s m /\ sp m = sp s /\ bp m = bp s /\ ep m = ep s /\ out_log m = out_log s /\
    (forall fuel, (n <= fuel)%nat -> eval ob fuel (quote_of d) s = halt_result m) /\
    (halt_result m <> RNoFuel \/ (no_ptr_cells (hp m) /\ (rcost (RDatum d) <= cell_fuel m)%nat) ->
     forall fuel, (n <= fuel)%nat ->
       eval ob fuel (quote_of d) s = ROk (Done d) (with_stack m tempty (sp m))).
Proof.
  intros Hd MI.
  destruct (eval_fragment_done ob (fun _ _ => None) (builtin_ok_unspecified ob) (EQuote d)
              rho_empty (RDatum d) rho_empty s Hd (RE_quote _ rho_empty d) MI (genv_rel_empty s)
              (transform_quote_fuel s d))
    as (n & m & _ & _ & _ & X & Hsp & Hbp & Hep & Hlog & Hev & Hdone).
  exists n, m. do 5 (split; [assumption|]). split; [exact Hev|exact Hdone].
Qed.

(* ... and for an ARBITRARY fuel the evaluation is NoFuel or Done d: never an error, never a
   panic, never another datum *)
Theorem quote_eval_vm_outcome (ob : N -> M vcell) d s : heap_datum d -> minv s ->
  forall fuel, eval ob fuel (quote_of d) s = RNoFuel \/
               exists s1, eval ob fuel (quote_of d) s = ROk (Done d) s1.
Proof.
  intros Hd MI.
  exact (fragment_outcome ob (fun _ _ => None) (builtin_ok_unspecified ob) (EQuote d)
           rho_empty (RDatum d) rho_empty s Hd (RE_quote _ rho_empty d) MI (genv_rel_empty s)
           (transform_quote_fuel s d)).
Qed.

(* the empty machine of any positive stack/heap chunk capacity *)
Theorem quote_eval_vm_empty (ob : N -> M vcell) d c : heap_datum d -> 0 < c ->
  exists n m, cext (vm_empty c) m /\ sp m = 0 /\ bp m = 0 /\ ep m = USIZE_MAX /\ out_log m = [] /\
    (forall fuel, (n <= fuel)%nat -> eval ob fuel (quote_of d) (vm_empty c) = halt_result m) /\
    (halt_result m <> RNoFuel \/ (no_ptr_cells (hp m) /\ (rcost (RDatum d) <= cell_fuel m)%nat) ->
     forall fuel, (n <= fuel)%nat ->
       eval ob fuel (quote_of d) (vm_empty c) = ROk (Done d) (with_stack m tempty (sp m))).
Proof.
  intros Hd Hc. exact (quote_eval_vm ob d (vm_empty c) Hd (minv_vm_empty c Hc)).
Qed.

Print Assumptions quote_eval_vm.
Print Assumptions quote_eval_vm_outcome.
Print Assumptions quote_eval_vm_empty.

(* non-vacuity: the datum of C10_example_heap on the empty machine with the real builtin table *)
Definition qex_datum : cell :=
  CVec [new_list [CSym QUOTE; CSym (S_ "a")];
        new_improper_list [CChar 955; CStr [34; 10]] (CNum (BigInt 5))].
Lemma qex_heap_datum : heap_datum qex_datum.
Proof. cbn. tauto. Qed.
Lemma qex_run :
  match eval Builtins.other_builtin 100 (quote_of qex_datum) (vm_empty 8192) with
  | ROk (Done c) s' => c = qex_datum /\ sp s' = 0 /\ bp s' = 0 /\ ep s' = USIZE_MAX
  | _ => False
  end.
Proof. vm_compute. repeat split. Qed.
