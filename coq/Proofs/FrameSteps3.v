(* FrameSteps3.v — C01 (work package c01c): instruction-level lemmas for closures with CAPTURED
   variables: MOV from a lexical slot that holds a pointer, CLOSURE and ENTER for a lambda whose
   environment map is its own parameters followed by captured entries (sym, BIofEnvironment k).
   Generalises Proofs/FrameSteps.v.                                                        *)
From Coq Require Import String Lia FMapPositive.
From MW Require Import Model.Base Model.F64 Model.Num Model.Datum Model.TransformDef Model.Transform
  Model.VmTypes Model.Heap Model.Gc Model.VmBase Model.Compile Model.Vm
  Proofs.VmProofs0 Proofs.GcProofs Proofs.SymtabProofs Proofs.QuoteHeapProofs
  Proofs.CompileProofs Proofs.RunProofs Proofs.CompileCorrect Proofs.TailProofs Proofs.FrameSteps.
From MW Require Proofs.ScopeProofs.
Open Scope N_scope.

Arguments N.add : simpl never.
Arguments N.sub : simpl never.
Arguments N.mul : simpl never.
Arguments N.eqb : simpl never.
Arguments N.ltb : simpl never.
Arguments N.leb : simpl never.

Definition caps_ok (caps : list (vcell * bsrc)) (nslots : N) : Prop :=
  Forall (fun e => exists k, snd e = BIofEnvironment k /\ k < nslots) caps.
Definition caps_env (caps : list (vcell * bsrc)) : Prop :=
  Forall (fun e => exists k, snd e = BIofEnvironment k) caps.
(* the closure-environment slot CLOSURE builds for a captured entry: an existing pointer is copied,
   a direct slot k of the current environment (heap address epm) becomes a pointer to it *)
Definition cap_val (epm : N) (slots : list vcell) (e : vcell * bsrc) : vcell :=
  match snd e with
  | BIofEnvironment k => match list_get slots k with Some (VLexPtr a j) => VLexPtr a j | _ => VLexPtr epm k end
  | _ => VUndef
  end.

Lemma caps_ok_env caps n : caps_ok caps n -> caps_env caps.
Proof.
  unfold caps_ok, caps_env. intros H. eapply Forall_impl; [|exact H].
  intros e (k & E & _). exists k. exact E.
Qed.

Lemma list_get_some {A} (l : list A) i : i < len l -> exists v, list_get l i = Some v.
Proof.
  unfold list_get, len. intros H. destruct (nth_error l (N.to_nat i)) as [v|] eqn:E; [exists v; reflexivity|].
  apply nth_error_None in E. lia.
Qed.

Lemma repeat_mid {A} (x : A) n : forall acc, repeat x n ++ x :: acc = x :: repeat x n ++ acc.
Proof. induction n as [|n IH]; intros acc; cbn [repeat app]; [reflexivity|]. rewrite IH. reflexivity. Qed.
Lemma rev_repeat {A} (x : A) n : rev (repeat x n) = repeat x n.
Proof.
  induction n as [|n IH]; cbn [repeat rev]; [reflexivity|]. rewrite IH.
  rewrite (repeat_mid x n []). rewrite app_nil_r. reflexivity.
Qed.

(* CLOSURE: the parameter part of the map produces undefined slots ... *)
Lemma bce_enum3 aps : forall i rest acc s,
  bce_go (ScopeProofs.enum_args aps i ++ rest) acc s = bce_go rest (repeat VUndef (length aps) ++ acc) s.
Proof.
  induction aps as [|x r IH]; intros i rest acc s; cbn [ScopeProofs.enum_args app bce_go length repeat].
  - reflexivity.
  - rewrite IH. rewrite repeat_mid. reflexivity.
Qed.

(* ... and the captured part one pointer slot per entry *)
Lemma bce_caps eid slots : forall caps acc s,
  heap_get (hp s) (ep s) = Ok (VLexEnv eid) -> tget (envs (st s)) eid = Some slots ->
  caps_ok caps (len slots) ->
  bce_go caps acc s = ROk (rev acc ++ map (cap_val (ep s) slots) caps) s.
Proof.
  induction caps as [|e r IH]; intros acc s Hep Hsl Hok; cbn [bce_go map].
  - rewrite app_nil_r. reflexivity.
  - inversion Hok as [|e' r' (k & Ek & Hk) Hok']; subst e' r'.
    destruct e as [sym src]. cbn [snd] in Ek. subst src.
    destruct (list_get_some slots k Hk) as (v & Ev).
    unfold bindM at 1. unfold get_vm. unfold bindM at 1. unfold hget, lift. rewrite Hep.
    unfold bindM at 1. cbn [as_lexenv]. unfold ret at 1.
    unfold bindM at 1. unfold env_get. unfold bindM at 1. unfold env_slots. rewrite Hsl. rewrite Ev.
    unfold ret at 1.
    unfold cap_val at 1. cbn [snd]. rewrite Ev.
    destruct v; rewrite (IH _ s Hep Hsl Hok'); cbn [rev]; rewrite <- app_assoc; reflexivity.
Qed.

(* ENTER: the parameter part of the map copies the arguments of the frame into slots i..argc-1 of an
   environment that may be longer than argc *)
Lemma ble_enum3 argc cep cenv s rest : argc <= bp s -> bp s < scap s ->
  forall aps i env, i + len aps = argc -> argc <= len env ->
  exists env1, ble_go argc cep cenv (ScopeProofs.enum_args aps i ++ rest) i env s = ble_go argc cep cenv rest argc env1 s /\
    len env1 = len env /\
    (forall j, j < i -> list_get env1 j = list_get env j) /\
    (forall j, argc <= j -> list_get env1 j = list_get env j) /\
    (forall j, i <= j -> j < argc -> list_get env1 j = Some (sget s (bp s - argc + j + 1))).
Proof.
  intros Hbp Hcap. induction aps as [|x r IH]; intros i env Hi Hl; cbn [ScopeProofs.enum_args app ble_go].
  - rewrite len_nil in Hi. assert (Ei : i = argc) by lia. rewrite Ei.
    exists env. split; [reflexivity|]. split; [reflexivity|]. split; [auto|]. split; [auto|]. intros j H1 H2. lia.
  - rewrite len_cons in Hi.
    unfold bindM at 1. unfold get_vm. unfold bindM at 1. rewrite usub_ok by lia.
    unfold bindM at 1. rewrite usub_ok by lia.
    unfold bindM at 1. rewrite stack_get_ok by lia.
    destruct (IH (i + 1) (list_set env i (sget s (bp s - (argc - i) + 1))) ltac:(lia) ltac:(rewrite list_set_len; exact Hl))
      as (env' & E & L & Hlo & Hup & Hhi).
    exists env'. split; [exact E|]. split; [rewrite L; apply list_set_len|]. split; [|split].
    + intros j Hj. rewrite Hlo by lia. apply list_get_set_other. lia.
    + intros j Hj. rewrite Hup by lia. apply list_get_set_other. lia.
    + intros j H1 H2. destruct (N.eq_dec j i) as [->|Hne].
      * rewrite Hlo by lia. rewrite list_get_set_same by lia. do 2 f_equal. lia.
      * apply Hhi; lia.
Qed.

(* the captured part leaves the environment as it is: the closure environment holds pointers there *)
Lemma ble_caps argc cep cenv s : forall caps slot env, caps_env caps ->
  (forall j, slot <= j -> j < slot + len caps -> exists a k, list_get cenv j = Some (VLexPtr a k)) ->
  ble_go argc cep cenv caps slot env s = ROk env s.
Proof.
  induction caps as [|e r IH]; intros slot env Hce Hp; cbn [ble_go]; [reflexivity|].
  inversion Hce as [|e' r' (k & Ek) Hce']; subst e' r'.
  destruct e as [sym src]. cbn [snd] in Ek. subst src.
  rewrite len_cons in Hp.
  destruct (Hp slot ltac:(lia) ltac:(lia)) as (a & k' & E). rewrite E.
  apply IH; [exact Hce'|]. intros j H1 H2. apply Hp; lia.
Qed.

Section Steps3.
Variable ob : N -> M vcell.
Notation run_one := (Vm.run_one ob).

Ltac fetch_op Hc Hip H0 :=
  unfold Vm.run_one; unfold bindM at 1;
  rewrite (read_opcode_ok _ _ _ _ _ Hc Hip H0); cbv beta iota.

(* MOV (lexical slot k) %acc where the slot holds a pointer: one indirection *)
Lemma step_load_lex_ptr m lp i bc k eid slots a j eid2 slots2 w :
  code_in m lp bc -> ip m = (lp, i) -> seg bc i [VOp OMov; VLexSlot k; VAcc] ->
  heap_get (hp m) (ep m) = Ok (VLexEnv eid) -> tget (envs (st m)) eid = Some slots ->
  list_get slots k = Some (VLexPtr a j) ->
  heap_get (hp m) a = Ok (VLexEnv eid2) -> tget (envs (st m)) eid2 = Some slots2 -> list_get slots2 j = Some w ->
  run_one m = ROk false (with_acc (with_ip m (lp, i + 3)) w).
Proof.
  intros Hc Hip Hs Hep Hsl Hk Ha Hsl2 Hj. apply seg_head in Hs as [H0 Hs]. apply seg_head in Hs as [H1 Hs]. apply seg_head in Hs as [H2 _].
  fetch_op Hc Hip H0.
  unfold bindM at 1. unfold load_operand. unfold bindM at 1.
  rewrite (read_operand_ok _ lp (i + 1) bc _ (code_in_ip _ _ _ _ Hc) eq_refl H1 ltac:(discriminate)).
  unfold bindM at 1. unfold get_vm. unfold load_lex_slot.
  unfold bindM at 1. unfold get_vm. unfold bindM at 1. unfold hget at 1. unfold lift at 1. cbn [hp ep with_ip]. rewrite Hep.
  unfold bindM at 1. cbn [as_lexenv]. unfold ret at 1.
  unfold bindM at 1. unfold env_get at 1. unfold bindM at 1. unfold env_slots at 1. cbn [st with_ip]. rewrite Hsl. rewrite Hk.
  unfold ret at 1. cbv beta iota.
  unfold bindM at 1. unfold hget at 1. unfold lift at 1. cbn [hp with_ip]. rewrite Ha.
  unfold bindM at 1. cbn [as_lexenv]. unfold ret at 1.
  unfold env_get at 1. unfold bindM at 1. unfold env_slots at 1. cbn [st with_ip]. rewrite Hsl2. rewrite Hj.
  unfold ret at 1.
  unfold bindM at 1. unfold store_operand. unfold bindM at 1.
  rewrite (read_operand_ok _ lp (i + 1 + 1) bc VAcc (code_in_ip _ _ _ _ (code_in_ip _ _ _ _ Hc)) eq_refl H2 ltac:(discriminate)).
  unfold bindM, get_vm, set_acc, ret. unfold with_acc, with_ip. cbn [hp st g_bind g_slots stack scap sp bp ep ip acc out_log].
  replace (i + 1 + 1 + 1) with (i + 3) by lia. reflexivity.
Qed.

(* CLOSURE %acc for a lambda whose environment map is its parameters followed by captured
   entries: a closure over a new environment of undefined slots followed by pointer slots *)
Lemma step_closure3 m lp i bc lamp lid lam aps caps eid slots :
  code_in m lp bc -> ip m = (lp, i) -> seg bc i [VOp OClosureAcc] ->
  minv m -> acc m = VPtr lamp -> heap_get (hp m) lamp = Ok (VLambda lid) -> tget (lams (st m)) lid = Some lam ->
  l_envmap lam = ScopeProofs.enum_args aps 0 ++ caps ->
  (caps = [] \/ (heap_get (hp m) (ep m) = Ok (VLexEnv eid) /\ tget (envs (st m)) eid = Some slots /\ caps_ok caps (len slots))) ->
  exists m' cp cep ceid, run_one m = ROk false m' /\ minv m' /\ rext m m' /\
    sp m' = sp m /\ bp m' = bp m /\ ep m' = ep m /\ scap m' = scap m /\ stack m' = stack m /\
    out_log m' = out_log m /\ g_slots m' = g_slots m /\ ip m' = (lp, i + 1) /\ acc m' = VPtr cp /\
    allocated (hp m') cp /\ cell_at (hp m') cp = VClosure lamp cep /\
    allocated (hp m') cep /\ cell_at (hp m') cep = VLexEnv ceid /\ ceid < next_id (st m') /\
    tget (envs (st m')) ceid = Some (repeat VUndef (length aps) ++ map (cap_val (ep m) slots) caps).
Proof.
  intros Hc Hip Hs MI Hacc Hg Hl Henv Hcaps. apply seg_head in Hs as [H0 _].
  assert (EB : bce_go (ScopeProofs.enum_args aps 0 ++ caps) [] (with_ip m (lp, i + 1)) =
               ROk (repeat VUndef (length aps) ++ map (cap_val (ep m) slots) caps) (with_ip m (lp, i + 1))).
  { rewrite bce_enum3. rewrite app_nil_r. destruct Hcaps as [->|(Hep & Hsl & Hok)].
    - cbn [bce_go map]. rewrite rev_repeat, app_nil_r. reflexivity.
    - rewrite (bce_caps eid slots caps _ (with_ip m (lp, i + 1)) Hep Hsl Hok). rewrite rev_repeat. reflexivity. }
  fetch_op Hc Hip H0.
  unfold bindM at 1. unfold get_vm. cbn [acc with_ip]. rewrite Hacc. unfold bindM at 1. cbn [as_ptr]. unfold ret at 1.
  unfold bindM at 1. unfold hget, lift. cbn [hp with_ip]. rewrite Hg.
  unfold bindM at 1. cbn [as_lambda]. unfold get_lambda. cbn [st with_ip]. rewrite Hl.
  unfold bindM at 1. rewrite bce_eq, Henv, EB.
  unfold bindM at 1. unfold env_new, new_env. cbv beta iota.
  unfold bindM at 1. unfold hput. cbn [hp st with_store with_ip].
  destruct (heap_put (hp m) (VLexEnv (next_id (st m)))) as [r1 h1] eqn:E1.
  destruct (heap_put_frame _ _ _ _ (mi_heap _ MI) E1 ltac:(discriminate)) as (a1 & -> & A1 & C1 & HI1 & Fr1).
  unfold bindM at 1. cbn [as_ptr]. unfold ret at 1.
  unfold bindM at 1. cbn [hp with_heap].
  destruct (heap_put h1 (VClosure lamp a1)) as [r2 h2] eqn:E2.
  destruct (heap_put_frame _ _ _ _ HI1 E2 ltac:(discriminate)) as (a2 & -> & A2 & C2 & HI2 & Fr2).
  unfold bindM at 1. unfold set_acc, ret.
  eexists. exists a2, a1, (next_id (st m)). split; [reflexivity|].
  cbn [hp st sp bp ep scap stack out_log g_slots g_bind ip acc with_acc with_heap with_store with_ip next_id envs].
  destruct (Fr2 a1 A1) as [A1' C1'].
  split; [destruct MI as [HI GI SP]; constructor; [exact HI2|exact GI|exact SP]|].
  split.
  { split.
    - constructor; cbn [hp st g_bind g_slots with_acc with_heap with_store with_ip]; auto.
      + eapply hext_trans; eassumption.
      + split; cbn [next_id strs vecs]; [lia|auto].
      + lia.
    - intros j Hj. cbn [st envs with_acc with_heap with_store]. apply tget_tset_other. lia. }
  do 9 (split; [reflexivity|]).
  split; [exact A2|]. split; [exact C2|]. split; [exact A1'|]. split; [congruence|].
  split; [lia|]. apply tget_tset_same.
Qed.

(* ENTER of such a closure: push %bp, make the frame current, build the activation environment:
   the n arguments on the stack, then the pointer slots of the closure environment *)
Lemma step_enter_closure3 m lamp bc cp cep lid lam aps caps ceid cslots n :
  code_in m lamp bc -> ip m = (lamp, 0) -> list_get bc 0 = Some (VOp OEnter) ->
  minv m -> acc m = VPtr cp -> heap_get (hp m) cp = Ok (VClosure lamp cep) ->
  heap_get (hp m) lamp = Ok (VLambda lid) -> tget (lams (st m)) lid = Some lam ->
  l_args lam = aps -> l_envmap lam = ScopeProofs.enum_args aps 0 ++ caps -> len aps = n -> caps_env caps ->
  heap_get (hp m) cep = Ok (VLexEnv ceid) -> tget (envs (st m)) ceid = Some cslots -> len cslots = n + len caps ->
  (forall j, n <= j -> j < n + len caps -> exists a k, list_get cslots j = Some (VLexPtr a k)) ->
  n + 3 <= sp m -> sget m (sp m - 2) = VArgc n ->
  exists m' evp env,
    run_one m = ROk false m' /\ minv m' /\ rext m m' /\
    sp m' = sp m + 1 /\ bp m' = sp m - 3 /\ ep m' = evp /\ ip m' = (lamp, 1) /\ acc m' = acc m /\
    out_log m' = out_log m /\ g_slots m' = g_slots m /\
    sget m' (sp m + 1) = VBp (bp m) /\ (forall j, j <> sp m + 1 -> sget m' j = sget m j) /\
    allocated (hp m') evp /\ cell_at (hp m') evp = VLexEnv (next_id (st m)) /\
    tget (envs (st m')) (next_id (st m)) = Some env /\ next_id (st m) < next_id (st m') /\ len env = n + len caps /\
    (forall j, j < n -> list_get env j = Some (sget m (sp m - 3 - n + j + 1))) /\
    (forall j, n <= j -> list_get env j = list_get cslots j).
Proof.
  intros Hc Hip H0 MI Hacc Hgc Hgl Hl Hargs Henv Hlen Hce Hcep Hcs Hcl Hptr Hsp Hargc.
  subst aps.
  pose proof (mi_sp _ MI) as Hcap.
  fetch_op Hc Hip H0. change (0 + 1) with 1.
  unfold enter_frame. unfold bindM at 1. unfold get_vm. unfold bindM at 1.
  unfold hderef, lift. cbn [hp acc with_ip]. rewrite Hacc. cbn [heap_deref]. rewrite Hgc.
  unfold bindM at 1. unfold ret at 1. cbv beta iota.
  unfold bindM at 1. unfold hget, lift. cbn [hp with_ip]. rewrite Hgl.
  unfold bindM at 1. cbn [as_lambda]. unfold get_lambda. cbn [st with_ip]. rewrite Hl.
  unfold bindM at 1. unfold stack_get_offset. cbn [sp with_ip].
  destruct (Z.ltb_spec (Z.of_N (sp m) + -2) 0) as [Hz|_]; [lia|].
  replace (Z.to_N (Z.of_N (sp m) + -2)) with (sp m - 2) by lia.
  unfold stack_get. cbn [scap with_ip].
  destruct (N.ltb_spec (sp m - 2) (scap m)) as [_|]; [|lia].
  change (sget (with_ip m (lamp, 1)) (sp m - 2)) with (sget m (sp m - 2)). rewrite Hargc.
  unfold bindM at 1. cbn [as_argc]. unfold ret at 1. rewrite Hlen, N.eqb_refl. cbn [negb].
  unfold bindM at 1. rewrite push_eq. unfold bindM at 1. unfold get_vm. unfold bindM at 1. unfold usub.
  cbn [sp pushed with_scap with_stack with_ip].
  destruct (N.ltb_spec (sp m + 1) 4) as [|_]; [lia|].
  unfold bindM at 1. unfold set_bp. unfold ret at 1. cbn [bp with_ip].
  set (s1 := with_bp (pushed (with_ip m (lamp, 1)) (VBp (bp m))) (sp m + 1 - 4)).
  assert (Hs1 : forall j, j <> sp m + 1 -> sget s1 j = sget m j).
  { intros j Hj. unfold s1. change (sget (with_bp ?x _) ?k) with (sget x k).
    rewrite sget_pushed_other by (cbn [sp with_ip]; exact Hj). reflexivity. }
  assert (Hcap1 : sp s1 < scap s1).
  { unfold s1. change (sp (with_bp ?x _)) with (sp x). change (scap (with_bp ?x _)) with (scap x).
    apply pushed_sp_lt. exact Hcap. }
  assert (Hsp1 : sp s1 = sp m + 1) by reflexivity.
  assert (Hbp1 : bp s1 = sp m + 1 - 4) by reflexivity.
  unfold bindM at 1. unfold hget, lift. change (hp s1) with (hp m). rewrite Hcep.
  unfold bindM at 1. cbn [as_lexenv]. unfold ret at 1.
  unfold bindM at 1. unfold env_slots. change (st s1) with (st m). rewrite Hcs.
  unfold bindM at 1. rewrite ble_eq, Henv, Hlen.
  destruct (ble_enum3 n cep cslots s1 caps ltac:(lia) ltac:(lia) (l_args lam) 0 cslots ltac:(lia) ltac:(lia))
    as (env & E & L & _ & Hup & Hhi).
  rewrite E.
  rewrite (ble_caps n cep cslots s1 caps n env Hce Hptr).
  unfold bindM at 1. unfold env_new, new_env. cbv beta iota. change (st s1) with (st m).
  unfold bindM at 1. unfold hput. cbn [hp with_store]. change (hp s1) with (hp m).
  destruct (heap_put (hp m) (VLexEnv (next_id (st m)))) as [r1 h1] eqn:E1.
  destruct (heap_put_frame _ _ _ _ (mi_heap _ MI) E1 ltac:(discriminate)) as (a1 & -> & A1 & C1 & HI1 & Fr1).
  unfold bindM at 1. cbn [as_ptr]. unfold ret at 1.
  unfold bindM at 1. unfold set_ep, ret.
  eexists. exists a1, env. split; [reflexivity|].
  split.
  { destruct MI as [HI GI SP]. constructor; [exact HI1|exact GI|exact Hcap1]. }
  split.
  { split.
    - constructor; cbn [hp st g_bind g_slots with_ep with_heap with_store]; auto.
      + split; cbn [next_id strs vecs]; [lia|auto].
      + change (g_slots s1) with (g_slots m). lia.
    - intros j Hj. cbn [st envs with_ep with_heap with_store]. apply tget_tset_other. lia. }
  split; [reflexivity|]. split; [cbn [bp with_ep with_heap with_store]; rewrite Hbp1; lia|].
  split; [reflexivity|]. split; [reflexivity|]. split; [exact Hacc|]. split; [reflexivity|]. split; [reflexivity|].
  split.
  { change (sget (with_ep (with_heap (with_store s1 ?x) ?h) ?e) ?j) with (sget s1 j).
    unfold s1. change (sget (with_bp ?x _) ?k) with (sget x k).
    change (sp m + 1) with (sp (with_ip m (lamp, 1)) + 1). apply sget_pushed_top. }
  split; [intros j Hj; apply Hs1; exact Hj|].
  split; [exact A1|]. split; [exact C1|].
  split; [cbn [st envs with_ep with_heap with_store]; apply tget_tset_same|].
  split; [cbn [st next_id with_ep with_heap with_store]; lia|].
  split; [rewrite L; exact Hcl|].
  split.
  - intros j Hj. rewrite (Hhi j ltac:(lia) Hj). rewrite Hs1 by (rewrite Hbp1; lia). do 2 f_equal. rewrite Hbp1. lia.
  - intros j Hj. apply Hup. exact Hj.
Qed.

End Steps3.
