(* DefineSugar.v — C01 (work package c01e): the (define (f x1 ... xn) body ...) spelling.
   compile_define (compile.rs:235-296) hands the WHOLE define form to compile_lambda with
   is_define = true; the only differences to (define f (lambda (x1 ... xn) body ...)) are
   (1) the formals are the cdr of the head, (2) the free-symbol analysis runs on the define form
   (environment.rs: the "define" arm pushes the formals, the "lambda" arm does the same for a proper
   list of symbols), (3) one level of compile fuel less is consumed.  [define_spelling]: the two
   compilations are EQUAL (same result, same machine) as M-computations.                      *)
From Coq Require Import String Lia FMapPositive.
From MW Require Import Model.Base Model.F64 Model.Num Model.Datum Model.Lex Model.Parse Model.TransformDef Model.Transform
  Model.VmTypes Model.Heap Model.Gc Model.VmBase Model.Compile Model.Vm
  Proofs.VmProofs0 Proofs.GcProofs Proofs.SymtabProofs Proofs.QuoteHeapProofs
  Proofs.CompileProofs Proofs.RunProofs Proofs.CompileCorrect Proofs.CompileCorrect2 Proofs.Closures6.
Open Scope N_scope.

Arguments N.add : simpl never.
Arguments N.sub : simpl never.
Arguments N.mul : simpl never.
Arguments N.eqb : simpl never.
Arguments N.ltb : simpl never.
Arguments N.leb : simpl never.

(* ------------------------------------------------------------ fuel of the free-symbol analysis *)
(* [ffs] is structural on the datum: any fuel above the size gives the same answer *)
Lemma ffs_fuel : forall f1 c env free, (cell_size c < f1)%nat ->
  forall f2, (cell_size c < f2)%nat -> ffs f1 c env free = ffs f2 c env free.
Proof.
  induction f1 as [|f1 IH]; intros c env free H1 f2 H2; [lia|].
  destruct f2 as [|f2]; [lia|].
  destruct c; try reflexivity.
  cbn [cell_size] in H1, H2. cbn [ffs].
  destruct (sym_is c1 QUOTE || sym_is c1 QUASIQUOTE); [reflexivity|].
  match goal with |- context [is_symbol c1 && ?a && ?b] => set (free1 := if is_symbol c1 && a && b then add_sym c1 free else free) end.
  rewrite (IH c1 env free1 ltac:(lia) f2 ltac:(lia)).
  destruct (if is_pair c1 then ffs f2 c1 env free1 else Ok free1) as [free2| | |]; try reflexivity.
  cbn [bind].
  match goal with |- context [if sym_eq c1 "define" then ?a else ?b] => destruct (if sym_eq c1 "define" then a else b) as [[env' rest]| | |] eqn:Em end;
    try reflexivity.
  assert (Hr : (cell_size rest <= cell_size c2)%nat).
  { destruct (sym_eq c1 "define").
    - destruct c2; try discriminate. injection Em as _ <-. cbn [cell_size]. lia.
    - destruct (sym_eq c1 "lambda").
      + destruct c2; try discriminate.
        match type of Em with context [bind ?a _] => destruct a; try discriminate end.
        cbn [bind] in Em. injection Em as _ <-. cbn [cell_size]. lia.
      + injection Em as _ <-. lia. }
  clear Em. cbn [bind]. cbv beta iota. revert free2 Hr. induction rest as [| | | |r1 IH1 r2 IH2| | | | | | | |]; intros free2 Hr;
    try (apply IH; cbn [cell_size] in *; lia).
  - reflexivity.
  - cbn [cell_size] in Hr. cbv beta iota. rewrite (IH r1 env' free2 ltac:(lia) f2 ltac:(lia)).
    destruct (ffs f2 r1 env' free2); try reflexivity. cbn [bind]. apply IH2. lia.
Qed.

(* ------------------------------------------------------------ the two spellings *)
(* (define (x p1 ... pn) b1 ... bk) *)
Definition sugar_cell (x : text) (ps : list text) (bs : list cell) : cell :=
  CPair DEFINE_ (CPair (CPair (CSym x) (syms_of ps)) (fold_right CPair CNil bs)).
(* the syntactic translation, on any datum: (define (x . formals) . body) becomes
   (define x (lambda formals . body)); everything else is left alone *)
Definition desugar_define (c : cell) : cell :=
  match c with
  | CPair d (CPair (CPair (CSym x) formals) body) =>
      if sym_eq d "define" then CPair d (CPair (CSym x) (CPair (CPair LAMBDA_ (CPair formals body)) CNil)) else c
  | _ => c
  end.
Lemma desugar_sugar x ps bs :
  desugar_define (sugar_cell x ps bs) = CPair DEFINE_ (CPair (CSym x) (CPair (lam_cells6 ps bs) CNil)).
Proof. reflexivity. Qed.

Lemma ffs_sugar f x ps body :
  ffs (S f) (CPair DEFINE_ (CPair (CPair (CSym x) (syms_of ps)) body)) [] [] =
  ffs (S f) (CPair CNil body) (rev (map CSym ps)) [].
Proof.
  cbn [ffs]. unfold DEFINE_. change (sym_eq (CSym (S_ "define")) "define") with true.
  change (sym_is (CSym (S_ "define")) QUOTE || sym_is (CSym (S_ "define")) QUASIQUOTE) with false.
  change (is_primitive_symbol (CSym (S_ "define"))) with true.
  cbn [is_symbol is_pair negb andb orb bind sym_is sym_eq]. cbv iota.
  change (sym_eq CNil "define") with false. change (sym_eq CNil "lambda") with false. cbv iota. cbn [bind].
  assert (E : forall env, fold_left (fun e s => if is_symbol s then s :: e else e) (cell_iter (syms_of ps)) env
                          = rev (map CSym ps) ++ env).
  { induction ps as [|p ps IH]; intros env; [reflexivity|].
    cbn [syms_of fold_right cell_iter fold_left is_symbol map rev]. fold (syms_of ps). rewrite IH, <- app_assoc. reflexivity. }
  rewrite E, app_nil_r. reflexivity.
Qed.

Lemma ffs_lam f ps body :
  ffs (S f) (CPair LAMBDA_ (CPair (syms_of ps) body)) [] [] =
  ffs (S f) (CPair CNil body) (rev (map CSym ps)) [].
Proof.
  cbn [ffs]. unfold LAMBDA_. change (sym_eq (CSym (S_ "lambda")) "define") with false.
  change (sym_eq (CSym (S_ "lambda")) "lambda") with true.
  change (sym_is (CSym (S_ "lambda")) QUOTE || sym_is (CSym (S_ "lambda")) QUASIQUOTE) with false.
  change (is_primitive_symbol (CSym (S_ "lambda"))) with true.
  cbn [is_symbol is_pair negb andb orb bind]. cbv iota.
  change (sym_eq CNil "define") with false. change (sym_eq CNil "lambda") with false. cbv iota. cbn [bind].
  match goal with |- context [bind (?F (syms_of ps) [])] =>
    assert (E : forall env, F (syms_of ps) env = Ok (rev (map CSym ps) ++ env)) end.
  { induction ps as [|p ps IH]; intros env; [reflexivity|].
    cbn [syms_of fold_right is_symbol map rev]. fold (syms_of ps). rewrite IH, <- app_assoc. reflexivity. }
  rewrite E, app_nil_r. reflexivity.
Qed.

(* the free-symbol analysis of the define form is that of the lambda expression *)
Lemma free_symbols_sugar x ps bs :
  free_symbols (sugar_cell x ps bs) = free_symbols (lam_cells6 ps bs).
Proof.
  unfold free_symbols, sugar_cell, lam_cells6. rewrite ffs_sugar, ffs_lam.
  apply ffs_fuel; cbn [cell_size]; lia.
Qed.

Lemma bind_ret_pair {A B C} (X X' : M A) (c : B) (k : A * B -> M C) (k' : A -> M C) s :
  X s = X' s -> (forall a s', k (a, c) s' = k' a s') ->
  bindM (bindM X (fun a => ret (a, c))) k s = bindM X' k' s.
Proof. intros E K. unfold bindM, ret. rewrite E. destruct (X' s); auto. Qed.

(* compile_define on the sugared spelling, with compile_lambda (is_define = true) spelled out *)
Lemma compile_sugar_eq f l tail x ps bs s : bs <> [] -> is_primitive_symbol (CSym x) = false ->
  compile_expression (S f) l tail (sugar_cell x ps bs) s =
  (dom l1 <-
     (dom (formals, vararg) <- (if is_nil (syms_of ps) then ret ([], false) else compile_formals (syms_of ps) []);
      dom free <- lift (free_symbols (sugar_cell x ps bs));
      dom free_refs <- put_cells free;
      dom internal <- lift (internally_defined_symbols (fold_right CPair CNil bs));
      dom internal_refs <- put_cells internal;
      let lam0 := set_desc (lambda_from_iof formals internal_refs l free_refs vararg) (syms_of ps) in
      let lam1 := if vararg then emit_op lam0 OVarArg else lam0 in
      let lam2 := emit_op lam1 OEnter in
      if is_nil (fold_right CPair CNil bs) then fail E_OTHER else
      dom lam3 <- body_loop6 (compile_expression f) (fold_right CPair CNil bs) lam2;
      dom lp <- put_lambda (emit_op lam3 ORet);
      ret (emit_op (emit (emit (emit_op l OMovImmediate) lp) VAcc) OClosureAcc));
   dom sym_ref <- put_cell_m (CSym x);
   dom operand <- location_operand (emit (emit_op l1 OMov) VAcc) sym_ref;
   ret (emit (emit (emit_op (emit (emit (emit_op l1 OMov) VAcc) operand) OMovImmediate) VVoid) VAcc)) s.
Proof.
  intros Hb H. destruct bs as [|b bs]; [congruence|].
  unfold sugar_cell. cbn [compile_expression]. unfold DEFINE_.
  change (sym_eq (CSym (S_ "define")) "define") with true. cbv iota.
  cbn [fold_right is_nil]. cbv iota. unfold bindM at 1. cbn [lift cdr_e]. cbn [is_nil]. cbv iota.
  unfold bindM at 1. cbn [lift car_e]. cbn [is_symbol negb]. cbv iota.
  apply bind_ret_pair; [reflexivity|].
  intros a s'. cbv beta iota. rewrite H. reflexivity.
Qed.

Lemma bindM_cong_l {A C} (X X' : M A) (k : A -> M C) s : X s = X' s -> bindM X k s = bindM X' k s.
Proof. intros E. unfold bindM. rewrite E. reflexivity. Qed.

(* THE SPELLING THEOREM: the sugared define compiles, as an M-computation (emitted code, result
   lambda, final machine, errors), exactly as its translation — with one level of fuel less *)
Theorem define_spelling : forall x ps bs, bs <> [] -> is_primitive_symbol (CSym x) = false ->
  forall f l tail s,
    compile_expression (S f) l tail (sugar_cell x ps bs) s =
    compile_expression (S (S f)) l tail (desugar_define (sugar_cell x ps bs)) s.
Proof.
  intros x ps bs Hb H f l tail s. rewrite desugar_sugar, (compile_define_eq (S f) l tail x _ s H).
  rewrite (compile_sugar_eq f l tail x ps bs s Hb H), free_symbols_sugar.
  apply bindM_cong_l. symmetry. apply compile_lambda6_eq.
Qed.
