(* CellFuelProofs.v — C01, residual R1: the fuel of the model's Heap::get_as_cell.

   [Vm.to_cell] runs [get_as_cell] with fuel [cell_fuel m] = heap size + 1.  The Rust function
   (heap.rs:266-326) has NO bound: it loops along the cdr and recurses elsewhere; the fuel
   is an artefact of the model.  What the fuel of the model measures is the DEPTH of the
   traversal (it is passed unchanged to the car, to the cdr and to every vector element), so
   shared substructure (a DAG) does not make it longer.  But every heap cell entered through
   a pointer costs TWO units (one for the pointer, one for the cell), a cell entered along a
   cdr costs one.  Consequently:

     * heap size + 1 is NOT sufficient in general, even for tree-shaped acyclic data: a vector
       nested k deep occupies k cells and needs 2k+2 units ([fuel_insufficient_example]:
       a quoted 8-deep vector on a machine whose heap has 10 cells; the same happens on the
       8192-cell heap for nesting deeper than 4096); with sharing, (cons x x) iterated k times
       occupies k+1 cells and needs 2k+2 units;
     * [get_as_cell] is monotone in the fuel ([gac_mono_le]): a result other than NoFuel is
       the result for every larger fuel.  Hence the honest premise is "the conversion does not
       run out of fuel" ([halt_result_done_nofuel]);
     * a structural sufficient condition: on a heap without pointer chains (no cell holds a
       VPtr: Heap::put never stores one) the fuel [S (dcost c)] suffices for a value that
       reads as the datum c, where [dcost] counts car- and vector-nesting twice and
       cdr-nesting once ([gac_cost], [halt_result_done_cost]); so 2 * heap size + 1 would
       be a correct fuel for every acyclic value, heap size + 1 is not.                     *)
From Coq Require Import String Lia FMapPositive.
From MW Require Import Model.Base Model.F64 Model.Num Model.Datum Model.TransformDef Model.Transform
  Model.VmTypes Model.Heap Model.Gc Model.VmBase Model.Compile Model.Vm
  Proofs.VmProofs0 Proofs.GcProofs Proofs.SymtabProofs Proofs.QuoteHeapProofs
  Proofs.CompileProofs Proofs.RunProofs Proofs.CompileCorrect.
Open Scope N_scope.

Section Gac.
Variable bname : N -> text.
Variable h : heap.
Variable s : store.
Notation gac := (get_as_cell bname h s).

(* the element loop of the vector arm *)
Definition gelems (f : nat) : list vcell -> out (list cell) :=
  fix elems (l : list vcell) : out (list cell) :=
    match l with
    | [] => Ok []
    | x :: r => do c <- gac f x; do cs <- elems r; Ok (c :: cs)
    end.

Lemma gelems_cons f x r : gelems f (x :: r) = do c <- gac f x; do cs <- gelems f r; Ok (c :: cs).
Proof. reflexivity. Qed.

Lemma gac_vec f vid : gac (S f) (VVec vid) =
  match tget (vecs s) vid with None => Panic 13 | Some l => do cs <- gelems f l; Ok (CVec cs) end.
Proof. reflexivity. Qed.
Lemma gac_ptr f p : gac (S f) (VPtr p) = do x <- heap_get h p; gac f x.
Proof. reflexivity. Qed.
Lemma gac_pair f a d : gac (S f) (VPair a d) =
  do ca <- gac f (VPtr a);
  do dv <- heap_get h d;
  match dv with
  | VPair _ _ => do rest <- gac f dv; Ok (CPair ca rest)
  | VNil => Ok (CPair ca CNil)
  | other => do cd <- gac f other; Ok (CPair ca cd)
  end.
Proof. reflexivity. Qed.

(* values converted without recursion: the result does not depend on the fuel *)
Definition leaf (v : vcell) : bool :=
  match v with VPair _ _ | VPtr _ | VVec _ => false | _ => true end.
Lemma gac_leaf f g v : leaf v = true -> gac (S f) v = gac (S g) v.
Proof. destruct v; try discriminate; reflexivity. Qed.

(* ------------------------------------------------------------ monotonicity *)
Lemma gac_mono f : forall v, gac f v <> NoFuel -> gac (S f) v = gac f v.
Proof.
  induction f as [|f IH]; intros v Hnf; [exfalso; apply Hnf; reflexivity|].
  assert (Hsub : forall x (k : cell -> out cell), (do c <- gac f x; k c) <> NoFuel ->
            (do c <- gac (S f) x; k c) = (do c <- gac f x; k c)).
  { intros x k Hk. destruct (gac f x) as [c| | |] eqn:E.
    - rewrite (IH x) by (rewrite E; discriminate). rewrite E. reflexivity.
    - rewrite (IH x) by (rewrite E; discriminate). rewrite E. reflexivity.
    - rewrite (IH x) by (rewrite E; discriminate). rewrite E. reflexivity.
    - exfalso. apply Hk. reflexivity. }
  destruct (leaf v) eqn:Lf; [apply gac_leaf; exact Lf|].
  destruct v; try discriminate.
  - (* pair *)
    rewrite (gac_pair (S f)), (gac_pair f). rewrite (gac_pair f) in Hnf.
    destruct (gac f (VPtr car)) as [ca| | |] eqn:Ea.
    2,3: rewrite (IH (VPtr car)) by (rewrite Ea; discriminate); rewrite Ea; reflexivity.
    2: exfalso; apply Hnf; reflexivity.
    rewrite (IH (VPtr car)) by (rewrite Ea; discriminate). rewrite Ea. cbn [bind] in *.
    destruct (heap_get h cdr) as [dv| | |]; cbn [bind] in *; try reflexivity.
    destruct dv; try reflexivity; apply Hsub; exact Hnf.
  - (* vector *)
    rewrite (gac_vec (S f)), (gac_vec f). rewrite (gac_vec f) in Hnf.
    destruct (tget (vecs s) vid) as [l|]; [|reflexivity].
    assert (E : gelems f l <> NoFuel -> gelems (S f) l = gelems f l).
    { clear Hnf. induction l as [|x r IHl]; intros Hn; [reflexivity|].
      rewrite !gelems_cons in *.
      destruct (gac f x) as [c| | |] eqn:Ex.
      2,3: rewrite (IH x) by (rewrite Ex; discriminate); rewrite Ex; reflexivity.
      2: exfalso; apply Hn; reflexivity.
      rewrite (IH x) by (rewrite Ex; discriminate). rewrite Ex. cbn [bind] in *.
      rewrite IHl; [reflexivity|]. intros E0. apply Hn. rewrite E0. reflexivity. }
    rewrite E; [reflexivity|]. intros E0. apply Hnf. rewrite E0. reflexivity.
  - (* pointer *)
    rewrite (gac_ptr (S f)), (gac_ptr f). rewrite (gac_ptr f) in Hnf.
    destruct (heap_get h p) as [x| | |]; cbn [bind] in *; try reflexivity.
    apply IH. exact Hnf.
Qed.

Lemma gac_mono_le f g v : (f <= g)%nat -> gac f v <> NoFuel -> gac g v = gac f v.
Proof.
  intros Hle Hnf. induction Hle as [|g Hle IH]; [reflexivity|].
  rewrite gac_mono; [exact IH|]. rewrite IH. exact Hnf.
Qed.

Lemma gac_ok_le f g v c : (f <= g)%nat -> gac f v = Ok c -> gac g v = Ok c.
Proof. intros Hle H. rewrite (gac_mono_le f g v Hle); [exact H|]. rewrite H. discriminate. Qed.

(* if a value reads as c with SOME fuel, any fuel that does not run out gives c *)
Lemma gac_determined v c n f : (forall fuel, (n <= fuel)%nat -> gac fuel v = Ok c) ->
  gac f v <> NoFuel -> gac f v = Ok c.
Proof.
  intros Hn Hnf. rewrite <- (gac_mono_le f (Nat.max f n) v ltac:(lia) Hnf). apply Hn. lia.
Qed.

(* ------------------------------------------------------------ a structural bound *)
(* the fuel a datum needs when its representation has no pointer chains: 1 for the cell
   itself, one more for every pointer followed to a car / a vector element *)
Fixpoint dcost (c : cell) : nat :=
  match c with
  | CPair a d => S (Nat.max (S (dcost a)) (dcost d))
  | CVec l => S (fold_right (fun x n => Nat.max (S (dcost x)) n) O l)
  | _ => 1%nat
  end.

Lemma dcost_pos c : (1 <= dcost c)%nat.
Proof. destruct c; cbn [dcost]; lia. Qed.

Definition vcost (l : list cell) : nat := fold_right (fun x n => Nat.max (S (dcost x)) n) O l.
Lemma dcost_vec l : dcost (CVec l) = S (vcost l).
Proof. reflexivity. Qed.
Lemma vcost_cons x l : vcost (x :: l) = Nat.max (S (dcost x)) (vcost l).
Proof. reflexivity. Qed.

(* no heap cell holds a pointer (Heap::put returns a pointer unchanged instead of storing it) *)
Definition no_ptr_cells : Prop := forall p q, heap_get h p <> Ok (VPtr q).

Lemma gac_cost : no_ptr_cells -> forall f v c, gac f v = Ok c ->
  gac (S (dcost c)) v = Ok c /\ ((forall q, v <> VPtr q) -> gac (dcost c) v = Ok c).
Proof.
  intros NP. induction f as [|f IH]; intros v c H; [discriminate|].
  assert (Hnp : (forall q, v <> VPtr q) -> gac (dcost c) v = Ok c).
  { intros Hv. destruct (leaf v) eqn:Lf.
    - pose proof (dcost_pos c) as Hp. apply (gac_ok_le 1 (dcost c) v c Hp).
      rewrite (gac_leaf 0 f v Lf). exact H.
    - destruct v; try discriminate; [| |exfalso; eapply Hv; reflexivity].
      + (* pair *)
        rewrite gac_pair in H.
        destruct (gac f (VPtr car)) as [ca| | |] eqn:Ea; cbn [bind] in H; try discriminate.
        destruct (IH _ _ Ea) as [Ha _].
        destruct (heap_get h cdr) as [dv| | |] eqn:Ed; cbn [bind] in H; try discriminate.
        assert (Hgen : forall cd, gac f dv = Ok cd -> (forall q, dv <> VPtr q) -> c = CPair ca cd ->
                  (forall g, gac (S g) (VPair car cdr) =
                     do ca <- gac g (VPtr car); do cd <- gac g dv; Ok (CPair ca cd)) ->
                  gac (dcost c) (VPair car cdr) = Ok c).
        { intros cd Hcd Hdv -> Hform. destruct (IH _ _ Hcd) as [_ Hd]. specialize (Hd Hdv).
          cbn [dcost]. rewrite Hform.
          rewrite (gac_ok_le (S (dcost ca)) (Nat.max (S (dcost ca)) (dcost cd)) _ _ ltac:(lia) Ha). cbn [bind].
          rewrite (gac_ok_le (dcost cd) (Nat.max (S (dcost ca)) (dcost cd)) _ _ ltac:(lia) Hd). reflexivity. }
        destruct dv;
          try (destruct (gac f _) as [cd| | |] eqn:Ecd in H; cbn [bind] in H; try discriminate;
               injection H as <-; apply (Hgen cd Ecd); [discriminate|reflexivity|];
               intros g; rewrite gac_pair, Ed; reflexivity).
        * (* nil *)
          injection H as <-. cbn [dcost]. rewrite gac_pair.
          rewrite (gac_ok_le (S (dcost ca)) (Nat.max (S (dcost ca)) 1) _ _ ltac:(lia) Ha). cbn [bind]. rewrite Ed. reflexivity.
        * exfalso. eapply NP. exact Ed.
      + (* vector *)
        rewrite gac_vec in H. destruct (tget (vecs s) vid) as [l|] eqn:El; [|discriminate].
        destruct (gelems f l) as [cs| | |] eqn:Ecs; cbn [bind] in H; try discriminate. injection H as <-.
        rewrite dcost_vec, gac_vec, El.
        assert (E : forall g, (vcost cs <= g)%nat -> gelems g l = Ok cs).
        { clear El. revert cs Ecs. induction l as [|x r IHl]; intros cs Ecs g Hg.
          - injection Ecs as <-. reflexivity.
          - rewrite gelems_cons in *.
            destruct (gac f x) as [cx| | |] eqn:Ex; cbn [bind] in Ecs; try discriminate.
            destruct (gelems f r) as [cr| | |] eqn:Er; cbn [bind] in Ecs; try discriminate.
            injection Ecs as <-. rewrite vcost_cons in Hg.
            destruct (IH _ _ Ex) as [Hx _]. rewrite (gac_ok_le (S (dcost cx)) g _ _ ltac:(lia) Hx). cbn [bind].
            rewrite (IHl cr eq_refl g ltac:(lia)). reflexivity. }
        rewrite (E (vcost cs) (le_n _)). reflexivity. }
  split; [|exact Hnp].
  assert (Hcase : (exists p, v = VPtr p) \/ (forall p, v <> VPtr p))
    by (destruct v; try (right; discriminate); left; eauto).
  destruct Hcase as [[p ->]|Hv].
  - rewrite gac_ptr in *. destruct (heap_get h p) as [x| | |] eqn:Ex; cbn [bind] in *; try discriminate.
    destruct (IH _ _ H) as [_ Hx]. apply Hx. intros q ->. eapply NP. exact Ex.
  - apply (gac_ok_le (dcost c) (S (dcost c))); [lia|]. apply Hnp. exact Hv.
Qed.

End Gac.

(* ============================================================ the HALT exit *)
Definition rcost (r : rval) : nat := match r with RDatum c => S (dcost c) | RBuiltin _ => 2%nat end.

Lemma vrep_gac m r : vrep (acc m) r (hp m) (st m) ->
  exists k, forall f, (k <= f)%nat -> get_as_cell builtin_name (hp m) (st m) f (acc m) = Ok (rcell r).
Proof.
  intros V. destruct r as [c|b]; cbn [vrep rcell] in *.
  - destruct V as [R _]. exact (R (hp m) (st m) (ext_refl _ _)).
  - destruct V as (p & -> & A & C). exists 2%nat. intros f Hf.
    destruct f as [|[|f]]; try lia. cbn [get_as_cell]. rewrite (heap_get_alloc _ _ A), C. reflexivity.
Qed.

(* R1, the honest premise: the conversion of %acc at HALT yields the reference value unless
   the model's fuel runs out (the Rust has no fuel) *)
Theorem halt_result_done_nofuel m r : vrep (acc m) r (hp m) (st m) ->
  halt_result m <> RNoFuel ->
  halt_result m = ROk (Done (rcell r)) (with_stack m tempty (sp m)).
Proof.
  intros V Hnf. destruct (vrep_gac m r V) as [k Hk].
  assert (E : get_as_cell builtin_name (hp m) (st m) (cell_fuel m) (acc m) = Ok (rcell r)).
  { eapply gac_determined; [exact Hk|]. intros E. apply Hnf.
    unfold halt_result, to_cell, as_cell, lift. rewrite E. reflexivity. }
  unfold halt_result, to_cell, as_cell, lift. rewrite E. reflexivity.
Qed.

(* ... and a sufficient structural condition: no pointer chains in the heap, and the fuel
   covers the cost of the value (car / vector nesting counted twice, cdr nesting once) *)
Theorem halt_result_done_cost m r : vrep (acc m) r (hp m) (st m) ->
  no_ptr_cells (hp m) -> (rcost r <= cell_fuel m)%nat ->
  halt_result m = ROk (Done (rcell r)) (with_stack m tempty (sp m)).
Proof.
  intros V NP Hc. destruct (vrep_gac m r V) as [k Hk].
  assert (E : get_as_cell builtin_name (hp m) (st m) (cell_fuel m) (acc m) = Ok (rcell r)).
  { destruct r as [c|b]; cbn [rcost rcell] in *.
    - destruct (gac_cost builtin_name (hp m) (st m) NP k (acc m) c (Hk k (le_n _))) as [H1 _].
      eapply gac_ok_le; [exact Hc|exact H1].
    - destruct V as (p & Ea & A & C). rewrite Ea.
      destruct (cell_fuel m) as [|[|f]]; try lia. cbn [get_as_cell].
      rewrite (heap_get_alloc _ _ A), C. reflexivity. }
  unfold halt_result, to_cell, as_cell, lift. rewrite E. reflexivity.
Qed.

(* C01_eval_fragment with the final conversion: under either premise the evaluation is Done r *)
Section EvalDone.
Variable ob : N -> M vcell.
Variable bsem : N -> list rval -> option rval.
Hypothesis Hb : forall b, builtin_ok ob bsem b.

Theorem eval_fragment_done e rho r rho' s :
  wf_expr e -> ref_eval bsem rho e r rho' -> minv s -> genv_rel rho s ->
  transform_expr TRANSFORM_FUEL s (cell_of e) = Ok (cell_of e) ->
  exists n m,
    vrep (acc m) r (hp m) (st m) /\ genv_rel rho' m /\ minv m /\ cext s m /\
    sp m = sp s /\ bp m = bp s /\ ep m = ep s /\ out_log m = out_log s /\
    (forall fuel, (n <= fuel)%nat -> eval ob fuel (cell_of e) s = halt_result m) /\
    (halt_result m <> RNoFuel \/ (no_ptr_cells (hp m) /\ (rcost r <= cell_fuel m)%nat) ->
     forall fuel, (n <= fuel)%nat ->
       eval ob fuel (cell_of e) s = ROk (Done (rcell r)) (with_stack m tempty (sp m))).
Proof.
  intros Hwf HR MI G Htr.
  destruct (eval_fragment ob bsem Hb e rho r rho' s Hwf HR MI G Htr)
    as (n & m & Hev & V & G' & MI' & X & Hsp & Hbp & Hep & Hlog).
  exists n, m. do 8 (split; [assumption|]). split; [exact Hev|].
  intros Hprem fuel Hf. rewrite (Hev fuel Hf).
  destruct Hprem as [Hnf|[NP Hc]].
  - apply halt_result_done_nofuel; assumption.
  - apply halt_result_done_cost; assumption.
Qed.
End EvalDone.

Print Assumptions halt_result_done_nofuel.
Print Assumptions halt_result_done_cost.
Print Assumptions eval_fragment_done.

(* ============================================================ heap size + 1 is not enough *)
(* a vector nested 8 deep: 8 heap cells, cost 17 *)
Fixpoint nest_vec (k : nat) : cell := match k with O => CNum (Fixnum 1) | S k' => CVec [nest_vec k'] end.

(* the constant #(#(#(#(#(#(#(#(1)))))))) is in the fragment, has the reference value itself,
   the machine reaches HALT with %acc representing it (C01_eval_fragment) — and the model's
   conversion runs out of fuel: the heap has 10 cells (fuel 11), the value costs 17.  The
   Rust converts it (recursion depth 17). *)
Definition nv_e : expr := EConst (nest_vec 8).
Lemma fuel_insufficient_example :
  wf_expr nv_e /\ ref_eval (fun _ _ => None) rho_empty nv_e (RDatum (nest_vec 8)) rho_empty /\
  minv (vm_empty 2) /\
  transform_expr TRANSFORM_FUEL (vm_empty 2) (cell_of nv_e) = Ok (cell_of nv_e) /\
  rcost (RDatum (nest_vec 8)) = 18%nat /\
  (match prepare_eval (cell_of nv_e) (vm_empty 2) with
   | ROk _ s0 =>
      match steps Builtins.other_builtin 6 s0 with
      | Some m6 =>
          match run_one Builtins.other_builtin m6 with
          | ROk true m => cell_fuel m = 11%nat /\ halt_result m = RNoFuel /\
                          get_as_cell builtin_name (hp m) (st m) 18 (acc m) = Ok (nest_vec 8)
          | _ => False
          end
      | None => False
      end
   | _ => False
   end) /\
  eval Builtins.other_builtin 1000 (cell_of nv_e) (vm_empty 2) = RNoFuel.
Proof.
  split; [cbn; repeat split|]. split; [apply RE_const|]. split; [apply minv_vm_empty; reflexivity|].
  split; [reflexivity|]. split; [reflexivity|]. split; vm_compute; auto.
Qed.
