(* MonoExample.v — data of the non-vacuity examples of Props/C05.v (later / klive) and
   Props/C07.v (mixed failure sequences).  Continues the session of ContExample.v.       *)
From Coq Require Import String Lia.
From MW Require Import Model.Base Model.F64 Model.Num Model.Datum Model.Lex Model.Parse Model.TransformDef
  Model.Transform Model.VmTypes Model.Heap Model.VmBase Model.Compile Model.Vm Model.Builtins
  Proofs.RunProofs Proofs.RunProofs2 Proofs.CompileCorrect Proofs.ContProofs Proofs.ContExample
  Proofs.MonoBase Proofs.MonoStep Proofs.MonoBuiltins Proofs.MonoAll Proofs.MonoCont Proofs.MonoTcall.
Open Scope N_scope.

(* from the capture in form 1 to the TCALL of kk in form 2: the rest of evaluation 1
   (run loop to HALT), the compilation of form 2, eight instructions of evaluation 2 *)
Lemma cx_later_chain : later other_builtin (s_cap cx_m 290 11 293) cx_s'.
Proof.
  assert (E1 : exists c, run_loop other_builtin 1000 0 None (s_cap cx_m 290 11 293) = ROk (Done c) cx_s1)
    by (vm_compute; eexists; reflexivity).
  destruct E1 as [c E1].
  eapply lt_run; [exact E1|].
  eapply (lt_prepare other_builtin cx_s1 (cx_dat cx_F2) tt cx_p2); [vm_compute; reflexivity|].
  apply (later_steps other_builtin 8). vm_compute. reflexivity.
Qed.

(* a form that fails at COMPILE time after the compiler has already met a new global:
   (if newsym (if)) — the test compiles (get_binding appends a slot), the consequent does not *)
Definition mx_cfail : cell := rx_dat "(if newsym (if))".

(* ------------------------------------------------------------------ call/cc in TAIL position
   form 1'  ((lambda (f) (call/cc f)) (lambda (k) (set! kk k) 'a))   on the machine after (define kk #f)
   form 2   (kk 'a)
   [tx_m]: form 1' after 16 instructions, at the TCALL of call/cc inside (lambda (f) ...) —
   code object 291, instruction 10, followed by RET; [tx_mr]: after 23, the tail-called receiver
   at its RET; [tx_s']: form 2 after 8 instructions, at the TCALL of kk *)
Definition tx_F1 : String.string := "((lambda (f) (call/cc f)) (lambda (k) (set! kk k) (quote a)))".
Definition tx_p1 : vm := cx_prep tx_F1 cx_s0.
Definition tx_m : vm := cx_run 16 tx_p1.
Definition tx_mr : vm := cx_run 23 tx_p1.
Definition tx_s1 : vm := cx_ev tx_F1 cx_s0.
Definition tx_p2 : vm := cx_prep cx_F2 tx_s1.
Definition tx_s' : vm := cx_run 8 tx_p2.

Lemma tx_at_callcc :
  at_callcc other_builtin tx_m 291 10 (cx_bc tx_m 291) true 295 (VClosure 289 294).
Proof.
  constructor.
  - code_in_tac 3.
  - vm_compute. reflexivity.
  - seg_tac 10%nat (cx_bc tx_m 291).
  - exists 97. split; vm_compute; reflexivity.
  - vm_compute. reflexivity.
  - vm_compute. discriminate.
  - vm_compute. reflexivity.
  - vm_compute. reflexivity.
  - vm_compute. reflexivity.
  - reflexivity.
Qed.
Lemma tx_ret_after : seg (cx_bc tx_m 291) (10 + 1) [VOp ORet].
Proof. seg_tac 11%nat (cx_bc tx_m 291). Qed.
Lemma tx_site_frame : site_frame tx_m 1 USIZE_MAX 293 6 0.
Proof. constructor; try (vm_compute; reflexivity); vm_compute; discriminate. Qed.
Lemma tx_in_tcc_frame : in_tcc_frame tx_m 1 USIZE_MAX 293 6 0 tx_mr 1.
Proof.
  constructor; try (vm_compute; reflexivity); try (vm_compute; discriminate).
  intros j Hj. replace (bp tx_m - 1) with 0 in Hj by (vm_compute; reflexivity).
  assert (j = 0) as -> by lia. vm_compute. reflexivity.
Qed.
Lemma tx_mr_at_ret : code_in tx_mr 289 (cx_bc tx_mr 289) /\ ip tx_mr = (289, 13) /\
  seg (cx_bc tx_mr 289) 13 [VOp ORet] /\ acc tx_mr = VPtr 288.
Proof.
  split; [code_in_tac 2|]. split; [vm_compute; reflexivity|].
  split; [seg_tac 13%nat (cx_bc tx_mr 289)|]. vm_compute. reflexivity.
Qed.
Lemma tx_klive : klive (next_id (st tx_m)) (k_cap tx_m 291 10) tx_s'.
Proof. split; [vm_compute; reflexivity|vm_compute; discriminate]. Qed.
Lemma tx_at_invoke : at_invoke tx_s' (next_id (st tx_m)) true.
Proof.
  constructor.
  - exists 301, 10, (cx_bc tx_s' 301). split; [code_in_tac 11|]. split; [vm_compute; reflexivity|].
    seg_tac 10%nat (cx_bc tx_s' 301).
  - vm_compute. reflexivity.
  - exists 1. split; [vm_compute; reflexivity|discriminate].
  - vm_compute. discriminate.
  - vm_compute. reflexivity.
Qed.
Lemma tx_arg : sget tx_s' (sp tx_s' - 1) = VPtr 288.
Proof. vm_compute. reflexivity. Qed.
Lemma tx_code_later : code_in tx_s' 291 (cx_bc tx_m 291).
Proof. code_in_tac 3. Qed.
