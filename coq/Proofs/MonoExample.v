(* MonoExample.v — data of the non-vacuity examples of Props/C05.v (later / klive) and
   Props/C07.v (mixed failure sequences).  Continues the session of ContExample.v.       *)
From Coq Require Import String Lia.
From MW Require Import Model.Base Model.F64 Model.Num Model.Datum Model.Lex Model.Parse Model.TransformDef
  Model.Transform Model.VmTypes Model.Heap Model.VmBase Model.Compile Model.Vm Model.Builtins
  Proofs.RunProofs Proofs.RunProofs2 Proofs.CompileCorrect Proofs.ContProofs Proofs.ContExample
  Proofs.MonoBase Proofs.MonoStep Proofs.MonoBuiltins Proofs.MonoAll Proofs.MonoCont.
Open Scope N_scope.

(* from the capture in form 1 to the TCALL of kk in form 2: the rest of evaluation 1
   (run loop to HALT), the compilation of form 2, eight instructions of evaluation 2 *)
Lemma cx_later_chain : later other_builtin (s_cap cx_m 290 11 293) cx_s'.
Proof.
  assert (E1 : exists c, run_loop other_builtin 1000 0 None (s_cap cx_m 290 11 293) = ROk (Done c) cx_s1)
    by (vm_compute; eexists; reflexivity).
  destruct E1 as [c E1].
  eapply lt_run; [exact E1|].
  eapply (lt_prepare other_builtin cx_s1 (cx_dat cx_F2) tt cx_p2); [vm_compute; reflexivity|].
  apply (later_steps other_builtin 8). vm_compute. reflexivity.
Qed.

(* a form that fails at COMPILE time after the compiler has already met a new global:
   (if newsym (if)) — the test compiles (get_binding appends a slot), the consequent does not *)
Definition mx_cfail : cell := rx_dat "(if newsym (if))".
