(* NoPanicPrims2.v — C06: heap / Rc-store primitives in the [npost okp] calculus *)
From Coq Require Import Lia List.
From MW Require Import Model.Base Model.F64 Model.Num Model.Datum Model.TransformDef Model.Transform
  Model.VmTypes Model.Heap Model.Gc Model.VmBase Model.Compile Model.Vm
  Proofs.GcProofs Proofs.SymtabProofs Proofs.VmProofs0 Proofs.TailProofs Proofs.EnvProofs
  Proofs.FlatProofs Proofs.NoPanicBase Proofs.NoPanicPrims.
Open Scope N_scope.
Arguments N.add : simpl never.
Arguments N.sub : simpl never.
Arguments N.eqb : simpl never.
Arguments N.ltb : simpl never.
Arguments N.leb : simpl never.
Arguments N.mul : simpl never.

Notation npo := (npost okp).
Notation npo0 := (npost0 okp).

Lemma np_lift {X} (o : out X) s : wfm s -> (forall k, o = Panic k -> okp k) -> npo s (lift o s) T_.
Proof.
  intros W H. unfold lift. destruct o; cbn [npost]; auto using grow_refl.
  split; [exact W|split; [apply grow_refl|exact I]].
Qed.

Lemma hget_eq p s : hget p s = if p <? hlen (hp s) then ROk (cell_at (hp s) p) s else RPanic 10.
Proof. unfold hget, heap_get, lift, cell_at. destruct (p <? hlen (hp s)); reflexivity. Qed.
Lemma np_hget p s : wfm s -> npo s (hget p s) V.
Proof.
  intros W. rewrite hget_eq. destruct (p <? hlen (hp s)); [|reflexivity].
  apply npost_ret; [exact W|apply np_wfm_cell, W].
Qed.
(* with the content *)
Lemma np_hget_c p s : wfm s -> npo s (hget p s) (fun s' a => s' = s /\ a = cell_at (hp s) p /\ vwf s a).
Proof.
  intros W. rewrite hget_eq. destruct (p <? hlen (hp s)); [|reflexivity].
  apply npost_ret; [exact W|]. split; [reflexivity|split; [reflexivity|apply np_wfm_cell, W]].
Qed.
Lemma np_hderef v s : wfm s -> vwf s v -> npo s (hderef v s) V.
Proof.
  intros W Hv. unfold hderef, heap_deref. destruct v; try (apply npost_ret; assumption).
  apply (np_hget p s W).
Qed.

Lemma np_hput v s : wfm s -> vwf s v -> npo s (hput v s) (fun s' r => exists p, r = VPtr p).
Proof.
  intros W Hv. unfold hput. destruct (heap_put (hp s) v) as [r h'] eqn:E.
  destruct (heap_put_gen _ _ _ _ (w_heap s W) E) as (HI & _ & Hr & Hal & Hc).
  apply npost_heap; auto.
  intros b. destruct (Hc b) as [H|H]; [left; exact H|right; rewrite H; exact Hv].
Qed.
Lemma np_hmaybe_put v s : wfm s -> vwf s v -> npo s (hmaybe_put v s) V.
Proof.
  intros W Hv. unfold hmaybe_put.
  assert (G : forall r h', heap_put (hp s) v = (r, h') -> npo s (ROk r (with_heap s h')) V).
  { intros r h' E. pose proof (np_hput v s W Hv) as H. unfold hput in H. rewrite E in H.
    cbn [npost] in H |- *. destruct H as (W1 & G1 & (p & ->)). split; [exact W1|split; [exact G1|exact I]]. }
  assert (S : forall h', h' = hp s -> npo s (ROk v (with_heap s h')) V).
  { intros h' ->. apply npost_heap; auto; try apply (w_heap s W). }
  unfold heap_maybe_put.
  destruct v; cbv beta iota;
    try (match goal with |- context [heap_put ?h ?w] => destruct (heap_put h w) as [r h'] eqn:E end; exact (G r h' eq_refl));
    apply S; reflexivity.
Qed.

(* heap only, an allocated non-code cell may be overwritten *)
Lemma npost_heap_l {X} s h' (a : X) (Q : vm -> X -> Prop) :
  wfm s -> heap_inv h' ->
  (forall b lid, cell_at (hp s) b = VLambda lid -> cell_at h' b = VLambda lid) ->
  (forall b, cell_at h' b = cell_at (hp s) b \/ vwf s (cell_at h' b)) ->
  Q (with_heap s h') a -> npo s (ROk a (with_heap s h')) Q.
Proof.
  intros W HI Hal Hc HQ.
  assert (G : grow0 s (with_heap s h')).
  { apply grow0_nostore; cbn [st hp scap g_slots with_heap]; try reflexivity; try lia. exact Hal. }
  cbn [npost]. split; [|split; [split; [exact G|apply ipge_keep; [exact G|reflexivity]]|exact HQ]].
  apply (wfm_nostore s (with_heap s h') W eq_refl G); cbn [hp with_heap acc g_slots]; auto.
  - apply (w_gbind s W).
  - intros b. destruct (Hc b) as [H|H]; [left; exact H|right; eapply vwf_grow; eassumption].
Qed.

Lemma np_hset_pair p a d x y s : wfm s -> cell_at (hp s) p = VPair a d -> npo s (hset p (VPair x y) s) T_.
Proof.
  intros W C. unfold hset, heap_set. destruct (p <? hlen (hp s)) eqn:L; [|reflexivity].
  apply N.ltb_lt in L. pose proof (w_heap s W) as HI.
  assert (Al : allocated (hp s) p) by (apply allocated_of_content; [exact HI|exact L|congruence]).
  apply npost_heap_l; auto.
  - apply heap_inv_store; [exact HI|exact L|apply Al| |]; congruence.
  - intros b lid Hb. rewrite cell_at_set. destruct (N.eqb_spec b p) as [->|_]; [congruence|exact Hb].
  - intros b. rewrite cell_at_set. destruct (b =? p); [right; exact I|left; reflexivity].
  - exact I.
Qed.

Ltac vtrans G :=
  repeat match goal with
         | H : vwf ?s ?v |- _ =>
             lazymatch type of G with grow s _ => apply (vwf_grow _ _ _ (grow_grow0 _ _ G)) in H end
         end.

Lemma np_pop_deref s : wfm s -> npo s (pop_deref s) V.
Proof.
  intros W. unfold pop_deref. eapply npost_bind; [apply np_pop_raw, W|].
  intros v s1 W1 G1 Hv. apply np_hderef; assumption.
Qed.
Lemma np_pop_value s : wfm s -> npo s (pop_value s) V.
Proof. apply np_pop_deref. Qed.
Lemma np_as_ptr v s : wfm s -> npo s (as_ptr v s) (fun _ p => v = VPtr p).
Proof. intros W. destruct v; try apply npost_fail, W. apply npost_ret; [exact W|reflexivity]. Qed.
Lemma np_pop_argc mn mx s : wfm s -> npo s (pop_argc mn mx s) T_.
Proof.
  intros W. unfold pop_argc. eapply npost_bind; [apply np_pop_raw, W|].
  intros v s1 W1 G1 Hv. destruct v; try apply npost_fail, W1.
  destruct (_ || _); [apply npost_fail, W1|apply npost_ret; [exact W1|exact I]].
Qed.
Lemma np_pop_number s : wfm s -> npo s (pop_number s) T_.
Proof.
  intros W. unfold pop_number. eapply npost_bind; [apply np_pop_value, W|].
  intros v s1 W1 G1 Hv. destruct v; try apply npost_fail, W1. apply npost_ret; [exact W1|exact I].
Qed.
Lemma np_pop_char s : wfm s -> npo s (pop_char s) T_.
Proof.
  intros W. unfold pop_char. eapply npost_bind; [apply np_pop_value, W|].
  intros v s1 W1 G1 Hv. destruct v; try apply npost_fail, W1. apply npost_ret; [exact W1|exact I].
Qed.
Lemma np_pop_symbol s : wfm s -> npo s (pop_symbol s) T_.
Proof.
  intros W. unfold pop_symbol. eapply npost_bind; [apply np_pop_value, W|].
  intros v s1 W1 G1 Hv. destruct v; try apply npost_fail, W1. apply npost_ret; [exact W1|exact I].
Qed.
Lemma np_pop_string s : wfm s -> npo s (pop_string s) (fun s' i => vwf s' (VStr i)).
Proof.
  intros W. unfold pop_string. eapply npost_bind; [apply np_pop_value, W|].
  intros v s1 W1 G1 Hv. destruct v; try apply npost_fail, W1. apply npost_ret; [exact W1|exact Hv].
Qed.
Lemma np_pop_vector s : wfm s -> npo s (pop_vector s) (fun s' i => vwf s' (VVec i)).
Proof.
  intros W. unfold pop_vector. eapply npost_bind; [apply np_pop_value, W|].
  intros v s1 W1 G1 Hv. destruct v; try apply npost_fail, W1. apply npost_ret; [exact W1|exact Hv].
Qed.

(* Rc payloads *)
Lemma np_str_get i s : wfm s -> npo s (str_get i s) T_.
Proof. intros W. unfold str_get. destruct (tget _ i); [apply npost_ret; [exact W|exact I]|reflexivity]. Qed.
Lemma np_vec_get i s : wfm s -> npo s (vec_get i s) (fun s' l => forall j v, list_get l j = Some v -> vwf s' v).
Proof.
  intros W. unfold vec_get. destruct (tget _ i) as [l|] eqn:E; [|reflexivity].
  apply npost_ret; [exact W|]. intros j v Hj. apply (w_vals s W). eapply ip_vec; eassumption.
Qed.

(* a store update that only adds / replaces string, vector or environment payloads *)
Lemma npost_store {X} s x (a : X) (Q : vm -> X -> Prop) :
  wfm s ->
  (forall i, tget (strs (st s)) i <> None -> tget (strs x) i <> None) ->
  (forall i, tget (vecs (st s)) i <> None -> tget (vecs x) i <> None) ->
  (forall i, tget (envs (st s)) i <> None -> tget (envs x) i <> None) ->
  lams x = lams (st s) -> conts x = conts (st s) ->
  (forall id l i v, tget (vecs x) id = Some l -> list_get l i = Some v ->
     (exists id0 l0 i0, tget (vecs (st s)) id0 = Some l0 /\ list_get l0 i0 = Some v) \/ vwf s v) ->
  (forall id l i v, tget (envs x) id = Some l -> list_get l i = Some v ->
     (exists id0 l0 i0, tget (envs (st s)) id0 = Some l0 /\ list_get l0 i0 = Some v) \/ vwf s v) ->
  Q (with_store s x) a -> npo s (ROk a (with_store s x)) Q.
Proof.
  intros W H1 H2 H3 El Ek Hv He HQ.
  assert (G : grow0 s (with_store s x)).
  { constructor; cbn [hp st scap g_slots with_store]; auto; try lia; rewrite ?El, ?Ek; auto. }
  cbn [npost]. split; [|split; [split; [exact G|apply ipge_keep; [exact G|reflexivity]]|exact HQ]].
  apply (wfm_upd s (with_store s x) W G); cbn [hp st acc g_slots with_store]; auto.
  - apply (w_heap s W).
  - apply (w_gbind s W).
  - intros id l i v E1 E2. destruct (Hv id l i v E1 E2) as [H|H]; [left; exact H|right; eapply vwf_grow; eassumption].
  - intros id l i v E1 E2. destruct (He id l i v E1 E2) as [H|H]; [left; exact H|right; eapply vwf_grow; eassumption].
  - intros id l E. left. rewrite <- El. exact E.
  - intros id k E. left. rewrite <- Ek. exact E.
Qed.

Lemma tset_keeps {X} (t : tbl X) i x j : tget t j <> None -> tget (tset t i x) j <> None.
Proof. rewrite tget_tset. destruct (i =? j); [discriminate|auto]. Qed.

Lemma np_str_set i t s : wfm s -> npo s (str_set i t s) T_.
Proof.
  intros W. unfold str_set. apply npost_store; cbn [strs vecs envs lams conts set_str]; eauto 7 using tset_keeps. exact I.
Qed.
Lemma np_str_new t s : wfm s -> npo s (str_new t s) V.
Proof.
  intros W. unfold str_new, new_str. apply npost_store; cbn [strs vecs envs lams conts]; eauto 7 using tset_keeps.
  unfold V. cbn [vwf st with_store strs]. rewrite tget_tset_same. discriminate.
Qed.
Lemma np_vec_set i l s : wfm s -> (forall j v, list_get l j = Some v -> vwf s v) -> npo s (vec_set i l s) T_.
Proof.
  intros W Hl. unfold vec_set. apply npost_store; cbn [strs vecs envs lams conts set_vec]; eauto 7 using tset_keeps; [|exact I].
  intros id l0 j v E1 E2. rewrite tget_tset in E1. destruct (i =? id); [injection E1 as <-; right; eauto|left; eauto].
Qed.
Lemma np_vec_new l s : wfm s -> (forall j v, list_get l j = Some v -> vwf s v) -> npo s (vec_new l s) V.
Proof.
  intros W Hl. unfold vec_new, new_vec. apply npost_store; cbn [strs vecs envs lams conts]; eauto 7 using tset_keeps.
  - intros id l0 j v E1 E2. rewrite tget_tset in E1. destruct (_ =? id); [injection E1 as <-; right; eauto|left; eauto].
  - unfold V. cbn [vwf st with_store vecs]. rewrite tget_tset_same. discriminate.
Qed.

(* ------------------------------------------------------------------ get_as_cell: no site 13 *)
Definition opan {X} (o : out X) : Prop := match o with Panic k => okp k | _ => True end.
Lemma opan_bind {X Y} (o : out X) (f : X -> out Y) :
  opan o -> (forall x, o = Ok x -> opan (f x)) -> opan (bind o f).
Proof. intros H1 H2. destruct o; cbn [bind opan] in *; auto. Qed.
Lemma opan_heap_get s p : opan (heap_get (hp s) p).
Proof. unfold heap_get. destruct (_ <? _); [exact I|reflexivity]. Qed.
Lemma heap_get_ok s p x : heap_get (hp s) p = Ok x -> x = cell_at (hp s) p.
Proof. unfold heap_get, cell_at. destruct (_ <? _); [intros [= <-]; reflexivity|discriminate]. Qed.

Lemma opan_elems (g : vcell -> out cell) l : (forall x, In x l -> opan (g x)) ->
  opan ((fix elems (l : list vcell) : out (list cell) :=
           match l with [] => Ok [] | x :: r => do c <- g x; do cs <- elems r; Ok (c :: cs) end) l).
Proof.
  induction l as [|x r IHr]; intros H; [exact I|].
  apply opan_bind; [apply H; left; reflexivity|]. intros c _.
  apply opan_bind; [|intros; exact I]. apply IHr. intros y Hy. apply H. right. exact Hy.
Qed.
Lemma list_get_in {X} (l : list X) x : In x l -> exists j, list_get l j = Some x.
Proof.
  intros H. apply In_nth_error in H as (n & Hn). exists (N.of_nat n). unfold list_get. rewrite Nnat.Nat2N.id. exact Hn.
Qed.

Lemma get_as_cell_opan bn s : wfm s -> forall fuel v, vwf s v -> opan (get_as_cell bn (hp s) (st s) fuel v).
Proof.
  intros W. induction fuel as [|f IH]; intros v Hv; [exact I|].
  cbn [get_as_cell]. destruct v; try exact I; try reflexivity;
  lazymatch type of Hv with
  | vwf _ (VPair _ ?d) =>
      apply opan_bind; [apply IH; exact I|]; intros ca _;
      apply opan_bind; [apply opan_heap_get|]; intros dv Ed; apply heap_get_ok in Ed; subst dv;
      pose proof (np_wfm_cell s d W) as Hd;
      destruct (cell_at (hp s) d) eqn:Ec; try exact I;
        (apply opan_bind; [apply IH; exact Hd|intros; exact I])
  | vwf _ (VPtr ?p) =>
      apply opan_bind; [apply opan_heap_get|]; intros x Ex; apply heap_get_ok in Ex; subst x;
      apply IH; apply (np_wfm_cell s p W)
  | vwf _ (VStr ?i) => cbn [vwf] in Hv; destruct (tget (strs (st s)) i); [exact I|congruence]
  | vwf _ (VLambda ?i) => cbn [vwf] in Hv; destruct (tget (lams (st s)) i); [exact I|congruence]
  | vwf _ (VClosure _ _) =>
      apply opan_bind; [apply opan_heap_get|]; intros lv El; apply heap_get_ok in El; subst lv;
      cbn [vwf] in Hv; destruct Hv as (lid & C & L); rewrite C;
      destruct (tget (lams (st s)) lid); [exact I|congruence]
  | vwf _ (VVec ?i) =>
      cbn [vwf] in Hv; destruct (tget (vecs (st s)) i) as [l|] eqn:E; [|congruence];
      assert (Hl : forall j v, list_get l j = Some v -> vwf s v)
        by (intros j v Hj; apply (w_vals s W); eapply ip_vec; eassumption);
      apply opan_bind; [|intros; exact I];
      apply (opan_elems (get_as_cell bn (hp s) (st s) f) l); intros x Hx; apply IH;
      apply list_get_in in Hx as (j & Hj); exact (Hl j x Hj)
  end.
Qed.

Lemma np_as_cell bn fuel v s : wfm s -> vwf s v -> npo s (as_cell bn fuel v s) T_.
Proof.
  intros W Hv. unfold as_cell. apply np_lift; [exact W|].
  intros k E. pose proof (get_as_cell_opan bn s W fuel v Hv) as H. rewrite E in H. exact H.
Qed.
Lemma np_to_cell v s : wfm s -> vwf s v -> npo s (to_cell v s) T_.
Proof. intros W Hv. unfold to_cell. apply np_as_cell; assumption. Qed.

