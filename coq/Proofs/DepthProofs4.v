(* DepthProofs4.v — work package c19c: mark through chains of closures and of continuations.
   The witness heaps have the layout the VM model itself builds for
     (define (mk c) (lambda () c))  (mk (mk (mk ...)))                          closures
     (define (mk n acc) (if (= n 0) acc (mk (- n 1) (call/cc (lambda (c) c)))))  continuations
   (checked on instances by vm_compute in Props/C19.v). *)
From Coq Require Import Lia FMapPositive String.
From MW Require Import Model.Base Model.F64 Model.Num Model.NumArith Model.Datum Model.Lex Model.Parse
  Model.TransformDef Model.Transform Model.VmTypes Model.Heap Model.VmBase Model.Compile Model.Gc
  Model.Depth Proofs.DepthProofs Proofs.DepthProofs2 Proofs.DepthProofs3.
Open Scope nat_scope.

Local Ltac nm := unfold nmax in *.
Arguments N.add : simpl never.
Arguments N.sub : simpl never.
Arguments N.mul : simpl never.
Arguments N.eqb : simpl never.
Arguments N.ltb : simpl never.
Arguments N.leb : simpl never.
Arguments N.div : simpl never.
Arguments N.modulo : simpl never.

(* ======================================================== general steps of the marker *)
Section MarkSteps2.
Variable vd : nat.

Lemma fst_frame : forall (x : dgm), fst (let '(d, o) := x in (S d, o)) = S (fst x).
Proof. intros [d o]. reflexivity. Qed.

Lemma seq2_fst_ge : forall (f g : gmap -> dgm) m, fst (seq2 f g m) >= fst (f m).
Proof.
  intros f g m. unfold seq2. destruct (f m) as [d1 o]. destruct o; cbn [fst]; try lia.
  destruct (g a) as [d2 o2]. cbn [fst]. nm. lia.
Qed.
Lemma seq2_snd_ge : forall (f g : gmap -> dgm) m d1 m1, f m = (d1, Ok m1) ->
  fst (seq2 f g m) >= fst (g m1).
Proof.
  intros f g m d1 m1 H. unfold seq2. rewrite H. destruct (g m1) as [d2 o2]. cbn [fst]. nm. lia.
Qed.
Lemma seq_d_head_ge : forall A (f : A -> gmap -> dgm) x r m, fst (seq_d f (x :: r) m) >= fst (f x m).
Proof.
  intros A f x r m. cbn [seq_d]. destruct (f x m) as [d1 o]. destruct o; cbn [fst]; try lia.
  destruct (seq_d f r a) as [d2 o2]. cbn [fst]. nm. lia.
Qed.
Lemma seq_d_skip_ge : forall A (f : A -> gmap -> dgm) x r m d, f x m = (d, Ok m) ->
  fst (seq_d f (x :: r) m) >= fst (seq_d f r m).
Proof.
  intros A f x r m d H. cbn [seq_d]. rewrite H. destruct (seq_d f r m) as [d2 o2]. cbn [fst]. nm. lia.
Qed.

Lemma mark_vcell_lexptr : forall s mr vf p i m, vf >= 1 ->
  fst (mark_vcell_d s mr vf (VLexPtr p i) m) = S (fst (mr p m)).
Proof. intros s mr vf p i m H. destruct vf as [|vf]; [lia|]. cbn [mark_vcell_d]. destruct (mr p m). reflexivity. Qed.

Lemma mark_loop_closure : forall h s f p m lam env,
  (p <? hlen h)%N = true -> g_is_used m p = false -> cell_at h p = VClosure lam env ->
  mark_loop_d h s vd (S f) p m =
  seq2 (fun m => let '(d, o) := mark_loop_d h s vd f lam m in (S d, o))
       (fun m => let '(d, o) := mark_loop_d h s vd f env m in (S d, o)) (tset m p GUsed).
Proof. intros h s f p m lam env H1 H2 H3. cbn [mark_loop_d]. rewrite H1, H2, H3. reflexivity. Qed.
Lemma mark_loop_lexenv : forall h s f p m eid l,
  (p <? hlen h)%N = true -> g_is_used m p = false -> cell_at h p = VLexEnv eid ->
  tget (envs s) eid = Some l ->
  mark_loop_d h s vd (S f) p m =
  seq_d (mark_vcell_d s (fun p m => let '(d, o) := mark_loop_d h s vd f p m in (S d, o)) vd) l
        (tset m p GUsed).
Proof.
  intros h s f p m eid l H1 H2 H3 H4. cbn [mark_loop_d]. rewrite H1, H2, H3. cbn [negb].
  rewrite H4. reflexivity.
Qed.

(* an environment whose first slot is a pointer (an argument moved to the heap) or a slot
   reference into another environment: mark -> mark_vcell -> mark *)
Lemma mark_loop_lexenv_ptr_ge : forall h s f p m eid q r, vd >= 1 ->
  (p <? hlen h)%N = true -> g_is_used m p = false -> cell_at h p = VLexEnv eid ->
  tget (envs s) eid = Some (VPtr q :: r) ->
  fst (mark_loop_d h s vd (S f) p m) >= S (S (fst (mark_loop_d h s vd f q (tset m p GUsed)))).
Proof.
  intros h s f p m eid q r Hvd H1 H2 H3 H4. rewrite (mark_loop_lexenv h s f p m eid _ H1 H2 H3 H4).
  eapply Nat.le_trans; [|apply seq_d_head_ge]. rewrite mark_vcell_ptr by exact Hvd.
  rewrite fst_frame. lia.
Qed.
Lemma mark_loop_lexenv_lexptr_ge : forall h s f p m eid q i r, vd >= 1 ->
  (p <? hlen h)%N = true -> g_is_used m p = false -> cell_at h p = VLexEnv eid ->
  tget (envs s) eid = Some (VLexPtr q i :: r) ->
  fst (mark_loop_d h s vd (S f) p m) >= S (S (fst (mark_loop_d h s vd f q (tset m p GUsed)))).
Proof.
  intros h s f p m eid q i r Hvd H1 H2 H3 H4. rewrite (mark_loop_lexenv h s f p m eid _ H1 H2 H3 H4).
  eapply Nat.le_trans; [|apply seq_d_head_ge]. rewrite mark_vcell_lexptr by exact Hvd.
  rewrite fst_frame. lia.
Qed.

(* a lambda without operands: marked, no nested call *)
Definition clo_lambda : lambda := mk_lambda false false [] [] [] None.
Lemma mark_loop_empty_lambda : forall h s f p m lid,
  (p <? hlen h)%N = true -> cell_at h p = VLambda lid ->
  tget (lams s) lid = Some clo_lambda ->
  mark_loop_d h s vd (S f) p m = (0, Ok (if g_is_used m p then m else tset m p GUsed)).
Proof.
  intros h s f p m lid H1 H2 H3. cbn [mark_loop_d]. rewrite H1. cbn [negb].
  destruct (g_is_used m p); [reflexivity|]. rewrite H2. unfold lambda_body_d. rewrite H3. reflexivity.
Qed.
End MarkSteps2.

(* ===================================================== mark through a closure chain *)
(* the layout OClosureAcc builds for (mk (mk (mk ...))), (define (mk c) (lambda () c)):
   the argument c of mk lives in the environment of mk's frame; the closure's own
   environment has one slot, a LexPtr into that frame environment.
     0: Lambda(Rc 0)
     level k >= 1:  3k-2: LexicalEnvironment(Rc 2k-1) = [Ptr (3k-3)]         (frame of mk: c)
                    3k-1: LexicalEnvironment(Rc 2k)   = [LexPtr (3k-2) 0]    (closure env)
                    3k  : Closure(lambda 0, env 3k-1)                                        *)
Definition clo_cells (i : N) : vcell :=
  if (i =? 0)%N then VLambda 0
  else if (i mod 3 =? 1)%N then VLexEnv (2 * ((i + 2) / 3) - 1)
  else if (i mod 3 =? 2)%N then VLexEnv (2 * ((i + 1) / 3))
  else VClosure 0 (i - 1).
Definition clo_heap (k : nat) : heap := heap_of_fun clo_cells (S (3 * k)).
Definition clo_env (e : N) : list vcell :=
  if N.odd e then [VPtr (3 * ((e + 1) / 2) - 3)] else [VLexPtr (3 * (e / 2) - 2) 0].
Definition clo_store (k : nat) : store :=
  mk_store tempty tempty (tbl_fill clo_env (S (2 * k)) tempty) (tset tempty 0 clo_lambda) tempty tempty
           (N.of_nat (S (2 * k))).

Lemma mod3_of : forall q r, (r < 3)%N -> ((3 * q + r) mod 3 = r)%N.
Proof.
  intros q r Hr. rewrite N.add_comm, N.mul_comm, N.mod_add by lia. apply N.mod_small. exact Hr.
Qed.
Lemma div3_of : forall q r, (r < 3)%N -> ((3 * q + r) / 3 = q)%N.
Proof.
  intros q r Hr. rewrite N.mul_comm, N.div_add_l by lia. rewrite N.div_small by exact Hr. lia.
Qed.
Lemma div2_of : forall q r, (r < 2)%N -> ((2 * q + r) / 2 = q)%N.
Proof.
  intros q r Hr. rewrite N.mul_comm, N.div_add_l by lia. rewrite N.div_small by exact Hr. lia.
Qed.

Lemma clo_cells_frame : forall k, clo_cells (N.of_nat (3 * S k - 2)) = VLexEnv (N.of_nat (2 * S k - 1)).
Proof.
  intro k. unfold clo_cells.
  destruct (N.eqb_spec (N.of_nat (3 * S k - 2)) 0); [lia|].
  replace (N.of_nat (3 * S k - 2)) with (3 * N.of_nat k + 1)%N by lia.
  rewrite mod3_of by lia. change (1 =? 1)%N with true. cbv iota. f_equal.
  replace (3 * N.of_nat k + 1 + 2)%N with (3 * (N.of_nat k + 1) + 0)%N by lia.
  rewrite div3_of by lia. lia.
Qed.
Lemma clo_cells_env : forall k, clo_cells (N.of_nat (3 * S k - 1)) = VLexEnv (N.of_nat (2 * S k)).
Proof.
  intro k. unfold clo_cells.
  destruct (N.eqb_spec (N.of_nat (3 * S k - 1)) 0); [lia|].
  replace (N.of_nat (3 * S k - 1)) with (3 * N.of_nat k + 2)%N by lia.
  rewrite mod3_of by lia. change (2 =? 1)%N with false. change (2 =? 2)%N with true. cbv iota. f_equal.
  replace (3 * N.of_nat k + 2 + 1)%N with (3 * (N.of_nat k + 1) + 0)%N by lia.
  rewrite div3_of by lia. lia.
Qed.
Lemma clo_cells_clo : forall k, clo_cells (N.of_nat (3 * S k)) = VClosure 0 (N.of_nat (3 * S k - 1)).
Proof.
  intro k. unfold clo_cells.
  destruct (N.eqb_spec (N.of_nat (3 * S k)) 0); [lia|].
  replace (N.of_nat (3 * S k)) with (3 * N.of_nat (S k) + 0)%N by lia.
  rewrite mod3_of by lia. change (0 =? 1)%N with false. change (0 =? 2)%N with false. cbv iota.
  f_equal. lia.
Qed.
Lemma clo_store_frame : forall n k, k < n ->
  tget (envs (clo_store n)) (N.of_nat (2 * S k - 1)) = Some [VPtr (N.of_nat (3 * k))].
Proof.
  intros n k H. unfold clo_store. cbn [envs]. rewrite tbl_fill_get by lia. unfold clo_env.
  replace (N.of_nat (2 * S k - 1)) with (1 + 2 * N.of_nat k)%N by lia.
  rewrite N.odd_add_mul_2. change (N.odd 1) with true. cbv iota.
  replace (1 + 2 * N.of_nat k + 1)%N with (2 * (N.of_nat k + 1) + 0)%N by lia.
  rewrite div2_of by lia. do 3 f_equal. lia.
Qed.
Lemma clo_store_env : forall n k, k < n ->
  tget (envs (clo_store n)) (N.of_nat (2 * S k)) = Some [VLexPtr (N.of_nat (3 * S k - 2)) 0].
Proof.
  intros n k H. unfold clo_store. cbn [envs]. rewrite tbl_fill_get by lia. unfold clo_env.
  replace (N.of_nat (2 * S k)) with (0 + 2 * N.of_nat (S k))%N by lia.
  rewrite N.odd_add_mul_2. change (N.odd 0) with false. cbv iota.
  replace (0 + 2 * N.of_nat (S k))%N with (2 * N.of_nat (S k) + 0)%N by lia.
  rewrite div2_of by lia. do 3 f_equal. lia.
Qed.

Section MarkClosure.
Variable vd : nat.

Lemma clo_cell_at : forall n p, (p < N.of_nat (S (3 * n)))%N -> cell_at (clo_heap n) p = clo_cells p.
Proof. intros n p H. unfold clo_heap. apply heap_of_fun_cell_at. exact H. Qed.
Lemma clo_hlen : forall n p, (p < N.of_nat (S (3 * n)))%N -> (p <? hlen (clo_heap n))%N = true.
Proof. intros n p H. unfold clo_heap. rewrite hlen_heap_of_fun. apply N.ltb_lt. exact H. Qed.

(* five frames per closure: mark(closure) -> mark(its environment) -> mark_vcell(LexPtr) ->
   mark(the frame environment) -> mark_vcell(Ptr) -> mark(the next closure) *)
Lemma mark_loop_closure_ge : forall n k fuel m, k <= n -> fuel >= 3 * k -> vd >= 1 ->
  (forall i, 1 <= i -> i <= 3 * k -> g_is_used m (N.of_nat i) = false) ->
  fst (mark_loop_d (clo_heap n) (clo_store n) vd fuel (N.of_nat (3 * k)) m) >= 5 * k.
Proof.
  intros n. induction k as [|k IH]; intros fuel m Hk Hf Hvd Hm; [lia|].
  destruct fuel as [|[|[|f]]]; try lia.
  set (pc := N.of_nat (3 * S k)). set (pe := N.of_nat (3 * S k - 1)). set (pf := N.of_nat (3 * S k - 2)).
  rewrite (mark_loop_closure vd _ _ _ pc m 0%N pe);
    [|apply clo_hlen; subst pc; lia|apply Hm; lia
     |subst pc pe; rewrite clo_cell_at by lia; apply clo_cells_clo].
  assert (Hq : mark_loop_d (clo_heap n) (clo_store n) vd (S (S f)) 0%N (tset m pc GUsed) =
               (0, Ok (if g_is_used (tset m pc GUsed) 0%N then tset m pc GUsed
                       else tset (tset m pc GUsed) 0%N GUsed))).
  { apply (mark_loop_empty_lambda vd _ _ _ _ _ 0%N); [apply clo_hlen; lia| |reflexivity].
    rewrite clo_cell_at by lia. reflexivity. }
  set (m1 := if g_is_used (tset m pc GUsed) 0%N then tset m pc GUsed
             else tset (tset m pc GUsed) 0%N GUsed) in *.
  eapply Nat.le_trans; [|eapply seq2_snd_ge; rewrite Hq; reflexivity]. cbv beta.
  rewrite fst_frame.
  assert (Hm1 : forall i, 1 <= i -> i <= 3 * k + 2 -> g_is_used m1 (N.of_nat i) = false).
  { intros i H1 Hi. subst m1. apply unused_after_leaf; [lia|].
    rewrite g_is_used_tset_neq by (subst pc; lia). apply Hm; lia. }
  (* the closure's environment: one LexPtr slot into the frame environment *)
  pose proof (mark_loop_lexenv_lexptr_ge vd (clo_heap n) (clo_store n) (S f) pe m1
                (N.of_nat (2 * S k)) pf 0%N [] Hvd) as He.
  specialize (He ltac:(apply clo_hlen; subst pe; lia) ltac:(subst pe; apply Hm1; lia)
                 ltac:(subst pe; rewrite clo_cell_at by lia; apply clo_cells_env)
                 ltac:(subst pf; apply clo_store_env; lia)).
  set (m2 := tset m1 pe GUsed) in *.
  assert (Hm2 : forall i, 1 <= i -> i <= 3 * k + 1 -> g_is_used m2 (N.of_nat i) = false).
  { intros i H1 Hi. subst m2. rewrite g_is_used_tset_neq by (subst pe; lia). apply Hm1; lia. }
  (* the frame environment of mk: its slot is a pointer to the previous closure *)
  pose proof (mark_loop_lexenv_ptr_ge vd (clo_heap n) (clo_store n) f pf m2
                (N.of_nat (2 * S k - 1)) (N.of_nat (3 * k)) [] Hvd) as Hf2.
  specialize (Hf2 ltac:(apply clo_hlen; subst pf; lia) ltac:(subst pf; apply Hm2; lia)
                  ltac:(subst pf; rewrite clo_cell_at by lia; apply clo_cells_frame)
                  ltac:(apply clo_store_frame; lia)).
  specialize (IH f (tset m2 pf GUsed) ltac:(lia) ltac:(lia) Hvd).
  assert (Hm3 : forall i, 1 <= i -> i <= 3 * k -> g_is_used (tset m2 pf GUsed) (N.of_nat i) = false).
  { intros i H1 Hi. rewrite g_is_used_tset_neq by (subst pf; lia). apply Hm2; lia. }
  specialize (IH Hm3). lia.
Qed.

Lemma mark_closure_ge : forall n k fuel, k <= n -> fuel >= 3 * k -> vd >= 1 ->
  fst (mark_d (clo_heap n) (clo_store n) vd fuel (N.of_nat (3 * k)) tempty) >= 5 * k + 1.
Proof.
  intros n k fuel Hk Hf Hvd. unfold mark_d.
  pose proof (mark_loop_closure_ge n k fuel tempty Hk Hf Hvd) as H.
  destruct (mark_loop_d (clo_heap n) (clo_store n) vd fuel (N.of_nat (3 * k)) tempty) as [d o].
  cbn [fst] in *. assert (d >= 5 * k); [|lia]. apply H. intros i _ _. apply unused_tempty.
Qed.
Lemma mark_closure_unbounded : forall k fuel, fuel >= 3 * k + 3 -> vd >= 1 ->
  fst (mark_d (clo_heap (S k)) (clo_store (S k)) vd fuel (N.of_nat (3 * S k)) tempty) > k.
Proof. intros k fuel Hf Hvd. pose proof (mark_closure_ge (S k) (S k) fuel ltac:(lia) ltac:(lia) Hvd). lia. Qed.
End MarkClosure.

(* ================================================= mark through a continuation chain *)
(* the layout of (define (mk n acc) (if (= n 0) acc (mk (- n 1) (call/cc (lambda (c) c))))):
   mk is a tail loop, so every captured stack is the same one frame of mk, whose argument
   slot acc is a pointer to the PREVIOUS continuation object:
     0: Lambda(Rc 0)    1: LexicalEnvironment(Rc 1) = []
     a >= 2:  Continuation(Rc a) = { stack = [Undefined; n; Ptr (a-1); Argc 2; Ep; Ip; Bp],
                                     ip = (0, 0), ep = 1 }                                   *)
Definition cont_cells (i : N) : vcell :=
  if (i =? 0)%N then VLambda 0 else if (i =? 1)%N then VLexEnv 1 else VCont i.
Definition cont_heap (k : nat) : heap := heap_of_fun cont_cells (k + 2).
Definition cont_stack (a : N) : list vcell :=
  [VUndef; VNum (Fixnum 1); VPtr (a - 1); VArgc 2; VEp 1; VIp 0 6; VBp 0].
Definition cont_obj (a : N) : cont := mk_cont (cont_stack a) 6 1 (0%N, 0%N) 2.
Definition cont_store (k : nat) : store :=
  mk_store tempty tempty (tset tempty 1 []) (tset tempty 0 clo_lambda)
           (tbl_fill cont_obj (k + 2) tempty) tempty (N.of_nat (k + 2)).

Section MarkCont.
Variable vd : nat.

Lemma mark_loop_cont : forall h s f p m cid k,
  (p <? hlen h)%N = true -> g_is_used m p = false -> cell_at h p = VCont cid ->
  tget (conts s) cid = Some k ->
  mark_loop_d h s vd (S f) p m =
  seq2 (seq_d (mark_vcell_d s (fun p m => let '(d, o) := mark_loop_d h s vd f p m in (S d, o)) vd) (k_stack k))
       (seq2 (fun m => let '(d, o) := mark_loop_d h s vd f (fst (k_ip k)) m in (S d, o))
             (fun m => let '(d, o) := mark_loop_d h s vd f (k_ep k) m in (S d, o))) (tset m p GUsed).
Proof.
  intros h s f p m cid k H1 H2 H3 H4. cbn [mark_loop_d]. rewrite H1, H2, H3. cbn [negb].
  unfold cont_body_d. rewrite H4. reflexivity.
Qed.

Lemma mark_vcell_undef : forall s mr vf m, vf >= 1 -> mark_vcell_d s mr vf VUndef m = (1, Ok m).
Proof. intros s mr vf m H. destruct vf as [|vf]; [lia|]. reflexivity. Qed.
Lemma mark_vcell_num : forall s mr vf x m, vf >= 1 -> mark_vcell_d s mr vf (VNum x) m = (1, Ok m).
Proof. intros s mr vf x m H. destruct vf as [|vf]; [lia|]. reflexivity. Qed.

Lemma cont_cells_S : forall k, cont_cells (N.of_nat (S k + 1)) = VCont (N.of_nat (S k + 1)).
Proof.
  intro k. unfold cont_cells.
  destruct (N.eqb_spec (N.of_nat (S k + 1)) 0); [lia|].
  destruct (N.eqb_spec (N.of_nat (S k + 1)) 1); [lia|reflexivity].
Qed.
Lemma cont_store_get : forall n k, k < n ->
  tget (conts (cont_store n)) (N.of_nat (S k + 1)) =
  Some (mk_cont (VUndef :: VNum (Fixnum 1) :: VPtr (N.of_nat (k + 1)) :: [VArgc 2; VEp 1; VIp 0 6; VBp 0])
                6 1 (0%N, 0%N) 2).
Proof.
  intros n k H. unfold cont_store. cbn [conts]. rewrite tbl_fill_get by lia.
  unfold cont_obj, cont_stack. do 6 f_equal. lia.
Qed.

(* two frames per continuation: mark(continuation) -> mark_vcell(stack slot acc) -> mark *)
Lemma mark_loop_cont_ge : forall n k fuel m, k <= n -> fuel >= k -> vd >= 1 ->
  (forall i, 2 <= i -> i <= k + 1 -> g_is_used m (N.of_nat i) = false) ->
  fst (mark_loop_d (cont_heap n) (cont_store n) vd fuel (N.of_nat (k + 1)) m) >= 2 * k.
Proof.
  intros n. induction k as [|k IH]; intros fuel m Hk Hf Hvd Hm; [lia|].
  destruct fuel as [|f]; [lia|].
  assert (H1 : (N.of_nat (S k + 1) <? hlen (cont_heap n))%N = true)
    by (unfold cont_heap; rewrite hlen_heap_of_fun; apply N.ltb_lt; lia).
  assert (H2 : g_is_used m (N.of_nat (S k + 1)) = false) by (apply Hm; lia).
  assert (H3 : cell_at (cont_heap n) (N.of_nat (S k + 1)) = VCont (N.of_nat (S k + 1)))
    by (unfold cont_heap; rewrite heap_of_fun_cell_at by lia; apply cont_cells_S).
  rewrite (mark_loop_cont (cont_heap n) (cont_store n) f _ m _ _ H1 H2 H3 (cont_store_get n k ltac:(lia))).
  cbn [k_stack].
  eapply Nat.le_trans; [|apply seq2_fst_ge].
  eapply Nat.le_trans; [|eapply seq_d_skip_ge; apply mark_vcell_undef; exact Hvd].
  eapply Nat.le_trans; [|eapply seq_d_skip_ge; apply mark_vcell_num; exact Hvd].
  eapply Nat.le_trans; [|apply seq_d_head_ge].
  rewrite mark_vcell_ptr by exact Hvd. rewrite fst_frame.
  specialize (IH f (tset m (N.of_nat (S k + 1)) GUsed) ltac:(lia) ltac:(lia) Hvd).
  assert (Hm' : forall i, 2 <= i -> i <= k + 1 ->
                 g_is_used (tset m (N.of_nat (S k + 1)) GUsed) (N.of_nat i) = false).
  { intros i Hi2 Hi. rewrite g_is_used_tset_neq by lia. apply Hm; lia. }
  specialize (IH Hm'). lia.
Qed.

Lemma mark_cont_ge : forall n k fuel, k <= n -> fuel >= k -> vd >= 1 ->
  fst (mark_d (cont_heap n) (cont_store n) vd fuel (N.of_nat (k + 1)) tempty) >= 2 * k + 1.
Proof.
  intros n k fuel Hk Hf Hvd. unfold mark_d.
  pose proof (mark_loop_cont_ge n k fuel tempty Hk Hf Hvd) as H.
  destruct (mark_loop_d (cont_heap n) (cont_store n) vd fuel (N.of_nat (k + 1)) tempty) as [d o].
  cbn [fst] in *. assert (d >= 2 * k); [|lia]. apply H. intros i _ _. apply unused_tempty.
Qed.
Lemma mark_cont_unbounded : forall k fuel, fuel >= k + 1 -> vd >= 1 ->
  fst (mark_d (cont_heap (S k)) (cont_store (S k)) vd fuel (N.of_nat (S k + 1)) tempty) > k.
Proof. intros k fuel Hf Hvd. pose proof (mark_cont_ge (S k) (S k) fuel ltac:(lia) ltac:(lia) Hvd). lia. Qed.
End MarkCont.
