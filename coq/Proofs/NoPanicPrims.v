(* NoPanicPrims.v — C06: the primitives of VmBase.v / Vm.v in the [npost] calculus of NoPanicBase.v *)
From Coq Require Import Lia List.
From MW Require Import Model.Base Model.F64 Model.Num Model.Datum Model.TransformDef Model.Transform
  Model.VmTypes Model.Heap Model.Gc Model.VmBase Model.Compile Model.Vm
  Proofs.GcProofs Proofs.SymtabProofs Proofs.VmProofs0 Proofs.TailProofs Proofs.EnvProofs
  Proofs.FlatProofs Proofs.NoPanicBase.
Open Scope N_scope.
Arguments N.add : simpl never.
Arguments N.sub : simpl never.
Arguments N.eqb : simpl never.
Arguments N.ltb : simpl never.
Arguments N.leb : simpl never.
Arguments N.mul : simpl never.

Definition V : vm -> vcell -> Prop := vwf.
Definition T_ {X} : vm -> X -> Prop := fun _ _ => True.

Lemma sget_tset s t i v j : stack s = t -> True -> 
  match tget (tset t i v) j with Some w => w | None => VUndef end = if i =? j then v else sget s j.
Proof. intros <- _. rewrite tget_tset. unfold sget. destruct (i =? j); reflexivity. Qed.

Section Prims.
Variable A : N -> Prop.
Notation npost := (npost A).

Lemma np_wfm_stack s i : wfm s -> vwf s (sget s i).
Proof. intros W. apply (w_vals s W). constructor. Qed.
Lemma np_wfm_acc s : wfm s -> vwf s (acc s).
Proof. intros W. apply (w_vals s W). constructor. Qed.
Lemma np_wfm_cell s a : wfm s -> vwf s (cell_at (hp s) a).
Proof. intros W. apply (w_vals s W). constructor. Qed.

Lemma np_push v s : wfm s -> vwf s v -> npost s (push v s) T_.
Proof.
  intros W Hv. unfold push. apply npost_regs; cbn [hp st g_slots scap acc ip with_scap with_stack]; auto.
  - destruct (sp s + 1 <? scap s); lia.
  - intros i. unfold sget. cbn [stack with_scap with_stack]. rewrite tget_tset.
    destruct (sp s + 1 =? i); [right; exact Hv|left; reflexivity].
  - exact I.
Qed.
Lemma np_pop_raw s : wfm s -> npost s (pop_raw s) V.
Proof.
  intros W. unfold pop_raw. destruct (sp s =? 0); [apply npost_fail, W|].
  destruct (sp s <? scap s).
  - apply npost_regs; cbn [hp st g_slots scap acc ip with_sp with_stack]; auto; try lia.
    unfold V. apply (vwf_grow s); [|apply np_wfm_stack, W].
    apply grow0_nostore; cbn [hp st g_slots scap with_sp with_stack]; auto; lia.
  - assert (H : npost s (ROk tt (with_sp s (sp s - 1))) T_).
    { apply npost_regs; cbn [hp st g_slots scap acc ip with_sp with_stack]; auto; try lia. exact I. }
    cbn in H |- *. destruct H as (H1 & H2 & _). auto.
Qed.
Lemma np_stack_get i s : wfm s -> npost s (stack_get i s) V.
Proof.
  intros W. unfold stack_get. destruct (i <? scap s); [|apply npost_fail, W].
  apply npost_ret; [exact W|apply np_wfm_stack, W].
Qed.
Lemma np_stack_put i v s : wfm s -> vwf s v -> npost s (stack_put i v s) T_.
Proof.
  intros W Hv. unfold stack_put. destruct (i <? scap s); [|apply npost_fail, W].
  apply npost_regs; cbn [hp st g_slots scap acc ip with_stack]; auto; try lia.
  - intros j. unfold sget. cbn [stack with_stack]. rewrite tget_tset.
    destruct (i =? j); [right; exact Hv|left; reflexivity].
  - exact I.
Qed.
Lemma np_stack_get_offset o s : wfm s -> npost s (stack_get_offset o s) V.
Proof. intros W. unfold stack_get_offset. destruct (_ <? 0)%Z; [apply npost_fail, W|apply np_stack_get, W]. Qed.
Lemma np_stack_put_offset o v s : wfm s -> vwf s v -> npost s (stack_put_offset o v s) T_.
Proof. intros W Hv. unfold stack_put_offset. destruct (_ <? 0)%Z; [apply npost_fail, W|apply np_stack_put; assumption]. Qed.

Lemma np_set_acc v s : wfm s -> vwf s v -> npost s (set_acc v s) T_.
Proof. intros W Hv. unfold set_acc. apply npost_regs; cbn [hp st g_slots scap acc ip with_acc]; auto; try lia. exact I. Qed.
Lemma np_set_bp b s : wfm s -> npost s (set_bp b s) T_.
Proof. intros W. unfold set_bp. apply npost_regs; cbn [hp st g_slots scap acc ip with_bp]; auto; try lia. exact I. Qed.
Lemma np_set_ep b s : wfm s -> npost s (set_ep b s) T_.
Proof. intros W. unfold set_ep. apply npost_regs; cbn [hp st g_slots scap acc ip with_ep]; auto; try lia. exact I. Qed.
Lemma np_set_sp b s : wfm s -> npost s (set_sp b s) T_.
Proof. intros W. unfold set_sp. apply npost_regs; cbn [hp st g_slots scap acc ip with_sp with_stack]; auto; try lia. exact I. Qed.
Lemma np_set_ip i s : wfm s -> 1 <= snd i -> lamcell s (fst i) -> npost s (set_ip i s) (fun s' _ => ip s' = i).
Proof.
  intros W Hi Hl. unfold set_ip. apply npost_regs; cbn [hp st g_slots scap acc ip with_ip]; auto; try lia.
  intros _. split; [exact Hi|exact Hl].
Qed.
(* any target: a normal exit only *)
Lemma grow0_with_ip s i : grow0 s (with_ip s i).
Proof. apply grow0_nostore; cbn [hp st g_slots scap with_ip]; auto; lia. Qed.
Lemma wfm_with_ip s i : wfm s -> wfm (with_ip s i).
Proof.
  intros W. apply (wfm_nostore s (with_ip s i) W eq_refl (grow0_with_ip s i)); cbn [hp acc g_slots with_ip]; auto.
  - apply (w_heap s W).
  - apply (w_gbind s W).
Qed.
Lemma np0_set_ip i s : wfm s -> npost0 A s (set_ip i s) (fun s' _ => ip s' = i).
Proof.
  intros W. unfold set_ip. cbn [npost0]. split; [apply wfm_with_ip, W|]. split; [apply grow0_with_ip|reflexivity].
Qed.
End Prims.
