(* MonoStep.v — every instruction of run_one, the builtins of procedure.rs / ports.rs, the run
   loop and Vm::eval are [kmono]: the stack capacity never shrinks, Rc ids only grow and no
   continuation object is ever removed or overwritten.  Generic in the table [ob] of the
   other builtins, under the hypothesis that each of them is [kmono].                    *)
From Coq Require Import Lia List String.
From MW Require Import Model.Base Model.F64 Model.Num Model.Datum Model.TransformDef Model.Transform
  Model.VmTypes Model.Heap Model.VmBase Model.Compile Model.Vm
  Proofs.VmProofs0 Proofs.TailProofs Proofs.RunProofs Proofs.RunProofs2 Proofs.MonoBase Proofs.MonoCompile.
Open Scope N_scope.
Arguments N.add : simpl never.
Arguments N.sub : simpl never.
Arguments N.eqb : simpl never.
Arguments N.ltb : simpl never.
Arguments N.leb : simpl never.
Arguments N.mul : simpl never.

Notation km := (mono kmono).

(* ------------------------------------------------------------------ procedure.rs / ports.rs *)
Lemma km_pop_n_cells n : forall acc0, km (pop_n_cells n acc0).
Proof. induction n; intros acc0; cbn [pop_n_cells]; mgo. Qed.
#[export] Hint Resolve km_pop_n_cells : mono.
Lemma km_b_error : km b_error. Proof. mgo. Qed.
Lemma km_b_display wr : km (b_display wr).
Proof.
  unfold b_display. apply mono_bind; [exact _|mgo|intros _]. apply mono_bind; [exact _|mgo|intros v].
  apply mono_bind; [exact _|mgo|intros c]. apply (mono_log (fun s => _ :: out_log s)).
Qed.
Lemma km_b_call_cc : km b_call_cc. Proof. mgo. Qed.
Lemma km_b_apply : km b_apply.
Proof.
  unfold b_apply.
  apply mono_bind; [exact _|mgo|intros argc]. apply mono_bind; [exact _|mgo|intros rest].
  assert (Hshift : forall k,
    km ((fix shift (k : nat) : M unit :=
           match k with
           | O => ret tt
           | S k' => let it := Z.of_nat k' in
                     dom v <- stack_get_offset (- it)%Z;
                     dom _ <- stack_put_offset (- it - 1)%Z v; shift k'
           end) k)).
  { induction k; cbv beta iota; mgo. }
  assert (Hspread : forall fuel r n,
    km ((fix spread (fuel : nat) (r : vcell) (n : N) : M N :=
           match fuel with
           | O => fun _ => RNoFuel
           | S f =>
               match r with
               | VPair a d => dom _ <- push (VPtr a); dom r' <- hget d; spread f r' (n + 1)
               | VNil => ret n
               | _ => fail E_OTHER
               end
           end) fuel r n)).
  { induction fuel; intros r n; cbv beta iota; [apply mono_nofuel|]. destruct r; mgo. }
  destruct rest; mgo.
Qed.
#[export] Hint Resolve km_b_error km_b_display km_b_call_cc km_b_apply b_eval_kmono : mono.

(* ------------------------------------------------------------------ run_one *)
Section Step.
Variable ob : N -> M vcell.
Hypothesis OB : forall b, km (ob b).

Lemma km_run_builtin b : km (run_builtin ob b).
Proof. unfold run_builtin. mgo. Qed.
Hint Resolve km_run_builtin : mono.
Lemma km_resolve_callee : km (resolve_callee ob). Proof. mgo. Qed.
Lemma km_tcall_copy k : forall it, km (tcall_copy k it).
Proof. induction k; intros it; cbn [tcall_copy]; mgo. Qed.
Lemma km_tcall_rebuild k saved : km (tcall_rebuild k saved).
Proof. induction k; cbn [tcall_rebuild]; mgo. Qed.
Lemma km_vararg_collect k : forall v, km (vararg_collect k v).
Proof. induction k; intros v; cbn [vararg_collect]; mgo. Qed.
Hint Resolve km_resolve_callee km_tcall_copy km_tcall_rebuild km_vararg_collect : mono.
Lemma km_tcall_frame lam : km (tcall_frame lam). Proof. mgo. Qed.
Lemma km_build_lexical_environment l cep cenv : km (build_lexical_environment l cep cenv).
Proof. apply pure_mono; [exact _|apply pure_build_lexical_environment]. Qed.
Lemma km_build_closure_environment m : km (build_closure_environment m).
Proof.
  unfold build_closure_environment.
  match goal with |- km (?g _ _) => assert (H : forall m0 acc0, km (g m0 acc0)) end; [|apply H].
  induction m0 as [|[sym src] r IH]; intros acc0; [mgo|]. destruct src; mgo.
Qed.
Hint Resolve km_tcall_frame km_build_lexical_environment km_build_closure_environment : mono.
Lemma km_enter_frame : km enter_frame. Proof. mgo. Qed.
Lemma km_load_operand : km load_operand. Proof. mgo. Qed.
Lemma km_store_operand v : km (store_operand v).
Proof.
  unfold store_operand. apply mono_bind; [exact _|mgo|intros o]. apply mono_bind; [exact _|mgo|intros s].
  destruct o; try mgo. destruct (_ <? _); [apply mono_set_globals|mgo].
Qed.
Hint Resolve km_enter_frame km_load_operand km_store_operand : mono.

Theorem km_run_one : km (run_one ob).
Proof. unfold run_one. apply mono_bind; [exact _|mgo|intros op]. destruct op; mgo. Qed.
End Step.

(* ------------------------------------------------------------------ run loop, Vm::eval *)
Section Run.
Variable ob : N -> M vcell.
Hypothesis OB : forall b, km (ob b).

Lemma step_kmono s r s' : run_one ob s = ROk r s' -> kmono s s'.
Proof. apply (mono_ok kmono), km_run_one, OB. Qed.
Lemma step_err_kmono s e m s' : run_one ob s = RErr e m s' -> kmono s s'.
Proof. apply (mono_err kmono), km_run_one, OB. Qed.

Lemma steps_kmono n : forall s s', RunProofs.steps ob n s = Some s' -> kmono s s'.
Proof.
  induction n as [|n IH]; intros s s' H; cbn [RunProofs.steps] in H.
  - injection H as <-. apply kmono_refl.
  - destruct (run_one ob s) as [[|] s1| | |] eqn:E; try discriminate.
    eapply kmono_trans; [exact (step_kmono _ _ _ E)|exact (IH _ _ H)].
Qed.

Lemma halt_result_kmono s : rpost kmono s (halt_result s).
Proof.
  unfold halt_result. pose proof (mono_to_cell kmono (acc s) s) as H.
  destruct (to_cell (acc s) s) as [c s1|e m s1| |]; unfold rpost in *; try exact I; [|exact H].
  destruct H as [H1 H2]. split; [exact H1|exact H2].
Qed.
Lemma fail_result_kmono e msg s : rpost kmono s (fail_result e msg s).
Proof.
  unfold fail_result. destruct (stack_trace s); unfold rpost; try exact I.
  apply kmono_regs; cbn; [lia|reflexivity].
Qed.

Theorem run_loop_kmono fuel : forall cyc count s, rpost kmono s (run_loop ob fuel cyc count s).
Proof.
  induction fuel as [|f IH]; intros cyc count s; [exact I|]. rewrite run_loop_S.
  pose proof (km_run_one ob OB s) as H1.
  destruct (run_one ob s) as [[|] s1|e1 m1 s1| |]; unfold rpost in H1; try exact I.
  - pose proof (halt_result_kmono s1) as H2. destruct (halt_result s1); unfold rpost in *; try exact I;
      eapply kmono_trans; eassumption.
  - destruct (match count with Some c => cyc + 1 =? c | None => false end); [exact H1|].
    specialize (IH (cyc + 1) count s1). destruct (run_loop ob f (cyc + 1) count s1); unfold rpost in *; try exact I;
      eapply kmono_trans; eassumption.
  - pose proof (fail_result_kmono e1 m1 s1) as H2. destruct (fail_result e1 m1 s1); unfold rpost in *; try exact I;
      eapply kmono_trans; eassumption.
Qed.

Theorem eval_kmono fuel e s : rpost kmono s (eval ob fuel e s).
Proof.
  unfold eval. pose proof (prepare_eval_kmono e s) as H1.
  destruct (prepare_eval e s) as [u s1|e1 m1 s1| |]; unfold rpost in H1; try exact I; [|exact H1].
  pose proof (run_loop_kmono fuel 0 None s1) as H2. unfold run_count.
  destruct (run_loop ob fuel 0 None s1); unfold rpost in *; try exact I; eapply kmono_trans; eassumption.
Qed.

(* the hypothesis of RunProofs2's capacity theorems *)
Theorem cap_monotone_of : cap_monotone ob.
Proof.
  split; [|split].
  - intros s r s' H. exact (km_cap _ _ (step_kmono _ _ _ H)).
  - intros s e m s' H. exact (km_cap _ _ (step_err_kmono _ _ _ _ H)).
  - intros c s u s' H. exact (km_cap _ _ (mono_ok kmono _ _ _ _ (prepare_eval_kmono c) H)).
Qed.
End Run.
