(* EvalFragment3.v — C01: closures as values, run-time part.
   exec3_lam (a lambda expression evaluates to a closure whose captured slots point to the slots
   of the enclosing activation environments), callee_run3 (from ENTER of a closure to the state
   after its RET, or after the RET of the frame a tail call put in its place), exec3_app_closure
   (CALL / TCALL of an operator that evaluated to a closure), compile_correct3 (by induction on
   the reference derivation), eval_fragment3 (Vm::eval).                                      *)
From Coq Require Import String Lia FMapPositive.
From MW Require Import Model.Base Model.F64 Model.Num Model.Datum Model.TransformDef Model.Transform
  Model.VmTypes Model.Heap Model.Gc Model.VmBase Model.Compile Model.Vm
  Proofs.VmProofs0 Proofs.GcProofs Proofs.SymtabProofs Proofs.QuoteHeapProofs
  Proofs.CompileProofs Proofs.RunProofs Proofs.CompileCorrect Proofs.TailProofs Proofs.FrameSteps
  Proofs.CellFuelProofs Proofs.CompileCorrect2 Proofs.FrameSteps3 Proofs.Closures3.
From MW Require Proofs.ScopeProofs.
Open Scope N_scope.

Arguments N.add : simpl never.
Arguments N.sub : simpl never.
Arguments N.mul : simpl never.
Arguments N.eqb : simpl never.
Arguments N.ltb : simpl never.
Arguments N.leb : simpl never.

Lemma Forall2_nth_l {A B} (P : A -> B -> Prop) la lb : Forall2 P la lb ->
  forall i a, nth_error la i = Some a -> exists b, nth_error lb i = Some b /\ P a b.
Proof.
  induction 1 as [|a0 b0 la lb H0 _ IH]; intros i a Hi; [destruct i; discriminate|].
  destruct i as [|i]; cbn [nth_error] in *; [injection Hi as <-; eauto|apply IH; exact Hi].
Qed.
Lemma Forall2_length {A B} (P : A -> B -> Prop) la lb : Forall2 P la lb -> length la = length lb.
Proof. intros H. induction H; cbn [length]; congruence. Qed.
Lemma nth_error_lt {A} (l : list A) i x : nth_error l i = Some x -> (i < length l)%nat.
Proof. intros H. apply nth_error_Some. congruence. Qed.
Lemma list_get_nth {A} (l : list A) i : list_get l i = nth_error l (N.to_nat i).
Proof. reflexivity. Qed.
Lemma len_repeat {A} (x : A) n : len (repeat x n) = N.of_nat n.
Proof. unfold len. rewrite repeat_length. reflexivity. Qed.
Lemma len_map {A B} (f : A -> B) l : len (map f l) = len l.
Proof. unfold len. rewrite map_length. reflexivity. Qed.

Section Run3.
Variable ob : N -> M vcell.
Variable bsem : N -> list rval -> option rval.
Notation run_one := (Vm.run_one ob).
Notation steps := (RunProofs.steps ob).

(* the environment %ep points to, as a function of the machine *)
Lemma lrel3_env lv m i r : lrel3 lv m -> nth_error lv (N.to_nat i) = Some r ->
  exists eid slots v, heap_get (hp m) (ep m) = Ok (VLexEnv eid) /\ eid < next_id (st m) /\
    allocated (hp m) (ep m) /\ cell_at (hp m) (ep m) = VLexEnv eid /\
    tget (envs (st m)) eid = Some slots /\ list_get slots i = Some v /\ slot_holds m v r.
Proof.
  intros L Hi. destruct (L i r Hi) as (eid & slots & v & A & C & Lt & T & G & H).
  exists eid, slots, v. rewrite (heap_get_alloc _ _ A), C. auto 10.
Qed.

(* ------------------------------------------------------------ (lambda ...) evaluates to a closure *)
Lemma exec3_lam s0 p lamp lamF caps sc ps cs body tail lv rho cvals :
  lam_in s0 lamp lamF -> l_envmap lamF = ScopeProofs.enum_args (l_args lamF) 0 ++ caps ->
  Forall2 (pname s0) (l_args lamF) ps ->
  Forall2 (fun e x => pname s0 (fst e) x /\ exists k, snd e = BIofEnvironment k /\ pindex x sc = Some k) caps cs ->
  closure_code s0 lamp ps cs body ->
  Forall2 (fun x v => exists i, pindex x sc = Some i /\ nth_error lv (N.to_nat i) = Some v) cs cvals ->
  exec3 ob s0 p [VOp OMovImmediate; VPtr lamp; VAcc; VOp OClosureAcc] tail lv rho (R3Clo ps cs body cvals) rho.
Proof.
  intros Hlam Hem Fa Fc CC Fv m lp bc X MI Hc Hs Hip G L _. left.
  change [VOp OMovImmediate; VPtr lamp; VAcc; VOp OClosureAcc]
    with ([VOp OMovImmediate; VPtr lamp; VAcc] ++ [VOp OClosureAcc]) in Hs.
  apply seg_app in Hs as [Hsm Hscl]. rewrite len3 in Hscl.
  pose proof (step_movimm ob m lp p bc (VPtr lamp) Hc Hip Hsm ltac:(discriminate)) as Em.
  set (m3 := with_acc (with_ip m (lp, p + 3)) (VPtr lamp)) in *.
  assert (SM3 : same_mem m m3) by (repeat split).
  pose proof (same_mem_minv _ _ SM3 MI) as MI3.
  assert (Hc3 : code_in m3 lp bc) by (eapply code_in_regs; [| |exact Hc]; reflexivity).
  destruct (lam_in_ext _ _ _ _ X Hlam) as (lid & Al & Cl & Ltl & Tl).
  (* the current environment, needed when something is captured *)
  assert (Henv : exists eid slots,
            (caps = [] \/ (heap_get (hp m3) (ep m3) = Ok (VLexEnv eid) /\ tget (envs (st m3)) eid = Some slots /\
                           caps_ok caps (len slots))) /\
            forall k e x cv, nth_error caps k = Some e -> nth_error cs k = Some x -> nth_error cvals k = Some cv ->
              exists kk v, snd e = BIofEnvironment kk /\ allocated (hp m) (ep m) /\ cell_at (hp m) (ep m) = VLexEnv eid /\
                eid < next_id (st m) /\ tget (envs (st m)) eid = Some slots /\ list_get slots kk = Some v /\
                slot_holds m v cv).
  { destruct caps as [|e0 caps'].
    - exists 0, []. split; [left; reflexivity|]. intros k e x cv Hk. destruct k; discriminate.
    - inversion Fc as [|e0' x0 caps'' cs' (_ & k0 & Hs0 & Hp0) Fc' E1 E2]; subst.
      inversion Fv as [|x0' v0 cs'' cvals' (i0 & Hi0 & Hn0) Fv' E1 E2]; subst.
      destruct (lrel3_env lv m i0 v0 L Hn0) as (eid & slots & w0 & Hg & Lt & A & C & T & G0 & H0).
      exists eid, slots.
      assert (Hall : forall k e x cv, nth_error (e0 :: caps') k = Some e -> nth_error (x0 :: cs') k = Some x ->
                 nth_error (v0 :: cvals') k = Some cv ->
                 exists kk v, snd e = BIofEnvironment kk /\ allocated (hp m) (ep m) /\ cell_at (hp m) (ep m) = VLexEnv eid /\
                   eid < next_id (st m) /\ tget (envs (st m)) eid = Some slots /\ list_get slots kk = Some v /\
                   slot_holds m v cv).
      { intros k e x cv Hk Hx Hcv.
        destruct (Forall2_nth_l _ _ _ Fc _ _ Hk) as (x' & Hx' & _ & kk & Hsk & Hpk).
        assert (x' = x) as -> by congruence.
        destruct (Forall2_nth_l _ _ _ Fv _ _ Hx) as (cv' & Hcv' & ii & Hii & Hnn).
        assert (cv' = cv) as -> by congruence. assert (ii = kk) as -> by congruence.
        destruct (lrel3_env lv m kk cv L Hnn) as (eid' & slots' & w & Hg' & Lt' & A' & C' & T' & G' & H').
        assert (eid' = eid) as -> by congruence. assert (slots' = slots) as -> by congruence.
        exists kk, w. auto 10. }
      split; [|exact Hall]. right. split; [exact Hg|]. split; [exact T|].
      unfold caps_ok. rewrite Forall_forall. intros e He.
      destruct (In_nth_error _ _ He) as (k & Hk).
      destruct (Forall2_nth_l _ _ _ Fc _ _ Hk) as (x & Hx & _).
      destruct (Forall2_nth_l _ _ _ Fv _ _ Hx) as (cv & Hcv & _).
      destruct (Hall k e x cv Hk Hx Hcv) as (kk & v & Hs & _ & _ & _ & _ & Gk & _).
      exists kk. split; [exact Hs|]. eapply list_get_lt. exact Gk. }
  destruct Henv as (eid & slots & Henv & Hall).
  destruct (step_closure3 ob m3 lp (p + 3) bc lamp lid lamF (l_args lamF) caps eid slots Hc3 eq_refl Hscl MI3 eq_refl
              ltac:(change (hp m3) with (hp m); rewrite (heap_get_alloc _ _ Al), Cl; reflexivity) Tl Hem Henv)
    as (m4 & cp & cep & ceid & E4 & MI4 & X34 & Hsp4 & Hbp4 & Hep4 & Hcap4 & Hstk4 & Hlog4 & Hg4 & Hip4 & Hacc4 &
        Acp & Ccp & Acep & Ccep & Ltc & Tc).
  assert (F34 : frame2 m3 m4).
  { split; [|apply X34]. constructor; auto. apply X34. intros j _. unfold sget. rewrite Hstk4. reflexivity. }
  assert (F04 : frame2 m m4) by (eapply frame2_trans; [apply same_mem_frame2; exact SM3|exact F34]).
  pose proof (frame2_rext _ _ F04) as R04.
  exists 2%nat, m4. split; [eapply (steps_trans ob 1 1); apply steps_one; eassumption|].
  split; [exact F04|]. split; [exact MI4|].
  split; [rewrite Hip4; f_equal; change (len [VOp OMovImmediate; VPtr lamp; VAcc; VOp OClosureAcc]) with 4; lia|].
  split; [|eapply genv_rel3_ext; [exact R04|rewrite Hg4; reflexivity|exact G]].
  rewrite Hacc4. cbn [vrep3].
  exists cp, lamp, cep, ceid, (repeat VUndef (length (l_args lamF)) ++ map (cap_val (ep m3) slots) caps).
  pose proof (Forall2_length _ _ _ Fa) as La. pose proof (Forall2_length _ _ _ Fc) as Lc.
  pose proof (Forall2_length _ _ _ Fv) as Lv.
  split; [reflexivity|]. split; [exact Acp|]. split; [exact Ccp|]. split; [exact Acep|]. split; [exact Ccep|].
  split; [exact Ltc|]. split; [exact Tc|].
  split; [rewrite len_app, len_repeat, len_map; unfold len; lia|]. split; [lia|].
  split; [eapply closure_code_ext; [|exact CC]; eapply cext_trans; [exact X|apply R04]|].
  rewrite all_idx_nth. intros k cv Hk.
  assert (Hkc : exists x, nth_error cs k = Some x).
  { destruct (nth_error cs k) eqn:E; [eauto|]. apply nth_error_None in E. apply nth_error_lt in Hk. lia. }
  destruct Hkc as (x & Hx).
  assert (Hke : exists e, nth_error caps k = Some e).
  { destruct (nth_error caps k) eqn:E; [eauto|]. apply nth_error_None in E. apply nth_error_lt in Hx. lia. }
  destruct Hke as (e & He).
  destruct (Hall k e x cv He Hx Hk) as (kk & v & Hs & A & C & Lt & T & Gk & Hh).
  exists (cap_val (ep m3) slots e). split.
  { replace (len ps + N.of_nat k) with (len (repeat VUndef (length (l_args lamF))) + N.of_nat k)
      by (rewrite len_repeat; unfold len; lia).
    rewrite list_get_app_r, list_get_nth, Nat2N.id. apply map_nth_error. exact He. }
  unfold cap_val. rewrite Hs, Gk. change (ep m3) with (ep m).
  destruct Hh as [[Hn V]|PS].
  - assert (E : match v with VLexPtr a j => VLexPtr a j | _ => VLexPtr (ep m) kk end = VLexPtr (ep m) kk)
      by (destruct v; try reflexivity; exfalso; eapply Hn; reflexivity).
    rewrite E. eapply ptr_slot_ext; [exact R04|intros w; apply vrep3_ext; exact R04|].
    exists (ep m), kk, eid, slots, v. auto 10.
  - pose proof PS as PS'. destruct PS' as (a & j & _ & _ & _ & -> & _).
    eapply ptr_slot_ext; [exact R04|intros w; apply vrep3_ext; exact R04|exact PS].
Qed.

End Run3.
