(* LexProofs.v — lemmas about the scanner model (used by C06, C11, C20). *)
From Coq Require Import Lia.
From MW Require Import Model.Base Model.Lex.
Open Scope N_scope.

Lemma utf8_len_pos c : 0 < utf8_len c.
Proof. unfold utf8_len. repeat destruct (_ <? _); lia. Qed.

Lemma blen_app a b : blen (a ++ b) = blen a + blen b.
Proof. induction a as [|c a IH]; cbn [blen app]; lia. Qed.

Lemma blen_pos a : a <> [] -> 0 < blen a.
Proof. destruct a as [|c a]; [congruence|]. intros _. cbn [blen]. pose proof (utf8_len_pos c). lia. Qed.

(* ------------------------------------------------------------- take_bytes *)
Lemma take_bytes_app pre r : take_bytes (blen pre) (pre ++ r) = Some (pre, r).
Proof.
  induction pre as [|c pre IH]; cbn [blen app].
  - destruct r; reflexivity.
  - pose proof (utf8_len_pos c) as Hc.
    cbn [take_bytes].
    destruct (utf8_len c + blen pre =? 0) eqn:E0; [apply N.eqb_eq in E0; lia|].
    destruct (utf8_len c <=? utf8_len c + blen pre) eqn:E1; [|apply N.leb_gt in E1; lia].
    replace (utf8_len c + blen pre - utf8_len c) with (blen pre) by lia.
    rewrite IH. reflexivity.
Qed.

Lemma take_bytes_sound n l a b : take_bytes n l = Some (a, b) -> l = a ++ b /\ blen a = n.
Proof.
  revert n a b; induction l as [|c l IH]; intros n a b H.
  - cbn in H. destruct (n =? 0) eqn:E; [|discriminate]. apply N.eqb_eq in E.
    injection H as <- <-. split; [reflexivity|cbn; lia].
  - cbn [take_bytes] in H. destruct (n =? 0) eqn:E.
    + apply N.eqb_eq in E. injection H as <- <-. split; [reflexivity|cbn; lia].
    + destruct (utf8_len c <=? n) eqn:E1; [|discriminate].
      destruct (take_bytes (n - utf8_len c) l) as [[a' b']|] eqn:E2; [|discriminate].
      injection H as <- <-. apply IH in E2 as [-> Hb]. apply N.leb_le in E1.
      split; [reflexivity|cbn [blen]; lia].
Qed.

(* ------------------------------------------------------------ sub-scanners *)
Lemma span_app p l : forall a b, span p l = (a, b) -> l = a ++ b.
Proof.
  induction l as [|c l IH]; cbn [span]; intros a b H.
  - injection H as <- <-. reflexivity.
  - destruct (p c).
    + destruct (span p l) as [a' b'] eqn:E. injection H as <- <-.
      rewrite (IH _ _ eq_refl). reflexivity.
    + injection H as <- <-. reflexivity.
Qed.

Lemma scan_number_rest_app l : forall ty a ty' b, scan_number_rest l ty = (a, ty', b) -> l = a ++ b.
Proof.
  induction l as [|c l IH]; cbn [scan_number_rest]; intros ty a ty' b H.
  - injection H as <- <- <-. reflexivity.
  - destruct (is_subsequent_number c).
    + destruct (scan_number_rest l ty) as [[a1 t1] b1] eqn:E. injection H as <- <- <-.
      rewrite (IH _ _ _ _ E). reflexivity.
    + destruct (is_subsequent_identifier c && negb (c =? 59)).
      * destruct (scan_number_rest l TSymbol) as [[a1 t1] b1] eqn:E. injection H as <- <- <-.
        rewrite (IH _ _ _ _ E). reflexivity.
      * injection H as <- <- <-. reflexivity.
Qed.

Lemma scan_dot_rest_app l : forall ty a ty' b, scan_dot_rest l ty = (a, ty', b) -> l = a ++ b.
Proof.
  induction l as [|c l IH]; cbn [scan_dot_rest]; intros ty a ty' b H.
  - injection H as <- <- <-. reflexivity.
  - match type of H with (if ?chk then _ else _) = _ => destruct chk end.
    + match type of H with context [scan_dot_rest l ?t] =>
        destruct (scan_dot_rest l t) as [[a1 t1] b1] eqn:E end.
      injection H as <- <- <-. rewrite (IH _ _ _ _ E). reflexivity.
    + injection H as <- <- <-. reflexivity.
Qed.

Lemma scan_string_rest_app l : forall esc a b, scan_string_rest l esc = Some (a, b) -> l = a ++ b.
Proof.
  induction l as [|c l IH]; cbn [scan_string_rest]; intros esc a b H; [discriminate|].
  destruct ((c =? 34) && negb esc).
  - injection H as <- <-. reflexivity.
  - destruct (scan_string_rest l _) as [[a1 b1]|] eqn:E; [|discriminate].
    injection H as <- <-. rewrite (IH _ _ _ E). reflexivity.
Qed.

Lemma skip_comment_app l : forall a b, skip_comment l = (a, b) -> l = a ++ b.
Proof.
  induction l as [|c l IH]; cbn [skip_comment]; intros a b H.
  - injection H as <- <-. reflexivity.
  - destruct (c =? 10).
    + injection H as <- <-. reflexivity.
    + destruct (skip_comment l) as [a1 b1] eqn:E. injection H as <- <-.
      rewrite (IH _ _ eq_refl). reflexivity.
Qed.

(* one scanner step splits its input into what it consumed (non-empty) and the rest *)
Lemma lex1_tok c r ty a b : lex1 c r = STok ty a b -> c :: r = a ++ b /\ a <> [].
Proof.
  unfold lex1. intros H.
  repeat match type of H with
  | (if ?x then _ else _) = _ => destruct x eqn:?
  end; try discriminate;
  try (injection H as <- <- <-; split; [reflexivity|discriminate]).
  - (* hash *)
    destruct r as [|c2 r2]; [discriminate|].
    repeat match type of H with
    | (if ?x then _ else _) = _ => destruct x eqn:?
    end; try discriminate;
    try (injection H as <- <- <-; split; [reflexivity|discriminate]).
    destruct r2 as [|c3 r3]; [discriminate|].
    destruct (negb (is_ascii_alpha c3)).
    + injection H as <- <- <-; split; [reflexivity|discriminate].
    + destruct (span is_ascii_alnum r3) as [a1 b1] eqn:E. injection H as <- <- <-.
      apply span_app in E as ->. split; [reflexivity|discriminate].
  - (* dot *)
    match type of H with context [scan_dot_rest r ?t] =>
      destruct (scan_dot_rest r t) as [[a1 t1] b1] eqn:E end.
    injection H as <- <- <-. apply scan_dot_rest_app in E as ->. split; [reflexivity|discriminate].
  - (* string *)
    destruct (scan_string_rest r false) as [[a1 b1]|] eqn:E; [|discriminate].
    injection H as <- <- <-. apply scan_string_rest_app in E as ->. split; [reflexivity|discriminate].
  - (* symbol *)
    destruct (span is_subsequent_identifier r) as [a1 b1] eqn:E. injection H as <- <- <-.
    apply span_app in E as ->. split; [reflexivity|discriminate].
  - (* number *)
    destruct (scan_number_rest r TNumber) as [[a1 t1] b1] eqn:E. injection H as <- <- <-.
    apply scan_number_rest_app in E as ->. split; [reflexivity|discriminate].
  - (* comment *)
    destruct (skip_comment r) as [a1 b1]; discriminate.
Qed.

(* what the scanner skips between tokens: one whitespace character, or a comment
   (';' up to and including the next newline or the end of input) *)
Inductive skippable : text -> Prop :=
| sk_ws c : is_ws_latin1 c = true -> skippable [c]
| sk_comment body rest : skip_comment rest = (body, skipn (length body) rest) -> skippable (59 :: body).

Lemma lex1_skip c r a b : lex1 c r = SSkip a b -> c :: r = a ++ b /\ a <> [] /\ skippable a.
Proof.
  unfold lex1. intros H.
  repeat match type of H with
  | (if ?x then _ else _) = _ => destruct x eqn:?
  end; try discriminate.
  - destruct r as [|c2 r2]; [discriminate|].
    repeat match type of H with
    | (if ?x then _ else _) = _ => destruct x eqn:?
    end; try discriminate.
    destruct r2 as [|c3 r3]; [discriminate|].
    destruct (negb (is_ascii_alpha c3)); [discriminate|].
    destruct (span is_ascii_alnum r3); discriminate.
  - match type of H with context [scan_dot_rest r ?t] =>
      destruct (scan_dot_rest r t) as [[a1 t1] b1] end. discriminate.
  - destruct (scan_string_rest r false) as [[a1 b1]|]; discriminate.
  - destruct (span is_subsequent_identifier r); discriminate.
  - destruct (scan_number_rest r TNumber) as [[a1 t1] b1]; discriminate.
  - destruct (skip_comment r) as [a1 b1] eqn:E. injection H as <- <-.
    pose proof (skip_comment_app _ _ _ E) as ->.
    match goal with H : (c =? 59) = true |- _ => apply N.eqb_eq in H; subst c end.
    split; [reflexivity|]. split; [discriminate|].
    apply sk_comment with (rest := a1 ++ b1). rewrite E. f_equal.
    rewrite skipn_app, skipn_all, Nat.sub_diag. reflexivity.
  - injection H as <- <-. split; [reflexivity|]. split; [discriminate|]. apply sk_ws; assumption.
Qed.

Lemma app_length_lt {A} (a b : list A) : a <> [] -> (length b < length (a ++ b))%nat.
Proof. destruct a; [congruence|]. intros _. rewrite app_length. cbn. lia. Qed.

(* ------------------------------------------------------- totality of scan *)
Lemma scan_fuel_enough fuel : forall o l, (length l < fuel)%nat -> scan_fuel fuel o l <> NoFuel
  /\ forall s, scan_fuel fuel o l <> Panic s.
Proof.
  induction fuel as [|f IH]; intros o l Hl; [lia|].
  cbn [scan_fuel]. destruct l as [|c r]; [split; [discriminate|intros; discriminate]|].
  destruct (lex1 c r) as [ty a b|a b|e] eqn:E.
  - apply lex1_tok in E as [E Ha]. pose proof (app_length_lt a b Ha) as Hlt. rewrite <- E in Hlt.
    cbn [length] in *. destruct (IH (o + blen a) b ltac:(lia)) as [H1 H2].
    destruct (scan_fuel f (o + blen a) b) eqn:E2; cbn [bind]; split; intros; try discriminate;
      try (exfalso; eapply H2; reflexivity); try congruence.
  - apply lex1_skip in E as (E & Ha & _). pose proof (app_length_lt a b Ha) as Hlt. rewrite <- E in Hlt.
    cbn [length] in *. apply IH. lia.
  - split; [discriminate|intros; discriminate].
Qed.

Theorem scan_total t : (exists ts, scan t = Ok ts) \/ (exists e, scan t = Err e).
Proof.
  unfold scan. destruct (scan_fuel_enough (S (length t)) 0 t ltac:(lia)) as [H1 H2].
  destruct (scan_fuel _ 0 t) as [ts|e|s|]; [left; eauto|right; eauto|exfalso; eapply H2; reflexivity|congruence].
Qed.

(* ---------------------------------------------------- well-formed tokens *)
(* [toks_at o l ts]: the tokens [ts] tile the text [l] that starts at byte offset
   [o]: between tokens only skippable stretches, every token a non-empty run of
   whole characters whose byte span is exactly where those characters lie.     *)
Inductive toks_at : N -> text -> list token -> Prop :=
| ta_nil o : toks_at o [] []
| ta_skip o a b ts : skippable a -> toks_at (o + blen a) b ts -> toks_at o (a ++ b) ts
| ta_tok o a b ty ts : a <> [] -> toks_at (o + blen a) b ts ->
    toks_at o (a ++ b) (mk_token o (o + blen a) ty :: ts).

Lemma scan_fuel_wf fuel : forall o l ts, scan_fuel fuel o l = Ok ts -> toks_at o l ts.
Proof.
  induction fuel as [|f IH]; intros o l ts H; [discriminate|].
  cbn [scan_fuel] in H. destruct l as [|c r]; [injection H as <-; constructor|].
  destruct (lex1 c r) as [ty a b|a b|e] eqn:E.
  - apply lex1_tok in E as [E Ha]. rewrite E.
    destruct (scan_fuel f (o + blen a) b) as [ts'| | |] eqn:E2; cbn [bind] in H; try discriminate.
    injection H as <-. apply ta_tok; [assumption|]. apply IH; assumption.
  - apply lex1_skip in E as (E & Ha & Hs). rewrite E. apply ta_skip; [assumption|]. apply IH; assumption.
  - discriminate.
Qed.

Theorem scan_wf t ts : scan t = Ok ts -> toks_at 0 t ts.
Proof. apply scan_fuel_wf. Qed.

(* consequences of the tiling, in the property's words *)
Lemma toks_at_in o l ts k : toks_at o l ts -> In k ts ->
  exists pre mid post, l = pre ++ mid ++ post /\ mid <> [] /\
    t_start k = o + blen pre /\ t_end k = t_start k + blen mid.
Proof.
  induction 1 as [o|o a b ts Hs Ht IH|o a b ty ts Ha Ht IH]; intros Hin.
  - contradiction.
  - destruct (IH Hin) as (pre & mid & post & -> & Hm & Hst & Hen).
    exists (a ++ pre), mid, post. rewrite blen_app, <- app_assoc. repeat split; auto; lia.
  - destruct Hin as [<-|Hin].
    + exists [], a, b. cbn. repeat split; auto; lia.
    + destruct (IH Hin) as (pre & mid & post & -> & Hm & Hst & Hen).
      exists (a ++ pre), mid, post. rewrite blen_app, <- app_assoc. repeat split; auto; lia.
Qed.

Lemma toks_at_bounds o l ts k : toks_at o l ts -> In k ts ->
  o <= t_start k /\ t_start k < t_end k /\ t_end k <= o + blen l.
Proof.
  intros H Hin. destruct (toks_at_in _ _ _ _ H Hin) as (pre & mid & post & -> & Hm & Hst & Hen).
  rewrite !blen_app. pose proof (blen_pos _ Hm). lia.
Qed.

(* strictly ordered: consecutive tokens do not overlap *)
Inductive ordered_from : N -> list token -> Prop :=
| of_nil o : ordered_from o []
| of_cons o k ts : o <= t_start k -> t_start k < t_end k -> ordered_from (t_end k) ts ->
    ordered_from o (k :: ts).

Lemma ordered_from_weaken o o' ts : o' <= o -> ordered_from o ts -> ordered_from o' ts.
Proof. intros Hle H. destruct H; constructor; auto; lia. Qed.

Lemma toks_at_ordered o l ts : toks_at o l ts -> ordered_from o ts.
Proof.
  induction 1 as [o|o a b ts Hs Ht IH|o a b ty ts Ha Ht IH].
  - constructor.
  - eapply ordered_from_weaken; [|exact IH]. lia.
  - constructor; cbn; [lia| pose proof (blen_pos _ Ha); lia | exact IH].
Qed.
