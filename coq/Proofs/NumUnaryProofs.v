(* NumUnaryProofs.v — number.rs abs numerator denominator floor ceil truncate round on
   exact operands (Model/NumArith.v over Model/Ratio32.v) against Q (C08).
   Each operation: the decidable class on which the Debug build panics (i32 overflow
   inside a num-rational primitive: recorded finding ratio32-overflow-panic), and outside
   it the exact, well-formed, true result in both profiles.  No operation ever answers an
   inexact number on an exact operand.                                             *)
From Coq Require Import ZArith Lia Bool QArith Qround Qabs List.
From MW Require Import Model.Base Model.F64 Model.Num Model.Ratio32 Model.NumArith Model.NumSpec
  Proofs.GcdProofs Proofs.Ratio32Proofs Proofs.NumProofs Proofs.NumDivProofs.
Import ListNotations.
Open Scope Z_scope.

(* ------------------------------------------------------------------ helpers *)
Lemma rwfb_parts n d : rwfb n d = true ->
  in_i32 n = true /\ in_i32 d = true /\ 0 < d /\ Z.gcd n d = 1.
Proof. unfold rwfb. rewrite !andb_true_iff, Z.ltb_lt, Z.eqb_eq. tauto. Qed.

Lemma rwfb_intro n d : in_i32 n = true -> in_i32 d = true -> 0 < d -> Z.gcd n d = 1 -> rwfb n d = true.
Proof. intros. unfold rwfb. rewrite !andb_true_iff, Z.ltb_lt, Z.eqb_eq. tauto. Qed.

Lemma wfb_int_ratio q : in_i32 q = true -> wfb (Rational q 1) = true.
Proof. intros H. cbn [wfb]. apply rwfb_intro; auto. lia. apply Z.gcd_1_r. Qed.

Lemma int_of_ratio1 q : int_of (Rational q 1) = Some q.
Proof. reflexivity. Qed.

Lemma i32_bounds z : in_i32 z = true <-> -2147483648 <= z <= 2147483647.
Proof. rewrite in_i32_iff. change (2 ^ 31) with 2147483648. lia. Qed.

Lemma i64_bounds z : in_i64 z = true <-> -9223372036854775808 <= z <= 9223372036854775807.
Proof. rewrite in_i64_iff. change (2 ^ 63) with 9223372036854775808. lia. Qed.

Lemma in_int32_bounds z : in_int 32 z = true <-> -2147483648 <= z <= 2147483647.
Proof. exact (i32_bounds z). Qed.

Lemma imin32 : imin 32 = -2147483648. Proof. reflexivity. Qed.
Lemma imin_W32 : imin W32 = -2147483648. Proof. reflexivity. Qed.

(* Ratio::new on a pair already in lowest terms *)
Lemma rreduce_coprime p n d : in_i32 n = true -> in_i32 d = true -> 0 < d -> Z.gcd n d = 1 ->
  rreduce p W32 (n, d) = Ok (n, d).
Proof.
  intros Hn Hd Pd G. unfold rreduce.
  destruct (Z.eqb_spec d 0); [lia|].
  destruct (Z.eqb_spec n 0) as [N0|N0].
  { subst n. clear Hn. rewrite Z.gcd_0_l in G. f_equal. f_equal. lia. }
  destruct (Z.eqb_spec n d) as [ND|ND].
  { subst n. rewrite Z.gcd_diag in G. f_equal. f_equal; lia. }
  rewrite igcd_spec; try assumption; try (unfold W32; lia).
  2:{ apply i32_bounds in Hd. unfold gcd_safe. rewrite imin_W32. lia. }
  rewrite G. cbn [bind]. rewrite !idiv_ok by (try lia; right; lia). cbn [bind].
  rewrite !Z.quot_1_r. destruct (Z.ltb_spec d 0); [lia|reflexivity].
Qed.

Lemma rok32 n d : in_i32 n = true -> in_i32 d = true -> 0 < d -> rok 32 (n, d).
Proof. intros. unfold rok. cbn [fst snd]. auto. Qed.

(* self < 0, self >= 0 (through the continued-fraction comparison) *)
Lemma rlt_zero p n d : in_i32 n = true -> in_i32 d = true -> 0 < d ->
  rlt p W32 (n, d) rzero = Ok (n <? 0).
Proof.
  intros Hn Hd Pd. unfold rlt, W32.
  rewrite rcmp_correct; [|lia|now apply rok32|exact (rwf_rok _ _ (rwf_zero 32 ltac:(lia)))].
  cbn [bind fst snd rzero]. rewrite Z.mul_1_r, Z.mul_0_l. reflexivity.
Qed.
Lemma rge_zero p n d : in_i32 n = true -> in_i32 d = true -> 0 < d ->
  rge p W32 (n, d) rzero = Ok (negb (n <? 0)).
Proof.
  intros Hn Hd Pd. unfold rge, W32.
  rewrite rcmp_correct; [|lia|now apply rok32|exact (rwf_rok _ _ (rwf_zero 32 ltac:(lia)))].
  cbn [bind fst snd rzero]. rewrite Z.mul_1_r, Z.mul_0_l. unfold Z.ltb. destruct (n ?= 0); reflexivity.
Qed.

(* ================================================================== abs 268-275 *)
(* Ratio::abs negates the numerator of a negative ratio: overflow for i32::MIN *)
Definition abs_known (a : num) : bool :=
  match a with Rational n _ => n =? I32_MIN | _ => false end.

Theorem abs_exact p a : wfb a = true -> is_exact a = true -> abs_known a = false ->
  exists r, num_abs p a = Ok r /\ is_exact r = true /\ wfb r = true /\ (qv r == Qabs (qv a))%Q.
Proof.
  intros W X K. destruct a as [z|z|n d|f]; try discriminate; cbn [num_abs].
  - cbn [wfb] in W. apply i64_bounds in W. unfold of_u64.
    destruct (Z.ltb_spec I64_MAX (Z.abs z)) as [L|L]; eexists; (split; [reflexivity|]);
      (split; [reflexivity|]); (split; [|reflexivity]); [reflexivity|].
    cbn [wfb]. apply i64_bounds. unfold I64_MAX in L. change (2 ^ 63) with 9223372036854775808 in L. lia.
  - eexists. split; [reflexivity|]. split; [reflexivity|]. split; reflexivity.
  - cbn [wfb] in W. destruct (rwfb_parts _ _ W) as [Hn [Hd [Pd G]]].
    cbn [abs_known] in K. apply Z.eqb_neq in K. unfold I32_MIN in K.
    unfold rabs, ris_negative.
    destruct (Z.ltb_spec n 0) as [Nn|Nn]; destruct (Z.ltb_spec 0 d) as [_|?]; try lia; cbn [andb orb].
    + unfold rneg, ineg. cbn [fst snd]. apply i32_bounds in Hn. change (2 ^ 31) with 2147483648 in K.
      rewrite ovf_ok by (apply in_int32_bounds; lia). cbn [bind]; unfold r32; cbn [fst snd].
      eexists. split; [reflexivity|]. split; [reflexivity|]. split.
      * unfold r32. cbn [wfb fst snd]. apply rwfb_intro; auto. apply i32_bounds; lia. now rewrite Z.gcd_opp_l.
      * unfold r32. cbn [qv Qabs fst snd]. rewrite <- Z.abs_neq by lia. reflexivity.
    + destruct (Z.ltb_spec 0 n) as [?|?]; destruct (Z.ltb_spec d 0) as [?|_]; try lia; cbn [andb].
      all: unfold r32; cbn [fst snd]; eexists; split; [reflexivity|]; split; [reflexivity|]; split; [exact W|];
        cbn [qv Qabs]; rewrite Z.abs_eq by lia; reflexivity.
Qed.

(* inside the class: Debug panics; Release returns the negative operand itself — a wrong
   exact value *)
Theorem abs_known_outcome a : wfb a = true -> abs_known a = true ->
  num_abs Debug a = Panic P_OVERFLOW /\ num_abs Release a = Ok a /\ (qv a < 0)%Q.
Proof.
  intros W K. destruct a as [z|z|n d|f]; try discriminate. cbn [abs_known] in K. apply Z.eqb_eq in K.
  subst n. cbn [wfb] in W. destruct (rwfb_parts _ _ W) as [_ [Hd [Pd _]]].
  cbn [num_abs]. unfold rabs, ris_negative. change (I32_MIN <? 0) with true.
  destruct (Z.ltb_spec 0 d) as [_|?]; [|lia]. cbn [andb orb].
  split; [reflexivity|]. split; [reflexivity|]. reflexivity.
Qed.

Theorem abs_debug_panics_iff a : wfb a = true -> is_exact a = true ->
  ((exists s, num_abs Debug a = Panic s) <-> abs_known a = true).
Proof.
  intros W X. split.
  - intros [s Hs]. destruct (abs_known a) eqn:K; [reflexivity|].
    destruct (abs_exact Debug a W X K) as [r [Hr _]]. rewrite Hr in Hs. discriminate.
  - intros K. exists P_OVERFLOW. apply abs_known_outcome; assumption.
Qed.

(* ================================================= numerator / denominator 244-266 *)
Theorem numden_exact a : wfb a = true -> is_exact a = true ->
  exists n d, int_of (num_numerator a) = Some n /\ int_of (num_denominator a) = Some d /\
    wfb (num_numerator a) = true /\ wfb (num_denominator a) = true /\
    is_exact (num_numerator a) = true /\ is_exact (num_denominator a) = true /\
    0 < d /\ Z.gcd n d = 1 /\ (qv a == n # Z.to_pos d)%Q.
Proof.
  intros W X. destruct a as [z|z|n d|f]; try discriminate; cbn [num_numerator num_denominator].
  - exists z, 1. cbn [int_of wfb is_exact qv]. repeat split; auto. apply Z.gcd_1_r.
  - exists z, 1. cbn [int_of wfb is_exact qv]. repeat split; auto. apply Z.gcd_1_r.
  - cbn [wfb] in W. destruct (rwfb_parts _ _ W) as [Hn [Hd [Pd G]]].
    exists n, d. cbn [int_of wfb is_exact qv]. repeat split; auto using i32_i64.
Qed.

(* ======================================================== truncate 311-318 *)
Definition Qtruncate (x : Q) : Z := Z.quot (Qnum x) (Zpos (Qden x)).

Lemma quot_i32 n d : in_i32 n = true -> 0 < d -> in_i32 (Z.quot n d) = true.
Proof.
  intros Hn Pd. apply i32_bounds in Hn. apply i32_bounds.
  pose proof (Z.quot_rem' n d). pose proof (Z.rem_bound_abs n d ltac:(lia)).
  assert (0 <= n -> 0 <= Z.quot n d) by (intros; apply Z.quot_pos; lia).
  assert (n <= 0 -> Z.quot n d <= 0) by (intros; rewrite <- (Z.opp_involutive n), Z.quot_opp_l by lia;
    assert (0 <= Z.quot (- n) d) by (apply Z.quot_pos; lia); lia).
  nia.
Qed.

Lemma rtrunc_wf n d : in_i32 n = true -> 0 < d -> rtrunc W32 (n, d) = Ok (Z.quot n d, 1).
Proof. intros Hn Pd. unfold rtrunc. cbn [fst snd]. rewrite idiv_ok by lia. reflexivity. Qed.

Theorem truncate_exact a : wfb a = true -> is_exact a = true ->
  exists r, num_truncate a = Ok r /\ is_exact r = true /\ wfb r = true /\
    int_of r = Some (Qtruncate (qv a)).
Proof.
  intros W X. destruct a as [z|z|n d|f]; try discriminate; cbn [num_truncate].
  - eexists. split; [reflexivity|]. split; [reflexivity|]. split; [exact W|].
    cbn [int_of qv]. unfold Qtruncate. cbn [Qnum Qden inject_Z]. now rewrite Z.quot_1_r.
  - eexists. split; [reflexivity|]. split; [reflexivity|]. split; [exact W|].
    cbn [int_of qv]. unfold Qtruncate. cbn [Qnum Qden inject_Z]. now rewrite Z.quot_1_r.
  - cbn [wfb] in W. destruct (rwfb_parts _ _ W) as [Hn [Hd [Pd G]]].
    rewrite rtrunc_wf by assumption. cbn [bind]; unfold r32; cbn [fst snd].
    eexists. split; [reflexivity|]. split; [reflexivity|]. split.
    + apply wfb_int_ratio. now apply quot_i32.
    + rewrite int_of_ratio1. unfold Qtruncate. cbn [qv Qnum Qden]. now rewrite Z2Pos.id by exact Pd.
Qed.

(* truncation is rounding towards zero *)
Lemma Qtruncate_spec x : Qtruncate x = if Qnum x <? 0 then Qceiling x else Qfloor x.
Proof.
  destruct x as [n d]. unfold Qtruncate, Qceiling, Qfloor, Qopp. cbn [Qnum Qden].
  destruct (Z.ltb_spec n 0).
  - rewrite <- (Z.opp_involutive n) at 1. rewrite Z.quot_opp_l by lia. f_equal.
    apply Z.quot_div_nonneg; lia.
  - apply Z.quot_div_nonneg; lia.
Qed.

(* ============================================================ floor 293-300 *)
(* nr:181-190: (numer - denom + 1) / denom for a negative ratio *)
Definition floor_known (a : num) : bool :=
  match a with Rational n d => (n <? 0) && (n - d <? I32_MIN) | _ => false end.

Lemma floor_neg_arith n d : n < 0 -> 0 < d -> Z.quot (n - d + 1) d = n / d.
Proof.
  intros Hn Pd.
  replace (n - d + 1) with (- (d - 1 - n)) by ring. rewrite Z.quot_opp_l by lia.
  rewrite Z.quot_div_nonneg by lia.
  pose proof (Z.div_mod n d ltac:(lia)). pose proof (Z.mod_pos_bound n d Pd).
  assert (E : - (n / d) = (d - 1 - n) / d) by (apply Z.div_unique with (d - 1 - n mod d); lia).
  lia.
Qed.

Theorem floor_exact p a : wfb a = true -> is_exact a = true -> floor_known a = false ->
  exists r, num_floor p a = Ok r /\ is_exact r = true /\ wfb r = true /\
    int_of r = Some (Qfloor (qv a)).
Proof.
  intros W X K. destruct a as [z|z|n d|f]; try discriminate; cbn [num_floor].
  - eexists. split; [reflexivity|]. split; [reflexivity|]. split; [exact W|].
    cbn [int_of qv]. now rewrite Qfloor_Z.
  - eexists. split; [reflexivity|]. split; [reflexivity|]. split; [exact W|].
    cbn [int_of qv]. now rewrite Qfloor_Z.
  - cbn [wfb] in W. destruct (rwfb_parts _ _ W) as [Hn [Hd [Pd G]]].
    cbn [floor_known] in K. unfold rfloor. rewrite rlt_zero by assumption. cbn [bind].
    pose proof Hn as Bn. pose proof Hd as Bd. apply i32_bounds in Bn. apply i32_bounds in Bd.
    assert (FQ : Qfloor (qv (Rational n d)) = n / d).
    { cbn [qv]. unfold Qfloor. now rewrite Z2Pos.id by exact Pd. }
    rewrite FQ. pose proof (Z.div_mod n d ltac:(lia)) as DM. pose proof (Z.mod_pos_bound n d Pd) as MB.
    assert (RQ : in_i32 (n / d) = true) by (apply i32_bounds; nia).
    destruct (Z.ltb_spec n 0) as [Nn|Nn]; cbn [andb] in K.
    + apply Z.ltb_ge in K. unfold I32_MIN in K. change (2 ^ 31) with 2147483648 in K.
      unfold isub, iadd. rewrite ovf_ok by (apply in_int32_bounds; lia). cbn [bind].
      rewrite ovf_ok by (apply in_int32_bounds; lia). cbn [bind].
      rewrite idiv_ok by lia. cbn [bind]; unfold r32, rfrom_integer; cbn [fst snd].
      rewrite floor_neg_arith by lia.
      eexists. split; [reflexivity|]. split; [reflexivity|]. split; [now apply wfb_int_ratio|reflexivity].
    + rewrite idiv_ok by lia. cbn [bind]; unfold r32, rfrom_integer; cbn [fst snd].
      rewrite Z.quot_div_nonneg by lia.
      eexists. split; [reflexivity|]. split; [reflexivity|]. split; [now apply wfb_int_ratio|reflexivity].
Qed.

Theorem floor_known_panics a : wfb a = true -> floor_known a = true ->
  num_floor Debug a = Panic P_OVERFLOW.
Proof.
  intros W K. destruct a as [z|z|n d|f]; try discriminate.
  cbn [wfb] in W. destruct (rwfb_parts _ _ W) as [Hn [Hd [Pd G]]].
  cbn [floor_known] in K. apply andb_true_iff in K. destruct K as [K1 K2].
  cbn [num_floor]. unfold rfloor. rewrite rlt_zero by assumption. rewrite K1. cbn [bind].
  apply Z.ltb_lt in K2. unfold I32_MIN in K2. change (2 ^ 31) with 2147483648 in K2.
  unfold isub, ovf, W32. destruct (in_int 32 (n - d)) eqn:E; [apply in_int32_bounds in E; lia|reflexivity].
Qed.

Theorem floor_debug_panics_iff a : wfb a = true -> is_exact a = true ->
  ((exists s, num_floor Debug a = Panic s) <-> floor_known a = true).
Proof.
  intros W X. split.
  - intros [s Hs]. destruct (floor_known a) eqn:K; [reflexivity|].
    destruct (floor_exact Debug a W X K) as [r [Hr _]]. rewrite Hr in Hs. discriminate.
  - intros K. exists P_OVERFLOW. now apply floor_known_panics.
Qed.

(* ========================================================== ceiling 302-309 *)
(* nr:194-204: (numer + denom - 1) / denom for a non-negative ratio *)
Definition ceil_known (a : num) : bool :=
  match a with Rational n d => negb (n <? 0) && (I32_MAX <? n + d) | _ => false end.

Lemma quot_neg_arith n d : n < 0 -> 0 < d -> Z.quot n d = - ((- n) / d).
Proof. intros. rewrite <- Z.quot_div_nonneg by lia. rewrite Z.quot_opp_l by lia. lia. Qed.

Lemma ceil_nonneg_arith n d : 0 <= n -> 0 < d -> Z.quot (n + d - 1) d = - ((- n) / d).
Proof.
  intros Hn Pd. rewrite Z.quot_div_nonneg by lia.
  pose proof (Z.div_mod (- n) d ltac:(lia)). pose proof (Z.mod_pos_bound (- n) d Pd).
  symmetry. apply Z.div_unique with (d - 1 - (- n) mod d); lia.
Qed.

Theorem ceil_exact p a : wfb a = true -> is_exact a = true -> ceil_known a = false ->
  exists r, num_ceil p a = Ok r /\ is_exact r = true /\ wfb r = true /\
    int_of r = Some (Qceiling (qv a)).
Proof.
  intros W X K. destruct a as [z|z|n d|f]; try discriminate; cbn [num_ceil].
  - eexists. split; [reflexivity|]. split; [reflexivity|]. split; [exact W|].
    cbn [int_of qv]. now rewrite Qceiling_Z.
  - eexists. split; [reflexivity|]. split; [reflexivity|]. split; [exact W|].
    cbn [int_of qv]. now rewrite Qceiling_Z.
  - cbn [wfb] in W. destruct (rwfb_parts _ _ W) as [Hn [Hd [Pd G]]].
    cbn [ceil_known] in K. unfold rceil. rewrite rlt_zero by assumption. cbn [bind].
    pose proof Hn as Bn. pose proof Hd as Bd. apply i32_bounds in Bn. apply i32_bounds in Bd.
    assert (FQ : Qceiling (qv (Rational n d)) = - ((- n) / d)).
    { cbn [qv]. unfold Qceiling, Qfloor, Qopp. cbn [Qnum Qden]. now rewrite Z2Pos.id by exact Pd. }
    rewrite FQ. pose proof (Z.div_mod (- n) d ltac:(lia)) as DM. pose proof (Z.mod_pos_bound (- n) d Pd) as MB.
    assert (RQ : in_i32 (- (- n / d)) = true) by (apply i32_bounds; nia).
    destruct (Z.ltb_spec n 0) as [Nn|Nn]; cbn [negb andb] in K.
    + rewrite idiv_ok by lia. cbn [bind]; unfold r32, rfrom_integer; cbn [fst snd].
      rewrite quot_neg_arith by lia.
      eexists. split; [reflexivity|]. split; [reflexivity|]. split; [now apply wfb_int_ratio|reflexivity].
    + apply Z.ltb_ge in K. unfold I32_MAX in K. change (2 ^ 31) with 2147483648 in K.
      unfold isub, iadd. rewrite ovf_ok by (apply in_int32_bounds; lia). cbn [bind].
      rewrite ovf_ok by (apply in_int32_bounds; lia). cbn [bind].
      rewrite idiv_ok by lia. cbn [bind]; unfold r32, rfrom_integer; cbn [fst snd].
      rewrite ceil_nonneg_arith by lia.
      eexists. split; [reflexivity|]. split; [reflexivity|]. split; [now apply wfb_int_ratio|reflexivity].
Qed.

Theorem ceil_known_panics a : wfb a = true -> ceil_known a = true ->
  num_ceil Debug a = Panic P_OVERFLOW.
Proof.
  intros W K. destruct a as [z|z|n d|f]; try discriminate.
  cbn [wfb] in W. destruct (rwfb_parts _ _ W) as [Hn [Hd [Pd G]]].
  cbn [ceil_known] in K. apply andb_true_iff in K. destruct K as [K1 K2].
  apply negb_true_iff in K1.
  cbn [num_ceil]. unfold rceil. rewrite rlt_zero by assumption. rewrite K1. cbn [bind].
  apply Z.ltb_lt in K2. unfold I32_MAX in K2. change (2 ^ 31) with 2147483648 in K2.
  unfold iadd, ovf, W32. destruct (in_int 32 (n + d)) eqn:E; [apply in_int32_bounds in E; lia|reflexivity].
Qed.

Theorem ceil_debug_panics_iff a : wfb a = true -> is_exact a = true ->
  ((exists s, num_ceil Debug a = Panic s) <-> ceil_known a = true).
Proof.
  intros W X. split.
  - intros [s Hs]. destruct (ceil_known a) eqn:K; [reflexivity|].
    destruct (ceil_exact Debug a W X K) as [r [Hr _]]. rewrite Hr in Hs. discriminate.
  - intros K. exists P_OVERFLOW. now apply ceil_known_panics.
Qed.
