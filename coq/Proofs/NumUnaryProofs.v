(* NumUnaryProofs.v — number.rs abs numerator denominator floor ceil truncate round on
   exact operands (Model/NumArith.v over Model/Ratio32.v) against Q (C08).
   Each operation: the decidable class on which the Debug build panics (i32 overflow
   inside a num-rational primitive: recorded finding ratio32-overflow-panic), and outside
   it the exact, well-formed, true result in both profiles.  No operation ever answers an
   inexact number on an exact operand.                                             *)
From Coq Require Import ZArith Lia Bool QArith Qround Qabs List.
From MW Require Import Model.Base Model.F64 Model.Num Model.Ratio32 Model.NumArith Model.NumSpec
  Proofs.GcdProofs Proofs.Ratio32Proofs Proofs.NumProofs Proofs.NumDivProofs.
Import ListNotations.
Open Scope Z_scope.

(* ------------------------------------------------------------------ helpers *)
Lemma rwfb_parts n d : rwfb n d = true ->
  in_i32 n = true /\ in_i32 d = true /\ 0 < d /\ Z.gcd n d = 1.
Proof. unfold rwfb. rewrite !andb_true_iff, Z.ltb_lt, Z.eqb_eq. tauto. Qed.

Lemma rwfb_intro n d : in_i32 n = true -> in_i32 d = true -> 0 < d -> Z.gcd n d = 1 -> rwfb n d = true.
Proof. intros. unfold rwfb. rewrite !andb_true_iff, Z.ltb_lt, Z.eqb_eq. tauto. Qed.

Lemma wfb_int_ratio q : in_i32 q = true -> wfb (Rational q 1) = true.
Proof. intros H. cbn [wfb]. apply rwfb_intro; auto. lia. apply Z.gcd_1_r. Qed.

Lemma int_of_ratio1 q : int_of (Rational q 1) = Some q.
Proof. reflexivity. Qed.

Lemma i32_bounds z : in_i32 z = true <-> -2147483648 <= z <= 2147483647.
Proof. rewrite in_i32_iff. change (2 ^ 31) with 2147483648. lia. Qed.

Lemma i64_bounds z : in_i64 z = true <-> -9223372036854775808 <= z <= 9223372036854775807.
Proof. rewrite in_i64_iff. change (2 ^ 63) with 9223372036854775808. lia. Qed.

Lemma in_int32_bounds z : in_int 32 z = true <-> -2147483648 <= z <= 2147483647.
Proof. exact (i32_bounds z). Qed.

Lemma imin32 : imin 32 = -2147483648. Proof. reflexivity. Qed.
Lemma imin_W32 : imin W32 = -2147483648. Proof. reflexivity. Qed.

(* Ratio::new on a pair already in lowest terms *)
Lemma rreduce_coprime p n d : in_i32 n = true -> in_i32 d = true -> 0 < d -> Z.gcd n d = 1 ->
  rreduce p W32 (n, d) = Ok (n, d).
Proof.
  intros Hn Hd Pd G. unfold rreduce.
  destruct (Z.eqb_spec d 0); [lia|].
  destruct (Z.eqb_spec n 0) as [N0|N0].
  { subst n. clear Hn. rewrite Z.gcd_0_l in G. f_equal. f_equal. lia. }
  destruct (Z.eqb_spec n d) as [ND|ND].
  { subst n. rewrite Z.gcd_diag in G. f_equal. f_equal; lia. }
  rewrite igcd_spec; try assumption; try (unfold W32; lia).
  2:{ apply i32_bounds in Hd. unfold gcd_safe. rewrite imin_W32. lia. }
  rewrite G. cbn [bind]. rewrite !idiv_ok by (try lia; right; lia). cbn [bind].
  rewrite !Z.quot_1_r. destruct (Z.ltb_spec d 0); [lia|reflexivity].
Qed.

Lemma rok32 n d : in_i32 n = true -> in_i32 d = true -> 0 < d -> rok 32 (n, d).
Proof. intros. unfold rok. cbn [fst snd]. auto. Qed.

(* self < 0, self >= 0 (through the continued-fraction comparison) *)
Lemma rlt_zero p n d : in_i32 n = true -> in_i32 d = true -> 0 < d ->
  rlt p W32 (n, d) rzero = Ok (n <? 0).
Proof.
  intros Hn Hd Pd. unfold rlt, W32.
  rewrite rcmp_correct; [|lia|now apply rok32|exact (rwf_rok _ _ (rwf_zero 32 ltac:(lia)))].
  cbn [bind fst snd rzero]. rewrite Z.mul_1_r, Z.mul_0_l. reflexivity.
Qed.
Lemma rge_zero p n d : in_i32 n = true -> in_i32 d = true -> 0 < d ->
  rge p W32 (n, d) rzero = Ok (negb (n <? 0)).
Proof.
  intros Hn Hd Pd. unfold rge, W32.
  rewrite rcmp_correct; [|lia|now apply rok32|exact (rwf_rok _ _ (rwf_zero 32 ltac:(lia)))].
  cbn [bind fst snd rzero]. rewrite Z.mul_1_r, Z.mul_0_l. unfold Z.ltb. destruct (n ?= 0); reflexivity.
Qed.

(* ================================================================== abs 268-275 *)
(* Ratio::abs negates the numerator of a negative ratio: overflow for i32::MIN *)
Definition abs_known (a : num) : bool :=
  match a with Rational n _ => n =? I32_MIN | _ => false end.

Theorem abs_exact p a : wfb a = true -> is_exact a = true -> abs_known a = false ->
  exists r, num_abs p a = Ok r /\ is_exact r = true /\ wfb r = true /\ (qv r == Qabs (qv a))%Q.
Proof.
  intros W X K. destruct a as [z|z|n d|f]; try discriminate; cbn [num_abs].
  - cbn [wfb] in W. apply i64_bounds in W. unfold of_u64.
    destruct (Z.ltb_spec I64_MAX (Z.abs z)) as [L|L]; eexists; (split; [reflexivity|]);
      (split; [reflexivity|]); (split; [|reflexivity]); [reflexivity|].
    cbn [wfb]. apply i64_bounds. unfold I64_MAX in L. change (2 ^ 63) with 9223372036854775808 in L. lia.
  - eexists. split; [reflexivity|]. split; [reflexivity|]. split; reflexivity.
  - cbn [wfb] in W. destruct (rwfb_parts _ _ W) as [Hn [Hd [Pd G]]].
    cbn [abs_known] in K. apply Z.eqb_neq in K. unfold I32_MIN in K.
    unfold rabs, ris_negative.
    destruct (Z.ltb_spec n 0) as [Nn|Nn]; destruct (Z.ltb_spec 0 d) as [_|?]; try lia; cbn [andb orb].
    + unfold rneg, ineg. cbn [fst snd]. apply i32_bounds in Hn. change (2 ^ 31) with 2147483648 in K.
      rewrite ovf_ok by (apply in_int32_bounds; lia). cbn [bind]; unfold r32; cbn [fst snd].
      eexists. split; [reflexivity|]. split; [reflexivity|]. split.
      * unfold r32. cbn [wfb fst snd]. apply rwfb_intro; auto. apply i32_bounds; lia. now rewrite Z.gcd_opp_l.
      * unfold r32. cbn [qv Qabs fst snd]. rewrite <- Z.abs_neq by lia. reflexivity.
    + destruct (Z.ltb_spec 0 n) as [?|?]; destruct (Z.ltb_spec d 0) as [?|_]; try lia; cbn [andb].
      all: unfold r32; cbn [fst snd]; eexists; split; [reflexivity|]; split; [reflexivity|]; split; [exact W|];
        cbn [qv Qabs]; rewrite Z.abs_eq by lia; reflexivity.
Qed.

(* inside the class: Debug panics; Release returns the negative operand itself — a wrong
   exact value *)
Theorem abs_known_outcome a : wfb a = true -> abs_known a = true ->
  num_abs Debug a = Panic P_OVERFLOW /\ num_abs Release a = Ok a /\ (qv a < 0)%Q.
Proof.
  intros W K. destruct a as [z|z|n d|f]; try discriminate. cbn [abs_known] in K. apply Z.eqb_eq in K.
  subst n. cbn [wfb] in W. destruct (rwfb_parts _ _ W) as [_ [Hd [Pd _]]].
  cbn [num_abs]. unfold rabs, ris_negative. change (I32_MIN <? 0) with true.
  destruct (Z.ltb_spec 0 d) as [_|?]; [|lia]. cbn [andb orb].
  split; [reflexivity|]. split; [reflexivity|]. reflexivity.
Qed.

Theorem abs_debug_panics_iff a : wfb a = true -> is_exact a = true ->
  ((exists s, num_abs Debug a = Panic s) <-> abs_known a = true).
Proof.
  intros W X. split.
  - intros [s Hs]. destruct (abs_known a) eqn:K; [reflexivity|].
    destruct (abs_exact Debug a W X K) as [r [Hr _]]. rewrite Hr in Hs. discriminate.
  - intros K. exists P_OVERFLOW. apply abs_known_outcome; assumption.
Qed.

(* ================================================= numerator / denominator 244-266 *)
Theorem numden_exact a : wfb a = true -> is_exact a = true ->
  exists n d, int_of (num_numerator a) = Some n /\ int_of (num_denominator a) = Some d /\
    wfb (num_numerator a) = true /\ wfb (num_denominator a) = true /\
    is_exact (num_numerator a) = true /\ is_exact (num_denominator a) = true /\
    0 < d /\ Z.gcd n d = 1 /\ (qv a == n # Z.to_pos d)%Q.
Proof.
  intros W X. destruct a as [z|z|n d|f]; try discriminate; cbn [num_numerator num_denominator].
  - exists z, 1. cbn [int_of wfb is_exact qv]. repeat split; auto. apply Z.gcd_1_r.
  - exists z, 1. cbn [int_of wfb is_exact qv]. repeat split; auto. apply Z.gcd_1_r.
  - cbn [wfb] in W. destruct (rwfb_parts _ _ W) as [Hn [Hd [Pd G]]].
    exists n, d. cbn [int_of wfb is_exact qv]. repeat split; auto using i32_i64.
Qed.

(* ======================================================== truncate 311-318 *)
Definition Qtruncate (x : Q) : Z := Z.quot (Qnum x) (Zpos (Qden x)).

Lemma quot_i32 n d : in_i32 n = true -> 0 < d -> in_i32 (Z.quot n d) = true.
Proof.
  intros Hn Pd. apply i32_bounds in Hn. apply i32_bounds.
  pose proof (Z.quot_rem' n d). pose proof (Z.rem_bound_abs n d ltac:(lia)).
  assert (0 <= n -> 0 <= Z.quot n d) by (intros; apply Z.quot_pos; lia).
  assert (n <= 0 -> Z.quot n d <= 0) by (intros; rewrite <- (Z.opp_involutive n), Z.quot_opp_l by lia;
    assert (0 <= Z.quot (- n) d) by (apply Z.quot_pos; lia); lia).
  nia.
Qed.

Lemma rtrunc_wf n d : in_i32 n = true -> 0 < d -> rtrunc W32 (n, d) = Ok (Z.quot n d, 1).
Proof. intros Hn Pd. unfold rtrunc. cbn [fst snd]. rewrite idiv_ok by lia. reflexivity. Qed.

Theorem truncate_exact a : wfb a = true -> is_exact a = true ->
  exists r, num_truncate a = Ok r /\ is_exact r = true /\ wfb r = true /\
    int_of r = Some (Qtruncate (qv a)).
Proof.
  intros W X. destruct a as [z|z|n d|f]; try discriminate; cbn [num_truncate].
  - eexists. split; [reflexivity|]. split; [reflexivity|]. split; [exact W|].
    cbn [int_of qv]. unfold Qtruncate. cbn [Qnum Qden inject_Z]. now rewrite Z.quot_1_r.
  - eexists. split; [reflexivity|]. split; [reflexivity|]. split; [exact W|].
    cbn [int_of qv]. unfold Qtruncate. cbn [Qnum Qden inject_Z]. now rewrite Z.quot_1_r.
  - cbn [wfb] in W. destruct (rwfb_parts _ _ W) as [Hn [Hd [Pd G]]].
    rewrite rtrunc_wf by assumption. cbn [bind]; unfold r32; cbn [fst snd].
    eexists. split; [reflexivity|]. split; [reflexivity|]. split.
    + apply wfb_int_ratio. now apply quot_i32.
    + rewrite int_of_ratio1. unfold Qtruncate. cbn [qv Qnum Qden]. now rewrite Z2Pos.id by exact Pd.
Qed.

(* truncation is rounding towards zero *)
Lemma Qtruncate_spec x : Qtruncate x = if Qnum x <? 0 then Qceiling x else Qfloor x.
Proof.
  destruct x as [n d]. unfold Qtruncate, Qceiling, Qfloor, Qopp. cbn [Qnum Qden].
  destruct (Z.ltb_spec n 0).
  - rewrite <- (Z.opp_involutive n) at 1. rewrite Z.quot_opp_l by lia. f_equal.
    apply Z.quot_div_nonneg; lia.
  - apply Z.quot_div_nonneg; lia.
Qed.

(* ============================================================ floor 293-300 *)
(* nr:181-190: (numer - denom + 1) / denom for a negative ratio *)
Definition floor_known (a : num) : bool :=
  match a with Rational n d => (n <? 0) && (n - d <? I32_MIN) | _ => false end.

Lemma floor_neg_arith n d : n < 0 -> 0 < d -> Z.quot (n - d + 1) d = n / d.
Proof.
  intros Hn Pd.
  replace (n - d + 1) with (- (d - 1 - n)) by ring. rewrite Z.quot_opp_l by lia.
  rewrite Z.quot_div_nonneg by lia.
  pose proof (Z.div_mod n d ltac:(lia)). pose proof (Z.mod_pos_bound n d Pd).
  assert (E : - (n / d) = (d - 1 - n) / d) by (apply Z.div_unique with (d - 1 - n mod d); lia).
  lia.
Qed.

Theorem floor_exact p a : wfb a = true -> is_exact a = true -> floor_known a = false ->
  exists r, num_floor p a = Ok r /\ is_exact r = true /\ wfb r = true /\
    int_of r = Some (Qfloor (qv a)).
Proof.
  intros W X K. destruct a as [z|z|n d|f]; try discriminate; cbn [num_floor].
  - eexists. split; [reflexivity|]. split; [reflexivity|]. split; [exact W|].
    cbn [int_of qv]. now rewrite Qfloor_Z.
  - eexists. split; [reflexivity|]. split; [reflexivity|]. split; [exact W|].
    cbn [int_of qv]. now rewrite Qfloor_Z.
  - cbn [wfb] in W. destruct (rwfb_parts _ _ W) as [Hn [Hd [Pd G]]].
    cbn [floor_known] in K. unfold rfloor. rewrite rlt_zero by assumption. cbn [bind].
    pose proof Hn as Bn. pose proof Hd as Bd. apply i32_bounds in Bn. apply i32_bounds in Bd.
    assert (FQ : Qfloor (qv (Rational n d)) = n / d).
    { cbn [qv]. unfold Qfloor. now rewrite Z2Pos.id by exact Pd. }
    rewrite FQ. pose proof (Z.div_mod n d ltac:(lia)) as DM. pose proof (Z.mod_pos_bound n d Pd) as MB.
    assert (RQ : in_i32 (n / d) = true) by (apply i32_bounds; nia).
    destruct (Z.ltb_spec n 0) as [Nn|Nn]; cbn [andb] in K.
    + apply Z.ltb_ge in K. unfold I32_MIN in K. change (2 ^ 31) with 2147483648 in K.
      unfold isub, iadd. rewrite ovf_ok by (apply in_int32_bounds; lia). cbn [bind].
      rewrite ovf_ok by (apply in_int32_bounds; lia). cbn [bind].
      rewrite idiv_ok by lia. cbn [bind]; unfold r32, rfrom_integer; cbn [fst snd].
      rewrite floor_neg_arith by lia.
      eexists. split; [reflexivity|]. split; [reflexivity|]. split; [now apply wfb_int_ratio|reflexivity].
    + rewrite idiv_ok by lia. cbn [bind]; unfold r32, rfrom_integer; cbn [fst snd].
      rewrite Z.quot_div_nonneg by lia.
      eexists. split; [reflexivity|]. split; [reflexivity|]. split; [now apply wfb_int_ratio|reflexivity].
Qed.

Theorem floor_known_panics a : wfb a = true -> floor_known a = true ->
  num_floor Debug a = Panic P_OVERFLOW.
Proof.
  intros W K. destruct a as [z|z|n d|f]; try discriminate.
  cbn [wfb] in W. destruct (rwfb_parts _ _ W) as [Hn [Hd [Pd G]]].
  cbn [floor_known] in K. apply andb_true_iff in K. destruct K as [K1 K2].
  cbn [num_floor]. unfold rfloor. rewrite rlt_zero by assumption. rewrite K1. cbn [bind].
  apply Z.ltb_lt in K2. unfold I32_MIN in K2. change (2 ^ 31) with 2147483648 in K2.
  unfold isub, ovf, W32. destruct (in_int 32 (n - d)) eqn:E; [apply in_int32_bounds in E; lia|reflexivity].
Qed.

Theorem floor_debug_panics_iff a : wfb a = true -> is_exact a = true ->
  ((exists s, num_floor Debug a = Panic s) <-> floor_known a = true).
Proof.
  intros W X. split.
  - intros [s Hs]. destruct (floor_known a) eqn:K; [reflexivity|].
    destruct (floor_exact Debug a W X K) as [r [Hr _]]. rewrite Hr in Hs. discriminate.
  - intros K. exists P_OVERFLOW. now apply floor_known_panics.
Qed.

(* ========================================================== ceiling 302-309 *)
(* nr:194-204: (numer + denom - 1) / denom for a non-negative ratio *)
Definition ceil_known (a : num) : bool :=
  match a with Rational n d => negb (n <? 0) && (I32_MAX <? n + d) | _ => false end.

Lemma quot_neg_arith n d : n < 0 -> 0 < d -> Z.quot n d = - ((- n) / d).
Proof. intros. rewrite <- Z.quot_div_nonneg by lia. rewrite Z.quot_opp_l by lia. lia. Qed.

Lemma ceil_nonneg_arith n d : 0 <= n -> 0 < d -> Z.quot (n + d - 1) d = - ((- n) / d).
Proof.
  intros Hn Pd. rewrite Z.quot_div_nonneg by lia.
  pose proof (Z.div_mod (- n) d ltac:(lia)). pose proof (Z.mod_pos_bound (- n) d Pd).
  symmetry. apply Z.div_unique with (d - 1 - (- n) mod d); lia.
Qed.

Theorem ceil_exact p a : wfb a = true -> is_exact a = true -> ceil_known a = false ->
  exists r, num_ceil p a = Ok r /\ is_exact r = true /\ wfb r = true /\
    int_of r = Some (Qceiling (qv a)).
Proof.
  intros W X K. destruct a as [z|z|n d|f]; try discriminate; cbn [num_ceil].
  - eexists. split; [reflexivity|]. split; [reflexivity|]. split; [exact W|].
    cbn [int_of qv]. now rewrite Qceiling_Z.
  - eexists. split; [reflexivity|]. split; [reflexivity|]. split; [exact W|].
    cbn [int_of qv]. now rewrite Qceiling_Z.
  - cbn [wfb] in W. destruct (rwfb_parts _ _ W) as [Hn [Hd [Pd G]]].
    cbn [ceil_known] in K. unfold rceil. rewrite rlt_zero by assumption. cbn [bind].
    pose proof Hn as Bn. pose proof Hd as Bd. apply i32_bounds in Bn. apply i32_bounds in Bd.
    assert (FQ : Qceiling (qv (Rational n d)) = - ((- n) / d)).
    { cbn [qv]. unfold Qceiling, Qfloor, Qopp. cbn [Qnum Qden]. now rewrite Z2Pos.id by exact Pd. }
    rewrite FQ. pose proof (Z.div_mod (- n) d ltac:(lia)) as DM. pose proof (Z.mod_pos_bound (- n) d Pd) as MB.
    assert (RQ : in_i32 (- (- n / d)) = true) by (apply i32_bounds; nia).
    destruct (Z.ltb_spec n 0) as [Nn|Nn]; cbn [negb andb] in K.
    + rewrite idiv_ok by lia. cbn [bind]; unfold r32, rfrom_integer; cbn [fst snd].
      rewrite quot_neg_arith by lia.
      eexists. split; [reflexivity|]. split; [reflexivity|]. split; [now apply wfb_int_ratio|reflexivity].
    + apply Z.ltb_ge in K. unfold I32_MAX in K. change (2 ^ 31) with 2147483648 in K.
      unfold isub, iadd. rewrite ovf_ok by (apply in_int32_bounds; lia). cbn [bind].
      rewrite ovf_ok by (apply in_int32_bounds; lia). cbn [bind].
      rewrite idiv_ok by lia. cbn [bind]; unfold r32, rfrom_integer; cbn [fst snd].
      rewrite ceil_nonneg_arith by lia.
      eexists. split; [reflexivity|]. split; [reflexivity|]. split; [now apply wfb_int_ratio|reflexivity].
Qed.

Theorem ceil_known_panics a : wfb a = true -> ceil_known a = true ->
  num_ceil Debug a = Panic P_OVERFLOW.
Proof.
  intros W K. destruct a as [z|z|n d|f]; try discriminate.
  cbn [wfb] in W. destruct (rwfb_parts _ _ W) as [Hn [Hd [Pd G]]].
  cbn [ceil_known] in K. apply andb_true_iff in K. destruct K as [K1 K2].
  apply negb_true_iff in K1.
  cbn [num_ceil]. unfold rceil. rewrite rlt_zero by assumption. rewrite K1. cbn [bind].
  apply Z.ltb_lt in K2. unfold I32_MAX in K2. change (2 ^ 31) with 2147483648 in K2.
  unfold iadd, ovf, W32. destruct (in_int 32 (n + d)) eqn:E; [apply in_int32_bounds in E; lia|reflexivity].
Qed.

Theorem ceil_debug_panics_iff a : wfb a = true -> is_exact a = true ->
  ((exists s, num_ceil Debug a = Panic s) <-> ceil_known a = true).
Proof.
  intros W X. split.
  - intros [s Hs]. destruct (ceil_known a) eqn:K; [reflexivity|].
    destruct (ceil_exact Debug a W X K) as [r [Hr _]]. rewrite Hr in Hs. discriminate.
  - intros K. exists P_OVERFLOW. now apply ceil_known_panics.
Qed.

(* ============================================================ round 284-291 *)
(* nr:208-241.  What the code computes: trunc, moved one step away from zero when the
   unsigned fractional part is >= 1/2.  That is rounding half AWAY FROM ZERO
   (R7RS `round` rounds to even on ties: see Qround_even and round_differs_r7rs). *)
Definition round_away_z (n d : Z) : Z :=
  let q := Z.quot n d in
  if d <=? 2 * Z.abs (Z.rem n d) then (if n <? 0 then q - 1 else q + 1) else q.

(* sign(x) * floor(|x| + 1/2) *)
Definition Qround_away (x : Q) : Z := Z.sgn (Qnum x) * Qfloor (Qabs x + (1 # 2)).
(* R7RS: nearest integer, ties to even *)
Definition Qround_even (x : Q) : Z :=
  let f := Qfloor (x + (1 # 2)) in
  if Qeq_bool (x + (1 # 2)) (inject_Z f) && Z.odd f then f - 1 else f.

Lemma gcd_rem n d : Z.gcd (Z.rem n d) d = Z.gcd n d.
Proof.
  pose proof (Z.quot_rem' n d) as E.
  replace (Z.rem n d) with (n + (- Z.quot n d) * d) by lia.
  rewrite Z.gcd_comm, Z.gcd_add_mult_diag_r. apply Z.gcd_comm.
Qed.

Lemma half_up a d : 0 <= a -> 0 < d ->
  (2 * a + d) / (2 * d) = if d <=? 2 * (a mod d) then a / d + 1 else a / d.
Proof.
  intros Ha Pd. pose proof (Z.div_mod a d ltac:(lia)) as DM. pose proof (Z.mod_pos_bound a d Pd) as MB.
  destruct (Z.leb_spec d (2 * (a mod d))); symmetry.
  - apply Z.div_unique with (2 * (a mod d) - d); lia.
  - apply Z.div_unique with (2 * (a mod d) + d); lia.
Qed.

Lemma round_away_z_spec n d : 0 < d -> round_away_z n d = Qround_away (n # Z.to_pos d).
Proof.
  intros Pd. unfold Qround_away, Qabs, Qplus, Qfloor. cbn [Qnum Qden].
  rewrite Pos2Z.inj_mul, Z2Pos.id by exact Pd.
  replace (Z.abs n * 2 + 1 * d) with (2 * Z.abs n + d) by ring.
  replace (d * 2) with (2 * d) by ring.
  rewrite half_up by lia. unfold round_away_z.
  destruct (Z.ltb_spec n 0) as [Nn|Nn].
  - remember (- n) as a eqn:Ea. assert (En : n = - a) by lia. subst n. assert (Pa : 0 < a) by lia.
    rewrite Z.sgn_neg by lia. rewrite Z.quot_opp_l, Z.rem_opp_l by lia. rewrite !Z.abs_opp.
    rewrite (Z.abs_eq a) by lia.
    rewrite Z.quot_div_nonneg, Z.rem_mod_nonneg by lia.
    rewrite (Z.abs_eq (a mod d)) by (apply Z.mod_pos_bound; lia).
    destruct (d <=? 2 * (a mod d)); lia.
  - rewrite (Z.abs_eq n) by lia. rewrite Z.quot_div_nonneg, Z.rem_mod_nonneg by lia.
    rewrite (Z.abs_eq (n mod d)) by (apply Z.mod_pos_bound; lia).
    destruct (Z.eq_dec n 0) as [->|N0].
    + rewrite Z.mod_0_l, Z.div_0_l by lia. cbn [Z.sgn Z.mul]. destruct (Z.leb_spec d 0); lia.
    + rewrite Z.sgn_pos by lia. destruct (d <=? 2 * (n mod d)); lia.
Qed.

Lemma rround_wf p n d : rwfb n d = true -> rround p W32 (n, d) = Ok (round_away_z n d, 1).
Proof.
  intros W. destruct (rwfb_parts _ _ W) as [Hn [Hd [Pd G]]].
  pose proof Hn as Bn. pose proof Hd as Bd. apply i32_bounds in Bn. apply i32_bounds in Bd.
  pose proof (Z.quot_rem' n d) as QR. pose proof (Z.rem_bound_abs n d ltac:(lia)) as RB.
  assert (S1 : 0 <= n -> 0 <= Z.rem n d) by (intros; apply Z.rem_nonneg; lia).
  assert (S2 : n <= 0 -> Z.rem n d <= 0) by (intros; apply Z.rem_nonpos; lia).
  assert (Gm : Z.gcd (Z.rem n d) d = 1) by (now rewrite gcd_rem).
  unfold round_away_z.
  set (m := Z.rem n d) in *. set (q := Z.quot n d) in *.
  assert (Hm : in_i32 m = true) by (apply i32_bounds; lia).
  unfold rround, rfract. cbn [fst snd]. rewrite irem_ok by lia. fold m. cbn [bind].
  rewrite rlt_zero by assumption. cbn [bind].
  assert (FR : (if m <? 0 then rsub p W32 rzero (m, d) else @Ok ratio (m, d)) = Ok (Z.abs m, d)).
  { destruct (Z.ltb_spec m 0) as [Mn|Mn]; [|now rewrite Z.abs_eq by lia].
    assert (D1 : d <> 1) by (intros E; subst d; unfold m in Mn; rewrite Z.rem_1_r in Mn; lia).
    unfold rsub, rarith, rzero. destruct (Z.eqb_spec 1 d); [lia|].
    unfold ilcm. cbn [Z.eqb andb].
    rewrite igcd_spec; try assumption; try reflexivity; try (unfold W32; lia).
    2:{ unfold gcd_safe. rewrite imin_W32. lia. }
    rewrite Z.gcd_1_l. cbn [bind]. rewrite idiv_ok by lia. cbn [bind]. rewrite Z.quot_1_r.
    unfold imul. rewrite Z.mul_1_l, ovf_ok by exact Hd. cbn [bind].
    unfold iabs. destruct (Z.ltb_spec d 0); [lia|]. cbn [bind].
    rewrite idiv_ok by lia. cbn [bind]. rewrite Z.quot_1_r.
    rewrite Z.mul_0_l, ovf_ok by reflexivity. cbn [bind].
    rewrite idiv_ok by lia. cbn [bind]. rewrite Z.quot_same by lia.
    rewrite Z.mul_1_r, ovf_ok by exact Hm. cbn [bind apply_aop].
    unfold isub. rewrite ovf_ok by (apply in_int32_bounds; lia). cbn [bind].
    unfold rnew. replace (0 - m) with (- m) by ring. rewrite rreduce_coprime; try assumption.
    - now rewrite Z.abs_neq by lia.
    - apply i32_bounds; lia.
    - now rewrite Z.gcd_opp_l. }
  rewrite FR. cbn [bind].
  rewrite idiv_ok by lia. cbn [bind].
  assert (HOL : (if Z.even d then Ok (Z.quot d 2 <=? Z.abs m)
                 else do h1 <- iadd p W32 (Z.quot d 2) 1; Ok (h1 <=? Z.abs m))
                = Ok (d <=? 2 * Z.abs m)).
  { rewrite Z.quot_div_nonneg by lia.
    pose proof (Z.div_mod d 2 ltac:(lia)) as DM. pose proof (Zmod_even d) as ME.
    destruct (Z.even d).
    - f_equal. destruct (Z.leb_spec (d / 2) (Z.abs m)); destruct (Z.leb_spec d (2 * Z.abs m)); lia.
    - unfold iadd. rewrite ovf_ok by (apply in_int32_bounds; lia). cbn [bind]. f_equal.
      destruct (Z.leb_spec (d / 2 + 1) (Z.abs m)); destruct (Z.leb_spec d (2 * Z.abs m)); lia. }
  rewrite HOL. cbn [bind].
  rewrite rtrunc_wf by assumption. fold q. cbn [bind].
  destruct (Z.leb_spec d (2 * Z.abs m)) as [L|L]; [|reflexivity].
  assert (D2 : 2 <= d).
  { destruct (Z.eq_dec d 1) as [E|E]; [|lia]. exfalso. subst d. unfold m in L. rewrite Z.rem_1_r in L. lia. }
  assert (Bq : -1073741824 <= q <= 1073741824) by nia.
  rewrite rge_zero by assumption. cbn [bind].
  destruct (Z.ltb_spec n 0) as [Nn|Nn]; cbn [negb].
  - unfold rsub, rarith, rone. cbn [Z.eqb Pos.eqb apply_aop].
    unfold isub. rewrite ovf_ok by (apply in_int32_bounds; lia). cbn [bind].
    unfold rnew. rewrite rreduce_coprime; try reflexivity; try lia.
    + apply i32_bounds; lia. + apply Z.gcd_1_r.
  - unfold radd, rarith, rone. cbn [Z.eqb Pos.eqb apply_aop].
    unfold iadd. rewrite ovf_ok by (apply in_int32_bounds; lia). cbn [bind].
    unfold rnew. rewrite rreduce_coprime; try reflexivity; try lia.
    + apply i32_bounds; lia. + apply Z.gcd_1_r.
Qed.

Lemma round_away_z_i32 n d : in_i32 n = true -> 0 < d -> in_i32 (round_away_z n d) = true.
Proof.
  intros Hn Pd. unfold round_away_z.
  pose proof (quot_i32 n d Hn Pd) as Hq. apply i32_bounds in Hn. apply i32_bounds in Hq. apply i32_bounds.
  pose proof (Z.quot_rem' n d) as QR. pose proof (Z.rem_bound_abs n d ltac:(lia)) as RB.
  assert (S1 : 0 <= n -> 0 <= Z.rem n d) by (intros; apply Z.rem_nonneg; lia).
  assert (S2 : n <= 0 -> Z.rem n d <= 0) by (intros; apply Z.rem_nonpos; lia).
  destruct (Z.leb_spec d (2 * Z.abs (Z.rem n d))) as [L|L]; [|lia].
  assert (D2 : 2 <= d).
  { destruct (Z.eq_dec d 1) as [E|E]; [|lia]. exfalso. subst d. rewrite Z.rem_1_r in L. lia. }
  destruct (Z.ltb_spec n 0); nia.
Qed.

(* round never panics and never overflows on a well-formed Rational32 *)
Theorem round_exact p a : wfb a = true -> is_exact a = true ->
  exists r, num_round p a = Ok r /\ is_exact r = true /\ wfb r = true /\
    int_of r = Some (Qround_away (qv a)).
Proof.
  intros W X. destruct a as [z|z|n d|f]; try discriminate; cbn [num_round].
  - eexists. split; [reflexivity|]. split; [reflexivity|]. split; [exact W|].
    cbn [int_of qv]. f_equal. change (inject_Z z) with (z # Z.to_pos 1).
    rewrite <- round_away_z_spec by lia. unfold round_away_z. rewrite Z.rem_1_r, Z.quot_1_r. reflexivity.
  - eexists. split; [reflexivity|]. split; [reflexivity|]. split; [exact W|].
    cbn [int_of qv]. f_equal. change (inject_Z z) with (z # Z.to_pos 1).
    rewrite <- round_away_z_spec by lia. unfold round_away_z. rewrite Z.rem_1_r, Z.quot_1_r. reflexivity.
  - cbn [wfb] in W. destruct (rwfb_parts _ _ W) as [Hn [Hd [Pd G]]].
    rewrite rround_wf by exact W. cbn [bind]; unfold r32; cbn [fst snd].
    eexists. split; [reflexivity|]. split; [reflexivity|]. split.
    + apply wfb_int_ratio. now apply round_away_z_i32.
    + rewrite int_of_ratio1. cbn [qv]. now rewrite round_away_z_spec.
Qed.

(* FINDING (kept as is by the "num" package, now with a machine-checked witness): on the exact
   tie 5/2 the code answers 3; R7RS (round to even) demands 2.  Same for 1/2 -> 1 (R7RS 0) and
   -5/2 -> -3 (R7RS -2); 7/2 -> 4 agrees. *)
Theorem round_differs_r7rs : forall p,
  num_round p (Rational 5 2) = Ok (Rational 3 1) /\ Qround_even (qv (Rational 5 2)) = 2 /\
  num_round p (Rational 1 2) = Ok (Rational 1 1) /\ Qround_even (qv (Rational 1 2)) = 0 /\
  num_round p (Rational (-5) 2) = Ok (Rational (-3) 1) /\ Qround_even (qv (Rational (-5) 2)) = -2 /\
  num_round p (Rational 7 2) = Ok (Rational 4 1) /\ Qround_even (qv (Rational 7 2)) = 4.
Proof. intros []; repeat split; vm_compute; reflexivity. Qed.

(* ---- the builtin procedures (builtin/number.rs 364-438) are these functions applied to the
   single argument *)
Definition unop_fn (u : unop) p (x : num) : out num :=
  match u with
  | UAbs => num_abs p x | UFloor => num_floor p x | UCeiling => num_ceil p x
  | UTruncate => num_truncate x | URound => num_round p x
  | UNumerator => Ok (num_numerator x) | UDenominator => Ok (num_denominator x)
  | UExactInexact => do o <- num_to_inexact x; Ok (match o with Some n => n | None => x end)
  | UInexactExact => do o <- num_to_exact p x; Ok (match o with Some n => n | None => x end)
  end.
Lemma b_unary_num u p x : b_unary u p [ANum x] = do r <- unop_fn u p x; Ok (RNum r).
Proof. destruct u; reflexivity. Qed.

(* ---- round against R7RS (round to even): the two agree except on the ties n/2 whose
   truncation is even *)
Definition round_r7rs_known (a : num) : bool :=
  match a with Rational n d => (d =? 2) && Z.even (Z.quot n 2) | _ => false end.

Lemma coprime_2_odd n : Z.gcd n 2 = 1 -> n mod 2 = 1.
Proof.
  intros G. pose proof (Z.mod_pos_bound n 2 ltac:(lia)) as B. pose proof (Z.div_mod n 2 ltac:(lia)) as E.
  destruct (Z.eq_dec (n mod 2) 0) as [M|M]; [|lia]. exfalso.
  assert (D : (2 | Z.gcd n 2)) by (apply Z.gcd_greatest; [exists (n / 2); lia|exists 1; lia]).
  rewrite G in D. destruct D as [k Hk]. lia.
Qed.

(* the tie test of Qround_even on a reduced fraction: x + 1/2 is an integer iff d = 2 *)
Lemma tie_iff n d : 0 < d -> Z.gcd n d = 1 ->
  Qeq_bool ((n # Z.to_pos d) + (1 # 2)) (inject_Z (Qfloor ((n # Z.to_pos d) + (1 # 2)))) = (d =? 2).
Proof.
  intros Pd G.
  assert (F : Qfloor ((n # Z.to_pos d) + (1 # 2)) = (2 * n + d) / (2 * d)).
  { unfold Qplus, Qfloor. cbn [Qnum Qden]. rewrite Pos2Z.inj_mul, Z2Pos.id by exact Pd. f_equal; ring. }
  rewrite F. set (f := (2 * n + d) / (2 * d)).
  pose proof (Z.div_mod (2 * n + d) (2 * d) ltac:(lia)) as DM. fold f in DM.
  pose proof (Z.mod_pos_bound (2 * n + d) (2 * d) ltac:(lia)) as MB.
  set (r := (2 * n + d) mod (2 * d)) in *.
  assert (Q : Qeq_bool ((n # Z.to_pos d) + (1 # 2)) (inject_Z f) = true <-> r = 0).
  { rewrite Qeq_bool_iff. unfold Qeq, Qplus, inject_Z. cbn [Qnum Qden].
    rewrite Pos2Z.inj_mul, Z2Pos.id by exact Pd. split; intros H; nia. }
  destruct (Z.eqb_spec d 2) as [D2|D2].
  - apply Q. subst d. pose proof (coprime_2_odd n G) as O.
    pose proof (Z.div_mod n 2 ltac:(lia)) as En. rewrite O in En.
    assert (r = (2 * n + 2) mod 4) by reflexivity.
    assert ((2 * n + 2) mod 4 = 0); [|lia].
    rewrite En. replace (2 * (2 * (n / 2) + 1) + 2) with ((n / 2 + 1) * 4) by ring. apply Z.mod_mul. lia.
  - destruct (Qeq_bool ((n # Z.to_pos d) + (1 # 2)) (inject_Z f)) eqn:T; [|reflexivity].
    exfalso. assert (R0 : r = 0) by (apply Q; reflexivity). rewrite R0, Z.add_0_r in DM.
    assert (Dv : (d | n * 2)) by (exists (2 * f - 1); lia).
    assert (D' : (d | 2)) by (apply Z.gauss with n; [exact Dv|now rewrite Z.gcd_comm]).
    apply Z.divide_pos_le in D'; [|lia]. assert (d = 1) by lia. subst d. lia.
Qed.

Lemma round_even_vs_away n d : 0 < d -> Z.gcd n d = 1 ->
  (round_away_z n d = Qround_even (n # Z.to_pos d) <-> (d =? 2) && Z.even (Z.quot n 2) = false).
Proof.
  intros Pd G.
  unfold Qround_even. rewrite tie_iff by assumption.
  assert (F : Qfloor ((n # Z.to_pos d) + (1 # 2)) = (2 * n + d) / (2 * d)).
  { unfold Qplus, Qfloor. cbn [Qnum Qden]. rewrite Pos2Z.inj_mul, Z2Pos.id by exact Pd. f_equal; ring. }
  rewrite F. clear F.
  destruct (Z.eqb_spec d 2) as [D2|D2]; cbn [andb].
  - (* a tie: n odd *)
    subst d. pose proof (coprime_2_odd n G) as O. unfold round_away_z.
    pose proof (Z.quot_rem' n 2) as QR. pose proof (Z.rem_bound_abs n 2 ltac:(lia)) as RB.
    assert (S1 : 0 <= n -> 0 <= Z.rem n 2) by (intros; apply Z.rem_nonneg; lia).
    assert (S2 : n <= 0 -> Z.rem n 2 <= 0) by (intros; apply Z.rem_nonpos; lia).
    pose proof (Z.div_mod n 2 ltac:(lia)) as En. rewrite O in En.
    replace (2 * n + 2) with ((n / 2 + 1) * 4) by lia. replace (2 * 2) with 4 by reflexivity.
    rewrite Z.div_mul by lia.
    set (q := Z.quot n 2) in *. set (m := Z.rem n 2) in *. set (k := n / 2) in *.
    rewrite (Zodd_mod (k + 1)), (Zeven_mod q).
    pose proof (Z.mod_pos_bound (k + 1) 2 ltac:(lia)) as B1. pose proof (Z.div_mod (k + 1) 2 ltac:(lia)) as E1.
    pose proof (Z.mod_pos_bound q 2 ltac:(lia)) as B2. pose proof (Z.div_mod q 2 ltac:(lia)) as E2.
    destruct (Z.leb_spec 2 (2 * Z.abs m)) as [L|L]; [|lia].
    unfold Zeq_bool.
    destruct (Z.ltb_spec n 0) as [Nn|Nn];
      destruct (Z.compare_spec ((k + 1) mod 2) 1); destruct (Z.compare_spec (q mod 2) 0);
      split; intros HH; try reflexivity; try discriminate; try lia.
  - (* no tie: floor (x + 1/2) in both *)
    split; [reflexivity|intros _].
    rewrite round_away_z_spec by exact Pd. unfold Qround_away, Qabs, Qplus, Qfloor. cbn [Qnum Qden].
    rewrite Pos2Z.inj_mul, Z2Pos.id by exact Pd.
    replace (Z.abs n * 2 + 1 * d) with (2 * Z.abs n + d) by ring. replace (d * 2) with (2 * d) by ring.
    destruct (Z.ltb_spec n 0) as [Nn|Nn].
    + rewrite Z.sgn_neg by lia. rewrite (Z.abs_neq n) by lia.
      (* x + 1/2 is not an integer *)
      pose proof (tie_iff n d Pd G) as T. apply Z.eqb_neq in D2. rewrite D2 in T.
      assert (F : Qfloor ((n # Z.to_pos d) + (1 # 2)) = (2 * n + d) / (2 * d)).
      { unfold Qplus, Qfloor. cbn [Qnum Qden]. rewrite Pos2Z.inj_mul, Z2Pos.id by exact Pd. f_equal; ring. }
      rewrite F in T.
      assert (NZ : (2 * n + d) mod (2 * d) <> 0).
      { intros M. pose proof (Z.div_mod (2 * n + d) (2 * d) ltac:(lia)) as DM. rewrite M, Z.add_0_r in DM.
        assert (X : Qeq_bool ((n # Z.to_pos d) + (1 # 2)) (inject_Z ((2 * n + d) / (2 * d))) = true).
        { apply Qeq_bool_iff. unfold Qeq, Qplus, inject_Z. cbn [Qnum Qden].
          rewrite Pos2Z.inj_mul, Z2Pos.id by exact Pd. nia. }
        rewrite X in T. discriminate. }
      pose proof (Z.div_mod (2 * n + d) (2 * d) ltac:(lia)) as DM.
      pose proof (Z.mod_pos_bound (2 * n + d) (2 * d) ltac:(lia)) as MB.
      set (q := (2 * n + d) / (2 * d)) in *. set (r := (2 * n + d) mod (2 * d)) in *.
      assert (E : (2 * - n + d) / (2 * d) = - q).
      { symmetry. apply Z.div_unique with (2 * d - r); lia. }
      rewrite E. ring.
    + rewrite (Z.abs_eq n) by lia. destruct (Z.eq_dec n 0) as [->|N0].
      * change (2 * 0 + d) with d. rewrite Z.div_small by lia. reflexivity.
      * rewrite Z.sgn_pos by lia. ring.
Qed.

Theorem round_r7rs_iff p a : wfb a = true -> is_exact a = true ->
  exists r z, num_round p a = Ok r /\ int_of r = Some z /\
    (z = Qround_even (qv a) <-> round_r7rs_known a = false).
Proof.
  intros W X. destruct (round_exact p a W X) as [r [Hr [_ [_ Ir]]]].
  exists r, (Qround_away (qv a)). split; [exact Hr|]. split; [exact Ir|].
  destruct a as [z|z|n d|f]; try discriminate; cbn [round_r7rs_known qv].
  - change (inject_Z z) with (z # Z.to_pos 1). rewrite <- round_away_z_spec by lia.
    pose proof (round_even_vs_away z 1 ltac:(lia) (Z.gcd_1_r z)) as H. cbn [Z.eqb andb] in H. exact H.
  - change (inject_Z z) with (z # Z.to_pos 1). rewrite <- round_away_z_spec by lia.
    pose proof (round_even_vs_away z 1 ltac:(lia) (Z.gcd_1_r z)) as H. cbn [Z.eqb andb] in H. exact H.
  - cbn [wfb] in W. destruct (rwfb_parts _ _ W) as [_ [_ [Pd G]]].
    rewrite <- round_away_z_spec by exact Pd. now apply round_even_vs_away.
Qed.
