(* FragmentBoot.v — C01 (work package c01d): statements used verbatim by Props/C01.v — the
   invariant J spelled out, the builtin environment spelled out, the frame condition of a local
   store spelled out, fragments 4 and 6 on every state of a session from the booted machine, the
   store rules of the reference semantics of fragment 6.                                    *)
From Coq Require Import Lia List String.
From MW Require Import Model.Base Model.F64 Model.Num Model.Datum Model.TransformDef Model.Transform
  Model.VmTypes Model.Heap Model.Gc Model.VmBase Model.Compile Model.Vm Model.Builtins
  Proofs.RunProofs Proofs.CompileCorrect Proofs.CompileCorrect2 Proofs.Closures3.
From MW Require Proofs.FlatAll Proofs.KeepCalc Proofs.BootMinv Proofs.BootGenv Proofs.StoreLocal5
  Proofs.Closures4 Proofs.EvalFragment4 Proofs.Closures6 Proofs.EvalFragment6.
From MW Require Gen.Builtins.
Open Scope N_scope.

Lemma J_unfold s : KeepCalc.J s <->
  ginv s /\ sp s < scap s /\
  (forall cid k, tget (conts (st s)) cid = Some k -> k_sp k < len (k_stack k)).
Proof. split; [intros [G S K]; auto|intros (G & S & K); constructor; assumption]. Qed.

Lemma builtin_rho3_unfold x i : BootGenv.builtin_rho3 x = Some (R3Base (RBuiltin i)) <->
  exists e, nth_error Gen.Builtins.builtin_table (N.to_nat i) = Some e /\ fst e = x.
Proof.
  rewrite <- BootGenv.builtin_index_iff. unfold BootGenv.builtin_rho3.
  destruct (BootGenv.builtin_index x) as [j|]; split; intros H; try discriminate;
    [injection H as <-|injection H as <-]; reflexivity.
Qed.

Lemma frameL_unfold L m m' : StoreLocal5.frameL L m m' <->
  frame m m' /\
  (forall e sl, e < next_id (st m) -> tget (envs (st m)) e = Some sl ->
     exists sl', tget (envs (st m')) e = Some sl' /\ len sl' = len sl /\
       forall k, ~ L e k -> list_get sl' k = list_get sl k).
Proof. split; [intros [F E]; split; assumption|intros [F E]; constructor; assumption]. Qed.

Import Closures4 EvalFragment4.
Theorem eval_fragment4_session (ob : N -> M vcell) (bsem : N -> list rval -> option rval) :
  (forall b, builtin_ok ob bsem b) -> (forall b, builtin_envs ob bsem b) ->
  forall e rho r rho' s0 s,
  booted = Some s0 -> FlatAll.evals s0 s ->
  wf4 e [] -> ref_eval4 bsem [] [] rho e r rho' -> genv_rel4 rho s ->
  transform_expr TRANSFORM_FUEL s (cell_of4 e) = Ok (cell_of4 e) ->
  exists n m, (forall fuel, (n <= fuel)%nat -> eval ob fuel (cell_of4 e) s = halt_result m) /\
    vrep4 m (acc m) r /\ genv_rel4 rho' m /\ minv m /\ cext s m /\
    sp m = sp s /\ bp m = bp s /\ ep m = ep s /\ out_log m = out_log s.
Proof.
  intros Hb He e rho r rho' s0 s B R Hwf HR G Ht.
  exact (eval_fragment4 ob bsem Hb He e rho r rho' s Hwf HR (BootMinv.session_minv s0 s B R) G Ht).
Qed.

Import Closures6 EvalFragment6.
Theorem eval_fragment6_session (ob : N -> M vcell) (bsem : N -> list rval -> option rval) :
  (forall b, builtin_ok ob bsem b) -> (forall b, builtin_envs ob bsem b) ->
  forall e mu sg rho r sg' rho' s0 s,
  booted = Some s0 -> FlatAll.evals s0 s ->
  wf6 e [] -> ref_eval6 bsem [] [] sg rho e r sg' rho' -> genv_rel6 mu rho s -> store_rel mu sg s ->
  transform_expr TRANSFORM_FUEL s (cell_of6 e) = Ok (cell_of6 e) ->
  exists n m mu', (forall fuel, (n <= fuel)%nat -> eval ob fuel (cell_of6 e) s = halt_result m) /\
    (exists more, mu' = mu ++ more) /\ vrep6 mu' m (acc m) r /\ genv_rel6 mu' rho' m /\ store_rel mu' sg' m /\
    minv m /\ cext s m /\ sp m = sp s /\ bp m = bp s /\ ep m = ep s /\ out_log m = out_log s.
Proof.
  intros Hb He e mu sg rho r sg' rho' s0 s B R Hwf HR G SR Ht.
  exact (eval_fragment6 ob bsem Hb He e mu sg rho r sg' rho' s Hwf HR (BootMinv.session_minv s0 s B R) G SR Ht).
Qed.

Theorem ref_eval6_store_rules (bsem : N -> list rval -> option rval) :
  (forall sc lv sg rho x i l r, pindex x sc = Some i -> nth_error lv (N.to_nat i) = Some l ->
     nth_error sg l = Some r -> ref_eval6 bsem sc lv sg rho (WVar x) r sg rho) /\
  (forall sc lv sg rho x e r sg1 rho1 i l, pindex x sc = Some i -> nth_error lv (N.to_nat i) = Some l ->
     ref_eval6 bsem sc lv sg rho e r sg1 rho1 -> (l < length sg1)%nat ->
     ref_eval6 bsem sc lv sg rho (WSet x e) (R6Base (RDatum CVoid)) (sset6 sg1 l r) rho1) /\
  (forall sc lv sg rho ps fs bodies clocs,
     Forall2 (fun x l => exists i, pindex x sc = Some i /\ nth_error lv (N.to_nat i) = Some l) (capnames6 sc fs) clocs ->
     ref_eval6 bsem sc lv sg rho (WLam ps fs bodies) (R6Clo ps (capnames6 sc fs) bodies clocs) sg rho) /\
  (forall sc lv sg rho f args rs sg1 rho1 ps cs bodies clocs sg2 rho2 vs pre r sg3 rho3,
     ref_evals6 bsem sc lv sg rho args rs sg1 rho1 ->
     ref_eval6 bsem sc lv sg1 rho1 f (R6Clo ps cs bodies clocs) sg2 rho2 ->
     length rs = length ps ->
     ref_evals6 bsem (ps ++ cs) (seq (length sg2) (length rs) ++ clocs) (sg2 ++ rs) rho2 bodies vs sg3 rho3 ->
     vs = pre ++ [r] ->
     ref_eval6 bsem sc lv sg rho (WApp f args) r sg3 rho3).
Proof.
  split; [exact (R6_local bsem)|]. split; [exact (R6_setl bsem)|].
  split; [exact (R6_lam bsem)|exact (R6_app_closure bsem)].
Qed.
