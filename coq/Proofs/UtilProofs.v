(* UtilProofs.v — the two f64 utilisation tests of Vm::run_gc (run.rs:483-507, Model/Gc.v
   [utilisation], [f64_three_quarters]) coincide with the rational tests of the counter
   machine of Model/Growth.v, for every capacity below 2^52 (C12 util_test_rational).

   used/cap is computed as ONE correctly rounded binary64 division of two exactly converted
   integers (both <= cap < 2^52 < 2^53).  0.75 = 3 * 2^-2 is a double.  Rounding to nearest
   is monotone, so  used/cap >= 3/4  gives  rounded >= 3/4  (and <= likewise).  In the other
   direction the rounded quotient could a priori land ON 0.75; it does not, because
   |used/cap - 3/4| = |4 used - 3 cap| / (4 cap) >= 1 / (4 cap) > 2^-54 when cap < 2^52,
   while the two doubles next to 0.75 are 0.75 -+ 2^-53: a real farther than 2^-54 from 0.75
   is strictly nearer to that neighbour (or beyond it) than to 0.75.                       *)
From Coq Require Import ZArith NArith Lia Lra Bool Reals.
From Flocq Require Import Core IEEE754.BinarySingleNaN.
From MW Require Import Model.Base Model.F64 Model.Gc Proofs.CmpFloatProofs.
Open Scope R_scope.

Notation fexp64 := (SpecFloat.fexp 53 1024).
Notation rnd64 := (round radix2 fexp64 (round_mode mode_NE)).

Definition e54 : R := bpow radix2 (-54).
Definition r34 : R := 3 / 4.

Lemma e54_pos : 0 < e54.
Proof. apply bpow_gt_0. Qed.
Lemma e54_val : e54 * IZR (2 ^ 54) = 1.
Proof.
  unfold e54. replace (IZR (2 ^ 54)) with (bpow radix2 54) by (symmetry; exact (IZR_Zpower radix2 54 ltac:(lia))).
  rewrite <- bpow_plus. reflexivity.
Qed.
Lemma e53_val : bpow radix2 (-53) = 2 * e54.
Proof.
  unfold e54. change (-53)%Z with (1 + -54)%Z. rewrite bpow_plus.
  change (bpow radix2 1) with 2. reflexivity.
Qed.

(* m * 2^e is a double when |m| < 2^53 and e is in the normal range *)
Lemma format_mant m e : (Z.abs m < 2 ^ 53)%Z -> (-1074 <= e)%Z ->
  generic_format radix2 fexp64 (IZR m * bpow radix2 e).
Proof.
  intros Bm He.
  apply (generic_format_FLT radix2 (3 - 1024 - 53) 53).
  apply (FLT_spec radix2 (3 - 1024 - 53) 53 _ {| Fnum := m; Fexp := e |}).
  - reflexivity.
  - exact Bm.
  - cbn [Fexp]. lia.
Qed.

Lemma format_r34 : generic_format radix2 fexp64 r34.
Proof.
  replace r34 with (IZR 3 * bpow radix2 (-2)).
  - apply format_mant; lia.
  - unfold r34. change (bpow radix2 (-2)) with (/ 4). lra.
Qed.
Lemma format_one : generic_format radix2 fexp64 1.
Proof.
  replace 1 with (IZR 1 * bpow radix2 0).
  - apply format_mant; lia.
  - change (bpow radix2 0) with 1. lra.
Qed.
(* the two neighbours of 0.75 *)
Lemma format_below : generic_format radix2 fexp64 (r34 - 2 * e54).
Proof.
  replace (r34 - 2 * e54) with (IZR (3 * 2 ^ 51 - 1) * bpow radix2 (-53)).
  - apply format_mant; lia.
  - rewrite minus_IZR, mult_IZR. replace (IZR (2 ^ 51)) with (bpow radix2 51) by (symmetry; exact (IZR_Zpower radix2 51 ltac:(lia))).
    rewrite Rmult_minus_distr_r, Rmult_assoc, <- bpow_plus.
    change (51 + -53)%Z with (-2)%Z. change (bpow radix2 (-2)) with (/ 4).
    rewrite e53_val. unfold r34. lra.
Qed.
Lemma format_above : generic_format radix2 fexp64 (r34 + 2 * e54).
Proof.
  replace (r34 + 2 * e54) with (IZR (3 * 2 ^ 51 + 1) * bpow radix2 (-53)).
  - apply format_mant; lia.
  - rewrite plus_IZR, mult_IZR. replace (IZR (2 ^ 51)) with (bpow radix2 51) by (symmetry; exact (IZR_Zpower radix2 51 ltac:(lia))).
    rewrite Rmult_plus_distr_r, Rmult_assoc, <- bpow_plus.
    change (51 + -53)%Z with (-2)%Z. change (bpow radix2 (-2)) with (/ 4).
    rewrite e53_val. unfold r34. lra.
Qed.

Lemma rnd_nearest x g : generic_format radix2 fexp64 g -> Rabs (rnd64 x - x) <= Rabs (g - x).
Proof.
  intros G.
  pose proof (round_N_pt radix2 fexp64 (fun z => negb (Z.even z)) x) as [_ H].
  exact (H g G).
Qed.

(* monotone part *)
Lemma rnd_mono x y : x <= y -> rnd64 x <= rnd64 y.
Proof.
  intros H. apply round_le; try exact H; try apply valid_rnd_N. apply (fexp_correct 53 1024 prec_gt_0_53).
Qed.
Lemma rnd_id g : generic_format radix2 fexp64 g -> rnd64 g = g.
Proof. intros G. apply round_generic; [apply valid_rnd_N|exact G]. Qed.
Lemma rnd_ge_r34 x : r34 <= x -> r34 <= rnd64 x.
Proof. intros H. apply rnd_mono in H. rewrite (rnd_id _ format_r34) in H. exact H. Qed.
Lemma rnd_le_r34 x : x <= r34 -> rnd64 x <= r34.
Proof. intros H. apply rnd_mono in H. rewrite (rnd_id _ format_r34) in H. exact H. Qed.
Lemma rnd_le_one x : x <= 1 -> rnd64 x <= 1.
Proof. intros H. apply rnd_mono in H. rewrite (rnd_id _ format_one) in H. exact H. Qed.
Lemma rnd_ge_zero x : 0 <= x -> 0 <= rnd64 x.
Proof. intros H. apply rnd_mono in H. rewrite (round_0 radix2 fexp64 (round_mode mode_NE)) in H. exact H. Qed.

(* the strict part: farther than 2^-54 from 0.75 => does not round to 0.75 *)
Lemma rnd_lt_r34 x : x < r34 - e54 -> rnd64 x < r34.
Proof.
  intros H. pose proof (rnd_nearest x _ format_below) as N. pose proof e54_pos as P.
  revert N. unfold Rabs.
  destruct (Rcase_abs (rnd64 x - x)) as [A|A]; destruct (Rcase_abs (r34 - 2 * e54 - x)) as [B|B]; lra.
Qed.
Lemma rnd_gt_r34 x : r34 + e54 < x -> r34 < rnd64 x.
Proof.
  intros H. pose proof (rnd_nearest x _ format_above) as N. pose proof e54_pos as P.
  revert N. unfold Rabs.
  destruct (Rcase_abs (rnd64 x - x)) as [A|A]; destruct (Rcase_abs (r34 + 2 * e54 - x)) as [B|B]; lra.
Qed.

(* ---- 0.75 as a double *)
Lemma three_quarters_B2R : B2R f64_three_quarters = r34 /\ is_finite f64_three_quarters = true.
Proof.
  pose proof (binary_normalize_correct 53 1024 prec_gt_0_53 prec_lt_emax_64 mode_NE 3 (-2) false) as H.
  cbn zeta in H. fold (f64_of_Z2 3 (-2)) in H. fold f64_three_quarters in H.
  assert (Ex : @F2R radix2 {| Fnum := 3; Fexp := -2 |} = r34).
  { unfold F2R, r34. cbn [Fnum Fexp]. change (bpow radix2 (-2)) with (/ 4). lra. }
  rewrite Ex in H.
  rewrite round_generic in H by (try exact format_r34; apply valid_rnd_N).
  rewrite Rlt_bool_true in H.
  2:{ apply Rlt_le_trans with (bpow radix2 0).
      - change (bpow radix2 0) with 1. unfold r34. rewrite Rabs_pos_eq; lra.
      - apply bpow_le. lia. }
  destruct H as [HR [HF _]]. split; assumption.
Qed.

(* ---- the quotient *)
Section Quot.
Variables u c : Z.
Hypothesis Hu : (0 <= u <= c)%Z.
Hypothesis Hc : (0 < c < 2 ^ 52)%Z.

Let x : R := IZR u / IZR c.

Lemma c_pos : 0 < IZR c.
Proof. apply IZR_lt. lia. Qed.

Lemma x_mul : x * IZR c = IZR u.
Proof. unfold x. field. pose proof c_pos. lra. Qed.

Lemma x_range : 0 <= x <= 1.
Proof.
  pose proof c_pos as C. pose proof x_mul as M.
  assert (U0 : 0 <= IZR u) by (apply IZR_le; lia).
  assert (U1 : IZR u <= IZR c) by (apply IZR_le; lia).
  split.
  - unfold x. apply Rmult_le_pos; [exact U0|]. apply Rlt_le, Rinv_0_lt_compat, C.
  - apply Rmult_le_reg_r with (IZR c); [exact C|]. rewrite M. lra.
Qed.

(* 4 c e54 < 1 *)
Lemma c_small : 4 * (IZR c * e54) < 1.
Proof.
  pose proof e54_val as E. pose proof e54_pos as P.
  assert (L : 4 * IZR c + 4 <= IZR (2 ^ 54)).
  { change 4 with (IZR 4). rewrite <- mult_IZR, <- plus_IZR. apply IZR_le.
    change (2 ^ 54)%Z with (4 * 2 ^ 52)%Z. lia. }
  assert (M : (4 * IZR c + 4) * e54 <= IZR (2 ^ 54) * e54).
  { apply Rmult_le_compat_r; lra. }
  lra.
Qed.

Lemma x_below : (4 * u < 3 * c)%Z -> x < r34 - e54.
Proof.
  intros L. pose proof c_pos as C. pose proof x_mul as M. pose proof c_small as S.
  assert (L' : 4 * IZR u + 1 <= 3 * IZR c).
  { change 4 with (IZR 4). change 3 with (IZR 3). change 1 with (IZR 1).
    rewrite <- !mult_IZR, <- plus_IZR. apply IZR_le. lia. }
  apply Rmult_lt_reg_r with (IZR c); [exact C|]. rewrite M.
  unfold r34. lra.
Qed.
Lemma x_above : (3 * c < 4 * u)%Z -> r34 + e54 < x.
Proof.
  intros L. pose proof c_pos as C. pose proof x_mul as M. pose proof c_small as S.
  assert (L' : 3 * IZR c + 1 <= 4 * IZR u).
  { change 4 with (IZR 4). change 3 with (IZR 3). change 1 with (IZR 1).
    rewrite <- !mult_IZR, <- plus_IZR. apply IZR_le. lia. }
  apply Rmult_lt_reg_r with (IZR c); [exact C|]. rewrite M.
  unfold r34. lra.
Qed.
Lemma x_ge : (3 * c <= 4 * u)%Z -> r34 <= x.
Proof.
  intros L. pose proof c_pos as C. pose proof x_mul as M.
  assert (L' : 3 * IZR c <= 4 * IZR u).
  { change 4 with (IZR 4). change 3 with (IZR 3). rewrite <- !mult_IZR. apply IZR_le. lia. }
  apply Rmult_le_reg_r with (IZR c); [exact C|]. rewrite M. unfold r34. lra.
Qed.
Lemma x_le : (4 * u <= 3 * c)%Z -> x <= r34.
Proof.
  intros L. pose proof c_pos as C. pose proof x_mul as M.
  assert (L' : 4 * IZR u <= 3 * IZR c).
  { change 4 with (IZR 4). change 3 with (IZR 3). rewrite <- !mult_IZR. apply IZR_le. lia. }
  apply Rmult_le_reg_r with (IZR c); [exact C|]. rewrite M. unfold r34. lra.
Qed.

(* the double computed by the code *)
Lemma quot_B2R :
  B2R (f64_div (f64_of_Z u) (f64_of_Z c)) = rnd64 x /\
  is_finite (f64_div (f64_of_Z u) (f64_of_Z c)) = true.
Proof.
  assert (P53 : (2 ^ 52 < 2 ^ 53)%Z) by (apply Z.pow_lt_mono_r; lia).
  assert (P1024 : (2 ^ 53 < 2 ^ 1024)%Z) by (apply Z.pow_lt_mono_r; lia).
  destruct (f64_of_Z_B2R u u 0) as [Ru Fu]; try lia.
  destruct (f64_of_Z_B2R c c 0) as [Rc Fc]; try lia.
  pose proof (Bdiv_correct 53 1024 prec_gt_0_53 prec_lt_emax_64 mode_NE (f64_of_Z u) (f64_of_Z c)) as H.
  rewrite Ru, Rc in H. fold x in H.
  assert (NZ : IZR c <> 0) by (pose proof c_pos; lra).
  specialize (H NZ).
  rewrite Rlt_bool_true in H.
  2:{ pose proof x_range as [X0 X1]. pose proof (rnd_ge_zero x X0). pose proof (rnd_le_one x X1).
      rewrite Rabs_pos_eq by assumption.
      apply Rle_lt_trans with 1; [assumption|].
      change 1 with (bpow radix2 0). apply bpow_lt. lia. }
  destruct H as [HR [HF _]]. unfold f64_div. split; [exact HR|]. rewrite HF. exact Fu.
Qed.

Lemma util_lt_Z :
  f64_ltb (f64_div (f64_of_Z u) (f64_of_Z c)) f64_three_quarters = (4 * u <? 3 * c)%Z.
Proof.
  destruct quot_B2R as [QR QF]. destruct three_quarters_B2R as [TR TF].
  unfold f64_ltb. rewrite Bltb_correct by assumption. rewrite QR, TR.
  destruct (Z.ltb_spec (4 * u) (3 * c)) as [L|L].
  - apply Rlt_bool_true. apply rnd_lt_r34, x_below, L.
  - apply Rlt_bool_false. apply rnd_ge_r34, x_ge, L.
Qed.
Lemma util_gt_Z :
  f64_ltb f64_three_quarters (f64_div (f64_of_Z u) (f64_of_Z c)) = (3 * c <? 4 * u)%Z.
Proof.
  destruct quot_B2R as [QR QF]. destruct three_quarters_B2R as [TR TF].
  unfold f64_ltb. rewrite Bltb_correct by assumption. rewrite QR, TR.
  destruct (Z.ltb_spec (3 * c) (4 * u)) as [L|L].
  - apply Rlt_bool_true. apply rnd_gt_r34, x_above, L.
  - apply Rlt_bool_false. apply rnd_le_r34, x_le, L.
Qed.
End Quot.

Open Scope N_scope.

(* the first test of run_gc: `utilisation < 0.75` (collection skipped) *)
Theorem util_test_rational : forall used cap, 0 < cap -> cap < 2 ^ 52 -> used <= cap ->
  F64.f64_ltb (utilisation used cap) f64_three_quarters = (used * 100 <? 75 * cap).
Proof.
  intros used cap C0 C1 U. unfold utilisation.
  rewrite (util_lt_Z (Z.of_N used) (Z.of_N cap)) by (change (2 ^ 52)%Z with (Z.of_N (2 ^ 52)); lia).
  destruct (Z.ltb_spec (4 * Z.of_N used) (3 * Z.of_N cap)) as [L|L];
    destruct (N.ltb_spec (used * 100) (75 * cap)) as [M|M]; try reflexivity; lia.
Qed.

(* the second test: `utilisation > 0.75` (grow after the collection) *)
Theorem util_test_rational_gt : forall used cap, 0 < cap -> cap < 2 ^ 52 -> used <= cap ->
  F64.f64_ltb f64_three_quarters (utilisation used cap) = (75 * cap <? used * 100).
Proof.
  intros used cap C0 C1 U. unfold utilisation.
  rewrite (util_gt_Z (Z.of_N used) (Z.of_N cap)) by (change (2 ^ 52)%Z with (Z.of_N (2 ^ 52)); lia).
  destruct (Z.ltb_spec (3 * Z.of_N cap) (4 * Z.of_N used)) as [L|L];
    destruct (N.ltb_spec (75 * cap) (used * 100)) as [M|M]; try reflexivity; lia.
Qed.
