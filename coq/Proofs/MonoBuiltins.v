(* MonoBuiltins.v — every builtin of the real table [other_builtin] (Model/Builtins.v:
   number.rs, string.rs, char.rs, symbol.rs, list.rs, vector.rs, predicate.rs) is [kmono]:
   they reach the stack only through push / pop, so the capacity never shrinks, and they
   never touch a continuation object.                                                    *)
From Coq Require Import Lia List String.
From MW Require Import Model.Base Model.F64 Model.Num Model.Datum Model.TransformDef Model.Transform
  Model.VmTypes Model.Heap Model.VmBase Model.Compile Model.Vm Model.Builtins
  Proofs.VmProofs0 Proofs.TailProofs Proofs.FlatListVec Proofs.MonoBase Proofs.MonoCompile Proofs.MonoStep.
From MW Require Model.ListVec Model.Str Model.SymbolB.
Open Scope N_scope.
Arguments N.add : simpl never.
Arguments N.sub : simpl never.
Arguments N.eqb : simpl never.
Arguments N.ltb : simpl never.
Arguments N.leb : simpl never.
Arguments N.mul : simpl never.

(* typed poppers of builtin/mod.rs *)
Lemma km_pop_number : km pop_number. Proof. mgo. Qed.
Lemma km_pop_char : km pop_char. Proof. mgo. Qed.
Lemma km_pop_string : km pop_string. Proof. mgo. Qed.
Lemma km_pop_symbol : km pop_symbol. Proof. mgo. Qed.
Lemma km_pop_vector : km pop_vector. Proof. mgo. Qed.
#[export] Hint Resolve km_pop_number km_pop_char km_pop_string km_pop_symbol km_pop_vector : mono.

(* ------------------------------------------------------------------ list.rs / vector.rs / predicate.rs *)
Section LV.
Variable F : nat.
Lemma km_fail_cell {A} v : km (@ListVec.fail_cell F A v). Proof. mgo. Qed.
Lemma km_lv_pop_index : km ListVec.pop_index. Proof. mgo. Qed.
Hint Resolve @km_fail_cell km_lv_pop_index : mono.
Lemma km_clone_loop f : forall l r h t n, km (ListVec.clone_loop F f l r h t n).
Proof. induction f; intros; cbn [ListVec.clone_loop]; mgo. Qed.
Hint Resolve km_clone_loop : mono.
Lemma km_clone_list l : km (ListVec.clone_list F l). Proof. mgo. Qed.
Hint Resolve km_clone_list : mono.
Lemma km_append_loop n : forall t, km (ListVec.append_loop F n t).
Proof. induction n; intros; cbn [ListVec.append_loop]; mgo. Qed.
Lemma km_reverse_loop f : forall l r t, km (ListVec.reverse_loop F f l r t).
Proof. induction f; intros; cbn [ListVec.reverse_loop]; mgo. Qed.
Lemma km_get_list_tail_loop f : forall l r i, km (ListVec.get_list_tail_loop F f l r i).
Proof. induction f; intros; cbn [ListVec.get_list_tail_loop]; mgo. Qed.
Lemma km_pop_n n : forall a, km (ListVec.pop_n n a).
Proof. induction n; intros; cbn [ListVec.pop_n]; mgo. Qed.
Lemma km_v2l_loop l : forall t, km (ListVec.v2l_loop l t).
Proof. induction l; intros; cbn [ListVec.v2l_loop]; mgo. Qed.
Lemma km_l2v_loop f : forall l a, km (ListVec.l2v_loop f l a).
Proof. induction f; intros; cbn [ListVec.l2v_loop]; mgo. Qed.
Lemma km_collect_range l n : forall i, km (ListVec.collect_range l i n).
Proof. induction n; intros; cbn [ListVec.collect_range]; mgo. Qed.
Lemma km_eqv a b : km (ListVec.eqv a b).
Proof. apply pure_mono; [exact _|apply pure_eqv]. Qed.
Lemma km_equal f a b : km (ListVec.equal f a b).
Proof. apply pure_mono; [exact _|apply pure_equal]. Qed.
Lemma km_is_list_loop f : forall r s a, km (ListVec.is_list_loop f r s a).
Proof. induction f; intros; cbn [ListVec.is_list_loop]; mgo. Qed.
Hint Resolve km_append_loop km_reverse_loop km_get_list_tail_loop km_pop_n km_v2l_loop km_l2v_loop
  km_collect_range km_eqv km_equal km_is_list_loop : mono.
Lemma km_type_pred p : km (ListVec.type_pred p). Proof. mgo. Qed.
Hint Resolve km_type_pred : mono.
End LV.

Theorem km_lv_builtin b : km (lv_builtin b).
Proof.
  pose proof km_fail_cell. pose proof km_lv_pop_index. pose proof km_clone_loop. pose proof km_clone_list.
  pose proof km_append_loop. pose proof km_reverse_loop. pose proof km_get_list_tail_loop.
  pose proof km_pop_n. pose proof km_v2l_loop. pose proof km_l2v_loop. pose proof km_collect_range.
  pose proof km_eqv. pose proof km_equal. pose proof km_is_list_loop. pose proof km_type_pred.
  unfold lv_builtin. mgo.
Qed.

(* ------------------------------------------------------------------ string.rs / char.rs *)
Lemma km_str_pop_integer : km Str.pop_integer. Proof. mgo. Qed.
#[export] Hint Resolve km_str_pop_integer : mono.
Lemma km_str_pop_usize : km Str.pop_usize. Proof. mgo. Qed.
Lemma km_str_pop_index : km Str.pop_index. Proof. mgo. Qed.
#[export] Hint Resolve km_str_pop_usize km_str_pop_index : mono.
Lemma km_opt_pop_index b : km (Str.opt_pop_index b). Proof. mgo. Qed.
Lemma km_string_append_loop n : forall o, km (Str.string_append_loop n o).
Proof. induction n; intros; cbn [Str.string_append_loop]; mgo. Qed.
Lemma km_chars_to_list r : forall l, km (Str.chars_to_list r l).
Proof. induction r; intros; cbn [Str.chars_to_list]; mgo. Qed.
Lemma km_vector_string_loop l : forall s, km (Str.vector_string_loop l s).
Proof. induction l; intros; cbn [Str.vector_string_loop]; mgo. Qed.
Lemma km_list_string_loop f : forall r s, km (Str.list_string_loop f r s).
Proof. induction f; intros; cbn [Str.list_string_loop]; mgo. Qed.
Lemma km_string_loop n : forall v, km (Str.string_loop n v).
Proof. induction n; intros; cbn [Str.string_loop]; mgo. Qed.
Lemma km_string_comp_loop c n : forall y r, km (Str.string_comp_loop c n y r).
Proof. induction n; intros; cbn [Str.string_comp_loop]; mgo. Qed.
Lemma km_char_comp_loop c n : forall y r, km (Str.char_comp_loop c n y r).
Proof. induction n; intros; cbn [Str.char_comp_loop]; mgo. Qed.
#[export] Hint Resolve km_char_comp_loop : mono.
#[export] Hint Resolve km_opt_pop_index km_string_append_loop km_chars_to_list km_vector_string_loop
  km_list_string_loop km_string_loop km_string_comp_loop : mono.

(* ------------------------------------------------------------------ number.rs, symbol.rs *)
Lemma km_pop_values k : forall a, km (pop_values k a).
Proof. induction k; intros; cbn [pop_values]; mgo. Qed.
Lemma km_pop_cells k : forall a, km (pop_cells k a).
Proof. induction k; intros; cbn [pop_cells]; mgo. Qed.
Lemma km_symbol_eq_loop k : forall y r, km (symbol_eq_loop k y r).
Proof. induction k; intros; cbn [symbol_eq_loop]; mgo. Qed.
#[export] Hint Resolve km_pop_values km_pop_cells km_symbol_eq_loop : mono.
(* any value-level numeric function: it never sees the machine *)
Lemma km_num_builtin f : km (num_builtin f). Proof. mgo. Qed.
Lemma km_cell_builtin f : km (cell_builtin f).
Proof. pose proof (mono_maybe_put_cell_m kmono). mgo. Qed.
#[export] Hint Resolve km_num_builtin km_cell_builtin km_lv_builtin : mono.

Theorem km_pkg_builtin b : km (pkg_builtin b).
Proof. unfold pkg_builtin. mgo. Qed.

(* the real table *)
Theorem km_other_builtin : forall b, km (other_builtin b).
Proof. exact km_pkg_builtin. Qed.
