(* BuiltinCoverage.v — a proof obligation over the GENERATED builtin table
   (Gen/Builtins.v, regenerated from /repo/marwood/src/vm/builtin/*.rs on every run):
   every registered builtin is dispatched to a model, or is one of the explicitly
   listed unmodelled ones.  A builtin added to the Rust code lands in the table and,
   having no model, breaks this obligation.                                        *)
From Coq Require Import String NArith List Bool Lia.
From MW Require Import Model.Base Model.Datum Model.VmTypes Model.VmBase Model.Vm Model.Builtins.
From MW Require Gen.Builtins.
Import ListNotations.
Open Scope N_scope.

(* site 99 is the fall-through of the dispatch: "no model for this builtin" *)
Definition unmodelled (b : N) : bool :=
  match run_builtin pkg_builtin b (vm_empty 16) with RPanic 99 => true | _ => false end.

(* the builtins observed on the implementation only (lib/props/c06.py reads this list) *)
Definition unmodelled_names : list string :=
  [ "acos"; "asin"; "atan"; "cos"; "exp"; "log"; "sin"; "sqrt"; "tan"; "term-rows"; "term-cols"; "time-utc"; "random-integer"; "random-real"; "random-signed" ]%string.

Definition ids : list N := map N.of_nat (seq 0 (length Gen.Builtins.builtin_table)).

Definition coverage_ok : bool :=
  forallb (fun b => implb (unmodelled b) (existsb (text_is (builtin_name b)) unmodelled_names)) ids
  && forallb (fun s => existsb (fun b => text_is (builtin_name b) s && unmodelled b) ids) unmodelled_names.


Lemma coverage_computed : coverage_ok = true.
Proof. vm_compute. reflexivity. Qed.

Lemma in_ids b : b < N.of_nat (length Gen.Builtins.builtin_table) -> In b ids.
Proof.
  intros H. unfold ids. apply in_map_iff. exists (N.to_nat b). split; [apply N2Nat.id|].
  apply in_seq. lia.
Qed.

(* every registered builtin without a model is named in the list ... *)
Theorem builtin_coverage : forall b, b < N.of_nat (length Gen.Builtins.builtin_table) ->
  run_builtin pkg_builtin b (vm_empty 16) = RPanic 99 ->
  exists s, In s unmodelled_names /\ text_is (builtin_name b) s = true.
Proof.
  intros b Hb Hp. pose proof coverage_computed as C. unfold coverage_ok in C.
  apply andb_prop in C as [C _]. rewrite forallb_forall in C. specialize (C b (in_ids b Hb)).
  unfold unmodelled in C. rewrite Hp in C. cbn [implb] in C.
  apply existsb_exists in C. exact C.
Qed.

(* ... and the list names nothing that has a model (it cannot go stale) *)
Theorem unmodelled_list_exact : forall s, In s unmodelled_names ->
  exists b, In b ids /\ text_is (builtin_name b) s = true /\ unmodelled b = true.
Proof.
  intros s Hs. pose proof coverage_computed as C. unfold coverage_ok in C.
  apply andb_prop in C as [_ C]. rewrite forallb_forall in C. specialize (C s Hs).
  apply existsb_exists in C as [b [Hb Hc]]. apply andb_prop in Hc as [H1 H2]. eauto.
Qed.
