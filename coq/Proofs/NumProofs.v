(* NumProofs.v — number.rs (Model/NumArith.v) against exact rational arithmetic. *)
From Coq Require Import ZArith Lia Bool QArith List.
From MW Require Import Model.Base Model.F64 Model.Num Model.Ratio32 Model.NumArith Model.NumSpec
  Proofs.GcdProofs Proofs.Ratio32Proofs.
Import ListNotations.
Open Scope Z_scope.

Lemma in_int32 z : in_int 32 z = in_i32 z.
Proof. reflexivity. Qed.
Lemma in_int64 z : in_int 64 z = in_i64 z.
Proof. reflexivity. Qed.

Lemma rwfb_rwf n d : rwfb n d = true <-> rwf 32 (n, d).
Proof.
  unfold rwfb, rwf, rok. cbn [fst snd]. rewrite !andb_true_iff, Z.ltb_lt, Z.eqb_eq.
  change (in_int 32 n) with (in_i32 n). change (in_int 32 d) with (in_i32 d). tauto.
Qed.

Lemma rok_int l : in_i32 l = true -> rok 32 (rfrom_integer l).
Proof.
  intros H. unfold rok, rfrom_integer. cbn [fst snd]. change (in_int 32 l) with (in_i32 l).
  repeat split; auto; lia.
Qed.

Lemma rwf_rok w r : rwf w r -> rok w r.
Proof. intros [H _]. exact H. Qed.

Lemma rq_int l : rq (rfrom_integer l) = inject_Z l.
Proof. reflexivity. Qed.

Lemma qv_r32 q : qv (r32 q) = rq q.
Proof. destruct q. reflexivity. Qed.

Lemma wfb_r32 q : rwf 32 q -> wfb (r32 q) = true.
Proof. destruct q as [n d]. intros H. cbn. now apply rwfb_rwf. Qed.

(* the result of a checked Rational32 operation or the float fallback *)
Lemma or_float_exact (o : out (option ratio)) fb r (v : Q) :
  (o = Ok None \/ exists q, o = Ok (Some q) /\ rwf 32 q /\ (rq q == v)%Q) ->
  or_float o fb = Ok r -> is_exact r = true -> wfb r = true /\ (qv r == v)%Q.
Proof.
  intros [H|[q [H [W E]]]] Hr Hx; rewrite H in Hr; cbn in Hr; inversion Hr; subst r.
  - discriminate.
  - split; [now apply wfb_r32|]. now rewrite qv_r32.
Qed.

Lemma or_float_total (o : out (option ratio)) fb (v : Q) :
  (o = Ok None \/ exists q, o = Ok (Some q) /\ rwf 32 q /\ (rq q == v)%Q) ->
  exists r, or_float o fb = Ok r.
Proof. intros [H|[q [H _]]]; rewrite H; cbn; eauto. Qed.

Lemma ris_integer_inv n d : ris_integer (n, d) = true -> d = 1.
Proof. unfold ris_integer. cbn. apply Z.eqb_eq. Qed.

Lemma rto_integer_1 n : rto_integer W32 (n, 1) = Ok n.
Proof.
  unfold rto_integer, idiv. cbn [fst snd]. cbn [Z.eqb]. rewrite andb_false_r. now rewrite Z.quot_1_r.
Qed.

Ltac inv_ok H := inversion H; subst; clear H.

Lemma inj_plus x y : (inject_Z (x + y) == inject_Z x + inject_Z y)%Q.
Proof. rewrite inject_Z_plus. apply Qeq_refl. Qed.
Lemma inj_plus' x y : (inject_Z (y + x) == inject_Z x + inject_Z y)%Q.
Proof. rewrite Z.add_comm. apply inj_plus. Qed.

(* ----------------------------------------------------------------- Add *)
Theorem add_exact p a b r :
  wfb a = true -> wfb b = true -> is_exact a = true -> is_exact b = true ->
  num_add p a b = Ok r -> is_exact r = true ->
  wfb r = true /\ (qv r == qv a + qv b)%Q.
Proof.
  intros Wa Wb Xa Xb Hr Xr.
  destruct a as [l|l|ln ld|fl]; destruct b as [r0|r0|rn rd|fr]; try discriminate; cbn [num_add] in Hr.
  - (* fix fix *)
    unfold ichecked_add, ichecked, W64 in Hr. change (in_int 64 (l + r0)) with (in_i64 (l + r0)) in Hr.
    destruct (in_i64 (l + r0)) eqn:E; inv_ok Hr; cbn [wfb qv]; rewrite ?E; split; auto; apply inj_plus.
  - inv_ok Hr. cbn [wfb qv]. split; auto. apply inj_plus'.
  - cbn [wfb] in *. apply rwfb_rwf in Wb.
    destruct (in_i32 l) eqn:E; [|inv_ok Hr; discriminate].
    eapply or_float_exact in Hr; [exact Hr| |exact Xr].
    exact (rchecked_addsub_spec false p 32 (rfrom_integer l) (rn, rd) ltac:(lia) (rok_int l E) (rwf_rok _ _ Wb)).
  - inv_ok Hr. cbn [wfb qv]. split; auto. apply inj_plus.
  - inv_ok Hr. cbn [wfb qv]. split; auto. apply inj_plus.
  - destruct (ris_integer (rn, rd)) eqn:I; [|inv_ok Hr; discriminate].
    apply ris_integer_inv in I. subst rd. rewrite rto_integer_1 in Hr. cbn [bind] in Hr. inv_ok Hr.
    cbn [wfb qv]. split; auto. apply inj_plus.
  - cbn [wfb] in *. apply rwfb_rwf in Wa.
    destruct (in_i32 r0) eqn:E; [|inv_ok Hr; discriminate].
    eapply or_float_exact in Hr; [| |exact Xr].
    + destruct Hr as [W V]. split; [exact W|]. rewrite V. apply Qplus_comm.
    + exact (rchecked_addsub_spec false p 32 (rfrom_integer r0) (ln, ld) ltac:(lia) (rok_int r0 E) (rwf_rok _ _ Wa)).
  - destruct (ris_integer (ln, ld)) eqn:I; [|inv_ok Hr; discriminate].
    apply ris_integer_inv in I. subst ld. rewrite rto_integer_1 in Hr. cbn [bind] in Hr. inv_ok Hr.
    cbn [wfb qv]. split; auto. apply inj_plus'.
  - cbn [wfb] in *. apply rwfb_rwf in Wa. apply rwfb_rwf in Wb.
    eapply or_float_exact in Hr; [exact Hr| |exact Xr].
    exact (rchecked_addsub_spec false p 32 (ln, ld) (rn, rd) ltac:(lia) (rwf_rok _ _ Wa) (rwf_rok _ _ Wb)).
Qed.

Lemma inj_minus x y : (inject_Z (x - y) == inject_Z x - inject_Z y)%Q.
Proof.
  unfold Qminus. replace (x - y) with (x + - y) by ring.
  rewrite inject_Z_plus, inject_Z_opp. apply Qeq_refl.
Qed.
Lemma inj_mult x y : (inject_Z (x * y) == inject_Z x * inject_Z y)%Q.
Proof. rewrite inject_Z_mult. apply Qeq_refl. Qed.
Lemma inj_mult' x y : (inject_Z (y * x) == inject_Z x * inject_Z y)%Q.
Proof. rewrite Z.mul_comm. apply inj_mult. Qed.

(* ----------------------------------------------------------------- Sub *)
Theorem sub_exact p a b r :
  wfb a = true -> wfb b = true -> is_exact a = true -> is_exact b = true ->
  num_sub p a b = Ok r -> is_exact r = true ->
  wfb r = true /\ (qv r == qv a - qv b)%Q.
Proof.
  intros Wa Wb Xa Xb Hr Xr.
  destruct a as [l|l|ln ld|fl]; destruct b as [r0|r0|rn rd|fr]; try discriminate; cbn [num_sub] in Hr.
  - unfold ichecked_sub, ichecked, W64 in Hr. change (in_int 64 (l - r0)) with (in_i64 (l - r0)) in Hr.
    destruct (in_i64 (l - r0)) eqn:E; inv_ok Hr; cbn [wfb qv]; rewrite ?E; split; auto; apply inj_minus.
  - inv_ok Hr. cbn [wfb qv]. split; auto. apply inj_minus.
  - cbn [wfb] in *. apply rwfb_rwf in Wb.
    destruct (in_i32 l) eqn:E; [|inv_ok Hr; discriminate].
    eapply or_float_exact in Hr; [exact Hr| |exact Xr].
    exact (rchecked_addsub_spec true p 32 (rfrom_integer l) (rn, rd) ltac:(lia) (rok_int l E) (rwf_rok _ _ Wb)).
  - inv_ok Hr. cbn [wfb qv]. split; auto. apply inj_minus.
  - inv_ok Hr. cbn [wfb qv]. split; auto. apply inj_minus.
  - destruct (ris_integer (rn, rd)) eqn:I; [|inv_ok Hr; discriminate].
    apply ris_integer_inv in I. subst rd. rewrite rto_integer_1 in Hr. cbn [bind] in Hr. inv_ok Hr.
    cbn [wfb qv]. split; auto. apply inj_minus.
  - cbn [wfb] in *. apply rwfb_rwf in Wa.
    destruct (in_i32 r0) eqn:E; [|inv_ok Hr; discriminate].
    eapply or_float_exact in Hr; [exact Hr| |exact Xr].
    exact (rchecked_addsub_spec true p 32 (ln, ld) (rfrom_integer r0) ltac:(lia) (rwf_rok _ _ Wa) (rok_int r0 E)).
  - destruct (ris_integer (ln, ld)) eqn:I; [|inv_ok Hr; discriminate].
    apply ris_integer_inv in I. subst ld. rewrite rto_integer_1 in Hr. cbn [bind] in Hr. inv_ok Hr.
    cbn [wfb qv]. split; auto. apply inj_minus.
  - cbn [wfb] in *. apply rwfb_rwf in Wa. apply rwfb_rwf in Wb.
    eapply or_float_exact in Hr; [exact Hr| |exact Xr].
    exact (rchecked_addsub_spec true p 32 (ln, ld) (rn, rd) ltac:(lia) (rwf_rok _ _ Wa) (rwf_rok _ _ Wb)).
Qed.

(* ----------------------------------------------------------------- Mul *)
Theorem mul_exact p a b r :
  wfb a = true -> wfb b = true -> is_exact a = true -> is_exact b = true ->
  num_mul p a b = Ok r -> is_exact r = true ->
  wfb r = true /\ (qv r == qv a * qv b)%Q.
Proof.
  intros Wa Wb Xa Xb Hr Xr.
  destruct a as [l|l|ln ld|fl]; destruct b as [r0|r0|rn rd|fr]; try discriminate; cbn [num_mul] in Hr.
  - unfold ichecked_mul, ichecked, W64 in Hr. change (in_int 64 (l * r0)) with (in_i64 (l * r0)) in Hr.
    destruct (in_i64 (l * r0)) eqn:E; inv_ok Hr; cbn [wfb qv]; rewrite ?E; split; auto; apply inj_mult.
  - inv_ok Hr. cbn [wfb qv]. split; auto. apply inj_mult'.
  - cbn [wfb] in *. apply rwfb_rwf in Wb.
    destruct (in_i32 l) eqn:E; [|inv_ok Hr; discriminate].
    eapply or_float_exact in Hr; [exact Hr| |exact Xr].
    exact (rchecked_mul_spec p 32 (rfrom_integer l) (rn, rd) ltac:(lia) (rok_int l E) (rwf_rok _ _ Wb)).
  - inv_ok Hr. cbn [wfb qv]. split; auto. apply inj_mult.
  - inv_ok Hr. cbn [wfb qv]. split; auto. apply inj_mult.
  - destruct (ris_integer (rn, rd)) eqn:I; [|inv_ok Hr; discriminate].
    apply ris_integer_inv in I. subst rd. rewrite rto_integer_1 in Hr. cbn [bind] in Hr. inv_ok Hr.
    cbn [wfb qv]. split; auto. apply inj_mult.
  - cbn [wfb] in *. apply rwfb_rwf in Wa.
    destruct (in_i32 r0) eqn:E; [|inv_ok Hr; discriminate].
    eapply or_float_exact in Hr; [| |exact Xr].
    + destruct Hr as [W V]. split; [exact W|]. rewrite V. apply Qmult_comm.
    + exact (rchecked_mul_spec p 32 (rfrom_integer r0) (ln, ld) ltac:(lia) (rok_int r0 E) (rwf_rok _ _ Wa)).
  - destruct (ris_integer (ln, ld)) eqn:I; [|inv_ok Hr; discriminate].
    apply ris_integer_inv in I. subst ld. rewrite rto_integer_1 in Hr. cbn [bind] in Hr. inv_ok Hr.
    cbn [wfb qv]. split; auto. apply inj_mult'.
  - cbn [wfb] in *. apply rwfb_rwf in Wa. apply rwfb_rwf in Wb.
    eapply or_float_exact in Hr; [exact Hr| |exact Xr].
    exact (rchecked_mul_spec p 32 (ln, ld) (rn, rd) ltac:(lia) (rwf_rok _ _ Wa) (rwf_rok _ _ Wb)).
Qed.

(* + - * never panic (nor run out of fuel, nor err) on well-formed exact operands, in
   either build profile *)
Theorem addsubmul_total p a b :
  wfb a = true -> wfb b = true -> is_exact a = true -> is_exact b = true ->
  (exists r, num_add p a b = Ok r) /\ (exists r, num_sub p a b = Ok r) /\ (exists r, num_mul p a b = Ok r).
Proof.
  intros Wa Wb Xa Xb.
  destruct a as [l|l|ln ld|fl]; destruct b as [r0|r0|rn rd|fr]; try discriminate;
    cbn [num_add num_sub num_mul wfb] in *;
    try (apply rwfb_rwf in Wa); try (apply rwfb_rwf in Wb);
    repeat split;
    try (eexists; reflexivity);
    try (destruct (in_i32 l) eqn:E; [|eexists; reflexivity]);
    try (destruct (in_i32 r0) eqn:E; [|eexists; reflexivity]);
    try (destruct (ris_integer (rn, rd)) eqn:I; [apply ris_integer_inv in I; subst rd; rewrite rto_integer_1; eexists; reflexivity|eexists; reflexivity]);
    try (destruct (ris_integer (ln, ld)) eqn:I; [apply ris_integer_inv in I; subst ld; rewrite rto_integer_1; eexists; reflexivity|eexists; reflexivity]).
  all: try (eapply or_float_total; apply rchecked_addsub_spec; try lia; auto using rok_int, rwf_rok).
  all: try (eapply or_float_total; apply rchecked_mul_spec; try lia; auto using rok_int, rwf_rok).
Qed.

(* ------------------------------------------------ quotient / remainder on integers *)
Definition both_rational (a b : num) : bool :=
  match a, b with Rational _ _, Rational _ _ => true | _, _ => false end.

Lemma int_of_rational n d z : int_of (Rational n d) = Some z -> d = 1 /\ z = n.
Proof. cbn. destruct (Z.eqb_spec d 1); intros H; inversion H; auto. Qed.

Lemma ris_integer_1 n : ris_integer (n, 1) = true.
Proof. reflexivity. Qed.

Lemma i32_not_i64min n d : rwfb n d = true -> n <> imin W64.
Proof.
  intros H. apply rwfb_rwf in H. destruct (rwf_rok _ _ H) as [Hn _]. cbn [fst] in Hn.
  apply in_int_iff in Hn. unfold imin, imax, W64 in *. change (32 - 1) with 31 in Hn. change (64 - 1) with 63.
  assert (2 ^ 31 < 2 ^ 63) by (apply Z.pow_lt_mono_r; lia). lia.
Qed.

Theorem quotient_exact p a b za zb :
  wfb a = true -> wfb b = true ->
  int_of a = Some za -> int_of b = Some zb -> zb <> 0 -> both_rational a b = false ->
  exists r, num_quotient p a b = Ok (Some r) /\ int_of r = Some (Z.quot za zb).
Proof.
  intros Wa Wb Ia Ib Nz Nr.
  destruct a as [l|l|ln ld|fl]; destruct b as [r0|r0|rn rd|fr]; try discriminate;
    try (apply int_of_rational in Ia; destruct Ia; subst);
    try (apply int_of_rational in Ib; destruct Ib; subst);
    cbn [int_of] in *; try (inversion Ia; subst); try (inversion Ib; subst);
    cbn [num_quotient]; rewrite ?ris_integer_1, ?rto_integer_1; cbn [bind];
    unfold fix_quot, some_big, some_fix, big_div;
    repeat match goal with |- context [Z.eqb ?x 0] => destruct (Z.eqb_spec x 0); try contradiction end;
    cbn [orb bind].
  all: try (eexists; split; [reflexivity|reflexivity]).
  all: try (match goal with |- context [andb ?c ?d] => destruct (andb c d) end; cbn [bind]; eexists; split; reflexivity).
  (* Rational n/1 by a Fixnum: the dividend is an i32 *)
  cbn [wfb] in Wa. rewrite idiv_ok by (try lia; left; eapply i32_not_i64min; eassumption).
  cbn [bind]. eexists; split; reflexivity.
Qed.

Theorem remainder_exact p a b za zb :
  wfb a = true -> wfb b = true ->
  int_of a = Some za -> int_of b = Some zb -> zb <> 0 ->
  (forall n d, b <> Rational n d) ->
  exists r, num_rem p a b = Ok (Some r) /\ int_of r = Some (Z.rem za zb).
Proof.
  intros Wa Wb Ia Ib Nz NR.
  destruct a as [l|l|ln ld|fl]; destruct b as [r0|r0|rn rd|fr]; try discriminate;
    try (exfalso; eapply NR; reflexivity);
    try (apply int_of_rational in Ia; destruct Ia; subst);
    cbn [int_of] in *; try (inversion Ia; subst); try (inversion Ib; subst);
    cbn [num_rem]; rewrite ?rto_integer_1; cbn [bind];
    unfold fix_wrapping_rem, some_big, some_fix, big_rem;
    repeat match goal with |- context [Z.eqb ?x 0] => destruct (Z.eqb_spec x 0); try contradiction end;
    cbn [orb bind].
  all: try (eexists; split; [reflexivity|reflexivity]).
  cbn [wfb] in Wa. rewrite irem_ok by (try lia; left; eapply i32_not_i64min; eassumption).
  cbn [bind]. eexists; split; reflexivity.
Qed.
