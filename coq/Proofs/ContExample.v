(* ContExample.v — C05: a concrete run for the non-vacuity examples of Props/C05.v.
   Machine: Vm::new without the prelude (boot_with []: load_builtins on vm_empty 8192).
     form 0   (define kk #f)
     form 1   (if (call/cc (lambda (k) (set! kk k) 'a)) 1 2)      the receiver returns normally
     form 2   (kk 'a)                                             a LATER evaluation re-enters
   [cx_m]: form 1 at its CALL of call/cc; [cx_mr]: the receiver at its RET; [cx_s']: form 2 at
   its TCALL of kk.  heap_inv of these states comes from the invariant [finv] of C02
   (Proofs/FlatAll.v), by preservation — nothing here evaluates the prelude.              *)
From Coq Require Import String Lia FMapPositive.
From MW Require Import Model.Base Model.F64 Model.Num Model.Datum Model.Lex Model.Parse Model.TransformDef
  Model.Transform Model.VmTypes Model.Heap Model.Gc Model.VmBase Model.Compile Model.Vm Model.Builtins
  Proofs.VmProofs0 Proofs.SymtabProofs Proofs.QuoteHeapProofs Proofs.RunProofs Proofs.CompileCorrect
  Proofs.EnvProofs Proofs.FlatProofs Proofs.FlatAll Proofs.ContProofs.
Open Scope N_scope.

Definition cx_L : vm := match boot_with [] with Some s => s | None => vm_empty 8192 end.
Definition cx_dat (t : String.string) : cell := match parse_text (S_ t) with Ok (d, _) => d | _ => CNil end.
Definition cx_ev (t : String.string) (s : vm) : vm :=
  match eval other_builtin 1000 (cx_dat t) s with ROk _ s' => s' | _ => s end.
Definition cx_prep (t : String.string) (s : vm) : vm :=
  match prepare_eval (cx_dat t) s with ROk _ s' => s' | _ => s end.
Definition cx_run (n : nat) (s : vm) : vm := match steps other_builtin n s with Some s' => s' | None => s end.

Lemma cx_L_finv : finv cx_L.
Proof.
  unfold cx_L. destruct (boot_with []) as [s|] eqn:E.
  - exact (boot_with_finv [] s E).
  - apply finv_empty. reflexivity.
Qed.
Lemma cx_ev_finv t s : finv s -> finv (cx_ev t s).
Proof.
  intros F. unfold cx_ev. destruct (eval other_builtin 1000 (cx_dat t) s) as [r s'| | |] eqn:E; try exact F.
  exact (eval_finv_all _ _ _ _ _ F E).
Qed.
Lemma cx_prep_finv t s : finv s -> finv (cx_prep t s).
Proof.
  intros F. unfold cx_prep. destruct (prepare_eval (cx_dat t) s) as [u s'| | |] eqn:E; try exact F.
  exact (prepare_eval_state _ _ _ _ F E).
Qed.
Lemma steps_finv n : forall s s', finv s -> steps other_builtin n s = Some s' -> finv s'.
Proof.
  induction n as [|n IH]; intros s s' F H; cbn [steps] in H.
  - injection H as <-. exact F.
  - destruct (run_one other_builtin s) as [[|] s1| | |] eqn:E; try discriminate.
    eapply IH; [|exact H]. exact (step_finv _ _ _ F E).
Qed.
Lemma cx_run_finv n s : finv s -> finv (cx_run n s).
Proof.
  intros F. unfold cx_run. destruct (steps other_builtin n s) as [s'|] eqn:E; [|exact F].
  exact (steps_finv _ _ _ F E).
Qed.
Lemma finv_heap_inv s : finv s -> heap_inv (hp s).
Proof. intros F. exact (li_heap s (fi_lex s F)). Qed.

Definition cx_F0 : String.string := "(define kk #f)".
Definition cx_F1 : String.string := "(if (call/cc (lambda (k) (set! kk k) (quote a))) 1 2)".
Definition cx_F2 : String.string := "(kk (quote a))".
Definition cx_s0 : vm := cx_ev cx_F0 cx_L.
Definition cx_p1 : vm := cx_prep cx_F1 cx_s0.
Definition cx_m : vm := cx_run 9 cx_p1.          (* at the CALL of call/cc *)
Definition cx_mr : vm := cx_run 16 cx_p1.        (* the receiver at its RET, %acc = a *)
Definition cx_s1 : vm := cx_ev cx_F1 cx_s0.      (* form 1 completed *)
Definition cx_p2 : vm := cx_prep cx_F2 cx_s1.
Definition cx_s' : vm := cx_run 8 cx_p2.         (* form 2 at the TCALL of kk *)

Definition cx_bc (s : vm) (lp : N) : list vcell :=
  match heap_get (hp s) lp with
  | Ok (VLambda lid) => match tget (lams (st s)) lid with Some l => l_bc l | None => [] end
  | _ => []
  end.

Lemma cx_m_heap_inv : heap_inv (hp cx_m).
Proof. apply finv_heap_inv, cx_run_finv, cx_prep_finv, cx_ev_finv, cx_L_finv. Qed.

Ltac code_in_tac lid :=
  exists lid; eexists; split; [split; [vm_compute; reflexivity|vm_compute; discriminate]|];
  split; [vm_compute; reflexivity|]; split; [vm_compute; reflexivity|]; split; vm_compute; reflexivity.
Ltac seg_tac n bc :=
  exists (firstn n bc), (skipn (S n) bc); split; vm_compute; reflexivity.

(* the call/cc site: lambda at heap address 290, instruction 11 *)
Lemma cx_at_callcc :
  at_callcc other_builtin cx_m 290 11 (cx_bc cx_m 290) false 293 (VClosure 289 292).
Proof.
  constructor.
  - code_in_tac 3.
  - vm_compute. reflexivity.
  - seg_tac 11%nat (cx_bc cx_m 290).
  - exists 97. split; vm_compute; reflexivity.
  - vm_compute. reflexivity.
  - vm_compute. discriminate.
  - vm_compute. reflexivity.
  - vm_compute. reflexivity.
  - vm_compute. reflexivity.
  - reflexivity.
Qed.
Lemma cx_fp_allocated : allocated (hp cx_m) 293.
Proof. split; [vm_compute; reflexivity|vm_compute; discriminate]. Qed.

(* the receiver at its RET (lambda at 289, instruction 13), about to return the symbol a *)
Lemma cx_in_cc_frame : in_cc_frame cx_m 290 11 cx_mr.
Proof.
  constructor; try (vm_compute; reflexivity).
  intros j Hj. replace (sp cx_m - 2) with 4 in Hj by (vm_compute; reflexivity).
  assert (C : j = 0 \/ j = 1 \/ j = 2 \/ j = 3 \/ j = 4) by lia.
  destruct C as [->|[->|[->|[->| ->]]]]; vm_compute; reflexivity.
Qed.
Lemma cx_mr_at_ret : code_in cx_mr 289 (cx_bc cx_mr 289) /\ ip cx_mr = (289, 13) /\
  seg (cx_bc cx_mr 289) 13 [VOp ORet] /\ acc cx_mr = VPtr 288 /\
  heap_get (hp cx_mr) 288 = Ok (VSym (S_ "a")).
Proof.
  split; [code_in_tac 2|]. split; [vm_compute; reflexivity|].
  split; [seg_tac 13%nat (cx_bc cx_mr 289)|]. split; vm_compute; reflexivity.
Qed.

(* form 2, a later top-level evaluation, about to apply kk to the symbol a *)
Lemma cx_klive : klive (next_id (st cx_m)) (k_cap cx_m 290 11) cx_s'.
Proof. split; [vm_compute; reflexivity|vm_compute; discriminate]. Qed.
Lemma cx_at_invoke : at_invoke cx_s' (next_id (st cx_m)) true.
Proof.
  constructor.
  - exists 296, 10, (cx_bc cx_s' 296). split; [code_in_tac 8|]. split; [vm_compute; reflexivity|].
    seg_tac 10%nat (cx_bc cx_s' 296).
  - vm_compute. reflexivity.
  - exists 1. split; [vm_compute; reflexivity|discriminate].
  - vm_compute. discriminate.
  - vm_compute. reflexivity.
Qed.
Lemma cx_arg : sget cx_s' (sp cx_s' - 1) = VPtr 288.
Proof. vm_compute. reflexivity. Qed.
(* the invoking state is not the capture-time state: another evaluation, more heap cells,
   more Rc objects, the global kk re-bound to the continuation *)
Lemma cx_later : hlen (hp cx_m) <= hlen (hp cx_s') /\ next_id (st cx_m) + 2 < next_id (st cx_s') /\
  g_slots cx_s' <> g_slots cx_m /\ fst (ip cx_s') <> fst (ip cx_m).
Proof. split; [vm_compute; discriminate|]. split; [vm_compute; reflexivity|]. split; vm_compute; discriminate. Qed.
