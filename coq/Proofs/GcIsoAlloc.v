(* GcIsoAlloc.v — C03, part 6: allocation commutes with a renaming of heap addresses.
   Frame lemmas for Heap::alloc / put, the extension of a world by a pair of fresh
   addresses, and the simulation lemmas for hput / hmaybe_put / env_new / vec_new. *)
From Coq Require Import Lia List Classical_Prop.
From MW Require Import Model.Base Model.Num Model.VmTypes Model.Heap Model.Gc Model.VmBase Model.Vm
  Proofs.GcProofs Proofs.SymtabProofs Proofs.GcIso Proofs.GcIsoPrim.
Open Scope N_scope.
Arguments N.add : simpl never.
Arguments N.sub : simpl never.
Arguments N.eqb : simpl never.
Arguments N.ltb : simpl never.
Arguments N.leb : simpl never.
Arguments N.mul : simpl never.

(* ------------------------------------------------------------------ frame lemmas *)
(* [frame h h' p v]: h' is h with the cell p (not allocated in h) now allocated and holding v;
   every cell allocated in h is untouched *)
Record frame (h h' : heap) (p : N) (v : vcell) : Prop := {
  fr_new : ~ allocated h p;
  fr_al : allocated h' p;
  fr_cell : cell_at h' p = v;
  fr_len : hlen h <= hlen h';
  fr_old : forall a, allocated h a -> allocated h' a /\ cell_at h' a = cell_at h a
}.

Lemma grow_frame h a : heap_inv h ->
  hlen h <= hlen (heap_grow h) /\ g_get (gcmap (heap_grow h)) a = g_get (gcmap h) a
  /\ cell_at (heap_grow h) a = cell_at h a.
Proof.
  intros HI. pose proof (hi_chunk h HI) as [C0 C1]. pose proof (grow_size h C0 C1) as G.
  unfold heap_grow. cbn [hlen gcmap]. split; [lia|]. split; reflexivity.
Qed.

Lemma alloc_frame h p h' : heap_inv h -> heap_alloc h = (p, h') ->
  ~ allocated h p /\ allocated h' p /\ hlen h <= hlen h' /\
  (forall a, a <> p -> g_get (gcmap h') a = g_get (gcmap h) a) /\
  (forall a, cell_at h' a = cell_at h a).
Proof.
  intros HI H. destruct (heap_inv_alloc h p h' HI H) as (HI' & L & U & A & ST & G).
  set (h1 := match free_list h with [] => heap_grow h | _ :: _ => h end) in *.
  assert (F1 : forall a, g_get (gcmap h1) a = g_get (gcmap h) a /\ cell_at h1 a = cell_at h a).
  { intros a. unfold h1. destruct (free_list h); [|split; reflexivity].
    destruct (grow_frame h a HI) as (_ & X & Y). split; assumption. }
  assert (L1 : hlen h <= hlen h1).
  { unfold h1. destruct (free_list h); [|lia]. apply (grow_frame h 0 HI). }
  assert (HI1 : heap_inv h1) by (unfold h1; destruct (free_list h); [now apply heap_inv_grow|assumption]).
  unfold heap_alloc in H. fold h1 in H.
  destruct (free_list h1) as [|q fl] eqn:E1.
  - exfalso. revert E1. unfold h1. destruct (free_list h) eqn:E; [apply grow_free_nonempty, HI|rewrite E; discriminate].
  - injection H as <- <-. destruct (heap_inv_pop h1 q fl HI1 E1) as (_ & Lq & Uq & Fq).
    unfold allocated. cbn [hlen gcmap]. split.
    + intros [_ N0]. apply N0. rewrite <- (proj1 (F1 q)). exact Fq.
    + split; [split; [exact Lq|rewrite g_get_tset_same; discriminate]|]. split; [exact L1|]. split.
      * intros a Hne. rewrite g_get_tset_other by congruence. apply F1.
      * intros a. apply (proj2 (F1 a)).
Qed.

Lemma store_new_frame h v p h' : heap_inv h -> heap_store_new h v = (p, h') -> frame h h' p v.
Proof.
  intros HI H. unfold heap_store_new in H. destruct (heap_alloc h) as [q h1] eqn:Ea. injection H as <- <-.
  destruct (alloc_frame h q h1 HI Ea) as (N0 & A & L & G & C).
  unfold allocated in *. constructor; unfold allocated; cbn [hlen gcmap]; try assumption.
  - rewrite cell_at_set, N.eqb_refl. reflexivity.
  - intros a [La Na]. assert (Hne : a <> q) by (intros ->; apply N0; split; assumption).
    split; [split; [lia|rewrite (G a Hne); exact Na]|].
    rewrite cell_at_set. destruct (N.eqb_spec a q) as [E|_]; [contradiction|apply C].
Qed.

Lemma frame_symtab h h' p v st' :
  frame h h' p v -> frame h (mk_heap (cells h') (hlen h') (free_list h') (gcmap h') st' (chunk h')) p v.
Proof. intros [A B C D E]. constructor; assumption. Qed.

(* Heap::put: either nothing changes (a pointer, an interned symbol) or one fresh cell *)
Inductive put_res (h : heap) (v : vcell) (r : vcell) (h' : heap) : Prop :=
| pr_ptr : forall p, v = VPtr p -> r = v -> h' = h -> put_res h v r h'
| pr_sym : forall n p, v = VSym n -> r = VPtr p -> h' = h -> allocated h p -> cell_at h p = VSym n ->
                       put_res h v r h'
| pr_new : forall p, r = VPtr p -> frame h h' p v -> (forall q, v <> VPtr q) ->
                     (forall n, v = VSym n -> symtab_find (symtab h) n = None) -> put_res h v r h'.

Lemma heap_put_res h v r h' : heap_inv h -> heap_put h v = (r, h') -> put_res h v r h'.
Proof.
  intros HI H. unfold heap_put in H.
  destruct v;
    try (destruct (heap_store_new h _) as [q h1] eqn:Es; injection H as <- <-;
         apply (pr_new _ _ _ _ q); [reflexivity|apply store_new_frame; assumption|discriminate|discriminate]).
  - (* VSym *) destruct (symtab_find (symtab h) s) as [q|] eqn:Ef.
    + injection H as <- <-. apply (hi_symtab h HI) in Ef. destruct Ef as (L & N0 & C).
      apply (pr_sym _ _ _ _ s q); try reflexivity; [split; assumption|exact C].
    + destruct (heap_store_new h (VSym s)) as [q h1] eqn:Es. injection H as <- <-.
      apply (pr_new _ _ _ _ q); [reflexivity| |discriminate|].
      * apply frame_symtab, store_new_frame; assumption.
      * intros n E. injection E as <-. exact Ef.
  - (* VPtr *) injection H as <- <-. apply (pr_ptr _ _ _ _ p); reflexivity.
Qed.

(* ------------------------------------------------------------------ extending a world *)
Definition wext (W : world) (p1 p2 : N) : world :=
  mk_world (fun a => wa W a \/ a = p1) (wi W) (fun a => if a =? p1 then p2 else wf W a) (wtop W).

Lemma ext0_wext W p1 p2 : ~ wa W p1 -> p1 <> NULL -> ext0 W (wext W p1 p2).
Proof.
  intros Hn Hnull. constructor; cbn [wext wa wi wf].
  - intros a H. now left.
  - auto.
  - intros a [H| ->]; (destruct (N.eqb_spec a p1) as [->|_]; [contradiction|reflexivity]) ||
      (destruct (N.eqb_spec NULL p1) as [E|_]; [congruence|reflexivity]).
Qed.
Lemma ext_wext W p1 p2 : ~ wa W p1 -> p1 <> NULL -> ext W (wext W p1 p2).
Proof. intros A B. split; [apply ext0_wext; assumption|cbn [wext wtop]; lia]. Qed.

Lemma store_rel_ext W W' x y : ext0 W W' -> (forall i, wi W' i -> wi W i) -> store_rel W x y -> store_rel W' x y.
Proof.
  intros E Hi [A1 A2 A3 A4 A5 A6 A7]. constructor; try assumption.
  - intros i H. eapply orel_impl; [|apply A4, Hi, H]. intros a b. apply lr_ext, E.
  - intros i H. eapply orel_impl; [|apply A5, Hi, H]. intros a b. apply lr_ext, E.
  - intros i H. eapply orel_impl; [|apply A6, Hi, H]. intros a b. apply contr_ext, E.
  - intros i H. eapply orel_impl; [|apply A7, Hi, H]. intros a b. apply lamr_ext, E.
Qed.

(* the general rebuilding lemma: new heaps, new stores, a bigger world *)
Lemma srel_rebuild W W' s1 s2 h1 h2 x1 x2 :
  srel W s1 s2 -> ext0 W W' -> wtop W' = wtop W ->
  (forall a b, wa W' a -> wa W' b -> wf W' a = wf W' b -> a = b) ->
  heap_inv h1 -> heap_inv h2 -> hlen h1 <= NULL ->
  (forall a, wa W' a -> allocated h1 a /\ allocated h2 (wf W' a) /\ vr W' (cell_at h1 a) (cell_at h2 (wf W' a))) ->
  store_rel W' x1 x2 ->
  srel W' (with_store (with_heap s1 h1) x1) (with_store (with_heap s2 h2) x2).
Proof.
  intros R E Et Inj HI1 HI2 B Cells SR.
  destruct R as [R1 R2 R3 R4 R5 R6 R7 R8 R9 R10 R11 R12 R13 R14 R15 R16 R17 R18 R19 R20].
  constructor; sr_simpl; try assumption.
  - rewrite (ex_f _ _ E) by (right; reflexivity). exact R1.
  - intros a A. apply (Cells a A).
  - intros a A. apply (Cells a A).
  - intros a A. apply (Cells a A).
  - destruct R10 as [B1 B2]. split.
    + rewrite B1. apply map_ext_in. intros x Hx. rewrite (ex_f _ _ E) by (left; apply B2, Hx). reflexivity.
    + intros x Hx. apply (ex_a _ _ E), B2, Hx.
  - eapply lr_ext; eassumption.
  - intros i Hi'. eapply vr_ext; [exact E|]. apply R12. lia.
  - lia.
  - eapply ar_ext; eassumption.
  - destruct R18 as [A1 A2]. split; [eapply ar_ext; eassumption|assumption].
  - eapply vr_ext; eassumption.
Qed.

Lemma with_heap_same s : with_heap s (hp s) = s.
Proof. destruct s; reflexivity. Qed.
Lemma with_store_same s : with_store s (st s) = s.
Proof. destruct s; reflexivity. Qed.

Lemma srel_alloc W s1 s2 h1 h2 p1 p2 :
  srel W s1 s2 -> ~ wa W p1 -> (forall a, wa W a -> wf W a <> p2) ->
  heap_inv h1 -> heap_inv h2 -> hlen h1 <= NULL ->
  (forall a, allocated (hp s1) a -> allocated h1 a /\ cell_at h1 a = cell_at (hp s1) a) ->
  (forall a, allocated (hp s2) a -> allocated h2 a /\ cell_at h2 a = cell_at (hp s2) a) ->
  allocated h1 p1 -> allocated h2 p2 ->
  cell_at h2 p2 = vmap (wf W) (cell_at h1 p1) -> vlive W (cell_at h1 p1) ->
  srel (wext W p1 p2) (with_heap s1 h1) (with_heap s2 h2).
Proof.
  intros R Hn Himg HI1 HI2 B F1 F2 A1 A2 Ec Lc.
  assert (Hnull : p1 <> NULL) by (destruct A1 as [L _]; lia).
  pose proof (ext0_wext W p1 p2 Hn Hnull) as E.
  rewrite <- (with_store_same (with_heap s1 h1)), <- (with_store_same (with_heap s2 h2)).
  eapply srel_rebuild; [exact R|exact E|reflexivity| |exact HI1|exact HI2|exact B| |].
  - cbn [wext wa wf]. intros a b Ha Hb. 
    destruct (N.eqb_spec a p1) as [->|Na], (N.eqb_spec b p1) as [->|Nb]; intros Hab.
    + reflexivity.
    + destruct Hb as [Hb|Hb]; [|contradiction]. exfalso. apply (Himg b Hb). congruence.
    + destruct Ha as [Ha|Ha]; [|contradiction]. exfalso. apply (Himg a Ha). congruence.
    + destruct Ha as [Ha|Ha]; [|contradiction]. destruct Hb as [Hb|Hb]; [|contradiction].
      apply (sr_inj _ _ _ R); assumption.
  - cbn [wext wa wf]. intros a Ha. destruct (N.eqb_spec a p1) as [->|Na].
    + split; [exact A1|]. split; [exact A2|]. rewrite Ec. eapply vr_ext; [exact E|]. split; [reflexivity|exact Lc].
    + destruct Ha as [Ha|Ha]; [|contradiction].
      destruct (F1 a (sr_al1 _ _ _ R a Ha)) as [X1 Y1]. destruct (F2 _ (sr_al2 _ _ _ R a Ha)) as [X2 Y2].
      split; [exact X1|]. split; [exact X2|]. rewrite Y1, Y2. eapply vr_ext; [exact E|]. apply (sr_cell _ _ _ R a Ha).
  - cbn [with_heap st]. eapply store_rel_ext; [exact E|cbn [wext wi]; auto|apply (sr_store _ _ _ R)].
Qed.

Lemma vr_wext_ptr W p1 p2 : vr (wext W p1 p2) (VPtr p1) (VPtr p2).
Proof.
  split.
  - cbn [vmap wext wf]. rewrite N.eqb_refl. reflexivity.
  - split; [|intros i []]. intros a [<-|[]]. left. cbn [wext wa]. now right.
Qed.

(* ------------------------------------------------------------------ hput *)
Lemma vmap_ptr_inv f v q : vmap f v = VPtr q -> exists p, v = VPtr p.
Proof. destruct v; cbn [vmap]; intros H; try discriminate. eexists; reflexivity. Qed.
Lemma vmap_sym_inv f v n : vmap f v = VSym n -> v = VSym n.
Proof. destruct v; cbn [vmap]; intros H; try discriminate. exact H. Qed.

Lemma live_sym W s1 s2 a n : srel W s1 s2 -> wa W a ->
  cell_at (hp s2) (wf W a) = VSym n -> cell_at (hp s1) a = VSym n.
Proof.
  intros R Ha H. destruct (sr_cell _ _ _ R a Ha) as [E _]. rewrite E in H. eapply vmap_sym_inv, H.
Qed.

Definition put_goal (W : world) (s1' : vm) (r1 : vcell) (res2 : res vcell) : Prop :=
  exists a2 s2' W', res2 = ROk a2 s2' /\ ext W W' /\ srel W' s1' s2' /\ vr W' r1 a2.

Lemma hput_ext W s1 s2 h1 h2 p1 p2 :
  srel W s1 s2 -> ~ wa W p1 -> (forall a, wa W a -> wf W a <> p2) ->
  heap_inv h1 -> heap_inv h2 -> hlen h1 <= NULL ->
  (forall a, allocated (hp s1) a -> allocated h1 a /\ cell_at h1 a = cell_at (hp s1) a) ->
  (forall a, allocated (hp s2) a -> allocated h2 a /\ cell_at h2 a = cell_at (hp s2) a) ->
  allocated h1 p1 -> allocated h2 p2 ->
  cell_at h2 p2 = vmap (wf W) (cell_at h1 p1) -> vlive W (cell_at h1 p1) ->
  put_goal W (with_heap s1 h1) (VPtr p1) (ROk (VPtr p2) (with_heap s2 h2)).
Proof.
  intros R Hn Himg HI1 HI2 B F1 F2 A1 A2 Ec Lc.
  exists (VPtr p2), (with_heap s2 h2), (wext W p1 p2). split; [reflexivity|].
  split; [apply ext_wext; [exact Hn|destruct A1 as [L _]; lia]|].
  split; [apply srel_alloc; assumption|apply vr_wext_ptr].
Qed.

Lemma same_frame h : forall a, allocated h a -> allocated h a /\ cell_at h a = cell_at h a.
Proof. intros a H. split; [exact H|reflexivity]. Qed.

Lemma vlive_sym W n : vlive W (VSym n).
Proof. split; intros x []. Qed.

Lemma sim_hput W v1 v2 : vr W v1 v2 -> sim W vr (hput v1) (hput v2).
Proof.
  intros [-> Lv] s1 s2 R. unfold hput.
  destruct (heap_put (hp s1) v1) as [r1 h1] eqn:E1.
  destruct (heap_put (hp s2) (vmap (wf W) v1)) as [r2 h2] eqn:E2. intros B. unfold bounded in B. cbn [with_heap hp] in B.
  pose proof (sr_hi1 _ _ _ R) as HI1. pose proof (sr_hi2 _ _ _ R) as HI2.
  pose proof (heap_inv_put _ _ _ _ HI1 E1) as HI1'. pose proof (heap_inv_put _ _ _ _ HI2 E2) as HI2'.
  pose proof (heap_put_res _ _ _ _ HI1 E1) as P1. pose proof (heap_put_res _ _ _ _ HI2 E2) as P2.
  change (put_goal W (with_heap s1 h1) r1 (ROk r2 (with_heap s2 h2))).
  destruct P1 as [p Ev Er Eh|n p1 Ev Er Eh Al1 Ce1|p1 Er Fr1 Np1 Ns1].
  - (* a pointer *) subst v1 r1 h1. cbn [vmap] in *.
    destruct P2 as [q Ev2 Er2 Eh2|n q Ev2 _ _ _ _|q _ _ Nq _]; [|discriminate|exfalso; eapply Nq; reflexivity].
    subst r2 h2. rewrite !with_heap_same. exists (VPtr (wf W p)), s2, W.
    split; [reflexivity|]. split; [apply ext_refl|]. split; [exact R|]. split; [reflexivity|exact Lv].
  - (* an interned symbol on the left *) subst v1 r1 h1. cbn [vmap] in *.
    destruct (classic (wa W p1)) as [Hl|Hd].
    + assert (C2 : cell_at (hp s2) (wf W p1) = VSym n).
      { destruct (sr_cell _ _ _ R p1 Hl) as [E _]. rewrite E, Ce1. reflexivity. }
      pose proof (sr_al2 _ _ _ R p1 Hl) as Al2.
      destruct P2 as [q Ev2 _ _|n' p2 Ev2 Er2 Eh2 Al2' Ce2|p2 _ _ _ Ns2]; [discriminate| |].
      * injection Ev2 as <-. subst r2 h2.
        assert (p2 = wf W p1) as -> by (apply (proj1 (same_name_iff_same_cell _ _ _ n n HI2 Al2' Al2 Ce2 C2)); reflexivity).
        rewrite !with_heap_same. exists (VPtr (wf W p1)), s2, W.
        split; [reflexivity|]. split; [apply ext_refl|]. split; [exact R|]. split; [reflexivity|].
        split; [|intros i []]. intros a [<-|[]]. now left.
      * exfalso. specialize (Ns2 n eq_refl).
        assert (X : symtab_find (symtab (hp s2)) n = Some (wf W p1)) by (apply (hi_symtab _ HI2); destruct Al2; auto).
        congruence.
    + destruct P2 as [q Ev2 _ _|n' p2 Ev2 Er2 Eh2 Al2' Ce2|p2 Er2 Fr2 _ _]; [discriminate| |].
      * injection Ev2 as <-. subst r2 h2.
        apply hput_ext; try assumption; try apply same_frame.
        -- intros a Ha Heq. apply Hd. rewrite <- Heq in Ce2. pose proof (live_sym _ _ _ _ _ R Ha Ce2) as Ca.
           rewrite <- (proj1 (same_name_iff_same_cell _ _ _ n n HI1 (sr_al1 _ _ _ R a Ha) Al1 Ca Ce1) eq_refl). exact Ha.
        -- rewrite Ce1, Ce2. reflexivity.
        -- rewrite Ce1. apply vlive_sym.
      * subst r2. apply hput_ext; try assumption; try apply same_frame.
        -- intros a Ha Heq. apply (fr_new _ _ _ _ Fr2). rewrite <- Heq. apply (sr_al2 _ _ _ R a Ha).
        -- apply (fr_old _ _ _ _ Fr2).
        -- apply (fr_al _ _ _ _ Fr2).
        -- rewrite Ce1, (fr_cell _ _ _ _ Fr2). reflexivity.
        -- rewrite Ce1. apply vlive_sym.
  - (* a fresh cell on the left *) subst r1.
    assert (Hn : ~ wa W p1) by (intros Ha; apply (fr_new _ _ _ _ Fr1), (sr_al1 _ _ _ R), Ha).
    destruct P2 as [q Ev2 _ _|n p2 Ev2 Er2 Eh2 Al2' Ce2|p2 Er2 Fr2 _ _].
    + exfalso. destruct (vmap_ptr_inv _ _ _ Ev2) as [p Ep]. apply (Np1 p Ep).
    + apply vmap_sym_inv in Ev2. subst v1 r2 h2. specialize (Ns1 n eq_refl).
      apply hput_ext; try assumption; try apply same_frame.
      * intros a Ha Heq. rewrite <- Heq in Ce2. pose proof (live_sym _ _ _ _ _ R Ha Ce2) as Ca.
        assert (X : symtab_find (symtab (hp s1)) n = Some a)
          by (apply (hi_symtab _ HI1); destruct (sr_al1 _ _ _ R a Ha); auto).
        congruence.
      * apply (fr_old _ _ _ _ Fr1).
      * apply (fr_al _ _ _ _ Fr1).
      * rewrite Ce2, (fr_cell _ _ _ _ Fr1). reflexivity.
      * rewrite (fr_cell _ _ _ _ Fr1). apply vlive_sym.
    + subst r2. apply hput_ext; try assumption.
      * intros a Ha Heq. apply (fr_new _ _ _ _ Fr2). rewrite <- Heq. apply (sr_al2 _ _ _ R a Ha).
      * apply (fr_old _ _ _ _ Fr1).
      * apply (fr_old _ _ _ _ Fr2).
      * apply (fr_al _ _ _ _ Fr1).
      * apply (fr_al _ _ _ _ Fr2).
      * rewrite (fr_cell _ _ _ _ Fr1), (fr_cell _ _ _ _ Fr2). reflexivity.
      * rewrite (fr_cell _ _ _ _ Fr1). exact Lv.
Qed.
