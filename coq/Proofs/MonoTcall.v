(* MonoTcall.v — C05: invoke = return for a call/cc in TAIL position (TCALL site).
   The saved instruction pointer (lp, i+1) is the RET that follows the TCALL in the body of
   the procedure that contains the site.  A receiver that is tail-called replaces that
   procedure's frame and its own RET returns to the caller's caller; invoking k restores the
   containing procedure's frame and ONE more instruction — that RET — pops it.  So the state
   one RET after the invocation equals the state after the receiver's normal return.      *)
From Coq Require Import String Lia.
From MW Require Import Model.Base Model.F64 Model.Num Model.Datum Model.TransformDef Model.Transform
  Model.VmTypes Model.Heap Model.VmBase Model.Compile Model.Vm
  Proofs.VmProofs0 Proofs.RunProofs Proofs.CompileCorrect Proofs.TailProofs Proofs.FrameSteps Proofs.ContProofs.
Open Scope N_scope.
Arguments N.add : simpl never.
Arguments N.sub : simpl never.
Arguments N.eqb : simpl never.
Arguments N.ltb : simpl never.
Arguments N.leb : simpl never.
Arguments N.mul : simpl never.

(* the frame of the procedure containing the site, as it is at [m]: n arguments, return
   environment e0, return address (l0, i0), caller's base pointer b0; the receiver and Argc 1
   lie above it *)
Record site_frame (m : vm) (n e0 l0 i0 b0 : N) : Prop := {
  sfr_argc : sget m (bp m + 1) = VArgc n;
  sfr_ep : sget m (bp m + 2) = VEp e0;
  sfr_ip : sget m (bp m + 3) = VIp l0 i0;
  sfr_bp : sget m (bp m + 4) = VBp b0;
  sfr_n : n <= bp m;
  sfr_top : bp m + 4 <= sp m - 2
}.
(* the tail-called receiver about to return: whatever TCALL + ENTER did to the frame (reused
   in place when the argument counts agree, rebuilt otherwise), it returns to the same place:
   same return environment / address / base pointer, and popping it leaves sp = bp m - n *)
Record in_tcc_frame (m : vm) (n e0 l0 i0 b0 : N) (mr : vm) (n' : N) : Prop := {
  tf_argc : sget mr (bp mr + 1) = VArgc n';
  tf_n : n' <= bp mr;
  tf_base : bp mr - n' = bp m - n;
  tf_ep : sget mr (bp mr + 2) = VEp e0;
  tf_ip : sget mr (bp mr + 3) = VIp l0 i0;
  tf_bp : sget mr (bp mr + 4) = VBp b0;
  tf_below : forall j, j <= bp m - n -> sget mr j = sget m j;
  tf_cap : bp mr + 4 < scap mr
}.

Section T.
Variable ob : N -> M vcell.

Theorem invoke_equals_return_tcall m lp i bc fp pv n e0 l0 i0 b0 mr n' lq iq bq s' tail' v :
  at_callcc ob m lp i bc true fp pv -> seg bc (i + 1) [VOp ORet] ->
  site_frame m n e0 l0 i0 b0 ->
  in_tcc_frame m n e0 l0 i0 b0 mr n' -> code_in mr lq bq -> ip mr = (lq, iq) -> seg bq iq [VOp ORet] -> acc mr = v ->
  klive (next_id (st m)) (k_cap m lp i) s' -> at_invoke s' (next_id (st m)) tail' ->
  sget s' (sp s' - 1) = v -> code_in s' lp bc ->
  exists s_ret s_inv s_inv2,
    run_one ob mr = ROk false s_ret /\ run_one ob s' = ROk false s_inv /\ run_one ob s_inv = ROk false s_inv2 /\
    same_cont_state s_inv2 s_ret /\
    ip s_inv = (lp, i + 1) /\
    sp s_ret = bp m - n /\ bp s_ret = b0 /\ ep s_ret = e0 /\ ip s_ret = (l0, i0) /\ acc s_ret = v /\
    (forall j, j <= bp m - n -> sget s_ret j = sget m j) /\
    hp s_inv2 = hp s' /\ st s_inv2 = st s' /\ g_bind s_inv2 = g_bind s' /\ g_slots s_inv2 = g_slots s' /\
    out_log s_inv2 = out_log s' /\ scap s_inv2 = scap s' /\
    klive (next_id (st m)) (k_cap m lp i) s_inv2.
Proof.
  intros H Hret [S1 S2 S3 S4 S5 S6] [T1 T2 T3 T4 T5 T6 T7 T8] Hc Hip Hs Hv KL AI Hv' Hc'.
  assert (Hsp : 2 <= sp m) by (destruct H; assumption).
  pose proof KL as [KL1 KL2].
  assert (Klen : len (k_stack (k_cap m lp i)) = sp m - 2 + 1).
  { unfold k_cap. rewrite cc_cont_len. reflexivity. }
  set (s_inv := inv_state s' (k_cap m lp i)).
  assert (Slot : forall j, j <= sp m - 2 -> sget s_inv j = sget m j).
  { intros j Hj. unfold s_inv. rewrite inv_state_slot by lia.
    unfold k_cap. rewrite cc_cont_slot by (cbn [sp with_ip]; assumption). reflexivity. }
  assert (E1 := step_ret_n ob mr lq iq bq n' e0 l0 i0 b0 Hc Hip Hs T8 T2 T1 T4 T5 T6).
  assert (E2 : run_one ob s' = ROk false s_inv) by (apply (step_invoke ob s' _ _ tail' AI KL)).
  assert (Hbp : bp s_inv = bp m) by reflexivity.
  assert (E3 := step_ret_n ob s_inv lp (i + 1) bc n e0 l0 i0 b0).
  rewrite Hbp in E3. rewrite !Slot in E3 by lia.
  specialize (E3 Hc' eq_refl Hret).
  assert (Hcap : bp m + 4 < scap s_inv) by (change (scap s_inv) with (scap s'); lia).
  specialize (E3 Hcap S5 S1 S2 S3 S4).
  eexists _, s_inv, _. split; [exact E1|]. split; [exact E2|]. split; [exact E3|].
  split.
  { unfold same_cont_state. cbn [sp bp ep ip acc with_bp with_ip with_ep with_sp with_stack].
    split; [symmetry; exact T3|]. split; [reflexivity|]. split; [reflexivity|]. split; [reflexivity|].
    split; [change (sget s' (sp s' - 1) = acc mr); congruence|].
    intros j Hj. rewrite T3 in Hj.
    change (sget s_inv j = sget mr j). rewrite Slot by lia. symmetry. apply T7. exact Hj. }
  split; [reflexivity|].
  cbn [sp bp ep ip acc with_bp with_ip with_ep with_sp with_stack].
  split; [exact T3|]. do 3 (split; [reflexivity|]). split; [exact Hv|].
  split; [intros j Hj; change (sget mr j = sget m j); apply T7; exact Hj|].
  do 6 (split; [reflexivity|]). split; [exact KL1|exact KL2].
Qed.
End T.
