(* FreeSymProofs.v — C01: the free-symbol analysis of the compiler (environment.rs:355-451,
   Compile.ffs) on the extended fragment of Proofs/CompileCorrect2.v: it succeeds, and every
   symbol it reports is a variable (or `set!` target) that occurs in the expression and is not
   bound by the environment it was given.  Consequence: the hypothesis [nocapture] of
   [wf_expr2] follows from a purely syntactic condition ([swf_expr2]).                      *)
From Coq Require Import String Lia FMapPositive.
From MW Require Import Model.Base Model.F64 Model.Num Model.Datum Model.TransformDef Model.Transform
  Model.VmTypes Model.Heap Model.Gc Model.VmBase Model.Compile Model.Vm
  Proofs.VmProofs0 Proofs.GcProofs Proofs.SymtabProofs Proofs.QuoteHeapProofs
  Proofs.CompileProofs Proofs.RunProofs Proofs.CompileCorrect Proofs.TailProofs Proofs.FrameSteps
  Proofs.CellFuelProofs Proofs.CompileCorrect2.
From MW Require Proofs.ScopeProofs.
Open Scope N_scope.

(* ------------------------------------------------------------ ffs, one level unfolded *)
Definition ffs_formals : cell -> list cell -> out (list cell) :=
  fix formals (a : cell) (e : list cell) : out (list cell) :=
    match a with
    | CPair s r => if is_symbol s then formals r (s :: e) else Err E_OTHER
    | _ => Ok e
    end.
Definition ffs_over (f : nat) (env' : list cell) : cell -> list cell -> out (list cell) :=
  fix over (r : cell) (free : list cell) {struct r} : out (list cell) :=
    match r with
    | CPair x r' => do fr <- ffs f x env' free; over r' fr
    | CNil => Ok free
    | other => ffs f other env' free
    end.

Lemma ffs_pair_eq f car cdr env free : ffs (S f) (CPair car cdr) env free =
  if sym_is car QUOTE || sym_is car QUASIQUOTE then Ok free else
  let free1 := if is_symbol car && negb (is_primitive_symbol car) && negb (cell_in_syms car env)
               then add_sym car free else free in
  do free2 <- (if is_pair car then ffs f car env free1 else Ok free1);
  do (env', rest) <-
    (if sym_eq car "define" then
       match cdr with
       | CPair sym_or_args rest =>
           let env' := match sym_or_args with
                       | CPair _ args => fold_left (fun e s => if is_symbol s then s :: e else e)
                                                   (cell_iter args) env
                       | _ => env end in
           Ok (env', rest)
       | _ => Err E_OTHER
       end
     else if sym_eq car "lambda" then
       match cdr with
       | CPair args rest => do env' <- ffs_formals args env; Ok (env', rest)
       | _ => Err E_OTHER
       end
     else Ok (env, cdr));
  ffs_over f env' rest free2.
Proof. reflexivity. Qed.

Lemma ffs_formals_syms ps : forall env, ffs_formals (syms_of ps) env = Ok (rev (map CSym ps) ++ env).
Proof.
  induction ps as [|x ps IH]; intros env; [reflexivity|].
  cbn [syms_of fold_right ffs_formals is_symbol map rev]. fold (syms_of ps). rewrite IH, <- app_assoc. reflexivity.
Qed.

(* a form headed by a keyword other than define / lambda / quote / quasiquote *)
Lemma ffs_kw f k cdr env free : is_primitive_symbol (CSym k) = true ->
  sym_is (CSym k) QUOTE || sym_is (CSym k) QUASIQUOTE = false ->
  sym_eq (CSym k) "define" = false -> sym_eq (CSym k) "lambda" = false ->
  ffs (S f) (CPair (CSym k) cdr) env free = ffs_over f env cdr free.
Proof.
  intros H1 H2 H3 H4. rewrite ffs_pair_eq, H2. cbv zeta. rewrite H1, H3, H4. cbn [is_symbol is_pair negb andb bind]. reflexivity.
Qed.
Lemma ffs_define f x rest env free :
  ffs (S f) (CPair DEFINE_ (CPair (CSym x) rest)) env free = ffs_over f env rest free.
Proof. reflexivity. Qed.
Lemma ffs_quote f d env free : ffs (S f) (quote_of d) env free = Ok free.
Proof. reflexivity. Qed.
Lemma ffs_lambda f ps b env free :
  ffs (S f) (lam_cell ps b) env free = ffs_over f (rev (map CSym ps) ++ env) (CPair b CNil) free.
Proof.
  unfold lam_cell. rewrite ffs_pair_eq.
  change (sym_is LAMBDA_ QUOTE || sym_is LAMBDA_ QUASIQUOTE) with false. cbv zeta.
  change (is_symbol LAMBDA_ && negb (is_primitive_symbol LAMBDA_)) with false.
  change (is_pair LAMBDA_) with false. change (sym_eq LAMBDA_ "define") with false.
  change (sym_eq LAMBDA_ "lambda") with true. cbn [andb bind]. rewrite ffs_formals_syms. reflexivity.
Qed.

(* ------------------------------------------------------------ the specification *)
Fixpoint allvars (e : expr2) : list text :=
  match e with
  | XConst _ | XQuote _ => []
  | XIf c a b => allvars c ++ allvars a ++ allvars b
  | XIf1 c a => allvars c ++ allvars a
  | XVar x => [x]
  | XDefine x e => allvars e
  | XSet x e => x :: allvars e
  | XApp f args => allvars f ++ flat_map allvars args
  | XLet ps b args => allvars b ++ flat_map allvars args
  end.

Definition ffs_res (f : nat) (c : cell) (env : list cell) (fs0 : list text) (vars : list text) : Prop :=
  exists fs1, ffs f c env (map CSym fs0) = Ok (map CSym (fs0 ++ fs1)) /\
    forall x, In x fs1 -> In x vars /\ cell_in_syms (CSym x) env = false.
Definition ffs_spec (e : expr2) : Prop :=
  forall f env fs0, (cell_size (cell_of2 e) < f)%nat -> ffs_res f (cell_of2 e) env fs0 (allvars e).

Lemma ffs_res_mono f c env fs0 v v' : (forall x, In x v -> In x v') -> ffs_res f c env fs0 v -> ffs_res f c env fs0 v'.
Proof. intros H (fs1 & E & K). exists fs1. split; [exact E|]. intros x Hx. destruct (K x Hx). auto. Qed.

Lemma add_sym_map x fs0 : exists fs1, add_sym (CSym x) (map CSym fs0) = map CSym (fs0 ++ fs1) /\
  forall y, In y fs1 -> y = x.
Proof.
  unfold add_sym. destruct (cell_in_syms (CSym x) (map CSym fs0)).
  - exists []. rewrite app_nil_r. split; [reflexivity|intros y []].
  - exists [x]. rewrite map_app. split; [reflexivity|]. intros y [<-|[]]. reflexivity.
Qed.

Lemma ffs_sym_res f x env fs0 : ffs_res (S f) (CSym x) env fs0 [x].
Proof.
  unfold ffs_res. cbn [ffs]. destruct (cell_in_syms (CSym x) env) eqn:E.
  - exists []. rewrite app_nil_r. split; [reflexivity|intros y []].
  - destruct (add_sym_map x fs0) as (fs1 & E1 & K). exists fs1. rewrite E1. split; [reflexivity|].
    intros y Hy. rewrite (K y Hy). split; [left; reflexivity|exact E].
Qed.

Lemma ffs_spec_var x : ffs_spec (XVar x).
Proof. intros f env fs0 Hf. destruct f as [|f]; [cbn in Hf; lia|]. apply ffs_sym_res. Qed.

(* the operand loop *)
Lemma over_res args : Forall ffs_spec args -> forall f env fs0,
  (cell_size (cells_of2 args) < f)%nat ->
  exists fs1, ffs_over f env (cells_of2 args) (map CSym fs0) = Ok (map CSym (fs0 ++ fs1)) /\
    forall x, In x fs1 -> In x (flat_map allvars args) /\ cell_in_syms (CSym x) env = false.
Proof.
  induction 1 as [|a r Ha _ IH]; intros f env fs0 Hf.
  - exists []. rewrite app_nil_r. split; [reflexivity|intros x []].
  - destruct (cells2_size a r) as [Sa Sr].
    change (cells_of2 (a :: r)) with (CPair (cell_of2 a) (cells_of2 r)) in *. cbn [ffs_over].
    destruct (Ha f env fs0 ltac:(lia)) as (fa & Ea & Ka). rewrite Ea. cbn [bind].
    destruct (IH f env (fs0 ++ fa) ltac:(lia)) as (fr & Er & Kr). exists (fa ++ fr).
    rewrite app_assoc. split; [exact Er|]. cbn [flat_map].
    intros x Hx. apply in_app_or in Hx as [Hx|Hx].
    + destruct (Ka x Hx). split; [apply in_or_app; left; assumption|assumption].
    + destruct (Kr x Hx). split; [apply in_or_app; right; assumption|assumption].
Qed.

Lemma cell_in_syms_app c l env : cell_in_syms c (l ++ env) = false -> cell_in_syms c env = false.
Proof.
  destruct c; try reflexivity. cbn [cell_in_syms]. rewrite existsb_app. intros H.
  apply Bool.orb_false_iff in H. apply H.
Qed.
Lemma cell_in_syms_param x ps env : In x ps -> cell_in_syms (CSym x) (rev (map CSym ps) ++ env) = true.
Proof.
  intros H. cbn [cell_in_syms]. apply existsb_exists. exists (CSym x). split.
  - apply in_or_app. left. apply -> in_rev. apply in_map. exact H.
  - cbn [sym_is]. destruct (list_eq_dec N.eq_dec x x); [reflexivity|contradiction].
Qed.

(* ------------------------------------------------------------ syntactic well-formedness *)
Fixpoint swf_expr2 (e : expr2) (ps : list text) {struct e} : Prop :=
  match e with
  | XConst c => self_eval c = true /\ heap_datum c
  | XQuote d => heap_datum d
  | XIf c a b => swf_expr2 c ps /\ swf_expr2 a ps /\ swf_expr2 b ps
  | XIf1 c a => swf_expr2 c ps /\ swf_expr2 a ps
  | XVar x => is_primitive_symbol (CSym x) = false
  | XDefine x e | XSet x e => is_primitive_symbol (CSym x) = false /\ pindex x ps = None /\ swf_expr2 e ps
  | XApp f args => special_head (cell_of2 f) = false /\ swf_expr2 f ps /\
                   (fix all (l : list expr2) : Prop := match l with [] => True | x :: r => swf_expr2 x ps /\ all r end) args
  | XLet ps' body args =>
      length args = length ps' /\ (forall x, In x ps' -> is_primitive_symbol (CSym x) = false) /\
      is_define body = false /\
      (* every variable mentioned in the body is a parameter of this lambda or is not a
         parameter of the enclosing one: nothing to capture *)
      (forall x, In x (allvars body) -> In x ps' \/ pindex x ps = None) /\
      swf_expr2 body ps' /\
      (fix all (l : list expr2) : Prop := match l with [] => True | x :: r => swf_expr2 x ps /\ all r end) args
  end.

Lemma swf_all ps args :
  (fix all (l : list expr2) : Prop := match l with [] => True | x :: r => swf_expr2 x ps /\ all r end) args
  <-> Forall (fun x => swf_expr2 x ps) args.
Proof.
  induction args as [|x r IH]; [split; constructor|]. split.
  - intros [A B]. constructor; [exact A|apply IH; exact B].
  - intros H. inversion H; subst. split; [assumption|apply IH; assumption].
Qed.

Lemma special_head_parts c : special_head c = false ->
  sym_eq c "define" = false /\ sym_eq c "lambda" = false /\ sym_eq c "quote" = false /\ sym_eq c "quasiquote" = false.
Proof.
  unfold special_head. intros H.
  repeat (apply Bool.orb_false_iff in H; destruct H as [H ?]). auto.
Qed.

(* the operator of an application: whatever it is, the two head steps of ffs amount to
   analysing it as an expression *)
Lemma head_step e ps g env free : swf_expr2 e ps ->
  (if is_pair (cell_of2 e)
   then ffs (S g) (cell_of2 e) env
          (if is_symbol (cell_of2 e) && negb (is_primitive_symbol (cell_of2 e)) && negb (cell_in_syms (cell_of2 e) env)
           then add_sym (cell_of2 e) free else free)
   else Ok (if is_symbol (cell_of2 e) && negb (is_primitive_symbol (cell_of2 e)) && negb (cell_in_syms (cell_of2 e) env)
            then add_sym (cell_of2 e) free else free))
  = ffs (S g) (cell_of2 e) env free.
Proof.
  intros Hwf. destruct e; cbn [cell_of2]; try reflexivity.
  - destruct Hwf as [Hs _]. destruct c; try discriminate; reflexivity.
  - cbn [swf_expr2] in Hwf. cbn [is_pair is_symbol andb]. rewrite Hwf. cbn [negb andb ffs].
    destruct (cell_in_syms (CSym x) env); reflexivity.
Qed.

Theorem ffs_spec_swf : forall e ps, swf_expr2 e ps -> ffs_spec e.
Proof.
  induction e as [c|d|c a b IHc IHa IHb|c a IHc IHa|x|x e IH|x e IH|f0 args IHf IHargs|ps' body args IHbody IHargs]
    using expr2_ind2; intros ps Hwf f env fs0 Hf; (destruct f as [|f]; [lia|]); unfold ffs_res.
  - exists []. rewrite app_nil_r. destruct Hwf as [Hs _]. split; [|intros x []].
    cbn [cell_of2]. destruct c; try discriminate; reflexivity.
  - exists []. rewrite app_nil_r. split; [apply ffs_quote|intros x []].
  - destruct Hwf as (Wc & Wa & Wb). cbn [cell_of2 allvars] in *. unfold IF_.
    rewrite ffs_kw by reflexivity.
    destruct (over_res [c; a; b] ltac:(repeat constructor; eauto) f env fs0) as (fs1 & E & K).
    { unfold cells_of2. cbn [map fold_right]. cbn [cell_size] in Hf |- *. lia. }
    exists fs1. split; [exact E|]. intros x Hx. destruct (K x Hx) as [H1 H2]. split; [|exact H2].
    cbn [flat_map] in H1. rewrite app_nil_r in H1. exact H1.
  - destruct Hwf as (Wc & Wa). cbn [cell_of2 allvars] in *. unfold IF_.
    rewrite ffs_kw by reflexivity.
    destruct (over_res [c; a] ltac:(repeat constructor; eauto) f env fs0) as (fs1 & E & K).
    { unfold cells_of2. cbn [map fold_right]. cbn [cell_size] in Hf |- *. lia. }
    exists fs1. split; [exact E|]. intros y Hy. destruct (K y Hy) as [H1 H2]. split; [|exact H2].
    cbn [flat_map] in H1. rewrite app_nil_r in H1. exact H1.
  - apply ffs_sym_res.
  - destruct Hwf as (_ & _ & We). cbn [cell_of2 allvars] in *. rewrite ffs_define.
    destruct (over_res [e] ltac:(repeat constructor; eauto) f env fs0) as (fs1 & E & K).
    { unfold cells_of2. cbn [map fold_right]. cbn [cell_size] in Hf |- *. lia. }
    exists fs1. split; [exact E|]. intros y Hy. destruct (K y Hy) as [H1 H2]. split; [|exact H2].
    cbn [flat_map] in H1. rewrite app_nil_r in H1. exact H1.
  - destruct Hwf as (Hx & _ & We). cbn [cell_of2 allvars] in *. unfold SET_.
    rewrite ffs_kw by reflexivity.
    destruct (over_res [XVar x; e] ltac:(repeat constructor; [apply ffs_spec_var|eauto]) f env fs0)
      as (fs1 & E & K).
    { unfold cells_of2. cbn [map fold_right cell_of2]. cbn [cell_size] in Hf |- *. lia. }
    exists fs1. split; [exact E|]. intros y Hy. destruct (K y Hy) as [H1 H2]. split; [|exact H2].
    cbn [flat_map allvars] in H1. rewrite app_nil_r in H1. exact H1.
  - cbn [swf_expr2] in Hwf. destruct Hwf as (Hsp & Wf & Wargs). apply swf_all in Wargs.
    destruct (special_head_parts _ Hsp) as (Hd & Hl & Hq & Hqq).
    cbn [cell_of2 allvars] in *. fold (cells_of2 args) in *. cbn [cell_size] in Hf.
    rewrite ffs_pair_eq.
    change (sym_is (cell_of2 f0) QUOTE) with (sym_eq (cell_of2 f0) "quote").
    change (sym_is (cell_of2 f0) QUASIQUOTE) with (sym_eq (cell_of2 f0) "quasiquote").
    rewrite Hq, Hqq. cbn [orb]. cbv zeta. rewrite Hd, Hl.
    destruct f as [|g]; [lia|].
    rewrite (head_step f0 ps g env (map CSym fs0) Wf).
    destruct (IHf ps Wf (S g) env fs0 ltac:(lia)) as (fa & Ea & Ka). rewrite Ea. cbn [bind].
    assert (HF : Forall ffs_spec args).
    { clear -IHargs Wargs. induction IHargs as [|y r Hy _ IH]; constructor; inversion Wargs; subst; eauto. }
    destruct (over_res args HF (S g) env (fs0 ++ fa) ltac:(lia)) as (fr & Er & Kr). exists (fa ++ fr).
    rewrite app_assoc. split; [exact Er|].
    intros y Hy. apply in_app_or in Hy as [Hy|Hy].
    + destruct (Ka y Hy). split; [apply in_or_app; left; assumption|assumption].
    + destruct (Kr y Hy). split; [apply in_or_app; right; assumption|assumption].
  - cbn [swf_expr2] in Hwf. destruct Hwf as (_ & _ & _ & _ & Wb & Wargs). apply swf_all in Wargs.
    cbn [cell_of2 allvars] in *. fold (cells_of2 args) in *. cbn [cell_size] in Hf.
    pose proof (lam_cell_size ps' (cell_of2 body)) as Hls.
    rewrite ffs_pair_eq. unfold lam_cell at 1 2 3 4 5 6 7.
    cbn [sym_is orb is_symbol is_pair andb]. cbv zeta. fold (lam_cell ps' (cell_of2 body)).
    destruct f as [|g]; [lia|]. rewrite ffs_lambda. cbn [ffs_over].
    destruct (IHbody ps' Wb g (rev (map CSym ps') ++ env) fs0 ltac:(lia)) as (fa & Ea & Ka). rewrite Ea. cbn [bind].
    change (sym_eq (lam_cell ps' (cell_of2 body)) "define") with false.
    change (sym_eq (lam_cell ps' (cell_of2 body)) "lambda") with false. cbn [bind].
    assert (HF : Forall ffs_spec args).
    { clear -IHargs Wargs. induction IHargs as [|y r Hy _ IH]; constructor; inversion Wargs; subst; eauto. }
    destruct (over_res args HF (S g) env (fs0 ++ fa) ltac:(lia)) as (fr & Er & Kr). exists (fa ++ fr).
    rewrite app_assoc. split; [exact Er|].
    intros y Hy. apply in_app_or in Hy as [Hy|Hy].
    + destruct (Ka y Hy) as [H1 H2]. split; [apply in_or_app; left; assumption|eapply cell_in_syms_app; exact H2].
    + destruct (Kr y Hy). split; [apply in_or_app; right; assumption|assumption].
Qed.

(* ------------------------------------------------------------ nocapture, syntactically *)
Theorem nocapture_syntactic ps ps' body : ffs_spec body ->
  (forall x, In x (allvars body) -> In x ps' \/ pindex x ps = None) ->
  nocapture ps (lam_cell ps' (cell_of2 body)).
Proof.
  intros Hspec Hvars. pose proof (lam_cell_size ps' (cell_of2 body)) as Hls.
  unfold nocapture, free_symbols. rewrite ffs_lambda. cbn [ffs_over]. rewrite app_nil_r.
  destruct (Hspec (cell_size (lam_cell ps' (cell_of2 body))) (rev (map CSym ps')) [] ltac:(lia)) as (fs1 & E & K).
  exists fs1. cbn [map app] in E. rewrite E. cbn [bind]. split; [reflexivity|].
  intros x Hx. destruct (K x Hx) as [H1 H2]. destruct (Hvars x H1) as [Hin|Hp]; [|exact Hp].
  pose proof (cell_in_syms_param x ps' [] Hin) as H3. rewrite app_nil_r in H3. congruence.
Qed.

(* the syntactic condition implies the well-formedness used by compile_correct2 *)
Theorem swf_wf : forall e ps, swf_expr2 e ps -> wf_expr2 e ps.
Proof.
  induction e as [c|d|c a b IHc IHa IHb|c a IHc IHa|x|x e IH|x e IH|f0 args IHf IHargs|ps' body args IHbody IHargs]
    using expr2_ind2; intros ps Hwf; cbn [wf_expr2 swf_expr2] in *; try exact Hwf.
  - destruct Hwf as (A & B & C). auto.
  - destruct Hwf as (A & B). auto.
  - destruct Hwf as (A & B & C). auto.
  - destruct Hwf as (A & B & C). auto.
  - destruct Hwf as (A & B & C). split; [exact A|]. split; [auto|].
    apply wf2_all. apply swf_all in C.
    clear -IHargs C. induction IHargs as [|y r Hy _ IH]; constructor; inversion C; subst; auto.
  - destruct Hwf as (A & B & C & D & E & F). split; [exact A|]. split; [exact B|]. split; [exact C|].
    split; [apply nocapture_syntactic; [eapply ffs_spec_swf; exact E|exact D]|]. split; [auto|].
    apply wf2_all. apply swf_all in F.
    clear -IHargs F. induction IHargs as [|y r Hy _ IH]; constructor; inversion F; subst; auto.
Qed.

Print Assumptions swf_wf.

(* the examples of CompileCorrect2 are syntactically well-formed *)
Lemma ex2_swf : swf_expr2 ex2_e [].
Proof.
  cbn [swf_expr2 ex2_e]. split; [reflexivity|]. split; [intros x [<-|[<-|[]]]; reflexivity|].
  split; [reflexivity|]. split; [intros x _; right; reflexivity|].
  split; [cbn; repeat split|cbn; repeat split].
Qed.
Lemma ex3_swf : swf_expr2 ex3_e [].
Proof.
  cbn [swf_expr2 ex3_e]. split; [reflexivity|]. split; [intros x [<-|[]]; reflexivity|].
  split; [reflexivity|]. split; [intros x _; right; reflexivity|].
  split; [|cbn; repeat split].
  split; [reflexivity|]. split; [intros x [<-|[<-|[]]]; reflexivity|].
  split; [reflexivity|]. split.
  { cbn [allvars app]. intros x [<-|[<-|[]]]; left; cbn; auto. }
  split; [cbn; repeat split|cbn; repeat split].
Qed.
