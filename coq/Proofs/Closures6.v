(* Closures6.v — C01 (work package c01d): FRAGMENT 6 = fragment 4 (closures as values with capture,
   lambda bodies of several expressions, Closures4.v) + set! ON LOCAL VARIABLES (parameters of the
   current lambda or variables captured from enclosing lambdas).

     e ::= c | (quote d) | (if e e e) | (if e e) | x | (define x e)          (x global in define)
         | (set! x e)                       x bound by the scope: the LOCATION of x is assigned; else the global x
         | (lambda (x1 ... xn) e1 ... ek)   k >= 1, no ei a define form
         | (e0 e1 ... en)                   e0 evaluates to a builtin procedure or to a closure

   Reference semantics WITH A STORE OF LOCATIONS ([ref_eval6], after Closures5.ref_eval5, with body
   lists as in ref_eval4): the environment of an activation is a list of locations, an application
   allocates fresh locations for the parameters at the end of the store, a lambda expression captures
   LOCATIONS, a local set! overwrites the store.  Values [rval6] are not recursive.

   Machine side: a LOCATION MAP mu : list (N * N) (location l |-> heap address of the VLexEnv cell of
   an activation environment, slot) that only grows; [vrep6 mu] (a closure's captured slots are the
   POINTERS mu gives to the captured locations, nothing about their content), [store_rel mu sg]
   (the content of every location, injectivity on (environment id, slot)), [genv_rel6], [lrel6]
   (slot i of the running activation IS location lv[i] or POINTS to it), the frame condition
   [wext]/[frame6] (pointer slots keep their pointer, direct slots stay direct) replacing
   rext/frame2, the outcomes [ok_n6]/[ok_t6] and [exec6].
   Ported from Closures4.v (constants renamed ...4 -> ...6, Z.. -> W.., suffix 6 otherwise).
   CompileStatic6.v: compile-time theorem; CompileCorrect6.v: exec lemmas of the basic forms and of
   local set!; EvalFragment6.v: closures, the induction, Vm::eval, the counter.              *)
From Coq Require Import String Lia FMapPositive.
From MW Require Import Model.Base Model.F64 Model.Num Model.Datum Model.TransformDef Model.Transform
  Model.VmTypes Model.Heap Model.Gc Model.VmBase Model.Compile Model.Vm
  Proofs.VmProofs0 Proofs.GcProofs Proofs.SymtabProofs Proofs.QuoteHeapProofs
  Proofs.CompileProofs Proofs.RunProofs Proofs.CompileCorrect Proofs.TailProofs Proofs.FrameSteps
  Proofs.CellFuelProofs Proofs.CompileCorrect2 Proofs.FrameSteps3 Proofs.Closures3 Proofs.CompileStatic3
  Proofs.CompileCorrect3 Proofs.FrameSteps5 Proofs.StoreLocal5.
From MW Require Proofs.ScopeProofs.
Open Scope N_scope.

Arguments N.add : simpl never.
Arguments N.sub : simpl never.
Arguments N.mul : simpl never.
Arguments N.eqb : simpl never.
Arguments N.ltb : simpl never.
Arguments N.leb : simpl never.

(* ============================================================ syntax *)
(* [WLam ps fs bodies]: bodies = the body expressions e1 ... ek; fs is an ANNOTATION, the list of free symbols the compiler's analysis
   reports for the lambda expression ([wf6] demands exactly that); it does not occur in the datum *)
Inductive expr6 :=
| WConst (c : cell)
| WQuote (d : cell)
| WIf (c a b : expr6)
| WIf1 (c a : expr6)
| WVar (x : text)
| WDefine (x : text) (e : expr6)
| WSet (x : text) (e : expr6)
| WApp (f : expr6) (args : list expr6)
| WLam (ps fs : list text) (bodies : list expr6).

(* the datum (lambda (ps...) b1 ... bk) *)
Definition lam_cells6 (ps : list text) (bodies : list cell) : cell :=
  CPair LAMBDA_ (CPair (syms_of ps) (fold_right CPair CNil bodies)).
Lemma lam_cells_one6 ps b : lam_cells6 ps [b] = lam_cell ps b.
Proof. reflexivity. Qed.

Fixpoint cell_of6 (e : expr6) : cell :=
  match e with
  | WConst c => c
  | WQuote d => quote_of d
  | WIf c a b => CPair IF_ (CPair (cell_of6 c) (CPair (cell_of6 a) (CPair (cell_of6 b) CNil)))
  | WIf1 c a => CPair IF_ (CPair (cell_of6 c) (CPair (cell_of6 a) CNil))
  | WVar x => CSym x
  | WDefine x e => CPair DEFINE_ (CPair (CSym x) (CPair (cell_of6 e) CNil))
  | WSet x e => CPair SET_ (CPair (CSym x) (CPair (cell_of6 e) CNil))
  | WApp f args => CPair (cell_of6 f) (fold_right CPair CNil (map cell_of6 args))
  | WLam ps fs bodies => lam_cells6 ps (map cell_of6 bodies)
  end.
Definition cells_of6 (args : list expr6) : cell := fold_right CPair CNil (map cell_of6 args).

Definition is_define6 (e : expr6) : bool := match e with WDefine _ _ => true | _ => false end.

Definition bound_in6 (sc : list text) (x : text) : bool :=
  match pindex x sc with Some _ => true | None => false end.
(* the captured variables of a lambda with free symbols fs inside the scope sc, in the order
   of the environment map *)
Definition capnames6 (sc fs : list text) : list text := filter (bound_in6 sc) fs.

(* every variable name mentioned in e (also under nested lambdas) *)
Fixpoint allvars6 (e : expr6) : list text :=
  match e with
  | WConst _ | WQuote _ => []
  | WIf c a b => allvars6 c ++ allvars6 a ++ allvars6 b
  | WIf1 c a => allvars6 c ++ allvars6 a
  | WVar x => [x]
  | WDefine x e | WSet x e => x :: allvars6 e
  | WApp f args => allvars6 f ++ flat_map allvars6 args
  | WLam _ _ bodies => flat_map allvars6 bodies
  end.

(* [wf6 e sc]: e is well formed inside a lambda whose environment map binds the names sc.
   For a lambda: the annotation is the compiler's free-symbol list, and it COVERS every
   variable of the body that the scope binds (so that the restriction of the environment to
   the captured names agrees with ordinary lexical scoping). *)
Fixpoint wf6 (e : expr6) (sc : list text) {struct e} : Prop :=
  match e with
  | WConst c => self_eval c = true /\ heap_datum c
  | WQuote d => heap_datum d
  | WIf c a b => wf6 c sc /\ wf6 a sc /\ wf6 b sc
  | WIf1 c a => wf6 c sc /\ wf6 a sc
  | WVar x => is_primitive_symbol (CSym x) = false
  | WDefine x e => is_primitive_symbol (CSym x) = false /\ pindex x sc = None /\ wf6 e sc
  | WSet x e => is_primitive_symbol (CSym x) = false /\ wf6 e sc
  | WApp f args => special_head (cell_of6 f) = false /\ wf6 f sc /\
                   (fix all (l : list expr6) : Prop := match l with [] => True | x :: r => wf6 x sc /\ all r end) args
  | WLam ps fs bodies =>
      bodies <> [] /\
      (forall x, In x ps -> is_primitive_symbol (CSym x) = false) /\
      (forall b, In b bodies -> is_define6 b = false) /\
      free_symbols (lam_cells6 ps (map cell_of6 bodies)) = Ok (map CSym fs) /\
      (forall x, In x (flat_map allvars6 bodies) -> In x ps \/ bound_in6 sc x = false \/ In x fs) /\
      (fix all (l : list expr6) : Prop :=
         match l with [] => True | x :: r => wf6 x (ps ++ capnames6 sc fs) /\ all r end) bodies
  end.

Lemma wf6_all sc args :
  (fix all (l : list expr6) : Prop := match l with [] => True | x :: r => wf6 x sc /\ all r end) args
  <-> Forall (fun x => wf6 x sc) args.
Proof.
  induction args as [|x r IH]; [split; constructor|]. split.
  - intros [A B]. constructor; [exact A|apply IH; exact B].
  - intros H. inversion H; subst. split; [assumption|apply IH; assumption].
Qed.
Lemma wf6_app sc f args : wf6 (WApp f args) sc <->
  special_head (cell_of6 f) = false /\ wf6 f sc /\ Forall (fun x => wf6 x sc) args.
Proof. cbn [wf6]. rewrite wf6_all. reflexivity. Qed.
Lemma wf6_lam sc ps fs bodies : wf6 (WLam ps fs bodies) sc <->
  bodies <> [] /\
  (forall x, In x ps -> is_primitive_symbol (CSym x) = false) /\
  (forall b, In b bodies -> is_define6 b = false) /\
  free_symbols (lam_cells6 ps (map cell_of6 bodies)) = Ok (map CSym fs) /\
  (forall x, In x (flat_map allvars6 bodies) -> In x ps \/ bound_in6 sc x = false \/ In x fs) /\
  Forall (fun b => wf6 b (ps ++ capnames6 sc fs)) bodies.
Proof. cbn [wf6]. rewrite wf6_all. reflexivity. Qed.

Section expr6_ind2.
Variable P : expr6 -> Prop.
Hypothesis Hconst : forall c, P (WConst c).
Hypothesis Hquote : forall d, P (WQuote d).
Hypothesis Hif : forall c a b, P c -> P a -> P b -> P (WIf c a b).
Hypothesis Hif1 : forall c a, P c -> P a -> P (WIf1 c a).
Hypothesis Hvar : forall x, P (WVar x).
Hypothesis Hdef : forall x e, P e -> P (WDefine x e).
Hypothesis Hset : forall x e, P e -> P (WSet x e).
Hypothesis Happ : forall f args, P f -> Forall P args -> P (WApp f args).
Hypothesis Hlam : forall ps fs bodies, Forall P bodies -> P (WLam ps fs bodies).
Fixpoint expr6_ind2 (e : expr6) : P e :=
  match e with
  | WConst c => Hconst c
  | WQuote d => Hquote d
  | WIf c a b => Hif c a b (expr6_ind2 c) (expr6_ind2 a) (expr6_ind2 b)
  | WIf1 c a => Hif1 c a (expr6_ind2 c) (expr6_ind2 a)
  | WVar x => Hvar x
  | WDefine x e => Hdef x e (expr6_ind2 e)
  | WSet x e => Hset x e (expr6_ind2 e)
  | WApp f args => Happ f args (expr6_ind2 f)
      ((fix go (l : list expr6) : Forall P l :=
          match l with [] => Forall_nil P | x :: r => Forall_cons x (expr6_ind2 x) (go r) end) args)
  | WLam ps fs bodies => Hlam ps fs bodies
      ((fix go (l : list expr6) : Forall P l :=
          match l with [] => Forall_nil P | x :: r => Forall_cons x (expr6_ind2 x) (go r) end) bodies)
  end.
End expr6_ind2.

(* ============================================================ values, store *)
(* a closure: parameters, captured names, body expressions, the LOCATIONS of the captured variables
   (not recursive in values: the content of a location is in the store) *)
Inductive rval6 :=
| R6Base (r : rval)
| R6Clo (ps cs : list text) (bodies : list expr6) (clocs : list nat).

Definition rcell6 (r : rval6) : cell :=
  match r with R6Base b => rcell b | R6Clo ps _ _ _ => CProc None end.
Definition is_false6 (r : rval6) : bool := match r with R6Base b => is_false b | _ => false end.

Definition env6 := text -> option rval6.
Definition upd6 (rho : env6) (x : text) (r : rval6) : env6 :=
  fun y => if text_eqb y x then Some r else rho y.
Definition rho6_empty : env6 := fun _ => None.

(* the store: location l is position l of the list *)
Definition store6 := list rval6.
Fixpoint sset6 (sigma : store6) (l : nat) (r : rval6) : store6 :=
  match sigma, l with
  | [], _ => []
  | _ :: t, O => r :: t
  | x :: t, S l' => x :: sset6 t l' r
  end.
Lemma sset6_length sigma : forall l r, length (sset6 sigma l r) = length sigma.
Proof. induction sigma as [|x t IH]; intros [|l] r; cbn [sset6 length]; auto. Qed.
Lemma sset6_same sigma : forall l r, (l < length sigma)%nat -> nth_error (sset6 sigma l r) l = Some r.
Proof.
  induction sigma as [|x t IH]; intros [|l] r H; cbn [sset6 length nth_error] in *; try lia; [reflexivity|].
  apply IH. lia.
Qed.
Lemma sset6_other sigma : forall l k r, l <> k -> nth_error (sset6 sigma l r) k = nth_error sigma k.
Proof.
  induction sigma as [|x t IH]; intros [|l] [|k] r H; cbn [sset6 nth_error]; try reflexivity; try congruence.
  apply IH. congruence.
Qed.

(* ============================================================ reference semantics *)
Section Sem6.
Variable bsem : N -> list rval -> option rval.

(* [ref_eval6 sc lv sg rho e r sg' rho']: inside a lambda whose environment binds the names sc to
   the LOCATIONS lv (top level: both empty), with the store sg and the global environment rho, e has
   the value r and leaves the store sg' and the globals rho'.  Call by value, operands left to right,
   then the operator, then the body expressions of the closure in sequence (the value is that of
   the last one), its parameters bound to FRESH locations holding the operands and its captured
   names to the captured locations.  (set! x e): x bound by the scope -> the location of x is
   overwritten; otherwise the global x. *)
Inductive ref_eval6 : list text -> list nat -> store6 -> env6 -> expr6 -> rval6 -> store6 -> env6 -> Prop :=
| R6_const sc lv sg rho c : ref_eval6 sc lv sg rho (WConst c) (R6Base (RDatum c)) sg rho
| R6_quote sc lv sg rho d : ref_eval6 sc lv sg rho (WQuote d) (R6Base (RDatum d)) sg rho
| R6_local sc lv sg rho x i l r : pindex x sc = Some i -> nth_error lv (N.to_nat i) = Some l ->
    nth_error sg l = Some r ->
    ref_eval6 sc lv sg rho (WVar x) r sg rho
| R6_global sc lv sg rho x r : pindex x sc = None -> rho x = Some r -> r <> R6Base (RDatum CUndef) ->
    ref_eval6 sc lv sg rho (WVar x) r sg rho
| R6_if_t sc lv sg rho c a b rc sg1 rho1 r sg2 rho2 :
    ref_eval6 sc lv sg rho c rc sg1 rho1 -> is_false6 rc = false -> ref_eval6 sc lv sg1 rho1 a r sg2 rho2 ->
    ref_eval6 sc lv sg rho (WIf c a b) r sg2 rho2
| R6_if_f sc lv sg rho c a b rc sg1 rho1 r sg2 rho2 :
    ref_eval6 sc lv sg rho c rc sg1 rho1 -> is_false6 rc = true -> ref_eval6 sc lv sg1 rho1 b r sg2 rho2 ->
    ref_eval6 sc lv sg rho (WIf c a b) r sg2 rho2
| R6_if1_t sc lv sg rho c a rc sg1 rho1 r sg2 rho2 :
    ref_eval6 sc lv sg rho c rc sg1 rho1 -> is_false6 rc = false -> ref_eval6 sc lv sg1 rho1 a r sg2 rho2 ->
    ref_eval6 sc lv sg rho (WIf1 c a) r sg2 rho2
| R6_if1_f sc lv sg rho c a rc sg1 rho1 :
    ref_eval6 sc lv sg rho c rc sg1 rho1 -> is_false6 rc = true ->
    ref_eval6 sc lv sg rho (WIf1 c a) (R6Base (RDatum CVoid)) sg1 rho1
| R6_define sc lv sg rho x e r sg1 rho1 :
    ref_eval6 sc lv sg rho e r sg1 rho1 ->
    ref_eval6 sc lv sg rho (WDefine x e) (R6Base (RDatum CVoid)) sg1 (upd6 rho1 x r)
| R6_set sc lv sg rho x e r sg1 rho1 old :
    pindex x sc = None -> ref_eval6 sc lv sg rho e r sg1 rho1 -> rho1 x = Some old ->
    ref_eval6 sc lv sg rho (WSet x e) (R6Base (RDatum CVoid)) sg1 (upd6 rho1 x r)
| R6_setl sc lv sg rho x e r sg1 rho1 i l :
    pindex x sc = Some i -> nth_error lv (N.to_nat i) = Some l ->
    ref_eval6 sc lv sg rho e r sg1 rho1 -> (l < length sg1)%nat ->
    ref_eval6 sc lv sg rho (WSet x e) (R6Base (RDatum CVoid)) (sset6 sg1 l r) rho1
| R6_lam sc lv sg rho ps fs bodies clocs :
    Forall2 (fun x l => exists i, pindex x sc = Some i /\ nth_error lv (N.to_nat i) = Some l)
            (capnames6 sc fs) clocs ->
    ref_eval6 sc lv sg rho (WLam ps fs bodies) (R6Clo ps (capnames6 sc fs) bodies clocs) sg rho
| R6_app_builtin sc lv sg rho f args rbs sg1 rho1 b sg2 rho2 r :
    ref_evals6 sc lv sg rho args (map R6Base rbs) sg1 rho1 ->
    ref_eval6 sc lv sg1 rho1 f (R6Base (RBuiltin b)) sg2 rho2 ->
    bsem b rbs = Some r ->
    ref_eval6 sc lv sg rho (WApp f args) (R6Base r) sg2 rho2
| R6_app_closure sc lv sg rho f args rs sg1 rho1 ps cs bodies clocs sg2 rho2 vs pre r sg3 rho3 :
    ref_evals6 sc lv sg rho args rs sg1 rho1 ->
    ref_eval6 sc lv sg1 rho1 f (R6Clo ps cs bodies clocs) sg2 rho2 ->
    length rs = length ps ->
    (* the body expressions in sequence, the parameters at fresh locations; the value is that of the LAST one *)
    ref_evals6 (ps ++ cs) (seq (length sg2) (length rs) ++ clocs) (sg2 ++ rs) rho2 bodies vs sg3 rho3 ->
    vs = pre ++ [r] ->
    ref_eval6 sc lv sg rho (WApp f args) r sg3 rho3
with ref_evals6 : list text -> list nat -> store6 -> env6 -> list expr6 -> list rval6 -> store6 -> env6 -> Prop :=
| R6_nil sc lv sg rho : ref_evals6 sc lv sg rho [] [] sg rho
| R6_cons sc lv sg rho x r sg1 rho1 xs rs sg2 rho2 :
    ref_eval6 sc lv sg rho x r sg1 rho1 -> ref_evals6 sc lv sg1 rho1 xs rs sg2 rho2 ->
    ref_evals6 sc lv sg rho (x :: xs) (r :: rs) sg2 rho2.

Scheme ref_eval6_mut := Induction for ref_eval6 Sort Prop
  with ref_evals6_mut := Induction for ref_evals6 Sort Prop.
Scheme ref_eval6_min := Minimality for ref_eval6 Sort Prop
  with ref_evals6_min := Minimality for ref_evals6 Sort Prop.
End Sem6.

(* ============================================================ static context *)
(* the lambda under construction: its environment map is its own parameters followed by
   captured entries; the names the map binds, in slot order, are sc *)
Definition hdr6 (l : lambda) (sc : list text) (s : vm) : Prop :=
  exists ps cs caps, sc = ps ++ cs /\ l_envmap l = ScopeProofs.enum_args (l_args l) 0 ++ caps /\
    Forall2 (pname s) (l_args l) ps /\ Forall2 (pname s) (map fst caps) cs.

Lemma hdr6_ext l sc s s' : cext s s' -> hdr6 l sc s -> hdr6 l sc s'.
Proof.
  intros X (ps & cs & caps & E & M & F1 & F2). exists ps, cs, caps.
  split; [exact E|]. split; [exact M|]. split; eapply pnames_ext; eassumption.
Qed.
Lemma hdr6_same l l' sc s : same_hdr l l' -> hdr6 l sc s -> hdr6 l' sc s.
Proof.
  intros (_ & _ & E & A & _) (ps & cs & caps & E1 & M & F1 & F2). exists ps, cs, caps.
  rewrite E, A. auto.
Qed.
Lemma top_hdr_hdr6 l s : top_hdr l -> hdr6 l [] s.
Proof.
  intros [E A]. exists [], [], []. rewrite E, A. split; [reflexivity|]. split; [reflexivity|]. split; constructor.
Qed.

Lemma Forall2_app_pname6 s a1 a2 p1 p2 : Forall2 (pname s) a1 p1 -> Forall2 (pname s) a2 p2 ->
  Forall2 (pname s) (a1 ++ a2) (p1 ++ p2).
Proof. intros H1 H2. induction H1; cbn [app]; [exact H2|constructor; assumption]. Qed.

Lemma hdr6_slot l sc s a x : hdr6 l sc s -> heap_inv (hp s) ->
  allocated (hp s) a -> cell_at (hp s) a = VSym x ->
  envmap_slot (l_envmap l) (VPtr a) = pindex x sc.
Proof.
  intros (ps & cs & caps & -> & M & F1 & F2) HI A C.
  rewrite ScopeProofs.envmap_slot_fidx, ScopeProofs.fidx_is_sym_fst, M, map_app, ScopeProofs.enum_args_fst.
  apply (fidx_names s _ _ a x HI (Forall2_app_pname6 _ _ _ _ _ F1 F2) A C).
Qed.

Lemma pindex_app_none6 x ps cs : pindex x (ps ++ cs) = None -> pindex x ps = None.
Proof.
  unfold pindex. rewrite ScopeProofs.fidx_app. destruct (ScopeProofs.fidx _ ps); [discriminate|reflexivity].
Qed.

Lemma location_local6 l sc s a x i : hdr6 l sc s -> heap_inv (hp s) ->
  allocated (hp s) a -> cell_at (hp s) a = VSym x -> pindex x sc = Some i ->
  location_operand l (VPtr a) s = ROk (VLexSlot i) s.
Proof.
  intros Hh HI A C Hi. unfold location_operand, binding_location.
  rewrite (hdr6_slot l sc s a x Hh HI A C), Hi. reflexivity.
Qed.
Lemma location_global6 l sc s a x : hdr6 l sc s -> heap_inv (hp s) ->
  allocated (hp s) a -> cell_at (hp s) a = VSym x -> pindex x sc = None ->
  location_operand l (VPtr a) s = (dom slot <- get_binding a; ret (VGSlot slot)) s.
Proof.
  intros Hh HI A C Hi. unfold location_operand, binding_location.
  rewrite (hdr6_slot l sc s a x Hh HI A C), Hi.
  destruct Hh as (ps & cs & caps & -> & M & F1 & F2).
  change (find_index (fun a0 => vptr_eqb a0 (VPtr a)) (l_args l) 0)
    with (ScopeProofs.fidx (ScopeProofs.sym_is (VPtr a)) (l_args l)).
  rewrite (fidx_names s _ ps a x HI F1 A C), (pindex_app_none6 _ _ _ Hi). reflexivity.
Qed.

(* ============================================================ representation of values *)
Section AllIdx.
Context {A : Type} (P : N -> A -> Prop).
Fixpoint all_idx6 (l : list A) (i : N) {struct l} : Prop :=
  match l with [] => True | x :: r => P i x /\ all_idx6 r (i + 1) end.
End AllIdx.
Lemma all_idx_nth6 {A} (P : N -> A -> Prop) l : forall i,
  all_idx6 P l i <-> forall k x, nth_error l k = Some x -> P (i + N.of_nat k) x.
Proof.
  induction l as [|y l IH]; intros i; cbn [all_idx6].
  - split; [intros _ k x H; destruct k; discriminate|auto].
  - rewrite IH. split.
    + intros [H0 Hr] k x Hk. destruct k as [|k]; cbn [nth_error] in Hk.
      * injection Hk as <-. replace (i + N.of_nat 0) with i by lia. exact H0.
      * replace (i + N.of_nat (S k)) with (i + 1 + N.of_nat k) by lia. apply Hr. exact Hk.
    + intros H. split.
      * replace i with (i + N.of_nat 0) by lia. apply H. reflexivity.
      * intros k x Hk. replace (i + 1 + N.of_nat k) with (i + N.of_nat (S k)) by lia. apply H. exact Hk.
Qed.

(* the code object of a closure: a lambda with parameters ps and captured entries for cs whose
   bytecode is ENTER; cb; RET where cb is what the body loop emitted for the body expressions (the
   last one in tail position), under a header binding ps ++ cs, in some earlier state s0' that m
   extends *)
(* the body loop of compile_lambda (Model/Compile.v, [body_loop]): every body expression is
   compiled in turn into the same lambda, the LAST one (and only it) in tail position *)
Section BodyLoop.
Variable ce : lambda -> bool -> cell -> M lambda.
Fixpoint body_loop6 (b : cell) (lam : lambda) {struct b} : M lambda :=
  match b with
  | CPair x r => dom lam' <- ce lam (is_nil r) x; body_loop6 r lam'
  | _ => ret lam
  end.
End BodyLoop.
Fixpoint compile_bodies6 (f : nat) (lam : lambda) (bodies : list cell) {struct bodies} : M lambda :=
  match bodies with
  | [] => ret lam
  | x :: r => dom lam' <- compile_expression f lam (match r with [] => true | _ => false end) x;
              compile_bodies6 f lam' r
  end.
Lemma compile_bodies_eq6 f bodies : forall lam s,
  body_loop6 (compile_expression f) (fold_right CPair CNil bodies) lam s = compile_bodies6 f lam bodies s.
Proof.
  induction bodies as [|x r IH]; intros lam s; [reflexivity|].
  cbn [fold_right body_loop6 compile_bodies6].
  replace (is_nil (fold_right CPair CNil r)) with (match r with [] => true | _ => false end) by (destruct r; reflexivity).
  unfold bindM. destruct (compile_expression f lam _ x s) as [lam' s'| | |]; try reflexivity. apply IH.
Qed.
(* compile_lambda on (lambda (ps...) b1 ... bk): what the model does, with the body loop named *)
Lemma compile_lambda6_eq f l tail ps bs s :
  compile_expression (S f) l tail (lam_cells6 ps bs) s =
  (dom (formals, vararg) <- (if is_nil (syms_of ps) then ret ([], false) else compile_formals (syms_of ps) []);
   dom free <- lift (free_symbols (lam_cells6 ps bs));
   dom free_refs <- put_cells free;
   dom internal <- lift (internally_defined_symbols (fold_right CPair CNil bs));
   dom internal_refs <- put_cells internal;
   let lam0 := set_desc (lambda_from_iof formals internal_refs l free_refs vararg) (syms_of ps) in
   let lam1 := if vararg then emit_op lam0 OVarArg else lam0 in
   let lam2 := emit_op lam1 OEnter in
   if is_nil (fold_right CPair CNil bs) then fail E_OTHER else
   dom lam3 <- body_loop6 (compile_expression f) (fold_right CPair CNil bs) lam2;
   dom lp <- put_lambda (emit_op lam3 ORet);
   ret (emit_op (emit (emit (emit_op l OMovImmediate) lp) VAcc) OClosureAcc)) s.
Proof. reflexivity. Qed.

Definition closure_code6 (m : vm) (lamp : N) (ps cs : list text) (bodies : list expr6) : Prop :=
  exists lam caps cb f lam2 s0 lam3 s0',
    lam_in m lamp lam /\ l_envmap lam = ScopeProofs.enum_args (l_args lam) 0 ++ caps /\
    Forall2 (pname m) (l_args lam) ps /\
    Forall (fun e => exists k, snd e = BIofEnvironment k) caps /\ length caps = length cs /\
    l_bc lam = [VOp OEnter] ++ cb ++ [VOp ORet] /\
    bodies <> [] /\ (cell_size (cells_of6 bodies) < f)%nat /\ Forall (fun b => wf6 b (ps ++ cs)) bodies /\
    hdr6 lam2 (ps ++ cs) s0 /\ minv s0 /\
    compile_bodies6 f lam2 (map cell_of6 bodies) s0 = ROk lam3 s0' /\
    fwd lam2 = [VOp OEnter] /\ fwd lam3 = fwd lam2 ++ cb /\ cext s0' m.

Lemma closure_code_ext6 m m' lamp ps cs bodies : cext m m' -> closure_code6 m lamp ps cs bodies ->
  closure_code6 m' lamp ps cs bodies.
Proof.
  intros X (lam & caps & cb & f & lam2 & s0 & lam3 & s0' & H1 & H2 & H3 & H4 & H5 & H6 & H7 & H8 & H9 & H10 & H11 & H12 & H13 & H14 & H15).
  exists lam, caps, cb, f, lam2, s0, lam3, s0'.
  split; [eapply lam_in_ext; eassumption|]. split; [exact H2|]. split; [eapply pnames_ext; eassumption|].
  do 11 (split; [assumption|]). eapply cext_trans; eassumption.
Qed.


(* ============================================================ the location map *)
(* location l of the reference store is slot j of the activation environment whose VLexEnv cell
   is at heap address a; the map only grows (at ENTER of a closure) *)
Definition lmap := list (N * N).
Definition prefix6 (mu mu' : lmap) : Prop := exists more, mu' = mu ++ more.
Lemma prefix6_refl mu : prefix6 mu mu.
Proof. exists []. rewrite app_nil_r. reflexivity. Qed.
Lemma prefix6_trans a b c : prefix6 a b -> prefix6 b c -> prefix6 a c.
Proof. intros [x ->] [y ->]. exists (x ++ y). rewrite app_assoc. reflexivity. Qed.
Lemma prefix6_nth mu mu' l x : prefix6 mu mu' -> nth_error mu l = Some x -> nth_error mu' l = Some x.
Proof.
  intros [more ->] H. rewrite nth_error_app1; [exact H|]. apply nth_error_Some. congruence.
Qed.
Lemma prefix6_app mu more : prefix6 mu (mu ++ more).
Proof. exists more. reflexivity. Qed.

(* ============================================================ the frame condition *)
(* every existing environment keeps a payload of the same length in which every slot that held a
   pointer holds the same pointer and every slot that held a direct value holds a direct value *)
Definition wenvs (m m' : vm) : Prop :=
  forall e sl, e < next_id (st m) -> tget (envs (st m)) e = Some sl ->
    exists sl', tget (envs (st m')) e = Some sl' /\ len sl' = len sl /\
      (forall k a j, list_get sl k = Some (VLexPtr a j) -> list_get sl' k = Some (VLexPtr a j)) /\
      (forall k w, list_get sl k = Some w -> nonptr w -> exists w', list_get sl' k = Some w' /\ nonptr w').
Record wext (m m' : vm) : Prop := { wx_cext : cext m m'; wx_envs : wenvs m m' }.
Record frame6 (m m' : vm) : Prop := { f6_frame : frame m m'; f6_envs : wenvs m m' }.

Lemma wenvs_refl m : wenvs m m.
Proof. intros e sl _ T. exists sl. split; [exact T|]. split; [reflexivity|]. split; [auto|]. intros k w G Hw. eauto. Qed.
Lemma wenvs_trans a b c : cext a b -> wenvs a b -> wenvs b c -> wenvs a c.
Proof.
  intros X E1 E2 e sl Lt T. destruct (E1 e sl Lt T) as (sl1 & T1 & Ln1 & P1 & N1).
  destruct (E2 e sl1 ltac:(destruct (ce_store _ _ X); lia) T1) as (sl2 & T2 & Ln2 & P2 & N2).
  exists sl2. split; [exact T2|]. split; [congruence|]. split.
  - intros k a0 j G. apply P2, P1, G.
  - intros k w G Hw. destruct (N1 k w G Hw) as (w1 & G1 & Hw1). apply (N2 k w1 G1 Hw1).
Qed.
Lemma wext_refl m : wext m m.
Proof. split; [apply cext_refl|apply wenvs_refl]. Qed.
Lemma wext_trans a b c : wext a b -> wext b c -> wext a c.
Proof.
  intros [X1 E1] [X2 E2]. split; [eapply cext_trans; eassumption|eapply wenvs_trans; eassumption].
Qed.
Lemma rext_wext m m' : rext m m' -> wext m m'.
Proof.
  intros [X E]. split; [exact X|]. intros e sl Lt T. exists sl. rewrite E by exact Lt.
  split; [exact T|]. split; [reflexivity|]. split; [auto|]. intros k w G Hw. eauto.
Qed.
Lemma frame6_wext m m' : frame6 m m' -> wext m m'.
Proof. intros [F E]. split; [apply F|exact E]. Qed.
Lemma frame6_refl m : frame6 m m.
Proof. split; [apply frame_refl|apply wenvs_refl]. Qed.
Lemma frame6_trans a b c : frame6 a b -> frame6 b c -> frame6 a c.
Proof.
  intros [F1 E1] [F2 E2]. split; [eapply frame_trans; eassumption|]. eapply wenvs_trans; [apply F1|exact E1|exact E2].
Qed.
Lemma frame2_frame6 m m' : frame2 m m' -> frame6 m m'.
Proof. intros F. split; [apply F|]. apply (wx_envs _ _ (rext_wext _ _ (frame2_rext _ _ F))). Qed.
Lemma same_mem_frame6 m m' : same_mem m m' -> frame6 m m'.
Proof. intros SM. apply frame2_frame6, same_mem_frame2, SM. Qed.
Lemma tframe_frame6 m m' : frame6 m m' -> tframe m -> tframe m'.
Proof.
  intros [F _] (k & e & i & b & Hf & Hsp). exists k, e, i, b.
  split; [eapply frame_at_keep; [exact Hf|exact Hsp|apply F|apply F]|]. rewrite (fr_bp _ _ F), (fr_sp _ _ F). exact Hsp.
Qed.

(* ============================================================ representation of values *)
(* a closure: as in fragment 4, but the captured slots of the closure environment are specified
   as POINTERS only: the pointer of the k-th captured slot is the address mu gives to the k-th
   captured location.  The CONTENT of the locations is the business of [store_rel]. *)
Definition vrep6 (mu : lmap) (m : vm) (v : vcell) (r : rval6) : Prop :=
  match r with
  | R6Base b => vrep v b (hp m) (st m)
  | R6Clo ps cs bodies clocs =>
      exists cp lamp cep ceid cslots, v = VPtr cp /\
        allocated (hp m) cp /\ cell_at (hp m) cp = VClosure lamp cep /\
        allocated (hp m) cep /\ cell_at (hp m) cep = VLexEnv ceid /\ ceid < next_id (st m) /\
        tget (envs (st m)) ceid = Some cslots /\ len cslots = len ps + len cs /\
        length clocs = length cs /\ closure_code6 m lamp ps cs bodies /\
        all_idx6 (fun i l => exists a j, nth_error mu l = Some (a, j) /\ list_get cslots i = Some (VLexPtr a j))
                 clocs (len ps)
  end.

Lemma vrep6_ext mu mu' m m' v r : wext m m' -> prefix6 mu mu' -> vrep6 mu m v r -> vrep6 mu' m' v r.
Proof.
  intros [X E] Pf. destruct r as [b|ps cs bodies clocs]; cbn [vrep6]; intros H.
  - eapply vrep_ext; [exact H|apply cext_ext, X].
  - destruct H as (cp & lamp & cep & ceid & cslots & -> & A1 & C1 & A2 & C2 & Lt & T & L & Lc & CC & All).
    destruct (ce_heap _ _ X cp A1) as [A1' C1']. destruct (ce_heap _ _ X cep A2) as [A2' C2'].
    destruct (E ceid cslots Lt T) as (cslots' & T' & Ln' & P' & _).
    exists cp, lamp, cep, ceid, cslots'. split; [reflexivity|]. split; [exact A1'|]. split; [congruence|].
    split; [exact A2'|]. split; [congruence|]. split; [destruct (ce_store _ _ X); lia|].
    split; [exact T'|]. split; [congruence|]. split; [exact Lc|].
    split; [eapply closure_code_ext6; eassumption|].
    rewrite all_idx_nth6 in *. intros k l Hk. destruct (All k l Hk) as (a & j & Hm & G).
    exists a, j. split; [eapply prefix6_nth; eassumption|apply P'; exact G].
Qed.

Lemma vrep6_truth mu m v r : vrep6 mu m v r ->
  exists w, heap_deref (hp m) v = Ok w /\ (w = VBool false <-> is_false6 r = true).
Proof.
  destruct r as [b|ps cs bodies clocs]; cbn [vrep6 is_false6].
  - apply vrep_truth.
  - intros (cp & lamp & cep & ceid & cslots & -> & A1 & C1 & _).
    exists (VClosure lamp cep). cbn [heap_deref]. rewrite (heap_get_alloc _ _ A1), C1.
    split; [reflexivity|]. split; discriminate.
Qed.
Lemma vrep6_not_op mu m v r : vrep6 mu m v r -> forall o, v <> VOp o.
Proof.
  destruct r as [b|ps cs bodies clocs]; cbn [vrep6].
  - apply vrep_not_op.
  - intros (cp & lamp & cep & ceid & cslots & -> & _) o. discriminate.
Qed.
Lemma vrep6_not_undef mu m v r : vrep6 mu m v r -> r <> R6Base (RDatum CUndef) -> v <> VUndef.
Proof.
  destruct r as [b|ps cs bodies clocs]; cbn [vrep6].
  - intros H Hr. eapply vrep_not_undef; [exact H|]. intros ->. apply Hr. reflexivity.
  - intros (cp & lamp & cep & ceid & cslots & -> & _) _. discriminate.
Qed.
Lemma vrep6_not_lexptr mu m v r : vrep6 mu m v r -> nonptr v.
Proof.
  unfold nonptr. destruct r as [b|ps cs bodies clocs]; cbn [vrep6].
  - apply vrep_not_lexptr.
  - intros (cp & lamp & cep & ceid & cslots & -> & _) e j. discriminate.
Qed.

(* ============================================================ the store *)
(* every location is a direct slot of an existing environment whose content represents the value
   the reference store has there; distinct locations are distinct (environment id, slot) pairs *)
Definition store_rel (mu : lmap) (sg : store6) (m : vm) : Prop :=
  length mu = length sg /\
  (forall l a j r, nth_error mu l = Some (a, j) -> nth_error sg l = Some r ->
     exists eid sl w, allocated (hp m) a /\ cell_at (hp m) a = VLexEnv eid /\ eid < next_id (st m) /\
       tget (envs (st m)) eid = Some sl /\ list_get sl j = Some w /\ nonptr w /\ vrep6 mu m w r) /\
  (forall l1 l2 a1 a2 j eid, nth_error mu l1 = Some (a1, j) -> nth_error mu l2 = Some (a2, j) ->
     cell_at (hp m) a1 = VLexEnv eid -> cell_at (hp m) a2 = VLexEnv eid -> l1 = l2).

Lemma store_rel_nil m : store_rel [] [] m.
Proof.
  split; [reflexivity|]. split.
  - intros l a j r H. destruct l; discriminate.
  - intros l1 l2 a1 a2 j eid H. destruct l1; discriminate.
Qed.
(* every location of the map has a value in the store, and is an allocated environment cell *)
Lemma store_rel_loc mu sg m l a j : store_rel mu sg m -> nth_error mu l = Some (a, j) ->
  exists r eid sl w, nth_error sg l = Some r /\ allocated (hp m) a /\ cell_at (hp m) a = VLexEnv eid /\
    eid < next_id (st m) /\ tget (envs (st m)) eid = Some sl /\ list_get sl j = Some w /\ nonptr w /\ vrep6 mu m w r.
Proof.
  intros (Hl & Hc & _) Hm.
  destruct (nth_error sg l) as [r|] eqn:Er.
  - destruct (Hc l a j r Hm Er) as (eid & sl & w & H). exists r, eid, sl, w. split; [reflexivity|exact H].
  - apply nth_error_None in Er. assert (l < length mu)%nat by (apply nth_error_Some; congruence). lia.
Qed.
(* code that leaves the existing payloads alone keeps the store relation *)
Lemma store_rel_rext mu sg m m' : rext m m' -> store_rel mu sg m -> store_rel mu sg m'.
Proof.
  intros R SR. pose proof SR as (Hl & Hc & Hi). pose proof (rx_cext _ _ R) as X.
  split; [exact Hl|]. split.
  - intros l a j r Hm Hs. destruct (Hc l a j r Hm Hs) as (eid & sl & w & A & C & Lt & T & G & Hw & V).
    destruct (ce_heap _ _ X a A) as [A' C']. exists eid, sl, w. split; [exact A'|]. split; [congruence|].
    split; [destruct (ce_store _ _ X); lia|]. split; [rewrite (rx_envs _ _ R) by exact Lt; exact T|].
    split; [exact G|]. split; [exact Hw|]. eapply vrep6_ext; [apply rext_wext; exact R|apply prefix6_refl|exact V].
  - intros l1 l2 a1 a2 j eid H1 H2 C1 C2.
    destruct (store_rel_loc _ _ _ _ _ _ SR H1) as (_ & _ & _ & _ & _ & A1 & _).
    destruct (store_rel_loc _ _ _ _ _ _ SR H2) as (_ & _ & _ & _ & _ & A2 & _).
    destruct (ce_heap _ _ X a1 A1) as [_ E1]. destruct (ce_heap _ _ X a2 A2) as [_ E2].
    apply (Hi l1 l2 a1 a2 j eid H1 H2); congruence.
Qed.

(* ============================================================ dynamic context *)
Definition genv_rel6 (mu : lmap) (rho : env6) (m : vm) : Prop :=
  forall x r, rho x = Some r -> exists a k v,
    allocated (hp m) a /\ cell_at (hp m) a = VSym x /\ assoc_find (g_bind m) a = Some k /\
    list_get (g_slots m) k = Some v /\ vrep6 mu m v r.

Lemma genv_rel6_ext mu mu' rho m m' : wext m m' -> prefix6 mu mu' -> g_slots m' = g_slots m ->
  genv_rel6 mu rho m -> genv_rel6 mu' rho m'.
Proof.
  intros R Pf Eg G x r Hx. destruct (G x r Hx) as (a & k & v & A & C & B & L & V).
  pose proof (wx_cext _ _ R) as X. destruct (ce_heap _ _ X a A) as [A' C'].
  exists a, k, v. split; [exact A'|]. split; [congruence|]. split; [apply (ce_bind _ _ X); exact B|].
  split; [rewrite Eg; exact L|]. eapply vrep6_ext; eassumption.
Qed.
Lemma genv_rel6_empty mu m : genv_rel6 mu rho6_empty m.
Proof. intros x r H. discriminate. Qed.

(* the environment %ep points to: slot i is the location lv[i] itself (a direct slot, mu gives
   its own address) or holds the pointer mu gives to that location *)
Definition lrel6 (mu : lmap) (lv : list nat) (m : vm) : Prop :=
  forall i l, nth_error lv (N.to_nat i) = Some l ->
  exists eid slots v a j, allocated (hp m) (ep m) /\ cell_at (hp m) (ep m) = VLexEnv eid /\
    eid < next_id (st m) /\ tget (envs (st m)) eid = Some slots /\ list_get slots i = Some v /\
    nth_error mu l = Some (a, j) /\
    ((nonptr v /\ a = ep m /\ j = i) \/ v = VLexPtr a j).
Lemma lrel6_nil mu m : lrel6 mu [] m.
Proof. intros i r H. destruct (N.to_nat i); discriminate. Qed.
Lemma lrel6_ext mu mu' lv m m' : wext m m' -> prefix6 mu mu' -> ep m' = ep m -> lrel6 mu lv m -> lrel6 mu' lv m'.
Proof.
  intros [X E] Pf Hep L i l Hi. destruct (L i l Hi) as (eid & slots & v & a & j & A & C & Lt & T & G & Hm & Hcase).
  destruct (ce_heap _ _ X _ A) as [A' C']. destruct (E eid slots Lt T) as (slots' & T' & Ln' & P' & N').
  destruct Hcase as [(Hn & -> & ->)| ->].
  - destruct (N' i v G Hn) as (v' & G' & Hn'). exists eid, slots', v', (ep m'), i. rewrite Hep.
    split; [exact A'|]. split; [congruence|]. split; [destruct (ce_store _ _ X); lia|]. split; [exact T'|].
    split; [exact G'|]. split; [eapply prefix6_nth; eassumption|]. left. auto.
  - exists eid, slots', (VLexPtr a j), a, j. rewrite Hep.
    split; [exact A'|]. split; [congruence|]. split; [destruct (ce_store _ _ X); lia|]. split; [exact T'|].
    split; [apply P'; exact G|]. split; [eapply prefix6_nth; eassumption|]. right. reflexivity.
Qed.
Lemma lrel6_frame6 mu mu' lv m m' : frame6 m m' -> prefix6 mu mu' -> lrel6 mu lv m -> lrel6 mu' lv m'.
Proof. intros F Pf. apply lrel6_ext; [apply frame6_wext; exact F|exact Pf|apply F]. Qed.

(* reading slot i of the running activation through the store: the slot is the location, or
   holds the pointer to it *)
Lemma lrel6_read mu lv sg m i l r : lrel6 mu lv m -> store_rel mu sg m ->
  nth_error lv (N.to_nat i) = Some l -> nth_error sg l = Some r ->
  exists eid slots v, allocated (hp m) (ep m) /\ cell_at (hp m) (ep m) = VLexEnv eid /\
    eid < next_id (st m) /\ tget (envs (st m)) eid = Some slots /\ list_get slots i = Some v /\
    ((nonptr v /\ vrep6 mu m v r) \/
     (exists a j eid2 sl w, v = VLexPtr a j /\ allocated (hp m) a /\ cell_at (hp m) a = VLexEnv eid2 /\
        eid2 < next_id (st m) /\ tget (envs (st m)) eid2 = Some sl /\ list_get sl j = Some w /\ nonptr w /\
        vrep6 mu m w r)).
Proof.
  intros L (_ & Hc & _) Hi Hs. destruct (L i l Hi) as (eid & slots & v & a & j & A & C & Lt & T & G & Hm & Hcase).
  destruct (Hc l a j r Hm Hs) as (eid2 & sl & w & A2 & C2 & Lt2 & T2 & G2 & Hw & V).
  exists eid, slots, v. do 5 (split; [assumption|]).
  destruct Hcase as [(Hn & -> & ->)| ->].
  - left. split; [exact Hn|]. assert (eid2 = eid) as -> by congruence. assert (sl = slots) as -> by congruence.
    assert (w = v) as -> by congruence. exact V.
  - right. exists a, j, eid2, sl, w. auto 10.
Qed.
(* ... and the machine-level location (StoreLocal5.loc_of) of slot i *)
Lemma lrel6_loc_of mu lv sg m i l : lrel6 mu lv m -> store_rel mu sg m ->
  nth_error lv (N.to_nat i) = Some l ->
  exists a j e, nth_error mu l = Some (a, j) /\ cell_at (hp m) a = VLexEnv e /\ loc_of m i e j.
Proof.
  intros L SR Hi. destruct (L i l Hi) as (eid & slots & v & a & j & A & C & Lt & T & G & Hm & Hcase).
  destruct (store_rel_loc _ _ _ _ _ _ SR Hm) as (r & eid2 & sl & w & _ & A2 & C2 & Lt2 & T2 & G2 & Hw & _).
  exists a, j, eid2. split; [exact Hm|]. split; [exact C2|].
  exists eid, slots, v. do 5 (split; [assumption|]).
  destruct Hcase as [(Hn & -> & ->)| ->].
  - left. split; [exact Hn|]. split; [congruence|reflexivity].
  - right. exists a. split; [reflexivity|]. split; [exact A2|]. split; [exact C2|]. exists sl, w. auto.
Qed.

Section Exec6.
Variable ob : N -> M vcell.
Notation steps := (RunProofs.steps ob).

(* normal completion: the next instruction; registers and the stack below %sp as before, the
   location map extended, the store as the reference semantics leaves it *)
Definition ok_n6 (mu : lmap) (sg' : store6) (m : vm) (lp q : N) (r : rval6) (rho' : env6) : Prop :=
  exists n m' mu', steps n m = Some m' /\ prefix6 mu mu' /\ frame6 m m' /\ minv m' /\ ip m' = (lp, q) /\
    vrep6 mu' m' (acc m') r /\ genv_rel6 mu' rho' m' /\ store_rel mu' sg' m'.
(* completion through a tail call: the state the RET of the current frame produces *)
Definition ok_t6 (mu : lmap) (sg' : store6) (m : vm) (r : rval6) (rho' : env6) : Prop :=
  exists n m' mu' k e i b, steps n m = Some m' /\ prefix6 mu mu' /\ frame_at m k e i b /\ wext m m' /\ minv m' /\
    vrep6 mu' m' (acc m') r /\ genv_rel6 mu' rho' m' /\ store_rel mu' sg' m' /\
    sp m' = bp m - k /\ ep m' = e /\ ip m' = i /\ bp m' = b /\ out_log m' = out_log m /\
    (forall j, j <= bp m - k -> sget m' j = sget m j).

Lemma ok_t6_pre mu mu1 sg' m m1 n1 r rho' : steps n1 m = Some m1 -> frame6 m m1 -> prefix6 mu mu1 ->
  bp m + 4 <= sp m -> ok_t6 mu1 sg' m1 r rho' -> ok_t6 mu sg' m r rho'.
Proof.
  intros St F Pf Hsp (n & m' & mu' & k & e & i & b & St' & Pf' & Hf & X & MI & V & G & SR & E1 & E2 & E3 & E4 & E5 & K).
  pose proof (f6_frame _ _ F) as F0.
  assert (Hf0 : frame_at m k e i b).
  { destruct Hf as (H1 & H2 & H3 & H4 & H5). unfold frame_at.
    rewrite (fr_bp _ _ F0) in *. rewrite !(fr_stack _ _ F0) in * by lia. auto. }
  exists (n1 + n)%nat, m', mu', k, e, i, b. split; [eapply steps_trans; eassumption|].
  split; [eapply prefix6_trans; eassumption|]. split; [exact Hf0|].
  split; [eapply wext_trans; [apply frame6_wext; exact F|exact X]|]. split; [exact MI|]. split; [exact V|].
  split; [exact G|]. split; [exact SR|]. rewrite (fr_bp _ _ F0) in *. split; [exact E1|]. split; [exact E2|]. split; [exact E3|].
  split; [exact E4|]. split; [rewrite E5; apply F0|].
  intros j Hj. rewrite K by exact Hj. apply (fr_stack _ _ F0). destruct Hf0 as (_ & _ & _ & _ & H5). lia.
Qed.

Definition exec6 (s0 : vm) (p : N) (code : list vcell) (tail : bool) (lv : list nat) (sg : store6)
                 (rho : env6) (r : rval6) (sg' : store6) (rho' : env6) : Prop :=
  forall m mu lp bc,
    cext s0 m -> minv m -> code_in m lp bc -> seg bc p code -> ip m = (lp, p) -> genv_rel6 mu rho m ->
    lrel6 mu lv m -> store_rel mu sg m -> (tail = true -> tframe m) ->
    ok_n6 mu sg' m lp (p + len code) r rho' \/ (tail = true /\ ok_t6 mu sg' m r rho').

Lemma exec6_n s0 p code lv sg rho r sg' rho' : exec6 s0 p code false lv sg rho r sg' rho' ->
  forall m mu lp bc, cext s0 m -> minv m -> code_in m lp bc -> seg bc p code -> ip m = (lp, p) -> genv_rel6 mu rho m ->
    lrel6 mu lv m -> store_rel mu sg m -> ok_n6 mu sg' m lp (p + len code) r rho'.
Proof.
  intros EX m mu lp bc X MI Hc Hs Hip G L SR.
  destruct (EX m mu lp bc X MI Hc Hs Hip G L SR ltac:(discriminate)) as [H|[H _]]; [exact H|discriminate].
Qed.
Lemma exec6_ext s s' p code tail lv sg rho r sg' rho' : cext s' s ->
  exec6 s' p code tail lv sg rho r sg' rho' -> exec6 s p code tail lv sg rho r sg' rho'.
Proof. intros Xs EX m mu lp bc Xm. apply EX. eapply cext_trans; eassumption. Qed.
End Exec6.

(* compilation: what the compile-time theorem provides *)
Definition compile_static6 (sc : list text) (e : expr6) : Prop :=
  forall f l tail s, (cell_size (cell_of6 e) < f)%nat -> hdr6 l sc s -> minv s ->
  exists l' s' code, compile_expression f l tail (cell_of6 e) s = ROk l' s' /\
    fwd l' = fwd l ++ code /\ same_hdr l l' /\ minv s' /\ cext s s' /\ same_regs s s' /\
    envs (st s') = envs (st s).
