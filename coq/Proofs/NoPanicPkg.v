(* NoPanicPkg.v — C06: the builtins of the work packages dispatched by [pkg_builtin]
   (Model/Builtins.v) before its last branch [lv_builtin], in the [npost okp] calculus of
   NoPanicBase.v: from a [wfm] state each of them ends (ROk or RErr) in a [wfm] state that
   [grow]s, returns a [vwf] value, and can only panic at a site k with [okp k].

   number.rs ([num_builtin f]) and number->string / string->number ([cell_builtin f]) are proved
   for ANY value-level f whose panics are at allowed sites ([fpok f] / [cpok f]); the dispatcher
   takes that fact for the functions of the table as the premise [num_panics_ok].            *)
From Coq Require Import Lia List String.
From MW Require Import Model.Base Model.F64 Model.Num Model.Datum Model.TransformDef Model.Transform
  Model.VmTypes Model.Heap Model.Gc Model.VmBase Model.Compile Model.Vm Model.Builtins
  Proofs.GcProofs Proofs.SymtabProofs Proofs.VmProofs0 Proofs.TailProofs Proofs.EnvProofs
  Proofs.FlatProofs Proofs.NoPanicBase Proofs.NoPanicPrims Proofs.NoPanicPrims2.
From MW Require Model.NumArith Model.NumProc Model.Str Model.SymbolB Model.Parse.
Open Scope N_scope.
Arguments N.add : simpl never.
Arguments N.sub : simpl never.
Arguments N.eqb : simpl never.
Arguments N.ltb : simpl never.
Arguments N.leb : simpl never.
Arguments N.mul : simpl never.

(* ------------------------------------------------------------------ lists of values *)
Definition lwf (s : vm) (l : list vcell) : Prop := forall j v, list_get l j = Some v -> vwf s v.

Lemma lwf_grow s s' l : grow0 s s' -> lwf s l -> lwf s' l.
Proof. intros G H j v E. eapply vwf_grow; [exact G|]. eapply H, E. Qed.
Lemma lwf_nil s : lwf s [].
Proof. intros j v E. unfold list_get in E. destruct (N.to_nat j); discriminate. Qed.
Lemma lwf_cons s x l : vwf s x -> lwf s l -> lwf s (x :: l).
Proof.
  intros Hx Hl j v E. unfold list_get in E. destruct (N.to_nat j) as [|n] eqn:En; cbn [nth_error] in E.
  - injection E as <-. exact Hx.
  - apply (Hl (N.of_nat n)). unfold list_get. rewrite Nnat.Nat2N.id. exact E.
Qed.
Lemma lwf_inv s x l : lwf s (x :: l) -> vwf s x /\ lwf s l.
Proof.
  intros H. split.
  - apply (H 0). reflexivity.
  - intros j v E. apply (H (N.succ j)). unfold list_get in *. rewrite Nnat.N2Nat.inj_succ. exact E.
Qed.
Lemma lwf_map_char s t : lwf s (map VChar t).
Proof.
  intros j v E. unfold list_get in E. rewrite nth_error_map in E.
  destruct (nth_error t (N.to_nat j)); [|discriminate]. injection E as <-. exact I.
Qed.

(* ------------------------------------------------------------------ pure computations *)
Definition pok {X} (o : out X) : Prop := forall k, o = Panic k -> okp k.

Lemma pok_ok {X} (a : X) : pok (Ok a).
Proof. intros k E. discriminate. Qed.
Lemma pok_err {X} e : pok (@Err X e).
Proof. intros k E. discriminate. Qed.
Lemma pok_nofuel {X} : pok (@NoFuel X).
Proof. intros k E. discriminate. Qed.
Lemma pok_panic {X} k : okp k -> pok (@Panic X k).
Proof. intros H k' E. injection E as <-. exact H. Qed.
Lemma pok_bind {X Y} (o : out X) (f : X -> out Y) : pok o -> (forall a, pok (f a)) -> pok (bind o f).
Proof.
  intros Ho Hf k E. destruct o as [a|e|k'|]; cbn [bind] in E; try discriminate.
  - eapply Hf, E.
  - injection E as <-. apply (Ho k'). reflexivity.
Qed.

(* one step of a [pok] goal: leaves, binds, and the matches/ifs in head position *)
Ltac pok_go :=
  repeat lazymatch goal with
  | |- pok (Ok _) => apply pok_ok
  | |- pok (Err _) => apply pok_err
  | |- pok NoFuel => apply pok_nofuel
  | |- pok (Panic _) => apply pok_panic; reflexivity
  | |- pok (bind _ _) => apply pok_bind; [|intros ?]
  | |- pok (let '(_, _) := ?p in _) => destruct p
  | |- pok (if ?c then _ else _) => destruct c
  | |- pok (match (if ?c then _ else _) with _ => _ end) => destruct c
  | |- pok (match ?v with _ => _ end) => destruct v
  | |- _ => solve [auto with pok]
  end.

Lemma pok_usize_sub a b : pok (Str.usize_sub a b).
Proof. unfold Str.usize_sub. pok_go. Qed.
Lemma pok_slice_bytes t a b : pok (Str.slice_bytes t a b).
Proof. unfold Str.slice_bytes. pok_go. Qed.
Lemma pok_replace_range t a b w : pok (Str.replace_range t a b w).
Proof. unfold Str.replace_range. pok_go. Qed.
Lemma pok_char_offset t i : pok (Str.char_offset t i).
Proof. unfold Str.char_offset. pok_go. Qed.
Lemma pok_char_offset_inclusive t i : pok (Str.char_offset_inclusive t i).
Proof. unfold Str.char_offset_inclusive. pok_go. Qed.
#[export] Hint Resolve pok_usize_sub pok_slice_bytes pok_replace_range pok_char_offset
  pok_char_offset_inclusive : pok.
Lemma pok_char_substring_offset t a b : pok (Str.char_substring_offset t a b).
Proof. unfold Str.char_substring_offset. cbv zeta. destruct a as [a|], b as [b|]; pok_go. Qed.
#[export] Hint Resolve pok_char_substring_offset : pok.
Lemma pok_substring_core t a b : pok (Str.substring_core t a b).
Proof. unfold Str.substring_core. pok_go. Qed.
Lemma pok_string_ref_core t i : pok (Str.string_ref_core t i).
Proof. unfold Str.string_ref_core. pok_go. Qed.
Lemma pok_string_set_core t i c : pok (Str.string_set_core t i c).
Proof. unfold Str.string_set_core. pok_go. Qed.
Lemma pok_string_fill_core t a b c : pok (Str.string_fill_core t a b c).
Proof. unfold Str.string_fill_core. cbv zeta. pok_go. Qed.

Lemma pok_parse_string_hex l : forall acc, pok (Parse.parse_string_hex l acc).
Proof. induction l as [|c r IH]; intros acc; cbn [Parse.parse_string_hex]; cbv zeta; pok_go. Qed.
#[export] Hint Resolve pok_parse_string_hex : pok.
Lemma pok_parse_string_fuel fuel : forall l acc, pok (Parse.parse_string_fuel fuel l acc).
Proof.
  induction fuel as [|f IH]; intros l acc; cbn [Parse.parse_string_fuel]; cbv zeta.
  - pok_go.
  - destruct l as [|c r]; [pok_go|]. destruct (c =? 92); [|apply IH].
    destruct r as [|e r2]; [pok_go|]. destruct (e =? 120); [|apply IH].
    apply pok_bind; [apply pok_parse_string_hex|]. intros [v r3]. destruct (is_scalar v); [apply IH|pok_go].
Qed.
Lemma pok_parse_string t : pok (Parse.parse_string t).
Proof. unfold Parse.parse_string. apply pok_bind; [apply pok_parse_string_fuel|]. intros a. pok_go. Qed.
Lemma pok_symbol_to_string y : pok (SymbolB.symbol_to_string y).
Proof. unfold SymbolB.symbol_to_string. apply pok_bind; [apply pok_parse_string|]. intros c. pok_go. Qed.
#[export] Hint Resolve pok_substring_core pok_string_ref_core pok_string_set_core pok_string_fill_core
  pok_symbol_to_string : pok.

(* ------------------------------------------------------------------ the calculus *)
Lemma pk_as_argc v s : wfm s -> npo s (as_argc v s) T_.
Proof.
  intros W. unfold as_argc. destruct v; first [apply npost_fail; exact W | apply npost_ret; [exact W|exact I]].
Qed.

(* transport the facts about values along a step *)
Ltac np_tr G :=
  lazymatch type of G with
  | grow ?s _ =>
      repeat match goal with
             | H : vwf s _ |- _ => apply (vwf_grow _ _ _ (grow_grow0 _ _ G)) in H
             | H : lwf s _ |- _ => apply (lwf_grow _ _ _ (grow_grow0 _ _ G)) in H
             end
  end.

(* the fact a primitive returns *)
Ltac np_q HQ :=
  cbv beta in HQ;
  lazymatch type of HQ with
  | V _ _ => unfold V in HQ
  | T_ _ _ => clear HQ
  | True => clear HQ
  | exists p, _ = VPtr p => let p := fresh "p" in destruct HQ as [p HQ]; rewrite HQ in *; clear HQ
  | forall j v, list_get ?l j = Some v -> vwf ?s v => change (lwf s l) in HQ
  | _ => idtac
  end.

Ltac np_vwf :=
  first [ assumption | exact I
        | match goal with |- vwf _ (of_res ?r) => destruct r; exact I end ].
Ltac np_lwf :=
  first [ assumption | apply lwf_nil | apply lwf_map_char
        | apply lwf_cons; [np_vwf|np_lwf] ].
Ltac np_side :=
  lazymatch goal with
  | |- wfm _ => assumption
  | |- vwf _ _ => np_vwf
  | |- V _ _ => unfold V; np_vwf
  | |- T_ _ _ => exact I
  | |- True => exact I
  | |- lwf _ _ => np_lwf
  | |- forall j v, list_get ?l j = Some v -> vwf ?s v => change (lwf s l); np_lwf
  | |- forall k, ?o = Panic k -> okp k => change (pok o); solve [auto with pok]
  | |- pok _ => solve [auto with pok]
  | |- okp _ => reflexivity
  | |- _ => idtac
  end.

#[export] Hint Extern 1 (wfm _) => assumption : npk.
#[export] Hint Extern 1 (vwf _ _) => np_vwf : npk.
#[export] Hint Extern 1 (lwf _ _) => np_lwf : npk.

Ltac np_leaf :=
  lazymatch goal with
  | |- npost _ ?s (ret _ ?s) _ => apply npost_ret; np_side
  | |- npost _ ?s (fail _ ?s) _ => apply npost_fail; assumption
  | |- npost _ ?s (fail_msg _ _ ?s) _ => apply npost_fail_msg; assumption
  | |- npost _ ?s (panic _ ?s) _ => apply npost_panic; reflexivity
  | |- npost _ ?s RNoFuel _ => exact I
  | |- npost _ ?s (get_vm ?s) _ => apply npost_get_vm; np_side
  | |- npost _ ?s (pop_raw ?s) _ => apply np_pop_raw; np_side
  | |- npost _ ?s (push _ ?s) _ => apply np_push; np_side
  | |- npost _ ?s (as_argc _ ?s) _ => apply pk_as_argc; np_side
  | |- npost _ ?s (pop_argc _ _ ?s) _ => apply np_pop_argc; np_side
  | |- npost _ ?s (pop_value ?s) _ => apply np_pop_value; np_side
  | |- npost _ ?s (pop_deref ?s) _ => apply np_pop_deref; np_side
  | |- npost _ ?s (pop_number ?s) _ => apply np_pop_number; np_side
  | |- npost _ ?s (pop_char ?s) _ => apply np_pop_char; np_side
  | |- npost _ ?s (pop_symbol ?s) _ => apply np_pop_symbol; np_side
  | |- npost _ ?s (pop_string ?s) _ => apply np_pop_string; np_side
  | |- npost _ ?s (pop_vector ?s) _ => apply np_pop_vector; np_side
  | |- npost _ ?s (hget _ ?s) _ => apply np_hget; np_side
  | |- npost _ ?s (hderef _ ?s) _ => apply np_hderef; np_side
  | |- npost _ ?s (hput _ ?s) _ => apply np_hput; np_side
  | |- npost _ ?s (hmaybe_put _ ?s) _ => apply np_hmaybe_put; np_side
  | |- npost _ ?s (as_ptr _ ?s) _ => apply np_as_ptr; np_side
  | |- npost _ ?s (str_get _ ?s) _ => apply np_str_get; np_side
  | |- npost _ ?s (str_set _ _ ?s) _ => apply np_str_set; np_side
  | |- npost _ ?s (str_new _ ?s) _ => apply np_str_new; np_side
  | |- npost _ ?s (vec_get _ ?s) _ => apply np_vec_get; np_side
  | |- npost _ ?s (vec_set _ _ ?s) _ => apply np_vec_set; np_side
  | |- npost _ ?s (vec_new _ ?s) _ => apply np_vec_new; np_side
  | |- npost _ ?s (to_cell _ ?s) _ => apply np_to_cell; np_side
  | |- npost _ ?s (lift _ ?s) _ => apply np_lift; np_side
  | |- _ => solve [eauto 4 with npk]
  end.

Ltac npa :=
  lazymatch goal with
  | |- npost _ ?s (bindM _ _ ?s) _ =>
      let a := fresh "a" in let s1 := fresh "s" in let W := fresh "W" in
      let G := fresh "G" in let HQ := fresh "HQ" in
      eapply npost_bind; [ npa | intros a s1 W G HQ; cbv beta; np_tr G; np_q HQ; npa ]
  | |- npost _ ?s ((if ?c then _ else _) ?s) _ => destruct c; npa
  | |- npost _ ?s ((match ?v with _ => _ end) ?s) _ => destruct v; npa
  | |- _ => np_leaf
  end.

(* ------------------------------------------------------------------ the poppers of Str.v *)
Lemma np_str_pop_integer s : wfm s -> npo s (Str.pop_integer s) T_.
Proof. intros W. unfold Str.pop_integer. npa. Qed.
Lemma np_str_pop_usize s : wfm s -> npo s (Str.pop_usize s) T_.
Proof. intros W. unfold Str.pop_usize. npa. Qed.
Lemma np_str_pop_index s : wfm s -> npo s (Str.pop_index s) T_.
Proof. intros W. unfold Str.pop_index. npa. Qed.
#[export] Hint Resolve np_str_pop_integer np_str_pop_usize np_str_pop_index : npk.
Lemma np_str_opt_pop_index b s : wfm s -> npo s (Str.opt_pop_index b s) T_.
Proof. intros W. unfold Str.opt_pop_index. npa. Qed.
#[export] Hint Resolve np_str_opt_pop_index : npk.

(* ------------------------------------------------------------------ number.rs *)
(* the panics of a value-level model are at allowed sites *)
Definition fpok (f : Num.profile -> list NumArith.arg -> out NumArith.res) : Prop :=
  forall args k, f Debug args = Panic k -> okp k.
Definition cpok (f : list cell -> out cell) : Prop := forall cs k, f cs = Panic k -> okp k.

Lemma np_pop_values k : forall acc0 s, wfm s -> npo s (pop_values k acc0 s) T_.
Proof. induction k as [|k IH]; intros acc0 s W; cbn [pop_values]; npa. Qed.
#[export] Hint Resolve np_pop_values : npk.

Lemma np_num_builtin f : fpok f -> forall s, wfm s -> npo s (num_builtin f s) V.
Proof.
  intros Hf s W. unfold num_builtin.
  eapply npost_bind; [npa|]. intros a s1 W1 G1 _. cbv beta.
  eapply npost_bind; [npa|]. intros argc s2 W2 G2 _. cbv beta.
  eapply npost_bind; [npa|]. intros vs s3 W3 G3 _. cbv beta.
  destruct (f Debug (map to_arg vs)) as [r|e|k|] eqn:E.
  - npa.
  - npa.
  - apply npost_panic. eapply Hf, E.
  - exact I.
Qed.

(* ------------------------------------------------------------------ number->string / string->number *)
Lemma np_pop_cells k : forall acc0 s, wfm s -> npo s (pop_cells k acc0 s) T_.
Proof. induction k as [|k IH]; intros acc0 s W; cbn [pop_cells]; npa. Qed.
#[export] Hint Resolve np_pop_cells : npk.

(* the cell a [cell_builtin] function answers is stored by maybe_put_cell: it must be a datum (site 12) *)
Definition cdat (f : list cell -> out cell) : Prop := forall cs r, f cs = Ok r -> cell_is_datum r = true.
Lemma cdat_number_string : cdat NumProc.number_string.
Proof.
  intros cs r. unfold NumProc.number_string.
  destruct cs as [|z [|rd [|]]]; try discriminate.
  - destruct z; try discriminate. destruct (NumProc.number_to_text _ _); cbn [bind]; try discriminate.
    intros [= <-]. reflexivity.
  - destruct (NumProc.pop_usize rd); cbn [bind]; try discriminate.
    destruct z; try discriminate. destruct (NumProc.number_to_text _ _); cbn [bind]; try discriminate.
    intros [= <-]. reflexivity.
Qed.
Lemma cdat_string_to_number p t radix r : NumProc.string_to_number p t radix = Ok r -> cell_is_datum r = true.
Proof.
  unfold NumProc.string_to_number. destruct (_ || _); [discriminate|].
  destruct (NumFmt.parse_with_exactness_p _ _ _ _) as [[n|]| | |]; cbn [bind]; try discriminate; intros [= <-]; reflexivity.
Qed.
Lemma cdat_string_number : cdat NumProc.string_number.
Proof.
  intros cs r. unfold NumProc.string_number.
  destruct cs as [|z [|rd [|]]]; try discriminate.
  - destruct z; try discriminate. apply cdat_string_to_number.
  - destruct (NumProc.pop_usize rd); cbn [bind]; try discriminate.
    destruct (_ || _); [discriminate|]. destruct z; try discriminate. apply cdat_string_to_number.
Qed.

Lemma np_cell_builtin_with f :
  (forall c s, cell_is_datum c = true -> wfm s -> npo s (maybe_put_cell_m c s) V) ->
  cpok f -> cdat f -> forall s, wfm s -> npo s (cell_builtin f s) V.
Proof.
  intros Hput Hf Hd s W. unfold cell_builtin.
  eapply npost_bind; [npa|]. intros a s1 W1 G1 _. cbv beta.
  eapply npost_bind; [npa|]. intros argc s2 W2 G2 _. cbv beta.
  eapply npost_bind; [npa|]. intros cs s3 W3 G3 _. cbv beta.
  pose proof (Hd cs) as Hr. pose proof (Hf cs) as Hk.
  unfold bindM, lift. destruct (f cs) as [r|e|k|]; cbv beta iota.
  - apply Hput; [apply Hr; reflexivity|exact W3].
  - cbn [npost]. split; [exact W3|apply grow_refl].
  - apply Hk. reflexivity.
  - exact I.
Qed.

(* ------------------------------------------------------------------ string.rs *)
Lemma np_string_append_loop n : forall output s, wfm s -> npo s (Str.string_append_loop n output s) T_.
Proof. induction n as [|n IH]; intros output s W; cbn [Str.string_append_loop]; npa. Qed.
#[export] Hint Resolve np_string_append_loop : npk.
Lemma np_string_append s : wfm s -> npo s (Str.string_append s) V.
Proof. intros W. unfold Str.string_append. npa. Qed.

Lemma np_string_length s : wfm s -> npo s (Str.string_length s) V.
Proof. intros W. unfold Str.string_length. npa. Qed.
Lemma np_string_downcase s : wfm s -> npo s (Str.string_downcase s) V.
Proof. intros W. unfold Str.string_downcase. npa. Qed.
Lemma np_string_upcase s : wfm s -> npo s (Str.string_upcase s) V.
Proof. intros W. unfold Str.string_upcase. npa. Qed.
Lemma np_string_foldcase s : wfm s -> npo s (Str.string_foldcase s) V.
Proof. intros W. unfold Str.string_foldcase. npa. Qed.
Lemma np_string_ref s : wfm s -> npo s (Str.string_ref s) V.
Proof. intros W. unfold Str.string_ref. npa. Qed.

Lemma np_chars_to_list r : forall l s, wfm s -> vwf s l -> npo s (Str.chars_to_list r l s) V.
Proof. induction r as [|c r IH]; intros l s W Hl; cbn [Str.chars_to_list]; npa. Qed.
#[export] Hint Resolve np_chars_to_list : npk.
Lemma np_string_list s : wfm s -> npo s (Str.string_list s) V.
Proof. intros W. unfold Str.string_list. npa. Qed.

Lemma np_string_vector s : wfm s -> npo s (Str.string_vector s) V.
Proof. intros W. unfold Str.string_vector. npa. Qed.

Lemma np_vector_string_loop l : forall s0 s, wfm s -> lwf s l -> npo s (Str.vector_string_loop l s0 s) T_.
Proof.
  induction l as [|x r IH]; intros s0 s W Hl; cbn [Str.vector_string_loop]; [npa|].
  apply lwf_inv in Hl as [Hx Hr]. npa.
Qed.
#[export] Hint Resolve np_vector_string_loop : npk.
Lemma np_vector_string s : wfm s -> npo s (Str.vector_string s) V.
Proof. intros W. unfold Str.vector_string. npa. Qed.

Lemma np_list_string_loop fuel : forall rest s0 s, wfm s -> npo s (Str.list_string_loop fuel rest s0 s) T_.
Proof. induction fuel as [|fuel IH]; intros rest s0 s W; cbn [Str.list_string_loop]; npa. Qed.
#[export] Hint Resolve np_list_string_loop : npk.
Lemma np_list_string s : wfm s -> npo s (Str.list_string s) V.
Proof. intros W. unfold Str.list_string. npa. Qed.

Lemma np_string_copy s : wfm s -> npo s (Str.string_copy s) V.
Proof. intros W. unfold Str.string_copy. npa. Qed.
Lemma np_string_fill s : wfm s -> npo s (Str.string_fill s) V.
Proof. intros W. unfold Str.string_fill. npa. Qed.
Lemma np_string_set s : wfm s -> npo s (Str.string_set s) V.
Proof. intros W. unfold Str.string_set. npa. Qed.
Lemma np_make_string s : wfm s -> npo s (Str.make_string s) V.
Proof.
  intros W. unfold Str.make_string.
  eapply npost_bind; [npa|]. intros argc s1 W1 G1 _. cbv beta.
  eapply npost_bind with (Q := T_).
  { destruct (argc =? 1); [apply npost_ret; [exact W1|exact I]|apply np_pop_char, W1]. }
  intros c s2 W2 G2 _. cbv beta. npa.
Qed.

Lemma np_string_loop n : forall v s, wfm s -> npo s (Str.string_loop n v s) T_.
Proof. induction n as [|n IH]; intros v s W; cbn [Str.string_loop]; npa. Qed.
#[export] Hint Resolve np_string_loop : npk.
Lemma np_string_ s : wfm s -> npo s (Str.string_ s) V.
Proof. intros W. unfold Str.string_. npa. Qed.

Lemma np_string_comp_loop comp n : forall y result s, wfm s -> npo s (Str.string_comp_loop comp n y result s) T_.
Proof. induction n as [|n IH]; intros y result s W; cbn [Str.string_comp_loop]; npa. Qed.
#[export] Hint Resolve np_string_comp_loop : npk.
Lemma np_string_comp comp s : wfm s -> npo s (Str.string_comp comp s) V.
Proof. intros W. unfold Str.string_comp. npa. Qed.
Lemma np_string_cmp o s : wfm s -> npo s (Str.string_cmp o s) V.
Proof. apply np_string_comp. Qed.
Lemma np_string_ci_cmp o s : wfm s -> npo s (Str.string_ci_cmp o s) V.
Proof. apply np_string_comp. Qed.

(* ------------------------------------------------------------------ char.rs *)
Lemma np_char_pred p s : wfm s -> npo s (Str.char_pred p s) V.
Proof. intros W. unfold Str.char_pred. npa. Qed.
Lemma np_integer_to_char s : wfm s -> npo s (Str.integer_to_char s) V.
Proof. intros W. unfold Str.integer_to_char. npa. Qed.
Lemma np_char_to_integer s : wfm s -> npo s (Str.char_to_integer s) V.
Proof. intros W. unfold Str.char_to_integer. npa. Qed.
Lemma np_char_map f s : wfm s -> npo s (Str.char_map f s) V.
Proof. intros W. unfold Str.char_map. npa. Qed.
Lemma np_digit_value s : wfm s -> npo s (Str.digit_value s) V.
Proof. intros W. unfold Str.digit_value. npa. Qed.
Lemma np_char_comp_loop comp n : forall y result s, wfm s -> npo s (Str.char_comp_loop comp n y result s) T_.
Proof. induction n as [|n IH]; intros y result s W; cbn [Str.char_comp_loop]; npa. Qed.
#[export] Hint Resolve np_char_comp_loop : npk.
Lemma np_char_comp comp s : wfm s -> npo s (Str.char_comp comp s) V.
Proof. intros W. unfold Str.char_comp. npa. Qed.
Lemma np_char_cmp o s : wfm s -> npo s (Str.char_cmp o s) V.
Proof. apply np_char_comp. Qed.
Lemma np_char_ci_cmp o s : wfm s -> npo s (Str.char_ci_cmp o s) V.
Proof. apply np_char_comp. Qed.

(* prelude substring and the CALL of a builtin (end of Str.v) *)
Lemma np_substring nargs s : wfm s -> npo s (Str.substring nargs s) V.
Proof. intros W. unfold Str.substring. destruct (nargs =? 3); [apply np_string_copy, W|apply npost_fail, W]. Qed.
Lemma np_push_all l : forall s, wfm s -> lwf s l -> npo s (Str.push_all l s) T_.
Proof.
  induction l as [|v r IH]; intros s W Hl; cbn [Str.push_all]; [npa|].
  apply lwf_inv in Hl as [Hv Hr]. npa.
Qed.

(* ------------------------------------------------------------------ symbol.rs *)
Lemma np_b_string_symbol s : wfm s -> npo s (b_string_symbol s) V.
Proof. intros W. unfold b_string_symbol. npa. Qed.
Lemma np_b_symbol_string s : wfm s -> npo s (b_symbol_string s) V.
Proof. intros W. unfold b_symbol_string. npa. Qed.
Lemma np_symbol_eq_loop k : forall y result s, wfm s -> npo s (symbol_eq_loop k y result s) T_.
Proof. induction k as [|k IH]; intros y result s W; cbn [symbol_eq_loop]; npa. Qed.
#[export] Hint Resolve np_symbol_eq_loop : npk.
Lemma np_b_symbol_eq s : wfm s -> npo s (b_symbol_eq s) V.
Proof. intros W. unfold b_symbol_eq. npa. Qed.
Lemma np_run_builtin f args s :
  (forall s', wfm s' -> npo s' (f s') V) -> wfm s -> lwf s args -> npo s (Str.run_builtin f args s) V.
Proof.
  intros Hf W Hl. unfold Str.run_builtin.
  eapply npost_bind; [apply np_push_all; assumption|]. intros a s1 W1 G1 _. cbv beta.
  eapply npost_bind; [apply np_push; [exact W1|exact I]|]. intros b s2 W2 G2 _. cbv beta.
  apply Hf, W2.
Qed.

(* ------------------------------------------------------------------ the dispatch *)
(* the premise about the value-level numeric models (Model/NumArith.v, NumProc.v; their panic
   sites are the constants 20-23 of NumFmt.v and 200-207 of Ratio32.v / NumArith.v): every
   function the table of [pkg_builtin] passes to [num_builtin] / [cell_builtin] can only
   panic at a site outside the excluded set.  All constructors of the operator types
   (cmpop, upred, idivop, unop, bool) occur in the table, so the quantified fields say
   nothing more than the table needs. *)
Record num_panics_ok : Prop := {
  npk_plus : fpok NumArith.b_plus;
  npk_multiply : fpok NumArith.b_multiply;
  npk_minus : fpok NumArith.b_minus;
  npk_divide : fpok NumArith.b_divide;
  npk_num_comp : forall o, fpok (NumArith.b_num_comp o);
  npk_upred : forall u, fpok (NumArith.b_upred u);
  npk_intdiv : forall o, fpok (NumArith.b_intdiv o);
  npk_expt : fpok NumArith.b_expt;
  npk_unary : forall u, fpok (NumArith.b_unary u);
  npk_minmax : forall m, fpok (NumArith.b_minmax m);
  npk_number_string : cpok NumProc.number_string;
  npk_string_number : cpok NumProc.string_number
}.

Theorem np_pkg_builtin_with :
  (forall c s, cell_is_datum c = true -> wfm s -> npo s (maybe_put_cell_m c s) V) ->
  num_panics_ok ->
  (forall b s, wfm s -> npo s (lv_builtin b s) V) ->
  forall b s, wfm s -> npo s (pkg_builtin b s) V.
Proof.
  intros Hput [N1 N2 N3 N4 N5 N6 N7 N8 N9 N10 N11 N12] Hlv b s W. unfold pkg_builtin. cbv zeta.
  repeat match goal with
         | |- npost _ _ ((if ?c then _ else _) _) _ => destruct c
         end;
    lazymatch goal with
    | |- npost _ _ (num_builtin _ _) _ => apply np_num_builtin; [solve [auto]|exact W]
    | |- npost _ _ (cell_builtin _ _) _ =>
        apply np_cell_builtin_with; [exact Hput|assumption|first [exact cdat_number_string|exact cdat_string_number]|exact W]
    | |- npost _ _ (lv_builtin _ _) _ => apply Hlv, W
    | |- npost _ _ (Str.string_length _) _ => apply np_string_length, W
    | |- npost _ _ (Str.string_ref _) _ => apply np_string_ref, W
    | |- npost _ _ (Str.string_set _) _ => apply np_string_set, W
    | |- npost _ _ (Str.string_copy _) _ => apply np_string_copy, W
    | |- npost _ _ (Str.string_fill _) _ => apply np_string_fill, W
    | |- npost _ _ (Str.string_list _) _ => apply np_string_list, W
    | |- npost _ _ (Str.string_vector _) _ => apply np_string_vector, W
    | |- npost _ _ (Str.vector_string _) _ => apply np_vector_string, W
    | |- npost _ _ (Str.list_string _) _ => apply np_list_string, W
    | |- npost _ _ (Str.string_ _) _ => apply np_string_, W
    | |- npost _ _ (Str.make_string _) _ => apply np_make_string, W
    | |- npost _ _ (Str.string_append _) _ => apply np_string_append, W
    | |- npost _ _ (Str.string_cmp _ _) _ => apply np_string_cmp, W
    | |- npost _ _ (Str.string_ci_cmp _ _) _ => apply np_string_ci_cmp, W
    | |- npost _ _ (Str.string_upcase _) _ => apply np_string_upcase, W
    | |- npost _ _ (Str.string_downcase _) _ => apply np_string_downcase, W
    | |- npost _ _ (Str.string_foldcase _) _ => apply np_string_foldcase, W
    | |- npost _ _ (Str.char_to_integer _) _ => apply np_char_to_integer, W
    | |- npost _ _ (Str.integer_to_char _) _ => apply np_integer_to_char, W
    | |- npost _ _ (Str.char_is_alphabetic _) _ => apply np_char_pred, W
    | |- npost _ _ (Str.char_is_numeric _) _ => apply np_char_pred, W
    | |- npost _ _ (Str.char_is_whitespace _) _ => apply np_char_pred, W
    | |- npost _ _ (Str.char_is_upper_case _) _ => apply np_char_pred, W
    | |- npost _ _ (Str.char_is_lower_case _) _ => apply np_char_pred, W
    | |- npost _ _ (Str.char_upcase _) _ => apply np_char_map, W
    | |- npost _ _ (Str.char_downcase _) _ => apply np_char_map, W
    | |- npost _ _ (Str.char_foldcase _) _ => apply np_char_map, W
    | |- npost _ _ (Str.digit_value _) _ => apply np_digit_value, W
    | |- npost _ _ (Str.char_cmp _ _) _ => apply np_char_cmp, W
    | |- npost _ _ (Str.char_ci_cmp _ _) _ => apply np_char_ci_cmp, W
    | |- npost _ _ (b_string_symbol _) _ => apply np_b_string_symbol, W
    | |- npost _ _ (b_symbol_string _) _ => apply np_b_symbol_string, W
    | |- npost _ _ (b_symbol_eq _) _ => apply np_b_symbol_eq, W
    end.
Qed.

Theorem np_other_builtin_with :
  (forall c s, cell_is_datum c = true -> wfm s -> npo s (maybe_put_cell_m c s) V) ->
  num_panics_ok ->
  (forall b s, wfm s -> npo s (lv_builtin b s) V) ->
  forall b s, wfm s -> npo s (other_builtin b s) V.
Proof. exact np_pkg_builtin_with. Qed.

Print Assumptions np_pkg_builtin_with.
