(* ExpandProofs.v — the template instantiator [expand] of Model/Transform.v (transform.rs
   expand / get_expanded_binding with its per-variable cursors) equals the specification's
   [sinst] (Model/SRSpec.v) on S_tmpl ([tmpl_ok]), within [expand_fuel], and leaves every
   cursor reset.  Then the whole pipeline on the supported fragment (C17_main).        *)
From Coq Require Import String Lia.
From MW Require Import Model.Base Model.F64 Model.Num Model.Datum Model.TransformDef
  Model.Transform Model.SRSpec Proofs.TransformProofs.
Open Scope N_scope.

Arguments N.add : simpl never.
Arguments N.sub : simpl never.
Arguments N.eqb : simpl never.
Arguments N.ltb : simpl never.
Arguments N.leb : simpl never.

(* ------------------------------------------------------------ unfolding lemmas *)
Lemma expand_S : forall ell p bs f t its,
  expand ell p bs (S f) t its =
  match t with
  | CSym _ => if is_variable p t then get_binding p bs its t else Ok (Some t, its)
  | CPair _ _ => match elems t with
                 | [] => Panic 447
                 | t0 :: tit => expand_loop ell p bs f t0 tit [] its
                 end
  | c => Ok (Some c, its)
  end.
Proof. reflexivity. Qed.

Lemma expand_loop_S : forall ell p bs f t tit v its,
  expand_loop ell p bs (S f) t tit v its =
  (do (r, its1) <- expand ell p bs f t its;
   match r with
   | Some c =>
       if peek_is ell tit then expand_loop ell p bs f t tit (v ++ [c]) its1
       else match tit with
            | t' :: tit' => expand_loop ell p bs f t' tit' (v ++ [c]) its1
            | [] => Ok (Some (new_list (v ++ [c])), its1)
            end
   | None =>
       if negb (peek_is ell tit) then Ok (None, its1)
       else match tl tit with
            | t' :: tit' => expand_loop ell p bs f t' tit' v its1
            | [] => Ok (Some (new_list v), its1)
            end
   end).
Proof. reflexivity. Qed.

(* ------------------------------------------------------------ symbols and cell_eqb *)
Lemma text_eqb_eq : forall a b, text_eqb a b = true -> a = b.
Proof. intros a b. unfold text_eqb. destruct (list_eq_dec N.eq_dec a b); congruence. Qed.

Lemma cell_eqb_sym_r : forall k s, cell_eqb k (CSym s) = true -> k = CSym s.
Proof. destruct k; simpl; intros s0 H; try discriminate. apply text_eqb_eq in H. congruence. Qed.

Lemma cell_eqb_sym_l : forall k s, cell_eqb (CSym s) k = true -> k = CSym s.
Proof. destruct k; simpl; intros s0 H; try discriminate. apply text_eqb_eq in H. congruence. Qed.

Lemma cell_eqb_symm_sym : forall k x, is_symbol x = true -> cell_eqb x k = cell_eqb k x.
Proof.
  intros k x Hx. destruct x; try discriminate.
  destruct (cell_eqb (CSym s) k) eqn:E1.
  - apply cell_eqb_sym_l in E1. subst k. symmetry. apply cell_eqb_sym_refl. reflexivity.
  - destruct (cell_eqb k (CSym s)) eqn:E2; auto.
    apply cell_eqb_sym_r in E2. subst k. rewrite cell_eqb_sym_refl in E1; [discriminate|reflexivity].
Qed.

(* ------------------------------------------------------------ bindings without a key *)
Definition nokey (x : cell) (l : bindings) : bool :=
  forallb (fun kv => negb (cell_eqb (fst kv) x)) l.

Lemma nokey_app : forall x a b, nokey x (a ++ b) = nokey x a && nokey x b.
Proof. intros. unfold nokey. apply forallb_app. Qed.

Lemma find_binding_nokey : forall x l k, nokey x l = true -> find_binding l x k = None.
Proof.
  induction l as [|[p e] r IH]; intros k H; simpl in *; auto.
  apply andb_prop in H. destruct H as [H1 H2]. apply negb_true_iff in H1. rewrite H1. auto.
Qed.

Lemma find_binding_app : forall x pre l k, nokey x pre = true ->
  find_binding (pre ++ l) x k = find_binding l x (k + N.of_nat (length pre)).
Proof.
  induction pre as [|[p e] r IH]; intros l k H.
  - simpl. f_equal. lia.
  - simpl in H. apply andb_prop in H. destruct H as [H1 H2]. apply negb_true_iff in H1.
    cbn [app find_binding]. rewrite H1. rewrite IH by exact H2. f_equal. cbn [length]. lia.
Qed.

(* ------------------------------------------------------------ cursors *)
Lemma iters_find_set : forall its x v0 v, iters_find its x = Some v0 ->
  iters_find (iters_set its x v) x = Some v.
Proof.
  induction its as [|[k w] r IH]; intros x v0 v H; simpl in *; [discriminate|].
  destruct (cell_eqb k x) eqn:E; simpl; rewrite E; eauto.
Qed.

Lemma iters_set_set : forall its x v w, iters_set (iters_set its x v) x w = iters_set its x w.
Proof.
  induction its as [|[k u] r IH]; intros x v w; simpl; auto.
  destruct (cell_eqb k x) eqn:E; simpl; rewrite E; congruence.
Qed.

Lemma iters_set_id : forall its x v, iters_find its x = Some v -> iters_set its x v = its.
Proof.
  induction its as [|[k u] r IH]; intros x v H; simpl in *; auto.
  destruct (cell_eqb k x) eqn:E; [congruence|]. rewrite IH; auto.
Qed.

Lemma iters_find_new : forall x l, mem_cell x l = true ->
  iters_find (map (fun it => (it, @None N)) l) x = Some None.
Proof.
  induction l as [|a l IH]; simpl; intros H; [discriminate|].
  destruct (cell_eqb a x); auto.
Qed.

(* ------------------------------------------------------------ the flat environment *)
Lemma flat_binding_many : forall x fs, flat_binding x (BMany (map BOne fs)) = map (pair x) fs.
Proof. intros. simpl. induction fs; simpl; congruence. Qed.

Lemma nokey_flat_binding : forall x k b, cell_eqb k x = false -> nokey x (flat_binding k b) = true.
Proof.
  intros x k b H. destruct b as [c|l]; simpl.
  - rewrite H. reflexivity.
  - induction l as [|[c|l'] r IH]; simpl; auto. rewrite H. simpl. exact IH.
Qed.

Lemma nokey_flat : forall x (e : senv), mem_cell x (map fst e) = false -> nokey x (flat e) = true.
Proof.
  induction e as [|[k b] r IH]; intros H; simpl in *; auto.
  apply orb_false_iff in H. destruct H as [H1 H2].
  unfold flat in *. cbn [flat_map fst snd]. rewrite nokey_app, nokey_flat_binding, IH; auto.
Qed.

Lemma flat_cons : forall k b r, flat ((k, b) :: r) = flat_binding k b ++ flat r.
Proof. reflexivity. Qed.

Lemma flat_split : forall x b (e : senv), is_symbol x = true -> no_dup (map fst e) = true ->
  slookup e x = Some b ->
  exists pre post, flat e = pre ++ flat_binding x b ++ post /\ nokey x pre = true /\ nokey x post = true.
Proof.
  intros x b e Hx. induction e as [|[k b0] r IH]; intros Hnd Hl; [discriminate|].
  cbn [map fst no_dup] in Hnd. apply andb_prop in Hnd. destruct Hnd as [Hk Hnd]. apply negb_true_iff in Hk.
  cbn [slookup] in Hl. rewrite flat_cons.
  destruct (cell_eqb k x) eqn:E.
  - destruct x; try discriminate. apply cell_eqb_sym_r in E. subst k. inversion Hl; subst b0.
    exists [], (flat r). split; [reflexivity|]. split; [reflexivity|]. apply nokey_flat. exact Hk.
  - destruct (IH Hnd Hl) as (pre & post & Hf & Hpre & Hpost).
    exists (flat_binding k b0 ++ pre), post. split; [|split; auto].
    + rewrite Hf. rewrite <- app_assoc. reflexivity.
    + rewrite nokey_app, nokey_flat_binding, Hpre; auto.
Qed.

(* ------------------------------------------------------------ the specification side *)
Lemma sapp_ok : forall fs r, sapp (map SOk fs) (SOk r) = SOk (mk_list fs r).
Proof. induction fs; intros r; simpl; auto. rewrite IHfs. reflexivity. Qed.

Lemma elems_mk_list : forall fs r, elems (mk_list fs r) = fs ++ elems r.
Proof. induction fs; intros r; simpl; congruence. Qed.

Lemma last_cdr_mk_list : forall fs r, last_cdr (mk_list fs r) = last_cdr r.
Proof. induction fs; intros r; simpl; auto. Qed.

Lemma map_nth_seq : forall A (d : A) (l : list A), map (fun i => nth i l d) (seq 0 (length l)) = l.
Proof.
  intros A d. induction l as [|a l IH]; simpl; auto.
  f_equal. rewrite <- seq_shift, map_map. exact IH.
Qed.

Lemma slookup_project : forall x l i (e : senv), is_symbol x = true ->
  slookup e x = Some (BMany l) ->
  slookup (project e [x] i) x = Some (nth i l (BMany [])).
Proof.
  intros x l i e Hx. induction e as [|[k b] r IH]; intros H; [discriminate|].
  cbn [slookup] in H. cbn [project map fst snd].
  destruct (cell_eqb k x) eqn:E.
  - inversion H; subst b. destruct x; try discriminate. apply cell_eqb_sym_r in E. subst k.
    cbn [mem_cell existsb]. rewrite cell_eqb_sym_refl by reflexivity. cbn [orb slookup].
    rewrite cell_eqb_sym_refl by reflexivity. reflexivity.
  - assert (Hs : forall b', slookup ((k, b') :: project r [x] i) x = slookup (project r [x] i) x).
    { intros b'. cbn [slookup]. rewrite E. reflexivity. }
    destruct (mem_cell k [x]); cbn [fst]; rewrite Hs; apply IH; exact H.
Qed.

Section ExpandSound.
Variable ell : cell.
Variable pat : pattern.
Variable se : senv.
Hypothesis Hell : is_symbol ell = true.
Hypothesis Hvar : forall x, is_symbol x = true ->
  is_variable pat x = true <-> exists b, slookup se x = Some b.
Hypothesis Hexp : forall x, is_symbol x = true ->
  is_expanded_variable pat x = true <-> exists l, slookup se x = Some (BMany l).
Hypothesis Hnd : no_dup (map fst se) = true.
Hypothesis Hdepth1 : forall x l, slookup se x = Some (BMany l) -> exists fs, l = map BOne fs.

Notation bs := (flat se).
Notation E0 := (env_new pat).
Notation isexp := (is_expanded_variable pat).

Lemma ell_refl' : cell_eqb ell ell = true.
Proof. apply cell_eqb_sym_refl. exact Hell. Qed.

(* ---- an ellipsis variable followed by the ellipsis: one item per round, then the cursor
   is reset and the loop goes on after the ellipsis *)
Lemma ell_run : forall x, is_symbol x = true ->
  is_variable pat x = true -> is_expanded_variable pat x = true ->
  forall fs pre1 pre2 post its pos v G rest,
  bs = pre1 ++ pre2 ++ map (pair x) fs ++ post ->
  nokey x pre2 = true -> nokey x post = true ->
  iters_find its x = Some pos ->
  match pos with Some p => p | None => 0 end = N.of_nat (length pre1) ->
  expand_loop ell pat bs (S (length fs) + S G) x (ell :: rest) v its =
  match rest with
  | t' :: tit' => expand_loop ell pat bs (S G) t' tit' (v ++ fs) (iters_set its x None)
  | [] => Ok (Some (new_list (v ++ fs)), iters_set its x None)
  end.
Proof.
  intros x Hx Hv He.
  assert (Hgeb : forall f its, expand ell pat bs (S f) x its = get_expanded_binding bs its x).
  { intros f its. rewrite expand_S. destruct x; try discriminate. rewrite Hv. unfold get_binding.
    rewrite Hv, He. reflexivity. }
  induction fs as [|f0 fs IH]; intros pre1 pre2 post its pos v G rest Hbs Hp2 Hpost Hfind Hstart.
  - cbn [length Nat.add]. rewrite expand_loop_S, Hgeb.
    unfold get_expanded_binding. rewrite Hfind, Hstart.
    replace (N.of_nat (length bs) <? N.of_nat (length pre1)) with false.
    2:{ symmetry. apply N.ltb_ge. rewrite Hbs, app_length. lia. }
    rewrite Nat2N.id. rewrite Hbs at 1. rewrite skipn_app, skipn_all, Nat.sub_diag. cbn [skipn app map].
    rewrite find_binding_nokey by (rewrite nokey_app, Hp2, Hpost; reflexivity).
    cbn [bind peek_is]. rewrite ell_refl'. cbn [negb tl]. rewrite app_nil_r. reflexivity.
  - cbn [length Nat.add]. rewrite expand_loop_S, Hgeb.
    unfold get_expanded_binding. rewrite Hfind, Hstart.
    replace (N.of_nat (length bs) <? N.of_nat (length pre1)) with false.
    2:{ symmetry. apply N.ltb_ge. rewrite Hbs, app_length. lia. }
    rewrite Nat2N.id. rewrite Hbs at 1. rewrite skipn_app, skipn_all, Nat.sub_diag. cbn [skipn app map].
    rewrite find_binding_app by exact Hp2. cbn [find_binding].
    rewrite cell_eqb_sym_refl by exact Hx.
    cbn [bind peek_is]. rewrite ell_refl'.
    change (S (length fs + S G))%nat with (S (length fs) + S G)%nat.
    rewrite (IH (pre1 ++ pre2 ++ [(x, f0)]) [] post _ (Some (N.of_nat (length pre1) + (0 + N.of_nat (length pre2)) + 1))).
    + rewrite iters_set_set. rewrite <- app_assoc. reflexivity.
    + rewrite Hbs. rewrite <- !app_assoc. reflexivity.
    + reflexivity.
    + exact Hpost.
    + eapply iters_find_set. exact Hfind.
    + rewrite !app_length. cbn [length]. lia.
Qed.

(* ---- the specification on [x <ellipsis> . rest] for an ellipsis variable of depth 1 *)
Lemma sinst_ell_var : forall s fs e d',
  s_is_ell ell (CSym s) = false -> s_is_ell ell e = true -> starts_with_ell ell d' = false ->
  slookup se (CSym s) = Some (BMany (map BOne fs)) ->
  sinst ell (CPair (CSym s) (CPair e d')) se = sapp (map SOk fs) (sinst ell d' se).
Proof.
  intros s fs e d' Hx He Hd Hl.
  change (sinst ell (CPair (CSym s) (CPair e d')) se) with
    (if s_is_ell ell (CSym s) then SRSpec.SErr else
     if s_is_ell ell e then
       (if starts_with_ell ell d' then SRSpec.SErr
        else match drivers se (CSym s) with
             | [] => SRSpec.SErr
             | ds => match common_len se ds with
                     | None => SExcl
                     | Some n => sapp (map (fun i => sinst ell (CSym s) (project se ds i)) (seq 0 n)) (sinst ell d' se)
                     end
             end)
     else scons (sinst ell (CSym s) se) (sinst ell (CPair e d') se)).
  rewrite Hx, He, Hd.
  assert (Hdr : drivers se (CSym s) = [CSym s]).
  { unfold drivers. cbn [tsyms dedup mem_cell existsb filter]. rewrite Hl. reflexivity. }
  rewrite Hdr. cbn [common_len]. unfold seq_len. rewrite Hl, map_length.
  f_equal.
  rewrite <- (map_nth_seq _ CNil fs) at 2. rewrite map_map.
  apply map_ext_in. intros i Hi. apply in_seq in Hi.
  cbn [sinst]. rewrite (slookup_project (CSym s) (map BOne fs) i se eq_refl Hl).
  rewrite (nth_indep _ (BMany []) (BOne CNil)) by (rewrite map_length; lia).
  rewrite map_nth. reflexivity.
Qed.

(* ---- identifiers that are not ellipsis variables *)
Lemma leaf_sound : forall s, isexp (CSym s) = false ->
  exists c, sinst ell (CSym s) se = SOk c /\
  forall f its, expand ell pat bs (S f) (CSym s) its = Ok (Some c, its).
Proof.
  intros s Hne. destruct (is_variable pat (CSym s)) eqn:Ev.
  - destruct (proj1 (Hvar (CSym s) eq_refl) Ev) as [b Hb]. destruct b as [c|l].
    + destruct (flat_split (CSym s) (BOne c) se eq_refl Hnd Hb) as (pre & post & Hf & Hpre & Hpost).
      exists c. eapply leaf_plain_variable; eauto.
      rewrite Hf, find_binding_app by exact Hpre. cbn [flat_binding app find_binding].
      rewrite cell_eqb_sym_refl by reflexivity. reflexivity.
    + exfalso. assert (H : isexp (CSym s) = true) by (apply Hexp; eauto). congruence.
  - exists (CSym s). apply leaf_not_variable; auto.
    destruct (slookup se (CSym s)) as [b|] eqn:Hb; auto.
    assert (H : is_variable pat (CSym s) = true) by (apply Hvar; eauto). congruence.
Qed.

(* ---- the main induction: lists are walked by expand_loop with every cursor reset
   between elements; fuel [cell_size t * (length bs + 2)] *)
Lemma expand_sound_sized : forall t, tmpl_ok isexp ell false t = true ->
  exists c, sinst ell t se = SOk c /\
  forall f, (cell_size t * S (S (length bs)) <= f)%nat -> expand ell pat bs f t E0 = Ok (Some c, E0).
Proof.
  induction t as [t IH] using cell_size_ind. intros Hok.
  destruct t as [b|ch| |n|t1 rest|s|s|l| | |pr| |];
    try (eexists; split; [reflexivity|]; intros f Hf; destruct f; [simpl in Hf; lia|reflexivity]).
  - (* a list: walk the chain *)
    assert (Hchain : forall c, (cell_size c <= cell_size (CPair t1 rest))%nat -> is_pair c = true ->
              tmpl_ok isexp ell false c = true ->
              exists cs, sinst ell c se = SOk cs /\ last_cdr cs = CNil /\
              forall f v, (cell_size c * S (S (length bs)) <= S f)%nat ->
                match elems c with
                | t0 :: tit => expand_loop ell pat bs f t0 tit v E0 = Ok (Some (new_list (v ++ elems cs)), E0)
                | [] => True
                end).
    { induction c as [c IHc] using cell_size_ind. intros Hsz Hpc Hc.
      destruct c as [| | | |a d| | | | | | | |]; try discriminate.
      cbn [tmpl_ok] in Hc. apply andb_prop in Hc. destruct Hc as [Hna Hc].
      apply negb_true_iff in Hna.
      assert (Hcases :
        (exists e d', d = CPair e d' /\ s_is_ell ell e = true /\ is_symbol a = true /\ isexp a = true
                      /\ starts_with_ell ell d' = false /\ tmpl_ok isexp ell true d' = true)
        \/ (tmpl_ok isexp ell false a = true /\ tmpl_ok isexp ell true d = true
            /\ starts_with_ell ell d = false)).
      { destruct d as [| | | |e d'| | | | | | | |]; try (right; apply andb_prop in Hc; destruct Hc; auto).
        destruct (s_is_ell ell e) eqn:Ee.
        - left. exists e, d'. apply andb_prop in Hc. destruct Hc as [Hc H4].
          apply andb_prop in Hc. destruct Hc as [Hc H3]. apply andb_prop in Hc. destruct Hc as [H1 H2].
          apply negb_true_iff in H3. auto 10.
        - right. apply andb_prop in Hc. destruct Hc. simpl. auto. }
      destruct Hcases as [(e & d' & -> & Hee & Hsa & Hxa & Hne & Hod) | (Hoa & Hod & Hne)].
      + (* a <ellipsis> . d' *)
        destruct a as [| | | | | |s| | | | | |]; try discriminate.
        destruct (proj1 (Hexp (CSym s) eq_refl) Hxa) as [l Hl].
        destruct (Hdepth1 _ _ Hl) as [fs ->].
        assert (Hva : is_variable pat (CSym s) = true) by (apply Hvar; eauto).
        destruct (flat_split (CSym s) _ se eq_refl Hnd Hl) as (pre & post & Hfl & Hpre & Hpost).
        rewrite flat_binding_many in Hfl.
        assert (He : e = ell).
        { unfold s_is_ell in Hee. destruct ell; try discriminate. apply cell_eqb_sym_r in Hee. exact Hee. }
        assert (Hlen : (length fs <= length bs)%nat).
        { rewrite Hfl, !app_length, map_length. lia. }
        assert (Hfind : iters_find E0 (CSym s) = Some None).
        { unfold env_new. apply iters_find_new. exact Hxa. }
        destruct d' as [| | | |e2 d''| | | | | | | |]; try (simpl in Hod; discriminate).
        * (* the ellipsis ends the list *)
          exists (mk_list fs CNil). split; [|split].
          -- rewrite (sinst_ell_var s fs e CNil Hna Hee eq_refl Hl). cbn [sinst]. apply sapp_ok.
          -- apply last_cdr_mk_list.
          -- intros f v Hf. cbn [elems]. subst e.
             cbn [cell_size] in Hf.
             replace f with (S (length fs) + S (f - length fs - 2))%nat by lia.
             rewrite (ell_run (CSym s) eq_refl Hva Hxa fs [] pre post E0 None v _ [] Hfl Hpre Hpost Hfind eq_refl).
             rewrite (iters_set_id _ _ _ Hfind). rewrite elems_mk_list. cbn [elems]. rewrite app_nil_r.
             reflexivity.
        * (* more elements follow *)
          destruct (IHc (CPair e2 d'')) as (cs & Hss & Hls & Hes);
            [simpl; lia | simpl in *; lia | reflexivity | cbn [tmpl_ok] in Hod |- *; exact Hod |].
          exists (mk_list fs cs). split; [|split].
          -- rewrite (sinst_ell_var s fs e _ Hna Hee Hne Hl). rewrite Hss. apply sapp_ok.
          -- rewrite last_cdr_mk_list. exact Hls.
          -- intros f v Hf. cbn [elems]. subst e.
             cbn [cell_size] in Hf.
             replace f with (S (length fs) + S (f - length fs - 2))%nat by lia.
             rewrite (ell_run (CSym s) eq_refl Hva Hxa fs [] pre post E0 None v _ _ Hfl Hpre Hpost Hfind eq_refl).
             rewrite (iters_set_id _ _ _ Hfind).
             specialize (Hes (S (f - length fs - 2))%nat (v ++ fs)). cbn [elems] in Hes.
             rewrite Hes by (cbn [cell_size]; lia).
             rewrite elems_mk_list, app_assoc. reflexivity.
      + (* a plain element *)
        destruct (IH a) as (ca & Hsa & Hea); [simpl in *; lia | exact Hoa |].
        destruct d as [| | | |e d'| | | | | | | |]; try (simpl in Hod; discriminate).
        * exists (CPair ca CNil). split; [|split; [reflexivity|]].
          -- rewrite sinst_plain by (auto). rewrite Hsa. reflexivity.
          -- intros f v Hf. cbn [elems]. destruct f; [cbn [cell_size] in Hf; lia|].
             rewrite expand_loop_S. rewrite Hea by (cbn [cell_size] in Hf; lia).
             cbn [bind peek_is]. reflexivity.
        * destruct (IHc (CPair e d')) as (cs & Hss & Hls & Hes);
            [simpl; lia | simpl in *; lia | reflexivity | cbn [tmpl_ok] in Hod |- *; exact Hod |].
          exists (CPair ca cs). split; [|split; [exact Hls|]].
          -- rewrite sinst_plain by (auto). rewrite Hsa, Hss. reflexivity.
          -- intros f v Hf. cbn [elems]. destruct f; [cbn [cell_size] in Hf; lia|].
             rewrite expand_loop_S. rewrite Hea by (cbn [cell_size] in Hf; lia).
             cbn [bind peek_is]. simpl in Hne. unfold s_is_ell in Hne. rewrite Hne.
             specialize (Hes f (v ++ [ca])). cbn [elems] in Hes.
             rewrite Hes by (cbn [cell_size] in Hf |- *; lia).
             rewrite <- app_assoc. reflexivity. }
    destruct (Hchain (CPair t1 rest)) as (cs & Hss & Hls & Hes); auto.
    exists cs. split; [exact Hss|].
    intros f Hf. destruct f; [cbn [cell_size] in Hf; lia|].
    change (expand ell pat bs (S f) (CPair t1 rest) E0) with (expand_loop ell pat bs f t1 (elems rest) [] E0).
    specialize (Hes f []). cbn [elems] in Hes.
    rewrite Hes by lia. simpl. rewrite new_list_elems by exact Hls. reflexivity.
  - (* an identifier *)
    cbn [tmpl_ok] in Hok. apply andb_prop in Hok. destruct Hok as [Hok _]. apply andb_prop in Hok.
    destruct Hok as [_ Hne]. apply negb_true_iff in Hne.
    destruct (leaf_sound s Hne) as (c & Hs & He).
    exists c. split; [exact Hs|]. intros f Hf. destruct f; [simpl in Hf; lia|]. apply He.
  - (* a vector is outside the fragment *)
    simpl in Hok. discriminate.
Qed.

Lemma expand_fuel_enough : forall t, (cell_size t * S (S (length bs)) <= expand_fuel t bs)%nat.
Proof. intros t. unfold expand_fuel. nia. Qed.

Theorem expand_sound_section : forall t, tmpl_ok isexp ell false t = true ->
  exists c, sinst ell t se = SOk c /\
    expand ell pat bs (expand_fuel t bs) t E0 = Ok (Some c, E0).
Proof.
  intros t Hok. destruct (expand_sound_sized t Hok) as (c & Hs & He).
  exists c. split; [exact Hs|]. apply He. apply expand_fuel_enough.
Qed.
End ExpandSound.

(* C17_expand_sound_stmt, as stated in Props/C17.v *)
Theorem expand_sound :
  forall (pat : pattern) (ell : cell) (se : senv) (t : cell),
    is_symbol ell = true ->
    tmpl_ok (is_expanded_variable pat) ell false t = true ->
    (forall x, is_symbol x = true -> is_variable pat x = true <-> exists b, slookup se x = Some b) ->
    (forall x, is_symbol x = true -> is_expanded_variable pat x = true <-> exists l, slookup se x = Some (BMany l)) ->
    no_dup (map fst se) = true ->
    (forall x l, slookup se x = Some (BMany l) -> exists fs, l = map BOne fs) ->
    exists c, sinst ell t se = SOk c /\
      expand ell pat (flat se) (expand_fuel t (flat se)) t (env_new pat) = Ok (Some c, env_new pat).
Proof.
  intros pat ell se t Hell Hok Hvar Hexp Hnd Hd1.
  exact (expand_sound_section ell pat se Hell Hvar Hexp Hnd Hd1 t Hok).
Qed.

(* ======================================================================
   Part 2: the whole pipeline on the supported fragment.
   [pshape]: the pattern variables of an S_pat pattern in order, each with the flag
   "directly followed by the ellipsis".  Pattern::build records exactly these
   ([build_shape]) and the specification's matcher binds exactly these, the flagged ones
   to a sequence of forms, the others to a form ([smatch_shape]).
   ====================================================================== *)
Lemma bind_ok : forall A B (x : out A) (f : A -> out B) b,
  bind x f = Ok b -> exists a, x = Ok a /\ f a = Ok b.
Proof. intros A B [a|e|s|] f b H; simpl in H; try discriminate. eauto. Qed.

Section Shape.
Variable lits : list cell.
Variable ell : cell.
Hypothesis Hell : is_symbol ell = true.

Fixpoint pshape (p : cell) {struct p} : list (cell * bool) :=
  match p with
  | CPair a d =>
      match d with
      | CPair e d' =>
          if s_is_ell ell e then (a, true) :: pshape d'
          else match a with
               | CPair _ _ => pshape a
               | CSym _ => if f_is_var lits ell a then [(a, false)] else []
               | _ => []
               end ++ pshape d
      | _ => match a with
             | CPair _ _ => pshape a
             | CSym _ => if f_is_var lits ell a then [(a, false)] else []
             | _ => []
             end ++ pshape d
      end
  | _ => []
  end.

Definition eshape (a : cell) : list (cell * bool) :=
  match a with
  | CPair _ _ => pshape a
  | CSym _ => if f_is_var lits ell a then [(a, false)] else []
  | _ => []
  end.

Lemma pshape_plain : forall a d, starts_with_ell ell d = false ->
  pshape (CPair a d) = eshape a ++ pshape d.
Proof.
  intros a d H. destruct d; try reflexivity. simpl in H. cbn [pshape]. rewrite H. reflexivity.
Qed.

Lemma pshape_ell : forall a e d', s_is_ell ell e = true ->
  pshape (CPair a (CPair e d')) = (a, true) :: pshape d'.
Proof. intros a e d' H. cbn [pshape]. rewrite H. reflexivity. Qed.

(* ---- the specification's matcher *)
Definition bshape (b : binding) (fl : bool) : Prop :=
  if fl then exists fs, b = BMany (map BOne fs) else exists c, b = BOne c.
Definition shape_rel (kb : cell * binding) (vb : cell * bool) : Prop :=
  fst kb = fst vb /\ bshape (snd kb) (snd vb).

Lemma smatch_shape : forall pd seen ud se, pat_ok lits ell seen pd = true ->
  smatch lits ell pd ud = Some se -> Forall2 shape_rel se (pshape pd).
Proof.
  induction pd as [pd IH] using cell_size_ind. intros seen ud se Hp Hm.
  destruct pd as [| | | |a d| | | | | | | |]; try (simpl in Hp; discriminate).
  - cbn [smatch] in Hm. destruct (cell_eqb CNil ud); inversion Hm. constructor.
  - destruct (starts_with_ell ell d) eqn:Es.
    + destruct d as [| | | |e d'| | | | | | | |]; simpl in Es; try discriminate.
      destruct (pat_ok_ell lits ell _ _ _ _ Es Hp) as (_ & Hv & Hd).
      rewrite (smatch_ell lits ell a e d' ud Es) in Hm. cbv zeta in Hm.
      destruct (Nat.ltb (chain_len ud) (chain_len d')); [discriminate|].
      destruct (split_chain (chain_len ud - chain_len d') ud) as [[items frest]|]; [|discriminate].
      rewrite (all_some_var lits ell a items Hv) in Hm.
      rewrite (pvars_var lits ell a Hv) in Hm.
      destruct (var_facts lits ell a Hv) as (Hsa & _).
      rewrite (collect_var a items Hsa) in Hm.
      destruct (smatch lits ell d' frest) as [s2|] eqn:E2; simpl in Hm; inversion Hm; subst se.
      rewrite (pshape_ell a e d' Es). constructor.
      * split; simpl; eauto.
      * eapply IH; [|exact Hd|exact E2]. simpl. lia.
    + destruct (pat_ok_plain lits ell _ _ _ Es Hp) as [Ha Hd].
      rewrite (smatch_plain lits ell a d ud Es) in Hm.
      destruct ud as [| | | |f1 fr| | | | | | | |]; try discriminate.
      destruct (smatch lits ell a f1) as [s1|] eqn:E1; [|discriminate].
      destruct (smatch lits ell d fr) as [s2|] eqn:E2; simpl in Hm; inversion Hm; subst se.
      rewrite (pshape_plain a d Es). apply Forall2_app.
      * destruct a as [| | | |a1 a2| |s| | | | | |]; try (simpl in Ha; discriminate);
          try (cbn [smatch] in E1; destruct (cell_eqb _ f1); inversion E1; constructor).
        -- eapply IH; [|exact Ha|exact E1]. simpl. lia.
        -- cbn [smatch] in E1. cbn [eshape]. unfold f_is_var. cbn [is_symbol andb].
           unfold elem_ok in Ha. rewrite Ha.
           destruct (s_is_lit lits (CSym s)); cbn [negb andb].
           ++ destruct (cell_eqb (CSym s) f1); inversion E1; constructor.
           ++ destruct (s_is_under (CSym s)); cbn [negb andb]; inversion E1; constructor; [|constructor].
              split; simpl; eauto.
      * eapply IH; [|exact Hd|exact E2]. simpl. lia.
Qed.
End Shape.

(* ---- Pattern::build on S_pat *)
Definition vmem (x : cell) (sh : list (cell * bool)) : bool :=
  existsb (fun vb => cell_eqb (fst vb) x) sh.
Definition emem (x : cell) (sh : list (cell * bool)) : bool :=
  existsb (fun vb => snd vb && cell_eqb (fst vb) x) sh.

Section BuildShape.
Variable lits : list cell.
Variable ell : cell.
Hypothesis Hell : is_symbol ell = true.

Definition cfg_ok (p : pattern) : Prop :=
  p_ellipsis p = ell /\ p_literals p = lits /\ p_underscore p = UNDERSCORE.

(* what a run of build over a pattern of shape [sh] does to the record *)
Definition post (sh : list (cell * bool)) (p p' : pattern) : Prop :=
  cfg_ok p' /\ p_expr p' = p_expr p /\
  (forall x, is_variable p' x = is_variable p x || vmem x sh) /\
  (forall x, is_expanded_variable p' x = is_expanded_variable p x || emem x sh).

Lemma post_nil : forall p, cfg_ok p -> post [] p p.
Proof. intros p H. repeat split; try apply H; intros; simpl; rewrite orb_false_r; reflexivity. Qed.

Lemma post_app : forall s1 s2 p p1 p2, post s1 p p1 -> post s2 p1 p2 -> post (s1 ++ s2) p p2.
Proof.
  intros s1 s2 p p1 p2 (C1 & X1 & V1 & E1) (C2 & X2 & V2 & E2).
  split; [exact C2|]. split; [congruence|]. split; intros x.
  - rewrite V2, V1. unfold vmem. rewrite existsb_app, orb_assoc. reflexivity.
  - rewrite E2, E1. unfold emem. rewrite existsb_app, orb_assoc. reflexivity.
Qed.

Lemma cand_cfg : forall p c, cfg_ok p -> is_variable_candidate p c = f_is_var lits ell c.
Proof.
  intros p c (H1 & H2 & H3). unfold is_variable_candidate, f_is_var, is_literal, is_ellipsis, s_is_lit, s_is_ell, s_is_under.
  rewrite H1, H2, H3. reflexivity.
Qed.

Lemma is_ell_cfg : forall p c, cfg_ok p -> is_ellipsis p c = s_is_ell ell c.
Proof. intros p c (H1 & _). unfold is_ellipsis, s_is_ell. rewrite H1. reflexivity. Qed.

Lemma enext_cfg : forall p d, cfg_ok p -> ellipsis_next p d = match peek_cell d with Some c => s_is_ell ell c | None => false end.
Proof. intros p d H. unfold ellipsis_next. destruct (peek_cell d); auto. apply is_ell_cfg. exact H. Qed.

Lemma mem_cell_snoc : forall x l a, mem_cell x (l ++ [a]) = mem_cell x l || cell_eqb a x.
Proof. intros. unfold mem_cell. rewrite existsb_app. simpl. rewrite orb_false_r. reflexivity. Qed.

Lemma post_push_variable : forall p a, cfg_ok p -> post [(a, false)] p (push_variable p a).
Proof.
  intros p a H. split; [exact H|]. split; [reflexivity|]. split; intros x.
  - unfold is_variable, push_variable, vmem. cbn [p_variables existsb fst]. rewrite mem_cell_snoc, orb_false_r. reflexivity.
  - unfold emem. simpl. rewrite orb_false_r. reflexivity.
Qed.

(* find_expanded_variables on a pattern variable *)
Lemma fev_var : forall p a, cfg_ok p -> f_is_var lits ell a = true ->
  let p2 := find_expanded_variables a p in
  cfg_ok p2 /\ p_expr p2 = p_expr p /\ p_variables p2 = p_variables p /\
  forall x, is_expanded_variable p2 x = is_expanded_variable p x || cell_eqb a x.
Proof.
  intros p a H Hv. destruct (var_facts lits ell a Hv) as (Hs & _).
  destruct a; try discriminate. cbn [find_expanded_variables]. rewrite (cand_cfg p _ H), Hv. cbn [andb].
  destruct (mem_cell (CSym s) (p_expanded_variables p)) eqn:Em; cbn [negb].
  - repeat split; try apply H. intros x. destruct (cell_eqb (CSym s) x) eqn:Ex.
    + apply cell_eqb_sym_l in Ex. subst x. unfold is_expanded_variable. rewrite Em. reflexivity.
    + rewrite orb_false_r. reflexivity.
  - repeat split; try apply H. intros x. unfold is_expanded_variable, push_expanded. cbn [p_expanded_variables].
    apply mem_cell_snoc.
Qed.

(* unfolding of the loop *)
Lemma bl_nil : forall rec len imp idx ect p, build_loop rec len imp CNil idx ect p = Ok p.
Proof. reflexivity. Qed.
Lemma bl_sym : forall rec len imp s rest' idx ect p,
  build_loop rec len imp (CPair (CSym s) rest') idx ect p =
  (do (p1, ect1) <- build_symbol p (CSym s) idx len imp (ellipsis_next p rest') ect;
   build_loop rec len imp rest' (idx + 1) ect1 p1).
Proof. reflexivity. Qed.
Lemma bl_pair : forall rec len imp x y rest' idx ect p,
  build_loop rec len imp (CPair (CPair x y) rest') idx ect p =
  (do p2 <- rec (CPair x y) (if ellipsis_next p rest' then find_expanded_variables (CPair x y) p else p);
   build_loop rec len imp rest' (idx + 1) ect p2).
Proof. reflexivity. Qed.
Lemma bl_other : forall rec len imp it rest' idx ect p, is_symbol it = false -> is_pair it = false ->
  build_loop rec len imp (CPair it rest') idx ect p = build_loop rec len imp rest' (idx + 1) ect p.
Proof. intros. destruct it; try discriminate; reflexivity. Qed.

Lemma build_loop_shape : forall (n : nat) rec len imp,
  (forall q p p', (cell_size q < n)%nat -> pat_ok lits ell false q = true -> cfg_ok p ->
     rec q p = Ok p' -> post (pshape lits ell q) p p') ->
  forall rest seen idx ect p p', (cell_size rest <= n)%nat -> pat_ok lits ell seen rest = true -> cfg_ok p ->
  build_loop rec len imp rest idx ect p = Ok p' -> post (pshape lits ell rest) p p'.
Proof.
  intros n rec len imp Hrec.
  induction rest as [rest IH] using cell_size_ind. intros seen idx ect p p' Hsz Hp Hc Hb.
  destruct rest as [| | | |a d| | | | | | | |]; try (simpl in Hp; discriminate).
  - rewrite bl_nil in Hb. inversion Hb; subst p'. apply post_nil. exact Hc.
  - destruct (starts_with_ell ell d) eqn:Es.
    + (* a <ellipsis> . d' *)
      destruct d as [| | | |e d'| | | | | | | |]; simpl in Es; try discriminate.
      destruct (pat_ok_ell lits ell _ _ _ _ Es Hp) as (_ & Hv & Hd).
      destruct (var_facts lits ell a Hv) as (Hsa & _ & Hnea & _).
      pose proof (is_ell_sym ell Hell e Es) as Hse.
      destruct a as [| | | | | |s| | | | | |]; try discriminate.
      destruct e as [| | | | | |se| | | | | |]; try discriminate.
      rewrite bl_sym in Hb. apply bind_ok in Hb. destruct Hb as ([p1 ect1] & Hb1 & Hb).
      unfold build_symbol in Hb1. rewrite (is_ell_cfg p _ Hc), Hnea in Hb1.
      rewrite (cand_cfg p _ Hc), Hv in Hb1.
      rewrite (enext_cfg p _ Hc) in Hb1. cbn [peek_cell] in Hb1. rewrite Es in Hb1.
      destruct (is_variable p (CSym s)) eqn:Evp; [discriminate|]. cbn [bind] in Hb1.
      inversion Hb1; subst p1 ect1. clear Hb1.
      pose proof (post_push_variable p (CSym s) Hc) as P1.
      destruct (fev_var (push_variable p (CSym s)) (CSym s) (proj1 P1) Hv) as (C2 & X2 & V2 & E2).
      set (p2 := find_expanded_variables (CSym s) (push_variable p (CSym s))) in *.
      rewrite bl_sym in Hb. apply bind_ok in Hb. destruct Hb as ([p3 ect3] & Hb3 & Hb).
      unfold build_symbol in Hb3. rewrite (is_ell_cfg p2 _ C2), Es in Hb3.
      destruct ((idx + 1 =? 0) || (idx + 1 =? len - 1) && imp); [discriminate|].
      destruct (1 <? ect + 1); [discriminate|]. inversion Hb3; subst p3 ect3. clear Hb3.
      assert (P2 : post [(CSym s, true)] p p2).
      { destruct P1 as (_ & X1 & V1 & E1). split; [exact C2|]. split; [congruence|]. split; intros x.
        - unfold is_variable. rewrite V2. apply V1.
        - rewrite E2. unfold emem. cbn [existsb fst snd andb]. rewrite orb_false_r.
          reflexivity. }
      rewrite (pshape_ell lits ell _ _ d' Es).
      apply (post_app [(CSym s, true)] _ p p2 p'); [exact P2|].
      eapply IH; [| |exact Hd|exact C2|exact Hb]; simpl in *; lia.
    + (* a plain element *)
      destruct (pat_ok_plain lits ell _ _ _ Es Hp) as [Ha Hd].
      rewrite (pshape_plain lits ell a d Es).
      assert (Hen : forall q, cfg_ok q -> ellipsis_next q d = false).
      { intros q Hq. rewrite (enext_cfg q d Hq). destruct d; try (simpl in Hd; discriminate); auto. }
      assert (Hrest : forall p1 idx1 ect1, cfg_ok p1 -> build_loop rec len imp d idx1 ect1 p1 = Ok p' ->
                post (pshape lits ell d) p1 p').
      { intros p1 idx1 ect1 C1 H1. eapply IH; [| |exact Hd|exact C1|exact H1]; simpl in *; lia. }
      destruct a as [| | | |a1 a2| |s| | | | | |]; try (simpl in Ha; discriminate);
        try (rewrite bl_other in Hb by reflexivity; cbn [eshape app]; eapply Hrest; eauto).
      * (* nested list *)
        rewrite bl_pair, (Hen p Hc) in Hb. apply bind_ok in Hb. destruct Hb as (p2 & Hb2 & Hb).
        assert (P2 : post (pshape lits ell (CPair a1 a2)) p p2).
        { apply Hrec; auto. simpl in *; lia. }
        apply (post_app _ _ p p2 p'); [exact P2|]. eapply Hrest; [apply P2|exact Hb].
      * (* identifier *)
        rewrite bl_sym in Hb. apply bind_ok in Hb. destruct Hb as ([p1 ect1] & Hb1 & Hb).
        unfold build_symbol in Hb1. unfold elem_ok in Ha. apply negb_true_iff in Ha.
        rewrite (is_ell_cfg p _ Hc), Ha, (cand_cfg p _ Hc), (Hen p Hc) in Hb1.
        cbn [eshape].
        destruct (f_is_var lits ell (CSym s)) eqn:Ev.
        -- destruct (is_variable p (CSym s)); [discriminate|]. cbn [bind] in Hb1.
           inversion Hb1; subst p1 ect1.
           pose proof (post_push_variable p (CSym s) Hc) as P1.
           apply (post_app [(CSym s, false)] _ p (push_variable p (CSym s)) p'); [exact P1|]. eapply Hrest; [apply P1|exact Hb].
        -- cbn [bind] in Hb1. inversion Hb1; subst p1 ect1. cbn [app]. eapply Hrest; eauto.
Qed.

Lemma build_shape : forall (n : nat) q p p', (cell_size q <= n)%nat -> pat_ok lits ell false q = true -> cfg_ok p ->
  build q p = Ok p' -> post (pshape lits ell q) p p'.
Proof.
  induction n as [|n IHn]; intros q p p' Hsz Hq Hc Hb.
  - destruct q; simpl in Hsz; lia.
  - rewrite build_eq in Hb.
    eapply (build_loop_shape (S n)); [| |exact Hq|exact Hc|exact Hb]; [|lia].
    intros q' p1 p1' Hlt Hq' Hc1 Hb1. eapply IHn; eauto. lia.
Qed.
End BuildShape.

(* ---- lookups in a shape *)
Fixpoint shlookup (sh : list (cell * bool)) (x : cell) : option bool :=
  match sh with
  | [] => None
  | (k, fl) :: r => if cell_eqb k x then Some fl else shlookup r x
  end.

Lemma vmem_lookup : forall x sh,
  vmem x sh = match shlookup sh x with Some _ => true | None => false end.
Proof.
  induction sh as [|[k fl] r IH]; simpl; auto.
  destruct (cell_eqb k x); simpl; auto.
Qed.

Lemma emem_notin : forall x sh, mem_cell x (map fst sh) = false -> emem x sh = false.
Proof.
  induction sh as [|[k fl] r IH]; simpl; intros H; auto.
  apply orb_false_iff in H. destruct H as [H1 H2]. rewrite H1, andb_false_r. simpl. auto.
Qed.

Lemma emem_lookup : forall x sh, is_symbol x = true -> no_dup (map fst sh) = true ->
  emem x sh = match shlookup sh x with Some true => true | _ => false end.
Proof.
  intros x sh Hx. induction sh as [|[k fl] r IH]; intros Hnd; simpl; auto.
  cbn [map fst no_dup] in Hnd. apply andb_prop in Hnd. destruct Hnd as [Hk Hnd]. apply negb_true_iff in Hk.
  destruct (cell_eqb k x) eqn:E.
  - assert (k = x) by (destruct x; try discriminate; apply cell_eqb_sym_r in E; exact E). subst k.
    fold (emem x r). rewrite (emem_notin x r Hk). destruct fl; reflexivity.
  - rewrite andb_false_r. simpl. apply IH. exact Hnd.
Qed.

Lemma shape_lookup : forall se sh, Forall2 shape_rel se sh -> forall x,
  match slookup se x with
  | Some b => exists fl, shlookup sh x = Some fl /\ bshape b fl
  | None => shlookup sh x = None
  end.
Proof.
  induction 1 as [|[k b] [k' fl] se sh [Hk Hb] HF IH]; intros x; simpl; auto.
  simpl in Hk, Hb. subst k'. destruct (cell_eqb k x); [exists fl; split; [reflexivity|exact Hb] | apply IH].
Qed.

Lemma shape_keys : forall se sh, Forall2 shape_rel se sh -> map fst se = map fst sh.
Proof. induction 1 as [|kb vb se sh [Hk _] HF IH]; simpl; congruence. Qed.

(* the keys of the shape are the specification's pattern variables *)
Lemma pshape_pvars : forall lits ell, is_symbol ell = true ->
  forall pd seen, pat_ok lits ell seen pd = true ->
  map fst (pshape lits ell pd) = pvars lits ell pd.
Proof.
  intros lits ell Hell. induction pd as [pd IH] using cell_size_ind. intros seen Hp.
  destruct pd as [| | | |a d| | | | | | | |]; try (simpl in Hp; discriminate); [reflexivity|].
  destruct (starts_with_ell ell d) eqn:Es.
  - destruct d as [| | | |e d'| | | | | | | |]; simpl in Es; try discriminate.
    destruct (pat_ok_ell lits ell _ _ _ _ Es Hp) as (_ & Hv & Hd).
    rewrite (pshape_ell lits ell a e d' Es).
    pose proof (is_ell_sym ell Hell e Es) as Hse. destruct e; try discriminate.
    change (pvars lits ell (CPair a (CPair (CSym s) d'))) with
      (pvars lits ell a ++ pvars lits ell (CSym s) ++ pvars lits ell d').
    rewrite (pvars_var lits ell a Hv). cbn [pvars]. rewrite Es, orb_true_r. cbn [orb app map fst].
    f_equal. eapply IH; [|exact Hd]. simpl. lia.
  - destruct (pat_ok_plain lits ell _ _ _ Es Hp) as [Ha Hd].
    rewrite (pshape_plain lits ell a d Es), map_app.
    change (pvars lits ell (CPair a d)) with (pvars lits ell a ++ pvars lits ell d).
    f_equal; [|eapply IH; [|exact Hd]; simpl; lia].
    destruct a as [| | | |a1 a2| |s| | | | | |]; try (simpl in Ha; discriminate); try reflexivity.
    + eapply IH; [|exact Ha]. simpl. lia.
    + cbn [eshape pvars]. unfold f_is_var. cbn [is_symbol andb].
      destruct (s_is_lit lits (CSym s)), (s_is_ell ell (CSym s)), (s_is_under (CSym s)); reflexivity.
Qed.

(* ---- Transform::try_new: every rule's record is the result of build on the rule's pattern *)
Definition built_rule (lits : list cell) (ell : cell) (r : pattern * cell) : Prop :=
  exists pk pd, build pd (mk_pattern (CPair pk pd) [] [] ell lits UNDERSCORE) = Ok (fst r).

Lemma build_rules_inv : forall rules ell lits rs, build_rules rules ell lits = Ok rs ->
  Forall (built_rule lits ell) rs.
Proof.
  induction rules as [|it rest IH]; intros ell lits rs H.
  - inversion H. constructor.
  - cbn [build_rules] in H.
    apply bind_ok in H. destruct H as (pat & _ & H).
    apply bind_ok in H. destruct H as (dd & _ & H).
    apply bind_ok in H. destruct H as (template & _ & H).
    apply bind_ok in H. destruct H as (p & Hp & H).
    apply bind_ok in H. destruct H as (u0 & _ & H).
    apply bind_ok in H. destruct H as (r & Hr & H).
    inversion H; subst rs. constructor; [|eapply IH; exact Hr].
    unfold pattern_try_new in Hp. destruct pat; try discriminate. cbn [is_pair negb cdr_ bind] in Hp.
    eexists _, _. exact Hp.
Qed.

Lemma try_new_rules : forall d tr, transform_try_new d = Ok tr ->
  Forall (built_rule (tr_literals tr) (tr_ellipsis tr)) (tr_rules tr).
Proof.
  intros d tr H. unfold transform_try_new in H.
  destruct (elems d) as [|x0 [|kw [|sr [|]]]]; try discriminate.
  destruct (negb (is_symbol kw)); try discriminate.
  apply bind_ok in H. destruct H as (hd & _ & H).
  destruct (negb (cell_eqb hd SYNTAX_RULES)); try discriminate.
  apply bind_ok in H. destruct H as (sr1 & _ & H).
  apply bind_ok in H. destruct H as (c1 & _ & H).
  apply bind_ok in H. destruct H as ([ellipsis sr2] & _ & H).
  apply bind_ok in H. destruct H as (lits & _ & H).
  destruct (negb (all_symbols (elems lits))); try discriminate.
  apply bind_ok in H. destruct H as (sr3 & _ & H).
  apply bind_ok in H. destruct H as (rules & Hr & H).
  inversion H; subst tr. cbn [tr_rules tr_literals tr_ellipsis].
  eapply build_rules_inv. exact Hr.
Qed.

(* ---- rule selection: the specification of the transformer and [spec_select] agree *)
Lemma spec_select_some : forall lits ell rules u pat tmpl se,
  spec_select lits ell rules u = Some (pat, tmpl, se) ->
  exists pk pd uk ud, In (pat, tmpl) rules /\ p_expr pat = CPair pk pd /\ u = CPair uk ud /\
    smatch lits ell pd ud = Some se.
Proof.
  induction rules as [|[p t] rest IH]; intros u pat tmpl se H; [discriminate|].
  cbn [spec_select fst snd] in H.
  destruct (p_expr p) as [| | | |pk pd| | | | | | | |] eqn:Ep; try discriminate.
  destruct u as [| | | |uk ud| | | | | | | |]; try discriminate.
  destruct (smatch lits ell pd ud) as [se'|] eqn:Em.
  - inversion H; subst. exists pk, pd, uk, ud. simpl. auto.
  - destruct (IH _ _ _ _ H) as (pk' & pd' & uk' & ud' & Hin & H1 & H2 & H3).
    exists pk', pd', uk', ud'. simpl. auto.
Qed.

Lemma spec_rules_select : forall lits ell rules u,
  forallb (rule_supported lits ell u) rules = true ->
  spec_rules lits ell (map (fun r => (p_expr (fst r), snd r)) rules) u =
  match spec_select lits ell rules u with
  | None => SpecNoMatch
  | Some (pat, tmpl, se) =>
      match sinst ell tmpl se with
      | SOk c => SpecOk c
      | SRSpec.SErr => SpecInvalid
      | SExcl => SpecExcluded
      end
  end.
Proof.
  induction rules as [|[p t] rest IH]; intros u H; [reflexivity|].
  cbn [forallb] in H. apply andb_prop in H. destruct H as [Hr Hrest].
  unfold rule_supported in Hr. cbn [fst snd] in Hr.
  cbn [map spec_rules spec_select fst snd].
  destruct (p_expr p) as [| | | |pk pd| | | | | | | |]; try discriminate.
  destruct u as [| | | |uk ud| | | | | | | |]; try discriminate.
  destruct (smatch lits ell pd ud); [reflexivity|]. apply IH. exact Hrest.
Qed.

Lemma rule_supported_wf : forall lits ell u r, rule_supported lits ell u r = true -> rule_wf lits ell r = true.
Proof.
  intros lits ell u r H. unfold rule_supported in H. unfold rule_wf.
  destruct (p_expr (fst r)); try discriminate. destruct u; try discriminate.
  apply andb_prop in H. apply H.
Qed.

(* ---- the hypotheses of [expand_sound] hold for the rule the specification selects *)
Lemma selected_rule_facts : forall lits ell pat pk pd ud se,
  is_symbol ell = true ->
  build pd (mk_pattern (CPair pk pd) [] [] ell lits UNDERSCORE) = Ok pat ->
  S_match lits ell pd ud = true -> no_dup (pvars lits ell pd) = true ->
  smatch lits ell pd ud = Some se ->
  (forall x, is_symbol x = true -> is_variable pat x = true <-> exists b, slookup se x = Some b) /\
  (forall x, is_symbol x = true -> is_expanded_variable pat x = true <-> exists l, slookup se x = Some (BMany l)) /\
  no_dup (map fst se) = true /\
  (forall x l, slookup se x = Some (BMany l) -> exists fs, l = map BOne fs).
Proof.
  intros lits ell pat pk pd ud se Hell Hb Hsm Hnd Hm.
  unfold S_match in Hsm. apply andb_prop in Hsm. destruct Hsm as [Hsm _].
  apply andb_prop in Hsm. destruct Hsm as [Hp _].
  pose proof (smatch_shape lits ell pd false ud se Hp Hm) as HF.
  pose proof (shape_lookup _ _ HF) as HL.
  pose proof (pshape_pvars lits ell Hell pd false Hp) as Hkeys.
  assert (Hc0 : cfg_ok lits ell (mk_pattern (CPair pk pd) [] [] ell lits UNDERSCORE))
    by (repeat split).
  destruct (build_shape lits ell Hell _ pd _ pat (Nat.le_refl _) Hp Hc0 Hb) as (_ & _ & HV & HE).
  assert (Hndsh : no_dup (map fst (pshape lits ell pd)) = true) by (rewrite Hkeys; exact Hnd).
  split; [|split; [|split]].
  - intros x Hx. rewrite HV. cbn [is_variable p_variables mem_cell existsb orb]. rewrite vmem_lookup.
    specialize (HL x). destruct (slookup se x) as [b|].
    + destruct HL as (fl & -> & _). split; eauto.
    + rewrite HL. split; [discriminate|]. intros [b Hb']. discriminate.
  - intros x Hx. rewrite HE. cbn [is_expanded_variable p_expanded_variables mem_cell existsb orb].
    rewrite (emem_lookup x _ Hx Hndsh).
    specialize (HL x). destruct (slookup se x) as [b|].
    + destruct HL as (fl & -> & Hbs). destruct fl; simpl in Hbs.
      * destruct Hbs as [fs ->]. split; eauto.
      * destruct Hbs as [c ->]. split; [discriminate|]. intros [l Hl]. discriminate.
    + rewrite HL. split; [discriminate|]. intros [l Hl]. discriminate.
  - rewrite (shape_keys _ _ HF). exact Hndsh.
  - intros x l Hl. specialize (HL x). rewrite Hl in HL. destruct HL as (fl & _ & Hbs).
    destruct fl; simpl in Hbs.
    + destruct Hbs as [fs Hfs]. inversion Hfs. eauto.
    + destruct Hbs as [c Hc]. discriminate.
Qed.


(* ---- build never changes the [expr] field (no assumption on the pattern) *)
Lemma fev_expr : forall (n : nat) c p, (cell_size c <= n)%nat ->
  p_expr (find_expanded_variables c p) = p_expr p.
Proof.
  induction n as [|n IHn]; intros c p Hs.
  - destruct c; simpl in Hs; lia.
  - destruct c as [| | | |c1 c2| |s| | | | | |]; try reflexivity.
    + cbn [find_expanded_variables]. cbn [cell_size] in Hs.
      transitivity (p_expr (find_expanded_variables c1 p)); [|apply IHn; lia].
      generalize (find_expanded_variables c1 p). intros q.
      assert (Hs2 : (cell_size c2 <= n)%nat) by lia. clear Hs.
      revert q Hs2. induction c2 as [| | | |it _ rest' IH| | | | | | | |]; intros q Hs2;
        try reflexivity; try (apply IHn; exact Hs2).
      cbn [cell_size] in Hs2. rewrite IH by lia. apply IHn. lia.
    + cbn [find_expanded_variables]. destruct (_ && _); reflexivity.
Qed.

Lemma build_symbol_expr : forall p it idx len imp en ect p1 e1,
  build_symbol p it idx len imp en ect = Ok (p1, e1) -> p_expr p1 = p_expr p.
Proof.
  intros p it idx len imp en ect p1 e1 H. unfold build_symbol in H.
  destruct (is_ellipsis p it).
  - destruct ((idx =? 0) || _); [discriminate|]. destruct (1 <? ect + 1); [discriminate|].
    inversion H. reflexivity.
  - apply bind_ok in H. destruct H as (p0 & H0 & H). inversion H; subst p1 e1.
    assert (p_expr p0 = p_expr p).
    { destruct (is_variable_candidate p it).
      - destruct (is_variable p it); inversion H0. reflexivity.
      - destruct en; inversion H0. reflexivity. }
    destruct en; [rewrite (fev_expr _ it p0 (Nat.le_refl _))|]; assumption.
Qed.

Lemma build_loop_expr : forall (n : nat) rec len imp,
  (forall q p p', (cell_size q < n)%nat -> rec q p = Ok p' -> p_expr p' = p_expr p) ->
  forall rest idx ect p p', (cell_size rest <= n)%nat ->
  build_loop rec len imp rest idx ect p = Ok p' -> p_expr p' = p_expr p.
Proof.
  intros n rec len imp Hrec.
  induction rest as [| | | |it _ rest' IH| | | | | | | |]; intros idx ect p p' Hs H;
    try (simpl in H; inversion H; reflexivity).
  - cbn [cell_size] in Hs.
    destruct it as [| | | |x y| |s| | | | | |];
      try (rewrite bl_other in H by reflexivity; eapply IH; [|exact H]; lia).
    + rewrite bl_pair in H. apply bind_ok in H. destruct H as (p2 & H2 & H).
      rewrite (IH _ _ _ _ (ltac:(lia)) H). rewrite (Hrec (CPair x y) _ _ (ltac:(simpl in *; lia)) H2).
      destruct (ellipsis_next p rest'); [apply (fev_expr _ _ _ (Nat.le_refl _))|reflexivity].
    + rewrite bl_sym in H. apply bind_ok in H. destruct H as ([p1 e1] & H1 & H).
      rewrite (IH _ _ _ _ (ltac:(lia)) H). eapply build_symbol_expr. exact H1.
  - simpl in H. apply bind_ok in H. destruct H as ([p1 e1] & H1 & H). inversion H; subst p'.
    eapply build_symbol_expr. exact H1.
Qed.

Lemma build_expr : forall (n : nat) q p p', (cell_size q <= n)%nat -> build q p = Ok p' -> p_expr p' = p_expr p.
Proof.
  induction n as [|n IHn]; intros q p p' Hs H.
  - destruct q; simpl in Hs; lia.
  - rewrite build_eq in H. eapply (build_loop_expr (S n)); [| |exact H]; [|lia].
    intros q' p1 p1' Hlt H1. eapply IHn; [|exact H1]. lia.
Qed.

(* ---- C17_main_stmt *)
Theorem main_sound : forall d u, supported d u = true -> sound_on d u.
Proof.
  intros d u Hs. unfold sound_on. unfold supported in Hs.
  pose proof (define_total d) as Ht.
  destruct (transform_try_new d) as [tr|e|s|] eqn:Etr; try exact I; try exact Ht.
  unfold transform_apply. rewrite (first_matching_rule tr u 0 Hs).
  pose proof Hs as Hs'. unfold supported_tr in Hs'. apply andb_prop in Hs'. destruct Hs' as [Hell Hall].
  destruct (spec_select (tr_literals tr) (tr_ellipsis tr) (tr_rules tr) u) as [[[pat tmpl] se]|] eqn:Esel; [|exact I].
  destruct (spec_select_some _ _ _ _ _ _ _ Esel) as (pk & pd & uk & ud & Hin & Hpe & -> & Hm).
  pose proof (proj1 (forallb_forall _ _) Hall _ Hin) as Hrs.
  unfold rule_supported in Hrs. cbn [fst snd] in Hrs. rewrite Hpe in Hrs.
  apply andb_prop in Hrs. destruct Hrs as [Hrs Hnd]. apply andb_prop in Hrs. destruct Hrs as [Hsm Htm].
  pose proof (proj1 (Forall_forall _ _) (try_new_rules d tr Etr) _ Hin) as (pk' & pd' & Hb).
  cbn [fst] in Hb.
  pose proof (build_expr _ _ _ _ (Nat.le_refl _) Hb) as Hex. cbn [p_expr] in Hex.
  rewrite Hpe in Hex. inversion Hex; subst pk' pd'. clear Hex.
  destruct (selected_rule_facts _ _ _ _ _ _ _ Hell Hb Hsm Hnd Hm) as (Hvar & Hexp & Hndse & Hd1).
  destruct (expand_sound pat (tr_ellipsis tr) se tmpl Hell Htm Hvar Hexp Hndse Hd1) as (c & Hsi & Hex).
  rewrite Nat.add_0_r, Hex.
  left. unfold spec_of_transform.
  assert (Hwf : forallb (rule_wf (tr_literals tr) (tr_ellipsis tr)) (tr_rules tr) = true).
  { apply forallb_forall. intros r Hr. eapply rule_supported_wf.
    apply (proj1 (forallb_forall _ _) Hall _ Hr). }
  rewrite Hwf. cbn [negb].
  rewrite (spec_rules_select _ _ _ _ Hall), Esel, Hsi. reflexivity.
Qed.

(* ---- non-vacuity of [expand_sound]: its hypotheses hold for the rule selected for a use
   of a transformer whose template has two ellipses (one of them used twice) and a nested list *)
Lemma expand_sound_example :
  let d := defn "(else) ((_ a b ... else (c d)) '(d (a) (b ...) c b ...))" in
  let u := rd "(m 1 2 3 else (4 5))" in
  exists tr pat tmpl se,
    transform_try_new d = Ok tr /\
    spec_select (tr_literals tr) (tr_ellipsis tr) (tr_rules tr) u = Some (pat, tmpl, se) /\
    tmpl = rd "'(d (a) (b ...) c b ...)" /\
    se = [(rd "a", BOne (rd "1")); (rd "b", BMany [BOne (rd "2"); BOne (rd "3")]);
          (rd "c", BOne (rd "4")); (rd "d", BOne (rd "5"))] /\
    is_symbol (tr_ellipsis tr) = true /\
    tmpl_ok (is_expanded_variable pat) (tr_ellipsis tr) false tmpl = true /\
    (forall x, is_symbol x = true -> is_variable pat x = true <-> exists b, slookup se x = Some b) /\
    (forall x, is_symbol x = true -> is_expanded_variable pat x = true <-> exists l, slookup se x = Some (BMany l)) /\
    no_dup (map fst se) = true /\
    (forall x l, slookup se x = Some (BMany l) -> exists fs, l = map BOne fs) /\
    expand (tr_ellipsis tr) pat (flat se) (expand_fuel tmpl (flat se)) tmpl (env_new pat) =
      Ok (Some (rd "'(5 (1) (2 3) 4 2 3)"), env_new pat).
Proof.
  cbv zeta.
  set (d := defn "(else) ((_ a b ... else (c d)) '(d (a) (b ...) c b ...))").
  set (u := rd "(m 1 2 3 else (4 5))").
  destruct (transform_try_new d) as [tr|e|s|] eqn:Etr; try (vm_compute in Etr; discriminate).
  destruct (spec_select (tr_literals tr) (tr_ellipsis tr) (tr_rules tr) u) as [[[pat tmpl] se]|] eqn:Esel.
  2:{ exfalso. vm_compute in Etr. inversion Etr; subst tr. vm_compute in Esel. discriminate. }
  exists tr, pat, tmpl, se.
  assert (Hfacts : tmpl = rd "'(d (a) (b ...) c b ...)" /\
     se = [(rd "a", BOne (rd "1")); (rd "b", BMany [BOne (rd "2"); BOne (rd "3")]);
           (rd "c", BOne (rd "4")); (rd "d", BOne (rd "5"))] /\
     is_symbol (tr_ellipsis tr) = true /\
     tmpl_ok (is_expanded_variable pat) (tr_ellipsis tr) false tmpl = true /\
     build (rd "(a b ... else (c d))")
       (mk_pattern (CPair (rd "_") (rd "(a b ... else (c d))")) [] [] (tr_ellipsis tr) (tr_literals tr) UNDERSCORE) = Ok pat /\
     S_match (tr_literals tr) (tr_ellipsis tr) (rd "(a b ... else (c d))") (rd "(1 2 3 else (4 5))") = true /\
     no_dup (pvars (tr_literals tr) (tr_ellipsis tr) (rd "(a b ... else (c d))")) = true /\
     smatch (tr_literals tr) (tr_ellipsis tr) (rd "(a b ... else (c d))") (rd "(1 2 3 else (4 5))") = Some se /\
     expand (tr_ellipsis tr) pat (flat se) (expand_fuel tmpl (flat se)) tmpl (env_new pat) =
       Ok (Some (rd "'(5 (1) (2 3) 4 2 3)"), env_new pat)).
  { vm_compute in Etr. inversion Etr; subst tr. vm_compute in Esel. inversion Esel; subst pat tmpl se.
    repeat split; vm_compute; reflexivity. }
  destruct Hfacts as (Ht & Hse & Hell & Hok & Hb & Hsm & Hnd & Hm & Hex).
  destruct (selected_rule_facts _ _ _ _ _ _ _ Hell Hb Hsm Hnd Hm) as (H3 & H4 & H5 & H6).
  repeat (split; [first [assumption | reflexivity]|]). exact Hex.
Qed.

(* ---- stronger than [main_sound]: on the supported fragment the model of
   Transform::transform IS the specification function, for every amount of extra fuel:
   it returns the R7RS expansion when a rule R7RS-matches and reports an error exactly
   when none does (so: sound, complete, terminating, independent of the fuel margin) *)
Lemma selected_expand : forall d tr u pat tmpl se,
  transform_try_new d = Ok tr -> supported_tr tr u = true ->
  spec_select (tr_literals tr) (tr_ellipsis tr) (tr_rules tr) u = Some (pat, tmpl, se) ->
  exists c, sinst (tr_ellipsis tr) tmpl se = SOk c /\
    forall f, (cell_size tmpl * S (S (length (flat se))) <= f)%nat ->
      expand (tr_ellipsis tr) pat (flat se) f tmpl (env_new pat) = Ok (Some c, env_new pat).
Proof.
  intros d tr u pat tmpl se Etr Hs Esel.
  unfold supported_tr in Hs. apply andb_prop in Hs. destruct Hs as [Hell Hall].
  destruct (spec_select_some _ _ _ _ _ _ _ Esel) as (pk & pd & uk & ud & Hin & Hpe & -> & Hm).
  pose proof (proj1 (forallb_forall _ _) Hall _ Hin) as Hrs.
  unfold rule_supported in Hrs. cbn [fst snd] in Hrs. rewrite Hpe in Hrs.
  apply andb_prop in Hrs. destruct Hrs as [Hrs Hnd]. apply andb_prop in Hrs. destruct Hrs as [Hsm Htm].
  pose proof (proj1 (Forall_forall _ _) (try_new_rules d tr Etr) _ Hin) as (pk' & pd' & Hb).
  cbn [fst] in Hb.
  pose proof (build_expr _ _ _ _ (Nat.le_refl _) Hb) as Hex. cbn [p_expr] in Hex.
  rewrite Hpe in Hex. inversion Hex; subst pk' pd'. clear Hex.
  destruct (selected_rule_facts _ _ _ _ _ _ _ Hell Hb Hsm Hnd Hm) as (Hvar & Hexp & Hndse & Hd1).
  exact (expand_sound_sized (tr_ellipsis tr) pat se Hell Hvar Hexp Hndse Hd1 tmpl Htm).
Qed.

Theorem apply_supported : forall d tr u extra,
  transform_try_new d = Ok tr -> supported_tr tr u = true ->
  transform_apply_fuel extra tr u =
  match spec_of_transform tr u with SpecOk c => Ok c | _ => Err E_OTHER end.
Proof.
  intros d tr u extra Etr Hs.
  rewrite (first_matching_rule tr u extra Hs).
  pose proof Hs as Hs'. unfold supported_tr in Hs'. apply andb_prop in Hs'. destruct Hs' as [Hell Hall].
  assert (Hwf : forallb (rule_wf (tr_literals tr) (tr_ellipsis tr)) (tr_rules tr) = true).
  { apply forallb_forall. intros r Hr. eapply rule_supported_wf.
    apply (proj1 (forallb_forall _ _) Hall _ Hr). }
  destruct (spec_select (tr_literals tr) (tr_ellipsis tr) (tr_rules tr) u) as [[[pat tmpl] se]|] eqn:Esel.
  - destruct (selected_expand d tr u pat tmpl se Etr Hs Esel) as (c & Hsi & Hex).
    rewrite Hex by (pose proof (expand_fuel_enough se tmpl); lia).
    destruct (spec_select_some _ _ _ _ _ _ _ Esel) as (pk & pd & uk & ud & _ & _ & -> & _).
    unfold spec_of_transform. rewrite Hwf. cbn [negb].
    rewrite (spec_rules_select _ _ _ _ Hall), Esel, Hsi. reflexivity.
  - unfold spec_of_transform. destruct u; try reflexivity.
    rewrite Hwf. cbn [negb]. rewrite (spec_rules_select _ _ _ _ Hall), Esel. reflexivity.
Qed.
