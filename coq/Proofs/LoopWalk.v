(* LoopWalk.v — C04: loop_space.  A loop written as a self tail call,
       (define walk (lambda (l) (if l (walk (l)) 'done)))
   driven by a chain of n closures (chain 0 = #f, chain (n+1) = a thunk returning chain n), runs
   with the stack pointer at most 9 slots above the start for EVERY n; its twin whose recursive
   call is not in tail position,
       (define cnt (lambda (l) (if l ((lambda (r) r) (cnt (l))) 'done))),
   reaches at least 9 + 5 n slots.  Both by the depth-indexed reference derivations of
   Proofs/LoopSpace.v and eval_fragment3b of Proofs/LoopEval.v; no builtin procedure is used
   (cdr cannot be: Proofs/LoopBuiltins.v refutes builtin_ok for it).                        *)
From Coq Require Import String Lia FMapPositive.
From MW Require Import Model.Base Model.F64 Model.Num Model.Datum Model.TransformDef Model.Transform
  Model.VmTypes Model.Heap Model.Gc Model.VmBase Model.Compile Model.Vm
  Proofs.VmProofs0 Proofs.GcProofs Proofs.SymtabProofs Proofs.QuoteHeapProofs
  Proofs.CompileProofs Proofs.RunProofs Proofs.CompileCorrect Proofs.TailProofs Proofs.FrameSteps
  Proofs.CellFuelProofs Proofs.CompileCorrect2 Proofs.FrameSteps3 Proofs.Closures3 Proofs.CompileCorrect3 Proofs.CompileStatic3
  Proofs.FragmentCorollaries Proofs.EvalFragment3 Proofs.LoopSpace Proofs.LoopExec Proofs.LoopEval.
Open Scope N_scope.

Arguments N.add : simpl never.
Arguments N.sub : simpl never.
Arguments N.mul : simpl never.
Arguments N.eqb : simpl never.
Arguments N.ltb : simpl never.
Arguments N.leb : simpl never.
Arguments N.max : simpl never.

(* ============================================================ the programs *)
Definition v_done : rval3 := R3Base (RDatum (CSym (S_ "done"))).
(* the driver: a chain of n thunks, (lambda () t) with t captured *)
Fixpoint chain (n : nat) : rval3 :=
  match n with
  | O => R3Base (RDatum (CBool false))
  | S k => R3Clo [] [S_ "t"] (YVar (S_ "t")) [chain k]
  end.
Definition call_l : expr3 := YApp (YVar (S_ "l")) [].

Definition walk_body : expr3 :=
  YIf (YVar (S_ "l")) (YApp (YVar (S_ "walk")) [call_l]) (YQuote (CSym (S_ "done"))).
Definition walk_clo : rval3 := R3Clo [S_ "l"] [] walk_body [].
Definition walk_def : expr3 := YDefine (S_ "walk") (YLam [S_ "l"] [S_ "walk"] walk_body).
Definition walk_call : expr3 := YApp (YVar (S_ "walk")) [YVar (S_ "c")].

Definition id_lam : expr3 := YLam [S_ "r"] [] (YVar (S_ "r")).
Definition cnt_body : expr3 :=
  YIf (YVar (S_ "l")) (YApp id_lam [YApp (YVar (S_ "cnt")) [call_l]]) (YQuote (CSym (S_ "done"))).
Definition cnt_clo : rval3 := R3Clo [S_ "l"] [] cnt_body [].
Definition cnt_def : expr3 := YDefine (S_ "cnt") (YLam [S_ "l"] [S_ "cnt"] cnt_body).
(* the call of cnt NOT in tail position of the top-level form *)
Definition cnt_top : expr3 :=
  YIf (YApp (YVar (S_ "cnt")) [YVar (S_ "c")]) (YQuote (CSym (S_ "yes"))) (YQuote (CSym (S_ "no"))).

(* building the chain in a session: (define mk (lambda (t) (lambda () t))) (define c #f) and
   n times (set! c (mk c)) *)
Definition mk_def : expr3 := YDefine (S_ "mk") (YLam [S_ "t"] [] (YLam [] [S_ "t"] (YVar (S_ "t")))).
Definition c_def : expr3 := YDefine (S_ "c") (YConst (CBool false)).
Definition c_step : expr3 := YSet (S_ "c") (YApp (YVar (S_ "mk")) [YVar (S_ "c")]).

Lemma chain_not_undef n : chain n <> R3Base (RDatum CUndef).
Proof. destruct n; discriminate. Qed.

Section Depth.
Variable bsem : N -> list rval -> option rval.
Notation dref3 := (LoopSpace.dref3 bsem).

(* (l) with l bound to a chain of k+1 thunks: one call, not in tail position *)
Lemma call_l_depth rho k : exists dl dn dt,
  dref3 false [S_ "l"] [chain (S k)] rho call_l (chain k) rho dl dn dt /\ dl = 4 /\ dn = 1 /\ dt = 4.
Proof.
  do 3 eexists. split.
  - eapply (D3_app_closure bsem false _ _ _ _ _ [] _ [] [S_ "t"] (YVar (S_ "t")) [chain k]).
    + apply D3_nil.
    + apply (D3_local bsem false _ _ _ _ 0); reflexivity.
    + reflexivity.
    + apply (D3_local bsem true _ _ _ _ 0); reflexivity.
  - vm_compute. auto.
Qed.

(* the body of walk on a chain of n thunks: the measures do NOT depend on n *)
Lemma walk_body_depth rho : rho (S_ "walk") = Some walk_clo -> forall n, exists dl dn dt,
  dref3 true [S_ "l"] [chain n] rho walk_body v_done rho dl dn dt /\ dn <= 4 /\ dt <= 9.
Proof.
  intros Hw. induction n as [|k IH].
  - do 3 eexists. split.
    + eapply D3_if_f; [apply (D3_local bsem false _ _ _ _ 0); reflexivity|reflexivity|apply D3_quote].
    + lia.
  - destruct IH as (dlb & dnb & dtb & D & H1 & H2).
    destruct (call_l_depth rho k) as (dl1 & dn1 & dt1 & D1 & -> & -> & ->).
    do 3 eexists. split.
    + eapply D3_if_t; [apply (D3_local bsem false _ _ _ _ 0); reflexivity|reflexivity|].
      eapply (D3_app_closure bsem true _ _ _ _ _ [chain k] _ [S_ "l"] [] walk_body []).
      * eapply D3_cons; [exact D1|apply D3_nil].
      * apply D3_global; [reflexivity|exact Hw|discriminate].
      * reflexivity.
      * exact D.
    + change (len [call_l]) with 1. lia.
Qed.

(* the top-level form (walk c) *)
Lemma walk_call_depth rho n : rho (S_ "walk") = Some walk_clo -> rho (S_ "c") = Some (chain n) ->
  exists dl dn dt, dref3 true [] [] rho walk_call v_done rho dl dn dt /\ dn <= 2 /\ dt <= 9.
Proof.
  intros Hw Hc. destruct (walk_body_depth rho Hw n) as (dlb & dnb & dtb & D & H1 & H2).
  do 3 eexists. split.
  - eapply (D3_app_closure bsem true _ _ _ _ _ [chain n] _ [S_ "l"] [] walk_body []).
    + eapply D3_cons; [apply D3_global; [reflexivity|exact Hc|apply chain_not_undef]|apply D3_nil].
    + apply D3_global; [reflexivity|exact Hw|discriminate].
    + reflexivity.
    + exact D.
  - change (len [YVar (S_ "c")]) with 1. lia.
Qed.

(* the body of cnt: the lower measure grows with n *)
Lemma cnt_body_depth rho : rho (S_ "cnt") = Some cnt_clo -> forall n, exists dl dn dt,
  dref3 true [S_ "l"] [chain n] rho cnt_body v_done rho dl dn dt /\ 5 * N.of_nat n <= dl.
Proof.
  intros Hw. induction n as [|k IH].
  - do 3 eexists. split.
    + eapply D3_if_f; [apply (D3_local bsem false _ _ _ _ 0); reflexivity|reflexivity|apply D3_quote].
    + lia.
  - destruct IH as (dlb & dnb & dtb & D & H1).
    destruct (call_l_depth rho k) as (dl1 & dn1 & dt1 & D1 & -> & -> & ->).
    do 3 eexists. split.
    + eapply D3_if_t; [apply (D3_local bsem false _ _ _ _ 0); reflexivity|reflexivity|].
      eapply (D3_app_closure bsem true _ _ _ _ _ [v_done] _ [S_ "r"] [] (YVar (S_ "r")) []).
      * eapply D3_cons; [|apply D3_nil].
        eapply (D3_app_closure bsem false _ _ _ _ _ [chain k] _ [S_ "l"] [] cnt_body []).
        -- eapply D3_cons; [exact D1|apply D3_nil].
        -- apply D3_global; [reflexivity|exact Hw|discriminate].
        -- reflexivity.
        -- exact D.
      * apply (D3_lam bsem false [S_ "l"] _ _ [S_ "r"] [] (YVar (S_ "r")) []). constructor.
      * reflexivity.
      * apply (D3_local bsem true _ _ _ _ 0); reflexivity.
    + change (len [call_l]) with 1. change (len [YApp (YVar (S_ "cnt")) [call_l]]) with 1. lia.
Qed.

Lemma cnt_top_depth rho n : rho (S_ "cnt") = Some cnt_clo -> rho (S_ "c") = Some (chain n) ->
  exists dl dn dt, dref3 true [] [] rho cnt_top (R3Base (RDatum (CSym (S_ "yes")))) rho dl dn dt /\
    5 + 5 * N.of_nat n <= dl.
Proof.
  intros Hw Hc. destruct (cnt_body_depth rho Hw n) as (dlb & dnb & dtb & D & H1).
  do 3 eexists. split.
  - eapply (D3_if_t bsem true _ _ _ _ _ _ v_done); [|reflexivity|apply D3_quote].
    eapply (D3_app_closure bsem false _ _ _ _ _ [chain n] _ [S_ "l"] [] cnt_body []).
    + eapply D3_cons; [apply D3_global; [reflexivity|exact Hc|apply chain_not_undef]|apply D3_nil].
    + apply D3_global; [reflexivity|exact Hw|discriminate].
    + reflexivity.
    + exact D.
  - change (len [YVar (S_ "c")]) with 1. lia.
Qed.
End Depth.

(* ============================================================ the theorems *)
Section Space.
Variable ob : N -> M vcell.
Variable bsem : N -> list rval -> option rval.
Hypothesis Hb : forall b, builtin_ok ob bsem b.
Hypothesis He : forall b, builtin_envs ob bsem b.
Notation run_one := (Vm.run_one ob).
Notation steps := (RunProofs.steps ob).

(* exec_bounded: Vm::eval on a top-level expression of the closure fragment, with the stack
   pointer of EVERY intermediate state bounded by the static measures of the derivation, and
   the lower measure attained *)
Theorem exec_bounded e rho r rho' s dl dn dt :
  wf3 e [] -> dref3 bsem true [] [] rho e r rho' dl dn dt -> minv s -> genv_rel3 rho s ->
  transform_expr TRANSFORM_FUEL s (cell_of3 e) = Ok (cell_of3 e) ->
  exists k m m0 m6,
    prepare_eval (cell_of3 e) s = ROk tt m0 /\ sp m0 = sp s /\ steps k m0 = Some m6 /\ run_one m6 = ROk true m /\
    (forall fuel, (S k <= fuel)%nat -> eval ob fuel (cell_of3 e) s = halt_result m) /\
    vrep3 m (acc m) r /\ genv_rel3 rho' m /\ minv m /\ sp m = sp s /\
    (forall j s', (j <= k)%nat -> steps j m0 = Some s' -> sp s' <= sp s + N.max (4 + dn) dt) /\
    (exists j s', (j <= k)%nat /\ steps j m0 = Some s' /\ sp s + 4 + dl <= sp s').
Proof.
  intros Hwf HD MI G Htr.
  destruct (eval_fragment3b ob bsem Hb He e rho r rho' s dl dn dt Hwf HD MI G Htr)
    as (n & m & Hev & (m0 & k & m6 & Hprep & Hsp0 & St & Hhalt & -> & [HW1 HW2]) & V & G' & MI' & _ & Hsp & _).
  exists k, m, m0, m6. split; [exact Hprep|]. split; [exact Hsp0|]. split; [exact St|]. split; [exact Hhalt|].
  split; [exact Hev|]. split; [exact V|]. split; [exact G'|]. split; [exact MI'|]. split; [exact Hsp|]. split.
  - intros j s' Hj Hs'. pose proof (hw_bounds ob k m0 j s' Hj Hs'). lia.
  - destruct (hw_attained ob k m0 m6 St) as (j & s' & Hj & Hs' & E). exists j, s'.
    split; [exact Hj|]. split; [exact Hs'|]. lia.
Qed.

Lemma wf3_walk_call : wf3 walk_call [].
Proof. apply wf3_app. split; [reflexivity|]. split; [reflexivity|]. repeat constructor. Qed.
Lemma wf3_cnt_top : wf3 cnt_top [].
Proof.
  cbn [wf3 cnt_top]. split; [|split; exact I].
  split; [reflexivity|]. split; [reflexivity|]. split; [reflexivity|exact I].
Qed.

(* loop_space: (walk c) with c bound to a chain of n thunks: whatever n, no state of the run has
   its stack pointer more than 9 slots above the start *)
Theorem walk_loop_space n rho s :
  rho (S_ "walk") = Some walk_clo -> rho (S_ "c") = Some (chain n) -> minv s -> genv_rel3 rho s ->
  transform_expr TRANSFORM_FUEL s (cell_of3 walk_call) = Ok (cell_of3 walk_call) ->
  exists k m m0 m6,
    prepare_eval (cell_of3 walk_call) s = ROk tt m0 /\ sp m0 = sp s /\ steps k m0 = Some m6 /\ run_one m6 = ROk true m /\
    (forall fuel, (S k <= fuel)%nat -> eval ob fuel (cell_of3 walk_call) s = halt_result m) /\
    vrep3 m (acc m) v_done /\ genv_rel3 rho m /\ minv m /\ sp m = sp s /\
    (forall j s', (j <= k)%nat -> steps j m0 = Some s' -> sp s' <= sp s + 9).
Proof.
  intros Hw Hc MI G Htr.
  destruct (walk_call_depth bsem rho n Hw Hc) as (dl & dn & dt & D & H1 & H2).
  destruct (exec_bounded walk_call rho v_done rho s dl dn dt wf3_walk_call D MI G Htr)
    as (k & m & m0 & m6 & P1 & P2 & P3 & P4 & P5 & P6 & P7 & P8 & P9 & P10 & _).
  exists k, m, m0, m6. do 9 (split; [assumption|]).
  intros j s' Hj Hs'. pose proof (P10 j s' Hj Hs'). lia.
Qed.

(* the twin: the recursive call of cnt is an operand, and the stack grows linearly: some state
   of the run has its stack pointer at least 9 + 5 n slots above the start *)
Theorem cnt_stack_grows n rho s :
  rho (S_ "cnt") = Some cnt_clo -> rho (S_ "c") = Some (chain n) -> minv s -> genv_rel3 rho s ->
  transform_expr TRANSFORM_FUEL s (cell_of3 cnt_top) = Ok (cell_of3 cnt_top) ->
  exists k m m0 m6,
    prepare_eval (cell_of3 cnt_top) s = ROk tt m0 /\ sp m0 = sp s /\ steps k m0 = Some m6 /\ run_one m6 = ROk true m /\
    (forall fuel, (S k <= fuel)%nat -> eval ob fuel (cell_of3 cnt_top) s = halt_result m) /\
    vrep3 m (acc m) (R3Base (RDatum (CSym (S_ "yes")))) /\ sp m = sp s /\
    (exists j s', (j <= k)%nat /\ steps j m0 = Some s' /\ sp s + 9 + 5 * N.of_nat n <= sp s').
Proof.
  intros Hw Hc MI G Htr.
  destruct (cnt_top_depth bsem rho n Hw Hc) as (dl & dn & dt & D & H1).
  destruct (exec_bounded cnt_top rho _ rho s dl dn dt wf3_cnt_top D MI G Htr)
    as (k & m & m0 & m6 & P1 & P2 & P3 & P4 & P5 & P6 & P7 & P8 & P9 & _ & (j & s' & Hj & Hs' & Hlo)).
  exists k, m, m0, m6. do 6 (split; [assumption|]). split; [exact P9|].
  exists j, s'. split; [exact Hj|]. split; [exact Hs'|]. lia.
Qed.
End Space.

(* ============================================================ no builtin is needed *)
Definition bsem_none : N -> list rval -> option rval := fun _ _ => None.
Lemma builtin_envs_unspecified ob b : builtin_envs ob bsem_none b.
Proof. intros m v m' rs r H. discriminate. Qed.

(* ============================================================ running the model (non-vacuity) *)
From MW Require Model.Builtins.
(* structural equality on the data the programs are made of *)
Fixpoint cell_same (a b : cell) : bool :=
  match a, b with
  | CPair x y, CPair x' y' => cell_same x x' && cell_same y y'
  | CNil, CNil => true
  | CSym s, CSym t => text_eqb s t
  | CBool x, CBool y => Bool.eqb x y
  | _, _ => false
  end.
Lemma cell_same_eq : forall a b, cell_same a b = true -> a = b.
Proof.
  induction a as [x|x| |x|x IHx y IHy|x|x|x| | |x| |]; intros b H; destruct b; cbn [cell_same] in H; try discriminate.
  - apply Bool.eqb_prop in H. congruence.
  - reflexivity.
  - apply andb_prop in H as [H1 H2]. f_equal; auto.
  - apply text_eqb_eq in H. congruence.
Qed.

(* a session: the forms in sequence on the real machine, each must end with Done and must be
   left alone by the macro expander (the premise of the theorems) *)
Fixpoint run_forms (fs : list expr3) (s : vm) : option vm :=
  match fs with
  | [] => Some s
  | e :: r =>
      match transform_expr TRANSFORM_FUEL s (cell_of3 e) with
      | Ok c => if cell_same c (cell_of3 e) then
                  match eval Builtins.other_builtin 400 (cell_of3 e) s with
                  | ROk (Done _) s' => run_forms r s'
                  | _ => None
                  end
                else None
      | _ => None
      end
  end.
(* walk, cnt, mk, c = #f defined and c advanced n times, starting from the empty machine with the
   builtin procedures loaded *)
Definition chain_session (n : nat) : option vm :=
  match Builtins.load_builtins (vm_empty 8192) with
  | ROk _ s0 => run_forms ([walk_def; cnt_def; mk_def; c_def] ++ repeat c_step n) s0
  | _ => None
  end.
(* the maximum of sp over the run of e from s, relative to sp s; the value; the final sp *)
Definition measure (e : expr3) (s : vm) (fuel : nat) : option (N * cell * N) :=
  match transform_expr TRANSFORM_FUEL s (cell_of3 e) with
  | Ok c =>
      if cell_same c (cell_of3 e) then
        match prepare_eval (cell_of3 e) s, eval Builtins.other_builtin fuel (cell_of3 e) s with
        | ROk _ m0, ROk (Done v) s' => Some (hw Builtins.other_builtin fuel m0 - sp s, v, sp s')
        | _, _ => None
        end
      else None
  | _ => None
  end.
Definition measures (n : nat) : option ((N * cell * N) * (N * cell * N)) :=
  match chain_session n with
  | Some s => match measure walk_call s 2000, measure cnt_top s 2000 with
              | Some a, Some b => Some (a, b)
              | _, _ => None
              end
  | None => None
  end.

(* ============================================================ the hypotheses hold along the session *)
Section Session.
Notation ob := Builtins.other_builtin.
Let Hb : forall b, builtin_ok ob bsem_none b := builtin_ok_unspecified ob.
Let He : forall b, builtin_envs ob bsem_none b := builtin_envs_unspecified ob.

(* one form of a session whose reference value is a datum: the state after `Done` satisfies the
   hypotheses of the next form *)
Lemma session_step3 e rho b rho' s fuel v s1 :
  wf3 e [] -> ref_eval3 bsem_none [] [] rho e (R3Base b) rho' -> minv s -> genv_rel3 rho s ->
  transform_expr TRANSFORM_FUEL s (cell_of3 e) = Ok (cell_of3 e) ->
  eval ob fuel (cell_of3 e) s = ROk (Done v) s1 -> minv s1 /\ genv_rel3 rho' s1.
Proof.
  intros Hwf HR MI G Htr Hev.
  destruct (eval_fragment3_done ob bsem_none Hb He e rho b rho' s Hwf HR MI G Htr)
    as (n & m & V & G' & MI' & X & _ & _ & _ & _ & Hh & Hd).
  assert (E1 : eval ob (Nat.max fuel n) (cell_of3 e) s = ROk (Done v) s1).
  { eapply eval_fuel_mono_eq; [|exact Hev|discriminate]. lia. }
  pose proof (Hh (Nat.max fuel n) ltac:(lia)) as E2.
  assert (Hn : halt_result m <> RNoFuel) by (rewrite <- E2, E1; discriminate).
  pose proof (Hd (or_introl Hn) (Nat.max fuel n) ltac:(lia)) as E3.
  rewrite E1 in E3. injection E3 as _ ->. apply done_state_ok; assumption.
Qed.

Lemma run_forms_cons e r s : run_forms (e :: r) s =
  match transform_expr TRANSFORM_FUEL s (cell_of3 e) with
  | Ok c => if cell_same c (cell_of3 e) then
              match eval ob 400 (cell_of3 e) s with
              | ROk (Done _) s' => run_forms r s'
              | _ => None
              end
            else None
  | _ => None
  end.
Proof. reflexivity. Qed.

Lemma run_forms_step e fs s s' rho b rho' :
  wf3 e [] -> ref_eval3 bsem_none [] [] rho e (R3Base b) rho' -> minv s -> genv_rel3 rho s ->
  run_forms (e :: fs) s = Some s' -> exists s1, minv s1 /\ genv_rel3 rho' s1 /\ run_forms fs s1 = Some s'.
Proof.
  intros Hwf HR MI G H. rewrite run_forms_cons in H.
  destruct (transform_expr TRANSFORM_FUEL s (cell_of3 e)) as [c| | |] eqn:Et; try discriminate.
  destruct (cell_same c (cell_of3 e)) eqn:Ec; [|discriminate]. apply cell_same_eq in Ec. subst c.
  destruct (eval ob 400 (cell_of3 e) s) as [[v| |? ? ?] s1|? ? ?| |] eqn:Ev; try discriminate.
  exists s1. destruct (session_step3 e rho b rho' s 400%nat v s1 Hwf HR MI G Et Ev) as [M1 G1]. auto.
Qed.
End Session.

(* ============================================================ the chain session establishes the hypotheses *)
From MW Require Proofs.BootGenv.
Definition mk_clo : rval3 := R3Clo [S_ "t"] [] (YLam [] [S_ "t"] (YVar (S_ "t"))) [].
Definition chain_env (rho : env3) (n : nat) : Prop :=
  rho (S_ "walk") = Some walk_clo /\ rho (S_ "cnt") = Some cnt_clo /\ rho (S_ "mk") = Some mk_clo /\
  rho (S_ "c") = Some (chain n).
Definition v_void : rval3 := R3Base (RDatum CVoid).

Lemma wf3_call_l : wf3 call_l [S_ "l"].
Proof. apply wf3_app. split; [reflexivity|]. split; [reflexivity|constructor]. Qed.
Lemma wf3_walk_body : wf3 walk_body [S_ "l"].
Proof.
  cbn [wf3 walk_body]. split; [reflexivity|]. split; [|cbn; tauto].
  split; [reflexivity|]. split; [reflexivity|]. split; [exact wf3_call_l|exact I].
Qed.
Lemma wf3_walk_def : wf3 walk_def [].
Proof.
  cbn [wf3 walk_def]. split; [reflexivity|]. split; [reflexivity|].
  split; [intros x [<-|[]]; reflexivity|]. split; [reflexivity|]. split; [vm_compute; reflexivity|]. split.
  { intros x Hx. right; left. reflexivity. }
  exact wf3_walk_body.
Qed.
Lemma wf3_cnt_body : wf3 cnt_body [S_ "l"].
Proof.
  cbn [wf3 cnt_body]. split; [reflexivity|]. split; [|cbn; tauto].
  split; [reflexivity|]. split.
  { split; [intros x [<-|[]]; reflexivity|]. split; [reflexivity|]. split; [vm_compute; reflexivity|].
    split; [intros x [<-|[]]; left; left; reflexivity|reflexivity]. }
  split; [|exact I]. split; [reflexivity|]. split; [reflexivity|]. split; [exact wf3_call_l|exact I].
Qed.
Lemma wf3_cnt_def : wf3 cnt_def [].
Proof.
  cbn [wf3 cnt_def]. split; [reflexivity|]. split; [reflexivity|].
  split; [intros x [<-|[]]; reflexivity|]. split; [reflexivity|]. split; [vm_compute; reflexivity|]. split.
  { intros x Hx. right; left. reflexivity. }
  exact wf3_cnt_body.
Qed.
Lemma wf3_mk_def : wf3 mk_def [].
Proof.
  cbn [wf3 mk_def]. split; [reflexivity|]. split; [reflexivity|].
  split; [intros x [<-|[]]; reflexivity|]. split; [reflexivity|]. split; [vm_compute; reflexivity|]. split.
  { intros x [<-|[]]. left; left; reflexivity. }
  split; [intros x []|]. split; [reflexivity|]. split; [vm_compute; reflexivity|].
  split; [intros x [<-|[]]; right; right; left; reflexivity|reflexivity].
Qed.
Lemma wf3_c_def : wf3 c_def [].
Proof. cbn [wf3 c_def]. split; [reflexivity|]. split; [reflexivity|]. split; [reflexivity|cbn; tauto]. Qed.
Lemma wf3_c_step : wf3 c_step [].
Proof.
  cbn [wf3 c_step]. split; [reflexivity|]. split; [reflexivity|].
  split; [reflexivity|]. split; [reflexivity|]. split; [reflexivity|exact I].
Qed.

Section SessionOk.
Notation ob := Builtins.other_builtin.
Notation ref_eval3 := (Closures3.ref_eval3 bsem_none).

Lemma def_lam_ref rho x ps fs body : capnames [] fs = [] ->
  ref_eval3 [] [] rho (YDefine x (YLam ps fs body)) v_void (upd3 rho x (R3Clo ps [] body [])).
Proof.
  intros Hc. apply R3_define. pose proof (R3_lam bsem_none [] [] rho ps fs body []) as H.
  rewrite Hc in H. apply H. constructor.
Qed.
Lemma c_def_ref rho : ref_eval3 [] [] rho c_def v_void (upd3 rho (S_ "c") (chain 0)).
Proof. apply R3_define. apply R3_const. Qed.
Lemma c_step_ref rho k : chain_env rho k ->
  ref_eval3 [] [] rho c_step v_void (upd3 rho (S_ "c") (chain (S k))).
Proof.
  intros (_ & _ & Hm & Hc). eapply R3_set; [|exact Hc].
  eapply (R3_app_closure bsem_none _ _ _ _ _ [chain k] _ [S_ "t"] [] (YLam [] [S_ "t"] (YVar (S_ "t"))) []).
  - eapply R3_cons; [apply R3_global; [reflexivity|exact Hc|apply chain_not_undef]|apply R3_nil].
  - apply R3_global; [reflexivity|exact Hm|discriminate].
  - reflexivity.
  - apply (R3_lam bsem_none [S_ "t"] [chain k] _ [] [S_ "t"] (YVar (S_ "t")) [chain k]).
    constructor; [|constructor]. exists 0. split; reflexivity.
Qed.

Lemma chain_steps n : forall k s s' rho, minv s -> genv_rel3 rho s -> chain_env rho k ->
  run_forms (repeat c_step n) s = Some s' ->
  exists rho', minv s' /\ genv_rel3 rho' s' /\ chain_env rho' (n + k).
Proof.
  induction n as [|n IH]; intros k s s' rho MI G E H.
  - cbn [repeat run_forms] in H. injection H as <-. exists rho. auto.
  - cbn [repeat] in H.
    destruct (run_forms_step c_step _ s s' rho _ _ wf3_c_step (c_step_ref rho k E) MI G H) as (s1 & M1 & G1 & H1).
    destruct (IH (S k) s1 s' _ M1 G1) as (rho' & M' & G' & E'); [|exact H1|].
    + destruct E as (E1 & E2 & E3 & E4). repeat split; [exact E1|exact E2|exact E3].
    + exists rho'. replace (S n + k)%nat with (n + S k)%nat by lia. auto.
Qed.

Lemma chain_session_unfold n : chain_session n =
  match Builtins.load_builtins (vm_empty 8192) with
  | ROk _ s0 => run_forms (walk_def :: cnt_def :: mk_def :: c_def :: repeat c_step n) s0
  | _ => None
  end.
Proof. reflexivity. Qed.

(* the state after the session: minv, and the globals walk, cnt, mk, c = chain n are represented *)
Theorem chain_session_ok n s : chain_session n = Some s ->
  minv s /\ exists rho, genv_rel3 rho s /\ chain_env rho n.
Proof.
  rewrite chain_session_unfold.
  destruct (BootGenv.load_builtins_ok (vm_empty 8192) (minv_vm_empty 8192 eq_refl)) as (s0 & E0 & MI0 & _).
  rewrite E0. intros H.
  destruct (run_forms_step walk_def _ s0 s rho3_empty _ _ wf3_walk_def (def_lam_ref _ (S_ "walk") [S_ "l"] [S_ "walk"] walk_body eq_refl) MI0
              (genv_rel3_empty s0) H) as (s1 & M1 & G1 & H1).
  destruct (run_forms_step cnt_def _ s1 s _ _ _ wf3_cnt_def (def_lam_ref _ (S_ "cnt") [S_ "l"] [S_ "cnt"] cnt_body eq_refl) M1 G1 H1) as (s2 & M2 & G2 & H2).
  destruct (run_forms_step mk_def _ s2 s _ _ _ wf3_mk_def (def_lam_ref _ (S_ "mk") [S_ "t"] [] (YLam [] [S_ "t"] (YVar (S_ "t"))) eq_refl) M2 G2 H2) as (s3 & M3 & G3 & H3).
  destruct (run_forms_step c_def _ s3 s _ _ _ wf3_c_def (c_def_ref _) M3 G3 H3) as (s4 & M4 & G4 & H4).
  destruct (chain_steps n 0 s4 s _ M4 G4 ltac:(repeat split) H4) as (rho' & M' & G' & E').
  rewrite Nat.add_0_r in E'. split; [exact M'|]. exists rho'. auto.
Qed.

(* loop_space on the real machine: after the session that binds c to a chain of n thunks,
   (walk c) runs with the stack pointer at most 9 slots above the start — for every n *)
Theorem walk_session_space n s : chain_session n = Some s ->
  transform_expr TRANSFORM_FUEL s (cell_of3 walk_call) = Ok (cell_of3 walk_call) ->
  exists k m m0 m6,
    prepare_eval (cell_of3 walk_call) s = ROk tt m0 /\ sp m0 = sp s /\ RunProofs.steps ob k m0 = Some m6 /\
    Vm.run_one ob m6 = ROk true m /\
    (forall fuel, (S k <= fuel)%nat -> eval ob fuel (cell_of3 walk_call) s = halt_result m) /\
    vrep3 m (acc m) v_done /\ minv m /\ sp m = sp s /\
    (forall j s', (j <= k)%nat -> RunProofs.steps ob j m0 = Some s' -> sp s' <= sp s + 9).
Proof.
  intros H Htr. destruct (chain_session_ok n s H) as (MI & rho & G & E1 & _ & _ & E4).
  destruct (walk_loop_space ob bsem_none (builtin_ok_unspecified ob) (builtin_envs_unspecified ob) n rho s E1 E4 MI G Htr)
    as (k & m & m0 & m6 & P1 & P2 & P3 & P4 & P5 & P6 & _ & P8 & P9 & P10).
  exists k, m, m0, m6. auto 10.
Qed.

(* ... while the twin reaches at least 9 + 5 n slots *)
Theorem cnt_session_grows n s : chain_session n = Some s ->
  transform_expr TRANSFORM_FUEL s (cell_of3 cnt_top) = Ok (cell_of3 cnt_top) ->
  exists k m m0 m6,
    prepare_eval (cell_of3 cnt_top) s = ROk tt m0 /\ sp m0 = sp s /\ RunProofs.steps ob k m0 = Some m6 /\
    Vm.run_one ob m6 = ROk true m /\
    (forall fuel, (S k <= fuel)%nat -> eval ob fuel (cell_of3 cnt_top) s = halt_result m) /\
    vrep3 m (acc m) (R3Base (RDatum (CSym (S_ "yes")))) /\ sp m = sp s /\
    (exists j s', (j <= k)%nat /\ RunProofs.steps ob j m0 = Some s' /\ sp s + 9 + 5 * N.of_nat n <= sp s').
Proof.
  intros H Htr. destruct (chain_session_ok n s H) as (MI & rho & G & _ & E2 & _ & E4).
  exact (cnt_stack_grows ob bsem_none (builtin_ok_unspecified ob) (builtin_envs_unspecified ob) n rho s E2 E4 MI G Htr).
Qed.
End SessionOk.

(* ============================================================ the model agrees (vm_compute) *)
(* chains of 1, 5 and 50 thunks on the machine `vm_empty 8192` with the builtins loaded:
   (high-water mark above the start, value, final sp) of (walk c) and of the twin *)
Lemma measures_1 : measures 1 = Some ((9, CSym (S_ "done"), 0), (14, CSym (S_ "yes"), 0)).
Proof. vm_compute. reflexivity. Qed.
Lemma measures_5 : measures 5 = Some ((9, CSym (S_ "done"), 0), (34, CSym (S_ "yes"), 0)).
Proof. vm_compute. reflexivity. Qed.
Lemma measures_50 : measures 50 = Some ((9, CSym (S_ "done"), 0), (259, CSym (S_ "yes"), 0)).
Proof. vm_compute. reflexivity. Qed.

(* ============================================================ the concrete syntax *)
Definition parses_to (src : text) (e : expr3) : Prop :=
  match Parse.parse_text src with Ok (d, _) => d = cell_of3 e | _ => False end.
Lemma programs_parse :
  parses_to (S_ "(define walk (lambda (l) (if l (walk (l)) 'done)))"%string) walk_def /\
  parses_to (S_ "(walk c)"%string) walk_call /\
  parses_to (S_ "(define cnt (lambda (l) (if l ((lambda (r) r) (cnt (l))) 'done)))"%string) cnt_def /\
  parses_to (S_ "(if (cnt c) 'yes 'no)"%string) cnt_top /\
  parses_to (S_ "(define mk (lambda (t) (lambda () t)))"%string) mk_def /\
  parses_to (S_ "(define c #f)"%string) c_def /\
  parses_to (S_ "(set! c (mk c))"%string) c_step.
Proof. vm_compute. repeat split. Qed.

(* ============================================================ mutual recursion *)
(* (define ping (lambda (l) (if l (pong (l)) 'done))) (define pong (lambda (l) (if l (ping (l)) 'done))) *)
Definition ping_body : expr3 :=
  YIf (YVar (S_ "l")) (YApp (YVar (S_ "pong")) [call_l]) (YQuote (CSym (S_ "done"))).
Definition pong_body : expr3 :=
  YIf (YVar (S_ "l")) (YApp (YVar (S_ "ping")) [call_l]) (YQuote (CSym (S_ "done"))).
Definition ping_clo : rval3 := R3Clo [S_ "l"] [] ping_body [].
Definition pong_clo : rval3 := R3Clo [S_ "l"] [] pong_body [].
Definition ping_def : expr3 := YDefine (S_ "ping") (YLam [S_ "l"] [S_ "pong"] ping_body).
Definition pong_def : expr3 := YDefine (S_ "pong") (YLam [S_ "l"] [S_ "ping"] pong_body).
Definition ping_call : expr3 := YApp (YVar (S_ "ping")) [YVar (S_ "c")].

Section Mutual.
Variable bsem : N -> list rval -> option rval.
Notation dref3 := (LoopSpace.dref3 bsem).

Lemma pingpong_depth rho : rho (S_ "ping") = Some ping_clo -> rho (S_ "pong") = Some pong_clo -> forall n,
  (exists dl dn dt, dref3 true [S_ "l"] [chain n] rho ping_body v_done rho dl dn dt /\ dn <= 4 /\ dt <= 9) /\
  (exists dl dn dt, dref3 true [S_ "l"] [chain n] rho pong_body v_done rho dl dn dt /\ dn <= 4 /\ dt <= 9).
Proof.
  intros Hp Hq. induction n as [|k [IHp IHq]].
  - split; do 3 eexists;
      (split; [eapply D3_if_f; [apply (D3_local bsem false _ _ _ _ 0); reflexivity|reflexivity|apply D3_quote]|lia]).
  - destruct IHp as (dlp & dnp & dtp & Dp & P1 & P2). destruct IHq as (dlq & dnq & dtq & Dq & Q1 & Q2).
    destruct (call_l_depth bsem rho k) as (dl1 & dn1 & dt1 & D1 & -> & -> & ->).
    split; do 3 eexists.
    + split.
      * eapply D3_if_t; [apply (D3_local bsem false _ _ _ _ 0); reflexivity|reflexivity|].
        eapply (D3_app_closure bsem true _ _ _ _ _ [chain k] _ [S_ "l"] [] pong_body []).
        -- eapply D3_cons; [exact D1|apply D3_nil].
        -- apply D3_global; [reflexivity|exact Hq|discriminate].
        -- reflexivity.
        -- exact Dq.
      * change (len [call_l]) with 1. lia.
    + split.
      * eapply D3_if_t; [apply (D3_local bsem false _ _ _ _ 0); reflexivity|reflexivity|].
        eapply (D3_app_closure bsem true _ _ _ _ _ [chain k] _ [S_ "l"] [] ping_body []).
        -- eapply D3_cons; [exact D1|apply D3_nil].
        -- apply D3_global; [reflexivity|exact Hp|discriminate].
        -- reflexivity.
        -- exact Dp.
      * change (len [call_l]) with 1. lia.
Qed.

Lemma ping_call_depth rho n : rho (S_ "ping") = Some ping_clo -> rho (S_ "pong") = Some pong_clo ->
  rho (S_ "c") = Some (chain n) ->
  exists dl dn dt, dref3 true [] [] rho ping_call v_done rho dl dn dt /\ dn <= 2 /\ dt <= 9.
Proof.
  intros Hp Hq Hc. destruct (pingpong_depth rho Hp Hq n) as [(dlb & dnb & dtb & D & H1 & H2) _].
  do 3 eexists. split.
  - eapply (D3_app_closure bsem true _ _ _ _ _ [chain n] _ [S_ "l"] [] ping_body []).
    + eapply D3_cons; [apply D3_global; [reflexivity|exact Hc|apply chain_not_undef]|apply D3_nil].
    + apply D3_global; [reflexivity|exact Hp|discriminate].
    + reflexivity.
    + exact D.
  - change (len [YVar (S_ "c")]) with 1. lia.
Qed.
End Mutual.

Lemma wf3_ping_call : wf3 ping_call [].
Proof. apply wf3_app. split; [reflexivity|]. split; [reflexivity|]. repeat constructor. Qed.

(* loop_space for MUTUAL tail recursion: n alternating tail calls, the same bound *)
Theorem pingpong_loop_space ob bsem :
  (forall b, builtin_ok ob bsem b) -> (forall b, builtin_envs ob bsem b) ->
  forall n rho s,
  rho (S_ "ping") = Some ping_clo -> rho (S_ "pong") = Some pong_clo -> rho (S_ "c") = Some (chain n) ->
  minv s -> genv_rel3 rho s ->
  transform_expr TRANSFORM_FUEL s (cell_of3 ping_call) = Ok (cell_of3 ping_call) ->
  exists k m m0 m6,
    prepare_eval (cell_of3 ping_call) s = ROk tt m0 /\ sp m0 = sp s /\ RunProofs.steps ob k m0 = Some m6 /\
    Vm.run_one ob m6 = ROk true m /\
    (forall fuel, (S k <= fuel)%nat -> eval ob fuel (cell_of3 ping_call) s = halt_result m) /\
    vrep3 m (acc m) v_done /\ genv_rel3 rho m /\ minv m /\ sp m = sp s /\
    (forall j s', (j <= k)%nat -> RunProofs.steps ob j m0 = Some s' -> sp s' <= sp s + 9).
Proof.
  intros Hb He n rho s Hp Hq Hc MI G Htr.
  destruct (ping_call_depth bsem rho n Hp Hq Hc) as (dl & dn & dt & D & H1 & H2).
  destruct (exec_bounded ob bsem Hb He ping_call rho v_done rho s dl dn dt wf3_ping_call D MI G Htr)
    as (k & m & m0 & m6 & P1 & P2 & P3 & P4 & P5 & P6 & P7 & P8 & P9 & P10 & _).
  exists k, m, m0, m6. do 9 (split; [assumption|]).
  intros j s' Hj Hs'. pose proof (P10 j s' Hj Hs'). lia.
Qed.

(* the model: ping/pong on chains of 1, 5, 50 thunks *)
Definition pingpong_measure (n : nat) : option (N * cell * N) :=
  match Builtins.load_builtins (vm_empty 8192) with
  | ROk _ s0 =>
      match run_forms ([ping_def; pong_def; mk_def; c_def] ++ repeat c_step n) s0 with
      | Some s => measure ping_call s 2000
      | None => None
      end
  | _ => None
  end.
Lemma pingpong_measures :
  pingpong_measure 1 = Some (9, CSym (S_ "done"), 0) /\ pingpong_measure 5 = Some (9, CSym (S_ "done"), 0) /\
  pingpong_measure 50 = Some (9, CSym (S_ "done"), 0).
Proof. vm_compute. repeat split. Qed.
