(* LoopWalk.v — C04: loop_space.  A loop written as a self tail call,
       (define walk (lambda (l) (if l (walk (l)) 'done)))
   driven by a chain of n closures (chain 0 = #f, chain (n+1) = a thunk returning chain n), runs
   with the stack pointer at most 9 slots above the start for EVERY n; its twin whose recursive
   call is not in tail position,
       (define cnt (lambda (l) (if l ((lambda (r) r) (cnt (l))) 'done))),
   reaches at least 9 + 5 n slots.  Both by the depth-indexed reference derivations of
   Proofs/LoopSpace.v and eval_fragment3b of Proofs/LoopEval.v; no builtin procedure is used
   (cdr cannot be: Proofs/LoopBuiltins.v refutes builtin_ok for it).                        *)
From Coq Require Import String Lia FMapPositive.
From MW Require Import Model.Base Model.F64 Model.Num Model.Datum Model.TransformDef Model.Transform
  Model.VmTypes Model.Heap Model.Gc Model.VmBase Model.Compile Model.Vm
  Proofs.VmProofs0 Proofs.GcProofs Proofs.SymtabProofs Proofs.QuoteHeapProofs
  Proofs.CompileProofs Proofs.RunProofs Proofs.CompileCorrect Proofs.TailProofs Proofs.FrameSteps
  Proofs.CellFuelProofs Proofs.CompileCorrect2 Proofs.FrameSteps3 Proofs.Closures3 Proofs.CompileCorrect3 Proofs.CompileStatic3
  Proofs.FragmentCorollaries Proofs.EvalFragment3 Proofs.LoopSpace Proofs.LoopExec Proofs.LoopEval.
Open Scope N_scope.

Arguments N.add : simpl never.
Arguments N.sub : simpl never.
Arguments N.mul : simpl never.
Arguments N.eqb : simpl never.
Arguments N.ltb : simpl never.
Arguments N.leb : simpl never.
Arguments N.max : simpl never.

(* ============================================================ the programs *)
Definition v_done : rval3 := R3Base (RDatum (CSym (S_ "done"))).
(* the driver: a chain of n thunks, (lambda () t) with t captured *)
Fixpoint chain (n : nat) : rval3 :=
  match n with
  | O => R3Base (RDatum (CBool false))
  | S k => R3Clo [] [S_ "t"] (YVar (S_ "t")) [chain k]
  end.
Definition call_l : expr3 := YApp (YVar (S_ "l")) [].

Definition walk_body : expr3 :=
  YIf (YVar (S_ "l")) (YApp (YVar (S_ "walk")) [call_l]) (YQuote (CSym (S_ "done"))).
Definition walk_clo : rval3 := R3Clo [S_ "l"] [] walk_body [].
Definition walk_def : expr3 := YDefine (S_ "walk") (YLam [S_ "l"] [S_ "walk"] walk_body).
Definition walk_call : expr3 := YApp (YVar (S_ "walk")) [YVar (S_ "c")].

Definition id_lam : expr3 := YLam [S_ "r"] [] (YVar (S_ "r")).
Definition cnt_body : expr3 :=
  YIf (YVar (S_ "l")) (YApp id_lam [YApp (YVar (S_ "cnt")) [call_l]]) (YQuote (CSym (S_ "done"))).
Definition cnt_clo : rval3 := R3Clo [S_ "l"] [] cnt_body [].
Definition cnt_def : expr3 := YDefine (S_ "cnt") (YLam [S_ "l"] [S_ "cnt"] cnt_body).
(* the call of cnt NOT in tail position of the top-level form *)
Definition cnt_top : expr3 :=
  YIf (YApp (YVar (S_ "cnt")) [YVar (S_ "c")]) (YQuote (CSym (S_ "yes"))) (YQuote (CSym (S_ "no"))).

(* building the chain in a session: (define mk (lambda (t) (lambda () t))) (define c #f) and
   n times (set! c (mk c)) *)
Definition mk_def : expr3 := YDefine (S_ "mk") (YLam [S_ "t"] [] (YLam [] [S_ "t"] (YVar (S_ "t")))).
Definition c_def : expr3 := YDefine (S_ "c") (YConst (CBool false)).
Definition c_step : expr3 := YSet (S_ "c") (YApp (YVar (S_ "mk")) [YVar (S_ "c")]).

Lemma chain_not_undef n : chain n <> R3Base (RDatum CUndef).
Proof. destruct n; discriminate. Qed.

Section Depth.
Variable bsem : N -> list rval -> option rval.
Notation dref3 := (LoopSpace.dref3 bsem).

(* (l) with l bound to a chain of k+1 thunks: one call, not in tail position *)
Lemma call_l_depth rho k : exists dl dn dt,
  dref3 false [S_ "l"] [chain (S k)] rho call_l (chain k) rho dl dn dt /\ dl = 4 /\ dn = 1 /\ dt = 4.
Proof.
  do 3 eexists. split.
  - eapply (D3_app_closure bsem false _ _ _ _ _ [] _ [] [S_ "t"] (YVar (S_ "t")) [chain k]).
    + apply D3_nil.
    + apply (D3_local bsem false _ _ _ _ 0); reflexivity.
    + reflexivity.
    + apply (D3_local bsem true _ _ _ _ 0); reflexivity.
  - vm_compute. auto.
Qed.

(* the body of walk on a chain of n thunks: the measures do NOT depend on n *)
Lemma walk_body_depth rho : rho (S_ "walk") = Some walk_clo -> forall n, exists dl dn dt,
  dref3 true [S_ "l"] [chain n] rho walk_body v_done rho dl dn dt /\ dn <= 4 /\ dt <= 9.
Proof.
  intros Hw. induction n as [|k IH].
  - do 3 eexists. split.
    + eapply D3_if_f; [apply (D3_local bsem false _ _ _ _ 0); reflexivity|reflexivity|apply D3_quote].
    + lia.
  - destruct IH as (dlb & dnb & dtb & D & H1 & H2).
    destruct (call_l_depth rho k) as (dl1 & dn1 & dt1 & D1 & -> & -> & ->).
    do 3 eexists. split.
    + eapply D3_if_t; [apply (D3_local bsem false _ _ _ _ 0); reflexivity|reflexivity|].
      eapply (D3_app_closure bsem true _ _ _ _ _ [chain k] _ [S_ "l"] [] walk_body []).
      * eapply D3_cons; [exact D1|apply D3_nil].
      * apply D3_global; [reflexivity|exact Hw|discriminate].
      * reflexivity.
      * exact D.
    + change (len [call_l]) with 1. lia.
Qed.

(* the top-level form (walk c) *)
Lemma walk_call_depth rho n : rho (S_ "walk") = Some walk_clo -> rho (S_ "c") = Some (chain n) ->
  exists dl dn dt, dref3 true [] [] rho walk_call v_done rho dl dn dt /\ dn <= 2 /\ dt <= 9.
Proof.
  intros Hw Hc. destruct (walk_body_depth rho Hw n) as (dlb & dnb & dtb & D & H1 & H2).
  do 3 eexists. split.
  - eapply (D3_app_closure bsem true _ _ _ _ _ [chain n] _ [S_ "l"] [] walk_body []).
    + eapply D3_cons; [apply D3_global; [reflexivity|exact Hc|apply chain_not_undef]|apply D3_nil].
    + apply D3_global; [reflexivity|exact Hw|discriminate].
    + reflexivity.
    + exact D.
  - change (len [YVar (S_ "c")]) with 1. lia.
Qed.

(* the body of cnt: the lower measure grows with n *)
Lemma cnt_body_depth rho : rho (S_ "cnt") = Some cnt_clo -> forall n, exists dl dn dt,
  dref3 true [S_ "l"] [chain n] rho cnt_body v_done rho dl dn dt /\ 5 * N.of_nat n <= dl.
Proof.
  intros Hw. induction n as [|k IH].
  - do 3 eexists. split.
    + eapply D3_if_f; [apply (D3_local bsem false _ _ _ _ 0); reflexivity|reflexivity|apply D3_quote].
    + lia.
  - destruct IH as (dlb & dnb & dtb & D & H1).
    destruct (call_l_depth rho k) as (dl1 & dn1 & dt1 & D1 & -> & -> & ->).
    do 3 eexists. split.
    + eapply D3_if_t; [apply (D3_local bsem false _ _ _ _ 0); reflexivity|reflexivity|].
      eapply (D3_app_closure bsem true _ _ _ _ _ [v_done] _ [S_ "r"] [] (YVar (S_ "r")) []).
      * eapply D3_cons; [|apply D3_nil].
        eapply (D3_app_closure bsem false _ _ _ _ _ [chain k] _ [S_ "l"] [] cnt_body []).
        -- eapply D3_cons; [exact D1|apply D3_nil].
        -- apply D3_global; [reflexivity|exact Hw|discriminate].
        -- reflexivity.
        -- exact D.
      * apply (D3_lam bsem false [S_ "l"] _ _ [S_ "r"] [] (YVar (S_ "r")) []). constructor.
      * reflexivity.
      * apply (D3_local bsem true _ _ _ _ 0); reflexivity.
    + change (len [call_l]) with 1. change (len [YApp (YVar (S_ "cnt")) [call_l]]) with 1. lia.
Qed.

Lemma cnt_top_depth rho n : rho (S_ "cnt") = Some cnt_clo -> rho (S_ "c") = Some (chain n) ->
  exists dl dn dt, dref3 true [] [] rho cnt_top (R3Base (RDatum (CSym (S_ "yes")))) rho dl dn dt /\
    5 + 5 * N.of_nat n <= dl.
Proof.
  intros Hw Hc. destruct (cnt_body_depth rho Hw n) as (dlb & dnb & dtb & D & H1).
  do 3 eexists. split.
  - eapply (D3_if_t bsem true _ _ _ _ _ _ v_done); [|reflexivity|apply D3_quote].
    eapply (D3_app_closure bsem false _ _ _ _ _ [chain n] _ [S_ "l"] [] cnt_body []).
    + eapply D3_cons; [apply D3_global; [reflexivity|exact Hc|apply chain_not_undef]|apply D3_nil].
    + apply D3_global; [reflexivity|exact Hw|discriminate].
    + reflexivity.
    + exact D.
  - change (len [YVar (S_ "c")]) with 1. lia.
Qed.
End Depth.

(* ============================================================ the theorems *)
Section Space.
Variable ob : N -> M vcell.
Variable bsem : N -> list rval -> option rval.
Hypothesis Hb : forall b, builtin_ok ob bsem b.
Hypothesis He : forall b, builtin_envs ob bsem b.
Notation run_one := (Vm.run_one ob).
Notation steps := (RunProofs.steps ob).

(* exec_bounded: Vm::eval on a top-level expression of the closure fragment, with the stack
   pointer of EVERY intermediate state bounded by the static measures of the derivation, and
   the lower measure attained *)
Theorem exec_bounded e rho r rho' s dl dn dt :
  wf3 e [] -> dref3 bsem true [] [] rho e r rho' dl dn dt -> minv s -> genv_rel3 rho s ->
  transform_expr TRANSFORM_FUEL s (cell_of3 e) = Ok (cell_of3 e) ->
  exists k m m0 m6,
    prepare_eval (cell_of3 e) s = ROk tt m0 /\ sp m0 = sp s /\ steps k m0 = Some m6 /\ run_one m6 = ROk true m /\
    (forall fuel, (S k <= fuel)%nat -> eval ob fuel (cell_of3 e) s = halt_result m) /\
    vrep3 m (acc m) r /\ genv_rel3 rho' m /\ minv m /\ sp m = sp s /\
    (forall j s', (j <= k)%nat -> steps j m0 = Some s' -> sp s' <= sp s + N.max (4 + dn) dt) /\
    (exists j s', (j <= k)%nat /\ steps j m0 = Some s' /\ sp s + 4 + dl <= sp s').
Proof.
  intros Hwf HD MI G Htr.
  destruct (eval_fragment3b ob bsem Hb He e rho r rho' s dl dn dt Hwf HD MI G Htr)
    as (n & m & Hev & (m0 & k & m6 & Hprep & Hsp0 & St & Hhalt & -> & [HW1 HW2]) & V & G' & MI' & _ & Hsp & _).
  exists k, m, m0, m6. split; [exact Hprep|]. split; [exact Hsp0|]. split; [exact St|]. split; [exact Hhalt|].
  split; [exact Hev|]. split; [exact V|]. split; [exact G'|]. split; [exact MI'|]. split; [exact Hsp|]. split.
  - intros j s' Hj Hs'. pose proof (hw_bounds ob k m0 j s' Hj Hs'). lia.
  - destruct (hw_attained ob k m0 m6 St) as (j & s' & Hj & Hs' & E). exists j, s'.
    split; [exact Hj|]. split; [exact Hs'|]. lia.
Qed.

Lemma wf3_walk_call : wf3 walk_call [].
Proof. apply wf3_app. split; [reflexivity|]. split; [reflexivity|]. repeat constructor. Qed.
Lemma wf3_cnt_top : wf3 cnt_top [].
Proof.
  cbn [wf3 cnt_top]. split; [|split; exact I].
  split; [reflexivity|]. split; [reflexivity|]. split; [reflexivity|exact I].
Qed.

(* loop_space: (walk c) with c bound to a chain of n thunks: whatever n, no state of the run has
   its stack pointer more than 9 slots above the start *)
Theorem walk_loop_space n rho s :
  rho (S_ "walk") = Some walk_clo -> rho (S_ "c") = Some (chain n) -> minv s -> genv_rel3 rho s ->
  transform_expr TRANSFORM_FUEL s (cell_of3 walk_call) = Ok (cell_of3 walk_call) ->
  exists k m m0 m6,
    prepare_eval (cell_of3 walk_call) s = ROk tt m0 /\ sp m0 = sp s /\ steps k m0 = Some m6 /\ run_one m6 = ROk true m /\
    (forall fuel, (S k <= fuel)%nat -> eval ob fuel (cell_of3 walk_call) s = halt_result m) /\
    vrep3 m (acc m) v_done /\ genv_rel3 rho m /\ minv m /\ sp m = sp s /\
    (forall j s', (j <= k)%nat -> steps j m0 = Some s' -> sp s' <= sp s + 9).
Proof.
  intros Hw Hc MI G Htr.
  destruct (walk_call_depth bsem rho n Hw Hc) as (dl & dn & dt & D & H1 & H2).
  destruct (exec_bounded walk_call rho v_done rho s dl dn dt wf3_walk_call D MI G Htr)
    as (k & m & m0 & m6 & P1 & P2 & P3 & P4 & P5 & P6 & P7 & P8 & P9 & P10 & _).
  exists k, m, m0, m6. do 9 (split; [assumption|]).
  intros j s' Hj Hs'. pose proof (P10 j s' Hj Hs'). lia.
Qed.

(* the twin: the recursive call of cnt is an operand, and the stack grows linearly: some state
   of the run has its stack pointer at least 9 + 5 n slots above the start *)
Theorem cnt_stack_grows n rho s :
  rho (S_ "cnt") = Some cnt_clo -> rho (S_ "c") = Some (chain n) -> minv s -> genv_rel3 rho s ->
  transform_expr TRANSFORM_FUEL s (cell_of3 cnt_top) = Ok (cell_of3 cnt_top) ->
  exists k m m0 m6,
    prepare_eval (cell_of3 cnt_top) s = ROk tt m0 /\ sp m0 = sp s /\ steps k m0 = Some m6 /\ run_one m6 = ROk true m /\
    (forall fuel, (S k <= fuel)%nat -> eval ob fuel (cell_of3 cnt_top) s = halt_result m) /\
    vrep3 m (acc m) (R3Base (RDatum (CSym (S_ "yes")))) /\ sp m = sp s /\
    (exists j s', (j <= k)%nat /\ steps j m0 = Some s' /\ sp s + 9 + 5 * N.of_nat n <= sp s').
Proof.
  intros Hw Hc MI G Htr.
  destruct (cnt_top_depth bsem rho n Hw Hc) as (dl & dn & dt & D & H1).
  destruct (exec_bounded cnt_top rho _ rho s dl dn dt wf3_cnt_top D MI G Htr)
    as (k & m & m0 & m6 & P1 & P2 & P3 & P4 & P5 & P6 & P7 & P8 & P9 & _ & (j & s' & Hj & Hs' & Hlo)).
  exists k, m, m0, m6. do 6 (split; [assumption|]). split; [exact P9|].
  exists j, s'. split; [exact Hj|]. split; [exact Hs'|]. lia.
Qed.
End Space.
