(* NoPanicPutCell.v — C06: Heap::put_cell / maybe_put_cell keep [wfm] and never reach site 11, nor
   site 12 on a datum ([cell_is_datum]: no procedure / continuation / macro object inside) *)
From Coq Require Import Lia List.
From MW Require Import Model.Base Model.F64 Model.Num Model.Datum Model.TransformDef Model.Transform
  Model.VmTypes Model.Heap Model.Gc Model.VmBase Model.Compile Model.Vm
  Proofs.GcProofs Proofs.SymtabProofs Proofs.VmProofs0 Proofs.TailProofs Proofs.EnvProofs
  Proofs.FlatProofs Proofs.NoPanicBase Proofs.NoPanicPrims Proofs.NoPanicPrims2.
Open Scope N_scope.
Arguments N.add : simpl never.
Arguments N.sub : simpl never.
Arguments N.eqb : simpl never.
Arguments N.ltb : simpl never.
Arguments N.leb : simpl never.
Arguments N.mul : simpl never.

Definition upd (s : vm) (h : heap) (x : store) : vm := with_store (with_heap s h) x.
Definition mpost (s : vm) (o : out (vcell * heap * store)) : Prop :=
  match o with
  | Ok (v, h', x') => wfm (upd s h' x') /\ grow s (upd s h' x') /\ vwf (upd s h' x') v
  | Panic k => okp k
  | _ => True
  end.

(* the state-monad operations, read back as pure heap operations *)
Lemma hput_upd v s : wfm s -> vwf s v ->
  forall r h', heap_put (hp s) v = (r, h') ->
  wfm (upd s h' (st s)) /\ grow s (upd s h' (st s)) /\ exists p, r = VPtr p.
Proof.
  intros W Hv r h' E. pose proof (np_hput v s W Hv) as H. unfold hput in H. rewrite E in H.
  cbn [npost] in H. exact H.
Qed.
Lemma toptr_upd v s : wfm s -> vwf s v ->
  forall r h', (match v with VPtr _ => (v, hp s) | _ => heap_put (hp s) v end) = (r, h') ->
  wfm (upd s h' (st s)) /\ grow s (upd s h' (st s)) /\ exists p, r = VPtr p.
Proof.
  intros W Hv r h' E.
  destruct v; apply (hput_upd _ s W Hv r h' E).
Qed.

Lemma upd_upd s h x h' x' : upd (upd s h x) h' x' = upd s h' x'.
Proof. reflexivity. Qed.
Lemma hp_upd s h x : hp (upd s h x) = h. Proof. reflexivity. Qed.
Lemma st_upd s h x : st (upd s h x) = x. Proof. reflexivity. Qed.

Lemma mpost_step s h1 x1 (o : out (vcell * heap * store)) :
  wfm (upd s h1 x1) -> grow s (upd s h1 x1) -> mpost (upd s h1 x1) o -> mpost s o.
Proof.
  intros W1 G1 H. destruct o as [[[v h'] x']| | |]; cbn [mpost] in *; auto.
  rewrite upd_upd in H. destruct H as (H1 & H2 & H3). split; [exact H1|split; [|exact H3]].
  eapply grow_trans; eassumption.
Qed.

Definition lwfl (s : vm) (l : list vcell) : Prop := forall v, In v l -> vwf s v.

Theorem maybe_put_cell_mpost c : cell_is_datum c = true -> forall s, wfm s -> mpost s (maybe_put_cell (hp s) (st s) c).
Proof.
  induction c as [c Hnp Hnv|ca cd IHa IHd|l HF] using cell_ind2; intros D s W.
  - assert (R : forall v, vwf s v -> mpost s (Ok (v, hp s, st s))).
    { intros v Hv. cbn [mpost]. pose proof (np_hmaybe_put VNil s W I) as H.
      unfold hmaybe_put, heap_maybe_put in H. cbn [npost] in H. destruct H as (H1 & H2 & _).
      split; [exact H1|split; [exact H2|]]. eapply vwf_grow; [apply grow_grow0, H2|exact Hv]. }
    destruct c; cbn [maybe_put_cell]; try (apply R; exact I); try (cbn [cell_is_datum] in D; discriminate D).
    { exfalso. now apply (Hnp c1 c2). }
    { (* string *)
      pose proof (np_str_new s0 s W) as H1. unfold str_new in H1.
      destruct (new_str (st s) s0) as [sid x1]. cbn [npost] in H1. destruct H1 as (W1 & G1 & V1).
      change (with_store s x1) with (upd s (hp s) x1) in *.
      destruct (heap_put (hp s) (VStr sid)) as [p h1] eqn:E.
      destruct (hput_upd (VStr sid) (upd s (hp s) x1) W1 V1 p h1 E) as (W2 & G2 & (q & ->)).
      rewrite upd_upd, st_upd in *. cbn [mpost]. split; [exact W2|split; [eapply grow_trans; eassumption|exact I]]. }
    { (* symbol *)
      destruct (heap_put (hp s) (VSym s0)) as [p h1] eqn:E.
      destruct (hput_upd (VSym s0) s W I p h1 E) as (W2 & G2 & (q & ->)).
      cbn [mpost]. split; [exact W2|split; [exact G2|exact I]]. }
    { exfalso. now apply (Hnv l). }
  - cbn [cell_is_datum] in D. apply andb_prop in D. destruct D as [Da Dd]. cbn [maybe_put_cell].
    pose proof (IHa Da s W) as Ha. destruct (maybe_put_cell (hp s) (st s) ca) as [[[va h1] x1]| | |]; cbn [bind mpost] in *; auto.
    destruct Ha as (W1 & G1 & V1).
    destruct (match va with VPtr _ => (va, h1) | _ => heap_put h1 va end) as [pa h2] eqn:E2.
    destruct (toptr_upd va (upd s h1 x1) W1 V1 pa h2 E2) as (W2 & G2 & (xa & ->)).
    rewrite upd_upd, st_upd in *.
    pose proof (IHd Dd (upd s h2 x1) W2) as Hd. rewrite hp_upd, st_upd in Hd.
    pose proof (grow_trans _ _ _ G1 G2) as G12.
    apply (mpost_step s h2 x1 _ W2 G12).
    destruct (maybe_put_cell h2 x1 cd) as [[[vd h3] x3]| | |]; cbn [bind mpost] in *; auto.
    destruct Hd as (W3 & G3 & V3). rewrite upd_upd in *.
    destruct (match vd with VPtr _ => (vd, h3) | _ => heap_put h3 vd end) as [pd h4] eqn:E4.
    destruct (toptr_upd vd (upd s h3 x3) W3 V3 pd h4 E4) as (W4 & G4 & (xd & ->)).
    rewrite upd_upd, st_upd in *.
    destruct (heap_put h4 (VPair xa xd)) as [pp h5] eqn:E5.
    destruct (hput_upd (VPair xa xd) (upd s h4 x3) W4 I pp h5 E5) as (W5 & G5 & (q & ->)).
    rewrite upd_upd, st_upd in *. cbn [mpost]. split; [exact W5|split; [|exact I]].
    eapply grow_trans; [exact G3|]. eapply grow_trans; eassumption.
  - cbn [cell_is_datum] in D. cbn [maybe_put_cell].
    set (elems := fix elems (h : heap) (s : store) (l : list cell) (acc : list vcell) {struct l} :
                    out (list vcell * heap * store) :=
                    match l with
                    | [] => Ok (rev acc, h, s)
                    | x :: r => do (v, h1, s1) <- maybe_put_cell h s x; elems h1 s1 r (v :: acc)
                    end).
    assert (HE : forall l0, Forall (fun c => cell_is_datum c = true -> forall s, wfm s -> mpost s (maybe_put_cell (hp s) (st s) c)) l0 ->
               forallb cell_is_datum l0 = true ->
               forall s acc, wfm s -> lwfl s acc ->
               match elems (hp s) (st s) l0 acc with
               | Ok (vs, h', x') => wfm (upd s h' x') /\ grow s (upd s h' x') /\ lwfl (upd s h' x') vs
               | Panic k => okp k | _ => True end).
    { induction l0 as [|c r IHr]; intros Fa Db s0 acc W0 A0.
      - cbn [elems]. pose proof (np_hmaybe_put VNil s0 W0 I) as H.
        unfold hmaybe_put, heap_maybe_put in H. cbn [npost] in H. destruct H as (H1 & H2 & _).
        split; [exact H1|split; [exact H2|]]. intros v Hv. apply in_rev in Hv.
        eapply vwf_grow; [apply grow_grow0, H2|apply A0, Hv].
      - cbn [elems]. inversion Fa as [|c0 r0 Hc Hr]; subst.
        cbn [forallb] in Db. apply andb_prop in Db. destruct Db as [Dc Dr].
        pose proof (Hc Dc s0 W0) as H1. destruct (maybe_put_cell (hp s0) (st s0) c) as [[[vx hx] sx]| | |]; cbn [bind mpost] in *; auto.
        destruct H1 as (W1 & G1 & V1).
        assert (A1 : lwfl (upd s0 hx sx) (vx :: acc)).
        { intros v [<-|Hv]; [exact V1|]. eapply vwf_grow; [apply grow_grow0, G1|apply A0, Hv]. }
        pose proof (IHr Hr Dr (upd s0 hx sx) (vx :: acc) W1 A1) as H2. rewrite hp_upd, st_upd in H2.
        destruct (elems hx sx r (vx :: acc)) as [[[vs h'] x']| | |]; auto.
        rewrite upd_upd in H2. destruct H2 as (W2 & G2 & V2). split; [exact W2|split; [|exact V2]].
        eapply grow_trans; eassumption. }
    pose proof (HE l HF D s [] W (fun v (H : In v []) => match H with end)) as H1.
    destruct (elems (hp s) (st s) l []) as [[[vs h1] x1]| | |]; cbn [bind mpost] in *; auto.
    destruct H1 as (W1 & G1 & V1).
    assert (Hl : forall j v, list_get vs j = Some v -> vwf (upd s h1 x1) v).
    { intros j v Hj. apply V1. unfold list_get in Hj. eapply nth_error_In, Hj. }
    pose proof (np_vec_new vs (upd s h1 x1) W1 Hl) as H2. unfold vec_new in H2. rewrite st_upd in H2.
    destruct (new_vec x1 vs) as [vid x2]. cbn [npost] in H2. destruct H2 as (W2 & G2 & V2).
    change (with_store (upd s h1 x1) x2) with (upd s h1 x2) in *.
    destruct (heap_put h1 (VVec vid)) as [p h2] eqn:E.
    destruct (hput_upd (VVec vid) (upd s h1 x2) W2 V2 p h2 E) as (W3 & G3 & (q & ->)).
    rewrite upd_upd, st_upd in *. cbn [mpost]. split; [exact W3|split; [|exact I]].
    eapply grow_trans; [exact G1|]. eapply grow_trans; eassumption.
Qed.

Theorem np_maybe_put_cell_m c s : cell_is_datum c = true -> wfm s -> npo s (maybe_put_cell_m c s) V.
Proof.
  intros D W. unfold maybe_put_cell_m. pose proof (maybe_put_cell_mpost c D s W) as H.
  destruct (maybe_put_cell (hp s) (st s) c) as [[[v h] x]| | |]; cbn [mpost npost] in *; auto using grow_refl.
Qed.
Theorem np_put_cell_m c s : cell_is_datum c = true -> wfm s -> npo s (put_cell_m c s) (fun s' r => exists p, r = VPtr p).
Proof.
  intros D W. unfold put_cell_m, put_cell. pose proof (maybe_put_cell_mpost c D s W) as H.
  destruct (maybe_put_cell (hp s) (st s) c) as [[[v h] x]| | |]; cbn [bind mpost npost] in *; auto using grow_refl.
  destruct H as (W1 & G1 & V1).
  assert (S : forall r h', (match v with VPtr _ => (v, h) | _ => heap_put h v end) = (r, h') ->
              npo s (ROk r (with_store (with_heap s h') x)) (fun s' r => exists p, r = VPtr p)).
  { intros r h' E. destruct (toptr_upd v (upd s h x) W1 V1 r h' E) as (W2 & G2 & HP).
    rewrite upd_upd, st_upd in *. cbn [npost]. split; [exact W2|split; [eapply grow_trans; eassumption|exact HP]]. }
  destruct v; try (destruct (heap_put h _) as [pp h2] eqn:E; exact (S pp h2 eq_refl)).
  exact (S _ _ eq_refl).
Qed.
