(* GcIsoBuiltin.v — C03, part 14: builtins assembled from the simulated primitives are
   simulations ([bsim]): cons, not, the type predicates, port?, call/cc. *)
From Coq Require Import Lia List String.
From MW Require Import Model.Base Model.Num Model.VmTypes Model.Heap Model.Gc Model.VmBase Model.Vm
  Model.ListVec Model.Builtins
  Proofs.GcProofs Proofs.SymtabProofs Proofs.GcIso Proofs.GcIsoPrim Proofs.GcIsoStep Proofs.GcIsoAlloc
  Proofs.GcIsoHmi Proofs.GcIsoPayload Proofs.GcIsoStep2 Proofs.GcIsoCall.
Open Scope N_scope.
Arguments N.add : simpl never.
Arguments N.sub : simpl never.
Arguments N.eqb : simpl never.
Arguments N.ltb : simpl never.
Arguments N.leb : simpl never.

Lemma sim_pop_argc W mn mx : sim W eqr (pop_argc mn mx) (pop_argc mn mx).
Proof.
  unfold pop_argc. sb ltac:(apply sim_pop_raw). intros W1 v1 v2 E1 [-> L].
  destruct v1; cbn [vmap]; try apply sim_fail.
  destruct ((n <? mn) || match mx with Some m => m <? n | None => false end)%bool; [apply sim_fail|apply sim_ret; reflexivity].
Qed.
Lemma hmi_pop_argc mn mx : hmi (pop_argc mn mx). Proof. unfold pop_argc. hmi. Qed.
Lemma hmi_pop_deref : hmi pop_deref. Proof. unfold pop_deref. hmi. Qed.
#[export] Hint Resolve hmi_pop_argc hmi_pop_deref : hmi.
Lemma sim_pop_deref W : sim W vr pop_deref pop_deref.
Proof. unfold pop_deref. sb ltac:(apply sim_pop_raw). intros W1 v1 v2 E1 Hv. apply sim_hderef, Hv. Qed.

(* a predicate on values that only looks at the constructor *)
Definition shape_only (p : vcell -> bool) : Prop := forall f v, p (vmap f v) = p v.
Lemma vr_bool W b : vr W (VBool b) (VBool b). Proof. apply vr_plain; reflexivity. Qed.

Lemma sim_type_pred W p : shape_only p -> sim W vr (type_pred p) (type_pred p).
Proof.
  intros Hp. unfold type_pred. sb ltac:(apply sim_pop_argc). intros W1 ? ? E1 _.
  sb ltac:(apply sim_pop_deref). intros W2 v1 v2 E2 [-> L]. rewrite Hp. apply sim_ret, vr_bool.
Qed.
Lemma hmi_type_pred p : hmi (type_pred p). Proof. unfold type_pred, pop_value. hmi. Qed.

Lemma sim_not_b W : sim W vr not_b not_b.
Proof.
  unfold not_b. sb ltac:(apply sim_pop_argc). intros W1 ? ? E1 _.
  sb ltac:(apply sim_pop_deref). intros W2 v1 v2 E2 [-> L].
  replace (match vmap (wf W2) v1 with VBool b => negb b | _ => false end)
    with (match v1 with VBool b => negb b | _ => false end) by (destruct v1; reflexivity).
  apply sim_ret, vr_bool.
Qed.
Lemma hmi_not_b : hmi not_b. Proof. unfold not_b, pop_value. hmi. Qed.

Lemma sim_is_port W : sim W vr is_port is_port.
Proof.
  unfold is_port. sb ltac:(apply sim_pop_argc). intros W1 ? ? E1 _.
  sb ltac:(apply sim_pop_raw). intros. apply sim_ret, vr_bool.
Qed.
Lemma hmi_is_port : hmi is_port. Proof. unfold is_port. hmi. Qed.

Lemma sim_cons_b W : sim W vr cons_ cons_.
Proof.
  unfold cons_. sb ltac:(apply sim_pop_argc). intros W0 ? ? E0 _.
  sb ltac:(apply sim_pop_raw). intros W1 u1 u2 E1 Ha.
  sb ltac:(apply sim_hput, Ha). intros W2 pd1 pd2 E2 Hpd.
  sb ltac:(apply sim_as_ptr, Hpd). intros W3 d1 d2 E3 Hd.
  sb ltac:(apply sim_pop_raw). intros W4 b1 b2 E4 Hb.
  sb ltac:(apply sim_hput, Hb). intros W5 pa1 pa2 E5 Hpa.
  sb ltac:(apply sim_as_ptr, Hpa). intros W6 x1 x2 E6 Hx.
  apply sim_ret, vr_pair; [exact Hx|eapply ar_x; [|exact Hd]; xt].
Qed.
Lemma hmi_cons_b : hmi cons_. Proof. unfold cons_. hmi. Qed.

(* call/cc *)
Lemma sim_dec_ip W : sim W (@anyr unit unit) dec_ip dec_ip.
Proof.
  intros s1 s2 R. unfold dec_ip. rewrite (proj2 (sr_ip _ _ _ R)).
  destruct (snd (ip s1) =? 0); [exact I|]. intros B.
  eexists tt, _, W. split; [reflexivity|]. split; [apply ext_refl|]. split; [|exact I]. apply srel_with_ip, R.
Qed.
Lemma is_procedure_shape : shape_only Vm.is_procedure.
Proof. intros f v. destruct v; reflexivity. Qed.
Lemma sim_call_cc W : sim W vr b_call_cc b_call_cc.
Proof.
  unfold b_call_cc. sb ltac:(apply sim_pop_argc). intros W0 ? ? E0 _.
  sb ltac:(apply sim_pop_raw). intros W1 p1 p2 E1 Hp.
  sb ltac:(apply sim_hderef, Hp). intros W2 pv1 pv2 E2 [-> L]. rewrite is_procedure_shape.
  destruct (negb (Vm.is_procedure pv1)); [apply sim_fail|].
  sb ltac:(apply sim_to_continuation). intros W3 k1 k2 E3 Hk.
  sb ltac:(apply sim_hput, Hk). intros W4 kp1 kp2 E4 Hkp.
  sb ltac:(apply sim_push, Hkp). intros W5 ? ? E5 _.
  sb ltac:(apply sim_push, vr_argc). intros W6 ? ? E6 _.
  sb ltac:(apply sim_dec_ip). intros W7 ? ? E7 _.
  apply sim_ret. eapply vr_x; [|exact Hp]. xt.
Qed.
Lemma hmi_call_cc : hmi b_call_cc. Proof. unfold b_call_cc. hmi. Qed.

(* ------------------------------------------------------------------ the real table *)
Lemma bsim_of ob b m : run_builtin ob b = m -> (forall W, sim W vr m m) -> hmi m -> bsim ob b.
Proof. intros <- H1 H2. split; assumption. Qed.

Theorem bsim_cons : bsim other_builtin 24.
Proof. apply (bsim_of _ _ cons_); [reflexivity|intros; apply sim_cons_b|apply hmi_cons_b]. Qed.
Theorem bsim_not : bsim other_builtin 83.
Proof. apply (bsim_of _ _ not_b); [reflexivity|intros; apply sim_not_b|apply hmi_not_b]. Qed.
Theorem bsim_null : bsim other_builtin 84.
Proof.
  apply (bsim_of _ _ is_null); [reflexivity|intros; apply sim_type_pred|apply hmi_type_pred].
  intros f v; destruct v; reflexivity.
Qed.
Theorem bsim_pair : bsim other_builtin 85.
Proof.
  apply (bsim_of _ _ is_pair_b); [reflexivity|intros; apply sim_type_pred|apply hmi_type_pred].
  intros f v; destruct v; reflexivity.
Qed.
Theorem bsim_boolean : bsim other_builtin 77.
Proof.
  apply (bsim_of _ _ is_boolean); [reflexivity|intros; apply sim_type_pred|apply hmi_type_pred].
  intros f v; destruct v; reflexivity.
Qed.
Theorem bsim_symbol : bsim other_builtin 89.
Proof.
  apply (bsim_of _ _ is_symbol); [reflexivity|intros; apply sim_type_pred|apply hmi_type_pred].
  intros f v; destruct v; reflexivity.
Qed.
Theorem bsim_vector : bsim other_builtin 90.
Proof.
  apply (bsim_of _ _ is_vector); [reflexivity|intros; apply sim_type_pred|apply hmi_type_pred].
  intros f v; destruct v; reflexivity.
Qed.
Theorem bsim_port : bsim other_builtin 86.
Proof. apply (bsim_of _ _ is_port); [reflexivity|intros; apply sim_is_port|apply hmi_is_port]. Qed.
Theorem bsim_call_cc : forall ob, bsim ob 97.
Proof. intros ob. apply (bsim_of _ _ b_call_cc); [reflexivity|intros; apply sim_call_cc|apply hmi_call_cc]. Qed.
