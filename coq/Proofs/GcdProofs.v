(* GcdProofs.v — machine-integer helpers and num-integer's gcd (Stein's algorithm,
   Model/Ratio32.v igcd) against Z.gcd.                                          *)
From Coq Require Import ZArith Lia Znumtheory Bool.
From MW Require Import Model.Base Model.Num Model.Ratio32.
Open Scope Z_scope.

(* ---------------------------------------------------------- machine integers *)
Lemma in_int_iff w z : in_int w z = true <-> imin w <= z <= imax w.
Proof. unfold in_int. rewrite andb_true_iff, !Z.leb_le. tauto. Qed.

Lemma ovf_ok p w z : in_int w z = true -> ovf p w z = Ok z.
Proof. intros H. unfold ovf. now rewrite H. Qed.

Lemma ichecked_some w z r : ichecked w z = Some r -> r = z /\ in_int w z = true.
Proof. unfold ichecked. destruct (in_int w z); intros H; inversion H; auto. Qed.

Lemma ichecked_in w z : in_int w z = true -> ichecked w z = Some z.
Proof. intros H. unfold ichecked. now rewrite H. Qed.

Lemma imin_neg w : 1 <= w -> imin w < 0.
Proof. intros. unfold imin. assert (0 < 2 ^ (w - 1)) by (apply Z.pow_pos_nonneg; lia). lia. Qed.

Lemma imax_succ w : imax w = - imin w - 1.
Proof. unfold imax, imin. lia. Qed.

(* idiv on a non-zero divisor other than MIN / -1 *)
Lemma idiv_ok w a b : b <> 0 -> (a <> imin w \/ b <> -1) -> idiv w a b = Ok (Z.quot a b).
Proof.
  intros Hb H. unfold idiv.
  destruct (Z.eqb_spec b 0); [contradiction|].
  destruct (Z.eqb_spec a (imin w)); destruct (Z.eqb_spec b (-1)); cbn [andb]; try reflexivity.
  destruct H; contradiction.
Qed.

Lemma irem_ok w a b : b <> 0 -> (a <> imin w \/ b <> -1) -> irem w a b = Ok (Z.rem a b).
Proof.
  intros Hb H. unfold irem.
  destruct (Z.eqb_spec b 0); [contradiction|].
  destruct (Z.eqb_spec a (imin w)); destruct (Z.eqb_spec b (-1)); cbn [andb]; try reflexivity.
  destruct H; contradiction.
Qed.

(* ------------------------------------------------------------ odd part, tz *)
Lemma podd_odd p : Z.odd (Zpos (podd p)) = true.
Proof. induction p; cbn [podd]; auto. Qed.

Lemma ptz_nonneg p : 0 <= ptz p.
Proof. induction p; cbn [ptz]; lia. Qed.

Lemma podd_decomp p : Zpos p = 2 ^ ptz p * Zpos (podd p).
Proof.
  induction p; cbn [podd ptz]; try (rewrite Z.pow_0_r; lia).
  rewrite Z.pow_add_r by (try lia; apply ptz_nonneg).
  rewrite Z.pow_1_r, Pos2Z.inj_xO. rewrite IHp at 1. ring.
Qed.

Lemma podd_le p : Zpos (podd p) <= Zpos p.
Proof.
  rewrite (podd_decomp p) at 1.
  assert (0 < 2 ^ ptz p) by (apply Z.pow_pos_nonneg; [lia|apply ptz_nonneg]). nia.
Qed.

Lemma podd_even_half p : Z.even (Zpos p) = true -> 2 * Zpos (podd p) <= Zpos p.
Proof.
  destruct p; cbn [Z.even]; try discriminate. intros _.
  cbn [podd]. rewrite Pos2Z.inj_xO. pose proof (podd_le p). lia.
Qed.

(* gcd facts *)
Lemma odd_gcd2 g : Z.odd g = true -> Z.gcd g 2 = 1.
Proof.
  intros Ho.
  pose proof (Z.gcd_nonneg g 2) as Hn.
  pose proof (Z.gcd_divide_r g 2) as H2.
  pose proof (Z.gcd_divide_l g 2) as Hg.
  apply Z.divide_pos_le in H2; [|lia].
  assert (Hc : Z.gcd g 2 = 0 \/ Z.gcd g 2 = 1 \/ Z.gcd g 2 = 2) by lia.
  destruct Hc as [H|[H|H]]; auto.
  - apply Z.gcd_eq_0_r in H. lia.
  - rewrite H in Hg. destruct Hg as [k Hk]. subst g. rewrite Z.odd_mul in Ho. cbn in Ho.
    rewrite andb_false_r in Ho. discriminate.
Qed.

Lemma odd_divisor n g : Z.odd n = true -> (g | n) -> Z.odd g = true.
Proof.
  intros Ho [k Hk]. subst n. rewrite Z.odd_mul in Ho. apply andb_true_iff in Ho. tauto.
Qed.

Lemma gcd_double_odd m n : Z.odd n = true -> Z.gcd (2 * m) n = Z.gcd m n.
Proof.
  intros Ho.
  apply Z.divide_antisym_nonneg; try apply Z.gcd_nonneg.
  - apply Z.gcd_greatest.
    + assert (Hg : Z.odd (Z.gcd (2 * m) n) = true)
        by (eapply odd_divisor; [exact Ho|apply Z.gcd_divide_r]).
      apply Z.gauss with 2; [apply Z.gcd_divide_l|]. now apply odd_gcd2.
    + apply Z.gcd_divide_r.
  - apply Z.gcd_greatest.
    + apply Z.divide_mul_r, Z.gcd_divide_l.
    + apply Z.gcd_divide_r.
Qed.

Lemma gcd_pow2_odd k m n : 0 <= k -> Z.odd n = true -> Z.gcd (2 ^ k * m) n = Z.gcd m n.
Proof.
  intros Hk Ho. revert m. pattern k. apply natlike_ind; [| |exact Hk].
  - intros m. rewrite Z.pow_0_r. f_equal. lia.
  - intros x Hx IH m. rewrite Z.pow_succ_r by lia.
    replace (2 * 2 ^ x * m) with (2 * (2 ^ x * m)) by ring.
    rewrite gcd_double_odd by exact Ho. apply IH.
Qed.

Lemma podd_gcd p n : Z.odd n = true -> Z.gcd (Zpos (podd p)) n = Z.gcd (Zpos p) n.
Proof.
  intros Ho. rewrite (podd_decomp p) at 1. symmetry. apply gcd_pow2_odd; [apply ptz_nonneg|exact Ho].
Qed.

Lemma gcd_sub_l a b : Z.gcd (a - b) b = Z.gcd a b.
Proof.
  rewrite Z.gcd_comm. replace (a - b) with (a + (-1) * b) by ring.
  rewrite Z.gcd_add_mult_diag_r. apply Z.gcd_comm.
Qed.

(* ------------------------------------------------------------ Stein's loop *)
Lemma stein_correct fuel : forall a b,
  Z.odd (Zpos a) = true -> Z.odd (Zpos b) = true ->
  Zpos a + Zpos b < 2 ^ Z.of_nat fuel ->
  Zpos (stein fuel a b) = Z.gcd (Zpos a) (Zpos b).
Proof.
  induction fuel as [|f IH]; intros a b Ha Hb Hs.
  - cbn in Hs. lia.
  - cbn [stein]. rewrite Nat2Z.inj_succ, Z.pow_succ_r in Hs by lia.
    destruct (Pos.compare_spec a b) as [E|L|G].
    + subst b. rewrite Z.gcd_diag. cbn. reflexivity.
    + (* a < b *)
      assert (Hsub : Zpos (b - a) = Zpos b - Zpos a) by (apply Pos2Z.inj_sub; exact L).
      assert (Hev : Z.even (Zpos (b - a)) = true).
      { rewrite Hsub, Z.even_sub, <- !Z.negb_odd, Ha, Hb. reflexivity. }
      pose proof (podd_even_half _ Hev) as Hh.
      rewrite IH; [| exact Ha | apply podd_odd | lia].
      rewrite Z.gcd_comm, podd_gcd by exact Ha.
      rewrite Hsub, gcd_sub_l. apply Z.gcd_comm.
    + (* b < a *)
      assert (Hsub : Zpos (a - b) = Zpos a - Zpos b) by (apply Pos2Z.inj_sub; exact G).
      assert (Hev : Z.even (Zpos (a - b)) = true).
      { rewrite Hsub, Z.even_sub, <- !Z.negb_odd, Ha, Hb. reflexivity. }
      pose proof (podd_even_half _ Hev) as Hh.
      rewrite IH; [| apply podd_odd | exact Hb | lia].
      rewrite podd_gcd by exact Hb.
      rewrite Hsub. apply gcd_sub_l.
Qed.

(* ------------------------------------------- trailing zeros of m | n, 2-adic facts *)
Lemma ztz_nonneg z : 0 <= ztz z.
Proof. destruct z; cbn; try lia; apply ptz_nonneg. Qed.

Lemma ztz_decomp z : z <> 0 -> exists q, z = 2 ^ ztz z * q /\ Z.odd q = true.
Proof.
  destruct z as [|p|p]; intros H; [contradiction| |].
  - exists (Zpos (podd p)). split; [apply podd_decomp|apply podd_odd].
  - exists (Zneg (podd p)). split.
    + cbn [ztz]. rewrite <- !Pos2Z.opp_pos, (podd_decomp p) at 1. ring.
    + change (Zneg (podd p)) with (- Zpos (podd p)). rewrite Z.odd_opp. apply podd_odd.
Qed.

Lemma ztz_double z : z <> 0 -> ztz (2 * z) = 1 + ztz z.
Proof. destruct z; intros H; [contradiction| |]; reflexivity. Qed.

Lemma ztz_odd q : Z.odd q = true -> ztz q = 0.
Proof. destruct q as [|p|p]; cbn; try discriminate; destruct p; cbn; try discriminate; reflexivity. Qed.

Lemma odd_nonzero q : Z.odd q = true -> q <> 0.
Proof. intros H E. subst q. discriminate. Qed.

Lemma ztz_unique k q : 0 <= k -> Z.odd q = true -> ztz (2 ^ k * q) = k.
Proof.
  intros Hk Ho. pattern k. apply natlike_ind; [| |exact Hk].
  - rewrite Z.pow_0_r, Z.mul_1_l. now apply ztz_odd.
  - intros x Hx IH. rewrite Z.pow_succ_r by lia.
    replace (2 * 2 ^ x * q) with (2 * (2 ^ x * q)) by ring.
    rewrite ztz_double, IH; [lia|].
    apply odd_nonzero in Ho. assert (0 < 2 ^ x) by (apply Z.pow_pos_nonneg; lia). nia.
Qed.

Lemma lor_odd_l a b : Z.odd a = true -> Z.odd (Z.lor a b) = true.
Proof. intros H. rewrite <- Z.bit0_odd, Z.lor_spec, Z.bit0_odd, H. reflexivity. Qed.

Lemma lor_pow2_le ka kb qa qb : 0 <= ka <= kb -> Z.odd qa = true ->
  exists q, Z.lor (2 ^ ka * qa) (2 ^ kb * qb) = 2 ^ ka * q /\ Z.odd q = true.
Proof.
  intros Hk Ho. exists (Z.lor qa (2 ^ (kb - ka) * qb)). split; [|now apply lor_odd_l].
  replace (2 ^ kb * qb) with (2 ^ ka * (2 ^ (kb - ka) * qb)).
  2:{ replace kb with (ka + (kb - ka)) at 2 by lia. rewrite Z.pow_add_r by lia. ring. }
  rewrite !(Z.mul_comm (2 ^ ka)), <- !Z.shiftl_mul_pow2 by lia.
  symmetry. apply Z.shiftl_lor.
Qed.

Lemma ztz_lor a b : a <> 0 -> b <> 0 -> ztz (Z.lor a b) = Z.min (ztz a) (ztz b).
Proof.
  intros Ha Hb.
  destruct (ztz_decomp a Ha) as [qa [Ea Oa]]. destruct (ztz_decomp b Hb) as [qb [Eb Ob]].
  pose proof (ztz_nonneg a). pose proof (ztz_nonneg b).
  destruct (Z.le_ge_cases (ztz a) (ztz b)) as [L|G].
  - rewrite Z.min_l by exact L.
    destruct (lor_pow2_le (ztz a) (ztz b) qa qb ltac:(lia) Oa) as [q [E O]].
    rewrite Ea at 1. rewrite Eb at 1. rewrite E. now apply ztz_unique.
  - rewrite Z.min_r by lia. rewrite Z.lor_comm.
    destruct (lor_pow2_le (ztz b) (ztz a) qb qa ltac:(lia) Ob) as [q [E O]].
    rewrite Ea at 1. rewrite Eb at 1. rewrite E. now apply ztz_unique.
Qed.

Lemma gcd_pow2_parts ka kb qa qb : 0 <= ka -> 0 <= kb -> Z.odd qa = true -> Z.odd qb = true ->
  Z.gcd (2 ^ ka * qa) (2 ^ kb * qb) = 2 ^ Z.min ka kb * Z.gcd qa qb.
Proof.
  intros Hka Hkb Oa Ob.
  destruct (Z.le_ge_cases ka kb) as [L|G].
  - rewrite Z.min_l by exact L.
    replace (2 ^ kb * qb) with (2 ^ ka * (2 ^ (kb - ka) * qb)).
    2:{ replace kb with (ka + (kb - ka)) at 2 by lia. rewrite Z.pow_add_r by lia. ring. }
    rewrite Z.gcd_mul_mono_l_nonneg by (apply Z.pow_nonneg; lia).
    f_equal. rewrite Z.gcd_comm, gcd_pow2_odd by (try lia; exact Oa). apply Z.gcd_comm.
  - rewrite Z.min_r by lia.
    replace (2 ^ ka * qa) with (2 ^ kb * (2 ^ (ka - kb) * qa)).
    2:{ replace ka with (kb + (ka - kb)) at 2 by lia. rewrite Z.pow_add_r by lia. ring. }
    rewrite Z.gcd_mul_mono_l_nonneg by (apply Z.pow_nonneg; lia).
    f_equal. apply gcd_pow2_odd; [lia|exact Ob].
Qed.

Lemma wrap_small w z : 1 <= w -> 0 <= z < 2 ^ (w - 1) -> wrap w z = z.
Proof.
  intros Hw Hz. unfold wrap.
  assert (2 ^ w = 2 * 2 ^ (w - 1)).
  { replace w with (Z.succ (w - 1)) at 1 by lia. apply Z.pow_succ_r. lia. }
  rewrite Z.mod_small by lia.
  destruct (Z.ltb_spec z (2 ^ (w - 1))); lia.
Qed.

(* the magnitude bound on the 2-adic valuation of an in-range non-zero non-MIN value *)
Lemma ztz_lt_width w z : 1 <= w -> z <> 0 -> Z.abs z < 2 ^ (w - 1) -> ztz z < w - 1.
Proof.
  intros Hw Hz Hb. destruct (ztz_decomp z Hz) as [q [E O]].
  pose proof (ztz_nonneg z).
  destruct (Z.lt_ge_cases (ztz z) (w - 1)) as [L|G]; [exact L|exfalso].
  assert (2 ^ (w - 1) <= 2 ^ ztz z) by (apply Z.pow_le_mono_r; lia).
  apply odd_nonzero in O. rewrite E, Z.abs_mul in Hb.
  rewrite (Z.abs_eq (2 ^ ztz z)) in Hb by (apply Z.pow_nonneg; lia). nia.
Qed.

(* ---------------------------------------------------------------- igcd = Z.gcd *)
Definition gcd_safe w (m n : Z) : Prop :=
  (m = imin w -> n <> 0 /\ n <> imin w) /\ (n = imin w -> m <> 0 /\ m <> imin w).

Lemma abs_in_range w z : 1 <= w -> in_int w z = true -> z <> imin w -> Z.abs z < 2 ^ (w - 1).
Proof. intros Hw H Hz. apply in_int_iff in H. unfold imin, imax in *. lia. Qed.

Lemma iabs_ok p w z : 1 <= w -> in_int w z = true -> z <> imin w -> iabs p w z = Ok (Z.abs z).
Proof.
  intros Hw H Hz. pose proof (abs_in_range w z Hw H Hz) as Hb. apply in_int_iff in H.
  unfold iabs, ineg. destruct (Z.ltb_spec z 0).
  - rewrite ovf_ok; [f_equal; lia|]. apply in_int_iff. unfold imin, imax in *. lia.
  - f_equal. lia.
Qed.

Lemma igcd_spec p w m n : 2 <= w ->
  in_int w m = true -> in_int w n = true -> gcd_safe w m n ->
  igcd p w m n = Ok (Z.gcd m n).
Proof.
  intros Hw Hm Hn [S1 S2]. unfold igcd.
  destruct (Z.eqb_spec m 0) as [M0|M0].
  { subst m. cbn [orb]. rewrite Z.lor_0_l, Z.gcd_0_l. apply iabs_ok; [lia|exact Hn|].
    intros E. destruct (S2 E) as [X _]. now apply X. }
  destruct (Z.eqb_spec n 0) as [N0|N0].
  { subst n. rewrite orb_true_r. rewrite Z.lor_0_r, Z.gcd_0_r. apply iabs_ok; [lia|exact Hm|].
    intros E. destruct (S1 E) as [X _]. now apply X. }
  cbn [orb]. rewrite ztz_lor by assumption.
  destruct (ztz_decomp m M0) as [qm [Em Om]]. destruct (ztz_decomp n N0) as [qn [En On]].
  pose proof (ztz_nonneg m) as Zm. pose proof (ztz_nonneg n) as Zn.
  assert (Hg : Z.gcd m n = 2 ^ Z.min (ztz m) (ztz n) * Z.gcd qm qn).
  { rewrite Em at 1. rewrite En at 1. now apply gcd_pow2_parts. }
  destruct (Z.eqb_spec m (imin w)) as [MM|MM].
  { (* m = MIN *)
    cbn [orb]. destruct (S1 MM) as [_ NM].
    pose proof (abs_in_range w n ltac:(lia) Hn NM) as Bn.
    pose proof (ztz_lt_width w n ltac:(lia) N0 Bn) as Ln.
    assert (Zmin : ztz m = w - 1).
    { rewrite MM. unfold imin. replace (- 2 ^ (w - 1)) with (2 ^ (w - 1) * -1) by ring.
      apply ztz_unique; [lia|reflexivity]. }
    rewrite Z.min_r in * by lia.
    rewrite Z.shiftl_mul_pow2, Z.mul_1_l by lia.
    assert (P : 0 < 2 ^ ztz n < 2 ^ (w - 1)).
    { split; [apply Z.pow_pos_nonneg; lia|apply Z.pow_lt_mono_r; lia]. }
    rewrite wrap_small by lia.
    rewrite iabs_ok; try lia.
    - f_equal. rewrite Hg, Z.abs_eq by lia.
      assert (G1 : Z.gcd qm qn = 1).
      { assert (qm = -1 \/ qm = 1 \/ True) by auto.
        (* qm = -1: m = 2^(w-1) * qm *)
        assert (Q : qm = -1).
        { rewrite Zmin in Em. rewrite MM in Em. unfold imin in Em.
          assert (0 < 2 ^ (w - 1)) by (apply Z.pow_pos_nonneg; lia). nia. }
        subst qm. change (-1) with (- (1)). rewrite Z.gcd_opp_l. apply Z.gcd_1_l. }
      rewrite G1. ring.
    - apply in_int_iff. unfold imin, imax. lia.
    - unfold imin. lia. }
  destruct (Z.eqb_spec n (imin w)) as [NM|NM].
  { (* n = MIN *)
    cbn [orb].
    pose proof (abs_in_range w m ltac:(lia) Hm MM) as Bm.
    pose proof (ztz_lt_width w m ltac:(lia) M0 Bm) as Lm.
    assert (Zmin : ztz n = w - 1).
    { rewrite NM. unfold imin. replace (- 2 ^ (w - 1)) with (2 ^ (w - 1) * -1) by ring.
      apply ztz_unique; [lia|reflexivity]. }
    rewrite Z.min_l in * by lia.
    rewrite Z.shiftl_mul_pow2, Z.mul_1_l by lia.
    assert (P : 0 < 2 ^ ztz m < 2 ^ (w - 1)).
    { split; [apply Z.pow_pos_nonneg; lia|apply Z.pow_lt_mono_r; lia]. }
    rewrite wrap_small by lia.
    rewrite iabs_ok; try lia.
    - f_equal. rewrite Hg, Z.abs_eq by lia.
      assert (Q : qn = -1).
      { rewrite Zmin in En. rewrite NM in En. unfold imin in En.
        assert (0 < 2 ^ (w - 1)) by (apply Z.pow_pos_nonneg; lia). nia. }
      subst qn. change (-1) with (- (1)). rewrite Z.gcd_opp_r, Z.gcd_1_r. ring.
    - apply in_int_iff. unfold imin, imax. lia.
    - unfold imin. lia. }
  cbn [orb].
  pose proof (abs_in_range w m ltac:(lia) Hm MM) as Bm.
  pose proof (abs_in_range w n ltac:(lia) Hn NM) as Bn.
  destruct (Z.abs m) as [|a|a] eqn:Am; [lia| |lia].
  destruct (Z.abs n) as [|b|b] eqn:An; [lia| |lia].
  assert (Ea : Zpos (podd a) = Z.abs qm).
  { pose proof (podd_decomp a) as Da.
    assert (Za : ztz m = ptz a) by (destruct m; cbn in *; congruence).
    rewrite <- Am in Da. rewrite Em in Da at 1.
    rewrite Z.abs_mul, (Z.abs_eq (2 ^ ztz m)), Za in Da by (apply Z.pow_nonneg; lia).
    assert (0 < 2 ^ ptz a) by (apply Z.pow_pos_nonneg; [lia|apply ptz_nonneg]). nia. }
  assert (Eb : Zpos (podd b) = Z.abs qn).
  { pose proof (podd_decomp b) as Db.
    assert (Zb : ztz n = ptz b) by (destruct n; cbn in *; congruence).
    rewrite <- An in Db. rewrite En in Db at 1.
    rewrite Z.abs_mul, (Z.abs_eq (2 ^ ztz n)), Zb in Db by (apply Z.pow_nonneg; lia).
    assert (0 < 2 ^ ptz b) by (apply Z.pow_pos_nonneg; [lia|apply ptz_nonneg]). nia. }
  f_equal. rewrite Z.shiftl_mul_pow2 by lia.
  rewrite stein_correct; try apply podd_odd.
  - rewrite Ea, Eb, Z.gcd_abs_l, Z.gcd_abs_r, Hg. ring.
  - pose proof (podd_le a). pose proof (podd_le b).
    rewrite Nat2Z.inj_add, Z2Nat.id by lia. change (Z.of_nat 2) with 2.
    replace (w + 2) with (Z.succ (Z.succ (w - 1)) + 1) by lia.
    rewrite Z.pow_add_r, !Z.pow_succ_r by lia.
    assert (0 < 2 ^ (w - 1)) by (apply Z.pow_pos_nonneg; lia). lia.
Qed.
