(* NumPowProofs.v — number.rs pow (311-329) / builtin expt (349-362) on an exact base and a
   u32 exponent (C08): i32::pow / i64::pow / checked_pow as ported (core int_macros.rs,
   square-and-multiply) against Z.pow, then Fixnum (checked_pow else BigInt), BigInt and
   Rational32 (num-rational pow.rs: numer.pow(e) / denom.pow(e), overflow-checked by profile). *)
From Coq Require Import ZArith Lia Bool QArith Qpower Znumtheory Zpow_facts List.
From MW Require Import Model.Base Model.F64 Model.Num Model.Ratio32 Model.NumArith Model.NumSpec
  Proofs.GcdProofs Proofs.Ratio32Proofs Proofs.NumProofs Proofs.NumDivProofs Proofs.NumUnaryProofs.
Import ListNotations.
Open Scope Z_scope.

(* ------------------------------------------------------------- range helpers *)
(* 2^(w-1) is not a perfect square (true for the widths 32 and 64) *)
Definition nonsq (w : Z) : Prop := forall x, x * x <> 2 ^ (w - 1).

Lemma nonsq_of_sqrt N : Z.sqrt N * Z.sqrt N <> N -> forall x, x * x <> N.
Proof.
  intros H x E. apply H.
  assert (S : Z.sqrt N = Z.abs x).
  { rewrite <- E, <- Z.abs_square. apply Z.sqrt_square. apply Z.abs_nonneg. }
  rewrite S, Z.abs_square. exact E.
Qed.
Lemma nonsq32 : nonsq 32.
Proof. unfold nonsq. apply nonsq_of_sqrt. vm_compute. discriminate. Qed.
Lemma nonsq64 : nonsq 64.
Proof. unfold nonsq. apply nonsq_of_sqrt. vm_compute. discriminate. Qed.

Lemma mul_in_range w P Q : 1 <= w -> 0 <= Q -> (P = 0 \/ 1 <= Q) ->
  in_int w (P * Q) = true -> in_int w P = true.
Proof.
  intros Hw Q0 H R. apply in_int_iff in R. apply in_int_iff. pose proof (imin_neg w Hw).
  rewrite imax_succ in *. destruct H as [->|Q1]; [lia|]. nia.
Qed.

Lemma sq_in_range w b a h : 1 <= w -> nonsq w -> a <> 0 -> 1 <= h ->
  in_int w (a * (b * b) ^ h) = true -> in_int w (b * b) = true.
Proof.
  intros Hw NS A0 H1 R. apply in_int_iff in R. apply in_int_iff. pose proof (imin_neg w Hw) as MN.
  rewrite imax_succ in *. unfold imin in *.
  set (B := b * b) in *. assert (B0 : 0 <= B) by (subst B; nia).
  destruct (Z.eq_dec B 0) as [E|E]; [lia|].
  assert (P1 : 1 <= B ^ (h - 1)) by (assert (0 < B ^ (h - 1)) by (apply Z.pow_pos_nonneg; lia); lia).
  assert (EP : B ^ h = B * B ^ (h - 1)).
  { replace h with (Z.succ (h - 1)) at 1 by lia. apply Z.pow_succ_r. lia. }
  assert (BP : B <= B ^ h) by nia.
  assert (NE : B <> 2 ^ (w - 1)) by (apply NS).
  assert (AB : B <= Z.abs (a * B ^ h)) by (rewrite Z.abs_mul; nia).
  lia.
Qed.

Lemma pow_sq b h : 0 <= h -> (b * b) ^ h = b ^ (2 * h).
Proof. intros. rewrite <- Z.pow_2_r, <- Z.pow_mul_r by lia. reflexivity. Qed.

Lemma pow_split_odd b e : 1 <= e -> Z.odd e = true -> b ^ e = b * (b * b) ^ (e / 2).
Proof.
  intros He O. rewrite pow_sq by (apply Z.div_pos; lia).
  pose proof (Z.div_mod e 2 ltac:(lia)) as DM. rewrite Zmod_odd, O in DM.
  rewrite DM at 1. rewrite Z.pow_add_r by (try lia; apply Z.mul_nonneg_nonneg; try lia; apply Z.div_pos; lia).
  rewrite Z.pow_1_r. ring.
Qed.
Lemma pow_split_even b e : 1 <= e -> Z.odd e = false -> b ^ e = (b * b) ^ (e / 2).
Proof.
  intros He O. rewrite pow_sq by (apply Z.div_pos; lia).
  pose proof (Z.div_mod e 2 ltac:(lia)) as DM. rewrite Zmod_odd, O in DM.
  rewrite DM at 1. f_equal. lia.
Qed.

(* ------------------------------------------------ the loop of i32::pow / i64::pow *)
(* [acc * base ^ exp] in range: every intermediate product is in range and the loop returns the
   power, in either profile; out of range: the Debug build panics *)
Lemma ipow_loop_spec p w : 2 <= w -> nonsq w -> forall fuel base acc exp,
  1 <= exp < 2 ^ Z.of_nat fuel -> (acc <> 0 \/ base = 0) ->
  ipow_loop fuel p w base acc exp =
  if in_int w (acc * base ^ exp) then Ok (acc * base ^ exp)
  else match p with Debug => Panic P_OVERFLOW | Release => ipow_loop fuel Release w base acc exp end.
Proof.
  intros Hw NS. induction fuel as [|f IH]; intros base acc exp He Inv.
  { change (2 ^ Z.of_nat 0) with 1 in He. lia. }
  rewrite Nat2Z.inj_succ, Z.pow_succ_r in He by lia.
  assert (H2 : exp <> 1 -> 1 <= exp / 2 < 2 ^ Z.of_nat f).
  { intros N1. split; [apply Z.div_le_lower_bound; lia|apply Z.div_lt_upper_bound; lia]. }
  assert (Hh : 0 <= exp / 2) by (apply Z.div_pos; lia).
  destruct (in_int w (acc * base ^ exp)) eqn:EV.
  - (* in range *)
    cbn [ipow_loop]. destruct (Z.odd exp) eqn:O.
    + rewrite (pow_split_odd base exp) in EV |- * by (try lia; exact O).
      rewrite Z.mul_assoc in EV |- *.
      assert (R1 : in_int w (acc * base) = true).
      { assert (Q0 : 0 <= (base * base) ^ (exp / 2)) by (apply Z.pow_nonneg; nia).
        assert (Q1 : acc * base = 0 \/ 1 <= (base * base) ^ (exp / 2)).
        { destruct (Z.eq_dec base 0) as [->|B0]; [left; ring|right].
          assert (0 < (base * base) ^ (exp / 2)) by (apply Z.pow_pos_nonneg; nia). lia. }
        exact (mul_in_range w _ _ ltac:(lia) Q0 Q1 EV). }
      unfold imul at 1. rewrite ovf_ok by exact R1. cbn [bind].
      destruct (Z.eqb_spec exp 1) as [E1|E1].
      { subst exp. change (1 / 2) with 0. rewrite Z.pow_0_r. f_equal. ring. }
      destruct (Z.eq_dec base 0) as [B0|B0].
      * subst base. unfold imul. cbn [Z.mul]. rewrite ovf_ok by (apply in_int_0; lia). cbn [bind].
        rewrite IH; [|now apply H2|right; reflexivity]. change (0 * 0) with 0 in EV. now rewrite EV.
      * assert (A0 : acc * base <> 0) by (destruct Inv; [nia|contradiction]).
        assert (R2 : in_int w (base * base) = true).
        { apply sq_in_range with (acc * base) (exp / 2); try assumption; try lia; try (apply H2; exact E1). }
        unfold imul. rewrite ovf_ok by exact R2. cbn [bind].
        rewrite IH; [|now apply H2|left; exact A0]. now rewrite EV.
    + assert (E1 : exp <> 1) by (intros ->; discriminate O).
      rewrite (pow_split_even base exp) in EV |- * by (try lia; exact O).
      destruct (Z.eq_dec base 0) as [B0|B0].
      * subst base. unfold imul. cbn [Z.mul]. rewrite ovf_ok by (apply in_int_0; lia). cbn [bind].
        rewrite IH; [|now apply H2|right; reflexivity]. change (0 * 0) with 0 in EV. now rewrite EV.
      * assert (A0 : acc <> 0) by (destruct Inv; [assumption|contradiction]).
        assert (R2 : in_int w (base * base) = true).
        { apply sq_in_range with acc (exp / 2); try assumption; try lia; try (apply H2; exact E1). }
        unfold imul. rewrite ovf_ok by exact R2. cbn [bind].
        rewrite IH; [|now apply H2|left; exact A0]. now rewrite EV.
  - (* out of range *)
    destruct p; [|reflexivity].
    cbn [ipow_loop]. destruct (Z.odd exp) eqn:O.
    + rewrite (pow_split_odd base exp) in EV by (try lia; exact O). rewrite Z.mul_assoc in EV.
      unfold imul at 1. unfold ovf. destruct (in_int w (acc * base)) eqn:R1; [|reflexivity]. cbn [bind].
      destruct (Z.eqb_spec exp 1) as [E1|E1].
      { exfalso. subst exp. change (1 / 2) with 0 in EV. rewrite Z.pow_0_r, Z.mul_1_r in EV. congruence. }
      unfold imul, ovf. destruct (in_int w (base * base)) eqn:R2; [|reflexivity]. cbn [bind].
      destruct (Z.eq_dec base 0) as [B0|B0].
      * rewrite IH; [|now apply H2|right; subst base; reflexivity]. now rewrite EV.
      * assert (A0 : acc * base <> 0) by (destruct Inv; [nia|contradiction]).
        rewrite IH; [|now apply H2|left; exact A0]. now rewrite EV.
    + assert (E1 : exp <> 1) by (intros ->; discriminate O).
      rewrite (pow_split_even base exp) in EV by (try lia; exact O).
      unfold imul, ovf. destruct (in_int w (base * base)) eqn:R2; [|reflexivity]. cbn [bind].
      rewrite IH; [|now apply H2|]. { now rewrite EV. }
      destruct Inv as [A0|B0]; [left; exact A0|right; subst base; reflexivity].
Qed.

Definition POW_EXP_MAX := 2 ^ 40 - 1.   (* the fuel of [ipow]; a u32 exponent is far below *)

Theorem ipow_spec p w b e : 2 <= w -> nonsq w -> 0 <= e <= POW_EXP_MAX ->
  ipow p w b e =
  if in_int w (b ^ e) then Ok (b ^ e)
  else match p with Debug => Panic P_OVERFLOW | Release => ipow Release w b e end.
Proof.
  intros Hw NS He. unfold ipow. destruct (Z.eqb_spec e 0) as [->|E0].
  - rewrite Z.pow_0_r, in_int_1 by lia. reflexivity.
  - rewrite ipow_loop_spec; try assumption.
    + rewrite Z.mul_1_l. destruct (in_int w (b ^ e)); [reflexivity|]. destruct p; [reflexivity|].
      destruct (Z.eqb_spec e 0); [contradiction|reflexivity].
    + unfold POW_EXP_MAX in He. change (2 ^ Z.of_nat 40) with (2 ^ 40). lia.
    + left; lia.
Qed.

(* checked_pow = Some (b^e) exactly when b^e fits *)
Corollary ichecked_pow_spec w b e : 2 <= w -> nonsq w -> 0 <= e <= POW_EXP_MAX ->
  ichecked_pow w b e = if in_int w (b ^ e) then Some (b ^ e) else None.
Proof.
  intros Hw NS He. unfold ichecked_pow. rewrite ipow_spec by assumption.
  destruct (in_int w (b ^ e)); reflexivity.
Qed.

Lemma u32_pow_exp e : 0 <= e <= U32_MAX -> 0 <= e <= POW_EXP_MAX.
Proof. unfold U32_MAX, POW_EXP_MAX. change (2 ^ 32) with 4294967296. change (2 ^ 40) with 1099511627776. lia. Qed.

(* ============================================================== Number::pow *)
(* Rational32 base: numer.pow(e) or denom.pow(e) overflows i32 (class ratio32-overflow-panic) *)
Definition pow_known (a : num) (e : Z) : bool :=
  match a with
  | Rational n d => (e <=? I32_MAX) && negb (in_i32 (n ^ e) && in_i32 (d ^ e))
  | _ => false
  end.
(* Rational32 base and an exponent that is a u32 but not an i32: powf (libm), not modelled *)
Definition pow_libm (a : num) (e : Z) : bool :=
  match a with Rational _ _ => I32_MAX <? e | _ => false end.

Lemma qv_pow_int z e : 0 <= e -> (inject_Z (z ^ e) == inject_Z z ^ e)%Q.
Proof. intros. now apply Zpower_Qpower. Qed.

Lemma qv_pow_ratio n d e : 0 < d -> 0 <= e ->
  (n ^ e # Z.to_pos (d ^ e) == (n # Z.to_pos d) ^ e)%Q.
Proof.
  intros Pd He. destruct d as [|pd|pd]; try lia. cbn [Z.to_pos].
  destruct e as [|pe|pe]; try lia.
  - reflexivity.
  - rewrite Qpower_decomp_pos. rewrite <- Pos2Z.inj_pow. reflexivity.
Qed.

(* the Fixnum arm, explicitly: a Fixnum exactly when the power fits i64, else a BigInt *)
Theorem pow_fixnum p z e : 0 <= e <= U32_MAX ->
  num_pow p (Fixnum z) e = Ok (if in_i64 (z ^ e) then Fixnum (z ^ e) else BigInt (z ^ e)).
Proof.
  intros He. cbn [num_pow]. unfold W64.
  rewrite ichecked_pow_spec; [|lia|exact nonsq64|now apply u32_pow_exp].
  change (in_int 64 (z ^ e)) with (in_i64 (z ^ e)). destruct (in_i64 (z ^ e)); reflexivity.
Qed.

Lemma in_i32_exp e : (e <=? I32_MAX) = true -> 0 <= e -> in_i32 e = true.
Proof. intros H He. apply Z.leb_le in H. apply in_i32_iff. unfold I32_MAX in H. lia. Qed.

Theorem pow_exact p a e : wfb a = true -> is_exact a = true -> 0 <= e <= U32_MAX ->
  pow_known a e = false -> pow_libm a e = false ->
  exists r, num_pow p a e = Ok r /\ is_exact r = true /\ wfb r = true /\ (qv r == qv a ^ e)%Q.
Proof.
  intros W X He K L. destruct a as [z|z|n d|f]; try discriminate.
  - rewrite pow_fixnum by exact He. destruct (in_i64 (z ^ e)) eqn:R; eexists; (split; [reflexivity|]);
      (split; [reflexivity|]); (split; [try exact R; reflexivity|]); cbn [qv]; apply qv_pow_int; lia.
  - cbn [num_pow]. eexists. split; [reflexivity|]. split; [reflexivity|]. split; [reflexivity|].
    cbn [qv]. apply qv_pow_int; lia.
  - cbn [wfb] in W. destruct (rwfb_parts _ _ W) as [Hn [Hd [Pd G]]].
    cbn [pow_libm] in L. apply Z.ltb_ge in L. cbn [pow_known] in K.
    assert (LE : (e <=? I32_MAX) = true) by now apply Z.leb_le. rewrite LE in K. cbn [andb] in K.
    apply negb_false_iff, andb_true_iff in K. destruct K as [Rn Rd].
    cbn [num_pow]. rewrite in_i32_exp by (try exact LE; lia).
    unfold rpow. destruct (Z.compare_spec e 0) as [E0|E0|E0]; [| lia |].
    + subst e. cbn [bind]. unfold r32, rone. cbn [fst snd]. eexists. split; [reflexivity|]. split; [reflexivity|].
      split; reflexivity.
    + cbn [fst snd]. unfold W32.
      rewrite (ipow_spec p 32 n e), (ipow_spec p 32 d e);
        try lia; try exact nonsq32; try (apply u32_pow_exp; exact He).
      change (in_int 32 (n ^ e)) with (in_i32 (n ^ e)). change (in_int 32 (d ^ e)) with (in_i32 (d ^ e)).
      rewrite Rn, Rd. cbn [bind]. unfold r32. cbn [fst snd].
      eexists. split; [reflexivity|]. split; [reflexivity|]. split.
      * cbn [wfb]. apply rwfb_intro; try assumption.
        -- apply Z.pow_pos_nonneg; lia.
        -- apply Zgcd_1_rel_prime. apply rel_prime_Zpower; try lia. now apply Zgcd_1_rel_prime.
      * cbn [qv]. apply qv_pow_ratio; lia.
Qed.

Theorem pow_known_panics a e : wfb a = true -> 0 <= e <= U32_MAX -> pow_known a e = true ->
  num_pow Debug a e = Panic P_OVERFLOW.
Proof.
  intros W He K. destruct a as [z|z|n d|f]; try discriminate.
  cbn [pow_known] in K. apply andb_true_iff in K. destruct K as [LE K].
  cbn [num_pow]. rewrite in_i32_exp by (try exact LE; lia).
  unfold rpow. destruct (Z.compare_spec e 0) as [E0|E0|E0]; [| lia |].
  - subst e. rewrite !Z.pow_0_r in K. discriminate K.
  - cbn [fst snd]. unfold W32.
    rewrite (ipow_spec Debug 32 n e), (ipow_spec Debug 32 d e);
      try lia; try exact nonsq32; try (apply u32_pow_exp; exact He).
    change (in_int 32 (n ^ e)) with (in_i32 (n ^ e)). change (in_int 32 (d ^ e)) with (in_i32 (d ^ e)).
    destruct (in_i32 (n ^ e)); [|reflexivity]. cbn [bind].
    destruct (in_i32 (d ^ e)); [discriminate K|reflexivity].
Qed.

Theorem pow_libm_outcome p a e : pow_libm a e = true -> num_pow p a e = Err E_LIBM.
Proof.
  intros L. destruct a as [z|z|n d|f]; try discriminate. cbn [pow_libm] in L. apply Z.ltb_lt in L.
  cbn [num_pow]. destruct (in_i32 e) eqn:R; [|reflexivity].
  apply in_i32_iff in R. unfold I32_MAX in L. lia.
Qed.

Theorem pow_debug_panics_iff a e : wfb a = true -> is_exact a = true -> 0 <= e <= U32_MAX ->
  ((exists s, num_pow Debug a e = Panic s) <-> pow_known a e = true).
Proof.
  intros W X He. split.
  - intros [s Hs]. destruct (pow_known a e) eqn:K; [reflexivity|].
    destruct (pow_libm a e) eqn:L.
    + rewrite pow_libm_outcome in Hs by exact L. discriminate.
    + destruct (pow_exact Debug a e W X He K L) as [r [Hr _]]. rewrite Hr in Hs. discriminate.
  - intros K. exists P_OVERFLOW. now apply pow_known_panics.
Qed.

(* ================================================================ builtin expt *)
(* (expt x e) for an exact integer e in any representation whose value k is a u32 *)
Lemma b_expt_num p x e k : wfb e = true -> int_of e = Some k -> 0 <= k <= U32_MAX ->
  b_expt p [ANum x; ANum e] = do r <- num_pow p x k; Ok (RNum r).
Proof.
  intros W I Hk. unfold b_expt, pop_integer, pop_number. cbn [bind].
  assert (R : range_opt 0 U32_MAX k = Some k).
  { unfold range_opt. destruct (Z.leb_spec 0 k); destruct (Z.leb_spec k U32_MAX); try lia. reflexivity. }
  destruct e as [z|z|n d|f]; try discriminate; cbn [int_of] in I.
  - inv_ok I. cbn [num_is_integer bind num_to_u32]. now rewrite R.
  - inv_ok I. cbn [num_is_integer bind num_to_u32]. now rewrite R.
  - destruct (Z.eqb_spec d 1) as [->|]; [|discriminate]. inv_ok I.
    cbn [num_is_integer]. rewrite ris_integer_1. cbn [bind num_to_u32].
    rewrite ris_integer_1, rto_integer_1. cbn [bind]. now rewrite R.
Qed.

(* a negative exponent or one above u32::MAX is an error (never a wrong value) *)
Lemma b_expt_out_of_range p x e k : wfb e = true -> int_of e = Some k -> ~ (0 <= k <= U32_MAX) ->
  b_expt p [ANum x; ANum e] = Err E_OTHER.
Proof.
  intros W I Hk. unfold b_expt, pop_integer, pop_number. cbn [bind].
  assert (R : range_opt 0 U32_MAX k = None).
  { unfold range_opt. destruct (Z.leb_spec 0 k); destruct (Z.leb_spec k U32_MAX); try lia; reflexivity. }
  destruct e as [z|z|n d|f]; try discriminate; cbn [int_of] in I.
  - inv_ok I. cbn [num_is_integer bind num_to_u32]. now rewrite R.
  - inv_ok I. cbn [num_is_integer bind num_to_u32]. now rewrite R.
  - destruct (Z.eqb_spec d 1) as [->|]; [|discriminate]. inv_ok I.
    cbn [num_is_integer]. rewrite ris_integer_1. cbn [bind num_to_u32].
    rewrite ris_integer_1, rto_integer_1. cbn [bind]. now rewrite R.
Qed.
