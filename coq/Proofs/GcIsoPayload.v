(* GcIsoPayload.v — C03, part 8: fresh Rc payloads (environments, vectors, continuations):
   the id is the same on both sides ([next_id] agrees); the world gains the id. *)
From Coq Require Import Lia List.
From MW Require Import Model.Base Model.Num Model.VmTypes Model.Heap Model.Gc Model.VmBase Model.Vm
  Proofs.GcProofs Proofs.SymtabProofs Proofs.GcIso Proofs.GcIsoPrim Proofs.GcIsoStep Proofs.GcIsoAlloc
  Proofs.GcIsoHmi.
Open Scope N_scope.
Arguments N.add : simpl never.
Arguments N.sub : simpl never.
Arguments N.eqb : simpl never.
Arguments N.ltb : simpl never.
Arguments N.leb : simpl never.
Arguments N.mul : simpl never.

Definition wexti (W : world) (q : pid) : world :=
  mk_world (wa W) (fun i => wi W i \/ i = q) (wf W) (wtop W).
Lemma ext0_wexti W q : ext0 W (wexti W q).
Proof. constructor; cbn [wexti wa wi wf]; auto. Qed.
Lemma ext_wexti W q : ext W (wexti W q).
Proof. split; [apply ext0_wexti|cbn [wexti wtop]; lia]. Qed.

Lemma srel_newid W q s1 s2 x1 x2 : srel W s1 s2 -> store_rel (wexti W q) x1 x2 ->
  srel (wexti W q) (with_store s1 x1) (with_store s2 x2).
Proof.
  intros R SR. rewrite <- (with_heap_same s1), <- (with_heap_same s2).
  eapply srel_rebuild; [exact R|apply ext0_wexti|reflexivity|apply (sr_inj _ _ _ R)|
                        apply (sr_hi1 _ _ _ R)|apply (sr_hi2 _ _ _ R)|apply (sr_b1 _ _ _ R)| |exact SR].
  cbn [wexti wa wf]. intros a Ha. split; [apply (sr_al1 _ _ _ R a Ha)|]. split; [apply (sr_al2 _ _ _ R a Ha)|].
  eapply vr_ext; [apply ext0_wexti|apply (sr_cell _ _ _ R a Ha)].
Qed.

Ltac old_id H :=
  let X := fresh in destruct H as [H|X]; [|first [discriminate X|injection X as X; congruence]].

Lemma store_rel_new_env W x1 x2 l1 l2 : store_rel W x1 x2 -> lr W l1 l2 ->
  store_rel (wexti W (PEnv (next_id x1))) (snd (new_env x1 l1)) (snd (new_env x2 l2)).
Proof.
  intros [A1 A2 A3 A4 A5 A6 A7] Hl. pose proof (ext0_wexti W (PEnv (next_id x1))) as E.
  constructor; cbn [new_env snd strs macros next_id envs vecs conts lams wexti wi]; try assumption; try congruence.
  - intros j Hj. rewrite A3. destruct (N.eq_dec (next_id x1) j) as [<-|Hne].
    + rewrite !tget_tset_same. cbn [orel]. eapply lr_ext; eassumption.
    + rewrite !tget_tset_other by exact Hne. old_id Hj. eapply orel_impl; [|apply A4, Hj]. intros a b. apply lr_ext, E.
  - intros j Hj. old_id Hj. eapply orel_impl; [|apply A5, Hj]. intros a b. apply lr_ext, E.
  - intros j Hj. old_id Hj. eapply orel_impl; [|apply A6, Hj]. intros a b. apply contr_ext, E.
  - intros j Hj. old_id Hj. eapply orel_impl; [|apply A7, Hj]. intros a b. apply lamr_ext, E.
Qed.
Lemma store_rel_new_vec W x1 x2 l1 l2 : store_rel W x1 x2 -> lr W l1 l2 ->
  store_rel (wexti W (PVec (next_id x1))) (snd (new_vec x1 l1)) (snd (new_vec x2 l2)).
Proof.
  intros [A1 A2 A3 A4 A5 A6 A7] Hl. pose proof (ext0_wexti W (PVec (next_id x1))) as E.
  constructor; cbn [new_vec snd strs macros next_id envs vecs conts lams wexti wi]; try assumption; try congruence.
  - intros j Hj. old_id Hj. eapply orel_impl; [|apply A4, Hj]. intros a b. apply lr_ext, E.
  - intros j Hj. rewrite A3. destruct (N.eq_dec (next_id x1) j) as [<-|Hne].
    + rewrite !tget_tset_same. cbn [orel]. eapply lr_ext; eassumption.
    + rewrite !tget_tset_other by exact Hne. old_id Hj. eapply orel_impl; [|apply A5, Hj]. intros a b. apply lr_ext, E.
  - intros j Hj. old_id Hj. eapply orel_impl; [|apply A6, Hj]. intros a b. apply contr_ext, E.
  - intros j Hj. old_id Hj. eapply orel_impl; [|apply A7, Hj]. intros a b. apply lamr_ext, E.
Qed.
Lemma store_rel_new_cont W x1 x2 k1 k2 : store_rel W x1 x2 -> contr W k1 k2 ->
  store_rel (wexti W (PCont (next_id x1))) (snd (new_cont x1 k1)) (snd (new_cont x2 k2)).
Proof.
  intros [A1 A2 A3 A4 A5 A6 A7] Hl. pose proof (ext0_wexti W (PCont (next_id x1))) as E.
  constructor; cbn [new_cont snd strs macros next_id envs vecs conts lams wexti wi]; try assumption; try congruence.
  - intros j Hj. old_id Hj. eapply orel_impl; [|apply A4, Hj]. intros a b. apply lr_ext, E.
  - intros j Hj. old_id Hj. eapply orel_impl; [|apply A5, Hj]. intros a b. apply lr_ext, E.
  - intros j Hj. rewrite A3. destruct (N.eq_dec (next_id x1) j) as [<-|Hne].
    + rewrite !tget_tset_same. cbn [orel]. eapply contr_ext; eassumption.
    + rewrite !tget_tset_other by exact Hne. old_id Hj. eapply orel_impl; [|apply A6, Hj]. intros a b. apply contr_ext, E.
  - intros j Hj. old_id Hj. eapply orel_impl; [|apply A7, Hj]. intros a b. apply lamr_ext, E.
Qed.

Lemma vr_newid W q v : vids v = [q] -> vaddrs v = [] -> vr (wexti W q) v v.
Proof.
  intros Hi Ha. split; [destruct v; try reflexivity; discriminate|].
  split; [rewrite Ha; intros x []|rewrite Hi; intros x [<-|[]]; cbn [wexti wi]; now right].
Qed.

Lemma sim_env_new W l1 l2 : lr W l1 l2 -> sim W vr (env_new l1) (env_new l2).
Proof.
  intros Hl s1 s2 R. unfold env_new. intros B.
  pose proof (sr_next _ _ _ (sr_store _ _ _ R)) as En.
  eexists _, _, (wexti W (PEnv (next_id (st s1)))). split; [reflexivity|]. split; [apply ext_wexti|]. split.
  - apply srel_newid; [exact R|]. apply (store_rel_new_env W _ _ _ _ (sr_store _ _ _ R) Hl).
  - cbn [new_env fst]. rewrite En. apply vr_newid; reflexivity.
Qed.
Lemma sim_vec_new W l1 l2 : lr W l1 l2 -> sim W vr (vec_new l1) (vec_new l2).
Proof.
  intros Hl s1 s2 R. unfold vec_new. intros B.
  pose proof (sr_next _ _ _ (sr_store _ _ _ R)) as En.
  eexists _, _, (wexti W (PVec (next_id (st s1)))). split; [reflexivity|]. split; [apply ext_wexti|]. split.
  - apply srel_newid; [exact R|]. apply (store_rel_new_vec W _ _ _ _ (sr_store _ _ _ R) Hl).
  - cbn [new_vec fst]. rewrite En. apply vr_newid; reflexivity.
Qed.

(* the stack up to %sp is renamed pointwise *)
Lemma stack_to_sp_rel W s1 s2 : srel W s1 s2 -> lr W (stack_to_sp s1) (stack_to_sp s2).
Proof.
  intros R. unfold stack_to_sp. rewrite (sr_sp _ _ _ R).
  assert (H : forall n a, a + N.of_nat n <= sp s1 + 1 ->
            lr W (map (sget s1) (range_asc a n)) (map (sget s2) (range_asc a n))).
  { induction n as [|n IH]; intros a Ha; [split; [reflexivity|constructor]|].
    cbn [range_asc map]. destruct (IH (a + 1)) as [E L]; [lia|].
    destruct (sr_stack _ _ _ R a) as [E0 L0]; [pose proof (sr_top _ _ _ R); lia|].
    split; [cbn [map]; rewrite E0, E; reflexivity|constructor; assumption]. }
  apply H. lia.
Qed.
Lemma sim_to_continuation W : sim W vr to_continuation to_continuation.
Proof.
  intros s1 s2 R. unfold to_continuation. intros B.
  pose proof (sr_next _ _ _ (sr_store _ _ _ R)) as En.
  eexists _, _, (wexti W (PCont (next_id (st s1)))). split; [reflexivity|]. split; [apply ext_wexti|]. split.
  - apply srel_newid; [exact R|]. apply (store_rel_new_cont W _ _ _ _ (sr_store _ _ _ R)).
    destruct (stack_to_sp_rel W s1 s2 R) as [Es Ls]. destruct (sr_ep _ _ _ R) as [Ee Le].
    destruct (sr_ip _ _ _ R) as [[Ei Li] Ei2]. split.
    + unfold kmap. cbn [k_stack k_sp k_ep k_ip k_bp]. rewrite Es, (sr_sp _ _ _ R), (sr_bp _ _ _ R), Ee.
      f_equal. destruct (ip s1), (ip s2); cbn [fst snd] in *. congruence.
    + repeat split; assumption.
  - cbn [new_cont fst]. rewrite En. apply vr_newid; reflexivity.
Qed.

(* VPUSH: the vector's payload is replaced *)
Lemma sim_vec_set W vid l1 l2 : wi W (PVec vid) -> lr W l1 l2 ->
  sim W (@anyr unit unit) (vec_set vid l1) (vec_set vid l2).
Proof.
  intros Hi Hl s1 s2 R. unfold vec_set. intros B.
  eexists tt, _, W. split; [reflexivity|]. split; [apply ext_refl|]. split; [|exact I].
  apply srel_store; [exact R|]. destruct (sr_store _ _ _ R) as [A1 A2 A3 A4 A5 A6 A7].
  constructor; cbn [set_vec strs macros next_id envs vecs conts lams]; try assumption.
  intros j Hj. destruct (N.eq_dec vid j) as [<-|Hne].
  - rewrite !tget_tset_same. exact Hl.
  - rewrite !tget_tset_other by exact Hne. apply A5, Hj.
Qed.
Lemma lr_app W a1 a2 b1 b2 : lr W a1 a2 -> lr W b1 b2 -> lr W (a1 ++ b1) (a2 ++ b2).
Proof. intros [-> L1] [-> L2]. split; [symmetry; apply map_app|apply Forall_app; split; assumption]. Qed.
Lemma lr_one W v1 v2 : vr W v1 v2 -> lr W [v1] [v2].
Proof. intros [-> L]. split; [reflexivity|constructor; [exact L|constructor]]. Qed.

Lemma sim_hmaybe_put W v1 v2 : vr W v1 v2 -> sim W vr (hmaybe_put v1) (hmaybe_put v2).
Proof.
  intros Hv. pose proof Hv as [-> L].
  destruct v1; try exact (sim_hput W _ _ Hv);
    (intros s1 s2 R; unfold hmaybe_put; cbn [vmap heap_maybe_put]; rewrite !with_heap_same; intros B;
     eexists _, s2, W; split; [reflexivity|]; split; [apply ext_refl|]; split; [exact R|exact Hv]).
Qed.
