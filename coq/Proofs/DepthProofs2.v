(* DepthProofs2.v — the statements Props/C19.v kept OPEN (work package c19b):
   get_as_cell and mark through nested vectors (unbounded, exact depths), and equal? along
   the cdr (bounded by 3 on every "flat" heap, for lists of any length, equal or not). *)
From Coq Require Import Lia FMapPositive String.
From MW Require Import Model.Base Model.F64 Model.Num Model.NumArith Model.Datum Model.Lex Model.Parse
  Model.TransformDef Model.Transform Model.VmTypes Model.Heap Model.VmBase Model.Compile Model.Gc
  Model.Depth Proofs.DepthProofs.
Open Scope nat_scope.

Local Ltac nm := unfold nmax in *.

(* ====================================================== the nested-vector heap *)
Lemma vec_cells_0 : vec_cells 0 = VNil.
Proof. reflexivity. Qed.
Lemma vec_cells_S : forall j, vec_cells (N.of_nat (S j)) = VVec (N.of_nat (S j)).
Proof. intro j. unfold vec_cells. destruct (N.eqb_spec (N.of_nat (S j)) 0); [lia|reflexivity]. Qed.

Lemma vec_heap_get0 : forall n, heap_get (vec_heap n) 0 = Ok VNil.
Proof. intro n. unfold vec_heap. rewrite heap_of_fun_get by lia. reflexivity. Qed.
Lemma vec_heap_getS : forall n j, j < n ->
  heap_get (vec_heap n) (N.of_nat (S j)) = Ok (VVec (N.of_nat (S j))).
Proof. intros n j H. unfold vec_heap. rewrite heap_of_fun_get by lia. now rewrite vec_cells_S. Qed.
Lemma vec_heap_cell_at0 : forall n, cell_at (vec_heap n) 0 = VNil.
Proof. intro n. unfold vec_heap. rewrite heap_of_fun_cell_at by lia. reflexivity. Qed.
Lemma vec_heap_cell_atS : forall n j, j < n ->
  cell_at (vec_heap n) (N.of_nat (S j)) = VVec (N.of_nat (S j)).
Proof. intros n j H. unfold vec_heap. rewrite heap_of_fun_cell_at by lia. now rewrite vec_cells_S. Qed.
Lemma vec_store_getS : forall n j, j < n ->
  tget (vecs (vec_store n)) (N.of_nat (S j)) = Some [VPtr (N.of_nat j)].
Proof.
  intros n j H. unfold vec_store. cbn [vecs]. rewrite tbl_fill_get by lia.
  do 3 f_equal. lia.
Qed.

(* ================================================= get_as_cell through vectors *)
Section GacVec.
Variable bname : N -> text.

Lemma gac_vec_eq : forall h s f vid l,
  tget (vecs s) vid = Some l ->
  gac_d bname h s (S f) (VVec vid) =
  let '(n, o) :=
    (fix elems (l : list vcell) : nat * out (list cell) :=
       match l with
       | [] => (O, Ok [])
       | x :: r =>
           let '(dx, ox) := gac_d bname h s f x in
           match ox with
           | Ok c => let '(dr, or) := elems r in (nmax dx dr, do cs <- or; Ok (c :: cs))
           | Err e => (dx, Err e) | Panic q => (dx, Panic q) | NoFuel => (dx, NoFuel)
           end
       end) l in
  (S n, do cs <- o; Ok (CVec cs)).
Proof. intros h s f vid l H. cbn [gac_d]. rewrite H. reflexivity. Qed.

(* exactly two frames per level of #(#(#( () ))): get_as_cell(Ptr) -> get_as_cell(Vector) *)
Lemma gac_vec_exact : forall n j fuel, j <= n -> fuel >= 2 * j + 2 ->
  gac_d bname (vec_heap n) (vec_store n) fuel (VPtr (N.of_nat j)) = (2 * j + 2, Ok (nest_vec j)).
Proof.
  intros n. induction j as [|j IH]; intros fuel Hj Hf.
  - destruct fuel as [|[|f]]; try lia.
    rewrite gac_ptr_eq. cbn [N.of_nat]. rewrite vec_heap_get0, gac_nil_eq. reflexivity.
  - destruct fuel as [|[|f]]; try lia.
    rewrite gac_ptr_eq, vec_heap_getS by lia.
    rewrite (gac_vec_eq _ _ _ _ _ (vec_store_getS n j ltac:(lia))).
    rewrite IH by lia. cbn [bind nest_vec]. unfold nmax. f_equal. lia.
Qed.

Lemma gac_vec_unbounded : forall k fuel, fuel >= 3 * k + 2 ->
  fst (gac_d bname (vec_heap k) (vec_store k) fuel (VPtr (N.of_nat k))) > k.
Proof. intros k fuel Hf. rewrite gac_vec_exact by lia. cbn [fst]. lia. Qed.
End GacVec.

(* ========================================================== mark through vectors *)
Section MarkVec.
Variable vd : nat.

Lemma mark_loop_vec : forall h s f p m vid l,
  (p <? hlen h)%N = true -> g_is_used m p = false -> cell_at h p = VVec vid ->
  tget (vecs s) vid = Some l ->
  mark_loop_d h s vd (S f) p m =
  seq_d (mark_vcell_d s (fun p m => let '(d, o) := mark_loop_d h s vd f p m in (S d, o)) vd) l
        (tset m p GUsed).
Proof.
  intros h s f p m vid l H1 H2 H3 H4. cbn [mark_loop_d]. rewrite H1, H2, H3. cbn [negb].
  unfold vec_body_d. rewrite H4. reflexivity.
Qed.

Lemma mark_vcell_ptr : forall s mr vf p m, vf >= 1 ->
  fst (mark_vcell_d s mr vf (VPtr p) m) = S (fst (mr p m)).
Proof. intros s mr vf p m H. destruct vf as [|vf]; [lia|]. cbn [mark_vcell_d]. destruct (mr p m). reflexivity. Qed.

Lemma seq_d_one_ge : forall A (f : A -> gmap -> dgm) x m, fst (seq_d f [x] m) >= fst (f x m).
Proof.
  intros A f x m. cbn [seq_d]. destruct (f x m) as [d1 o]. destruct o; cbn [fst]; nm; lia.
Qed.

(* two frames per level: mark -> mark_vcell (per element) -> mark *)
Lemma mark_loop_vec_ge : forall n j fuel m, j <= n -> fuel >= j -> vd >= 1 ->
  (forall i, i <= j -> g_is_used m (N.of_nat i) = false) ->
  fst (mark_loop_d (vec_heap n) (vec_store n) vd fuel (N.of_nat j) m) >= 2 * j.
Proof.
  intros n. induction j as [|j IH]; intros fuel m Hj Hf Hvd Hm; [lia|].
  destruct fuel as [|f]; [lia|].
  rewrite (mark_loop_vec _ _ _ _ _ (N.of_nat (S j)) [VPtr (N.of_nat j)]).
  - eapply Nat.le_trans; [|apply seq_d_one_ge].
    rewrite mark_vcell_ptr by exact Hvd.
    specialize (IH f (tset m (N.of_nat (S j)) GUsed) ltac:(lia) ltac:(lia) ltac:(lia)).
    assert (Hm' : forall i, i <= j -> g_is_used (tset m (N.of_nat (S j)) GUsed) (N.of_nat i) = false).
    { intros i Hi. rewrite g_is_used_tset_neq by lia. apply Hm. lia. }
    specialize (IH Hm').
    destruct (mark_loop_d (vec_heap n) (vec_store n) vd f (N.of_nat j) _) as [d o].
    cbn [fst] in *. lia.
  - unfold vec_heap. rewrite hlen_heap_of_fun. apply N.ltb_lt. lia.
  - apply Hm. lia.
  - apply vec_heap_cell_atS. lia.
  - apply vec_store_getS. lia.
Qed.

Lemma mark_vec_ge : forall n j fuel, j <= n -> fuel >= j -> vd >= 1 ->
  fst (mark_d (vec_heap n) (vec_store n) vd fuel (N.of_nat j) tempty) >= 2 * j + 1.
Proof.
  intros n j fuel Hj Hf Hvd. unfold mark_d.
  pose proof (mark_loop_vec_ge n j fuel tempty Hj Hf Hvd) as H.
  destruct (mark_loop_d (vec_heap n) (vec_store n) vd fuel (N.of_nat j) tempty) as [d o]. cbn [fst] in *.
  assert (d >= 2 * j); [|lia]. apply H. intros i _. unfold g_is_used, g_get. rewrite tget_tempty. reflexivity.
Qed.

Lemma mark_vec_unbounded : forall k fuel, fuel >= 2 * k + 2 -> vd >= 1 ->
  fst (mark_d (vec_heap k) (vec_store k) vd fuel (N.of_nat k) tempty) > k.
Proof. intros k fuel Hf Hvd. pose proof (mark_vec_ge k k fuel ltac:(lia) ltac:(lia) Hvd). lia. Qed.
End MarkVec.

(* ============================================================ equal? along the cdr *)
(* A heap is FLAT when the car of every pair is a leaf (neither a pair nor a vector) and no
   cdr is a vector: lists of atoms of any length, proper or improper, sharing or not.  On a
   flat heap equal? never nests deeper than equal -> compare_pair -> equal: compare_pair
   follows both cdr chains in ONE frame, every car comparison and the comparison of the two
   final cdrs (fix 809a7ae: a nested call of equal) return without a further call. *)
Definition leaf_v (v : vcell) : bool :=
  match v with VPair _ _ | VVec _ => false | _ => true end.
Definition is_vvec (v : vcell) : bool := match v with VVec _ => true | _ => false end.
Definition flat_heap (h : heap) : Prop :=
  forall p a d, heap_get h p = Ok (VPair a d) ->
    (forall x, heap_get h a = Ok x -> leaf_v x = true) /\
    (forall x, heap_get h d = Ok x -> is_vvec x = false).

Section EqualCdr.
Variable prof : profile.
Variable s : store.

Lemma equal_O : forall h l r, equal_d prof h s 0 l r = (1, NoFuel).
Proof. reflexivity. Qed.
Lemma cmp_pair_loop_O : forall h l r, cmp_pair_loop_d prof h s 0 l r = (0, NoFuel).
Proof. reflexivity. Qed.

(* one call of equal either returns at once, or both sides are pairs and it enters
   compare_pair, or both sides are vectors *)
Lemma equal_cases : forall h f l r,
  fst (equal_d prof h s (S f) l r) <= 1 \/
  (exists a d a' d', deref1 h l = Ok (VPair a d) /\ deref1 h r = Ok (VPair a' d') /\
     equal_d prof h s (S f) l r =
     let '(n, o) := cmp_pair_loop_d prof h s f (VPair a d) (VPair a' d') in (S (S n), o)) \/
  (exists x y, deref1 h l = Ok (VVec x) /\ deref1 h r = Ok (VVec y)).
Proof.
  intros h f l r. rewrite equal_eq.
  destruct (eqv_m prof h s l r) as [[|]| | |]; try (left; cbn [fst]; lia).
  destruct (deref1 h l) as [l'| | |]; destruct (deref1 h r) as [r'| | |];
    try (left; cbn [fst]; lia).
  destruct l'; try (left; destruct r'; cbn [fst]; lia).
  - (* pair *)
    destruct r'; try (left; cbn [fst]; lia).
    right; left. do 4 eexists. split; [reflexivity|]. split; reflexivity.
  - (* string *)
    destruct r'; try (left; cbn [fst]; lia).
    left. destruct (tget (strs s) sid); [destruct (tget (strs s) sid0)|]; cbn [fst]; lia.
  - (* vector *)
    destruct r'; try (left; cbn [fst]; lia).
    right; right. do 2 eexists. split; reflexivity.
Qed.

Lemma equal_leaf_l : forall h f l r x,
  deref1 h l = Ok x -> leaf_v x = true -> fst (equal_d prof h s f l r) <= 1.
Proof.
  intros h f l r x Hd Hl. destruct f as [|f]; [rewrite equal_O; cbn [fst]; lia|].
  destruct (equal_cases h f l r) as [H|[(a & d & a' & d' & H1 & _)|(v & y & H1 & _)]]; [exact H| |];
    rewrite H1 in Hd; injection Hd as <-; discriminate Hl.
Qed.
Lemma equal_novec_l : forall h f l r x,
  deref1 h l = Ok x -> is_vvec x = false -> is_vpair x = false -> fst (equal_d prof h s f l r) <= 1.
Proof.
  intros h f l r x Hd Hv Hp. destruct f as [|f]; [rewrite equal_O; cbn [fst]; lia|].
  destruct (equal_cases h f l r) as [H|[(a & d & a' & d' & H1 & _)|(v & y & H1 & _)]]; [exact H| |];
    rewrite H1 in Hd; injection Hd as <-; discriminate.
Qed.
Lemma equal_novec_r : forall h f l r x,
  deref1 h r = Ok x -> is_vvec x = false -> is_vpair x = false -> fst (equal_d prof h s f l r) <= 1.
Proof.
  intros h f l r x Hd Hv Hp. destruct f as [|f]; [rewrite equal_O; cbn [fst]; lia|].
  destruct (equal_cases h f l r) as [H|[(a & d & a' & d' & _ & H1 & _)|(v & y & _ & H1)]]; [exact H| |];
    rewrite H1 in Hd; injection Hd as <-; discriminate.
Qed.
Lemma equal_err_l : forall h f l r, (forall x, deref1 h l <> Ok x) -> fst (equal_d prof h s f l r) <= 1.
Proof.
  intros h f l r Hd. destruct f as [|f]; [rewrite equal_O; cbn [fst]; lia|].
  destruct (equal_cases h f l r) as [H|[(a & d & a' & d' & H1 & _)|(v & y & H1 & _)]]; [exact H| |];
    exfalso; eapply Hd; exact H1.
Qed.

(* compare_pair's loop on a flat heap: nothing below it is deeper than one frame *)
Lemma cmp_pair_loop_flat : forall h, flat_heap h -> forall f a d a' d',
  (forall x, heap_get h a = Ok x -> leaf_v x = true) ->
  (forall x, heap_get h d = Ok x -> is_vvec x = false) ->
  fst (cmp_pair_loop_d prof h s f (VPair a d) (VPair a' d')) <= 1.
Proof.
  intros h Hflat. induction f as [|f IH]; intros a d a' d' Ha Hd;
    [rewrite cmp_pair_loop_O; cbn [fst]; lia|].
  rewrite cmp_pair_loop_eq.
  assert (H1 : fst (equal_d prof h s f (VPtr a) (VPtr a')) <= 1).
  { destruct (heap_get h a) as [x| | |] eqn:E.
    - apply (equal_leaf_l h f _ _ x); [exact E|apply Ha; reflexivity].
    - apply equal_err_l. cbn [deref1]. rewrite E. discriminate.
    - apply equal_err_l. cbn [deref1]. rewrite E. discriminate.
    - apply equal_err_l. cbn [deref1]. rewrite E. discriminate. }
  destruct (equal_d prof h s f (VPtr a) (VPtr a')) as [d1 o1]. cbn [fst] in H1.
  destruct o1 as [[|]| | |]; cbn [fst]; try lia.
  destruct (heap_get h d) as [l'| | |] eqn:El; destruct (heap_get h d') as [r'| | |] eqn:Er;
    cbn [fst]; try lia.
  destruct (is_vpair l' && is_vpair r') eqn:Ep.
  - apply andb_true_iff in Ep. destruct Ep as [Ep1 Ep2].
    destruct l' as [| | | |la ld| | | | | | | | | | | | | | | | | | | | | |]; try discriminate Ep1.
    destruct r' as [| | | |ra rd| | | | | | | | | | | | | | | | | | | | | |]; try discriminate Ep2.
    destruct (Hflat d la ld El) as [Hla Hld].
    specialize (IH la ld ra rd Hla Hld).
    destruct (cmp_pair_loop_d prof h s f (VPair la ld) (VPair ra rd)) as [d2 o2]. cbn [fst] in *. nm. lia.
  - (* the final cdrs: one nested call of equal, which returns at once *)
    assert (H2 : fst (equal_d prof h s f (VPtr d) (VPtr d')) <= 1).
    { apply andb_false_iff in Ep. destruct Ep as [Ep|Ep].
      - apply (equal_novec_l h f _ _ l'); [exact El|apply Hd; reflexivity|exact Ep].
      - destruct (is_vvec r') eqn:Ev.
        + (* right is a vector: left is no vector (flat), and if left is a pair ... *)
          destruct (is_vpair l') eqn:Epl.
          * destruct f as [|f']; [rewrite equal_O; cbn [fst]; lia|].
            destruct (equal_cases h f' (VPtr d) (VPtr d'))
              as [H|[(x1 & x2 & x3 & x4 & _ & Hr & _)|(v & y & Hl & _)]]; [exact H| |].
            -- cbn [deref1] in Hr. rewrite Er in Hr. injection Hr as ->. discriminate Ev.
            -- cbn [deref1] in Hl. rewrite El in Hl. injection Hl as ->. discriminate Epl.
          * apply (equal_novec_l h f _ _ l'); [exact El|apply Hd; reflexivity|exact Epl].
        + apply (equal_novec_r h f _ _ r'); [exact Er|exact Ev|exact Ep]. }
    destruct (equal_d prof h s f (VPtr d) (VPtr d')) as [d2 o2]. cbn [fst] in *. nm. lia.
Qed.

(* equal? of any two pointers into a flat heap (the left one not a vector): at most three
   frames, whatever the lengths of the two lists *)
Theorem equal_flat_le : forall h, flat_heap h -> forall f p q,
  (forall x, heap_get h p = Ok x -> is_vvec x = false) ->
  fst (equal_d prof h s f (VPtr p) (VPtr q)) <= 3.
Proof.
  intros h Hflat f p q Hnv. destruct f as [|f]; [rewrite equal_O; cbn [fst]; lia|].
  destruct (equal_cases h f (VPtr p) (VPtr q))
    as [H|[(a & d & a' & d' & Hl & Hr & E)|(x & y & Hl & Hr)]]; [lia| |].
  - rewrite E. cbn [deref1] in Hl. destruct (Hflat p a d Hl) as [Ha Hd].
    pose proof (cmp_pair_loop_flat h Hflat f a d a' d' Ha Hd) as Hc.
    destruct (cmp_pair_loop_d prof h s f (VPair a d) (VPair a' d')) as [n o]. cbn [fst] in *. lia.
  - cbn [deref1] in Hl. apply Hnv in Hl. discriminate Hl.
Qed.
End EqualCdr.

(* ------------------------------------------- the witness heap of Props/C19.v: cdr2_heap *)
Lemma heap_of_fun_get_inv : forall g n p x, heap_get (heap_of_fun g n) p = Ok x ->
  (p < N.of_nat n)%N /\ x = g p.
Proof.
  intros g n p x H. destruct (N.ltb_spec p (N.of_nat n)) as [Hp|Hp].
  - rewrite heap_of_fun_get in H by exact Hp. injection H as <-. split; [exact Hp|reflexivity].
  - unfold heap_get in H. rewrite hlen_heap_of_fun in H.
    destruct (N.ltb_spec p (N.of_nat n)); [lia|discriminate H].
Qed.

Lemma cdr2_cells_shape : forall p, cdr2_cells p = VNil \/ exists d, cdr2_cells p = VPair 0 d.
Proof.
  intro p. unfold cdr2_cells. destruct (p =? 0)%N; [left; reflexivity|right].
  destruct (p <=? 2)%N; eexists; reflexivity.
Qed.

Lemma cdr2_heap_flat : forall n, flat_heap (cdr2_heap n).
Proof.
  intros n p a d H. unfold cdr2_heap in *. apply heap_of_fun_get_inv in H. destruct H as [Hp H].
  destruct (cdr2_cells_shape p) as [E|[d0 E]]; rewrite E in H; [discriminate H|].
  injection H as -> ->. split; intros x Hx; apply heap_of_fun_get_inv in Hx; destruct Hx as [_ ->].
  - reflexivity.
  - destruct (cdr2_cells_shape d0) as [E'|[d1 E']]; rewrite E'; reflexivity.
Qed.
Lemma cdr2_heap_no_vec : forall n p x, heap_get (cdr2_heap n) p = Ok x -> is_vvec x = false.
Proof.
  intros n p x H. unfold cdr2_heap in H. apply heap_of_fun_get_inv in H. destruct H as [_ ->].
  destruct (cdr2_cells_shape p) as [E'|[d1 E']]; rewrite E'; reflexivity.
Qed.

Section EqualCdr2.
Variable prof : profile.
Variable s : store.

(* the statement Props/C19.v kept OPEN: at most 3 frames, for every length, fuel, store *)
Lemma equal_cdr_le : forall n i fuel, 1 <= i -> i <= n ->
  fst (equal_d prof (cdr2_heap n) s fuel (VPtr (N.of_nat (2 * i - 1))) (VPtr (N.of_nat (2 * i)))) <= 3.
Proof.
  intros n i fuel _ _. apply equal_flat_le; [apply cdr2_heap_flat|apply cdr2_heap_no_vec].
Qed.
(* in fact from any two addresses *)
Lemma equal_cdr_le_any : forall n fuel p q,
  fst (equal_d prof (cdr2_heap n) s fuel (VPtr p) (VPtr q)) <= 3.
Proof. intros. apply equal_flat_le; [apply cdr2_heap_flat|apply cdr2_heap_no_vec]. Qed.

(* ... and the constant is exact: two disjoint equal lists of i >= 2 elements compare as
   equal in exactly 3 frames (equal -> compare_pair -> equal on a car / on the final cdrs) *)
Lemma cdr2_get : forall n j, (3 <= j)%N -> (j < N.of_nat (S (2 * n)))%N ->
  heap_get (cdr2_heap n) j = Ok (VPair 0 (j - 2)).
Proof.
  intros n j H3 Hj. unfold cdr2_heap. rewrite heap_of_fun_get by exact Hj. unfold cdr2_cells.
  destruct (N.eqb_spec j 0); [lia|]. destruct (N.leb_spec j 2); [lia|]. reflexivity.
Qed.
Lemma cdr2_get12 : forall n j, (1 <= j <= 2)%N -> (j < N.of_nat (S (2 * n)))%N ->
  heap_get (cdr2_heap n) j = Ok (VPair 0 0).
Proof.
  intros n j H3 Hj. unfold cdr2_heap. rewrite heap_of_fun_get by exact Hj. unfold cdr2_cells.
  destruct (N.eqb_spec j 0); [lia|]. destruct (N.leb_spec j 2); [reflexivity|lia].
Qed.
Lemma cdr2_get0 : forall n, heap_get (cdr2_heap n) 0 = Ok VNil.
Proof. intro n. unfold cdr2_heap. rewrite heap_of_fun_get by lia. reflexivity. Qed.

Lemma if_true_eq : forall A (b : bool) (x y : A), b = true -> (if b then x else y) = x.
Proof. intros A b x y ->. reflexivity. Qed.
Lemma if_false_eq : forall A (b : bool) (x y : A), b = false -> (if b then x else y) = y.
Proof. intros A b x y ->. reflexivity. Qed.
Lemma eqv_same_ptr : forall h p, eqv_m prof h s (VPtr p) (VPtr p) = Ok true.
Proof. intros h p. unfold eqv_m. apply if_true_eq. apply N.eqb_refl. Qed.
Lemma eqv_ptr_pairs : forall h a b a1 d1 a2 d2, a <> b ->
  heap_get h a = Ok (VPair a1 d1) -> heap_get h b = Ok (VPair a2 d2) ->
  eqv_m prof h s (VPtr a) (VPtr b) = Ok ((a1 =? a2)%N && (d1 =? d2)%N).
Proof.
  intros h a b a1 d1 a2 d2 Hne Ha Hb. unfold eqv_m.
  rewrite if_false_eq by (apply N.eqb_neq; exact Hne).
  generalize dependent (heap_get h a). intros o ->. generalize dependent (heap_get h b). intros o ->.
  reflexivity.
Qed.
Lemma equal_same_ptr : forall h f p, equal_d prof h s (S f) (VPtr p) (VPtr p) = (1, Ok true).
Proof. intros h f p. rewrite equal_eq, eqv_same_ptr. reflexivity. Qed.

Lemma cmp_loop_cdr2_last : forall n f, 1 <= n ->
  cmp_pair_loop_d prof (cdr2_heap n) s (S (S f)) (VPair 0 0) (VPair 0 0) = (1, Ok true).
Proof.
  intros n f Hn. rewrite cmp_pair_loop_eq, equal_same_ptr, cdr2_get0. reflexivity.
Qed.

Lemma cmp_loop_cdr2_exact : forall n j f, 1 <= j -> j < n -> f >= j + 2 ->
  cmp_pair_loop_d prof (cdr2_heap n) s f
    (VPair 0 (N.of_nat (2 * j - 1))) (VPair 0 (N.of_nat (2 * j))) = (1, Ok true).
Proof.
  intros n. induction j as [|j IH]; intros f H1 Hn Hf; [lia|].
  destruct f as [|[|f]]; try lia.
  rewrite cmp_pair_loop_eq, equal_same_ptr.
  destruct j as [|j'].
  - rewrite !cdr2_get12 by lia. cbn [is_vpair andb].
    destruct f as [|f]; [lia|]. rewrite cmp_loop_cdr2_last by lia. reflexivity.
  - rewrite !cdr2_get by lia. cbn [is_vpair andb].
    replace (N.of_nat (2 * S (S j') - 1) - 2)%N with (N.of_nat (2 * S j' - 1)) by lia.
    replace (N.of_nat (2 * S (S j')) - 2)%N with (N.of_nat (2 * S j')) by lia.
    rewrite IH by lia. reflexivity.
Qed.

Lemma equal_cdr_exact : forall n i fuel, 2 <= i -> i <= n -> fuel >= i + 2 ->
  equal_d prof (cdr2_heap n) s fuel (VPtr (N.of_nat (2 * i - 1))) (VPtr (N.of_nat (2 * i))) = (3, Ok true).
Proof.
  intros n i fuel H2 Hn Hf. destruct fuel as [|f]; [lia|].
  set (a := N.of_nat (2 * i - 1)). set (b := N.of_nat (2 * i)).
  assert (Ha : heap_get (cdr2_heap n) a = Ok (VPair 0 (a - 2))) by (apply cdr2_get; subst a; lia).
  assert (Hb : heap_get (cdr2_heap n) b = Ok (VPair 0 (b - 2))) by (apply cdr2_get; subst b; lia).
  rewrite equal_eq. rewrite (eqv_ptr_pairs _ a b _ _ _ _ ltac:(subst a b; lia) Ha Hb).
  unfold deref1. rewrite Ha, Hb.
  replace ((0 =? 0) && (a - 2 =? b - 2))%N%bool with false
    by (symmetry; apply andb_false_iff; right; apply N.eqb_neq; subst a b; lia).
  replace (a - 2)%N with (N.of_nat (2 * (i - 1) - 1)) by (subst a; lia).
  replace (b - 2)%N with (N.of_nat (2 * (i - 1))) by (subst b; lia).
  rewrite cmp_loop_cdr2_exact by lia. reflexivity.
Qed.
End EqualCdr2.
