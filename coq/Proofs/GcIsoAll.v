(* GcIsoAll.v — C03, part 12: run_one commutes with a renaming of heap addresses, for the
   whole instruction set. *)
From Coq Require Import Lia List.
From MW Require Import Model.Base Model.Num Model.VmTypes Model.Heap Model.Gc Model.VmBase Model.Vm
  Proofs.GcProofs Proofs.SymtabProofs Proofs.GcIso Proofs.GcIsoPrim Proofs.GcIsoStep Proofs.GcIsoAlloc
  Proofs.GcIsoHmi Proofs.GcIsoPayload Proofs.GcIsoStep2 Proofs.GcIsoCall Proofs.GcIsoClos.
Open Scope N_scope.
Arguments N.add : simpl never.
Arguments N.sub : simpl never.
Arguments N.eqb : simpl never.
Arguments N.ltb : simpl never.
Arguments N.leb : simpl never.
Arguments N.mul : simpl never.

(* a bind whose first computation is monotone AT the state it runs from *)
Lemma outcome_bind_pt {A1 A2 B1 B2} W P Q (m1 : M A1) (m2 : M A2) (k1 : A1 -> M B1) (k2 : A2 -> M B2) s1 s2 :
  outcome W P (m1 s1) (m2 s2) ->
  match m1 s1 with
  | ROk _ s' => heap_inv (hp s') /\ hlen (hp s1) <= hlen (hp s')
  | RErr _ _ s' => heap_inv (hp s') /\ hlen (hp s1) <= hlen (hp s')
  | _ => True
  end ->
  (forall a, hmi (k1 a)) ->
  (forall W' a1 a2 s1m s2m, m1 s1 = ROk a1 s1m -> ext W W' -> srel W' s1m s2m -> P W' a1 a2 ->
                            outcome W' Q (k1 a1 s1m) (k2 a2 s2m)) ->
  outcome W Q (bindM m1 k1 s1) (bindM m2 k2 s2).
Proof.
  intros Hm Mono1 Hk Hs. unfold bindM, outcome in *.
  destruct (m1 s1) as [a1 s1m|e msg s1m| |] eqn:E1; try exact I.
  - destruct Mono1 as [HIm _]. pose proof (Hk a1 s1m HIm) as Mono.
    destruct (k1 a1 s1m) as [b1 s1'|e msg s1'| |] eqn:E2; try exact I.
    + intros B. destruct Hm as (a2 & s2m & W' & -> & X1 & R1 & P1); [unfold bounded in *; lia|].
      pose proof (Hs W' a1 a2 s1m s2m eq_refl X1 R1 P1) as H2. rewrite E2 in H2.
      destruct (H2 B) as (b2 & s2' & W'' & E4 & X2 & R2 & Q2).
      exists b2, s2', W''. split; [exact E4|]. split; [eapply ext_trans; eassumption|]. split; assumption.
    + intros B. destruct Hm as (a2 & s2m & W' & -> & X1 & R1 & P1); [unfold bounded in *; lia|].
      pose proof (Hs W' a1 a2 s1m s2m eq_refl X1 R1 P1) as H2. rewrite E2 in H2.
      destruct (H2 B) as (s2' & W'' & E4 & X2 & R2).
      exists s2', W''. split; [exact E4|]. split; [eapply ext_trans; eassumption|assumption].
  - intros B. destruct (Hm B) as (s2' & W' & -> & X1 & R1). exists s2', W'. auto.
Qed.

Lemma hmi_call_rest l : hmi (call_rest l). Proof. unfold call_rest. hmi. Qed.
Lemma hmi_cont_rest c : hmi (cont_rest c). Proof. unfold cont_rest. hmi. Qed.
#[export] Hint Resolve hmi_call_rest hmi_cont_rest : hmi.

Section All.
Variable ob : N -> M vcell.

Lemma hmi_callee_tail s t :
  match t with VBuiltin b => hmi (run_builtin ob b) | _ => True end -> hmi (callee_tail ob s t).
Proof. intros H. destruct t; cbn [callee_tail]; hmi. Qed.

Lemma resolve_callee_mono s : call_ok ob s -> heap_inv (hp s) ->
  match resolve_callee ob s with
  | ROk _ s' => heap_inv (hp s') /\ hlen (hp s) <= hlen (hp s')
  | RErr _ _ s' => heap_inv (hp s') /\ hlen (hp s) <= hlen (hp s')
  | _ => True
  end.
Proof.
  intros g HI. rewrite resolve_callee_eq. unfold bindM.
  pose proof (hmi_hderef (acc s) s HI) as H0.
  destruct (hderef (acc s) s) as [t s'|e msg s'| |] eqn:E; try exact I; [|exact H0].
  specialize (g t s' E). destruct H0 as [HI' L].
  assert (Hb : match t with VBuiltin b => hmi (run_builtin ob b) | _ => True end)
    by (destruct t; try exact I; apply g).
  pose proof (hmi_callee_tail s t Hb s' HI') as H1.
  destruct (callee_tail ob s t s'); try exact I; (split; [apply H1|]; destruct H1; lia).
Qed.

Definition cov_op_all (op : opcode) (s : vm) : Prop :=
  match op with
  | OCons | OVPushAcc | OVarArg | OEnter => True
  | OClosureAcc => clo_ok s
  | OCallAcc => call_ok ob s
  | OTCallAcc => call_ok ob s /\ forall lam s', resolve_callee ob s = ROk (CLambda lam) s' -> frame_ok s'
  | other => cov_op other s
  end.
Definition covered_all (s : vm) : Prop := forall op s', read_opcode s = ROk op s' -> cov_op_all op s'.

Lemma covered_covered_all s : covered s -> covered_all s.
Proof. intros C op s' E. specialize (C op s' E). destruct op; cbn [cov_op cov_op_all] in *; try exact C; contradiction. Qed.

Theorem run_one_iso_all W s1 s2 :
  srel W s1 s2 -> covered_all s1 -> outcome W (@eqr bool) (run_one ob s1) (run_one ob s2).
Proof.
  intros R C.
  destruct (read_opcode s1) as [op s1a|e msg s1a|k|] eqn:E;
    try (apply run_one_iso; [exact R|]; intros op' s' E'; rewrite E in E'; discriminate).
  specialize (C op s1a E).
  destruct op; cbn [cov_op_all] in C;
    try (apply run_one_iso; [exact R|]; intros op' s' E'; rewrite E in E'; injection E' as <- <-; exact C);
    unfold run_one; (eapply step0_bind_eq; [apply read_opcode_step, R|]);
    intros op1 op2 s1b s2a E' Ra [-> _]; rewrite E in E'; injection E' as <- <-.
  - (* CONS *) exact (sim_outcome _ _ _ _ _ _ (sim_cons W) Ra).
  - (* VPUSH *) exact (sim_outcome _ _ _ _ _ _ (sim_vpush W) Ra).
  - (* CALL *)
    eapply outcome_bind_pt; [apply simg_resolve_callee; [exact Ra|exact C]|
                             apply resolve_callee_mono; [exact C|apply (sr_hi1 _ _ _ Ra)]|intros; hmi|].
    intros W1 c1 c2 s1m s2m Ec E1 Rm Hc. destruct c1, c2; cbn [crel] in Hc; try contradiction.
    + exact (sim_outcome _ _ _ _ _ _ (sim_call_rest W1 _ _ Hc) Rm).
    + exact (sim_outcome _ _ _ _ _ _ (sim_ret W1 eqr false false eq_refl) Rm).
  - (* CLOSURE *) exact (simg_closure W s1a s2a Ra C).
  - (* ENTER *) exact (simg_enter W s1a s2a Ra I).
  - (* TCALL *) destruct C as [C1 C2].
    eapply outcome_bind_pt; [apply simg_resolve_callee; [exact Ra|exact C1]|
                             apply resolve_callee_mono; [exact C1|apply (sr_hi1 _ _ _ Ra)]|intros; hmi|].
    intros W1 c1 c2 s1m s2m Ec E1 Rm Hc. destruct c1, c2; cbn [crel] in Hc; try contradiction.
    + exact (simg_tcall_frame W1 _ _ Hc s1m s2m Rm (C2 _ _ Ec)).
    + exact (sim_outcome _ _ _ _ _ _ (sim_ret W1 eqr false false eq_refl) Rm).
  - (* VARARG *)
    eapply step0_bind_eq; [apply cur_lambda_step, Ra|].
    intros l1 l2 s1m s2m El Rm ([-> Ll] & _). cbv beta. rewrite lmap_args_len.
    exact (sim_outcome _ _ _ _ _ _ (sim_vararg_rest W _) Rm).
Qed.
End All.
