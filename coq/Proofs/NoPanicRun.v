(* NoPanicRun.v — C06: every instruction of run_one, the builtins of procedure.rs / ports.rs,
   stack_trace, the run loop and Vm::eval in the [npost okp] calculus: from a [wfm] state no panic
   at the sites 11 13 41 42 43 45 46 47 48 49 50 51. *)
From Coq Require Import Lia List.
From MW Require Import Model.Base Model.F64 Model.Num Model.Datum Model.TransformDef Model.Transform
  Model.VmTypes Model.Heap Model.Gc Model.VmBase Model.Compile Model.Vm
  Proofs.GcProofs Proofs.SymtabProofs Proofs.VmProofs0 Proofs.TailProofs Proofs.EnvProofs
  Proofs.FlatProofs Proofs.FlatCompile Proofs.KeepCalc Proofs.KeepCompile Proofs.KeepRun
  Proofs.NoPanicBase Proofs.NoPanicPrims Proofs.NoPanicPrims2 Proofs.NoPanicPrims3 Proofs.NoPanicPutCell
  Proofs.NoPanicListVec Proofs.NoPanicCompile.
Open Scope N_scope.
Arguments N.add : simpl never.
Arguments N.sub : simpl never.
Arguments N.eqb : simpl never.
Arguments N.ltb : simpl never.
Arguments N.leb : simpl never.
Arguments N.mul : simpl never.

(* ------------------------------------------------------------------ small readers *)
Lemma np_as_argc v s : wfm s -> npo s (as_argc v s) (fun _ n => v = VArgc n).
Proof. intros W. destruct v; try apply npost_fail, W. apply npost_ret; [exact W|reflexivity]. Qed.
Lemma np_as_bp v s : wfm s -> npo s (as_bp v s) T_.
Proof. intros W. destruct v; try apply npost_fail, W. apply npost_ret; [exact W|exact I]. Qed.
Lemma np_as_ep v s : wfm s -> npo s (as_ep v s) T_.
Proof. intros W. destruct v; try apply npost_fail, W. apply npost_ret; [exact W|exact I]. Qed.
Lemma np_as_ip v s : wfm s -> vwf s v -> npo s (as_ip v s) (fun s' i => 1 <= snd i /\ lamcell s' (fst i)).
Proof.
  intros W Hv. destruct v; try apply npost_fail, W. apply npost_ret; [exact W|].
  cbn [vwf] in Hv. cbn [fst snd]. tauto.
Qed.
Lemma np_vm_usub a b s : wfm s -> npo s (Vm.usub a b s) T_.
Proof. intros W. unfold Vm.usub. destruct (a <? b); [reflexivity|apply npost_ret; [exact W|exact I]]. Qed.
Lemma np_get_vm s : wfm s -> npo s (get_vm s) (fun s' a => a = s' /\ s' = s).
Proof. intros W. apply npost_get_vm, W. Qed.

Ltac np_user ::=
  lazymatch goal with
  | |- npost _ ?s (?m ?s) _ =>
      lazymatch m with
      | get_vm => apply np_get_vm
      | stack_get _ => apply np_stack_get
      | stack_get_offset _ => apply np_stack_get_offset
      | stack_put _ _ => apply np_stack_put
      | stack_put_offset _ _ => apply np_stack_put_offset
      | push _ => apply np_push
      | set_acc _ => apply np_set_acc
      | set_bp _ => apply np_set_bp
      | set_ep _ => apply np_set_ep
      | set_sp _ => apply np_set_sp
      | hget _ => apply np_hget
      | hderef _ => apply np_hderef
      | hmaybe_put _ => apply np_hmaybe_put
      | as_ptr _ => apply np_as_ptr
      | as_argc _ => apply np_as_argc
      | as_bp _ => apply np_as_bp
      | as_ep _ => apply np_as_ep
      | as_ip _ => apply np_as_ip
      | as_lexenv _ => apply np_as_lexenv
      | as_lambda _ => apply np_as_lambda
      | Vm.usub _ _ => apply np_vm_usub
      | env_get _ _ => apply np_env_get
      | env_put _ _ _ => apply np_env_put
      | env_new _ => apply np_env_new
      | env_slots _ => apply np_env_slots
      | to_cell _ => apply np_to_cell
      | pop_deref => apply np_pop_deref
      | _ => np_more
      end
  end.

(* ------------------------------------------------------------------ operands *)
Lemma np_load_lex_slot k s : wfm s -> npo s (load_lex_slot k s) V.
Proof. intros W. unfold load_lex_slot. np_go. Qed.
Lemma np_store_lex_slot k v s : wfm s -> vwf s v -> npo s (store_lex_slot k v s) T_.
Proof. intros W Hv. unfold store_lex_slot. np_go. Qed.
Lemma np_load_arg i s : wfm s -> npo s (load_arg i s) V.
Proof. intros W. unfold load_arg. np_go. Qed.

Lemma list_get_lt {X} (l : list X) i : i < len l -> list_get l i <> None.
Proof. unfold list_get, len. intros H E. apply nth_error_None in E. lia. Qed.

Lemma np_load_tail o s : wfm s -> vwf s o -> npo s (load_tail o s) V.
Proof.
  intros W Ho. unfold load_tail. eapply npost_bind; [apply np_get_vm, W|]. intros a s1 W1 G1 [-> ->].
  destruct o; try (apply npost_fail, W1).
  - apply np_load_lex_slot, W1.
  - apply npost_ret; [exact W1|apply np_wfm_acc, W1].
  - destruct (_ <? 0)%Z; [apply npost_fail, W1|apply np_stack_get, W1].
  - destruct (list_get (g_slots s) i) as [v|] eqn:E; [|exfalso; exact (list_get_lt _ _ Ho E)].
    assert (Hv : vwf s v) by (apply (w_vals s W1); eapply ip_glob; eassumption).
    destruct v; try (apply npost_ret; [exact W1|exact Hv]). apply npost_fail, W1.
  - apply np_hget, W1.
Qed.

(* the destination operand: never a raw pointer (bc_ok) *)
Lemma np_store_tail v o s : wfm s -> vwf s v -> vwf s o -> (forall p, o <> VPtr p) -> npo s (store_tail v o s) T_.
Proof.
  intros W Hv Ho Hp. unfold store_tail. eapply npost_bind; [apply np_get_vm, W|]. intros a s1 W1 G1 [-> ->].
  destruct o; try (apply npost_fail, W1).
  - apply np_store_lex_slot; assumption.
  - apply np_set_acc; assumption.
  - apply np_stack_put_offset; assumption.
  - cbn [vwf] in Ho. destruct (i <? len (g_slots s)) eqn:L; [|apply N.ltb_ge in L; lia].
    apply np_set_global; assumption.
  - exfalso. exact (Hp p eq_refl).
Qed.

(* ------------------------------------------------------------------ closures / frames *)
Lemma np_build_closure_environment m s : wfm s -> npo s (build_closure_environment m s) (fun s' l => lwf s' l).
Proof.
  intros W. unfold build_closure_environment.
  assert (H : forall m acc s, wfm s -> lwf s acc ->
    npo s ((fix go (m : list (vcell * bsrc)) (acc : list vcell) : M (list vcell) :=
              match m with
              | [] => ret (rev acc)
              | (_, src) :: r =>
                  match src with
                  | BIofArgument a => dom v <- load_arg a; go r (v :: acc)
                  | BIofEnvironment iof_slot =>
                      dom s <- get_vm;
                      dom ev <- hget (ep s); dom eid <- as_lexenv ev;
                      dom cur <- env_get eid iof_slot;
                      match cur with
                      | VLexPtr _ _ => go r (cur :: acc)
                      | _ => go r (VLexPtr (ep s) iof_slot :: acc)
                      end
                  | _ => go r (VUndef :: acc)
                  end
              end) m acc s) (fun s' l => lwf s' l)).
  { clear. induction m as [|[x src] r IH]; intros acc s W A.
    - apply npost_ret; [exact W|]. apply lwf_rev, A.
    - destruct src;
      lazymatch goal with
      | |- npost _ _ (bindM (load_arg _) _ _) _ =>
          eapply npost_bind; [apply np_load_arg, W|]; intros v s1 W1 G1 Hv;
          apply IH; [exact W1|]; apply lwf_cons; [exact Hv|]; eapply lwf_grow; [apply grow_grow0, G1|exact A]
      | |- npost _ _ (bindM get_vm _ _) _ =>
          eapply npost_bind; [apply np_get_vm, W|]; intros a s1 W1 G1 [-> ->];
          eapply npost_bind; [apply np_hget, W1|]; intros ev s2 W2 G2 Hev;
          eapply npost_bind; [apply np_as_lexenv, W2|]; intros eid s3 W3 G3 ->;
          (eapply npost_bind; [apply np_env_get; [exact W3|eapply vwf_grow; [apply grow_grow0, G3|exact Hev]]|]);
          intros cur s4 W4 G4 Hc;
          assert (A4 : lwf s4 acc)
            by (eapply lwf_grow; [apply grow_grow0, G4|]; eapply lwf_grow; [apply grow_grow0, G3|];
                eapply lwf_grow; [apply grow_grow0, G2|exact A]);
          destruct cur; apply IH; try exact W4; apply lwf_cons; try exact I; try exact A4; exact Hc
      | |- _ => apply IH; [exact W|apply lwf_cons; [exact I|exact A]]
      end. }
  apply H; [exact W|apply lwf_nil].
Qed.

Lemma lwf_set s l i v : lwf s l -> vwf s v -> lwf s (list_set l i v).
Proof.
  intros Hl Hv. apply lwf_of_get. intros j w H. rewrite list_get_set in H. destruct (i =? j).
  - destruct (list_get l j); [injection H as <-; exact Hv|discriminate].
  - eapply lwf_get; eassumption.
Qed.

Lemma np_build_lexical_environment l cep cenv s : wfm s -> lwf s cenv ->
  npo s (build_lexical_environment l cep cenv s) (fun s' r => lwf s' r).
Proof.
  intros W A. unfold build_lexical_environment.
  match goal with |- npost _ _ (?g _ _ _ _) _ => set (go := g) end.
  assert (H : forall m slot env s, wfm s -> lwf s env -> npo s (go m slot env s) (fun s' r => lwf s' r)).
  { clear W A s. induction m as [|[x src] r IH]; intros slot env s W A.
    - apply npost_ret; [exact W|exact A].
    - unfold go. cbv beta iota fix. fold go. destruct src;
      lazymatch goal with
      | |- npost _ _ (bindM get_vm _ _) _ =>
          eapply npost_bind; [apply np_get_vm, W|]; intros a s1 W1 G1 [-> ->];
          eapply npost_bind; [apply np_vm_usub, W1|]; intros k s2 W2 G2 _;
          eapply npost_bind; [apply np_vm_usub, W2|]; intros b s3 W3 G3 _;
          eapply npost_bind; [apply np_stack_get, W3|]; intros v s4 W4 G4 Hv;
          apply IH; [exact W4|]; apply lwf_set; [|exact Hv];
          eapply lwf_grow; [apply grow_grow0, G4|]; eapply lwf_grow; [apply grow_grow0, G3|];
          eapply lwf_grow; [apply grow_grow0, G2|exact A]
      | |- npost _ _ ((match list_get ?c ?i with _ => _ end) _) _ =>
          destruct (list_get c i) as [w|]; [|reflexivity];
          destruct w; try (destruct (slot <? len env); [|reflexivity]);
          apply IH; try exact W; try exact A; apply lwf_set; try exact A; exact I
      | |- _ => apply IH; [exact W|exact A]
      end. }
  apply H; assumption.
Qed.

(* ------------------------------------------------------------------ procedure.rs / ports.rs *)
Lemma npost_J {X} (m : M X) Q s : kp m -> J s -> npo s (m s) Q -> npo s (m s) (fun s' a => Q s' a /\ J s').
Proof.
  intros K Hj H. specialize (K s Hj). destruct (m s); cbn [npost jpost] in *; tauto.
Qed.

Ltac ip_tr G :=
  repeat match goal with
         | H : ipge ?s0 |- _ => lazymatch type of G with grow s0 _ => apply (proj2 G) in H end
         end.

Ltac np_go0 :=
  cbv beta zeta;
  lazymatch goal with
  | |- npost0 _ ?s (bindM dec_ip ?f ?s) _ =>
      eapply npost0_bind_0; [apply np_dec_ip; assumption|];
      let a := fresh "a" in let s1 := fresh "s" in let W1 := fresh "W" in let G1 := fresh "G" in
      let HL := fresh "HL" in
      intros a s1 W1 G1 HL;
      repeat match goal with
             | H : vwf s _ |- _ => apply (vwf_grow _ _ _ G1) in H
             end;
      apply npost0_ret0; [exact W1|split; [np_val|exact HL]]
  | |- npost0 _ ?s (bindM ?m ?f ?s) _ =>
      eapply npost0_bind;
      [ np_go
      | let a := fresh "a" in let s1 := fresh "s" in let W1 := fresh "W" in
        let G1 := fresh "G" in let Q1 := fresh "Q" in
        intros a s1 W1 G1 Q1; np_tr G1; ip_tr G1;
        (match goal with W0 : wfm s |- _ => clear W0 end); clear G1;
        cbv beta in Q1; np_dq Q1; np_go0 ]
  | |- npost0 _ ?s ((if ?c then _ else _) ?s) _ => destruct c eqn:?; np_go0
  | |- npost0 _ ?s ((match ?v with _ => _ end) ?s) _ =>
      tryif is_var v then destruct v else destruct v eqn:?; cbn [fst snd] in *; np_go0
  | |- npost0 _ _ _ _ => apply npost_npost0; np_go
  end.

Lemma np_pop_n_cells n : forall acc s, wfm s -> npo s (pop_n_cells n acc s) T_.
Proof.
  induction n as [|n IH]; intros acc s W; cbn [pop_n_cells]; [apply npost_ret; [exact W|exact I]|].
  pose proof IH as IH'. np_go.
Qed.
Lemma np_b_error s : wfm s -> npo s (b_error s) V.
Proof.
  intros W. unfold b_error. eapply npost_bind; [apply np_pop_argc, W|]. intros argc s1 W1 G1 _.
  eapply npost_bind; [apply np_pop_n_cells, W1|]. intros cs s2 W2 G2 _. apply npost_fail_msg, W2.
Qed.
Lemma np_b_display wr s : wfm s -> npo s (b_display wr s) V.
Proof.
  intros W. unfold b_display. eapply npost_bind; [apply np_pop_argc, W|]. intros argc s1 W1 G1 _.
  eapply npost_bind; [apply np_pop_raw, W1|]. intros v s2 W2 G2 Hv.
  eapply npost_bind; [apply np_to_cell; assumption|]. intros c s3 W3 G3 _.
  apply npost_regs; cbn [hp st g_slots g_bind scap acc ip with_log]; auto; try lia. exact I.
Qed.

Lemma np_apply_shift : forall k s, wfm s ->
  npo s ((fix shift (k : nat) : M unit :=
            match k with
            | O => ret tt
            | S k' => let it := Z.of_nat k' in
                      dom v <- stack_get_offset (- it)%Z;
                      dom _ <- stack_put_offset (- it - 1)%Z v;
                      shift k'
            end) k s) T_.
Proof.
  induction k as [|k IH]; intros s W; [apply npost_ret; [exact W|exact I]|].
  cbv zeta. eapply npost_bind; [apply np_stack_get_offset, W|]. intros v s1 W1 G1 Hv.
  eapply npost_bind; [apply np_stack_put_offset; assumption|]. intros u s2 W2 G2 _. apply IH, W2.
Qed.
Lemma np_apply_spread : forall fuel r n s, wfm s -> vwf s r ->
  npo s ((fix spread (fuel : nat) (r : vcell) (n : N) : M N :=
            match fuel with
            | O => fun _ => RNoFuel
            | S f =>
                match r with
                | VPair a d => dom _ <- push (VPtr a); dom r' <- hget d; spread f r' (n + 1)
                | VNil => ret n
                | _ => fail E_OTHER
                end
            end) fuel r n s) T_.
Proof.
  induction fuel as [|f IH]; intros r n s W Hr; [exact I|].
  destruct r; try (apply npost_fail, W); try (apply npost_ret; [exact W|exact I]).
  eapply npost_bind; [apply np_push; [exact W|exact I]|]. intros u s1 W1 G1 _.
  eapply npost_bind; [apply np_hget, W1|]. intros r' s2 W2 G2 Hr'. apply IH; assumption.
Qed.

Definition VL : vm -> vcell -> Prop := fun s' r => vwf s' r /\ lamcell s' (fst (ip s')).
Lemma npost_VL s (r : res vcell) : ipge s -> npo s r V -> npo0 s r VL.
Proof.
  intros Hi. destruct r; cbn [npost npost0]; auto. intros (W & [G Gi] & HQ).
  split; [exact W|split; [exact G|split; [exact HQ|exact (proj2 (Gi Hi))]]].
Qed.
Lemma np_b_apply s : wfm s -> ipge s -> npo0 s (b_apply s) VL.
Proof.
  intros W Hi. unfold b_apply. pose proof np_apply_shift as Hs. pose proof np_apply_spread as Hp.
  np_go0.
Qed.

Lemma np_b_call_cc s : wfm s -> ipge s -> J s -> npo0 s (b_call_cc s) VL.
Proof.
  intros W Hi Hj. unfold b_call_cc.
  eapply npost0_bind; [apply (npost_J _ T_ _ (kp_pop_argc _ _) Hj), np_pop_argc, W|].
  intros argc s1 W1 G1 [_ J1]. ip_tr G1.
  eapply npost0_bind; [apply (npost_J _ V _ kp_pop_raw J1), np_pop_raw, W1|].
  intros proc s2 W2 G2 [Hp J2]. ip_tr G2. unfold V in Hp.
  eapply npost0_bind; [apply (npost_J _ V _ (kp_hderef _) J2), np_hderef; assumption|].
  intros pv s3 W3 G3 [_ J3]. ip_tr G3. apply (vwf_grow _ _ _ (grow_grow0 _ _ G3)) in Hp.
  destruct (negb (is_procedure pv)); [apply npost_npost0, npost_fail, W3|].
  eapply npost0_bind; [apply np_to_continuation; [exact W3|apply (j_sp _ J3)|exact Hi]|].
  intros k s4 W4 G4 Hk. ip_tr G4. apply (vwf_grow _ _ _ (grow_grow0 _ _ G4)) in Hp. unfold V in Hk.
  np_go0.
Qed.

(* ------------------------------------------------------------------ CALL / TCALL head *)
Section Run.
Variable ob : N -> M vcell.
Hypothesis Hob : forall b s, wfm s -> npo s (ob b s) V.
Hypothesis Hkp : forall b, kp (ob b).

Lemma np_run_builtin b s : wfm s -> ipge s -> J s -> npo0 s (run_builtin ob b s) VL.
Proof.
  intros W Hi Hj. unfold run_builtin.
  destruct (text_is _ _); [apply np_b_apply; assumption|].
  destruct (_ || _); [apply np_b_call_cc; assumption|].
  destruct (text_is _ _); [apply npost_VL; [exact Hi|apply np_b_error, W]|].
  destruct (text_is _ _).
  { eapply npost0_weaken; [|apply np_b_eval; assumption]. cbn beta. intros s' a _ [(p & -> & _) Hl]. split; [exact I|exact Hl]. }
  destruct (text_is _ _); [apply npost_VL; [exact Hi|apply np_b_display, W]|].
  destruct (text_is _ _); [apply npost_VL; [exact Hi|apply np_b_display, W]|].
  apply npost_VL; [exact Hi|apply Hob, W].
Qed.

Definition done_tail (r : vcell) : M callee :=
  dom r' <- (match r with VPtr _ => ret r | _ => hmaybe_put r end); dom _ <- set_acc r'; ret CDone.
Lemma done_tail_ok r s : wfm s -> vwf s r ->
  match done_tail r s with ROk c s2 => wfm s2 /\ grow0 s s2 /\ (c = CDone /\ ip s2 = ip s) | _ => False end.
Proof.
  intros W Hr.
  assert (H : npo s (done_tail r s) T_).
  { unfold done_tail. destruct r; try (np_go; fail).
    eapply npost_bind with (Q := V); [apply npost_ret; [exact W|exact I]|].
    intros a s1 W1 G1 Ha. unfold V in Ha. np_go. }
  assert (E : exists s2, done_tail r s = ROk CDone s2 /\ ip s2 = ip s).
  { unfold done_tail, bindM, set_acc, ret, hmaybe_put.
    destruct r; cbv beta iota; try (destruct (heap_maybe_put _ _) as [q h]); cbv beta iota;
      eexists; (split; [reflexivity|reflexivity]). }
  destruct E as (s2 & E & Ei). rewrite E in *. cbn [npost] in H. destruct H as (W2 & G2 & _).
  split; [exact W2|split; [apply grow_grow0, G2|split; [reflexivity|exact Ei]]].
Qed.

Definition CQ_ (s' : vm) (c : callee) : Prop :=
  lamcell s' (fst (ip s')) /\ match c with CLambda lam => lamcell s' lam /\ ipge s' | CDone => True end.

Lemma np_resolve_callee s : wfm s -> ipge s -> J s -> npo0 s (resolve_callee ob s) CQ_.
Proof.
  intros W Hi Hj. unfold resolve_callee.
  eapply npost0_bind; [apply np_get_vm, W|]. intros a s1 W1 G1 [-> ->]. clear G1.
  eapply npost0_bind; [apply lv_hderef; [exact W1|apply np_wfm_acc, W1]|].
  intros target s2 W2 G2 (-> & Ht & Hc). clear G2 W2.
  destruct target;
  lazymatch goal with
  | |- npost0 _ _ (ret (CLambda _) _) _ =>
      apply npost_npost0, npost_ret; [exact W1|]; split; [exact (proj2 Hi)|split; [exact Ht|exact Hi]]
  | |- npost0 _ _ (bindM (as_ptr _) _ _) _ =>
      eapply npost0_bind; [apply np_as_ptr, W1|]; intros p s3 W3 G3 Ep;
      apply npost_npost0, npost_ret; [exact W3|]; ip_tr G3; split; [exact (proj2 Hi)|split; [|exact Hi]];
      cbn [vwf] in Ht; exists lid; split; [apply (g_lam _ _ (grow_grow0 _ _ G3)); symmetry; apply Hc, Ep
                                        |apply (g_lams _ _ (grow_grow0 _ _ G3)), Ht]
  | |- npost0 _ _ (bindM (run_builtin _ _) _ _) _ =>
      eapply npost0_bind_0; [apply np_run_builtin; assumption|];
      intros r s3 W3 G3 [Hr Hl];
      pose proof (done_tail_ok r s3 W3 Hr) as HD; unfold done_tail in HD;
      match type of HD with match ?x with _ => _ end => destruct x as [c4 s4| | |]; try contradiction end;
      destruct HD as (W4 & G4 & -> & Ei); split; [exact W4|split; [exact G4|]];
      split; [rewrite Ei; eapply lamcell_grow; eassumption|exact I]
  | |- npost0 _ _ (bindM pop_raw _ _) _ =>
      apply npost_npost0;
      eapply npost_bind; [apply np_pop_raw, W1|]; intros a s3 W3 G3 _;
      eapply npost_bind; [apply np_as_argc, W3|]; intros argc s4 W4 G4 _;
      destruct (argc =? 0); [apply npost_fail, W4|];
      eapply npost_bind; [apply np_pop_raw, W4|]; intros result s5 W5 G5 Hres; unfold V in Hres;
      (eapply npost_bind; [apply np_restore_continuation;
         [exact W5|eapply vwf_grow; [|exact Ht]; eapply grow0_trans; [apply grow_grow0, G3|];
                   eapply grow0_trans; [apply grow_grow0, G4|apply grow_grow0, G5]]|]);
      intros u s6 W6 G6 Hl6;
      eapply npost_bind; [apply np_set_acc; [exact W6|eapply vwf_grow; [apply grow_grow0, G6|exact Hres]]|];
      intros u2 s7 W7 G7 _;
      apply npost_ret; [exact W7|]; split; [|exact I];
      exact (proj2 (proj2 G7 Hl6))
  | |- _ => eapply npost0_bind; [apply np_to_cell; assumption|]; intros cc s3 W3 G3 _; apply npost_npost0, npost_fail, W3
  end.
Qed.

(* ------------------------------------------------------------------ TCALL frame, ENTER, VARARG *)
Lemma np_tcall_copy k : forall it s, wfm s -> npo s (tcall_copy k it s) T_.
Proof.
  induction k as [|k IH]; intros it s W; cbn [tcall_copy]; [apply npost_ret; [exact W|exact I]|].
  pose proof IH as IH'. np_go.
Qed.
Lemma np_tcall_rebuild k saved : forall s, wfm s -> npo s (tcall_rebuild k saved s) T_.
Proof.
  induction k as [|k IH]; intros s W; cbn [tcall_rebuild]; [apply npost_ret; [exact W|exact I]|].
  pose proof IH as IH'. np_go.
Qed.
Lemma np_vararg_collect k : forall v s, wfm s -> npo s (vararg_collect k v s) T_.
Proof.
  induction k as [|k IH]; intros v s W; cbn [vararg_collect]; [apply npost_ret; [exact W|exact I]|].
  pose proof IH as IH'. np_go.
Qed.

Lemma np_tcall_frame lam s : wfm s -> ipge s -> lamcell s lam ->
  npo0 s (tcall_frame lam s) (fun s' _ => lamcell s' (fst (ip s'))).
Proof.
  intros W Hi Hl. unfold tcall_frame.
  pose proof np_tcall_copy as H1. pose proof np_tcall_rebuild as H2.
  eapply npost0_bind; [apply np_stack_get_offset, W|]. intros a s1 W1 G1 _.
  eapply npost0_bind; [apply np_as_argc, W1|]. intros argc s2 W2 G2 _.
  eapply npost0_bind; [apply np_get_vm, W2|]. intros x s3 W3 G3 [-> ->].
  eapply npost0_bind; [apply np_stack_get, W3|]. intros fa s4 W4 G4 _.
  eapply npost0_bind; [apply np_as_argc, W4|]. intros fargc s5 W5 G5 _.
  assert (G : grow0 s s5).
  { eapply grow0_trans; [apply grow_grow0, G1|]. eapply grow0_trans; [apply grow_grow0, G2|].
    eapply grow0_trans; [apply grow_grow0, G4|apply grow_grow0, G5]. }
  apply (lamcell_grow _ _ _ G) in Hl. clear G.
  destruct (argc =? fargc).
  - eapply npost0_bind; [apply np_stack_get, W5|]. intros sbp s6 W6 G6 Hsbp.
    eapply npost0_bind; [apply np_tcall_copy, W6|]. intros u1 s7 W7 G7 _.
    eapply npost0_bind; [apply np_set_sp, W7|]. intros u2 s8 W8 G8 _.
    eapply npost0_bind; [apply np_as_bp, W8|]. intros b s9 W9 G9 _.
    eapply npost0_bind; [apply np_set_bp, W9|]. intros u3 s10 W10 G10 _.
    assert (G : grow0 s5 s10).
    { eapply grow0_trans; [apply grow_grow0, G6|]. eapply grow0_trans; [apply grow_grow0, G7|].
      eapply grow0_trans; [apply grow_grow0, G8|]. eapply grow0_trans; [apply grow_grow0, G9|apply grow_grow0, G10]. }
    apply (lamcell_grow _ _ _ G) in Hl.
    eapply npost0_bind_0; [apply np0_set_ip, W10|]. intros u4 s11 W11 G11 Eip.
    apply npost0_ret0; [exact W11|]. rewrite Eip. cbn [fst]. eapply lamcell_grow; eassumption.
  - eapply npost0_bind; [apply np_stack_get, W5|]. intros sep s6 W6 G6 Hsep. unfold V in Hsep.
    eapply npost0_bind; [apply np_stack_get, W6|]. intros sip s7 W7 G7 Hsip. unfold V in Hsip.
    eapply npost0_bind; [apply np_stack_get, W7|]. intros sbp s8 W8 G8 _.
    eapply npost0_bind; [apply np_vm_usub, W8|]. intros nsp s9 W9 G9 _.
    eapply npost0_bind; [apply np_set_sp, W9|]. intros u1 s10 W10 G10 _.
    eapply npost0_bind; [apply np_tcall_rebuild, W10|]. intros u2 s11 W11 G11 _.
    eapply npost0_bind; [apply np_push; [exact W11|exact I]|]. intros u3 s12 W12 G12 _.
    assert (G : grow0 s6 s12).
    { eapply grow0_trans; [apply grow_grow0, G7|]. eapply grow0_trans; [apply grow_grow0, G8|].
      eapply grow0_trans; [apply grow_grow0, G9|]. eapply grow0_trans; [apply grow_grow0, G10|].
      eapply grow0_trans; [apply grow_grow0, G11|apply grow_grow0, G12]. }
    eapply npost0_bind; [apply np_push; [exact W12|eapply vwf_grow; eassumption]|]. intros u4 s13 W13 G13 _.
    assert (G' : grow0 s7 s13).
    { eapply grow0_trans; [apply grow_grow0, G8|]. eapply grow0_trans; [apply grow_grow0, G9|].
      eapply grow0_trans; [apply grow_grow0, G10|]. eapply grow0_trans; [apply grow_grow0, G11|].
      eapply grow0_trans; [apply grow_grow0, G12|apply grow_grow0, G13]. }
    eapply npost0_bind; [apply np_push; [exact W13|eapply vwf_grow; eassumption]|]. intros u5 s14 W14 G14 _.
    eapply npost0_bind; [apply np_as_bp, W14|]. intros b s15 W15 G15 _.
    eapply npost0_bind; [apply np_set_bp, W15|]. intros u6 s16 W16 G16 _.
    assert (G'' : grow0 s5 s16).
    { eapply grow0_trans; [apply grow_grow0, G6|]. eapply grow0_trans; [exact G|].
      eapply grow0_trans; [apply grow_grow0, G13|]. eapply grow0_trans; [apply grow_grow0, G14|].
      eapply grow0_trans; [apply grow_grow0, G15|apply grow_grow0, G16]. }
    apply (lamcell_grow _ _ _ G'') in Hl.
    eapply npost0_bind_0; [apply np0_set_ip, W16|]. intros u7 s17 W17 G17 Eip.
    apply npost0_ret0; [exact W17|]. rewrite Eip. cbn [fst]. eapply lamcell_grow; eassumption.
Qed.

Lemma np_enter_frame s : wfm s -> npo s (enter_frame s) T_.
Proof.
  intros W. unfold enter_frame. pose proof np_build_lexical_environment as HB.
  eapply npost_bind; [apply np_get_vm, W|]. intros x s1 W1 G1 [-> ->]. clear G1.
  eapply npost_bind; [apply np_hderef; [exact W1|apply np_wfm_acc, W1]|]. intros target s2 W2 G2 Ht. unfold V in Ht.
  eapply npost_bind with (Q := fun s' r => vwf s' (VPtr (fst r)) /\ match snd r with Some e => vwf s' (VPtr e) | None => True end).
  { destruct target; try (apply npost_fail, W2);
    lazymatch goal with
    | |- npost _ _ (bindM _ _ _) _ =>
        eapply npost_bind; [apply np_as_ptr, W2|]; intros p s3 W3 G3 _; apply npost_ret; [exact W3|]; cbn; auto
    | |- _ => apply npost_ret; [exact W2|]; cbn; auto
    end. }
  intros [lp cenv] s3 W3 G3 _. cbn [fst snd].
  eapply npost_bind; [apply np_hget, W3|]. intros lv s4 W4 G4 Hlv. unfold V in Hlv.
  eapply npost_bind; [apply np_as_lambda; assumption|]. intros l s5 W5 G5 _.
  eapply npost_bind; [apply np_stack_get_offset, W5|]. intros a s6 W6 G6 _.
  eapply npost_bind; [apply np_as_argc, W6|]. intros argc s7 W7 G7 _.
  destruct (negb _); [apply npost_fail, W7|].
  eapply npost_bind; [apply np_push; [exact W7|exact I]|]. intros u1 s8 W8 G8 _.
  eapply npost_bind; [apply np_get_vm, W8|]. intros x s9 W9 G9 [-> ->]. clear G9.
  eapply npost_bind; [apply np_vm_usub, W9|]. intros nb s10 W10 G10 _.
  eapply npost_bind; [apply np_set_bp, W10|]. intros u2 s11 W11 G11 _.
  destruct cenv as [cep|]; [|apply npost_ret; [exact W11|exact I]].
  eapply npost_bind; [apply np_hget, W11|]. intros cev s12 W12 G12 Hcev. unfold V in Hcev.
  eapply npost_bind; [apply np_as_lexenv, W12|]. intros ceid s13 W13 G13 ->.
  apply (vwf_grow _ _ _ (grow_grow0 _ _ G13)) in Hcev.
  eapply npost_bind; [apply np_env_slots; assumption|]. intros cslots s14 W14 G14 (-> & _ & Hcs).
  eapply npost_bind; [apply HB; [exact W14|apply lwf_of_get, Hcs]|]. intros env s15 W15 G15 Henv.
  eapply npost_bind; [apply np_env_new; [exact W15|apply lwf_get, Henv]|]. intros ev s16 W16 G16 Hev. unfold V in Hev.
  eapply npost_bind; [apply np_hput; assumption|]. intros evp s17 W17 G17 _.
  eapply npost_bind; [apply np_as_ptr, W17|]. intros ei s18 W18 G18 _.
  eapply npost_bind; [apply np_set_ep, W18|]. intros u3 s19 W19 G19 _.
  apply npost_ret; [exact W19|exact I].
Qed.

(* ------------------------------------------------------------------ decode *)
Lemma npost_H {X} (m : M X) P Q Qn s : hoare P m Q -> finv s -> P s -> npo s (m s) Qn ->
  npo s (m s) (fun s' a => Qn s' a /\ finv s' /\ Q a s').
Proof.
  intros H F HP Hn. specialize (H s F HP). destruct (m s); cbn [npost post] in *; tauto.
Qed.

Lemma np_read_operand s : wfm s -> ipge s -> npo s (read_operand s) (fun s' v => vwf s' v /\ ipge s').
Proof.
  intros W Hi. unfold read_operand.
  eapply npost_bind; [apply np_cur_lambda; [exact W|exact (proj2 Hi)]|]. intros l s1 W1 G1 (-> & lid & C & L).
  eapply npost_bind; [apply np_get_vm, W1|]. intros x s2 W2 G2 [-> ->].
  destruct (list_get (l_bc l) (snd (ip s))) as [v|] eqn:E; [|apply npost_fail, W2].
  assert (Hv : vwf s v) by (apply (w_vals s W2); eapply ip_code; eassumption).
  destruct v; try (apply npost_fail, W2);
    (eapply npost_bind; [apply np_set_ip; [exact W2|cbn [snd]; lia|exact (proj2 Hi)]|];
     intros u s3 W3 G3 Ei; apply npost_ret; [exact W3|];
     split; [eapply vwf_grow; [apply grow_grow0, G3|exact Hv]|exact (proj2 G3 Hi)]).
Qed.

(* read_opcode: an error leaves ip >= 1 (the code starts with an opcode) *)
Lemma np_read_opcode s : wfm s -> lamcell s (fst (ip s)) ->
  match read_opcode s with
  | ROk o s1 => wfm s1 /\ grow0 s s1 /\ ipge s1
  | RErr _ _ s1 => s1 = s /\ ipge s
  | RPanic k => okp k
  | RNoFuel => True
  end.
Proof.
  intros W Hl. unfold read_opcode, bindM.
  pose proof (np_cur_lambda s W Hl) as Hc. destruct (cur_lambda s) as [l s1|e m s1|k|] eqn:Ec; cbn [npost] in Hc; auto.
  - destruct Hc as (_ & _ & -> & lid & C & L). unfold get_vm.
    destruct (list_get (l_bc l) (snd (ip s))) as [v|] eqn:E.
    + destruct v; try (cbn; split; [reflexivity|split; [|exact Hl]];
        destruct (N.eq_dec (snd (ip s)) 0) as [Z|Z]; [|lia];
        destruct (w_head s W lid l L) as (o & Ho); rewrite Z in E; congruence).
      unfold set_ip, ret. cbv beta iota. split; [apply wfm_with_ip, W|]. split; [apply grow0_with_ip|].
      split; [cbn [ip with_ip snd]; lia|exact Hl].
    + cbn. split; [reflexivity|split; [|exact Hl]].
      destruct (N.eq_dec (snd (ip s)) 0) as [Z|Z]; [|lia].
      destruct (w_head s W lid l L) as (o & Ho). rewrite Z in E. congruence.
  - (* cur_lambda never answers an error *)
    exfalso. revert Ec. unfold cur_lambda, heap_get. destruct (_ <? _); [|discriminate].
    destruct (match tget _ _ with Some v => v | None => VUndef end); try discriminate.
    unfold get_lambda. destruct (tget _ _); discriminate.
Qed.

(* ------------------------------------------------------------------ the instructions *)
Definition IPL {X} : vm -> X -> Prop := fun s' _ => lamcell s' (fst (ip s')).
Lemma npost_ipl {X} s (r : res X) Q : ipge s -> npo s r Q -> npo0 s r IPL.
Proof.
  intros Hi. destruct r; cbn [npost npost0]; auto. intros (W & [G Gi] & HQ).
  split; [exact W|split; [exact G|exact (proj2 (Gi Hi))]].
Qed.
Lemma npost0_bind_c {X Y} s (m : M X) (f : X -> M Y) Q (R : vm -> Y -> Prop) :
  npo0 s (m s) Q ->
  (forall a s1, wfm s1 -> grow0 s s1 -> Q s1 a ->
     (ipge s1 /\ npo0 s1 (f a s1) R) \/
     (match f a s1 with ROk b s2 => wfm s2 /\ grow0 s1 s2 /\ R s2 b | _ => False end)) ->
  npo0 s (bindM m f s) R.
Proof.
  intros Hm Hf. unfold bindM. destruct (m s) as [a s1|e msg s1|k|]; cbn [npost0] in *; auto.
  destruct Hm as (W1 & G1 & HQ). destruct (Hf a s1 W1 G1 HQ) as [[Hi H]|H];
    destruct (f a s1) as [b s2|e msg s2|k|]; cbn [npost0] in *; try contradiction; auto.
  - destruct H as (W2 & G2 & HR). split; [exact W2|split; [eapply grow0_trans; eassumption|exact HR]].
  - destruct H as (W2 & [G2 Gi]). split; [exact W2|]. split; [eapply grow0_trans; eassumption|auto].
  - destruct H as (W2 & G2 & HR). split; [exact W2|split; [eapply grow0_trans; eassumption|exact HR]].
Qed.

Lemma np_load_operand s : wfm s -> ipge s -> npo s (load_operand s) (fun s' v => vwf s' v /\ ipge s').
Proof.
  intros W Hi. rewrite load_operand_eq.
  eapply npost_bind; [apply np_read_operand; assumption|]. intros o s1 W1 G1 [Ho Hi1].
  eapply npost_weaken; [|apply np_load_tail; assumption]. cbv beta. intros s' a W' G' Hv.
  split; [exact Hv|exact (proj2 G' Hi1)].
Qed.

Lemma np_mov_tail v s : wfm s -> ipge s -> finv s -> no_ptr_at 0 s -> vwf s v -> npo s (store_operand v s) T_.
Proof.
  intros W Hi F HP Hv. rewrite store_operand_eq.
  eapply npost_bind; [apply (npost_H _ _ _ (fun s' v => vwf s' v /\ ipge s') _ read_dest_spec F HP), np_read_operand; assumption|].
  intros o s1 W1 G1 ([Ho Hi1] & F1 & _ & Hnp).
  apply np_store_tail; try assumption. eapply vwf_grow; [apply grow_grow0, G1|exact Hv].
Qed.

Lemma np_mov s : wfm s -> ipge s -> finv s -> no_ptr_at 1 s ->
  npo s ((dom v <- load_operand; dom _ <- store_operand v; ret false) s) T_.
Proof.
  intros W Hi F HP.
  eapply npost_bind; [apply (npost_H _ _ _ (fun s' v => vwf s' v /\ ipge s') _ (load_operand_spec true) F HP), np_load_operand; assumption|].
  intros v s1 W1 G1 ([Hv Hi1] & F1 & _ & HP1).
  eapply npost_bind; [apply np_mov_tail; assumption|]. intros u s2 W2 G2 _. apply npost_ret; [exact W2|exact I].
Qed.
Lemma np_mov_imm s : wfm s -> ipge s -> finv s -> no_ptr_at 1 s ->
  npo s ((dom v <- read_operand; dom _ <- store_operand v; ret false) s) T_.
Proof.
  intros W Hi F HP.
  eapply npost_bind; [apply (npost_H _ _ _ (fun s' v => vwf s' v /\ ipge s') _ (read_operand_spec true) F HP), np_read_operand; assumption|].
  intros v s1 W1 G1 ([Hv Hi1] & F1 & _ & HP1).
  eapply npost_bind; [apply np_mov_tail; assumption|]. intros u s2 W2 G2 _. apply npost_ret; [exact W2|exact I].
Qed.

Ltac np_more ::=
  first [ np_ih
        | lazymatch goal with
          | |- npost _ ?s (read_operand ?s) _ => apply np_read_operand; assumption
          | |- npost _ ?s (load_operand ?s) _ => apply np_load_operand; assumption
          | |- npost _ ?s (cur_lambda ?s) _ => apply np_cur_lambda; [assumption|match goal with H : ipge s |- _ => exact (proj2 H) end]
          end ].

Definition step_body (op : opcode) : M bool :=
  match op with
  | OJmp => dom o <- read_operand; dom p <- as_ptr o;
            dom s <- get_vm; dom _ <- set_ip (fst (ip s), p); ret false
  | OJnt => dom o <- read_operand; dom p <- as_ptr o;
            dom s <- get_vm; dom a <- hderef (acc s);
            match a with
            | VBool false => dom _ <- set_ip (fst (ip s), p); ret false
            | _ => ret false
            end
  | OMov => dom v <- load_operand; dom _ <- store_operand v; ret false
  | OMovImmediate => dom v <- read_operand; dom _ <- store_operand v; ret false
  | OPush => dom v <- load_operand; dom _ <- push v; ret false
  | OPushImmediate => dom v <- read_operand; dom _ <- push v; ret false
  | OPushAcc => dom s <- get_vm; dom _ <- push (acc s); ret false
  | OHalt => ret true
  | OCons =>
      dom d <- pop_raw; dom dp <- hput d;
      dom a <- pop_raw; dom ap <- hput a;
      dom ai <- as_ptr ap; dom di <- as_ptr dp;
      dom p <- hput (VPair ai di); dom _ <- set_acc p; ret false
  | OVPushAcc =>
      dom v <- pop_raw; dom vp <- hderef v;
      match vp with
      | VVec vid => dom l <- vec_get vid; dom s <- get_vm;
                    dom _ <- vec_set vid (l ++ [acc s]); dom _ <- set_acc v; ret false
      | _ => fail E_OTHER
      end
  | OClosureAcc =>
      dom s <- get_vm;
      dom lp <- as_ptr (acc s);
      dom lv <- hget lp; dom l <- as_lambda lv;
      dom env <- build_closure_environment (l_envmap l);
      dom ev <- env_new env; dom evp <- hput ev; dom ei <- as_ptr evp;
      dom cp <- hput (VClosure lp ei);
      dom _ <- set_acc cp; ret false
  | OCallAcc =>
      dom c <- resolve_callee ob;
      match c with
      | CDone => ret false
      | CLambda lam =>
          dom s <- get_vm;
          dom _ <- push (VEp (ep s));
          dom _ <- push (VIp (fst (ip s)) (snd (ip s)));
          dom _ <- set_ip (lam, 0); ret false
      end
  | OTCallAcc =>
      dom c <- resolve_callee ob;
      match c with
      | CDone => ret false
      | CLambda lam => tcall_frame lam
      end
  | OEnter => enter_frame
  | ORet =>
      dom s <- get_vm;
      dom a <- stack_get (bp s + 1); dom n <- as_argc a;
      dom nsp <- Vm.usub (bp s) n;
      dom _ <- set_sp nsp;
      dom e <- stack_get (bp s + 2); dom e' <- as_ep e; dom _ <- set_ep e';
      dom i <- stack_get (bp s + 3); dom i' <- as_ip i; dom _ <- set_ip i';
      dom b <- stack_get (bp s + 4); dom b' <- as_bp b; dom _ <- set_bp b';
      ret false
  | OVarArg =>
      dom l <- cur_lambda;
      dom req <- Vm.usub (len (l_args l)) 1;
      dom a <- stack_get_offset (-2); dom argc <- as_argc a;
      if argc <? req then fail E_OTHER else
      if argc =? req + 1 then
        dom v <- stack_get_offset (-3);
        dom ap <- hput v; dom np <- hput VNil;
        dom ai <- as_ptr ap; dom ni <- as_ptr np;
        dom pp <- hput (VPair ai ni);
        dom _ <- stack_put_offset (-3) pp; ret false
      else
        dom saved_ep <- pop_raw;
        dom saved_ip <- pop_raw;
        dom _ <- pop_raw;
        dom np <- hput VNil; dom ni <- as_ptr np;
        dom varargs <- vararg_collect (N.to_nat (argc - req)) ni;
        dom _ <- push (VPtr varargs);
        dom _ <- push (VArgc (req + 1));
        dom _ <- push saved_ip;
        dom _ <- push saved_ep; ret false
  end.
Lemma run_one_eq : run_one ob = bindM read_opcode step_body.
Proof. reflexivity. Qed.

Theorem np_step_body op s : wfm s -> ipge s -> J s -> finv s -> (is_mov op = true -> no_ptr_at 1 s) ->
  npo0 s (step_body op s) IPL.
Proof.
  intros W Hi Hj F Hm. destruct op; unfold step_body; try (apply (npost_ipl s _ T_ Hi), npost_ret; [exact W|exact I]).
  - (* CONS *) apply (npost_ipl s _ T_ Hi). np_go.
  - (* JMP *)
    eapply npost0_bind; [apply np_read_operand; assumption|]. intros o s1 W1 G1 [_ Hi1].
    eapply npost0_bind; [apply np_as_ptr, W1|]. intros p s2 W2 G2 _. apply (proj2 G2) in Hi1.
    eapply npost0_bind; [apply np_get_vm, W2|]. intros x s3 W3 G3 [-> ->].
    eapply npost0_bind_0; [apply np0_set_ip, W3|]. intros u s4 W4 G4 Ei.
    apply npost0_ret0; [exact W4|]. unfold IPL. rewrite Ei. cbn [fst]. eapply lamcell_grow; [exact G4|exact (proj2 Hi1)].
  - (* JNT *)
    eapply npost0_bind; [apply np_read_operand; assumption|]. intros o s1 W1 G1 [_ Hi1].
    eapply npost0_bind; [apply np_as_ptr, W1|]. intros p s2 W2 G2 _. apply (proj2 G2) in Hi1.
    eapply npost0_bind; [apply np_get_vm, W2|]. intros x s3 W3 G3 [-> ->].
    eapply npost0_bind; [apply np_hderef; [exact W3|apply np_wfm_acc, W3]|]. intros a s4 W4 G4 _.
    pose proof (proj2 Hi1) as Hl2. apply (proj2 G4) in Hi1.
    assert (R : npo0 s4 (ret false s4) IPL) by (apply (npost_ipl s4 _ T_ Hi1), npost_ret; [exact W4|exact I]).
    destruct a; try exact R. destruct b; [exact R|].
    eapply npost0_bind_0; [apply np0_set_ip, W4|]. intros u s5 W5 G5 Ei.
    apply npost0_ret0; [exact W5|]. unfold IPL. rewrite Ei. cbn [fst].
    eapply lamcell_grow; [exact G5|]. eapply lamcell_grow; [apply grow_grow0, G4|exact Hl2].
  - (* MOV *) apply (npost_ipl s _ T_ Hi), np_mov; auto.
  - (* MOV immediate *) apply (npost_ipl s _ T_ Hi), np_mov_imm; auto.
  - (* PUSH *) apply (npost_ipl s _ T_ Hi). np_go.
  - (* PUSH %acc *) apply (npost_ipl s _ T_ Hi). np_go. apply np_wfm_acc; assumption.
  - (* PUSH immediate *) apply (npost_ipl s _ T_ Hi). np_go.
  - (* VPUSH *) apply (npost_ipl s _ T_ Hi).
    eapply npost_bind; [apply np_pop_raw, W|]. intros v s1 W1 G1 Hv. unfold V in Hv.
    eapply npost_bind; [apply np_hderef; assumption|]. intros vp s2 W2 G2 Hvp. unfold V in Hvp.
    apply (vwf_grow _ _ _ (grow_grow0 _ _ G2)) in Hv.
    destruct vp; try (apply npost_fail, W2).
    eapply npost_bind; [apply np_vec_get, W2|]. intros l s3 W3 G3 Hl.
    eapply npost_bind; [apply np_get_vm, W3|]. intros x s4 W4 G4 [-> ->].
    apply (vwf_grow _ _ _ (grow_grow0 _ _ G3)) in Hv.
    eapply npost_bind; [apply np_vec_set; [exact W4|]|].
    { apply lwf_get. apply Forall_app. split; [apply lwf_of_get, Hl|apply lwf_cons; [apply np_wfm_acc, W4|apply lwf_nil]]. }
    intros u s5 W5 G5 _. apply (vwf_grow _ _ _ (grow_grow0 _ _ G5)) in Hv.
    eapply npost_bind; [apply np_set_acc; assumption|]. intros u2 s6 W6 G6 _. apply npost_ret; [exact W6|exact I].
  - (* CALL *)
    eapply npost0_bind_c; [apply np_resolve_callee; assumption|]. intros c s1 W1 G1 [Hl1 Hc].
    destruct c as [lam|].
    + destruct Hc as [Hlam Hi1]. left. split; [exact Hi1|].
      eapply npost0_bind; [apply np_get_vm, W1|]. intros x s2 W2 G2 [-> ->].
      eapply npost0_bind; [apply np_push; [exact W2|exact I]|]. intros u1 s3 W3 G3 _.
      eapply npost0_bind; [apply np_push; [exact W3|]|].
      { cbn [vwf]. split; [eapply lamcell_grow; [apply grow_grow0, G3|exact (proj2 Hi1)]|exact (proj1 Hi1)]. }
      intros u2 s4 W4 G4 _.
      eapply npost0_bind_0; [apply np0_set_ip, W4|]. intros u3 s5 W5 G5 Ei.
      apply npost0_ret0; [exact W5|]. unfold IPL. rewrite Ei. cbn [fst].
      eapply lamcell_grow; [exact G5|]. eapply lamcell_grow; [apply grow_grow0, G4|].
      eapply lamcell_grow; [apply grow_grow0, G3|exact Hlam].
    + right. cbn. split; [exact W1|split; [apply grow0_refl|exact Hl1]].
  - (* CLOSURE *) apply (npost_ipl s _ T_ Hi).
    eapply npost_bind; [apply np_get_vm, W|]. intros x s1 W1 G1 [-> ->].
    eapply npost_bind; [apply np_as_ptr, W1|]. intros lp s2 W2 G2 Ea.
    eapply npost_bind; [apply np_hget_c, W2|]. intros lv s3 W3 G3 (-> & -> & Hlv).
    eapply npost_bind; [apply np_as_lambda; assumption|]. intros l s4 W4 G4 (-> & lid & El & Ll).
    assert (Hcl : lamcell s2 lp) by (exists lid; split; [exact El|rewrite Ll; discriminate]).
    eapply npost_bind; [apply np_build_closure_environment, W4|]. intros env s5 W5 G5 Henv.
    eapply npost_bind; [apply np_env_new; [exact W5|apply lwf_get, Henv]|]. intros ev s6 W6 G6 Hev. unfold V in Hev.
    eapply npost_bind; [apply np_hput; assumption|]. intros evp s7 W7 G7 _.
    eapply npost_bind; [apply np_as_ptr, W7|]. intros ei s8 W8 G8 _.
    assert (G : grow0 s2 s8).
    { eapply grow0_trans; [apply grow_grow0, G5|]. eapply grow0_trans; [apply grow_grow0, G6|].
      eapply grow0_trans; [apply grow_grow0, G7|apply grow_grow0, G8]. }
    eapply npost_bind; [apply np_hput; [exact W8|cbn [vwf]; eapply lamcell_grow; eassumption]|].
    intros cp s9 W9 G9 (q & ->).
    eapply npost_bind; [apply np_set_acc; [exact W9|exact I]|]. intros u s10 W10 G10 _.
    apply npost_ret; [exact W10|exact I].
  - (* ENTER *) apply (npost_ipl s _ T_ Hi), np_enter_frame, W.
  - (* RET *) apply (npost_ipl s _ T_ Hi).
    eapply npost_bind; [apply np_get_vm, W|]. intros x s1 W1 G1 [-> ->].
    eapply npost_bind; [apply np_stack_get, W1|]. intros a s2 W2 G2 _.
    eapply npost_bind; [apply np_as_argc, W2|]. intros n s3 W3 G3 _.
    eapply npost_bind; [apply np_vm_usub, W3|]. intros nsp s4 W4 G4 _.
    eapply npost_bind; [apply np_set_sp, W4|]. intros u1 s5 W5 G5 _.
    eapply npost_bind; [apply np_stack_get, W5|]. intros e s6 W6 G6 _.
    eapply npost_bind; [apply np_as_ep, W6|]. intros e' s7 W7 G7 _.
    eapply npost_bind; [apply np_set_ep, W7|]. intros u2 s8 W8 G8 _.
    eapply npost_bind; [apply np_stack_get, W8|]. intros i s9 W9 G9 Hiv. unfold V in Hiv.
    eapply npost_bind; [apply np_as_ip; assumption|]. intros i' s10 W10 G10 [Hi1 Hi2].
    eapply npost_bind; [apply np_set_ip; assumption|]. intros u3 s11 W11 G11 _.
    eapply npost_bind; [apply np_stack_get, W11|]. intros b s12 W12 G12 _.
    eapply npost_bind; [apply np_as_bp, W12|]. intros b' s13 W13 G13 _.
    eapply npost_bind; [apply np_set_bp, W13|]. intros u4 s14 W14 G14 _.
    apply npost_ret; [exact W14|exact I].
  - (* TCALL *)
    eapply npost0_bind_c; [apply np_resolve_callee; assumption|]. intros c s1 W1 G1 [Hl1 Hc].
    destruct c as [lam|].
    + destruct Hc as [Hlam Hi1]. left. split; [exact Hi1|]. apply np_tcall_frame; assumption.
    + right. cbn. split; [exact W1|split; [apply grow0_refl|exact Hl1]].
  - (* VARARG *) apply (npost_ipl s _ T_ Hi). pose proof np_vararg_collect as HV. np_go.
Qed.


(* ------------------------------------------------------------------ one instruction *)
Definition step_post (s : vm) (r : res bool) : Prop :=
  match r with
  | ROk _ s' => wfm s' /\ grow0 s s' /\ lamcell s' (fst (ip s'))
  | RErr _ _ s' => wfm s' /\ grow0 s s' /\ ipge s'
  | RPanic k => okp k
  | RNoFuel => True
  end.

Theorem np_run_one s : wfm s -> lamcell s (fst (ip s)) -> J s -> finv s -> step_post s (run_one ob s).
Proof.
  intros W Hl Hj F. rewrite run_one_eq. unfold bindM.
  pose proof (np_read_opcode s W Hl) as H1. pose proof (read_opcode_spec s F I) as H2.
  pose proof (kp_read_opcode s Hj) as H3.
  destruct (read_opcode s) as [op s1|e m s1|k|]; cbn [step_post post jpost] in *; auto.
  - destruct H1 as (W1 & G1 & Hi1). destruct H2 as [F1 Hm].
    pose proof (np_step_body op s1 W1 Hi1 H3 F1 Hm) as H.
    destruct (step_body op s1) as [b s2|e m s2|k|]; cbn [npost0 step_post] in *; auto.
    + destruct H as (W2 & G2 & HL). split; [exact W2|split; [eapply grow0_trans; eassumption|exact HL]].
    + destruct H as (W2 & [G2 Gi]). split; [exact W2|split; [eapply grow0_trans; eassumption|auto]].
  - destruct H1 as [-> Hi]. split; [exact W|split; [apply grow0_refl|exact Hi]].
Qed.
End Run.

(* ------------------------------------------------------------------ stack_trace (the error path) *)
Definition tr_ok {X} (o : out X) : Prop :=
  match o with Ok _ => True | Err _ => False | Panic k => okp k | NoFuel => True end.

Lemma back_op (bc : list vcell) : (exists o, list_get bc 0 = Some (VOp o)) ->
  forall k i, i <= N.of_nat k ->
  exists o, list_get bc
    ((fix back (k : nat) (i : N) : N :=
        match k with
        | O => i
        | S k' => if (0 <? i) && negb (match list_get bc i with Some (VOp _) => true | _ => false end)
                  then back k' (i - 1) else i
        end) k i) = Some (VOp o).
Proof.
  intros H0. induction k as [|k IH]; intros i Hi.
  - assert (i = 0) by lia. subst i. exact H0.
  - destruct (0 <? i) eqn:L; cbn [andb].
    + destruct (list_get bc i) as [v|] eqn:E; cbn [negb].
      * destruct v; try (apply IH; lia). cbn [negb]. eauto.
      * apply IH. lia.
    + apply N.ltb_ge in L. assert (i = 0) by lia. subst i. exact H0.
Qed.

Lemma stack_trace_ok s : wfm s -> ipge s -> tr_ok (stack_trace s).
Proof.
  intros W [Hi (lid & C & L)]. unfold stack_trace, heap_get.
  destruct (fst (ip s) <? hlen (hp s)); [|reflexivity]. cbn [bind].
  fold (cell_at (hp s) (fst (ip s))). rewrite C.
  destruct (tget (lams (st s)) lid) as [l|] eqn:El; [|congruence].
  destruct (snd (ip s) =? 0) eqn:Z; [apply N.eqb_eq in Z; lia|].
  match goal with |- tr_ok (match list_get _ ?idx with _ => _ end) => set (ix := idx) end.
  assert (Hx : exists o, list_get (l_bc l) ix = Some (VOp o)).
  { apply back_op; [apply (w_head s W lid l El)|]. rewrite N2Nat.id. lia. }
  destruct Hx as (o & ->).
  match goal with |- tr_ok (bind (?fr ?k ?a) _) => set (frames := fr); generalize a; generalize k end.
  intros k. assert (HF : forall acc0, tr_ok (frames k acc0)).
  { induction k as [|k IH]; intros acc0; [exact I|].
    unfold frames. cbv beta iota fix. fold frames.
    pose proof (np_wfm_stack s (N.of_nat k) W) as Hv.
    destruct (sget s (N.of_nat k)) eqn:Es; try apply IH.
    cbn [vwf] in Hv. destruct Hv as [(lid2 & C2 & L2) _]. unfold heap_get.
    destruct (_ <? hlen (hp s)); [|reflexivity]. cbn [bind].
    match goal with |- context [tget (cells (hp s)) ?a] => fold (cell_at (hp s) a) end. rewrite C2.
    destruct (tget (lams (st s)) lid2); [apply IH|congruence]. }
  intros acc0. specialize (HF acc0). destruct (frames k acc0); cbn [bind tr_ok] in *; auto.
Qed.

(* ------------------------------------------------------------------ run loop, eval *)
Section Loop.
Variable ob : N -> M vcell.
Hypothesis Hob : forall b s, wfm s -> npo s (ob b s) V.
Hypothesis Hkp : forall b, kp (ob b).
Hypothesis Hbok : builtins_ok ob.

Definition lpost {X} (r : res X) : Prop :=
  match r with ROk _ s' => wfm s' | RErr _ _ s' => wfm s' | RPanic k => okp k | RNoFuel => True end.

Lemma wfm_regs s s' : wfm s -> hp s' = hp s -> st s' = st s -> g_slots s' = g_slots s -> g_bind s' = g_bind s ->
  scap s' = scap s -> (forall i, sget s' i = sget s i \/ sget s' i = VUndef) -> (acc s' = acc s \/ acc s' = VUndef) -> wfm s'.
Proof.
  intros W E1 E2 E3 E4 E5 Hs Ha.
  assert (G : grow0 s s') by (apply grow0_nostore; [exact E2|rewrite E1; auto|lia|rewrite E3; lia]).
  apply (wfm_nostore s s' W E2 G).
  - rewrite E1. apply (w_heap s W).
  - unfold gbind_ok. rewrite E4, E3. apply (w_gbind s W).
  - intros a. left. rewrite E1. reflexivity.
  - intros i. destruct (Hs i) as [H|H]; [left; exact H|right; rewrite H; exact I].
  - destruct Ha as [H|H]; [left; exact H|right; rewrite H; exact I].
  - intros i v H. left. rewrite <- E3. exact H.
Qed.

Lemma sget_empty s t p i : stack (with_stack s tempty p) = t -> sget (with_stack s tempty p) i = VUndef.
Proof. intros _. unfold sget. cbn [stack with_stack]. rewrite tget_tempty. reflexivity. Qed.

Theorem np_run_loop fuel : forall cyc count s, wfm s -> lamcell s (fst (ip s)) -> J s -> finv s ->
  lpost (run_loop ob fuel cyc count s).
Proof.
  induction fuel as [|f IH]; intros cyc count s W Hl Hj F; [exact I|]. cbn [run_loop].
  pose proof (np_run_one ob Hob s W Hl Hj F) as H1.
  pose proof (kp_run_one ob Hkp s Hj) as H2.
  pose proof (finv_step ob s) as H3. pose proof (finv_step_err ob s) as H4.
  destruct (run_one ob s) as [b s1|e m s1|k|]; cbn [step_post jpost lpost] in *; auto.
  - destruct H1 as (W1 & G1 & L1). destruct b.
    + pose proof (np_to_cell (acc s1) s1 W1 (np_wfm_acc s1 W1)) as Hc.
      destruct (to_cell (acc s1) s1) as [c s2|e m s2|k|]; cbn [npost lpost] in *; auto.
      * destruct Hc as (W2 & _ & _). apply (wfm_regs s2); try reflexivity; auto.
        intros i. right. unfold sget. cbn [stack with_stack]. rewrite tget_tempty. reflexivity.
      * apply Hc.
    + destruct (match count with Some c => cyc + 1 =? c | None => false end); [exact W1|].
      apply IH; auto. eapply H3; [exact Hbok|exact F|reflexivity].
  - destruct H1 as (W1 & G1 & Hi1). pose proof (stack_trace_ok s1 W1 Hi1) as Ht.
    destruct (stack_trace s1); cbn [tr_ok lpost] in *; auto; try contradiction.
    apply (wfm_regs s1); try reflexivity; auto.
    intros i. right. unfold sget. cbn [stack with_stack with_bp with_ep with_acc]. rewrite tget_tempty. reflexivity.
Qed.

Theorem np_eval fuel e s : wfm s -> J s -> finv s -> lpost (eval ob fuel e s).
Proof.
  intros W Hj F. unfold eval.
  pose proof (np_prepare_eval e s W) as H1. pose proof (kp_prepare_eval e s Hj) as H2.
  pose proof (prepare_eval_finv e s F I) as H3.
  destruct (prepare_eval e s) as [u s1|e0 m s1|k|]; cbn [npost0 jpost post lpost] in *; auto.
  - destruct H1 as (W1 & G1 & L1 & _). apply np_run_loop; auto. apply H3.
  - apply H1.
Qed.
End Loop.
