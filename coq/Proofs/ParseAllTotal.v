(* ParseAllTotal.v — C06 for the datum-by-datum loop of the front ends
   (Model/Wire.v [parse_all], interface 5): with fuel = length + 1 it reads a
   sequence of data and ends with END or an error, never PANIC, never NOFUEL. *)
From Coq Require Import String Lia.
From MW Require Import Model.Base Model.F64 Model.Num Model.NumFmt Model.Datum Model.Lex Model.Parse
  Model.Wire Proofs.LexProofs Proofs.ParseProofs Proofs.ParseTotal.
Open Scope N_scope.

(* the specification of the loop: [reads t ds e]: the data [ds] are read one after
   the other from [t]; then the text is exhausted ([e = None]) or the reader
   answers the error value [e] *)
Inductive reads : text -> list cell -> option N -> Prop :=
| rd_last t d : parse_text t = Ok (d, None) -> reads t [d] None
| rd_more t d rest ds e : parse_text t = Ok (d, Some rest) -> reads rest ds e -> reads t (d :: ds) e
| rd_err t e : parse_text t = Err e -> reads t [] (Some e).

Definition show_datum (d : cell) : list N := 32 :: esc_text (write d).
Definition show_end (e : option N) : list N :=
  match e with None => S_ " END" | Some e => 32 :: show_err e end.

Lemma parse_all_enough fuel : forall t, (length t < fuel)%nat -> known_C06 t = false ->
  exists ds e, reads t ds e /\
    forall acc, parse_all fuel t acc = acc ++ flat_map show_datum ds ++ show_end e.
Proof.
  induction fuel as [|f IH]; intros t Hl Hk; [lia|].
  destruct (parse_text_total t Hk) as [(d & r & H)|(e & H)].
  - destruct r as [rest|].
    + destruct (parse_text_rest t d rest Hk H) as (Hk' & Hlen).
      destruct (IH rest ltac:(lia) Hk') as (ds & e & Hr & Hout).
      exists (d :: ds), e. split; [eapply rd_more; eassumption|].
      intros acc. cbn [parse_all]. rewrite H. fold (show_datum d). rewrite Hout. cbn [flat_map].
      rewrite <- !app_assoc. reflexivity.
    + exists [d], None. split; [apply rd_last; assumption|].
      intros acc. cbn [parse_all]. rewrite H. unfold show_datum. cbn [flat_map show_end app].
      rewrite app_nil_r. reflexivity.
  - exists [], (Some e). split; [apply rd_err; assumption|].
    intros acc. cbn [parse_all]. rewrite H. reflexivity.
Qed.

Theorem parse_all_total t : known_C06 t = false ->
  exists ds e, reads t ds e /\
    forall acc, parse_all (S (length t)) t acc = acc ++ flat_map show_datum ds ++ show_end e.
Proof. intros Hk. apply parse_all_enough; [lia|assumption]. Qed.
