(* FrameSteps.v — C01: instruction-level lemmas for closures applied in place: MOV from a
   lexical slot, CLOSURE, CALL / TCALL of a closure, ENTER of a closure whose environment map
   consists of its own parameters, RET from a frame with n arguments.  Used by
   Proofs/CompileCorrect2.v.                                                              *)
From Coq Require Import String Lia FMapPositive.
From MW Require Import Model.Base Model.F64 Model.Num Model.Datum Model.TransformDef Model.Transform
  Model.VmTypes Model.Heap Model.Gc Model.VmBase Model.Compile Model.Vm
  Proofs.VmProofs0 Proofs.GcProofs Proofs.SymtabProofs Proofs.QuoteHeapProofs
  Proofs.CompileProofs Proofs.RunProofs Proofs.CompileCorrect Proofs.TailProofs.
From MW Require Proofs.ScopeProofs.
Open Scope N_scope.

Arguments N.add : simpl never.
Arguments N.sub : simpl never.
Arguments N.mul : simpl never.
Arguments N.eqb : simpl never.
Arguments N.ltb : simpl never.
Arguments N.leb : simpl never.

(* run-time extension: [cext] and the environment payloads that exist stay as they are *)
Record rext (m m' : vm) : Prop := {
  rx_cext : cext m m';
  rx_envs : forall j, j < next_id (st m) -> tget (envs (st m')) j = tget (envs (st m)) j
}.
Lemma rext_refl m : rext m m.
Proof. split; [apply cext_refl|auto]. Qed.
Lemma rext_trans a b c : rext a b -> rext b c -> rext a c.
Proof.
  intros [X1 E1] [X2 E2]. split; [eapply cext_trans; eassumption|].
  intros j Hj. rewrite E2, E1; auto. destruct (ce_store _ _ X1). lia.
Qed.
Lemma rext_same s s' : hp s' = hp s -> st s' = st s -> g_bind s' = g_bind s ->
  len (g_slots s) <= len (g_slots s') -> rext s s'.
Proof. intros Eh Es Eb Hl. split; [apply cext_same; assumption|]. intros j _. rewrite Es. reflexivity. Qed.

(* the two environment builders, with their inner loops named *)
Definition bce_go : list (vcell * bsrc) -> list vcell -> M (list vcell) :=
  fix go (m : list (vcell * bsrc)) (acc : list vcell) : M (list vcell) :=
    match m with
    | [] => ret (rev acc)
    | (_, src) :: r =>
        match src with
        | BIofArgument a => dom v <- load_arg a; go r (v :: acc)
        | BIofEnvironment iof_slot =>
            dom s <- get_vm;
            dom ev <- hget (ep s); dom eid <- as_lexenv ev;
            dom cur <- env_get eid iof_slot;
            match cur with
            | VLexPtr _ _ => go r (cur :: acc)
            | _ => go r (VLexPtr (ep s) iof_slot :: acc)
            end
        | _ => go r (VUndef :: acc)
        end
    end.
Lemma bce_eq envmap : build_closure_environment envmap = bce_go envmap [].
Proof. reflexivity. Qed.

Lemma bce_enum aps : forall i acc s,
  bce_go (ScopeProofs.enum_args aps i) acc s = ROk (rev acc ++ repeat VUndef (length aps)) s.
Proof.
  induction aps as [|x r IH]; intros i acc s; cbn [ScopeProofs.enum_args bce_go length repeat].
  - rewrite app_nil_r. reflexivity.
  - rewrite IH. cbn [rev]. rewrite <- app_assoc. reflexivity.
Qed.

Definition ble_go (argc : N) (closure_env_ptr : N) (closure_env : list vcell) :
  list (vcell * bsrc) -> N -> list vcell -> M (list vcell) :=
  fix go (m : list (vcell * bsrc)) (slot : N) (env : list vcell) : M (list vcell) :=
    match m with
    | [] => ret env
    | (_, src) :: r =>
        match src with
        | BArgument a =>
            dom s <- get_vm;
            dom k <- usub argc a;
            dom base <- usub (bp s) k;
            dom v <- stack_get (base + 1);
            go r (slot + 1) (list_set env slot v)
        | BIofArgument _ | BIofEnvironment _ =>
            match list_get closure_env slot with
            | None => panic 44
            | Some (VLexPtr _ _) => go r (slot + 1) env
            | Some _ =>
                if slot <? len env then go r (slot + 1) (list_set env slot (VLexPtr closure_env_ptr slot))
                else panic 44
            end
        | _ => go r (slot + 1) env
        end
    end.
Lemma ble_eq l cep cenv :
  build_lexical_environment l cep cenv = ble_go (len (l_args l)) cep cenv (l_envmap l) 0 cenv.
Proof. reflexivity. Qed.

(* own parameters only: slot j receives the j-th argument of the frame *)
Lemma ble_enum argc cep cenv s : argc <= bp s -> bp s < scap s ->
  forall aps i env, i + len aps = argc -> len env = argc ->
  exists env', ble_go argc cep cenv (ScopeProofs.enum_args aps i) i env s = ROk env' s /\ len env' = argc /\
    (forall j, j < i -> list_get env' j = list_get env j) /\
    (forall j, i <= j -> j < argc -> list_get env' j = Some (sget s (bp s - argc + j + 1))).
Proof.
  intros Hbp Hcap. induction aps as [|x r IH]; intros i env Hi Hl; cbn [ScopeProofs.enum_args ble_go].
  - exists env. split; [reflexivity|]. split; [exact Hl|]. split; [auto|]. intros j H1 H2. rewrite len_nil in Hi. lia.
  - rewrite len_cons in Hi.
    unfold bindM at 1. unfold get_vm. unfold bindM at 1. rewrite usub_ok by lia.
    unfold bindM at 1. rewrite usub_ok by lia.
    unfold bindM at 1. rewrite stack_get_ok by lia.
    destruct (IH (i + 1) (list_set env i (sget s (bp s - (argc - i) + 1))) ltac:(lia) ltac:(rewrite list_set_len; exact Hl))
      as (env' & E & L & Hlo & Hhi).
    exists env'. split; [exact E|]. split; [exact L|]. split.
    + intros j Hj. rewrite Hlo by lia. apply list_get_set_other. lia.
    + intros j H1 H2. destruct (N.eq_dec j i) as [->|Hne].
      * rewrite Hlo by lia. rewrite list_get_set_same by lia. do 2 f_equal. lia.
      * apply Hhi; lia.
Qed.

Section Steps.
Variable ob : N -> M vcell.
Notation run_one := (Vm.run_one ob).
Notation steps := (RunProofs.steps ob).

Ltac fetch_op Hc Hip H0 :=
  unfold Vm.run_one; unfold bindM at 1;
  rewrite (read_opcode_ok _ _ _ _ _ Hc Hip H0); cbv beta iota.

(* MOV (lexical slot k) %acc: the slot of the current environment, not a pointer slot *)
Lemma step_load_lex m lp i bc k eid slots v : code_in m lp bc -> ip m = (lp, i) ->
  seg bc i [VOp OMov; VLexSlot k; VAcc] ->
  heap_get (hp m) (ep m) = Ok (VLexEnv eid) -> tget (envs (st m)) eid = Some slots ->
  list_get slots k = Some v -> (forall e j, v <> VLexPtr e j) ->
  run_one m = ROk false (with_acc (with_ip m (lp, i + 3)) v).
Proof.
  intros Hc Hip Hs Hep Hsl Hk Hv. apply seg_head in Hs as [H0 Hs]. apply seg_head in Hs as [H1 Hs]. apply seg_head in Hs as [H2 _].
  fetch_op Hc Hip H0.
  unfold bindM at 1. unfold load_operand. unfold bindM at 1.
  rewrite (read_operand_ok _ lp (i + 1) bc _ (code_in_ip _ _ _ _ Hc) eq_refl H1 ltac:(discriminate)).
  unfold bindM at 1. unfold get_vm. unfold load_lex_slot.
  unfold bindM at 1. unfold get_vm. unfold bindM at 1. unfold hget, lift. cbn [hp ep with_ip]. rewrite Hep.
  unfold bindM at 1. cbn [as_lexenv]. unfold ret at 1.
  unfold bindM at 1. unfold env_get. unfold bindM at 1. unfold env_slots. cbn [st with_ip]. rewrite Hsl. rewrite Hk.
  unfold ret at 1.
  assert (E : forall (A : Type) (a : N -> N -> A) (b : A), match v with VLexPtr e j => a e j | _ => b end = b)
    by (intros; destruct v; try reflexivity; exfalso; eapply Hv; reflexivity).
  rewrite E. unfold ret at 1.
  unfold bindM at 1. unfold store_operand. unfold bindM at 1.
  rewrite (read_operand_ok _ lp (i + 1 + 1) bc VAcc (code_in_ip _ _ _ _ (code_in_ip _ _ _ _ Hc)) eq_refl H2 ltac:(discriminate)).
  unfold bindM, get_vm, set_acc, ret. unfold with_acc, with_ip. cbn [hp st g_bind g_slots stack scap sp bp ep ip acc out_log].
  replace (i + 1 + 1 + 1) with (i + 3) by lia. reflexivity.
Qed.

(* RET from a frame with n arguments *)
Lemma step_ret_n m lp i bc n e l0 i0 b : code_in m lp bc -> ip m = (lp, i) -> seg bc i [VOp ORet] ->
  bp m + 4 < scap m -> n <= bp m ->
  sget m (bp m + 1) = VArgc n -> sget m (bp m + 2) = VEp e -> sget m (bp m + 3) = VIp l0 i0 ->
  sget m (bp m + 4) = VBp b ->
  run_one m = ROk false (with_bp (with_ip (with_ep (with_sp (with_ip m (lp, i + 1)) (bp m - n)) e) (l0, i0)) b).
Proof.
  intros Hc Hip Hs Hcap Hn H1 H2 H3 H4. apply seg_head in Hs as [H0 _].
  fetch_op Hc Hip H0.
  unfold bindM at 1. unfold get_vm. cbn [bp with_ip].
  unfold bindM at 1. unfold stack_get at 1. cbn [scap with_ip].
  destruct (N.ltb_spec (bp m + 1) (scap m)) as [_|]; [|lia].
  change (sget (with_ip m (lp, i + 1)) (bp m + 1)) with (sget m (bp m + 1)). rewrite H1.
  unfold bindM at 1. cbn [as_argc]. unfold ret at 1. unfold bindM at 1. unfold usub.
  destruct (N.ltb_spec (bp m) n) as [|_]; [lia|]. unfold ret at 1.
  unfold bindM at 1. unfold set_sp at 1.
  unfold bindM at 1. unfold stack_get at 1. cbn [scap with_sp with_stack with_ip].
  destruct (N.ltb_spec (bp m + 2) (scap m)) as [_|]; [|lia].
  change (sget (with_sp (with_ip m (lp, i + 1)) (bp m - n)) (bp m + 2)) with (sget m (bp m + 2)). rewrite H2.
  unfold bindM at 1. cbn [as_ep]. unfold ret at 1. unfold bindM at 1. unfold set_ep at 1.
  unfold bindM at 1. unfold stack_get at 1. cbn [scap with_ep with_sp with_stack with_ip].
  destruct (N.ltb_spec (bp m + 3) (scap m)) as [_|]; [|lia].
  change (sget (with_ep (with_sp (with_ip m (lp, i + 1)) (bp m - n)) e) (bp m + 3)) with (sget m (bp m + 3)). rewrite H3.
  unfold bindM at 1. cbn [as_ip]. unfold ret at 1. unfold bindM at 1. unfold set_ip at 1.
  unfold bindM at 1. unfold stack_get at 1. cbn [scap with_ep with_sp with_stack with_ip].
  destruct (N.ltb_spec (bp m + 4) (scap m)) as [_|]; [|lia].
  change (sget (with_ip (with_ep (with_sp (with_ip m (lp, i + 1)) (bp m - n)) e) (l0, i0)) (bp m + 4)) with (sget m (bp m + 4)).
  rewrite H4. reflexivity.
Qed.

(* the callee of CALL / TCALL is a closure *)
Lemma resolve_closure m a lamp cep : acc m = VPtr a -> heap_get (hp m) a = Ok (VClosure lamp cep) ->
  Vm.resolve_callee ob m = ROk (CLambda lamp) m.
Proof.
  intros Hacc Hg. unfold Vm.resolve_callee. unfold bindM at 1. unfold get_vm. unfold bindM at 1.
  unfold hderef, lift. rewrite Hacc. cbn [heap_deref]. rewrite Hg. reflexivity.
Qed.

(* CALL %acc of a closure: push %ep and the return address, jump to the lambda *)
Lemma step_call_closure m lp i bc a lamp cep : code_in m lp bc -> ip m = (lp, i) -> seg bc i [VOp OCallAcc] ->
  acc m = VPtr a -> heap_get (hp m) a = Ok (VClosure lamp cep) ->
  run_one m = ROk false (with_ip (pushed (pushed (with_ip m (lp, i + 1)) (VEp (ep m))) (VIp lp (i + 1))) (lamp, 0)).
Proof.
  intros Hc Hip Hs Hacc Hg. apply seg_head in Hs as [H0 _].
  fetch_op Hc Hip H0.
  unfold bindM at 1. rewrite (resolve_closure (with_ip m (lp, i + 1)) a lamp cep Hacc Hg). reflexivity.
Qed.

(* TCALL %acc of a closure: the frame is rebuilt on the base of the current one
   (TailProofs.tcall_frame_effect) *)
Lemma step_tcall_closure m lp i bc a lamp cep n e ii b k : code_in m lp bc -> ip m = (lp, i) ->
  seg bc i [VOp OTCallAcc] ->
  acc m = VPtr a -> heap_get (hp m) a = Ok (VClosure lamp cep) ->
  frame_at m n e ii b -> sget m (sp m) = VArgc k -> bp m + 4 + k < sp m -> sp m < scap m ->
  exists T,
    run_one m = ROk false (with_ip (with_bp (with_stack (with_ip m (lp, i + 1)) T (bp m - n + k + 3)) b) (lamp, 0)) /\
    (forall j, j < k -> slot T (bp m - n + 1 + j) = sget m (sp m - k + j)) /\
    slot T (bp m - n + k + 1) = VArgc k /\ slot T (bp m - n + k + 2) = VEp e /\
    slot T (bp m - n + k + 3) = VIp (fst ii) (snd ii) /\
    (forall j, j <= bp m - n -> slot T j = sget m j).
Proof.
  intros Hc Hip Hs Hacc Hg Hfr Htop Hab Hcap. apply seg_head in Hs as [H0 _].
  destruct (tcall_frame_effect lamp (with_ip m (lp, i + 1)) n e ii b k Hfr Htop Hab Hcap)
    as (T & E & F1 & F2 & F3 & F4 & F5).
  exists T. split; [|repeat split; assumption].
  fetch_op Hc Hip H0.
  unfold bindM at 1. rewrite (resolve_closure (with_ip m (lp, i + 1)) a lamp cep Hacc Hg).
  exact E.
Qed.

(* CLOSURE %acc for a lambda whose environment map consists of its own parameters: a
   closure over a new environment of undefined slots *)
Lemma step_closure m lp i bc lamp lid lam : code_in m lp bc -> ip m = (lp, i) -> seg bc i [VOp OClosureAcc] ->
  minv m -> acc m = VPtr lamp -> heap_get (hp m) lamp = Ok (VLambda lid) -> tget (lams (st m)) lid = Some lam ->
  l_envmap lam = ScopeProofs.enum_args (l_args lam) 0 ->
  exists m' cp cep eid, run_one m = ROk false m' /\ minv m' /\ rext m m' /\
    sp m' = sp m /\ bp m' = bp m /\ ep m' = ep m /\ scap m' = scap m /\ stack m' = stack m /\
    out_log m' = out_log m /\ g_slots m' = g_slots m /\ ip m' = (lp, i + 1) /\ acc m' = VPtr cp /\
    allocated (hp m') cp /\ cell_at (hp m') cp = VClosure lamp cep /\
    allocated (hp m') cep /\ cell_at (hp m') cep = VLexEnv eid /\ eid < next_id (st m') /\
    tget (envs (st m')) eid = Some (repeat VUndef (length (l_args lam))).
Proof.
  intros Hc Hip Hs MI Hacc Hg Hl Henv. apply seg_head in Hs as [H0 _].
  fetch_op Hc Hip H0.
  unfold bindM at 1. unfold get_vm. cbn [acc with_ip]. rewrite Hacc. unfold bindM at 1. cbn [as_ptr]. unfold ret at 1.
  unfold bindM at 1. unfold hget, lift. cbn [hp with_ip]. rewrite Hg.
  unfold bindM at 1. cbn [as_lambda]. unfold get_lambda. cbn [st with_ip]. rewrite Hl.
  unfold bindM at 1. rewrite bce_eq, Henv, bce_enum. cbn [rev app].
  unfold bindM at 1. unfold env_new, new_env. cbv beta iota.
  unfold bindM at 1. unfold hput. cbn [hp st with_store with_ip].
  destruct (heap_put (hp m) (VLexEnv (next_id (st m)))) as [r1 h1] eqn:E1.
  destruct (heap_put_frame _ _ _ _ (mi_heap _ MI) E1 ltac:(discriminate)) as (a1 & -> & A1 & C1 & HI1 & Fr1).
  unfold bindM at 1. cbn [as_ptr]. unfold ret at 1.
  unfold bindM at 1. cbn [hp with_heap].
  destruct (heap_put h1 (VClosure lamp a1)) as [r2 h2] eqn:E2.
  destruct (heap_put_frame _ _ _ _ HI1 E2 ltac:(discriminate)) as (a2 & -> & A2 & C2 & HI2 & Fr2).
  unfold bindM at 1. unfold set_acc, ret.
  eexists. exists a2, a1, (next_id (st m)). split; [reflexivity|].
  cbn [hp st sp bp ep scap stack out_log g_slots g_bind ip acc with_acc with_heap with_store with_ip next_id envs].
  destruct (Fr2 a1 A1) as [A1' C1'].
  split; [destruct MI as [HI GI SP]; constructor; [exact HI2|exact GI|exact SP]|].
  split.
  { split.
    - constructor; cbn [hp st g_bind g_slots with_acc with_heap with_store with_ip]; auto.
      + eapply hext_trans; eassumption.
      + split; cbn [next_id strs vecs]; [lia|auto].
      + lia.
    - intros j Hj. cbn [st envs with_acc with_heap with_store]. apply tget_tset_other. lia. }
  do 9 (split; [reflexivity|]).
  split; [exact A2|]. split; [exact C2|]. split; [exact A1'|]. split; [congruence|].
  split; [lia|]. apply tget_tset_same.
Qed.

(* ENTER of a closure whose lambda has its own parameters only: push %bp, make the frame
   current, build the activation environment from the n arguments on the stack *)
Lemma step_enter_closure m lamp bc cp cep lid lam ceid cslots n :
  code_in m lamp bc -> ip m = (lamp, 0) -> list_get bc 0 = Some (VOp OEnter) ->
  minv m -> acc m = VPtr cp -> heap_get (hp m) cp = Ok (VClosure lamp cep) ->
  heap_get (hp m) lamp = Ok (VLambda lid) -> tget (lams (st m)) lid = Some lam ->
  l_envmap lam = ScopeProofs.enum_args (l_args lam) 0 -> len (l_args lam) = n ->
  heap_get (hp m) cep = Ok (VLexEnv ceid) -> tget (envs (st m)) ceid = Some cslots -> len cslots = n ->
  n + 3 <= sp m -> sget m (sp m - 2) = VArgc n ->
  exists m' evp env,
    run_one m = ROk false m' /\ minv m' /\ rext m m' /\
    sp m' = sp m + 1 /\ bp m' = sp m - 3 /\ ep m' = evp /\ ip m' = (lamp, 1) /\ acc m' = acc m /\
    out_log m' = out_log m /\ g_slots m' = g_slots m /\
    sget m' (sp m + 1) = VBp (bp m) /\ (forall j, j <> sp m + 1 -> sget m' j = sget m j) /\
    allocated (hp m') evp /\ cell_at (hp m') evp = VLexEnv (next_id (st m)) /\
    tget (envs (st m')) (next_id (st m)) = Some env /\ next_id (st m) < next_id (st m') /\ len env = n /\
    (forall j, j < n -> list_get env j = Some (sget m (sp m - 3 - n + j + 1))).
Proof.
  intros Hc Hip H0 MI Hacc Hgc Hgl Hl Henv Hlen Hcep Hcs Hcl Hsp Hargc.
  pose proof (mi_sp _ MI) as Hcap.
  fetch_op Hc Hip H0. change (0 + 1) with 1.
  unfold enter_frame. unfold bindM at 1. unfold get_vm. unfold bindM at 1.
  unfold hderef, lift. cbn [hp acc with_ip]. rewrite Hacc. cbn [heap_deref]. rewrite Hgc.
  unfold bindM at 1. unfold ret at 1. cbv beta iota.
  unfold bindM at 1. unfold hget, lift. cbn [hp with_ip]. rewrite Hgl.
  unfold bindM at 1. cbn [as_lambda]. unfold get_lambda. cbn [st with_ip]. rewrite Hl.
  unfold bindM at 1. unfold stack_get_offset. cbn [sp with_ip].
  destruct (Z.ltb_spec (Z.of_N (sp m) + -2) 0) as [Hz|_]; [lia|].
  replace (Z.to_N (Z.of_N (sp m) + -2)) with (sp m - 2) by lia.
  unfold stack_get. cbn [scap with_ip].
  destruct (N.ltb_spec (sp m - 2) (scap m)) as [_|]; [|lia].
  change (sget (with_ip m (lamp, 1)) (sp m - 2)) with (sget m (sp m - 2)). rewrite Hargc.
  unfold bindM at 1. cbn [as_argc]. unfold ret at 1. rewrite Hlen, N.eqb_refl. cbn [negb].
  unfold bindM at 1. rewrite push_eq. unfold bindM at 1. unfold get_vm. unfold bindM at 1. unfold usub.
  cbn [sp pushed with_scap with_stack with_ip].
  destruct (N.ltb_spec (sp m + 1) 4) as [|_]; [lia|].
  unfold bindM at 1. unfold set_bp. unfold ret at 1. cbn [bp with_ip].
  set (s1 := with_bp (pushed (with_ip m (lamp, 1)) (VBp (bp m))) (sp m + 1 - 4)).
  assert (Hs1 : forall j, j <> sp m + 1 -> sget s1 j = sget m j).
  { intros j Hj. unfold s1. change (sget (with_bp ?x _) ?k) with (sget x k).
    rewrite sget_pushed_other by (cbn [sp with_ip]; exact Hj). reflexivity. }
  assert (Hcap1 : sp s1 < scap s1).
  { unfold s1. change (sp (with_bp ?x _)) with (sp x). change (scap (with_bp ?x _)) with (scap x).
    apply pushed_sp_lt. exact Hcap. }
  assert (Hsp1 : sp s1 = sp m + 1) by reflexivity.
  assert (Hbp1 : bp s1 = sp m + 1 - 4) by reflexivity.
  unfold bindM at 1. unfold hget, lift. change (hp s1) with (hp m). rewrite Hcep.
  unfold bindM at 1. cbn [as_lexenv]. unfold ret at 1.
  unfold bindM at 1. unfold env_slots. change (st s1) with (st m). rewrite Hcs.
  unfold bindM at 1. rewrite ble_eq, Henv, Hlen.
  destruct (ble_enum n cep cslots s1 ltac:(lia) ltac:(lia) (l_args lam) 0 cslots ltac:(lia) Hcl)
    as (env & E & L & _ & Hhi).
  rewrite E.
  unfold bindM at 1. unfold env_new, new_env. cbv beta iota. change (st s1) with (st m).
  unfold bindM at 1. unfold hput. cbn [hp with_store]. change (hp s1) with (hp m).
  destruct (heap_put (hp m) (VLexEnv (next_id (st m)))) as [r1 h1] eqn:E1.
  destruct (heap_put_frame _ _ _ _ (mi_heap _ MI) E1 ltac:(discriminate)) as (a1 & -> & A1 & C1 & HI1 & Fr1).
  unfold bindM at 1. cbn [as_ptr]. unfold ret at 1.
  unfold bindM at 1. unfold set_ep, ret.
  eexists. exists a1, env. split; [reflexivity|].
  split.
  { destruct MI as [HI GI SP]. constructor; [exact HI1|exact GI|exact Hcap1]. }
  split.
  { split.
    - constructor; cbn [hp st g_bind g_slots with_ep with_heap with_store]; auto.
      + split; cbn [next_id strs vecs]; [lia|auto].
      + change (g_slots s1) with (g_slots m). lia.
    - intros j Hj. cbn [st envs with_ep with_heap with_store]. apply tget_tset_other. lia. }
  split; [reflexivity|]. split; [cbn [bp with_ep with_heap with_store]; rewrite Hbp1; lia|].
  split; [reflexivity|]. split; [reflexivity|]. split; [exact Hacc|]. split; [reflexivity|]. split; [reflexivity|].
  split.
  { change (sget (with_ep (with_heap (with_store s1 ?x) ?h) ?e) ?j) with (sget s1 j).
    unfold s1. change (sget (with_bp ?x _) ?k) with (sget x k).
    change (sp m + 1) with (sp (with_ip m (lamp, 1)) + 1). apply sget_pushed_top. }
  split; [intros j Hj; apply Hs1; exact Hj|].
  split; [exact A1|]. split; [exact C1|].
  split; [cbn [st envs with_ep with_heap with_store]; apply tget_tset_same|].
  split; [cbn [st next_id with_ep with_heap with_store]; lia|].
  split; [exact L|].
  intros j Hj. rewrite (Hhi j ltac:(lia) Hj). rewrite Hs1 by (rewrite Hbp1; lia). do 2 f_equal. rewrite Hbp1. lia.
Qed.

End Steps.
