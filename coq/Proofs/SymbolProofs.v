(* SymbolProofs.v — string->symbol / symbol->string round trips (Model/SymbolB.v).
   The decoding (parse_string) inverts the encoding of the repaired string->symbol on every
   string of Unicode scalar values; the pinned encoder violates this (backslash).  The
   converse direction holds on the symbols string->symbol makes and on plain identifiers;
   the two recorded defect classes of reader symbols are refuted by witnesses.            *)
From Coq Require Import String Lia.
From MW Require Import Model.Base Model.F64 Model.Num Model.NumFmt Model.Datum Model.Lex Model.Parse Model.SymbolB.
Open Scope N_scope.

(* ------------------------------------------------------------------ hex digits *)
Lemma hex_digit_facts : forall d, d < 16 ->
  (hex_digit d =? 59) = false /\ is_hex (hex_digit d) = true /\ hex_val (hex_digit d) = d.
Proof.
  intros d H.
  assert (H0 : d = 0 \/ d = 1 \/ d = 2 \/ d = 3 \/ d = 4 \/ d = 5 \/ d = 6 \/ d = 7 \/
               d = 8 \/ d = 9 \/ d = 10 \/ d = 11 \/ d = 12 \/ d = 13 \/ d = 14 \/ d = 15) by lia.
  repeat (destruct H0 as [H0 | H0]); subst d; vm_compute; repeat split; reflexivity.
Qed.

Lemma land15 : forall n, N.land n 15 = n mod 16.
Proof. intro n. exact (N.land_ones n 4). Qed.
Lemma shiftr4 : forall n, N.shiftr n 4 = n / 16.
Proof. intro n. exact (N.shiftr_div_pow2 n 4). Qed.

Lemma show_hex_fuel_S : forall f n acc,
  show_hex_fuel (S f) n acc =
  if n / 16 =? 0 then hex_digit (n mod 16) :: acc
  else show_hex_fuel f (n / 16) (hex_digit (n mod 16) :: acc).
Proof. intros. cbn [show_hex_fuel]. cbv zeta. rewrite land15, shiftr4. reflexivity. Qed.

Lemma psh_step : forall c r a, (c =? 59) = false -> is_hex c = true ->
  a * 16 + hex_val c <= 4294967295 ->
  parse_string_hex (c :: r) a = parse_string_hex r (a * 16 + hex_val c).
Proof.
  intros c r a H1 H2 H3. cbn [parse_string_hex]. rewrite H1, H2. cbv zeta.
  assert (E1 : (4294967295 <? a * 16) = false) by (apply N.ltb_ge; lia).
  assert (E2 : (4294967295 <? a * 16 + hex_val c) = false) by (apply N.ltb_ge; lia).
  rewrite E1, E2. reflexivity.
Qed.

Lemma show_hex_fuel_parse : forall fuel n acc, n < 2 ^ N.of_nat fuel ->
  exists ds, show_hex_fuel fuel n acc = ds ++ acc /\
    forall a rest, a * 16 ^ N.of_nat (length ds) + n <= 4294967295 ->
      parse_string_hex (ds ++ rest) a =
      parse_string_hex rest (a * 16 ^ N.of_nat (length ds) + n).
Proof.
  induction fuel as [|f IH]; intros n acc Hn.
  - exists []. split; [reflexivity|]. intros a rest _.
    change (2 ^ N.of_nat 0) with 1 in Hn. assert (n = 0) by lia. subst n.
    cbn [length app]. change (N.of_nat 0) with 0. rewrite N.pow_0_r. f_equal. lia.
  - rewrite show_hex_fuel_S.
    pose proof (N.div_mod' n 16) as Hdm.
    assert (Hm : n mod 16 < 16) by (apply N.mod_lt; lia).
    destruct (hex_digit_facts (n mod 16) Hm) as (F1 & F2 & F3).
    destruct (n / 16 =? 0) eqn:Eq.
    + apply N.eqb_eq in Eq. exists [hex_digit (n mod 16)]. split; [reflexivity|].
      intros a rest Hb. cbn [length app] in *. change (N.of_nat 1) with 1 in *.
      rewrite N.pow_1_r in *.
      rewrite psh_step; auto; rewrite F3; [f_equal|]; lia.
    + apply N.eqb_neq in Eq.
      destruct (IH (n / 16) (hex_digit (n mod 16) :: acc)) as (ds & Hs & Hp).
      { apply N.div_lt_upper_bound; [lia|].
        rewrite Nat2N.inj_succ, N.pow_succ_r' in Hn. lia. }
      exists (ds ++ [hex_digit (n mod 16)]). split.
      { rewrite Hs, <- app_assoc. reflexivity. }
      intros a rest Hb. rewrite <- app_assoc. cbn [app].
      rewrite app_length in *. cbn [length] in *.
      rewrite Nat2N.inj_add in *. change (N.of_nat 1) with 1 in *.
      rewrite N.pow_add_r, N.pow_1_r in *.
      set (P := 16 ^ N.of_nat (length ds)) in *.
      rewrite Hp by lia.
      rewrite psh_step; auto; rewrite F3; [f_equal|]; lia.
Qed.

Lemma show_hex_parse : forall c rest, c <= 4294967295 ->
  parse_string_hex (show_hex c ++ 59 :: rest) 0 = Ok (c, 59 :: rest).
Proof.
  intros c rest Hc. unfold show_hex.
  destruct (show_hex_fuel_parse (S (N.to_nat (N.size c))) c []) as (ds & Hs & Hp).
  { rewrite Nat2N.inj_succ, N2Nat.id, N.pow_succ_r'. pose proof (N.size_gt c). lia. }
  rewrite Hs, app_nil_r. rewrite Hp by lia.
  replace (0 * 16 ^ N.of_nat (length ds) + c) with c by lia.
  cbn [parse_string_hex]. rewrite N.eqb_refl. reflexivity.
Qed.

Lemma is_scalar_u32 : forall c, is_scalar c = true -> c <= 4294967295.
Proof.
  intros c H. unfold is_scalar in H. apply orb_true_iff in H. destruct H as [H | H].
  - apply N.ltb_lt in H. lia.
  - apply andb_true_iff in H. destruct H as [_ H]. apply N.ltb_lt in H. lia.
Qed.

(* --------------------------------------------------- one encoded piece, decoded *)
Lemma psf_plain : forall f c r acc, (c =? 92) = false ->
  parse_string_fuel (S f) (c :: r) acc = parse_string_fuel f r (c :: acc).
Proof. intros f c r acc H. cbn [parse_string_fuel]. rewrite H. reflexivity. Qed.

Lemma psf_hex : forall f r2 acc,
  parse_string_fuel (S f) (92 :: 120 :: r2) acc =
  (do (v, r3) <- parse_string_hex r2 0;
   if is_scalar v then parse_string_fuel f (tl r3) (v :: acc) else Err E_OTHER).
Proof. reflexivity. Qed.

Definition piece (c : cp) (p : text) : Prop :=
  (p = [c] /\ (c =? 92) = false) \/ p = sym_hex_escape c.

Lemma piece_step : forall c p, piece c p -> is_scalar c = true ->
  forall fuel rest acc, (length (p ++ rest) <= fuel)%nat ->
  exists f', (length rest <= f')%nat /\
    parse_string_fuel fuel (p ++ rest) acc = parse_string_fuel f' rest (c :: acc).
Proof.
  intros c p [[-> Hc] | ->] Hs fuel rest acc Hl.
  - cbn [app length] in *. destruct fuel; [lia|]. exists fuel. split; [lia|].
    apply psf_plain; auto.
  - assert (E : sym_hex_escape c ++ rest = 92 :: 120 :: show_hex c ++ 59 :: rest).
    { unfold sym_hex_escape. rewrite <- !app_assoc. reflexivity. }
    rewrite E in *. cbn [length] in Hl. rewrite app_length in Hl. cbn [length] in Hl.
    unfold cp, text in *. destruct fuel; [lia|]. exists fuel. split; [lia|].
    rewrite psf_hex, show_hex_parse by (apply is_scalar_u32; auto).
    cbn [bind tl]. rewrite Hs. reflexivity.
Qed.

Lemma sym_encode_char_piece : forall b c, piece c (sym_encode_char b c).
Proof.
  intros b c. unfold sym_encode_char. destruct (c =? 92) eqn:E.
  - apply N.eqb_eq in E. subst c. right. vm_compute. reflexivity.
  - unfold sym_encode_char_pinned.
    destruct (b && is_initial_identifier c); [left; auto|].
    destruct (negb b && is_subsequent_identifier c); [left; auto|].
    right. reflexivity.
Qed.

Lemma decode_flat : forall s, Forall (fun c => is_scalar c = true) s ->
  forall fuel acc, (length (flat_map (sym_encode_char false) s) <= fuel)%nat ->
  parse_string_fuel fuel (flat_map (sym_encode_char false) s) acc = Ok (rev acc ++ s).
Proof.
  induction 1 as [|x l Hx Hl IH]; intros fuel acc Hlen; cbn [flat_map] in *.
  - rewrite app_nil_r. destruct fuel; reflexivity.
  - destruct (piece_step x _ (sym_encode_char_piece false x) Hx fuel _ acc Hlen)
      as (f' & Hl' & E).
    rewrite E, IH by auto. cbn [rev]. rewrite <- app_assoc. reflexivity.
Qed.

(* decoding inverts the encoding of the repaired string->symbol, for every string of
   Unicode scalar values *)
Theorem symbol_string_roundtrip : forall s,
  Forall (fun c => is_scalar c = true) s -> symbol_to_string (string_to_symbol s) = Ok s.
Proof.
  intros [|c r] H; [reflexivity|].
  inversion H as [|? ? Hc Hr]; subst.
  change (string_to_symbol (c :: r))
    with (sym_encode_char true c ++ flat_map (sym_encode_char false) r).
  unfold symbol_to_string, parse_string.
  destruct (piece_step c _ (sym_encode_char_piece true c) Hc
              (length (sym_encode_char true c ++ flat_map (sym_encode_char false) r))
              (flat_map (sym_encode_char false) r) [] (le_n _))
    as (f' & Hl' & E).
  rewrite E, decode_flat by auto. reflexivity.
Qed.

(* the pinned code (before the fix) violates it: `\` passes through unescaped and is then
   read as an escape *)
Theorem symbol_string_roundtrip_pinned_refuted :
  exists s, Forall (fun c => is_scalar c = true) s /\
            symbol_to_string (string_to_symbol_pinned s) <> Ok s.
Proof.
  exists [97; 92; 98]. split.
  - repeat constructor.
  - vm_compute. discriminate.
Qed.

(* encode after decode is the identity on the symbols string->symbol itself produces *)
Theorem string_symbol_roundtrip_made : forall s y,
  Forall (fun c => is_scalar c = true) s -> y = string_to_symbol s ->
  exists t, symbol_to_string y = Ok t /\ string_to_symbol t = y.
Proof.
  intros s y H ->. exists s. split; [apply symbol_string_roundtrip; auto | reflexivity].
Qed.

(* ... and on reader symbols whose first character is identifier-initial, whose other
   characters are identifier-subsequent, and that contain no backslash *)
Definition plain_identifier (y : text) : bool :=
  match y with
  | [] => false
  | c :: r => is_initial_identifier c && forallb is_subsequent_identifier r && negb (mem 92 y)
  end.

Lemma mem_cons_false : forall c r, mem 92 (c :: r) = false ->
  (c =? 92) = false /\ mem 92 r = false.
Proof.
  intros c r H. unfold mem in *. cbn [existsb] in H. apply orb_false_iff in H.
  destruct H as [H1 H2]. rewrite N.eqb_sym in H1. auto.
Qed.

Lemma psf_noesc : forall y fuel acc, mem 92 y = false -> (length y <= fuel)%nat ->
  parse_string_fuel fuel y acc = Ok (rev acc ++ y).
Proof.
  induction y as [|c r IH]; intros fuel acc Hm Hl.
  - rewrite app_nil_r. destruct fuel; reflexivity.
  - apply mem_cons_false in Hm. destruct Hm as [Hc Hm]. cbn [length] in Hl.
    destruct fuel; [lia|]. rewrite psf_plain by auto. rewrite IH by (auto; lia).
    cbn [rev]. rewrite <- app_assoc. reflexivity.
Qed.

Lemma encode_rest_plain : forall r, forallb is_subsequent_identifier r = true ->
  mem 92 r = false -> flat_map (sym_encode_char false) r = r.
Proof.
  induction r as [|c r IH]; intros Hf Hm; [reflexivity|].
  cbn [forallb] in Hf. apply andb_true_iff in Hf. destruct Hf as [Hc Hf].
  apply mem_cons_false in Hm. destruct Hm as [Hn Hm].
  cbn [flat_map]. rewrite IH by auto.
  unfold sym_encode_char, sym_encode_char_pinned. rewrite Hn, Hc. reflexivity.
Qed.

Theorem string_symbol_roundtrip_plain : forall y, plain_identifier y = true ->
  symbol_to_string y = Ok y /\ string_to_symbol y = y.
Proof.
  intros [|c r] H; [discriminate|].
  unfold plain_identifier in H. apply andb_true_iff in H. destruct H as [H Hm].
  apply andb_true_iff in H. destruct H as [Hi Hf]. apply negb_true_iff in Hm.
  split.
  - unfold symbol_to_string, parse_string. rewrite psf_noesc by auto. reflexivity.
  - apply mem_cons_false in Hm. destruct Hm as [Hn Hm].
    change (string_to_symbol (c :: r))
      with (sym_encode_char true c ++ flat_map (sym_encode_char false) r).
    rewrite encode_rest_plain by auto.
    unfold sym_encode_char, sym_encode_char_pinned. rewrite Hn, Hi. reflexivity.
Qed.

(* the two recorded defect classes of reader symbols, as decidable predicates, each with
   a refutation *)
Definition known_first_char_not_initial (y : text) : bool :=
  match y with c :: _ => negb (is_initial_identifier c) | [] => false end.
Definition known_backslash_in_symbol (y : text) : bool := mem 92 y.

(* "+" : string->symbol "+" is "\x2b;" *)
Theorem string_symbol_roundtrip_refuted_first_char :
  exists y t, known_first_char_not_initial y = true /\ symbol_to_string y = Ok t /\
              string_to_symbol t <> y.
Proof.
  exists [43], [43]. split; [reflexivity|]. split; [reflexivity|].
  vm_compute. discriminate.
Qed.

(* the reader symbol a\b decodes to a<backspace>, which re-encodes to a\x8; *)
Theorem string_symbol_roundtrip_refuted_backslash :
  exists y, known_backslash_in_symbol y = true /\
    forall t, symbol_to_string y = Ok t -> string_to_symbol t <> y.
Proof.
  exists [97; 92; 98]. split; [reflexivity|].
  intros t H. vm_compute in H. injection H as <-. vm_compute. discriminate.
Qed.

Print Assumptions symbol_string_roundtrip.
Print Assumptions symbol_string_roundtrip_pinned_refuted.
Print Assumptions string_symbol_roundtrip_made.
Print Assumptions string_symbol_roundtrip_plain.
Print Assumptions string_symbol_roundtrip_refuted_first_char.
Print Assumptions string_symbol_roundtrip_refuted_backslash.
