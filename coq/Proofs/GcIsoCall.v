(* GcIsoCall.v — C03, part 10: CALL / TCALL of lambdas, closures, continuations and builtins. *)
From Coq Require Import Lia List.
From MW Require Import Model.Base Model.Num Model.VmTypes Model.Heap Model.Gc Model.VmBase Model.Vm
  Proofs.GcProofs Proofs.SymtabProofs Proofs.GcIso Proofs.GcIsoPrim Proofs.GcIsoStep Proofs.GcIsoAlloc
  Proofs.GcIsoHmi Proofs.GcIsoPayload Proofs.GcIsoStep2.
Open Scope N_scope.
Arguments N.add : simpl never.
Arguments N.sub : simpl never.
Arguments N.eqb : simpl never.
Arguments N.ltb : simpl never.
Arguments N.leb : simpl never.
Arguments N.mul : simpl never.

(* a guard that the first computation keeps *)
Lemma simg_bind_inv {A1 A2 B1 B2} W (G : vm -> Prop) P Q (m1 : M A1) (m2 : M A2) (k1 : A1 -> M B1) (k2 : A2 -> M B2) :
  simg W G P m1 m2 -> hmi m1 -> (forall a, hmi (k1 a)) ->
  (forall s a s', G s -> m1 s = ROk a s' -> G s') ->
  (forall W' a1 a2, ext W W' -> P W' a1 a2 -> simg W' G Q (k1 a1) (k2 a2)) ->
  simg W G Q (bindM m1 k1) (bindM m2 k2).
Proof.
  intros Hm Hi Hk Inv Hs. eapply simg_bind; [exact Hm|exact Hi|exact Hk|].
  intros W' a1 a2 E HP. eapply simg_weaken; [|apply Hs; eassumption].
  intros s (s0 & g & Eq). eapply Inv; eassumption.
Qed.

(* ------------------------------------------------------------------ restore_continuation *)
Lemma len_cons {A} (v : A) r : len (v :: r) = len r + 1.
Proof. unfold len. cbn [length]. lia. Qed.
Lemma write_slots_get l : forall i t j,
  tget (write_slots l i t) j
  = if (i <=? j) && (j <? i + len l) then nth_error l (N.to_nat (j - i)) else tget t j.
Proof.
  induction l as [|v r IH]; intros i t j; cbn [write_slots].
  - replace ((i <=? j) && (j <? i + len (@nil vcell)))%bool with false; [reflexivity|].
    unfold len. cbn [length]. destruct (N.leb_spec i j), (N.ltb_spec j (i + N.of_nat 0)); try reflexivity; lia.
  - rewrite IH, len_cons.
    destruct (N.leb_spec (i + 1) j), (N.ltb_spec j (i + 1 + len r)), (N.leb_spec i j), (N.ltb_spec j (i + (len r + 1)));
      cbn [andb]; try lia; try (rewrite tget_tset_other by lia; reflexivity).
    + replace (N.to_nat (j - i)) with (S (N.to_nat (j - (i + 1)))) by lia. reflexivity.
    + assert (j = i) as -> by lia. rewrite tget_tset_same. replace (N.to_nat (i - i)) with O by lia. reflexivity.
Qed.

Definition cont_ok (cid : N) (s : vm) : Prop :=
  forall k, tget (conts (st s)) cid = Some k -> k_sp k < len (k_stack k).

Lemma simg_restore_continuation W cid : wi W (PCont cid) ->
  simg W (cont_ok cid) (@anyr unit unit) (restore_continuation cid) (restore_continuation cid).
Proof.
  intros Hi s1 s2 R g. unfold restore_continuation, outcome.
  pose proof (sr_conts _ _ _ (sr_store _ _ _ R) cid Hi) as H.
  destruct (tget (conts (st s1)) cid) as [k1|] eqn:Ek, (tget (conts (st s2)) cid) as [k2|]; cbn [orel] in H; try contradiction; [|exact I].
  specialize (g k1 Ek). destruct H as [-> (Ls & Le & Li)].
  cbn [kmap k_stack k_sp k_ep k_ip k_bp]. rewrite (sr_scap _ _ _ R).
  assert (El : len (map (vmap (wf W)) (k_stack k1)) = len (k_stack k1)) by (unfold len; now rewrite map_length).
  rewrite El. destruct (scap s1 <? len (k_stack k1)); [exact I|]. intros B.
  eexists tt, _, (set_top W (N.max (wtop W) (len (k_stack k1) - 1))).
  split; [reflexivity|]. split; [apply ext_set_top; lia|]. split; [|exact I].
  eapply srel_regs; [exact R|apply wsame_set_top|..]; sr_simpl; try (rr R).
  - intros i Hi'. unfold sget. sr_simpl. rewrite !write_slots_get, El.
    destruct ((0 <=? i) && (i <? 0 + len (k_stack k1)))%bool eqn:Ec.
    + rewrite nth_error_map. destruct (nth_error (k_stack k1) (N.to_nat (i - 0))) as [v|] eqn:En; cbn [option_map].
      * split; [reflexivity|]. rewrite Forall_forall in Ls. apply Ls. eapply nth_error_In, En.
      * apply vr_plain; reflexivity.
    + apply (sr_stack _ _ _ R). apply andb_false_iff in Ec. destruct Ec as [Ec|Ec]; [apply N.leb_gt in Ec; lia|].
      apply N.ltb_ge in Ec. lia.
  - lia.
  - split; [reflexivity|exact Le].
  - split; [reflexivity|exact Li].
  - apply vr_plain; reflexivity.
Qed.

(* ------------------------------------------------------------------ readers keep the state *)
Lemma rd_pop_raw_st s a s' : pop_raw s = ROk a s' -> st s' = st s.
Proof. unfold pop_raw. destruct (sp s =? 0); [discriminate|]. destruct (sp s <? scap s); [|discriminate]. intros H. injection H as <- <-. reflexivity. Qed.
Lemma rd_as_argc v s a s' : as_argc v s = ROk a s' -> s' = s.
Proof. destruct v; cbn [as_argc]; unfold ret, fail; intros H; try discriminate. now injection H. Qed.
Lemma rd_stack_get_offset o s a s' : stack_get_offset o s = ROk a s' -> s' = s.
Proof.
  unfold stack_get_offset, stack_get. destruct (Z.of_N (sp s) + o <? 0)%Z; [discriminate|].
  destruct (_ <? scap s); [|discriminate]. intros H. now injection H.
Qed.

(* ------------------------------------------------------------------ the callee *)
Definition crel (W : world) (c1 c2 : callee) : Prop :=
  match c1, c2 with
  | CLambda p1, CLambda p2 => ar W p1 p2
  | CDone, CDone => True
  | _, _ => False
  end.

Lemma sim_put_result W r1 r2 : vr W r1 r2 ->
  sim W vr (match r1 with VPtr _ => ret r1 | _ => hmaybe_put r1 end)
           (match r2 with VPtr _ => ret r2 | _ => hmaybe_put r2 end).
Proof.
  intros Hv. pose proof Hv as [-> L].
  destruct r1; cbn [vmap]; first [apply sim_ret, Hv | apply (sim_hmaybe_put _ _ _ Hv)].
Qed.

Lemma hmi_to_cell v : hmi (to_cell v).
Proof. unfold to_cell, as_cell, lift. hmi_same. Qed.
#[export] Hint Resolve hmi_to_cell : hmi.

Section Call.
Variable ob : N -> M vcell.

(* what is assumed of a builtin that is called: it is a simulation and keeps the heap invariant *)
Definition bsim (b : N) : Prop :=
  (forall W, sim W vr (run_builtin ob b) (run_builtin ob b)) /\ hmi (run_builtin ob b).

Definition call_ok (s : vm) : Prop :=
  forall target s', hderef (acc s) s = ROk target s' ->
    match target with
    | VClosure _ _ | VLambda _ => True
    | VBuiltin b => bsim b
    | VCont cid => cont_ok cid s
    | _ => False
    end.

Definition cont_rest (cid : N) : M callee :=
  dom a <- pop_raw; dom argc <- as_argc a;
  if argc =? 0 then fail E_OTHER else
  dom result <- pop_raw;
  dom _ <- restore_continuation cid;
  dom _ <- set_acc result;
  ret CDone.
Lemma simg_cont_rest W cid : wi W (PCont cid) -> simg W (cont_ok cid) crel (cont_rest cid) (cont_rest cid).
Proof.
  intros Hi. unfold cont_rest.
  eapply simg_bind_inv; [apply simg_of_sim, sim_pop_raw|hmi|intros; hmi| |].
  { intros s a s' g E k. rewrite (rd_pop_raw_st _ _ _ E). apply g. }
  intros W1 a1 a2 E1 Ha.
  eapply simg_bind_inv; [apply simg_of_sim, sim_as_argc, Ha|hmi|intros; hmi| |].
  { intros s a s' g E. rewrite (rd_as_argc _ _ _ _ E). exact g. }
  intros W2 n1 n2 E2 Hn. red in Hn. subst n2.
  destruct (n1 =? 0); [apply simg_of_sim, sim_fail|].
  eapply simg_bind_inv; [apply simg_of_sim, sim_pop_raw|hmi|intros; hmi| |].
  { intros s a s' g E k. rewrite (rd_pop_raw_st _ _ _ E). apply g. }
  intros W3 r1 r2 E3 Hr.
  eapply simg_bind; [apply simg_restore_continuation; eapply wi_x; [|exact Hi]; xt|hmi|intros; hmi|].
  intros W4 ? ? E4 _. apply simg_of_sim.
  sb ltac:(apply sim_set_acc; eapply vr_x; [|exact Hr]; xt). intros. apply sim_ret. exact I.
Qed.

Definition callee_tail (s : vm) (target : vcell) : M callee :=
  match target with
  | VClosure lam _ => ret (CLambda lam)
  | VLambda _ => dom p <- as_ptr (acc s); ret (CLambda p)
  | VBuiltin b =>
      dom r <- run_builtin ob b;
      dom r' <- (match r with VPtr _ => ret r | _ => hmaybe_put r end);
      dom _ <- set_acc r';
      ret CDone
  | VCont cid => cont_rest cid
  | other => dom c <- to_cell other; fail E_OTHER
  end.
Lemma resolve_callee_eq s : resolve_callee ob s = bindM (hderef (acc s)) (callee_tail s) s.
Proof. reflexivity. Qed.

Lemma simg_resolve_callee W : simg W call_ok crel (resolve_callee ob) (resolve_callee ob).
Proof.
  intros s1 s2 R g. rewrite !resolve_callee_eq.
  pose proof (rsim_hderef W gtrue _ _ (sr_acc _ _ _ R) s1 s2 R I) as H.
  unfold bindM.
  destruct (hderef (acc s1) s1) as [t1 s1'|e msg s1'| |] eqn:Eh; try exact I.
  2:{ destruct H as (-> & ->). intros _. exists s2, W. split; [reflexivity|]. split; [apply ext_refl|exact R]. }
  destruct H as (-> & t2 & -> & Ht). specialize (g t1 s1 Eh). destruct Ht as [-> Lt].
  destruct t1; cbn [vmap callee_tail]; try contradiction.
  - (* continuation *) apply (simg_cont_rest W cid); [apply (vlive_id _ _ _ Lt); now left|exact R|exact g].
  - (* closure *) refine (sim_outcome _ _ _ _ _ _ (sim_ret W crel _ _ _) R).
    split; [reflexivity|apply (vlive_addr _ _ _ Lt); now left].
  - (* lambda *) refine (sim_outcome _ _ _ _ _ _ _ R).
    sb ltac:(apply sim_as_ptr, (sr_acc _ _ _ R)). intros W1 p1 p2 E1 Hp. apply sim_ret, Hp.
  - (* builtin *) destruct g as [gs gm]. refine (sim_outcome _ _ _ _ _ _ _ R).
    sb ltac:(apply gs). intros W1 r1 r2 E1 Hr.
    sb ltac:(apply sim_put_result, Hr). intros W2 q1 q2 E2 Hq.
    sb ltac:(apply sim_set_acc, Hq). intros. apply sim_ret. exact I.
Qed.
Lemma hmi_resolve_callee : (forall b, hmi (run_builtin ob b)) -> hmi (resolve_callee ob).
Proof. intros Hb. unfold resolve_callee. hmi. Qed.
End Call.

(* ------------------------------------------------------------------ CALL: the new frame *)
Definition call_rest (lam : N) : M bool :=
  dom s <- get_vm;
  dom _ <- push (VEp (ep s));
  dom _ <- push (VIp (fst (ip s)) (snd (ip s)));
  dom _ <- set_ip (lam, 0); ret false.
Lemma vr_ep W a1 a2 : ar W a1 a2 -> vr W (VEp a1) (VEp a2).
Proof. intros [-> La]. split; [reflexivity|]. split; [|intros i []]. intros x [<-|[]]. exact La. Qed.
Lemma vr_ip W a1 a2 i : ar W a1 a2 -> vr W (VIp a1 i) (VIp a2 i).
Proof. intros [-> La]. split; [reflexivity|]. split; [|intros j []]. intros x [<-|[]]. exact La. Qed.
Lemma sim_call_rest W l1 l2 : ar W l1 l2 -> sim W eqr (call_rest l1) (call_rest l2).
Proof.
  intros Hl. unfold call_rest.
  sb ltac:(apply sim_get_vm). intros W1 x1 x2 E1 Hs.
  sb ltac:(apply sim_push, vr_ep, (sn_ep _ _ _ Hs)). intros W2 ? ? E2 _.
  destruct (sn_ip _ _ _ Hs) as [Hi1 Hi2]. rewrite Hi2.
  sb ltac:(apply sim_push, vr_ip; eapply ar_x; [|exact Hi1]; xt). intros W3 ? ? E3 _.
  sb ltac:(apply sim_set_ip; eapply ar_x; [|exact Hl]; xt). intros. apply sim_ret. reflexivity.
Qed.

(* ------------------------------------------------------------------ TCALL: the frame is reused *)
Lemma hmi_tcall_copy k : forall it, hmi (tcall_copy k it).
Proof. induction k as [|k IH]; intros it; cbn [tcall_copy]; hmi; try apply IH. Qed.
Lemma hmi_tcall_rebuild k : forall p, hmi (tcall_rebuild k p).
Proof. induction k as [|k IH]; intros p; cbn [tcall_rebuild]; hmi; try apply IH. Qed.
#[export] Hint Resolve hmi_tcall_copy hmi_tcall_rebuild : hmi.

Lemma sim_tcall_copy k : forall W it, sim W (@anyr unit unit) (tcall_copy k it) (tcall_copy k it).
Proof.
  induction k as [|k IH]; intros W it; cbn [tcall_copy]; [apply sim_ret; exact I|].
  sb ltac:(apply sim_stack_get_offset; lia). intros W1 v1 v2 E1 Hv.
  sb ltac:(apply sim_get_vm). intros W2 x1 x2 E2 Hs. rewrite (sn_bp _ _ _ Hs).
  sb ltac:(apply sim_usub). intros W3 d1 d2 E3 Hd. red in Hd. subst d2.
  sb ltac:(apply sim_stack_put; eapply vr_x; [|exact Hv]; xt). intros. apply IH.
Qed.
Lemma sim_tcall_rebuild k : forall W ssp, ssp <= wtop W -> sim W (@anyr unit unit) (tcall_rebuild k ssp) (tcall_rebuild k ssp).
Proof.
  induction k as [|k IH]; intros W ssp T; cbn [tcall_rebuild]; [apply sim_ret; exact I|].
  sb ltac:(apply sim_usub_le). intros W1 p1 p2 E1 [-> Hp].
  sb ltac:(apply sim_stack_get; pose proof (top_x _ _ _ E1 T); lia). intros W2 v1 v2 E2 Hv.
  sb ltac:(apply sim_push, Hv). intros W3 ? ? E3 _. apply IH.
  eapply top_x; [|exact T]. xt.
Qed.

Definition tcall_rest (lam argc : N) (s : vm) : M bool :=
  dom fa <- stack_get (bp s + 1); dom frame_argc <- as_argc fa;
  if argc =? frame_argc then
    dom saved_bp <- stack_get (bp s + 4);
    dom _ <- tcall_copy (N.to_nat argc) 0;
    dom _ <- set_sp (bp s + 3);
    dom b <- as_bp saved_bp; dom _ <- set_bp b;
    dom _ <- set_ip (lam, 0); ret false
  else
    let saved_sp := sp s in
    dom saved_ep <- stack_get (bp s + 2);
    dom saved_ip <- stack_get (bp s + 3);
    dom saved_bp <- stack_get (bp s + 4);
    dom nsp <- usub (bp s) frame_argc;
    dom _ <- set_sp nsp;
    dom _ <- tcall_rebuild (N.to_nat argc) saved_sp;
    dom _ <- push (VArgc argc);
    dom _ <- push saved_ep;
    dom _ <- push saved_ip;
    dom b <- as_bp saved_bp; dom _ <- set_bp b;
    dom _ <- set_ip (lam, 0); ret false.

Lemma sim_tcall_rest W l1 l2 argc x1 x2 : ar W l1 l2 -> snap W x1 x2 -> bp x1 + 4 <= sp x1 ->
  sim W eqr (tcall_rest l1 argc x1) (tcall_rest l2 argc x2).
Proof.
  intros Hl Hs Hf. unfold tcall_rest. rewrite (sn_bp _ _ _ Hs), (sn_sp _ _ _ Hs).
  pose proof (sn_top _ _ _ Hs) as T.
  sb ltac:(apply sim_stack_get; lia). intros W1 a1 a2 E1 Ha.
  sb ltac:(apply sim_as_argc, Ha). intros W2 n1 n2 E2 Hn. red in Hn. subst n2.
  assert (T2 : sp x1 <= wtop W2) by (eapply top_x; [|exact T]; xt).
  destruct (argc =? n1).
  - sb ltac:(apply sim_stack_get; lia). intros W3 b1 b2 E3 Hb.
    sb ltac:(apply sim_tcall_copy). intros W4 ? ? E4 _.
    assert (T4 : sp x1 <= wtop W4) by (eapply top_x; [|exact T2]; xt).
    sb ltac:(apply sim_set_sp; lia). intros W5 ? ? E5 _.
    sb ltac:(apply sim_as_bp; eapply vr_x; [|exact Hb]; xt). intros W6 c1 c2 E6 Hc. red in Hc. subst c2.
    sb ltac:(apply sim_set_bp). intros W7 ? ? E7 _.
    sb ltac:(apply sim_set_ip; eapply ar_x; [|exact Hl]; xt). intros. apply sim_ret. reflexivity.
  - sb ltac:(apply sim_stack_get; lia). intros W3 e1 e2 E3 He.
    assert (T3 : sp x1 <= wtop W3) by (eapply top_x; [|exact T2]; xt).
    sb ltac:(apply sim_stack_get; lia). intros W4 i1 i2 E4 Hi.
    assert (T4 : sp x1 <= wtop W4) by (eapply top_x; [|exact T3]; xt).
    sb ltac:(apply sim_stack_get; lia). intros W5 b1 b2 E5 Hb.
    sb ltac:(apply sim_usub_le). intros W6 p1 p2 E6 [-> Hp].
    assert (T6 : sp x1 <= wtop W6) by (eapply top_x; [|exact T4]; xt).
    sb ltac:(apply sim_set_sp; lia). intros W7 ? ? E7 _.
    sb ltac:(apply sim_tcall_rebuild; eapply top_x; [|exact T6]; xt). intros W8 ? ? E8 _.
    sb ltac:(apply sim_push, vr_argc). intros W9 ? ? E9 _.
    sb ltac:(apply sim_push; eapply vr_x; [|exact He]; xt). intros W10 ? ? E10 _.
    sb ltac:(apply sim_push; eapply vr_x; [|exact Hi]; xt). intros W11 ? ? E11 _.
    sb ltac:(apply sim_as_bp; eapply vr_x; [|exact Hb]; xt). intros W12 c1 c2 E12 Hc. red in Hc. subst c2.
    sb ltac:(apply sim_set_bp). intros W13 ? ? E13 _.
    sb ltac:(apply sim_set_ip; eapply ar_x; [|exact Hl]; xt). intros. apply sim_ret. reflexivity.
Qed.

Definition frame_ok (s : vm) : Prop := bp s + 4 <= sp s.
Lemma tcall_frame_eq lam :
  tcall_frame lam = (dom a <- stack_get_offset 0; dom argc <- as_argc a; dom s <- get_vm; tcall_rest lam argc s).
Proof. reflexivity. Qed.
Lemma hmi_tcall_rest l n s : hmi (tcall_rest l n s).
Proof. unfold tcall_rest. hmi. Qed.
Lemma hmi_tcall_frame l : hmi (tcall_frame l).
Proof. unfold tcall_frame. hmi. Qed.
#[export] Hint Resolve hmi_tcall_rest hmi_tcall_frame : hmi.

Lemma simg_tcall_frame W l1 l2 : ar W l1 l2 -> simg W frame_ok eqr (tcall_frame l1) (tcall_frame l2).
Proof.
  intros Hl. rewrite !tcall_frame_eq.
  eapply simg_bind_inv; [apply simg_of_sim, sim_stack_get_offset; lia|hmi|intros; hmi| |].
  { intros s a s' g E. rewrite (rd_stack_get_offset _ _ _ _ E). exact g. }
  intros W1 a1 a2 E1 Ha.
  eapply simg_bind_inv; [apply simg_of_sim, sim_as_argc, Ha|hmi|intros; hmi| |].
  { intros s a s' g E. rewrite (rd_as_argc _ _ _ _ E). exact g. }
  intros W2 n1 n2 E2 Hn. red in Hn. subst n2.
  eapply simg_bind; [apply rsim_simg, rsim_get_vm|hmi|intros; hmi|].
  intros W3 x1 x2 E3 (Hs & g & _). apply simg_of_sim.
  apply sim_tcall_rest; [eapply ar_x; [|exact Hl]; xt|eapply snap_ext; [exact E3|exact Hs]|exact g].
Qed.
