(* FlatPrims.v — C02: more primitives of the [pres]/[hoare] calculus of FlatProofs.v, shared
   by the proofs about the compiler (FlatCompile.v) and the library builtins
   (FlatListVec.v, FlatPkg.v): string and vector payloads, the typed poppers of
   builtin/mod.rs, [hset] on a PAIR cell (set-car!, set-cdr!, append), the conversion to a
   datum. *)
From Coq Require Import Lia List.
From MW Require Import Model.Base Model.F64 Model.Num Model.Datum Model.TransformDef Model.Transform
  Model.VmTypes Model.Heap Model.Gc Model.VmBase Model.Compile Model.Vm
  Proofs.GcProofs Proofs.SymtabProofs Proofs.VmProofs0 Proofs.TailProofs Proofs.ScopeProofs
  Proofs.EnvProofs Proofs.FlatProofs.
Open Scope N_scope.
Arguments N.add : simpl never.
Arguments N.sub : simpl never.
Arguments N.eqb : simpl never.
Arguments N.ltb : simpl never.
Arguments N.leb : simpl never.
Arguments N.mul : simpl never.

(* ------------------------------------------------------------------ Rc payloads *)
Lemma pres_str_get sid : pres (str_get sid) T.
Proof. intros s F _. unfold str_get. destruct (tget (strs (st s)) sid); cbn [post]; [split; [exact F|exact I]|exact I]. Qed.

Lemma pres_str_set sid t : pres (str_set sid t) T.
Proof.
  intros s F _. unfold str_set. cbn [post]. split; [|exact I].
  apply finv_store_upd; [exact F|reflexivity|apply N.le_refl|apply (fi_code s F)|apply (fi_vecs s F)|apply (fi_conts s F)].
Qed.

Lemma pres_str_new t : pres (str_new t) no_lexptr.
Proof.
  intros s F _. unfold str_new. cbn [new_str post]. split; [|exact I].
  apply finv_store_upd; [exact F|reflexivity|cbn [next_id]; lia|apply (fi_code s F)|apply (fi_vecs s F)|apply (fi_conts s F)].
Qed.

Definition clean_list (l : list vcell) : Prop := forall i v, list_get l i = Some v -> no_lexptr v.

Lemma clean_list_Forall l : clean_list l <-> Forall no_lexptr l.
Proof.
  unfold clean_list, list_get. split.
  - intros H. apply Forall_forall. intros v Hin. apply In_nth_error in Hin as [n Hn].
    apply (H (N.of_nat n)). rewrite Nat2N.id. exact Hn.
  - intros H i v Hi. apply nth_error_In in Hi. rewrite Forall_forall in H. auto.
Qed.
Lemma clean_nil : clean_list [].
Proof. apply clean_list_Forall. constructor. Qed.
Lemma clean_cons v l : no_lexptr v -> clean_list l -> clean_list (v :: l).
Proof. rewrite !clean_list_Forall. intros. constructor; assumption. Qed.
Lemma clean_cons_inv v l : clean_list (v :: l) -> no_lexptr v /\ clean_list l.
Proof. rewrite !clean_list_Forall. intros H. inversion H; auto. Qed.
Lemma clean_app a b : clean_list a -> clean_list b -> clean_list (a ++ b).
Proof. rewrite !clean_list_Forall. intros. apply Forall_app. auto. Qed.
Lemma clean_rev l : clean_list l -> clean_list (rev l).
Proof. rewrite !clean_list_Forall. apply Forall_rev. Qed.
Lemma clean_repeat v n : no_lexptr v -> clean_list (repeat v n).
Proof. rewrite clean_list_Forall. intros Hv. apply Forall_forall. intros x Hx. apply repeat_spec in Hx. subst x. exact Hv. Qed.
Lemma clean_map_const {A} (v : vcell) (l : list A) : no_lexptr v -> clean_list (map (fun _ => v) l).
Proof. rewrite clean_list_Forall. intros Hv. apply Forall_forall. intros x Hx. apply in_map_iff in Hx as (_ & <- & _). exact Hv. Qed.
Lemma clean_map {A} (f : A -> vcell) (l : list A) : (forall a, no_lexptr (f a)) -> clean_list (map f l).
Proof. rewrite clean_list_Forall. intros Hv. apply Forall_forall. intros x Hx. apply in_map_iff in Hx as (a & <- & _). apply Hv. Qed.
Lemma clean_list_set l i v : clean_list l -> no_lexptr v -> clean_list (list_set l i v).
Proof.
  intros Hl Hv j w H. rewrite list_get_set in H. destruct (i =? j).
  - destruct (list_get l j); [injection H as <-; exact Hv|discriminate].
  - exact (Hl j w H).
Qed.
Lemma clean_get l i v : clean_list l -> list_get l i = Some v -> no_lexptr v.
Proof. intros H. apply H. Qed.
Lemma clean_sublist l l' : clean_list l -> (forall v, In v l' -> In v l) -> clean_list l'.
Proof. rewrite !clean_list_Forall, !Forall_forall. auto. Qed.

Lemma pres_vec_get' vid : pres (vec_get vid) clean_list.
Proof. apply pres_vec_get. Qed.
Lemma pres_vec_set' vid l : clean_list l -> pres (vec_set vid l) T.
Proof. apply pres_vec_set. Qed.

Lemma pres_vec_new l : clean_list l -> pres (vec_new l) no_lexptr.
Proof.
  intros Hl s F _. unfold vec_new. cbn [new_vec post]. split; [|exact I].
  apply finv_store_upd; [exact F|reflexivity|cbn [next_id]; lia|apply (fi_code s F)| |apply (fi_conts s F)].
  intros vid l0 i v E. cbn [vecs] in E. rewrite tget_tset in E.
  destruct (next_id (st s) =? vid); [injection E as <-; apply Hl|revert E; apply (fi_vecs s F)].
Qed.

(* ------------------------------------------------------------------ poppers *)
Lemma pres_pop_value : pres pop_value no_lexptr.
Proof. apply pres_pop_deref. Qed.
Lemma pres_pop_number : pres pop_number T.
Proof. unfold pop_number. eapply pres_bind; [apply pres_pop_value|intros v _]. destruct v; first [apply pres_fail|apply pres_ret; exact I]. Qed.
Lemma pres_pop_char : pres pop_char T.
Proof. unfold pop_char. eapply pres_bind; [apply pres_pop_value|intros v _]. destruct v; first [apply pres_fail|apply pres_ret; exact I]. Qed.
Lemma pres_pop_string : pres pop_string T.
Proof. unfold pop_string. eapply pres_bind; [apply pres_pop_value|intros v _]. destruct v; first [apply pres_fail|apply pres_ret; exact I]. Qed.
Lemma pres_pop_symbol : pres pop_symbol T.
Proof. unfold pop_symbol. eapply pres_bind; [apply pres_pop_value|intros v _]. destruct v; first [apply pres_fail|apply pres_ret; exact I]. Qed.
Lemma pres_pop_vector : pres pop_vector T.
Proof. unfold pop_vector. eapply pres_bind; [apply pres_pop_value|intros v _]. destruct v; first [apply pres_fail|apply pres_ret; exact I]. Qed.

Lemma pres_lift {A} (o : out A) : pres (lift o) T.
Proof. apply pres_pure, pure_lift. Qed.
Lemma pure_as_cell bn f v : pure (as_cell bn f v).
Proof. intros s. unfold as_cell. apply pure_lift. Qed.
Lemma pres_as_cell bn f v : pres (as_cell bn f v) T.
Proof. apply pres_pure, pure_as_cell. Qed.
Lemma pres_to_cell v : pres (to_cell v) T.
Proof. apply pres_pure, pure_to_cell. Qed.
Lemma pres_as_argc v : pres (as_argc v) T.
Proof. apply pres_pure, pure_as_argc. Qed.
Lemma pres_as_ptr v : pres (as_ptr v) T.
Proof. apply pres_pure, pure_as_ptr. Qed.
Lemma pres_nofuel {A} (Q : A -> Prop) : pres (fun _ => RNoFuel) Q.
Proof. intros s F _. exact I. Qed.

(* any [M]-computation that ignores its result type: a value-level (pure [out]) function *)
Lemma pres_out {A} (o : out A) (k : A -> M vcell) (Q : vcell -> Prop) :
  (forall a, pres (k a) Q) ->
  pres (match o with Ok a => k a | Err e => fail e | Panic j => panic j | NoFuel => fun _ => RNoFuel end) Q.
Proof. intros H. destruct o; [apply H|apply pres_fail|apply pres_panic|apply pres_nofuel]. Qed.

(* ------------------------------------------------------------------ hset on a pair cell *)
(* set-car!/set-cdr!/append overwrite a cell that holds a PAIR with another pair: no
   environment object (a VLexEnv cell) and no interned symbol is touched *)
Lemma finv_heap_set_pair s p a d x y :
  finv s -> p < hlen (hp s) -> cell_at (hp s) p = VPair a d ->
  finv (with_heap s (mk_heap (tset (cells (hp s)) p (VPair x y)) (hlen (hp s)) (free_list (hp s))
                             (gcmap (hp s)) (symtab (hp s)) (chunk (hp s)))).
Proof.
  intros F L C. pose proof F as [Li F1 F2 F3 F4 F5]. pose proof Li as [I1 I2 I3 I4 I5].
  set (h' := mk_heap _ _ _ _ _ _).
  assert (NF : g_get (gcmap (hp s)) p <> GFree).
  { intros G. apply (hi_free_undef _ I1) in G. congruence. }
  assert (HI' : heap_inv h').
  { apply heap_inv_store; try assumption; intros n; congruence. }
  constructor; cbn [hp st g_slots with_heap]; try assumption.
  - apply (lex_inv_mem s); cbn [hp st acc with_heap]; try assumption.
    + intros q [eid l] Hq. apply env_at_some in Hq as (Lq & Cq & E). apply env_at_some.
      cbn [hp st with_heap]. split; [exact Lq|]. split; [|exact E].
      unfold h'. rewrite cell_at_set. destruct (N.eqb_spec q p) as [->|_]; [congruence|exact Cq].
    + intros eid l k w E Hk. right. eauto.
  - intros b. unfold h'. rewrite cell_at_set. destruct (b =? p); [exact I|apply F1].
Qed.

Lemma hset_pair_post s p x y a d :
  finv s -> heap_get (hp s) p = Ok (VPair a d) -> post (hset p (VPair x y) s) (fun _ _ => True).
Proof.
  intros F H. apply heap_get_ok in H as (L & C). unfold hset, heap_set.
  apply N.ltb_lt in L. rewrite L. apply N.ltb_lt in L. cbn [post]. split; [|exact I].
  exact (finv_heap_set_pair s p a d x y F L C).
Qed.

Lemma hoare_hset_pair p x y :
  hoare (fun s => exists a d, heap_get (hp s) p = Ok (VPair a d)) (hset p (VPair x y)) (fun _ _ => True).
Proof. intros s F (a & d & H). exact (hset_pair_post s p x y a d F H). Qed.

(* the usual shape: [pv] was read through the pointer [pr] in the CURRENT state *)
Lemma hset_after_hderef s pr pp a d x y :
  finv s -> hderef pr s = ROk (VPair a d) s -> as_ptr pr s = ROk pp s ->
  post (hset pp (VPair x y) s) (fun _ _ => True).
Proof.
  intros F Hd Hp. destruct pr; try discriminate Hp. injection Hp as <-.
  unfold hderef in Hd. apply lift_ok in Hd as (Hd & _). cbn [heap_deref] in Hd.
  exact (hset_pair_post s p x y a d F Hd).
Qed.

(* a pure computation followed by a continuation that may use what was read *)
Lemma pres_read {A B} (m : M A) (f : A -> M B) (R : B -> Prop) :
  pure m -> (forall s a, finv s -> m s = ROk a s -> post (f a s) (fun b _ => R b)) -> pres (bindM m f) R.
Proof. apply pres_pure_bind. Qed.
(* the same inside a [post] goal (state fixed) *)
Lemma post_read {A B} (m : M A) (f : A -> M B) (R : B -> Prop) s :
  pure m -> finv s -> (forall a, m s = ROk a s -> post (f a s) (fun b _ => R b)) ->
  post (bindM m f s) (fun b _ => R b).
Proof. intros Hp F H. apply post_pure_bind; assumption. Qed.
(* a state-changing step inside a [post] goal *)
Lemma post_bind {A B} (m : M A) (Q : A -> Prop) (f : A -> M B) (R : B -> Prop) s :
  finv s -> pres m Q -> (forall a, Q a -> pres (f a) R) -> post (bindM m f s) (fun b _ => R b).
Proof. intros F Hm Hf. exact (pres_bind m Q f R Hm Hf s F I). Qed.
Lemma post_step {A B} (m : M A) (f : A -> M B) (R : B -> Prop) s :
  finv s -> post (m s) (fun _ _ => True) -> (forall a, pres (f a) R) -> post (bindM m f s) (fun b _ => R b).
Proof.
  intros F Hm Hf. unfold bindM. destruct (m s) as [a s1|e msg s1|k|]; cbn [post] in *; auto.
  destruct Hm as [F1 _]. exact (Hf a s1 F1 I).
Qed.
