(* CompileCorrect.v — C01: semantic correctness of the compiler + VM for a FRAGMENT of the
   language, proved by induction over all expressions of the fragment (arbitrary nesting):

     e ::= c                      self-evaluating datum (boolean, character, number, string, vector)
         | (quote d)              any datum with a heap representation
         | (if e e e) | (if e e)
         | x                      global variable
         | (define x e) | (set! x e)      global
         | (e0 e1 ... en)         application whose operator evaluates to a builtin procedure

   against a big-step reference semantics [ref_eval] (left-to-right operands, then the
   operator; global environment threaded through).  The statement is about the model of
   the real pipeline: Compile.compile_expression (bytecode emitted into a lambda under
   construction, JNT/JMP operands patched afterwards), Vm.run_one iterated, and finally
   Vm.eval (compile_runnable, put_lambda, the CALL/ENTER/RET/HALT wrapper).

   Builtins are abstract: [builtin_ok ob bsem b] says that builtin b, run on a stack holding
   n argument values and Argc n, pops them, extends heap and store only, and returns a
   value representing [bsem b args]; it is PROVED below for the real builtin `not`
   (builtin_ok_not) and holds for every table with the empty specification.

   Main results: compile_correct (induction over the fragment, code-placement form),
   eval_fragment (Vm::eval reaches HALT with the reference value in %acc and sp/bp/ep
   restored), halt_result_done (the final get_as_cell).                                  *)
From Coq Require Import String Lia FMapPositive.
From MW Require Import Model.Base Model.F64 Model.Num Model.Datum Model.TransformDef Model.Transform
  Model.VmTypes Model.Heap Model.Gc Model.VmBase Model.Compile Model.Vm
  Proofs.VmProofs0 Proofs.GcProofs Proofs.SymtabProofs Proofs.QuoteHeapProofs
  Proofs.CompileProofs Proofs.RunProofs.
Open Scope N_scope.

Arguments N.add : simpl never.
Arguments N.sub : simpl never.
Arguments N.mul : simpl never.
Arguments N.eqb : simpl never.
Arguments N.ltb : simpl never.
Arguments N.leb : simpl never.

(* ====================================================================== lists *)
Lemma len_nil {A} : len (@nil A) = 0.
Proof. reflexivity. Qed.
Lemma len_cons {A} (x : A) l : len (x :: l) = len l + 1.
Proof. unfold len. cbn [length]. lia. Qed.
Lemma len_app {A} (a b : list A) : len (a ++ b) = len a + len b.
Proof. unfold len. rewrite app_length. lia. Qed.
Lemma len_rev {A} (a : list A) : len (rev a) = len a.
Proof. unfold len. rewrite rev_length. reflexivity. Qed.
Ltac lens := repeat first [rewrite len_app | rewrite len_cons | rewrite len_nil].

Lemma list_get_app_r {A} (a b : list A) i : list_get (a ++ b) (len a + i) = list_get b i.
Proof.
  unfold list_get, len. replace (N.to_nat (N.of_nat (length a) + i)) with (length a + N.to_nat i)%nat by lia.
  rewrite nth_error_app2 by lia. f_equal. lia.
Qed.
Lemma list_get_app_l {A} (a b : list A) i : i < len a -> list_get (a ++ b) i = list_get a i.
Proof. unfold list_get, len. intros H. apply nth_error_app1. lia. Qed.
Lemma list_get_0 {A} (x : A) l : list_get (x :: l) 0 = Some x.
Proof. reflexivity. Qed.

Lemma list_set_app_mid {A} (a b : list A) x v k : k = len a -> list_set (a ++ x :: b) k v = a ++ v :: b.
Proof.
  intros ->. unfold list_set, len. rewrite Nat2N.id.
  induction a as [|y a IH]; cbn [app length list_set_nat]; [reflexivity|]. rewrite IH. reflexivity.
Qed.
Lemma list_set_len {A} (l : list A) k v : len (list_set l k v) = len l.
Proof.
  unfold list_set, len. f_equal. generalize (N.to_nat k) as n. clear k.
  induction l as [|x l IH]; intros [|n]; cbn [list_set_nat length]; auto.
Qed.
Lemma list_get_set_same {A} (l : list A) k v : k < len l -> list_get (list_set l k v) k = Some v.
Proof.
  unfold list_set, list_get, len. intros H. assert (H' : (N.to_nat k < length l)%nat) by lia. clear H.
  revert H'. generalize (N.to_nat k) as n. clear k.
  induction l as [|x l IH]; intros [|n] H; cbn [list_set_nat length nth_error] in *; try lia; auto.
  apply IH. lia.
Qed.
Lemma list_get_set_other {A} (l : list A) k j v : k <> j -> list_get (list_set l k v) j = list_get l j.
Proof.
  unfold list_set, list_get. intros H. assert (H' : N.to_nat k <> N.to_nat j) by lia. clear H.
  revert H'. generalize (N.to_nat k) as n. generalize (N.to_nat j) as m. clear k j.
  induction l as [|x l IH]; intros [|m] [|n] H; cbn [list_set_nat nth_error] in *; try congruence; auto.
Qed.

(* ================================================================= code segments *)
(* the bytecode of a lambda under construction is kept reversed; [fwd] is the code in
   execution order *)
Definition fwd (l : lambda) : list vcell := rev (l_bc l).
Definition same_hdr (l l' : lambda) : Prop :=
  l_top l' = l_top l /\ l_vararg l' = l_vararg l /\ l_envmap l' = l_envmap l /\ l_args l' = l_args l
  /\ l_desc l' = l_desc l.

Lemma same_hdr_refl l : same_hdr l l.
Proof. repeat split. Qed.
Lemma same_hdr_trans a b c : same_hdr a b -> same_hdr b c -> same_hdr a c.
Proof. unfold same_hdr. intuition congruence. Qed.

Lemma fwd_emit l v : fwd (emit l v) = fwd l ++ [v].
Proof. reflexivity. Qed.
Lemma fwd_emit_op l o : fwd (emit_op l o) = fwd l ++ [VOp o].
Proof. reflexivity. Qed.
Lemma bc_len_fwd l : bc_len l = len (fwd l).
Proof. unfold bc_len, fwd. rewrite len_rev. reflexivity. Qed.
Lemma same_hdr_emit l v : same_hdr l (emit l v).
Proof. repeat split. Qed.
Lemma same_hdr_patch l i v : same_hdr l (bc_patch l i v).
Proof. repeat split. Qed.

Lemma rev_list_set_nat {A} (F : list A) i v : (i < length F)%nat ->
  rev (list_set_nat (rev F) (length F - 1 - i) v) = list_set_nat F i v.
Proof.
  revert i. induction F as [|x F IH]; intros i H; cbn [length] in H; [lia|].
  cbn [rev]. destruct i as [|i].
  - replace (length (x :: F) - 1 - 0)%nat with (length (rev F)) by (rewrite rev_length; cbn [length]; lia).
    assert (E : forall (a : list A) y w, list_set_nat (a ++ [y]) (length a) w = a ++ [w])
      by (induction a as [|z a IHa]; intros; cbn [app length list_set_nat]; [reflexivity|rewrite IHa; reflexivity]).
    rewrite E, rev_app_distr, rev_involutive. reflexivity.
  - cbn [length list_set_nat].
    replace (S (length F) - 1 - S i)%nat with (length F - 1 - i)%nat by lia.
    assert (E : forall (a : list A) y k w, (k < length a)%nat ->
                  list_set_nat (a ++ [y]) k w = list_set_nat a k w ++ [y]).
    { induction a as [|z a IHa]; intros y k w Hk; cbn [length] in Hk; [lia|].
      destruct k; cbn [app list_set_nat]; [reflexivity|]. rewrite IHa by lia. reflexivity. }
    rewrite E by (rewrite rev_length; lia). rewrite rev_app_distr. cbn [rev app]. rewrite IH by lia. reflexivity.
Qed.

Lemma fwd_patch l i v : i < bc_len l -> fwd (bc_patch l i v) = list_set (fwd l) i v.
Proof.
  intros H. unfold fwd, bc_patch, bc_len, list_set, len in *. cbn [l_bc].
  rewrite <- (rev_involutive (l_bc l)) at 1.
  replace (N.to_nat (N.of_nat (length (l_bc l)) - 1 - i)) with (length (rev (l_bc l)) - 1 - N.to_nat i)%nat
    by (rewrite rev_length; lia).
  apply rev_list_set_nat. rewrite rev_length. lia.
Qed.

(* [seg bc p code]: the instructions [code] occupy positions [p, p + len code) of bc *)
Definition seg (bc : list vcell) (p : N) (code : list vcell) : Prop :=
  exists pre post, bc = pre ++ code ++ post /\ len pre = p.

Lemma seg_app bc p a b : seg bc p (a ++ b) -> seg bc p a /\ seg bc (p + len a) b.
Proof.
  intros (pre & post & -> & <-). split.
  - exists pre, (b ++ post). rewrite <- app_assoc. auto.
  - exists (pre ++ a), post. rewrite len_app, <- !app_assoc. auto.
Qed.
Lemma seg_head bc p x r : seg bc p (x :: r) -> list_get bc p = Some x /\ seg bc (p + 1) r.
Proof.
  intros H. change (x :: r) with ([x] ++ r) in H. apply seg_app in H as [(pre & post & -> & <-) H2].
  split; [|exact H2]. rewrite <- (N.add_0_r (len pre)), list_get_app_r. reflexivity.
Qed.

(* ============================================================ machine extension *)
(* what compilation and the execution of fragment code do to the machine: heap and Rc
   tables only grow, global bindings only grow *)
Record cext (s s' : vm) : Prop := {
  ce_heap : hext (hp s) (hp s');
  ce_store : sext (st s) (st s');
  ce_lams : forall i, i < next_id (st s) -> tget (lams (st s')) i = tget (lams (st s)) i;
  ce_bind : forall a k, assoc_find (g_bind s) a = Some k -> assoc_find (g_bind s') a = Some k;
  ce_slots : len (g_slots s) <= len (g_slots s')
}.

Lemma hext_refl h : hext h h.
Proof. intros q Hq; auto. Qed.
Lemma hext_trans h1 h2 h3 : hext h1 h2 -> hext h2 h3 -> hext h1 h3.
Proof.
  intros H1 H2 q Hq. destruct (H1 q Hq) as [A1 C1]. destruct (H2 q A1) as [A2 C2]. split; [assumption|congruence].
Qed.
Lemma sext_refl s : sext s s.
Proof. split; [lia|auto]. Qed.
Lemma sext_trans s1 s2 s3 : sext s1 s2 -> sext s2 s3 -> sext s1 s3.
Proof.
  intros [N1 S1] [N2 S2]. split; [lia|]. intros i Hi. destruct (S1 i Hi) as [E1 E2].
  destruct (S2 i ltac:(lia)) as [E3 E4]. split; congruence.
Qed.

Lemma cext_refl s : cext s s.
Proof. constructor; auto using hext_refl, sext_refl. lia. Qed.
Lemma cext_trans s1 s2 s3 : cext s1 s2 -> cext s2 s3 -> cext s1 s3.
Proof.
  intros [H1 S1 L1 B1 G1] [H2 S2 L2 B2 G2]. constructor.
  - eapply hext_trans; eassumption.
  - eapply sext_trans; eassumption.
  - intros i Hi. rewrite L2, L1; auto. destruct S1; lia.
  - auto.
  - lia.
Qed.
(* a state that differs in registers / stack / slot VALUES only *)
Lemma cext_same s s' : hp s' = hp s -> st s' = st s -> g_bind s' = g_bind s ->
  len (g_slots s) <= len (g_slots s') -> cext s s'.
Proof.
  intros Eh Es Eb Hl. constructor; rewrite ?Eh, ?Es, ?Eb; auto using hext_refl, sext_refl.
Qed.
Lemma cext_ext s s' : cext s s' -> ext (hp s) (st s) (hp s') (st s').
Proof. intros [H S _ _ _]. split; assumption. Qed.

(* compilation does not touch the registers, the stack or the output *)
Definition same_regs (s s' : vm) : Prop :=
  sp s' = sp s /\ bp s' = bp s /\ ep s' = ep s /\ scap s' = scap s /\ stack s' = stack s /\
  out_log s' = out_log s /\ exists more, g_slots s' = g_slots s ++ more.
Lemma same_regs_refl s : same_regs s s.
Proof. repeat split. exists []. rewrite app_nil_r. reflexivity. Qed.
Lemma same_regs_trans a b c : same_regs a b -> same_regs b c -> same_regs a c.
Proof.
  intros (A1 & A2 & A3 & A4 & A5 & A6 & m1 & A7) (B1 & B2 & B3 & B4 & B5 & B6 & m2 & B7).
  repeat split; try congruence. exists (m1 ++ m2). rewrite B7, A7, app_assoc. reflexivity.
Qed.
Lemma same_regs_gslots s s' : g_slots s' = g_slots s -> sp s' = sp s -> bp s' = bp s -> ep s' = ep s ->
  scap s' = scap s -> stack s' = stack s -> out_log s' = out_log s -> same_regs s s'.
Proof. intros G. repeat split; auto. exists []. rewrite app_nil_r. exact G. Qed.

(* ============================================================ values *)
(* the value domain of the reference semantics: data, and builtin procedures (a datum
   cannot tell which procedure it stands for) *)
Inductive rval := RDatum (c : cell) | RBuiltin (b : N).

Definition rcell (r : rval) : cell :=
  match r with RDatum c => c | RBuiltin b => CProc (Some (builtin_name b)) end.

(* [vrep v r h s]: the machine value v represents r on heap h / store s and on every
   extension of them.  A value is read through AT MOST ONE pointer (what Heap::get does
   in JNT and CALL). *)
Definition one_ptr (v : vcell) (h : heap) : Prop :=
  forall p, v = VPtr p -> allocated h p /\ forall q, cell_at h p <> VPtr q.
Definition vrep (v : vcell) (r : rval) (h : heap) (s : store) : Prop :=
  match r with
  | RDatum c => reads builtin_name v c h s /\ one_ptr v h
  | RBuiltin b => exists p, v = VPtr p /\ allocated h p /\ cell_at h p = VBuiltin b
  end.

Lemma vrep_ext v r h s h' s' : vrep v r h s -> ext h s h' s' -> vrep v r h' s'.
Proof.
  destruct r as [c|b]; cbn [vrep].
  - intros [R O] E. split; [eapply reads_ext; eassumption|].
    intros p ->. destruct (O p eq_refl) as [A C]. destruct E as [He _]. destruct (He p A) as [A' C'].
    split; [exact A'|]. intros q. rewrite C'. apply C.
  - intros (p & -> & A & C) [He _]. destruct (He p A) as [A' C']. exists p. repeat split; try apply A'. congruence.
Qed.

(* what the cell read through one pointer is *)
Lemma vrep_deref v r h s : vrep v r h s ->
  exists w, heap_deref h v = Ok w /\ (forall q, w <> VPtr q) /\
    match r with
    | RDatum c => exists n, forall f, (n <= f)%nat -> get_as_cell builtin_name h s f w = Ok c
    | RBuiltin b => w = VBuiltin b
    end.
Proof.
  destruct r as [c|b]; cbn [vrep].
  - intros [R O].
    assert (Hcase : (exists p, v = VPtr p) \/ (forall p, v <> VPtr p))
      by (destruct v; try (right; discriminate); left; eauto).
    destruct Hcase as [[p ->]|Hnp].
    + destruct (O p eq_refl) as [A C]. exists (cell_at h p). cbn [heap_deref].
      split; [apply heap_get_alloc; exact A|]. split; [exact C|].
      destruct (reads_ptr_inv builtin_name p c h s R h s (ext_refl h s)) as (dv & n & Hg & Hn).
      rewrite (heap_get_alloc h p A) in Hg. injection Hg as <-. exists n. exact Hn.
    + exists v. split; [destruct v; try reflexivity; exfalso; eapply Hnp; reflexivity|].
      split; [exact Hnp|]. destruct (R h s (ext_refl h s)) as [n Hn]. exists n. exact Hn.
  - intros (p & -> & A & C). exists (VBuiltin b). cbn [heap_deref]. rewrite (heap_get_alloc h p A), C.
    split; [reflexivity|]. split; [discriminate|reflexivity].
Qed.

Definition is_false (r : rval) : bool :=
  match r with RDatum (CBool false) => true | _ => false end.

Lemma gac_bool h s n w b : (forall q, w <> VPtr q) ->
  get_as_cell builtin_name h s (S n) w = Ok (CBool b) -> w = VBool b.
Proof.
  intros Hnp H1. destruct w; cbn [get_as_cell] in H1; try discriminate; try congruence;
    try (exfalso; eapply Hnp; reflexivity);
    repeat match type of H1 with
           | (do _ <- ?X; _) = _ => destruct X; cbn [bind] in H1; try discriminate
           | match ?X with _ => _ end = _ => destruct X; try discriminate
           end.
Qed.

(* JNT looks at the cell behind at most one pointer: it is #f exactly for the value #f *)
Lemma vrep_truth v r h s : vrep v r h s ->
  exists w, heap_deref h v = Ok w /\ (w = VBool false <-> is_false r = true).
Proof.
  intros H. destruct (vrep_deref v r h s H) as (w & Hd & Hnp & Hr). exists w. split; [exact Hd|].
  destruct r as [c|b].
  - destruct Hr as [n Hn]. pose proof (Hn (S n) ltac:(lia)) as H1. split.
    + intros ->. cbn [get_as_cell] in H1. injection H1 as <-. reflexivity.
    + intros Hf. assert (c = CBool false) as -> by (destruct c; try discriminate; destruct b; [discriminate|reflexivity]).
      eapply gac_bool; eassumption.
  - subst w. cbn [is_false]. split; discriminate.
Qed.

Lemma vrep_not_op v r h s : vrep v r h s -> forall o, v <> VOp o.
Proof.
  intros H o ->. destruct r as [c|b]; cbn [vrep] in H.
  - destruct H as [R _]. destruct (R h s (ext_refl h s)) as [n Hn]. specialize (Hn (S n) ltac:(lia)). discriminate.
  - destruct H as (p & E & _). discriminate.
Qed.

Lemma vrep_not_undef v r h s : vrep v r h s -> r <> RDatum CUndef -> v <> VUndef.
Proof.
  intros H Hr ->. destruct r as [c|b]; cbn [vrep] in H.
  - destruct H as [R _]. destruct (R h s (ext_refl h s)) as [n Hn]. specialize (Hn (S n) ltac:(lia)).
    cbn in Hn. injection Hn as <-. congruence.
  - destruct H as (p & E & _). discriminate.
Qed.

(* the result of a builtin is boxed by Heap::maybe_put unless it is a pointer already
   (run.rs:160-166) *)
Lemma vrep_box v r h s v' h' : heap_inv h -> vrep v r h s ->
  (match v with VPtr _ => (v, h) | _ => heap_maybe_put h v end) = (v', h') ->
  heap_inv h' /\ hext h h' /\ vrep v' r h' s.
Proof.
  intros HI H E.
  assert (Hsame : (v', h') = (v, h) -> heap_inv h' /\ hext h h' /\ vrep v' r h' s)
    by (intros [= -> ->]; split; [assumption|split; [apply hext_refl|assumption]]).
  destruct r as [c|b].
  - destruct H as [R O].
    destruct v; cbn [heap_maybe_put] in E; try (apply Hsame; congruence);
    match type of E with heap_put ?hh ?vv = _ =>
      destruct (heap_put_frame hh vv v' h' HI E ltac:(discriminate)) as (a & -> & A & C & HI' & Fr);
      (split; [exact HI'|]); (split; [exact Fr|]); split;
      [apply (reads_ptr builtin_name a vv); [exact A|exact C|];
       eapply reads_ext; [exact R|apply ext_heap, Fr]
      |intros pp [= <-]; split; [exact A|rewrite C; discriminate]]
    end.
  - destruct H as (p & -> & A & C). apply Hsame. congruence.
Qed.

(* ============================================================ the result of put_cell *)
Lemma mpc_one_ptr c : forall h s v h' s', heap_inv h -> maybe_put_cell h s c = Ok (v, h', s') -> one_ptr v h'.
Proof.
  intros h s v h' s' HI H p ->.
  destruct c; cbn [maybe_put_cell] in H; try discriminate.
  - (* pair *)
    destruct (maybe_put_cell h s c1) as [[[va h1] s1]| | |] eqn:E1; cbn [bind] in H; try discriminate.
    pose proof (heap_inv_maybe_put_cell _ _ _ _ _ _ HI E1) as HI1.
    destruct (match va with VPtr _ => (va, h1) | _ => heap_put h1 va end) as [pa h2] eqn:E2.
    assert (HI2 : heap_inv h2).
    { destruct va; try (eapply heap_inv_put; [exact HI1|exact E2]). injection E2 as <- <-. exact HI1. }
    destruct (maybe_put_cell h2 s1 c2) as [[[vd h3] s3]| | |] eqn:E3; cbn [bind] in H; try discriminate.
    pose proof (heap_inv_maybe_put_cell _ _ _ _ _ _ HI2 E3) as HI3.
    destruct (match vd with VPtr _ => (vd, h3) | _ => heap_put h3 vd end) as [pd h4] eqn:E4.
    assert (HI4 : heap_inv h4).
    { destruct vd; try (eapply heap_inv_put; [exact HI3|exact E4]). injection E4 as <- <-. exact HI3. }
    destruct pa; try discriminate. destruct pd; try discriminate.
    destruct (heap_put h4 (VPair p0 p1)) as [r h5] eqn:E5. injection H as -> <- <-.
    destruct (heap_put_frame h4 _ _ _ HI4 E5 ltac:(discriminate)) as (a & [= <-] & A & C & _).
    split; [exact A|rewrite C; discriminate].
  - (* string *)
    destruct (new_str s s0) as [sid s1]. destruct (heap_put h (VStr sid)) as [r h1] eqn:E. injection H as -> <- <-.
    destruct (heap_put_frame h _ _ _ HI E ltac:(discriminate)) as (a & [= <-] & A & C & _).
    split; [exact A|rewrite C; discriminate].
  - (* symbol *)
    destruct (heap_put h (VSym s0)) as [r h1] eqn:E. injection H as -> <- <-.
    destruct (heap_put_frame h _ _ _ HI E ltac:(discriminate)) as (a & [= <-] & A & C & _).
    split; [exact A|rewrite C; discriminate].
  - (* vector *)
    fold elems_of in H.
    destruct (elems_of h s l []) as [[[vs h1] s1]| | |] eqn:E1; cbn [bind] in H; try discriminate.
    assert (HI1 : heap_inv h1).
    { clear H. revert h s HI vs h1 s1 E1. generalize (@nil vcell).
      induction l as [|x l IH]; intros acc h s HI vs h1 s1 E1; cbn [elems_of] in E1.
      - injection E1 as _ <- _. exact HI.
      - destruct (maybe_put_cell h s x) as [[[vx hx] sx]| | |] eqn:Ex; cbn [bind] in E1; try discriminate.
        eapply IH; [|exact E1]. eapply heap_inv_maybe_put_cell; eassumption. }
    destruct (new_vec s1 vs) as [vid s2]. destruct (heap_put h1 (VVec vid)) as [r h2] eqn:E. injection H as -> <- <-.
    destruct (heap_put_frame h1 _ _ _ HI1 E ltac:(discriminate)) as (a & [= <-] & A & C & _).
    split; [exact A|rewrite C; discriminate].
Qed.

(* storing a datum: the operand represents it *)
Lemma maybe_put_cell_vrep d h s : heap_datum d -> heap_inv h ->
  exists v h' s', maybe_put_cell h s d = Ok (v, h', s') /\ heap_inv h' /\ ext h s h' s' /\
    vrep v (RDatum d) h' s'.
Proof.
  intros Hd HI. destruct (maybe_put_cell_reads builtin_name d Hd h s HI) as (v & h' & s' & E & HI' & X & R).
  exists v, h', s'. split; [exact E|]. split; [exact HI'|]. split; [exact X|].
  split; [exact R|]. exact (mpc_one_ptr d h s v h' s' HI E).
Qed.

(* ============================================================ machine invariants *)
Definition code_in (m : vm) (lp : N) (bc : list vcell) : Prop :=
  exists lid lam, allocated (hp m) lp /\ cell_at (hp m) lp = VLambda lid /\ lid < next_id (st m) /\
    tget (lams (st m)) lid = Some lam /\ l_bc lam = bc.

Lemma code_in_ext m m' lp bc : code_in m lp bc -> cext m m' -> code_in m' lp bc.
Proof.
  intros (lid & lam & A & C & L & T & B) X. destruct (ce_heap _ _ X lp A) as [A' C'].
  exists lid, lam. split; [exact A'|]. split; [congruence|]. split; [destruct (ce_store _ _ X); lia|].
  split; [rewrite (ce_lams _ _ X) by assumption; exact T|exact B].
Qed.
Lemma code_in_regs m m' lp bc : hp m' = hp m -> st m' = st m -> code_in m lp bc -> code_in m' lp bc.
Proof. intros Eh Es. unfold code_in. rewrite Eh, Es. auto. Qed.

(* global environment: every bound symbol address has a slot, distinct addresses have
   distinct slots (GlobalEnvironment::get_binding allocates slots at the end) *)
Definition ginv (m : vm) : Prop :=
  (forall a k, assoc_find (g_bind m) a = Some k -> k < len (g_slots m)) /\
  (forall a a' k, assoc_find (g_bind m) a = Some k -> assoc_find (g_bind m) a' = Some k -> a = a').

Record minv (m : vm) : Prop := {
  mi_heap : heap_inv (hp m);
  mi_glob : ginv m;
  mi_sp : sp m < scap m
}.

(* the state after Stack::push *)
Definition pushed (s : vm) (v : vcell) : vm :=
  with_scap (with_stack s (tset (stack s) (sp s + 1) v) (sp s + 1))
            (if sp s + 1 <? scap s then scap s else scap s * 2).
Lemma push_eq v s : push v s = ROk tt (pushed s v).
Proof. reflexivity. Qed.

Lemma sget_pushed_top s v : sget (pushed s v) (sp s + 1) = v.
Proof. unfold sget, pushed. cbn [stack with_scap with_stack]. rewrite tget_tset_same. reflexivity. Qed.
Lemma sget_pushed_other s v j : j <> sp s + 1 -> sget (pushed s v) j = sget s j.
Proof. intros H. unfold sget, pushed. cbn [stack with_scap with_stack]. rewrite tget_tset_other by congruence. reflexivity. Qed.
Lemma pushed_sp_lt s v : sp s < scap s -> sp (pushed s v) < scap (pushed s v).
Proof.
  intros H. unfold pushed. cbn [sp scap with_scap with_stack].
  destruct (N.ltb_spec (sp s + 1) (scap s)); lia.
Qed.

Section Machine.
Variable ob : N -> M vcell.
Notation run_one := (Vm.run_one ob).
Notation steps := (RunProofs.steps ob).
Notation run_builtin := (Vm.run_builtin ob).

(* ------------------------------------------------------------ fetch *)
Lemma cur_lambda_ok m lp bc : code_in m lp bc -> fst (ip m) = lp ->
  exists lam, cur_lambda m = ROk lam m /\ l_bc lam = bc.
Proof.
  intros (lid & lam & A & C & _ & L & B) <-. exists lam. split; [|exact B].
  unfold cur_lambda. rewrite (heap_get_alloc _ _ A), C. unfold get_lambda. rewrite L. reflexivity.
Qed.

Lemma read_opcode_ok m lp i bc o : code_in m lp bc -> ip m = (lp, i) -> list_get bc i = Some (VOp o) ->
  read_opcode m = ROk o (with_ip m (lp, i + 1)).
Proof.
  intros Hc Hip Hg. destruct (cur_lambda_ok m lp bc Hc) as (lam & E & B); [rewrite Hip; reflexivity|].
  unfold read_opcode, bindM. rewrite E. unfold get_vm. rewrite B, Hip. cbn [fst snd]. rewrite Hg.
  reflexivity.
Qed.

Lemma read_operand_ok m lp i bc v : code_in m lp bc -> ip m = (lp, i) -> list_get bc i = Some v ->
  (forall o, v <> VOp o) -> read_operand m = ROk v (with_ip m (lp, i + 1)).
Proof.
  intros Hc Hip Hg Hno. destruct (cur_lambda_ok m lp bc Hc) as (lam & E & B); [rewrite Hip; reflexivity|].
  unfold read_operand, bindM. rewrite E. unfold get_vm. rewrite B, Hip. cbn [fst snd]. rewrite Hg.
  destruct v; try reflexivity. exfalso. eapply Hno. reflexivity.
Qed.

Ltac fetch_op Hc Hip H0 :=
  unfold Vm.run_one; unfold bindM at 1;
  rewrite (read_opcode_ok _ _ _ _ _ Hc Hip H0); cbv beta iota.

Lemma code_in_ip m lp bc x : code_in m lp bc -> code_in (with_ip m x) lp bc.
Proof. apply code_in_regs; reflexivity. Qed.

(* MOV_IMMEDIATE v %acc *)
Lemma step_movimm m lp i bc v : code_in m lp bc -> ip m = (lp, i) ->
  seg bc i [VOp OMovImmediate; v; VAcc] -> (forall o, v <> VOp o) ->
  run_one m = ROk false (with_acc (with_ip m (lp, i + 3)) v).
Proof.
  intros Hc Hip Hs Hno. apply seg_head in Hs as [H0 Hs]. apply seg_head in Hs as [H1 Hs]. apply seg_head in Hs as [H2 _].
  fetch_op Hc Hip H0.
  unfold bindM at 1. rewrite (read_operand_ok _ lp (i + 1) bc v (code_in_ip _ _ _ _ Hc) eq_refl H1 Hno).
  unfold bindM at 1. unfold store_operand. unfold bindM at 1.
  rewrite (read_operand_ok _ lp (i + 1 + 1) bc VAcc (code_in_ip _ _ _ _ (code_in_ip _ _ _ _ Hc)) eq_refl H2 ltac:(discriminate)).
  unfold bindM, get_vm, set_acc, ret. unfold with_acc, with_ip. cbn [hp st g_bind g_slots stack scap sp bp ep ip acc out_log].
  replace (i + 1 + 1 + 1) with (i + 3) by lia. reflexivity.
Qed.

(* JMP p *)
Lemma step_jmp m lp i bc p : code_in m lp bc -> ip m = (lp, i) -> seg bc i [VOp OJmp; VPtr p] ->
  run_one m = ROk false (with_ip m (lp, p)).
Proof.
  intros Hc Hip Hs. apply seg_head in Hs as [H0 Hs]. apply seg_head in Hs as [H1 _].
  fetch_op Hc Hip H0.
  unfold bindM at 1. rewrite (read_operand_ok _ lp (i + 1) bc _ (code_in_ip _ _ _ _ Hc) eq_refl H1 ltac:(discriminate)).
  reflexivity.
Qed.

(* JNT p *)
Lemma step_jnt m lp i bc p w : code_in m lp bc -> ip m = (lp, i) -> seg bc i [VOp OJnt; VPtr p] ->
  heap_deref (hp m) (acc m) = Ok w ->
  run_one m = ROk false (with_ip m (lp, if match w with VBool false => true | _ => false end then p else i + 2)).
Proof.
  intros Hc Hip Hs Hw. apply seg_head in Hs as [H0 Hs]. apply seg_head in Hs as [H1 _].
  fetch_op Hc Hip H0.
  unfold bindM at 1. rewrite (read_operand_ok _ lp (i + 1) bc _ (code_in_ip _ _ _ _ Hc) eq_refl H1 ltac:(discriminate)).
  unfold bindM at 1. cbn [as_ptr ret]. unfold bindM at 1. unfold get_vm. unfold bindM at 1.
  unfold hderef, lift. cbn [hp acc with_ip]. rewrite Hw.
  replace (i + 2) with (i + 1 + 1) by lia.
  destruct w; try reflexivity. match goal with x : bool |- _ => destruct x end; reflexivity.
Qed.

(* MOV (global slot k) %acc *)
Lemma step_load_global m lp i bc k v : code_in m lp bc -> ip m = (lp, i) ->
  seg bc i [VOp OMov; VGSlot k; VAcc] -> list_get (g_slots m) k = Some v -> v <> VUndef ->
  run_one m = ROk false (with_acc (with_ip m (lp, i + 3)) v).
Proof.
  intros Hc Hip Hs Hk Hv. apply seg_head in Hs as [H0 Hs]. apply seg_head in Hs as [H1 Hs]. apply seg_head in Hs as [H2 _].
  fetch_op Hc Hip H0.
  unfold bindM at 1. unfold load_operand. unfold bindM at 1.
  rewrite (read_operand_ok _ lp (i + 1) bc _ (code_in_ip _ _ _ _ Hc) eq_refl H1 ltac:(discriminate)).
  unfold bindM at 1. unfold get_vm. cbn [g_slots with_ip]. rewrite Hk.
  assert (E : forall (A : Type) (a b : A), match v with VUndef => a | _ => b end = b)
    by (intros; destruct v; try reflexivity; congruence).
  rewrite E. unfold ret.
  unfold bindM at 1. unfold store_operand. unfold bindM at 1.
  rewrite (read_operand_ok _ lp (i + 1 + 1) bc VAcc (code_in_ip _ _ _ _ (code_in_ip _ _ _ _ Hc)) eq_refl H2 ltac:(discriminate)).
  unfold bindM, get_vm, set_acc, ret. unfold with_acc, with_ip. cbn [hp st g_bind g_slots stack scap sp bp ep ip acc out_log].
  replace (i + 1 + 1 + 1) with (i + 3) by lia. reflexivity.
Qed.

(* MOV %acc (global slot k) *)
Lemma step_store_global m lp i bc k : code_in m lp bc -> ip m = (lp, i) ->
  seg bc i [VOp OMov; VAcc; VGSlot k] -> k < len (g_slots m) ->
  run_one m = ROk false (with_globals (with_ip m (lp, i + 3)) (g_bind m) (list_set (g_slots m) k (acc m))).
Proof.
  intros Hc Hip Hs Hk. apply seg_head in Hs as [H0 Hs]. apply seg_head in Hs as [H1 Hs]. apply seg_head in Hs as [H2 _].
  fetch_op Hc Hip H0.
  unfold bindM at 1. unfold load_operand. unfold bindM at 1.
  rewrite (read_operand_ok _ lp (i + 1) bc _ (code_in_ip _ _ _ _ Hc) eq_refl H1 ltac:(discriminate)).
  unfold bindM at 1. unfold get_vm. unfold ret.
  unfold bindM at 1. unfold store_operand. unfold bindM at 1.
  rewrite (read_operand_ok _ lp (i + 1 + 1) bc _ (code_in_ip _ _ _ _ (code_in_ip _ _ _ _ Hc)) eq_refl H2 ltac:(discriminate)).
  unfold bindM at 1. unfold get_vm. cbn [g_slots with_ip acc]. apply N.ltb_lt in Hk. rewrite Hk.
  unfold bindM, ret. unfold with_globals, with_ip. cbn [hp st g_bind g_slots stack scap sp bp ep ip acc out_log].
  replace (i + 1 + 1 + 1) with (i + 3) by lia. reflexivity.
Qed.

(* PUSH %acc *)
Lemma step_pushacc m lp i bc : code_in m lp bc -> ip m = (lp, i) -> seg bc i [VOp OPushAcc] ->
  run_one m = ROk false (pushed (with_ip m (lp, i + 1)) (acc m)).
Proof.
  intros Hc Hip Hs. apply seg_head in Hs as [H0 _].
  fetch_op Hc Hip H0. reflexivity.
Qed.

(* PUSH_IMMEDIATE v *)
Lemma step_pushimm m lp i bc v : code_in m lp bc -> ip m = (lp, i) -> seg bc i [VOp OPushImmediate; v] ->
  (forall o, v <> VOp o) ->
  run_one m = ROk false (pushed (with_ip m (lp, i + 2)) v).
Proof.
  intros Hc Hip Hs Hno. apply seg_head in Hs as [H0 Hs]. apply seg_head in Hs as [H1 _].
  fetch_op Hc Hip H0.
  unfold bindM at 1. rewrite (read_operand_ok _ lp (i + 1) bc _ (code_in_ip _ _ _ _ Hc) eq_refl H1 Hno).
  replace (i + 2) with (i + 1 + 1) by lia. reflexivity.
Qed.

(* CALL %acc / TCALL %acc of a builtin procedure: run it, box the result *)
Lemma box_m (r : vcell) m2 v' h' :
  (match r with VPtr _ => (r, hp m2) | _ => heap_maybe_put (hp m2) r end) = (v', h') ->
  (match r with VPtr _ => ret r | _ => hmaybe_put r end) m2 = ROk v' (with_heap m2 h').
Proof.
  intros E. destruct r; unfold hmaybe_put; try (rewrite E; reflexivity).
  injection E as <- <-. destruct m2; reflexivity.
Qed.

Lemma step_call_builtin m lp i bc (tail : bool) b r m2 v' h' : code_in m lp bc -> ip m = (lp, i) ->
  seg bc i [VOp (if tail then OTCallAcc else OCallAcc)] ->
  heap_deref (hp m) (acc m) = Ok (VBuiltin b) ->
  run_builtin b (with_ip m (lp, i + 1)) = ROk r m2 ->
  (match r with VPtr _ => (r, hp m2) | _ => heap_maybe_put (hp m2) r end) = (v', h') ->
  run_one m = ROk false (with_acc (with_heap m2 h') v').
Proof.
  intros Hc Hip Hs Hd Hb Hbox. apply seg_head in Hs as [H0 _].
  fetch_op Hc Hip H0.
  assert (E : Vm.resolve_callee ob (with_ip m (lp, i + 1)) = ROk CDone (with_acc (with_heap m2 h') v')).
  { unfold Vm.resolve_callee. unfold bindM at 1. unfold get_vm. unfold bindM at 1.
    unfold hderef, lift. cbn [hp acc with_ip]. rewrite Hd.
    unfold bindM at 1. rewrite Hb. unfold bindM at 1. rewrite (box_m r m2 v' h' Hbox). reflexivity. }
  destruct tail; unfold bindM at 1; rewrite E; reflexivity.
Qed.

(* ------------------------------------------------------------ runs *)
Lemma steps_one m m' : run_one m = ROk false m' -> steps 1 m = Some m'.
Proof. intros H. cbn [RunProofs.steps]. rewrite H. reflexivity. Qed.
Lemma steps_trans a b m1 m2 m3 : steps a m1 = Some m2 -> steps b m2 = Some m3 -> steps (a + b) m1 = Some m3.
Proof. intros H1 H2. rewrite steps_add, H1. exact H2. Qed.

(* n instructions that neither halt nor fail, then the rest of the run *)
Lemma run_loop_steps n : forall m m' f cyc, steps n m = Some m' ->
  Vm.run_loop ob (n + f) cyc None m = Vm.run_loop ob f 0 None m'.
Proof.
  induction n as [|n IH]; intros m m' f cyc H; cbn [RunProofs.steps] in H.
  - injection H as <-. cbn [Nat.add]. apply run_loop_none_cyc.
  - cbn [Nat.add]. rewrite run_loop_S.
    destruct (run_one m) as [[|] m1|e1 m1 s1| |]; try discriminate. apply IH. exact H.
Qed.

End Machine.

(* ============================================================ states that differ in %ip/%acc only *)
Definition same_mem (m m' : vm) : Prop :=
  hp m' = hp m /\ st m' = st m /\ g_bind m' = g_bind m /\ g_slots m' = g_slots m /\
  stack m' = stack m /\ scap m' = scap m /\ sp m' = sp m /\ bp m' = bp m /\ ep m' = ep m /\
  out_log m' = out_log m.

(* what the code of an expression leaves unchanged *)
Record frame (m m' : vm) : Prop := {
  fr_ext : cext m m';
  fr_sp : sp m' = sp m; fr_bp : bp m' = bp m; fr_ep : ep m' = ep m; fr_log : out_log m' = out_log m;
  fr_stack : forall j, j <= sp m -> sget m' j = sget m j
}.

Lemma frame_refl m : frame m m.
Proof. constructor; auto using cext_refl. Qed.
Lemma frame_trans m1 m2 m3 : frame m1 m2 -> frame m2 m3 -> frame m1 m3.
Proof.
  intros [X1 S1 B1 E1 L1 K1] [X2 S2 B2 E2 L2 K2]. constructor; try congruence.
  - eapply cext_trans; eassumption.
  - intros j Hj. rewrite K2 by lia. apply K1. exact Hj.
Qed.
Lemma same_mem_frame m m' : same_mem m m' -> frame m m'.
Proof.
  intros (Eh & Es & Eb & Eg & Ek & Ec & Esp & Ebp & Eep & El). constructor; auto.
  - apply cext_same; auto. rewrite Eg. lia.
  - intros j _. unfold sget. rewrite Ek. reflexivity.
Qed.
Lemma same_mem_minv m m' : same_mem m m' -> minv m -> minv m'.
Proof.
  intros (Eh & Es & Eb & Eg & Ek & Ec & Esp & Ebp & Eep & El) [H G S]. constructor.
  - rewrite Eh. exact H.
  - unfold ginv. rewrite Eb, Eg. exact G.
  - rewrite Esp, Ec. exact S.
Qed.

(* ============================================================ the fragment *)
Inductive expr :=
| EConst (c : cell)
| EQuote (d : cell)
| EIf (c a b : expr)
| EIf1 (c a : expr)
| EVar (x : text)
| EDefine (x : text) (e : expr)
| ESet (x : text) (e : expr)
| EApp (f : expr) (args : list expr).

Definition IF_ : cell := CSym (S_ "if").
Definition DEFINE_ : cell := CSym (S_ "define").
Definition SET_ : cell := CSym (S_ "set!").

Fixpoint cell_of (e : expr) : cell :=
  match e with
  | EConst c => c
  | EQuote d => quote_of d
  | EIf c a b => CPair IF_ (CPair (cell_of c) (CPair (cell_of a) (CPair (cell_of b) CNil)))
  | EIf1 c a => CPair IF_ (CPair (cell_of c) (CPair (cell_of a) CNil))
  | EVar x => CSym x
  | EDefine x e => CPair DEFINE_ (CPair (CSym x) (CPair (cell_of e) CNil))
  | ESet x e => CPair SET_ (CPair (CSym x) (CPair (cell_of e) CNil))
  | EApp f args => CPair (cell_of f) (fold_right CPair CNil (map cell_of args))
  end.

(* the data that compile_expression treats as self-evaluating (compile.rs:150-157) *)
Definition self_eval (c : cell) : bool :=
  match c with CBool _ | CChar _ | CNum _ | CStr _ | CVec _ => true | _ => false end.

Fixpoint wf_expr (e : expr) : Prop :=
  match e with
  | EConst c => self_eval c = true /\ heap_datum c
  | EQuote d => heap_datum d
  | EIf c a b => wf_expr c /\ wf_expr a /\ wf_expr b
  | EIf1 c a => wf_expr c /\ wf_expr a
  | EVar x => is_primitive_symbol (CSym x) = false
  | EDefine x e | ESet x e => is_primitive_symbol (CSym x) = false /\ wf_expr e
  | EApp f args => special_head (cell_of f) = false /\ wf_expr f /\
                   (fix all (l : list expr) : Prop := match l with [] => True | x :: r => wf_expr x /\ all r end) args
  end.

Lemma wf_app f args : wf_expr (EApp f args) <->
  special_head (cell_of f) = false /\ wf_expr f /\ Forall wf_expr args.
Proof.
  cbn [wf_expr]. induction args as [|x r IH]; [intuition|].
  split.
  - intros (A & B & C & D). destruct IH as [IH _]. destruct (IH (conj A (conj B D))) as (_ & _ & F). auto.
  - intros (A & B & F). inversion F; subst. destruct IH as [_ IH]. destruct (IH (conj A (conj B H2))) as (_ & _ & D). auto.
Qed.

Section expr_ind2.
Variable P : expr -> Prop.
Hypothesis Hconst : forall c, P (EConst c).
Hypothesis Hquote : forall d, P (EQuote d).
Hypothesis Hif : forall c a b, P c -> P a -> P b -> P (EIf c a b).
Hypothesis Hif1 : forall c a, P c -> P a -> P (EIf1 c a).
Hypothesis Hvar : forall x, P (EVar x).
Hypothesis Hdef : forall x e, P e -> P (EDefine x e).
Hypothesis Hset : forall x e, P e -> P (ESet x e).
Hypothesis Happ : forall f args, P f -> Forall P args -> P (EApp f args).
Fixpoint expr_ind2 (e : expr) : P e :=
  match e with
  | EConst c => Hconst c
  | EQuote d => Hquote d
  | EIf c a b => Hif c a b (expr_ind2 c) (expr_ind2 a) (expr_ind2 b)
  | EIf1 c a => Hif1 c a (expr_ind2 c) (expr_ind2 a)
  | EVar x => Hvar x
  | EDefine x e => Hdef x e (expr_ind2 e)
  | ESet x e => Hset x e (expr_ind2 e)
  | EApp f args => Happ f args (expr_ind2 f)
      ((fix go (l : list expr) : Forall P l :=
          match l with [] => Forall_nil P | x :: r => Forall_cons x (expr_ind2 x) (go r) end) args)
  end.
End expr_ind2.

(* ============================================================ reference semantics *)
Definition env := text -> option rval.
Definition upd (rho : env) (x : text) (r : rval) : env :=
  fun y => if text_eqb y x then Some r else rho y.

Section Sem.
Variable ob : N -> M vcell.
(* the meaning of builtin procedure b on argument values (None: not specified) *)
Variable bsem : N -> list rval -> option rval.

Notation run_one := (Vm.run_one ob).
Notation steps := (RunProofs.steps ob).
Notation run_builtin := (Vm.run_builtin ob).

(* big-step, call by value, operands left to right and then the operator (the order of
   compile.rs:530-558), `define`/`set!` on the global environment, one-armed `if`
   yields #<void>, an unbound or undefined variable has no value *)
Inductive ref_eval : env -> expr -> rval -> env -> Prop :=
| RE_const rho c : ref_eval rho (EConst c) (RDatum c) rho
| RE_quote rho d : ref_eval rho (EQuote d) (RDatum d) rho
| RE_var rho x r : rho x = Some r -> r <> RDatum CUndef -> ref_eval rho (EVar x) r rho
| RE_if_t rho c a b rc rho1 r rho2 :
    ref_eval rho c rc rho1 -> is_false rc = false -> ref_eval rho1 a r rho2 -> ref_eval rho (EIf c a b) r rho2
| RE_if_f rho c a b rc rho1 r rho2 :
    ref_eval rho c rc rho1 -> is_false rc = true -> ref_eval rho1 b r rho2 -> ref_eval rho (EIf c a b) r rho2
| RE_if1_t rho c a rc rho1 r rho2 :
    ref_eval rho c rc rho1 -> is_false rc = false -> ref_eval rho1 a r rho2 -> ref_eval rho (EIf1 c a) r rho2
| RE_if1_f rho c a rc rho1 :
    ref_eval rho c rc rho1 -> is_false rc = true -> ref_eval rho (EIf1 c a) (RDatum CVoid) rho1
| RE_define rho x e r rho1 :
    ref_eval rho e r rho1 -> ref_eval rho (EDefine x e) (RDatum CVoid) (upd rho1 x r)
| RE_set rho x e r rho1 old :
    ref_eval rho e r rho1 -> rho1 x = Some old -> ref_eval rho (ESet x e) (RDatum CVoid) (upd rho1 x r)
| RE_app rho f args rs rho1 b rho2 r :
    ref_evals rho args rs rho1 -> ref_eval rho1 f (RBuiltin b) rho2 -> bsem b rs = Some r ->
    ref_eval rho (EApp f args) r rho2
with ref_evals : env -> list expr -> list rval -> env -> Prop :=
| RE_nil rho : ref_evals rho [] [] rho
| RE_cons rho x r rho1 xs rs rho2 :
    ref_eval rho x r rho1 -> ref_evals rho1 xs rs rho2 -> ref_evals rho (x :: xs) (r :: rs) rho2.

(* the machine's global environment agrees with rho *)
Definition genv_rel (rho : env) (m : vm) : Prop :=
  forall x r, rho x = Some r -> exists a k v,
    allocated (hp m) a /\ cell_at (hp m) a = VSym x /\ assoc_find (g_bind m) a = Some k /\
    list_get (g_slots m) k = Some v /\ vrep v r (hp m) (st m).

Lemma genv_rel_ext rho m m' : cext m m' -> g_slots m' = g_slots m -> genv_rel rho m -> genv_rel rho m'.
Proof.
  intros X Eg G x r Hx. destruct (G x r Hx) as (a & k & v & A & C & B & L & V).
  destruct (ce_heap _ _ X a A) as [A' C'].
  exists a, k, v. split; [exact A'|]. split; [congruence|]. split; [apply (ce_bind _ _ X); exact B|].
  split; [rewrite Eg; exact L|]. eapply vrep_ext; [exact V|apply cext_ext; exact X].
Qed.
Lemma genv_rel_frame rho m m' : frame m m' -> g_slots m' = g_slots m -> genv_rel rho m -> genv_rel rho m'.
Proof. intros F. apply genv_rel_ext. apply F. Qed.

(* a builtin procedure that is a function of its popped arguments: called with n
   argument values above slot sp0 and Argc n on top, it pops them, only extends heap and
   Rc tables, leaves the other registers, the globals and the output alone, and returns
   a value representing [bsem b args] *)
Definition builtin_ok (b : N) : Prop :=
  forall m sp0 vs rs r,
    minv m -> sp m = sp0 + len vs + 1 -> sget m (sp m) = VArgc (len vs) ->
    (forall i v, list_get vs i = Some v -> sget m (sp0 + 1 + i) = v) ->
    Forall2 (fun v r => vrep v r (hp m) (st m)) vs rs ->
    bsem b rs = Some r ->
    exists v m', run_builtin b m = ROk v m' /\ minv m' /\ cext m m' /\ vrep v r (hp m') (st m') /\
      sp m' = sp0 /\ (forall j, j <= sp0 -> sget m' j = sget m j) /\
      bp m' = bp m /\ ep m' = ep m /\ ip m' = ip m /\ g_slots m' = g_slots m /\ out_log m' = out_log m.

(* [exec_ok s0 p code rho r rho']: on every machine that extends s0 and holds [code] at
   positions [p, p + len code) of the current lambda, execution from ip = p reaches
   ip = p + len code in finitely many instructions with a representation of r in %acc,
   the global environment rho', sp/bp/ep and the stack up to sp unchanged *)
Definition exec_ok (s0 : vm) (p : N) (code : list vcell) (rho : env) (r : rval) (rho' : env) : Prop :=
  forall m lp bc,
    cext s0 m -> minv m -> code_in m lp bc -> seg bc p code -> ip m = (lp, p) -> genv_rel rho m ->
    exists n m', steps n m = Some m' /\ frame m m' /\ minv m' /\ ip m' = (lp, p + len code) /\
      vrep (acc m') r (hp m') (st m') /\ genv_rel rho' m'.

Definition top_hdr (l : lambda) : Prop := l_envmap l = [] /\ l_args l = [].

(* compile_expression on e succeeds with any sufficient fuel, appends code to the lambda
   under construction, and that code computes the reference value *)
Definition compile_ok (e : expr) : Prop :=
  forall f l tail s, (cell_size (cell_of e) < f)%nat -> top_hdr l -> minv s ->
  exists l' s' code, compile_expression f l tail (cell_of e) s = ROk l' s' /\
    fwd l' = fwd l ++ code /\ same_hdr l l' /\ minv s' /\ cext s s' /\ same_regs s s' /\
    forall rho r rho', ref_eval rho e r rho' -> exec_ok s' (len (fwd l)) code rho r rho'.

Lemma top_hdr_same l l' : same_hdr l l' -> top_hdr l -> top_hdr l'.
Proof. intros (_ & _ & E & A & _) [H1 H2]. split; congruence. Qed.

(* ------------------------------------------------------------ compile-time state operations *)
Lemma mpc_lams c : forall h s v h' s', maybe_put_cell h s c = Ok (v, h', s') -> lams s' = lams s.
Proof.
  induction c as [c Hnp Hnv|ca cd IHa IHd|l HF] using cell_ind2; intros h s v h' s' H.
  - destruct c; cbn [maybe_put_cell] in H; try discriminate; try (injection H as _ _ <-; reflexivity).
    + exfalso. eapply Hnp. reflexivity.
    + unfold new_str in H. match type of H with context [heap_put ?a ?b] => destruct (heap_put a b) as [p h1] end.
      injection H as _ _ <-. reflexivity.
    + match type of H with context [heap_put ?a ?b] => destruct (heap_put a b) as [p h1] end.
      injection H as _ _ <-. reflexivity.
    + exfalso. eapply Hnv. reflexivity.
  - cbn [maybe_put_cell] in H.
    destruct (maybe_put_cell h s ca) as [[[va h1] s1]| | |] eqn:E1; cbn [bind] in H; try discriminate.
    destruct (match va with VPtr _ => (va, h1) | _ => heap_put h1 va end) as [pa h2].
    destruct (maybe_put_cell h2 s1 cd) as [[[vd h3] s3]| | |] eqn:E3; cbn [bind] in H; try discriminate.
    destruct (match vd with VPtr _ => (vd, h3) | _ => heap_put h3 vd end) as [pd h4].
    destruct pa; try discriminate. destruct pd; try discriminate.
    match type of H with context [heap_put ?a ?b] => destruct (heap_put a b) as [r h5] end. injection H as _ _ <-.
    rewrite (IHd _ _ _ _ _ E3). eapply IHa. exact E1.
  - cbn [maybe_put_cell] in H. fold elems_of in H.
    destruct (elems_of h s l []) as [[[vs h1] s1]| | |] eqn:E1; cbn [bind] in H; try discriminate.
    assert (L1 : lams s1 = lams s).
    { clear H. revert h s vs h1 s1 E1. generalize (@nil vcell).
      induction HF as [|x r Hx _ IH]; intros acc h s vs h1 s1 E1; cbn [elems_of] in E1.
      - injection E1 as _ _ <-. reflexivity.
      - destruct (maybe_put_cell h s x) as [[[vx hx] sx]| | |] eqn:Ex; cbn [bind] in E1; try discriminate.
        rewrite (IH _ _ _ _ _ _ E1). eapply Hx. exact Ex. }
    unfold new_vec in H. match type of H with context [heap_put ?a ?b] => destruct (heap_put a b) as [r h2] end.
    injection H as _ _ <-. cbn [lams]. exact L1.
Qed.

Lemma minv_heap_store s h x : minv s -> heap_inv h -> minv (with_store (with_heap s h) x).
Proof. intros [H G S] HI. constructor; [exact HI|exact G|exact S]. Qed.

(* Heap::maybe_put_cell at compile time (quoted data, constants) *)
Lemma maybe_put_cell_m_ok d s : heap_datum d -> minv s ->
  exists v s', maybe_put_cell_m d s = ROk v s' /\ minv s' /\ cext s s' /\ same_regs s s' /\ vrep v (RDatum d) (hp s') (st s').
Proof.
  intros Hd MI. destruct (maybe_put_cell_vrep d (hp s) (st s) Hd (mi_heap _ MI)) as (v & h' & s' & E & HI & [Xh Xs] & V).
  exists v, (with_store (with_heap s h') s'). unfold maybe_put_cell_m. rewrite E.
  split; [reflexivity|]. split; [apply minv_heap_store; assumption|]. split; [|split; [apply same_regs_gslots; reflexivity|exact V]].
  constructor; cbn [hp st g_bind g_slots with_store with_heap]; auto.
  - intros i _. rewrite (mpc_lams _ _ _ _ _ _ E). reflexivity.
  - lia.
Qed.

(* interning a symbol at compile time *)
Lemma put_sym_m_ok x s : minv s ->
  exists a s', put_cell_m (CSym x) s = ROk (VPtr a) s' /\ minv s' /\ cext s s' /\ same_regs s s' /\
    allocated (hp s') a /\ cell_at (hp s') a = VSym x /\
    g_bind s' = g_bind s /\ g_slots s' = g_slots s.
Proof.
  intros MI. destruct (heap_put (hp s) (VSym x)) as [r h1] eqn:E.
  destruct (heap_put_frame _ _ _ _ (mi_heap _ MI) E ltac:(discriminate)) as (a & -> & A & C & HI & Fr).
  exists a, (with_store (with_heap s h1) (st s)).
  unfold put_cell_m, put_cell. cbn [maybe_put_cell]. rewrite E. cbn [bind].
  split; [reflexivity|]. split; [apply minv_heap_store; assumption|].
  split; [|split; [apply same_regs_gslots; reflexivity|cbn [hp st g_bind g_slots with_store with_heap]; auto]].
  constructor; cbn [hp st g_bind g_slots with_store with_heap]; auto using sext_refl. lia.
Qed.

Lemma assoc_find_cons a k l a' : assoc_find ((a, k) :: l) a' = if a =? a' then Some k else assoc_find l a'.
Proof. reflexivity. Qed.

(* GlobalEnvironment::get_binding *)
Lemma get_binding_ok a s : minv s ->
  exists k s', get_binding a s = ROk k s' /\ minv s' /\ cext s s' /\ same_regs s s' /\ hp s' = hp s /\ st s' = st s /\
    assoc_find (g_bind s') a = Some k.
Proof.
  intros MI. unfold get_binding. destruct (assoc_find (g_bind s) a) as [k|] eqn:E.
  - exists k, s. split; [reflexivity|]. split; [exact MI|]. split; [apply cext_refl|]. split; [apply same_regs_refl|]. auto.
  - exists (len (g_slots s)), (with_globals s ((a, len (g_slots s)) :: g_bind s) (g_slots s ++ [VUndef])).
    split; [reflexivity|].
    destruct MI as [HI [G1 G2] SP].
    cbn [hp st g_bind g_slots with_globals]. rewrite (assoc_find_cons a (len (g_slots s)) (g_bind s) a), N.eqb_refl.
    split; [|split; [|split; [repeat split; exists [VUndef]; reflexivity|auto]]].
    + constructor; unfold ginv; cbn [hp st g_bind g_slots sp scap with_globals]; auto. split.
      * intros a' k'. rewrite assoc_find_cons, len_app.
        destruct (N.eqb_spec a a') as [<-|Hne]; [intros [= <-]; cbn; lia|].
        intros H. apply G1 in H. lia.
      * intros a1 a2 k'. rewrite !assoc_find_cons.
        destruct (N.eqb_spec a a1) as [<-|H1]; destruct (N.eqb_spec a a2) as [<-|H2]; auto.
        -- intros [= <-] H. apply G1 in H. lia.
        -- intros H [= <-]. apply G1 in H. lia.
        -- apply G2.
    + constructor; cbn [hp st g_bind g_slots with_globals]; auto using hext_refl, sext_refl.
      * intros a' k' H. rewrite assoc_find_cons. destruct (N.eqb_spec a a') as [<-|Hne]; [congruence|exact H].
      * rewrite len_app. lia.
Qed.

Lemma location_operand_top l a s : top_hdr l ->
  location_operand l (VPtr a) s = (dom slot <- get_binding a; ret (VGSlot slot)) s.
Proof. intros [E A]. unfold location_operand, binding_location, envmap_slot. rewrite E, A. reflexivity. Qed.

(* ------------------------------------------------------------ execution of the emitted patterns *)
Lemma len2 {A} (a b : A) : len [a; b] = 2.
Proof. reflexivity. Qed.
Lemma len3 {A} (a b c : A) : len [a; b; c] = 3.
Proof. reflexivity. Qed.
Lemma len1 {A} (a : A) : len [a] = 1.
Proof. reflexivity. Qed.

Lemma vrep_void h s : vrep VVoid (RDatum CVoid) h s.
Proof. split; [apply reads_imm; intros; reflexivity|intros p; discriminate]. Qed.

(* MOV_IMMEDIATE v %acc with an operand that represents r *)
Lemma exec_movimm s0 p v r rho : vrep v r (hp s0) (st s0) ->
  exec_ok s0 p [VOp OMovImmediate; v; VAcc] rho r rho.
Proof.
  intros V m lp bc X MI Hc Hs Hip G.
  pose proof (vrep_ext _ _ _ _ _ _ V (cext_ext _ _ X)) as V'.
  pose proof (step_movimm ob m lp p bc v Hc Hip Hs (vrep_not_op _ _ _ _ V')) as E.
  exists 1%nat, (with_acc (with_ip m (lp, p + 3)) v).
  assert (SM : same_mem m (with_acc (with_ip m (lp, p + 3)) v)) by (repeat split).
  split; [apply steps_one; exact E|]. split; [apply same_mem_frame; exact SM|].
  split; [eapply same_mem_minv; eassumption|]. split; [reflexivity|]. split; [exact V'|].
  eapply genv_rel_frame; [apply same_mem_frame; exact SM|reflexivity|exact G].
Qed.

(* MOV (global slot) %acc *)
Lemma exec_load_global s0 p a k x rho r :
  allocated (hp s0) a -> cell_at (hp s0) a = VSym x -> assoc_find (g_bind s0) a = Some k ->
  rho x = Some r -> r <> RDatum CUndef ->
  exec_ok s0 p [VOp OMov; VGSlot k; VAcc] rho r rho.
Proof.
  intros A C B Hx Hr m lp bc X MI Hc Hs Hip G.
  destruct (G x r Hx) as (a' & k' & v & A' & C' & B' & L & V).
  destruct (ce_heap _ _ X a A) as [Am Cm]. rewrite C in Cm.
  assert (a = a') as <- by (apply (same_name_iff_same_cell (hp m) a a' x x (mi_heap _ MI) Am A' Cm C'); reflexivity).
  pose proof (ce_bind _ _ X a k B) as Bm. assert (k' = k) as -> by congruence.
  pose proof (step_load_global ob m lp p bc k v Hc Hip Hs L (vrep_not_undef _ _ _ _ V Hr)) as E.
  exists 1%nat, (with_acc (with_ip m (lp, p + 3)) v).
  assert (SM : same_mem m (with_acc (with_ip m (lp, p + 3)) v)) by (repeat split).
  split; [apply steps_one; exact E|]. split; [apply same_mem_frame; exact SM|].
  split; [eapply same_mem_minv; eassumption|]. split; [reflexivity|]. split; [exact V|].
  eapply genv_rel_frame; [apply same_mem_frame; exact SM|reflexivity|exact G].
Qed.

(* MOV %acc (global slot); MOV_IMMEDIATE #<void> %acc *)
Lemma exec_store_tail m1 lp bc i a k x rho r :
  minv m1 -> code_in m1 lp bc ->
  seg bc i [VOp OMov; VAcc; VGSlot k; VOp OMovImmediate; VVoid; VAcc] -> ip m1 = (lp, i) ->
  allocated (hp m1) a -> cell_at (hp m1) a = VSym x -> assoc_find (g_bind m1) a = Some k ->
  vrep (acc m1) r (hp m1) (st m1) -> genv_rel rho m1 ->
  exists m3, steps 2 m1 = Some m3 /\ frame m1 m3 /\ minv m3 /\ ip m3 = (lp, i + 6) /\
    acc m3 = VVoid /\ genv_rel (upd rho x r) m3.
Proof.
  intros MI Hc Hs Hip A C B V G.
  change [VOp OMov; VAcc; VGSlot k; VOp OMovImmediate; VVoid; VAcc]
    with ([VOp OMov; VAcc; VGSlot k] ++ [VOp OMovImmediate; VVoid; VAcc]) in Hs.
  apply seg_app in Hs as [Hs1 Hs2]. rewrite len3 in Hs2.
  assert (Hk : k < len (g_slots m1)) by (apply (proj1 (mi_glob _ MI) a); exact B).
  pose proof (step_store_global ob m1 lp i bc k Hc Hip Hs1 Hk) as E1.
  set (m2 := with_globals (with_ip m1 (lp, i + 3)) (g_bind m1) (list_set (g_slots m1) k (acc m1))) in *.
  assert (Hc2 : code_in m2 lp bc) by (eapply code_in_regs; [| |exact Hc]; reflexivity).
  pose proof (step_movimm ob m2 lp (i + 3) bc VVoid Hc2 eq_refl Hs2 ltac:(discriminate)) as E2.
  set (m3 := with_acc (with_ip m2 (lp, i + 3 + 3)) VVoid) in *.
  exists m3. split; [eapply (steps_trans ob 1 1); apply steps_one; eassumption|].
  assert (F : frame m1 m3).
  { constructor; try reflexivity; auto.
    apply cext_same; try reflexivity. cbn [g_slots m3 m2 with_acc with_ip with_globals].
    rewrite list_set_len. lia. }
  split; [exact F|]. split.
  { destruct MI as [HI [G1 G2] SP]. constructor; [exact HI| |exact SP].
    split; cbn [g_bind g_slots m3 m2 with_acc with_ip with_globals]; [|exact G2].
    intros a0 k0 H0. rewrite list_set_len. eapply G1. exact H0. }
  split; [cbn [ip m3 with_acc with_ip]; f_equal; lia|]. split; [reflexivity|].
  intros y ry Hy. unfold upd in Hy. destruct (text_eqb y x) eqn:Eyx.
  - apply text_eqb_eq in Eyx. subst y. injection Hy as <-.
    exists a, k, (acc m1). split; [exact A|]. split; [exact C|]. split; [exact B|].
    split; [|exact V]. cbn [g_slots m3 m2 with_acc with_ip with_globals]. apply list_get_set_same. exact Hk.
  - destruct (G y ry Hy) as (ay & ky & vy & Ay & Cy & By & Ly & Vy).
    exists ay, ky, vy. split; [exact Ay|]. split; [exact Cy|]. split; [exact By|]. split; [|exact Vy].
    cbn [g_slots m3 m2 with_acc with_ip with_globals]. rewrite list_get_set_other; [exact Ly|].
    intros <-. assert (a = ay) as <- by (eapply (proj2 (mi_glob _ MI)); eassumption).
    rewrite C in Cy. injection Cy as <-. rewrite text_eqb_refl in Eyx. discriminate.
Qed.

(* ------------------------------------------------------------ constants, quote *)
Lemma compile_const_eq f l tail c : self_eval c = true -> heap_datum c ->
  compile_expression (S f) l tail c =
  (dom v <- maybe_put_cell_m c; ret (emit (emit (emit_op l OMovImmediate) v) VAcc)).
Proof.
  intros Hs Hd.
  assert (E : compile_expression (S f) l tail c =
    (if negb (cell_is_datum c) then fail E_OTHER else
     dom v <- maybe_put_cell_m c; ret (emit (emit (emit_op l OMovImmediate) v) VAcc)))
    by (destruct c; try discriminate Hs; reflexivity).
  rewrite E, (heap_datum_is_datum c Hd). reflexivity.
Qed.

Lemma fwd_emit3 l o a b : fwd (emit (emit (emit_op l o) a) b) = fwd l ++ [VOp o; a; b].
Proof. rewrite !fwd_emit, fwd_emit_op, <- !app_assoc. reflexivity. Qed.

Lemma cok_datum (e : expr) d :
  (forall f l tail, compile_expression (S f) l tail (cell_of e) =
     (dom v <- maybe_put_cell_m d; ret (emit (emit (emit_op l OMovImmediate) v) VAcc))) ->
  heap_datum d -> (forall rho r rho', ref_eval rho e r rho' -> r = RDatum d /\ rho' = rho) ->
  compile_ok e.
Proof.
  intros Heq Hd Hinv f l tail s Hf Ht MI. destruct f as [|f]; [lia|]. rewrite Heq.
  destruct (maybe_put_cell_m_ok d s Hd MI) as (v & s' & E & MI' & X & R & V).
  exists (emit (emit (emit_op l OMovImmediate) v) VAcc), s', [VOp OMovImmediate; v; VAcc].
  unfold bindM. rewrite E. split; [reflexivity|]. split; [apply fwd_emit3|]. split; [repeat split|].
  split; [exact MI'|]. split; [exact X|]. split; [exact R|].
  intros rho r rho' HR. destruct (Hinv _ _ _ HR) as [-> ->]. apply exec_movimm. exact V.
Qed.

Lemma cok_const c : wf_expr (EConst c) -> compile_ok (EConst c).
Proof.
  intros [Hs Hd]. apply (cok_datum (EConst c) c); [intros; apply compile_const_eq; [exact Hs|exact Hd]|exact Hd|].
  intros rho r rho' HR. inversion HR; subst. auto.
Qed.

Lemma cok_quote d : wf_expr (EQuote d) -> compile_ok (EQuote d).
Proof.
  intros Hd. apply (cok_datum (EQuote d) d); [intros; apply compile_quote_form; exact Hd|exact Hd|].
  intros rho r rho' HR. inversion HR; subst. auto.
Qed.

(* ------------------------------------------------------------ global variable *)
Lemma compile_var_eq f l tail x s : is_primitive_symbol (CSym x) = false ->
  compile_expression (S f) l tail (CSym x) s =
  (dom sym_ref <- put_cell_m (CSym x);
   dom operand <- location_operand l sym_ref;
   ret (emit (emit (emit_op l OMov) operand) VAcc)) s.
Proof. intros H. cbn [compile_expression]. rewrite H. reflexivity. Qed.

Lemma cok_var x : wf_expr (EVar x) -> compile_ok (EVar x).
Proof.
  intros Hx f l tail s Hf Ht MI. destruct f as [|f]; [lia|]. cbn [cell_of]. rewrite (compile_var_eq _ _ _ _ _ Hx).
  destruct (put_sym_m_ok x s MI) as (a & s1 & E1 & MI1 & X1 & R1 & A & C & Eb & Eg).
  destruct (get_binding_ok a s1 MI1) as (k & s2 & E2 & MI2 & X2 & R2 & Eh & Es & B).
  exists (emit (emit (emit_op l OMov) (VGSlot k)) VAcc), s2, [VOp OMov; VGSlot k; VAcc].
  unfold bindM at 1. rewrite E1. unfold bindM at 1. rewrite (location_operand_top l a s1 Ht).
  unfold bindM at 1. rewrite E2. split; [reflexivity|]. split; [apply fwd_emit3|]. split; [repeat split|].
  split; [exact MI2|]. split; [eapply cext_trans; eassumption|]. split; [eapply same_regs_trans; eassumption|].
  intros rho r rho' HR. inversion HR; subst.
  apply (exec_load_global s2 _ a k x); auto; rewrite Eh; assumption.
Qed.

(* ------------------------------------------------------------ define / set! *)
Lemma compile_define_eq f l tail x e s : is_primitive_symbol (CSym x) = false ->
  compile_expression (S f) l tail (CPair DEFINE_ (CPair (CSym x) (CPair e CNil))) s =
  (dom l1 <- compile_expression f l false e;
   dom sym_ref <- put_cell_m (CSym x);
   dom operand <- location_operand (emit (emit_op l1 OMov) VAcc) sym_ref;
   ret (emit (emit (emit_op (emit (emit (emit_op l1 OMov) VAcc) operand) OMovImmediate) VVoid) VAcc)) s.
Proof.
  intros H. cbn [compile_expression]. unfold DEFINE_.
  change (sym_eq (CSym (S_ "define")) "define") with true. cbv iota.
  cbn [is_nil]. cbv iota. unfold bindM at 1. cbn [lift cdr_e]. cbn [is_nil]. cbv iota.
  unfold bindM at 1. cbn [lift car_e].
  unfold bindM at 1. unfold bindM at 1. cbn [lift cdr_e].  cbn [is_nil negb]. cbv iota.
  unfold bindM at 1. cbn [lift car_e].
  unfold bindM at 1. unfold bindM at 3.
  destruct (compile_expression f l false e s) as [l1 s1| | |]; try reflexivity.
  unfold ret at 1. rewrite H. reflexivity.
Qed.

Lemma compile_set_eq f l tail x e s : is_primitive_symbol (CSym x) = false ->
  compile_expression (S f) l tail (CPair SET_ (CPair (CSym x) (CPair e CNil))) s =
  (dom l1 <- compile_expression f l false e;
   dom sym_ref <- put_cell_m (CSym x);
   dom operand <- location_operand (emit (emit_op l1 OMov) VAcc) sym_ref;
   ret (emit (emit (emit_op (emit (emit (emit_op l1 OMov) VAcc) operand) OMovImmediate) VVoid) VAcc)) s.
Proof.
  intros H. cbn [compile_expression]. unfold SET_.
  change (sym_eq (CSym (S_ "set!")) "define") with false.
  change (sym_eq (CSym (S_ "set!")) "define-syntax") with false.
  change (sym_eq (CSym (S_ "set!")) "lambda" || sym_is (CSym (S_ "set!")) [955]) with false.
  change (sym_eq (CSym (S_ "set!")) "quasiquote") with false.
  change (sym_eq (CSym (S_ "set!")) "quote") with false.
  change (sym_eq (CSym (S_ "set!")) "if") with false.
  change (sym_eq (CSym (S_ "set!")) "set!") with true. cbv iota.
  cbn [cell_iter is_symbol negb orb]. rewrite H. reflexivity.
Qed.

Lemma fwd_store l1 k :
  fwd (emit (emit (emit_op (emit (emit (emit_op l1 OMov) VAcc) (VGSlot k)) OMovImmediate) VVoid) VAcc)
  = fwd l1 ++ [VOp OMov; VAcc; VGSlot k; VOp OMovImmediate; VVoid; VAcc].
Proof. rewrite !fwd_emit3, <- app_assoc. reflexivity. Qed.

(* shared by define and set!: value code, then the store *)
Lemma cok_store (e0 : expr) x e :
  (forall f l tail s, compile_expression (S f) l tail (cell_of e0) s =
    (dom l1 <- compile_expression f l false (cell_of e);
     dom sym_ref <- put_cell_m (CSym x);
     dom operand <- location_operand (emit (emit_op l1 OMov) VAcc) sym_ref;
     ret (emit (emit (emit_op (emit (emit (emit_op l1 OMov) VAcc) operand) OMovImmediate) VVoid) VAcc)) s) ->
  (cell_size (cell_of e) < cell_size (cell_of e0))%nat ->
  (forall rho r rho', ref_eval rho e0 r rho' ->
     exists r1 rho1, ref_eval rho e r1 rho1 /\ r = RDatum CVoid /\ rho' = upd rho1 x r1) ->
  compile_ok e -> compile_ok e0.
Proof.
  intros Heq Hsz Hinv IH f l tail s Hf Ht MI. destruct f as [|f]; [lia|]. rewrite Heq.
  destruct (IH f l false s ltac:(lia) Ht MI) as (l1 & s1 & code & E1 & F1 & S1 & MI1 & X1 & R1 & EX1).
  destruct (put_sym_m_ok x s1 MI1) as (a & s2 & E2 & MI2 & X2 & R2 & A & C & Eb & Eg).
  destruct (get_binding_ok a s2 MI2) as (k & s3 & E3 & MI3 & X3 & R3 & Eh & Es & B).
  assert (Ht1 : top_hdr (emit (emit_op l1 OMov) VAcc))
    by (eapply top_hdr_same; [|exact Ht]; eapply same_hdr_trans; [exact S1|repeat split]).
  eexists; exists s3, (code ++ [VOp OMov; VAcc; VGSlot k; VOp OMovImmediate; VVoid; VAcc]).
  unfold bindM at 1. rewrite E1. unfold bindM at 1. rewrite E2. unfold bindM at 1.
  rewrite (location_operand_top _ a s2 Ht1). unfold bindM at 1. rewrite E3.
  split; [reflexivity|]. split; [rewrite fwd_store, F1, <- app_assoc; reflexivity|].
  split; [eapply same_hdr_trans; [exact S1|repeat split]|]. split; [exact MI3|].
  assert (X13 : cext s1 s3) by (eapply cext_trans; eassumption).
  split; [eapply cext_trans; eassumption|].
  split; [eapply same_regs_trans; [exact R1|]; eapply same_regs_trans; eassumption|].
  intros rho r rho' HR. destruct (Hinv _ _ _ HR) as (r1 & rho1 & HR1 & -> & ->).
  intros m lp bc X MIm Hc Hs Hip G. apply seg_app in Hs as [Hs1 Hs2].
  destruct (EX1 _ _ _ HR1 m lp bc (cext_trans _ _ _ X13 X) MIm Hc Hs1 Hip G)
    as (n1 & m1 & St1 & Fr1 & MIm1 & Hip1 & V1 & G1).
  assert (X3m1 : cext s3 m1) by (eapply cext_trans; [exact X|apply Fr1]).
  destruct (ce_heap _ _ X3m1 a) as [A1 C1]; [rewrite Eh; exact A|]. rewrite Eh, C in C1.
  pose proof (ce_bind _ _ X3m1 a k B) as B1.
  destruct (exec_store_tail m1 lp bc _ a k x rho1 r1 MIm1 (code_in_ext _ _ _ _ Hc (fr_ext _ _ Fr1)) Hs2 Hip1 A1 C1 B1 V1 G1)
    as (m3 & St3 & Fr3 & MIm3 & Hip3 & Hacc & G3).
  exists (n1 + 2)%nat, m3. split; [eapply steps_trans; eassumption|].
  split; [eapply frame_trans; eassumption|]. split; [exact MIm3|].
  split; [rewrite Hip3, len_app; f_equal; change (len [VOp OMov; VAcc; VGSlot k; VOp OMovImmediate; VVoid; VAcc]) with 6; lia|].
  split; [rewrite Hacc; apply vrep_void|exact G3].
Qed.

Lemma cok_define x e : wf_expr (EDefine x e) -> compile_ok e -> compile_ok (EDefine x e).
Proof.
  intros [Hx _]. apply (cok_store (EDefine x e) x e).
  - intros. apply compile_define_eq. exact Hx.
  - cbn [cell_of cell_size]. lia.
  - intros rho r rho' HR. inversion HR; subst. eauto.
Qed.

Lemma cok_set x e : wf_expr (ESet x e) -> compile_ok e -> compile_ok (ESet x e).
Proof.
  intros [Hx _]. apply (cok_store (ESet x e) x e).
  - intros. apply compile_set_eq. exact Hx.
  - cbn [cell_of cell_size]. lia.
  - intros rho r rho' HR. inversion HR; subst. eauto.
Qed.

(* ------------------------------------------------------------ if *)
Definition vfalse (w : vcell) : bool := match w with VBool false => true | _ => false end.
Lemma vfalse_iff w : vfalse w = true <-> w = VBool false.
Proof. destruct w; cbn; try (split; intros; discriminate). destruct b; split; intros; try discriminate; reflexivity. Qed.

Lemma compile_if3_eq f l tail c a b s :
  compile_expression (S f) l tail (CPair IF_ (CPair c (CPair a (CPair b CNil)))) s =
  (dom l1 <- compile_expression f l false c;
   dom l4 <- compile_expression f (emit (emit_op l1 OJnt) (VPtr CAFEBEEF)) tail a;
   dom l8 <- compile_expression f
     (bc_patch (emit (emit_op l4 OJmp) (VPtr CAFEBEEF)) (bc_len (emit_op l1 OJnt))
               (VPtr (bc_len (emit (emit_op l4 OJmp) (VPtr CAFEBEEF))))) tail b;
   ret (bc_patch l8 (bc_len (emit_op l4 OJmp)) (VPtr (bc_len l8)))) s.
Proof. unfold IF_. rewrite compile_if_eq. reflexivity. Qed.

Lemma compile_if2_eq f l tail c a s :
  compile_expression (S f) l tail (CPair IF_ (CPair c (CPair a CNil))) s =
  (dom l1 <- compile_expression f l false c;
   dom l4 <- compile_expression f (emit (emit_op l1 OJnt) (VPtr CAFEBEEF)) tail a;
   ret (bc_patch
          (emit (emit (emit_op
             (bc_patch (emit (emit_op l4 OJmp) (VPtr CAFEBEEF)) (bc_len (emit_op l1 OJnt))
                       (VPtr (bc_len (emit (emit_op l4 OJmp) (VPtr CAFEBEEF))))) OMovImmediate) VVoid) VAcc)
          (bc_len (emit_op l4 OJmp))
          (VPtr (bc_len (emit (emit (emit_op
             (bc_patch (emit (emit_op l4 OJmp) (VPtr CAFEBEEF)) (bc_len (emit_op l1 OJnt))
                       (VPtr (bc_len (emit (emit_op l4 OJmp) (VPtr CAFEBEEF))))) OMovImmediate) VVoid) VAcc))))) s.
Proof. unfold IF_. rewrite compile_if_eq. reflexivity. Qed.

(* the bytecode of the two patched jumps, in execution order *)
Lemma if_layout l l1 l4 cc ca :
  fwd l1 = fwd l ++ cc ->
  fwd l4 = fwd (emit (emit_op l1 OJnt) (VPtr CAFEBEEF)) ++ ca ->
  let l6 := emit (emit_op l4 OJmp) (VPtr CAFEBEEF) in
  let l7 := bc_patch l6 (bc_len (emit_op l1 OJnt)) (VPtr (bc_len l6)) in
  bc_len l6 = len (fwd l) + len cc + 2 + len ca + 2 /\
  fwd l7 = fwd l ++ cc ++ [VOp OJnt; VPtr (bc_len l6)] ++ ca ++ [VOp OJmp; VPtr CAFEBEEF].
Proof.
  intros F1 F4 l6 l7.
  assert (F6 : fwd l6 = (fwd l ++ cc ++ [VOp OJnt]) ++ VPtr CAFEBEEF :: (ca ++ [VOp OJmp; VPtr CAFEBEEF])).
  { unfold l6. rewrite fwd_emit, fwd_emit_op, F4, fwd_emit, fwd_emit_op, F1. rewrite <- !app_assoc. reflexivity. }
  assert (L6 : bc_len l6 = len (fwd l) + len cc + 2 + len ca + 2).
  { rewrite bc_len_fwd, F6. lens. lia. }
  split; [exact L6|].
  unfold l7. rewrite fwd_patch.
  - rewrite F6. rewrite list_set_app_mid.
    + rewrite <- !app_assoc. reflexivity.
    + rewrite bc_len_fwd, fwd_emit_op, F1, <- app_assoc. reflexivity.
  - rewrite L6, bc_len_fwd, fwd_emit_op, F1. lens. lia.
Qed.

Lemma if_final l8 l4 pre cb :
  fwd l8 = (pre ++ [VOp OJmp]) ++ VPtr CAFEBEEF :: cb ->
  bc_len (emit_op l4 OJmp) = len pre + 1 ->
  fwd (bc_patch l8 (bc_len (emit_op l4 OJmp)) (VPtr (bc_len l8))) = pre ++ [VOp OJmp; VPtr (bc_len l8)] ++ cb.
Proof.
  intros F8 L. rewrite fwd_patch.
  - rewrite F8, list_set_app_mid; [rewrite <- app_assoc; reflexivity|]. rewrite L. lens. lia.
  - rewrite L, (bc_len_fwd l8), F8. lens. lia.
Qed.

(* the run of a compiled conditional: test, JNT, one branch, (JMP) *)
Lemma exec_if s0 p cc ca cb X Y rho rc rho1 r rho2 (else_branch : bool) :
  X = p + len cc + 2 + len ca + 2 -> Y = X + len cb ->
  exec_ok s0 p cc rho rc rho1 ->
  is_false rc = else_branch ->
  (if else_branch then exec_ok s0 X cb rho1 r rho2
   else exec_ok s0 (p + len cc + 2) ca rho1 r rho2) ->
  exec_ok s0 p (cc ++ [VOp OJnt; VPtr X] ++ ca ++ [VOp OJmp; VPtr Y] ++ cb) rho r rho2.
Proof.
  intros HX HY EXc Hrc EXb m lp bc Xm MI Hc Hs Hip G.
  apply seg_app in Hs as [Hsc Hs]. apply seg_app in Hs as [Hsj Hs]. rewrite len2 in Hs.
  apply seg_app in Hs as [Hsa Hs]. apply seg_app in Hs as [Hsm Hsb]. rewrite len2 in Hsb.
  destruct (EXc m lp bc Xm MI Hc Hsc Hip G) as (n1 & m1 & St1 & Fr1 & MI1 & Hip1 & V1 & G1).
  destruct (vrep_truth _ _ _ _ V1) as (w & Hw & Hwf).
  pose proof (code_in_ext _ _ _ _ Hc (fr_ext _ _ Fr1)) as Hc1.
  pose proof (step_jnt ob m1 lp _ bc X w Hc1 Hip1 Hsj Hw) as E2. fold (vfalse w) in E2.
  set (m2 := with_ip m1 (lp, if vfalse w then X else p + len cc + 2)) in *.
  assert (SM2 : same_mem m1 m2) by (repeat split).
  pose proof (same_mem_frame _ _ SM2) as Fr2.
  pose proof (same_mem_minv _ _ SM2 MI1) as MI2.
  assert (Hc2 : code_in m2 lp bc) by (apply code_in_ip; exact Hc1).
  assert (G2 : genv_rel rho1 m2) by (eapply genv_rel_frame; [exact Fr2|reflexivity|exact G1]).
  assert (X2 : cext s0 m2) by (eapply cext_trans; [exact Xm|]; eapply cext_trans; [apply Fr1|apply Fr2]).
  assert (Fr02 : frame m m2) by (eapply frame_trans; eassumption).
  destruct else_branch.
  - (* the test is #f: jump to the alternate *)
    assert (Hv : vfalse w = true) by (apply vfalse_iff, Hwf; exact Hrc).
    assert (Hip2 : ip m2 = (lp, X)) by (unfold m2; rewrite Hv; reflexivity).
    replace (p + len cc + 2 + len ca + 2) with X in Hsb by lia.
    destruct (EXb m2 lp bc X2 MI2 Hc2 Hsb Hip2 G2) as (n3 & m3 & St3 & Fr3 & MI3 & Hip3 & V3 & G3).
    exists (n1 + 1 + n3)%nat, m3.
    split; [eapply steps_trans; [eapply steps_trans; [exact St1|apply steps_one; exact E2]|exact St3]|].
    split; [eapply frame_trans; eassumption|]. split; [exact MI3|].
    split; [rewrite Hip3; f_equal; lens; lia|]. split; assumption.
  - (* the test is not #f: fall through into the consequent, then JMP over the alternate *)
    assert (Hv : vfalse w = false).
    { destruct (vfalse w) eqn:Ev; [|reflexivity]. apply vfalse_iff, Hwf in Ev. congruence. }
    assert (Hip2 : ip m2 = (lp, p + len cc + 2)) by (unfold m2; rewrite Hv; reflexivity).
    destruct (EXb m2 lp bc X2 MI2 Hc2 Hsa Hip2 G2) as (n3 & m3 & St3 & Fr3 & MI3 & Hip3 & V3 & G3).
    pose proof (code_in_ext _ _ _ _ Hc2 (fr_ext _ _ Fr3)) as Hc3.
    pose proof (step_jmp ob m3 lp _ bc Y Hc3 Hip3 Hsm) as E4.
    set (m4 := with_ip m3 (lp, Y)) in *.
    assert (SM4 : same_mem m3 m4) by (repeat split).
    exists (n1 + 1 + n3 + 1)%nat, m4.
    split; [eapply steps_trans; [eapply steps_trans; [eapply steps_trans; [exact St1|apply steps_one; exact E2]|exact St3]|apply steps_one; exact E4]|].
    split; [eapply frame_trans; [eapply frame_trans; eassumption|apply same_mem_frame; exact SM4]|].
    split; [eapply same_mem_minv; eassumption|].
    split; [cbn [ip m4 with_ip]; f_equal; lens; lia|].
    split; [exact V3|]. eapply genv_rel_frame; [apply same_mem_frame; exact SM4|reflexivity|exact G3].
Qed.

Lemma cok_if c a b : compile_ok c -> compile_ok a -> compile_ok b -> compile_ok (EIf c a b).
Proof.
  intros IHc IHa IHb f l tail s Hf Ht MI. destruct f as [|f]; [lia|].
  cbn [cell_of] in *. cbn [cell_size] in Hf. rewrite compile_if3_eq.
  destruct (IHc f l false s ltac:(lia) Ht MI) as (l1 & s1 & cc & E1 & F1 & S1 & MI1 & X1 & R1 & EX1).
  set (l3 := emit (emit_op l1 OJnt) (VPtr CAFEBEEF)).
  assert (S3 : same_hdr l l3) by (eapply same_hdr_trans; [exact S1|repeat split]).
  destruct (IHa f l3 tail s1 ltac:(lia) (top_hdr_same _ _ S3 Ht) MI1) as (l4 & s2 & ca & E4 & F4 & S4 & MI2 & X2 & R2 & EX4).
  destruct (if_layout l l1 l4 cc ca F1 F4) as [L6 F7].
  set (l6 := emit (emit_op l4 OJmp) (VPtr CAFEBEEF)) in *.
  set (l7 := bc_patch l6 (bc_len (emit_op l1 OJnt)) (VPtr (bc_len l6))) in *.
  assert (S7 : same_hdr l l7).
  { eapply same_hdr_trans; [exact S3|]. eapply same_hdr_trans; [exact S4|]. repeat split. }
  destruct (IHb f l7 tail s2 ltac:(lia) (top_hdr_same _ _ S7 Ht) MI2) as (l8 & s3 & cb & E8 & F8 & S8 & MI3 & X3 & R3 & EX8).
  set (p := len (fwd l)) in *.
  assert (L7 : len (fwd l7) = bc_len l6).
  { rewrite F7, L6. lens. fold p. lia. }
  assert (L3 : len (fwd l3) = p + len cc + 2).
  { unfold l3. rewrite fwd_emit, fwd_emit_op, F1. lens. fold p. lia. }
  assert (L8 : bc_len l8 = bc_len l6 + len cb) by (rewrite (bc_len_fwd l8), F8, len_app, L7; reflexivity).
  exists (bc_patch l8 (bc_len (emit_op l4 OJmp)) (VPtr (bc_len l8))), s3,
         (cc ++ [VOp OJnt; VPtr (bc_len l6)] ++ ca ++ [VOp OJmp; VPtr (bc_len l8)] ++ cb).
  unfold bindM at 1. rewrite E1. unfold bindM at 1. fold l3. rewrite E4. unfold bindM at 1. fold l6 l7. rewrite E8.
  split; [reflexivity|]. split.
  { rewrite (if_final l8 l4 (fwd l ++ cc ++ [VOp OJnt; VPtr (bc_len l6)] ++ ca) cb).
    - rewrite <- !app_assoc. reflexivity.
    - rewrite F8, F7, <- !app_assoc. reflexivity.
    - rewrite bc_len_fwd, fwd_emit_op, F4. lens. rewrite L3. lens. fold p. lia. }
  split; [eapply same_hdr_trans; [exact S7|]; eapply same_hdr_trans; [exact S8|repeat split]|].
  split; [exact MI3|].
  assert (X23 : cext s2 s3) by exact X3.
  assert (X13 : cext s1 s3) by (eapply cext_trans; eassumption).
  split; [eapply cext_trans; eassumption|].
  split; [eapply same_regs_trans; [exact R1|]; eapply same_regs_trans; eassumption|].
  assert (Hexec : forall s' q code rho r rho', cext s' s3 -> exec_ok s' q code rho r rho' -> exec_ok s3 q code rho r rho').
  { intros s' q code rho r rho' Xs EX m lp bc Xm. apply EX. eapply cext_trans; eassumption. }
  intros rho r rho' HR. inversion HR; subst.
  - apply (exec_if s3 p cc ca cb _ _ rho rc rho1 r rho' false L6 L8).
    + apply (Hexec s1); [exact X13|]. apply EX1. assumption.
    + assumption.
    + cbv iota. rewrite <- L3. apply (Hexec s2); [exact X23|]. apply EX4. assumption.
  - apply (exec_if s3 p cc ca cb _ _ rho rc rho1 r rho' true L6 L8).
    + apply (Hexec s1); [exact X13|]. apply EX1. assumption.
    + assumption.
    + cbv iota. rewrite <- L7. apply (Hexec s3); [apply cext_refl|]. apply EX8. assumption.
Qed.

Lemma cok_if1 c a : compile_ok c -> compile_ok a -> compile_ok (EIf1 c a).
Proof.
  intros IHc IHa f l tail s Hf Ht MI. destruct f as [|f]; [lia|].
  cbn [cell_of] in *. cbn [cell_size] in Hf. rewrite compile_if2_eq.
  destruct (IHc f l false s ltac:(lia) Ht MI) as (l1 & s1 & cc & E1 & F1 & S1 & MI1 & X1 & R1 & EX1).
  set (l3 := emit (emit_op l1 OJnt) (VPtr CAFEBEEF)).
  assert (S3 : same_hdr l l3) by (eapply same_hdr_trans; [exact S1|repeat split]).
  destruct (IHa f l3 tail s1 ltac:(lia) (top_hdr_same _ _ S3 Ht) MI1) as (l4 & s2 & ca & E4 & F4 & S4 & MI2 & X2 & R2 & EX4).
  destruct (if_layout l l1 l4 cc ca F1 F4) as [L6 F7].
  set (l6 := emit (emit_op l4 OJmp) (VPtr CAFEBEEF)) in *.
  set (l7 := bc_patch l6 (bc_len (emit_op l1 OJnt)) (VPtr (bc_len l6))) in *.
  assert (S7 : same_hdr l l7).
  { eapply same_hdr_trans; [exact S3|]. eapply same_hdr_trans; [exact S4|]. repeat split. }
  set (cb := [VOp OMovImmediate; VVoid; VAcc]).
  set (l8 := emit (emit (emit_op l7 OMovImmediate) VVoid) VAcc).
  assert (F8 : fwd l8 = fwd l7 ++ cb) by apply fwd_emit3.
  set (p := len (fwd l)) in *.
  assert (L7 : len (fwd l7) = bc_len l6).
  { rewrite F7, L6. lens. fold p. lia. }
  assert (L3 : len (fwd l3) = p + len cc + 2).
  { unfold l3. rewrite fwd_emit, fwd_emit_op, F1. lens. fold p. lia. }
  assert (L8 : bc_len l8 = bc_len l6 + len cb) by (rewrite (bc_len_fwd l8), F8, len_app, L7; reflexivity).
  exists (bc_patch l8 (bc_len (emit_op l4 OJmp)) (VPtr (bc_len l8))), s2,
         (cc ++ [VOp OJnt; VPtr (bc_len l6)] ++ ca ++ [VOp OJmp; VPtr (bc_len l8)] ++ cb).
  unfold bindM at 1. rewrite E1. unfold bindM at 1. fold l3. rewrite E4.
  split; [reflexivity|]. split.
  { rewrite (if_final l8 l4 (fwd l ++ cc ++ [VOp OJnt; VPtr (bc_len l6)] ++ ca) cb).
    - rewrite <- !app_assoc. reflexivity.
    - rewrite F8, F7, <- !app_assoc. reflexivity.
    - rewrite bc_len_fwd, fwd_emit_op, F4. lens. rewrite L3. lens. fold p. lia. }
  split; [eapply same_hdr_trans; [exact S7|repeat split]|].
  split; [exact MI2|].
  split; [eapply cext_trans; eassumption|]. split; [eapply same_regs_trans; eassumption|].
  assert (Hexec : forall s' q code rho r rho', cext s' s2 -> exec_ok s' q code rho r rho' -> exec_ok s2 q code rho r rho').
  { intros s' q code rho r rho' Xs EX m lp bc Xm. apply EX. eapply cext_trans; eassumption. }
  intros rho r rho' HR. inversion HR; subst.
  - apply (exec_if s2 p cc ca cb _ _ rho rc rho1 r rho' false L6 L8).
    + apply (Hexec s1); [exact X2|]. apply EX1. assumption.
    + assumption.
    + cbv iota. rewrite <- L3. apply EX4. assumption.
  - apply (exec_if s2 p cc ca cb _ _ rho rc rho' (RDatum CVoid) rho' true L6 L8).
    + apply (Hexec s1); [exact X2|]. apply EX1. assumption.
    + assumption.
    + cbv iota. apply exec_movimm. apply vrep_void.
Qed.

(* ------------------------------------------------------------ application *)
Definition cells_of (args : list expr) : cell := fold_right CPair CNil (map cell_of args).

Lemma cells_size x r : (cell_size (cell_of x) < cell_size (cells_of (x :: r)))%nat /\
                       (cell_size (cells_of r) < cell_size (cells_of (x :: r)))%nat.
Proof. unfold cells_of. cbn [map fold_right cell_size]. lia. Qed.

(* the operand loop: each operand's code followed by PUSH %acc; the values end up in
   the slots above the initial sp, in order *)
Definition exec_args (s0 : vm) (p : N) (code : list vcell) (args : list expr) : Prop :=
  forall rho rs rho', ref_evals rho args rs rho' ->
  forall m lp bc,
    cext s0 m -> minv m -> code_in m lp bc -> seg bc p code -> ip m = (lp, p) -> genv_rel rho m ->
    exists n m' vs, steps n m = Some m' /\ minv m' /\ ip m' = (lp, p + len code) /\ genv_rel rho' m' /\
      cext m m' /\ sp m' = sp m + len args /\ bp m' = bp m /\ ep m' = ep m /\ out_log m' = out_log m /\
      (forall j, j <= sp m -> sget m' j = sget m j) /\
      len vs = len args /\
      (forall i v, list_get vs i = Some v -> sget m' (sp m + 1 + i) = v) /\
      Forall2 (fun v r => vrep v r (hp m') (st m')) vs rs.

Lemma list_get_cons_S {A} (x : A) l i : list_get (x :: l) (i + 1) = list_get l i.
Proof. unfold list_get. replace (N.to_nat (i + 1)) with (S (N.to_nat i)) by lia. reflexivity. Qed.

Lemma args_ok args : Forall compile_ok args ->
  forall f l n s, (cell_size (cells_of args) < f)%nat -> top_hdr l -> minv s ->
  exists l' s' code, args_loop (compile_expression f) (cells_of args) l n s = ROk (l', n + len args) s' /\
    fwd l' = fwd l ++ code /\ same_hdr l l' /\ minv s' /\ cext s s' /\ same_regs s s' /\
    exec_args s' (len (fwd l)) code args.
Proof.
  induction 1 as [|x r Hx Hr IH]; intros f l n s Hf Ht MI.
  - exists l, s, []. cbn [cells_of map fold_right args_loop]. split; [unfold ret; f_equal; f_equal; cbn; lia|].
    split; [rewrite app_nil_r; reflexivity|]. split; [apply same_hdr_refl|]. split; [exact MI|].
    split; [apply cext_refl|]. split; [apply same_regs_refl|].
    intros rho rs rho' HR m lp bc X MIm Hc Hs Hip G. inversion HR; subst.
    exists 0%nat, m, []. split; [reflexivity|]. split; [exact MIm|].
    split; [rewrite Hip; f_equal; cbn; lia|]. split; [exact G|]. split; [apply cext_refl|].
    split; [cbn; lia|]. do 3 (split; [reflexivity|]). split; [auto|]. split; [reflexivity|].
    split; [intros i v Hi; unfold list_get in Hi; destruct (N.to_nat i); discriminate|constructor].
  - destruct (cells_size x r) as [Sx Sr].
    change (cells_of (x :: r)) with (CPair (cell_of x) (cells_of r)) in *. cbn [args_loop].
    destruct (Hx f l false s ltac:(lia) Ht MI) as (l1 & s1 & cx & E1 & F1 & S1 & MI1 & X1 & R1 & EX1).
    assert (S1' : same_hdr l (emit_op l1 OPushAcc)) by (eapply same_hdr_trans; [exact S1|repeat split]).
    destruct (IH f (emit_op l1 OPushAcc) (n + 1) s1 ltac:(lia) (top_hdr_same _ _ S1' Ht) MI1)
      as (l2 & s2 & cr & E2 & F2 & S2 & MI2 & X2 & R2 & EX2).
    exists l2, s2, (cx ++ [VOp OPushAcc] ++ cr).
    unfold bindM at 1. rewrite E1, E2.
    split; [f_equal; f_equal; rewrite len_cons; lia|].
    split; [rewrite F2, fwd_emit_op, F1, <- !app_assoc; reflexivity|].
    split; [eapply same_hdr_trans; eassumption|]. split; [exact MI2|]. split; [eapply cext_trans; eassumption|].
    split; [eapply same_regs_trans; eassumption|].
    assert (Lp : len (fwd (emit_op l1 OPushAcc)) = len (fwd l) + len cx + 1) by (rewrite fwd_emit_op, F1; lens; lia).
    rewrite Lp in EX2.
    intros rho rs rho' HR m lp bc X MIm Hc Hs Hip G. inversion HR; subst.
    apply seg_app in Hs as [Hsx Hs]. apply seg_app in Hs as [Hsp Hsr]. rewrite len1 in Hsr.
    match goal with H : ref_eval rho x _ _ |- _ => rename H into HRx end.
    match goal with H : ref_evals _ r _ _ |- _ => rename H into HRr end.
    destruct (EX1 _ _ _ HRx m lp bc (cext_trans _ _ _ X2 X) MIm Hc Hsx Hip G)
      as (n1 & m1 & St1 & Fr1 & MIm1 & Hip1 & V1 & G1).
    pose proof (code_in_ext _ _ _ _ Hc (fr_ext _ _ Fr1)) as Hc1.
    pose proof (step_pushacc ob m1 lp _ bc Hc1 Hip1 Hsp) as Ep.
    set (m2 := pushed (with_ip m1 (lp, len (fwd l) + len cx + 1)) (acc m1)) in *.
    assert (Xm12 : cext m1 m2) by (apply cext_same; try reflexivity; lia).
    assert (MIm2 : minv m2).
    { destruct MIm1 as [HI GI SP]. constructor; [exact HI|exact GI|]. apply pushed_sp_lt. exact SP. }
    assert (Hc2 : code_in m2 lp bc) by (eapply code_in_regs; [| |exact Hc1]; reflexivity).
    assert (G2 : genv_rel rho1 m2) by (eapply genv_rel_ext; [exact Xm12|reflexivity|exact G1]).
    assert (Xs2m2 : cext s2 m2) by (eapply cext_trans; [exact X|]; eapply cext_trans; [apply Fr1|exact Xm12]).
    assert (Hsp2 : sp m2 = sp m + 1) by (cbn [sp m2 pushed with_scap with_stack with_ip]; rewrite (fr_sp _ _ Fr1); reflexivity).
    destruct (EX2 _ _ _ HRr m2 lp bc Xs2m2 MIm2 Hc2 Hsr eq_refl G2)
      as (n3 & m3 & vs & St3 & MIm3 & Hip3 & G3 & Xm23 & Hsp3 & Hbp3 & Hep3 & Hlog3 & Hst3 & Hlen & Hvs & Vvs).
    exists (n1 + 1 + n3)%nat, m3, (acc m1 :: vs).
    split; [eapply steps_trans; [eapply steps_trans; [exact St1|apply steps_one; exact Ep]|exact St3]|].
    split; [exact MIm3|]. split; [rewrite Hip3; f_equal; lens; lia|]. split; [exact G3|].
    split; [eapply cext_trans; [apply Fr1|]; eapply cext_trans; eassumption|].
    split; [rewrite Hsp3, Hsp2, len_cons; lia|].
    split; [rewrite Hbp3; cbn [bp m2 pushed with_scap with_stack with_ip]; apply Fr1|].
    split; [rewrite Hep3; cbn [ep m2 pushed with_scap with_stack with_ip]; apply Fr1|].
    split; [rewrite Hlog3; cbn [out_log m2 pushed with_scap with_stack with_ip]; apply Fr1|].
    assert (Hkeep : forall j, j <= sp m -> sget m3 j = sget m j).
    { intros j Hj. rewrite Hst3 by lia. unfold m2. rewrite sget_pushed_other.
      - change (sget (with_ip m1 _) j) with (sget m1 j). apply Fr1. exact Hj.
      - cbn [sp with_ip]. rewrite (fr_sp _ _ Fr1). lia. }
    split; [exact Hkeep|]. split; [rewrite !len_cons, Hlen; reflexivity|].
    split.
    + intros i v Hi. destruct (N.eq_dec i 0) as [->|Hne].
      * cbn in Hi. injection Hi as <-. rewrite N.add_0_r. rewrite Hst3 by lia. unfold m2.
        replace (sp m + 1) with (sp (with_ip m1 (lp, len (fwd l) + len cx + 1)) + 1)
          by (cbn [sp with_ip]; rewrite (fr_sp _ _ Fr1); reflexivity).
        apply sget_pushed_top.
      * replace i with (i - 1 + 1) in Hi by lia. rewrite list_get_cons_S in Hi.
        apply Hvs in Hi. rewrite Hsp2 in Hi. rewrite <- Hi. f_equal. lia.
    + constructor; [|exact Vvs]. eapply vrep_ext; [exact V1|]. apply cext_ext. eapply cext_trans; eassumption.
Qed.

Lemma list_get_lt {A} (l : list A) i v : list_get l i = Some v -> i < len l.
Proof.
  unfold list_get, len. intros H. assert (nth_error l (N.to_nat i) <> None) by congruence.
  apply nth_error_Some in H0. lia.
Qed.

Lemma cext_heap s h' : hext (hp s) h' -> cext s (with_heap s h').
Proof. intros H. constructor; cbn [hp st g_bind g_slots with_heap]; auto using sext_refl. lia. Qed.

Lemma cok_app f0 args : (forall b, builtin_ok b) -> wf_expr (EApp f0 args) ->
  compile_ok f0 -> Forall compile_ok args -> compile_ok (EApp f0 args).
Proof.
  intros Hb Hwf IHf IHargs f l tail s Hf Ht MI. destruct f as [|f]; [lia|].
  apply wf_app in Hwf as (Hsp & _ & _).
  cbn [cell_of] in *. fold (cells_of args) in *. cbn [cell_size] in Hf.
  rewrite compile_application_eq by exact Hsp.
  destruct (args_ok args IHargs f l 0 s ltac:(lia) Ht MI) as (l1 & s1 & ca & E1 & F1 & S1 & MI1 & X1 & R1 & EX1).
  rewrite N.add_0_l in E1.
  set (l2 := emit (emit_op l1 OPushImmediate) (VArgc (len args))).
  assert (S2 : same_hdr l l2) by (eapply same_hdr_trans; [exact S1|repeat split]).
  destruct (IHf f l2 false s1 ltac:(lia) (top_hdr_same _ _ S2 Ht) MI1) as (l3 & s2 & cf & E3 & F3 & S3 & MI2 & X2 & R2 & EX3).
  set (callop := VOp (if tail then OTCallAcc else OCallAcc)).
  exists (emit_op l3 (if tail then OTCallAcc else OCallAcc)), s2,
         (ca ++ [VOp OPushImmediate; VArgc (len args)] ++ cf ++ [callop]).
  unfold bindM at 1. rewrite E1. cbv beta iota. unfold bindM at 1. fold l2. rewrite E3.
  split; [reflexivity|].
  split; [rewrite fwd_emit_op, F3; unfold l2; rewrite fwd_emit, fwd_emit_op, F1, <- !app_assoc; reflexivity|].
  split; [eapply same_hdr_trans; [exact S2|]; eapply same_hdr_trans; [exact S3|repeat split]|].
  split; [exact MI2|]. split; [eapply cext_trans; eassumption|]. split; [eapply same_regs_trans; eassumption|].
  set (p := len (fwd l)) in *.
  assert (L2 : len (fwd l2) = p + len ca + 2) by (unfold l2; rewrite fwd_emit, fwd_emit_op, F1; lens; fold p; lia).
  rewrite L2 in EX3.
  intros rho r rho' HR. inversion HR; subst.
  match goal with H : ref_evals rho args _ _ |- _ => rename H into HRa end.
  match goal with H : ref_eval _ f0 _ _ |- _ => rename H into HRf end.
  match goal with H : bsem _ _ = Some r |- _ => rename H into Hsem end.
  intros m lp bc X MIm Hc Hs Hip G.
  apply seg_app in Hs as [Hsa Hs]. apply seg_app in Hs as [Hsi Hs]. rewrite len2 in Hs.
  apply seg_app in Hs as [Hsf Hsc].
  (* operands *)
  destruct (EX1 _ _ _ HRa m lp bc (cext_trans _ _ _ X2 X) MIm Hc Hsa Hip G)
    as (n1 & m1 & vs & St1 & MIm1 & Hip1 & G1 & Xm1 & Hsp1 & Hbp1 & Hep1 & Hlog1 & Hst1 & Hlen & Hvs & Vvs).
  pose proof (code_in_ext _ _ _ _ Hc Xm1) as Hc1.
  (* PUSH Argc n *)
  pose proof (step_pushimm ob m1 lp _ bc _ Hc1 Hip1 Hsi ltac:(discriminate)) as Ei.
  set (m2 := pushed (with_ip m1 (lp, p + len ca + 2)) (VArgc (len args))) in *.
  assert (Xm12 : cext m1 m2) by (apply cext_same; try reflexivity; lia).
  assert (MIm2 : minv m2).
  { destruct MIm1 as [HI GI SP]. constructor; [exact HI|exact GI|]. apply pushed_sp_lt. exact SP. }
  assert (Hc2 : code_in m2 lp bc) by (eapply code_in_regs; [| |exact Hc1]; reflexivity).
  assert (G2 : genv_rel rho1 m2) by (eapply genv_rel_ext; [exact Xm12|reflexivity|exact G1]).
  assert (Xs2m2 : cext s2 m2) by (eapply cext_trans; [exact X|]; eapply cext_trans; eassumption).
  assert (Hsp2 : sp m2 = sp m + len args + 1) by (cbn [sp m2 pushed with_scap with_stack with_ip]; rewrite Hsp1; reflexivity).
  (* operator *)
  destruct (EX3 _ _ _ HRf m2 lp bc Xs2m2 MIm2 Hc2 Hsf eq_refl G2)
    as (n3 & m3 & St3 & Fr3 & MIm3 & Hip3 & V3 & G3).
  pose proof (code_in_ext _ _ _ _ Hc2 (fr_ext _ _ Fr3)) as Hc3.
  destruct V3 as (pb & Hacc3 & Ab & Cb).
  assert (Hd3 : heap_deref (hp m3) (acc m3) = Ok (VBuiltin b)).
  { rewrite Hacc3. cbn [heap_deref]. rewrite (heap_get_alloc _ _ Ab), Cb. reflexivity. }
  set (q := p + len ca + 2 + len cf) in *.
  set (m3' := with_ip m3 (lp, q + 1)).
  assert (SM3 : same_mem m3 m3') by (repeat split).
  pose proof (same_mem_minv _ _ SM3 MIm3) as MIm3'.
  assert (Hsp3 : sp m3' = sp m + len vs + 1) by (cbn [sp m3' with_ip]; rewrite (fr_sp _ _ Fr3), Hsp2, Hlen; reflexivity).
  assert (Hm23 : forall j, j <= sp m2 -> sget m3' j = sget m2 j) by (intros j Hj; apply (fr_stack _ _ Fr3); exact Hj).
  assert (Htop : sget m3' (sp m3') = VArgc (len vs)).
  { rewrite Hsp3, Hm23 by (rewrite Hsp2, Hlen; lia). rewrite Hlen, <- Hsp1. unfold m2.
    change (sp m1) with (sp (with_ip m1 (lp, p + len ca + 2))). apply sget_pushed_top. }
  assert (Hargs : forall i v, list_get vs i = Some v -> sget m3' (sp m + 1 + i) = v).
  { intros i v Hi. pose proof (list_get_lt _ _ _ Hi) as Hlt. rewrite Hm23 by (rewrite Hsp2, <- Hlen; lia).
    unfold m2. rewrite sget_pushed_other by (cbn [sp with_ip]; rewrite Hsp1, <- Hlen; lia).
    change (sget (with_ip m1 _) (sp m + 1 + i)) with (sget m1 (sp m + 1 + i)). apply Hvs. exact Hi. }
  assert (Vvs3 : Forall2 (fun v r => vrep v r (hp m3') (st m3')) vs rs).
  { clear -Vvs Xm12 Fr3. induction Vvs as [|v0 r0 vs0 rs0 V0 _ IHV]; constructor; [|exact IHV].
    eapply vrep_ext; [exact V0|]. apply (cext_ext m1 m3). eapply cext_trans; [exact Xm12|apply Fr3]. }
  destruct (Hb b m3' (sp m) vs rs r MIm3' Hsp3 Htop Hargs Vvs3 Hsem)
    as (v & m4 & Hrun & MIm4 & Xm34 & V4 & Hsp4 & Hst4 & Hbp4 & Hep4 & Hip4 & Hg4 & Hlog4).
  destruct (match v with VPtr _ => (v, hp m4) | _ => heap_maybe_put (hp m4) v end) as [v' h'] eqn:Ebox.
  destruct (vrep_box _ _ _ _ _ _ (mi_heap _ MIm4) V4 Ebox) as (HI5 & Hx5 & V5).
  pose proof (step_call_builtin ob m3 lp q bc tail b v m4 v' h' Hc3 Hip3 Hsc Hd3 Hrun Ebox) as Ec.
  set (m5 := with_acc (with_heap m4 h') v') in *.
  assert (Xm45 : cext m4 m5).
  { eapply cext_trans; [apply (cext_heap m4 h' Hx5)|]. apply cext_same; try reflexivity; cbn [g_slots with_acc with_heap]; lia. }
  assert (Xm35 : cext m3 m5).
  { eapply cext_trans; [apply (fr_ext _ _ (same_mem_frame _ _ SM3))|]. eapply cext_trans; eassumption. }
  exists (n1 + 1 + n3 + 1)%nat, m5.
  split; [eapply steps_trans; [eapply steps_trans; [eapply steps_trans; [exact St1|apply steps_one; exact Ei]|exact St3]|apply steps_one; exact Ec]|].
  split.
  { constructor.
    - eapply cext_trans; [exact Xm1|]. eapply cext_trans; [exact Xm12|]. eapply cext_trans; [apply Fr3|exact Xm35].
    - exact Hsp4.
    - change (bp m5) with (bp m4). rewrite Hbp4. change (bp m3') with (bp m3). rewrite (fr_bp _ _ Fr3). exact Hbp1.
    - change (ep m5) with (ep m4). rewrite Hep4. change (ep m3') with (ep m3). rewrite (fr_ep _ _ Fr3). exact Hep1.
    - change (out_log m5) with (out_log m4). rewrite Hlog4. change (out_log m3') with (out_log m3).
      rewrite (fr_log _ _ Fr3). exact Hlog1.
    - intros j Hj. change (sget m5 j) with (sget m4 j). rewrite Hst4 by exact Hj.
      rewrite Hm23 by (rewrite Hsp2; lia). unfold m2.
      rewrite sget_pushed_other by (cbn [sp with_ip]; rewrite Hsp1; lia).
      change (sget (with_ip m1 _) j) with (sget m1 j). apply Hst1. exact Hj. }
  split.
  { destruct MIm4 as [HI4 GI4 SP4]. constructor; [exact HI5|exact GI4|exact SP4]. }
  split.
  { change (ip m5) with (ip m4). rewrite Hip4. cbn [ip m3' with_ip]. f_equal. unfold q. lens. lia. }
  split; [exact V5|].
  eapply genv_rel_ext; [exact Xm35| |exact G3]. change (g_slots m5) with (g_slots m4). rewrite Hg4. reflexivity.
Qed.

(* ------------------------------------------------------------ the fragment, by induction *)
Theorem compile_correct : (forall b, builtin_ok b) -> forall e, wf_expr e -> compile_ok e.
Proof.
  intros Hb. induction e as [c|d|c a b IHc IHa IHb|c a IHc IHa|x|x e IH|x e IH|f0 args IHf IHargs] using expr_ind2;
    intros Hwf.
  - apply cok_const. exact Hwf.
  - apply cok_quote. exact Hwf.
  - destruct Hwf as (Wc & Wa & Wb). apply cok_if; auto.
  - destruct Hwf as (Wc & Wa). apply cok_if1; auto.
  - apply cok_var. exact Hwf.
  - apply cok_define; [exact Hwf|]. apply IH. apply Hwf.
  - apply cok_set; [exact Hwf|]. apply IH. apply Hwf.
  - pose proof Hwf as Hwf'. apply wf_app in Hwf' as (_ & Wf & Wargs).
    apply cok_app; auto.
    clear -IHargs Wargs. induction IHargs as [|x r Hx _ IH]; constructor; inversion Wargs; subst; auto.
Qed.

End Sem.

(* the hypothesis on builtins is satisfiable for ANY table: with the empty specification
   (no builtin has a specified result) every builtin is ok; it is proved for a real
   builtin below *)
Lemma builtin_ok_unspecified ob b : builtin_ok ob (fun _ _ => None) b.
Proof. intros m sp0 vs rs r _ _ _ _ _ H. discriminate. Qed.

Print Assumptions compile_correct.

(* ============================================================ a real builtin: `not` *)
From MW Require Model.ListVec Model.Builtins.

Definition B_NOT : N :=
  match find_index (fun e => text_eqb (fst e) (S_ "not")) Gen.Builtins.builtin_table 0 with
  | Some i => i | None => 0 end.

Lemma run_builtin_not : Vm.run_builtin Builtins.other_builtin B_NOT = ListVec.not_b.
Proof. vm_compute. reflexivity. Qed.

(* the specification table that knows `not` only *)
Definition bsem_not (b : N) (rs : list rval) : option rval :=
  if b =? B_NOT then match rs with [r] => Some (RDatum (CBool (is_false r))) | _ => None end else None.

Lemma vrep_bool b h s : vrep (VBool b) (RDatum (CBool b)) h s.
Proof. split; [apply reads_imm; intros; reflexivity|intros p; discriminate]. Qed.

Theorem builtin_ok_not : forall b, builtin_ok Builtins.other_builtin bsem_not b.
Proof.
  intros b m sp0 vs rs r MI Hsp Htop Hargs Hvs Hsem. unfold bsem_not in Hsem.
  destruct (N.eqb_spec b B_NOT) as [->|]; [|discriminate].
  destruct rs as [|r1 [|? ?]]; try discriminate. injection Hsem as <-.
  inversion Hvs as [|v1 r1' vs1 rs1 V1 Hnil]; subst. inversion Hnil; subst.
  change (len [v1]) with 1 in *.
  pose proof (Hargs 0 v1 eq_refl) as H1. rewrite N.add_0_r in H1.
  destruct (vrep_truth _ _ _ _ V1) as (w & Hw & Hwf).
  pose proof (mi_sp _ MI) as Hcap.
  rewrite run_builtin_not. unfold ListVec.not_b.
  unfold bindM at 1. unfold pop_argc. unfold bindM at 1. unfold pop_raw at 1.
  destruct (N.eqb_spec (sp m) 0) as [E0|_]; [lia|].
  destruct (N.ltb_spec (sp m) (scap m)) as [_|]; [|lia].
  rewrite Htop. change ((1 <? 1) || (1 <? 1)) with false. cbv iota. unfold ret at 1.
  unfold bindM at 1. unfold pop_value, pop_deref. unfold bindM at 1. unfold pop_raw.
  cbn [sp scap with_sp with_stack].
  destruct (N.eqb_spec (sp m - 1) 0) as [E0|_]; [lia|].
  destruct (N.ltb_spec (sp m - 1) (scap m)) as [_|]; [|lia].
  change (sget (with_sp m (sp m - 1)) (sp m - 1)) with (sget m (sp m - 1)).
  replace (sp m - 1) with (sp0 + 1) by lia. rewrite H1.
  unfold hderef, lift. cbn [hp with_sp with_stack]. rewrite Hw. unfold ret.
  set (m' := with_sp (with_sp m (sp0 + 1)) (sp0 + 1 - 1)).
  assert (Hres : VBool (match w with VBool b0 => negb b0 | _ => false end) = VBool (is_false r1)).
  { f_equal. destruct (is_false r1) eqn:Ef.
    - destruct Hwf as [_ Hwf]. rewrite (Hwf eq_refl). reflexivity.
    - destruct w; try reflexivity. destruct b; [reflexivity|]. destruct Hwf as [Hwf _]. discriminate (Hwf eq_refl). }
  rewrite Hres. exists (VBool (is_false r1)), m'. split; [reflexivity|].
  split; [destruct MI as [HI GI SP]; constructor; [exact HI|exact GI|cbn [sp scap m' with_sp with_stack]; lia]|].
  split; [apply cext_same; try reflexivity; lia|]. split; [apply vrep_bool|].
  split; [cbn [sp m' with_sp with_stack]; lia|]. split; [intros j _; reflexivity|].
  repeat split.
Qed.

(* ============================================================ non-vacuity *)
(* (if (define x '(#t)) x #f) : define, if, global reference, quote, constant *)
Definition ex_datum : cell := CPair (CBool true) CNil.
Definition ex_e : expr :=
  EIf (EDefine (S_ "x") (EQuote ex_datum)) (EVar (S_ "x")) (EConst (CBool false)).
Definition rho_empty : env := fun _ => None.

Lemma minv_vm_empty c : 0 < c -> minv (vm_empty c).
Proof.
  intros Hc. constructor.
  - apply heap_inv_new. exact Hc.
  - split; intros; discriminate.
  - cbn. reflexivity.
Qed.

Lemma ex_hypotheses :
  wf_expr ex_e /\ minv (vm_empty 8192) /\ genv_rel rho_empty (vm_empty 8192) /\
  ref_eval bsem_not rho_empty ex_e (RDatum ex_datum) (upd rho_empty (S_ "x") (RDatum ex_datum)).
Proof.
  split; [cbn; repeat split|]. split; [apply minv_vm_empty; reflexivity|].
  split; [intros x r H; discriminate|].
  eapply RE_if_t.
  - apply RE_define. apply RE_quote.
  - reflexivity.
  - apply RE_var; [reflexivity|discriminate].
Qed.

(* (not (not '#f)) needs a machine whose global `not` is the builtin; the reference
   derivation: *)
Definition ex_app : expr := EApp (EVar (S_ "not")) [EApp (EVar (S_ "not")) [EQuote (CBool false)]].
Lemma ex_app_ref rho : rho (S_ "not") = Some (RBuiltin B_NOT) ->
  wf_expr ex_app /\ ref_eval bsem_not rho ex_app (RDatum (CBool false)) rho.
Proof.
  intros H. split; [cbn; repeat split|].
  eapply RE_app; [|apply RE_var; [exact H|discriminate]|].
  - eapply RE_cons; [|apply RE_nil].
    eapply RE_app; [|apply RE_var; [exact H|discriminate]|].
    + eapply RE_cons; [apply RE_quote|apply RE_nil].
    + unfold bsem_not. rewrite N.eqb_refl. reflexivity.
  - unfold bsem_not. rewrite N.eqb_refl. reflexivity.
Qed.

(* ============================================================ the whole evaluation: Vm::eval *)
Section Top.
Variable ob : N -> M vcell.
Variable bsem : N -> list rval -> option rval.
Notation run_one := (Vm.run_one ob).
Notation steps := (RunProofs.steps ob).

Ltac fetch_op' Hc Hip H0 :=
  unfold Vm.run_one; unfold bindM at 1;
  rewrite (read_opcode_ok _ _ _ _ _ Hc Hip H0); cbv beta iota.

(* CALL %acc of a lambda: push %ep and the return address, enter the callee *)
Lemma step_call_lambda m lp i bc a lid : code_in m lp bc -> ip m = (lp, i) -> seg bc i [VOp OCallAcc] ->
  acc m = VPtr a -> heap_get (hp m) a = Ok (VLambda lid) ->
  run_one m = ROk false (with_ip (pushed (pushed (with_ip m (lp, i + 1)) (VEp (ep m))) (VIp lp (i + 1))) (a, 0)).
Proof.
  intros Hc Hip Hs Hacc Hg. apply seg_head in Hs as [H0 _].
  fetch_op' Hc Hip H0.
  assert (E : Vm.resolve_callee ob (with_ip m (lp, i + 1)) = ROk (CLambda a) (with_ip m (lp, i + 1))).
  { unfold Vm.resolve_callee. unfold bindM at 1. unfold get_vm. unfold bindM at 1.
    unfold hderef, lift. cbn [hp acc with_ip]. rewrite Hacc. cbn [heap_deref]. rewrite Hg.
    rewrite ?Hacc. reflexivity. }
  unfold bindM at 1. rewrite E. reflexivity.
Qed.

(* ENTER of a closure-less lambda without formals *)
Lemma step_enter_top m a bc lid lam : code_in m a bc -> ip m = (a, 0) -> list_get bc 0 = Some (VOp OEnter) ->
  acc m = VPtr a -> heap_get (hp m) a = Ok (VLambda lid) -> tget (lams (st m)) lid = Some lam -> l_args lam = [] ->
  3 <= sp m -> sp m < scap m -> sget m (sp m - 2) = VArgc 0 ->
  run_one m = ROk false (with_bp (pushed (with_ip m (a, 1)) (VBp (bp m))) (sp m + 1 - 4)).
Proof.
  intros Hc Hip H0 Hacc Hg Hl Hargs Hsp Hcap Hargc.
  fetch_op' Hc Hip H0. change (0 + 1) with 1.
  unfold enter_frame. unfold bindM at 1. unfold get_vm. unfold bindM at 1.
  unfold hderef, lift. cbn [hp acc with_ip]. rewrite Hacc. cbn [heap_deref]. rewrite Hg.
  unfold bindM at 1. rewrite ?Hacc. cbn [as_ptr]. unfold bindM at 1. unfold ret at 1. unfold ret at 1.
  unfold bindM at 1. unfold hget, lift. cbn [hp with_ip]. rewrite Hg.
  unfold bindM at 1. cbn [as_lambda]. unfold get_lambda. cbn [st with_ip]. rewrite Hl.
  unfold bindM at 1. unfold stack_get_offset. cbn [sp with_ip].
  destruct (Z.ltb_spec (Z.of_N (sp m) + -2) 0) as [Hz|_]; [lia|].
  replace (Z.to_N (Z.of_N (sp m) + -2)) with (sp m - 2) by lia.
  unfold stack_get. cbn [scap with_ip].
  destruct (N.ltb_spec (sp m - 2) (scap m)) as [_|]; [|lia].
  change (sget (with_ip m (a, 1)) (sp m - 2)) with (sget m (sp m - 2)). rewrite Hargc.
  unfold bindM at 1. cbn [as_argc]. unfold ret at 1. rewrite Hargs. change (0 =? len []) with true. cbn [negb].
  unfold bindM at 1. rewrite push_eq. unfold bindM at 1. unfold bindM at 1. unfold usub.
  cbn [sp pushed with_scap with_stack with_ip].
  destruct (N.ltb_spec (sp m + 1) 4) as [|_]; [lia|]. reflexivity.
Qed.

(* RET from a frame whose argument count is 0 *)
Lemma step_ret m lp i bc e l0 i0 b : code_in m lp bc -> ip m = (lp, i) -> seg bc i [VOp ORet] ->
  bp m + 4 < scap m ->
  sget m (bp m + 1) = VArgc 0 -> sget m (bp m + 2) = VEp e -> sget m (bp m + 3) = VIp l0 i0 ->
  sget m (bp m + 4) = VBp b ->
  run_one m = ROk false (with_bp (with_ip (with_ep (with_sp (with_ip m (lp, i + 1)) (bp m - 0)) e) (l0, i0)) b).
Proof.
  intros Hc Hip Hs Hcap H1 H2 H3 H4. apply seg_head in Hs as [H0 _].
  fetch_op' Hc Hip H0.
  unfold bindM at 1. unfold get_vm. cbn [bp with_ip].
  unfold bindM at 1. unfold stack_get at 1. cbn [scap with_ip].
  destruct (N.ltb_spec (bp m + 1) (scap m)) as [_|]; [|lia].
  change (sget (with_ip m (lp, i + 1)) (bp m + 1)) with (sget m (bp m + 1)). rewrite H1.
  unfold bindM at 1. cbn [as_argc]. unfold ret at 1. unfold bindM at 1. unfold usub.
  destruct (N.ltb_spec (bp m) 0) as [|_]; [lia|]. unfold ret at 1.
  unfold bindM at 1. unfold set_sp at 1.
  unfold bindM at 1. unfold stack_get at 1. cbn [scap with_sp with_stack with_ip].
  destruct (N.ltb_spec (bp m + 2) (scap m)) as [_|]; [|lia].
  change (sget (with_sp (with_ip m (lp, i + 1)) (bp m - 0)) (bp m + 2)) with (sget m (bp m + 2)). rewrite H2.
  unfold bindM at 1. cbn [as_ep]. unfold ret at 1. unfold bindM at 1. unfold set_ep at 1.
  unfold bindM at 1. unfold stack_get at 1. cbn [scap with_ep with_sp with_stack with_ip].
  destruct (N.ltb_spec (bp m + 3) (scap m)) as [_|]; [|lia].
  change (sget (with_ep (with_sp (with_ip m (lp, i + 1)) (bp m - 0)) e) (bp m + 3)) with (sget m (bp m + 3)). rewrite H3.
  unfold bindM at 1. cbn [as_ip]. unfold ret at 1. unfold bindM at 1. unfold set_ip at 1.
  unfold bindM at 1. unfold stack_get at 1. cbn [scap with_ep with_sp with_stack with_ip].
  destruct (N.ltb_spec (bp m + 4) (scap m)) as [_|]; [|lia].
  change (sget (with_ip (with_ep (with_sp (with_ip m (lp, i + 1)) (bp m - 0)) e) (l0, i0)) (bp m + 4)) with (sget m (bp m + 4)).
  rewrite H4. reflexivity.
Qed.

Lemma step_halt m lp i bc : code_in m lp bc -> ip m = (lp, i) -> seg bc i [VOp OHalt] ->
  run_one m = ROk true (with_ip m (lp, i + 1)).
Proof. intros Hc Hip Hs. apply seg_head in Hs as [H0 _]. fetch_op' Hc Hip H0. reflexivity. Qed.

End Top.

(* ------------------------------------------------------------ prepare_eval + run *)
Lemma genv_rel_compile rho s s' : cext s s' -> same_regs s s' ->
  genv_rel rho s -> genv_rel rho s'.
Proof.
  intros X (_ & _ & _ & _ & _ & _ & more & Eg) G x r Hx. destruct (G x r Hx) as (a & k & v & A & C & B & L & V).
  destruct (ce_heap _ _ X a A) as [A' C'].
  exists a, k, v. split; [exact A'|]. split; [congruence|]. split; [apply (ce_bind _ _ X); exact B|].
  split; [rewrite Eg, list_get_app_l; [exact L|eapply list_get_lt; exact L]|].
  eapply vrep_ext; [exact V|apply cext_ext; exact X].
Qed.

Lemma put_lambda_spec L s : minv s ->
  exists a s2, put_lambda L s = ROk (VPtr a) s2 /\ minv s2 /\ cext s s2 /\ same_regs s s2 /\
    g_bind s2 = g_bind s /\ acc s2 = acc s /\
    allocated (hp s2) a /\ cell_at (hp s2) a = VLambda (next_id (st s)) /\
    next_id (st s) < next_id (st s2) /\ tget (lams (st s2)) (next_id (st s)) = Some (lambda_finish L).
Proof.
  intros MI. destruct (heap_put (hp s) (VLambda (next_id (st s)))) as [r h] eqn:E.
  destruct (heap_put_frame _ _ _ _ (mi_heap _ MI) E ltac:(discriminate)) as (a & -> & A & C & HI & Fr).
  exists a, (with_store (with_heap s h) (snd (new_lam (st s) (lambda_finish L)))).
  split; [unfold put_lambda, new_lam; cbv beta iota; rewrite E; reflexivity|].
  split; [apply minv_heap_store; assumption|].
  split.
  { constructor; cbn [hp st g_bind g_slots with_store with_heap new_lam snd]; auto.
    - split; cbn [next_id strs vecs]; [lia|auto].
    - intros i Hi. cbn [lams]. apply tget_tset_other. lia.
    - lia. }
  split; [apply same_regs_gslots; reflexivity|].
  cbn [hp st g_bind acc with_store with_heap new_lam snd next_id lams].
  split; [reflexivity|]. split; [reflexivity|]. split; [exact A|]. split; [exact C|]. split; [lia|].
  apply tget_tset_same.
Qed.

Definition top_lam : lambda := emit_op (set_top (lambda_from_iof [] [] (lambda_new []) [] false)) OEnter.
Definition entry_lam (lp : vcell) : lambda :=
  emit_op (emit_op (emit (emit (emit_op (emit (emit_op (lambda_new []) OPushImmediate) (VArgc 0))
                                        OMovImmediate) lp) VAcc) OCallAcc) OHalt.

Lemma compile_runnable_eq e s : compile_runnable e s =
  (dom lam1 <- compile top_lam true e; dom lp <- put_lambda (emit_op lam1 ORet); ret (entry_lam lp)) s.
Proof. reflexivity. Qed.

Section Eval.
Variable ob : N -> M vcell.
Variable bsem : N -> list rval -> option rval.
Hypothesis Hb : forall b, builtin_ok ob bsem b.
Notation run_one := (Vm.run_one ob).
Notation steps := (RunProofs.steps ob).

(* Vm::eval on a fragment expression: compile_runnable, put_lambda, then the run loop
   through PUSH Argc 0 / MOV / CALL / ENTER / <code of e> / RET / HALT reaches the HALT
   with a representation of the reference value in %acc and the registers of the start *)
Theorem eval_fragment e rho r rho' s :
  wf_expr e -> ref_eval bsem rho e r rho' -> minv s -> genv_rel rho s ->
  transform_expr TRANSFORM_FUEL s (cell_of e) = Ok (cell_of e) ->
  exists n m, (forall fuel, (n <= fuel)%nat -> eval ob fuel (cell_of e) s = halt_result m) /\
    vrep (acc m) r (hp m) (st m) /\ genv_rel rho' m /\ minv m /\ cext s m /\
    sp m = sp s /\ bp m = bp s /\ ep m = ep s /\ out_log m = out_log s.
Proof.
  intros Hwf HR MI G Htr.
  assert (Ht : top_hdr top_lam) by (split; reflexivity).
  destruct (compile_correct ob bsem Hb e Hwf (S (S (cell_size (cell_of e)))) top_lam true s ltac:(lia) Ht MI)
    as (l1 & sA & code & E1 & F1 & S1 & MIA & XA & RA & EX).
  specialize (EX _ _ _ HR).
  destruct (put_lambda_spec (emit_op l1 ORet) sA MIA) as (a & sB & E2 & MIB & XB & RB & GbB & _ & AB & CB & LB & TB).
  destruct (put_lambda_spec (entry_lam (VPtr a)) sB MIB) as (a0 & sC & E3 & MIC & XC & RC & GbC & _ & AC & CC & LC & TC).
  set (m0 := with_ip sC (a0, 0)).
  assert (Hprep : prepare_eval (cell_of e) s = ROk tt m0).
  { unfold prepare_eval. unfold bindM at 1. rewrite compile_runnable_eq.
    unfold bindM at 1. unfold compile. rewrite Htr, E1. unfold bindM at 1. rewrite E2. unfold ret at 1.
    unfold bindM at 1. rewrite E3. reflexivity. }
  assert (XsC : cext s sC) by (eapply cext_trans; [exact XA|]; eapply cext_trans; eassumption).
  assert (RsC : same_regs s sC) by (eapply same_regs_trans; [exact RA|]; eapply same_regs_trans; eassumption).
  destruct RsC as (Rsp & Rbp & Rep & Rcap & Rstk & Rlog & more & Rg).
  pose proof (genv_rel_compile rho s sC XsC (conj Rsp (conj Rbp (conj Rep (conj Rcap (conj Rstk (conj Rlog (ex_intro _ more Rg))))))) G) as GC.
  (* the two code blocks *)
  set (bc0 := [VOp OPushImmediate; VArgc 0; VOp OMovImmediate; VPtr a; VAcc; VOp OCallAcc; VOp OHalt]).
  set (bc1 := ([VOp OEnter] ++ code) ++ [VOp ORet]).
  assert (Hbc1 : l_bc (lambda_finish (emit_op l1 ORet)) = bc1).
  { change (l_bc (lambda_finish (emit_op l1 ORet))) with (fwd (emit_op l1 ORet)). rewrite fwd_emit_op, F1. reflexivity. }
  assert (HcB : code_in sB a bc1).
  { eexists; eexists. split; [exact AB|]. split; [exact CB|]. split; [exact LB|]. split; [exact TB|exact Hbc1]. }
  assert (Hc1C : code_in sC a bc1) by (eapply code_in_ext; eassumption).
  assert (Hc0C : code_in sC a0 bc0).
  { eexists; eexists. split; [exact AC|]. split; [exact CC|]. split; [exact LC|]. split; [exact TC|reflexivity]. }
  assert (HgetA : heap_get (hp sC) a = Ok (VLambda (next_id (st sA)))).
  { destruct (ce_heap _ _ XC a AB) as [A' C']. rewrite (heap_get_alloc _ _ A'), C', CB. reflexivity. }
  assert (HlamA : tget (lams (st sC)) (next_id (st sA)) = Some (lambda_finish (emit_op l1 ORet))).
  { rewrite (ce_lams _ _ XC) by exact LB. exact TB. }
  assert (HargsA : l_args (lambda_finish (emit_op l1 ORet)) = []).
  { change (l_args (lambda_finish (emit_op l1 ORet))) with (l_args l1). destruct S1 as (_ & _ & _ & -> & _). reflexivity. }
  (* segments *)
  assert (Sg0 : forall pre x post, bc0 = pre ++ x ++ post -> seg bc0 (len pre) x) by (intros pre x post Hx; exists pre, post; auto).
  assert (Sg1 : forall pre x post, bc1 = pre ++ x ++ post -> seg bc1 (len pre) x) by (intros pre x post Hx; exists pre, post; auto).
  pose proof (mi_sp _ MIC) as HcapC.
  (* PUSH Argc 0 *)
  pose proof (step_pushimm ob m0 a0 0 bc0 (VArgc 0) (code_in_ip _ _ _ _ Hc0C) eq_refl
                (Sg0 [] [VOp OPushImmediate; VArgc 0] _ eq_refl) ltac:(discriminate)) as St1.
  set (m1 := pushed (with_ip m0 (a0, 0 + 2)) (VArgc 0)) in *.
  assert (Hc0_1 : code_in m1 a0 bc0) by (eapply code_in_regs; [| |exact Hc0C]; reflexivity).
  (* MOV lambda %acc *)
  pose proof (step_movimm ob m1 a0 (0 + 2) bc0 (VPtr a) Hc0_1 eq_refl
                (Sg0 [VOp OPushImmediate; VArgc 0] [VOp OMovImmediate; VPtr a; VAcc] _ eq_refl) ltac:(discriminate)) as St2.
  set (m2 := with_acc (with_ip m1 (a0, 0 + 2 + 3)) (VPtr a)) in *.
  assert (Hc0_2 : code_in m2 a0 bc0) by (eapply code_in_regs; [| |exact Hc0C]; reflexivity).
  (* CALL *)
  pose proof (step_call_lambda ob m2 a0 (0 + 2 + 3) bc0 a _ Hc0_2 eq_refl
                (Sg0 [VOp OPushImmediate; VArgc 0; VOp OMovImmediate; VPtr a; VAcc] [VOp OCallAcc] _ eq_refl)
                eq_refl HgetA) as St3.
  set (m3 := with_ip (pushed (pushed (with_ip m2 (a0, 0 + 2 + 3 + 1)) (VEp (ep m2))) (VIp a0 (0 + 2 + 3 + 1))) (a, 0)) in *.
  assert (Hc1_3 : code_in m3 a bc1) by (eapply code_in_regs; [| |exact Hc1C]; reflexivity).
  assert (Hsp3 : sp m3 = sp s + 3) by (cbn [sp m3 m2 m1 m0 pushed with_scap with_stack with_ip with_acc]; rewrite Rsp; lia).
  assert (Hcap3 : sp m3 < scap m3).
  { unfold m3. change (sp (with_ip ?x _)) with (sp x). change (scap (with_ip ?x _)) with (scap x).
    apply pushed_sp_lt. apply pushed_sp_lt. unfold m2, m1. cbn [sp scap with_ip with_acc].
    apply pushed_sp_lt. exact HcapC. }
  assert (Hs3_1 : sget m3 (sp s + 1) = VArgc 0).
  { unfold m3. change (sget (with_ip ?x _) ?j) with (sget x j).
    rewrite sget_pushed_other by (cbn [sp m2 m1 m0 pushed with_scap with_stack with_ip with_acc]; rewrite Rsp; lia).
    rewrite sget_pushed_other by (cbn [sp m2 m1 m0 pushed with_scap with_stack with_ip with_acc]; rewrite Rsp; lia).
    change (sget (with_ip m2 _) ?j) with (sget m1 j). unfold m1.
    replace (sp s + 1) with (sp (with_ip m0 (a0, 0 + 2)) + 1) by (cbn [sp m0 with_ip]; rewrite Rsp; reflexivity).
    apply sget_pushed_top. }
  assert (Hs3_2 : sget m3 (sp s + 2) = VEp (ep s)).
  { unfold m3. change (sget (with_ip ?x _) ?j) with (sget x j).
    rewrite sget_pushed_other by (cbn [sp m2 m1 m0 pushed with_scap with_stack with_ip with_acc]; rewrite Rsp; lia).
    replace (sp s + 2) with (sp (with_ip m2 (a0, 0 + 2 + 3 + 1)) + 1)
      by (cbn [sp m2 m1 m0 pushed with_scap with_stack with_ip with_acc]; rewrite Rsp; lia).
    rewrite sget_pushed_top. cbn [ep m2 m1 m0 pushed with_scap with_stack with_ip with_acc]. rewrite Rep. reflexivity. }
  assert (Hs3_3 : sget m3 (sp s + 3) = VIp a0 (0 + 2 + 3 + 1)).
  { unfold m3. change (sget (with_ip ?x _) ?j) with (sget x j).
    replace (sp s + 3) with (sp (pushed (with_ip m2 (a0, 0 + 2 + 3 + 1)) (VEp (ep m2))) + 1)
      by (cbn [sp m2 m1 m0 pushed with_scap with_stack with_ip with_acc]; rewrite Rsp; lia).
    apply sget_pushed_top. }
  (* ENTER *)
  pose proof (step_enter_top ob m3 a bc1 _ _ Hc1_3 eq_refl eq_refl eq_refl HgetA HlamA HargsA
                ltac:(lia) Hcap3 ltac:(rewrite Hsp3; replace (sp s + 3 - 2) with (sp s + 1) by lia; exact Hs3_1)) as St4.
  set (m4 := with_bp (pushed (with_ip m3 (a, 1)) (VBp (bp m3))) (sp m3 + 1 - 4)) in *.
  assert (Hsp4 : sp m4 = sp s + 4) by (cbn [sp m4 pushed with_bp with_scap with_stack with_ip]; rewrite Hsp3; lia).
  assert (Hbp4 : bp m4 = sp s) by (cbn [bp m4 with_bp]; rewrite Hsp3; lia).
  assert (Hkeep4 : forall j, j <= sp s + 3 -> sget m4 j = sget m3 j).
  { intros j Hj. unfold m4. change (sget (with_bp ?x _) ?k) with (sget x k).
    rewrite sget_pushed_other by (cbn [sp with_ip]; rewrite Hsp3; lia). reflexivity. }
  assert (Hs4_4 : sget m4 (sp s + 4) = VBp (bp s)).
  { unfold m4. change (sget (with_bp ?x _) ?k) with (sget x k).
    replace (sp s + 4) with (sp (with_ip m3 (a, 1)) + 1) by (cbn [sp with_ip]; rewrite Hsp3; lia).
    rewrite sget_pushed_top. cbn [bp m3 m2 m1 m0 pushed with_scap with_stack with_ip with_acc]. rewrite Rbp. reflexivity. }
  assert (XC4 : cext sC m4) by (apply cext_same; try reflexivity; lia).
  assert (MI4 : minv m4).
  { destruct MIC as [HI GI SP]. constructor; [exact HI|exact GI|].
    unfold m4. change (sp (with_bp ?x _)) with (sp x). change (scap (with_bp ?x _)) with (scap x).
    apply pushed_sp_lt. exact Hcap3. }
  assert (Hc1_4 : code_in m4 a bc1) by (eapply code_in_regs; [| |exact Hc1C]; reflexivity).
  assert (G4 : genv_rel rho m4) by (eapply genv_rel_ext; [exact XC4|reflexivity|exact GC]).
  (* the code of e *)
  destruct (EX m4 a bc1 (cext_trans _ _ _ XB (cext_trans _ _ _ XC XC4)) MI4 Hc1_4
              (Sg1 [VOp OEnter] code [VOp ORet] ltac:(unfold bc1; rewrite <- app_assoc; reflexivity)) eq_refl G4)
    as (n & m5 & St5 & Fr5 & MI5 & Hip5 & V5 & G5).
  change (len (fwd top_lam)) with 1 in Hip5.
  pose proof (code_in_ext _ _ _ _ Hc1_4 (fr_ext _ _ Fr5)) as Hc1_5.
  assert (Hbp5 : bp m5 = sp s) by (rewrite (fr_bp _ _ Fr5); exact Hbp4).
  assert (Hsp5 : sp m5 = sp s + 4) by (rewrite (fr_sp _ _ Fr5); exact Hsp4).
  assert (Hk5 : forall j, j <= sp s + 4 -> sget m5 j = sget m4 j) by (intros j Hj; apply (fr_stack _ _ Fr5); lia).
  (* RET *)
  assert (SgR : seg bc1 (1 + len code) [VOp ORet]).
  { replace (1 + len code) with (len ([VOp OEnter] ++ code)) by (lens; lia).
    apply (Sg1 _ _ []). unfold bc1. rewrite app_nil_r. reflexivity. }
  pose proof (step_ret ob m5 a (1 + len code) bc1 (ep s) a0 (0 + 2 + 3 + 1) (bp s) Hc1_5 Hip5 SgR) as St6.
  assert (Hcap5 : bp m5 + 4 < scap m5) by (rewrite Hbp5, <- Hsp5; apply MI5).
  specialize (St6 Hcap5).
  rewrite Hbp5 in St6.
  specialize (St6 ltac:(rewrite Hk5, Hkeep4 by lia; exact Hs3_1) ltac:(rewrite Hk5, Hkeep4 by lia; exact Hs3_2)
                  ltac:(rewrite Hk5, Hkeep4 by lia; exact Hs3_3) ltac:(rewrite Hk5 by lia; exact Hs4_4)).
  set (m6 := with_bp (with_ip (with_ep (with_sp (with_ip m5 (a, 1 + len code + 1)) (sp s - 0)) (ep s)) (a0, 0 + 2 + 3 + 1)) (bp s)) in *.
  (* HALT *)
  assert (Hc0_6 : code_in m6 a0 bc0).
  { eapply code_in_regs; [| |eapply code_in_ext; [exact Hc0C|eapply cext_trans; [exact XC4|apply Fr5]]]; reflexivity. }
  pose proof (step_halt ob m6 a0 (0 + 2 + 3 + 1) bc0 Hc0_6 eq_refl
                (Sg0 [VOp OPushImmediate; VArgc 0; VOp OMovImmediate; VPtr a; VAcc; VOp OCallAcc] [VOp OHalt] [] eq_refl)) as St7.
  set (m7 := with_ip m6 (a0, 0 + 2 + 3 + 1 + 1)) in *.
  exists (1 + 1 + 1 + 1 + n + 1 + 1)%nat, m7. split.
  { intros fuel Hfuel. unfold eval. rewrite Hprep. unfold run_count.
    replace fuel with ((1 + 1 + 1 + 1 + n + 1) + S (fuel - (1 + 1 + 1 + 1 + n + 1 + 1)))%nat by lia.
    rewrite (run_loop_steps ob (1 + 1 + 1 + 1 + n + 1) m0 m6).
    - rewrite run_loop_S, St7. reflexivity.
    - eapply steps_trans; [|apply steps_one; exact St6].
      eapply steps_trans; [|exact St5].
      eapply steps_trans; [|apply steps_one; exact St4].
      eapply steps_trans; [|apply steps_one; exact St3].
      eapply steps_trans; [apply steps_one; exact St1|apply steps_one; exact St2]. }
  assert (X57 : cext m5 m7) by (apply cext_same; try reflexivity; lia).
  split; [exact V5|].
  split; [eapply genv_rel_ext; [exact X57|reflexivity|exact G5]|].
  split.
  { destruct MI5 as [HI GI SP]. constructor; [exact HI|exact GI|].
    cbn [sp scap m7 m6 with_bp with_ip with_ep with_sp with_stack]. lia. }
  split; [eapply cext_trans; [exact XsC|]; eapply cext_trans; [exact XC4|]; eapply cext_trans; [apply Fr5|exact X57]|].
  split; [cbn [sp m7 m6 with_bp with_ip with_ep with_sp with_stack]; lia|].
  split; [reflexivity|]. split; [reflexivity|].
  cbn [out_log m7 m6 with_bp with_ip with_ep with_sp with_stack]. rewrite (fr_log _ _ Fr5).
  cbn [out_log m4 m3 m2 m1 m0 pushed with_bp with_scap with_stack with_ip with_acc]. exact Rlog.
Qed.

End Eval.
Print Assumptions eval_fragment.

(* the conversion of %acc at HALT (Heap::get_as_cell with the fuel [cell_fuel] of the model):
   it yields the reference value as soon as that fuel covers the depth k of the value *)
Lemma halt_result_done m r : vrep (acc m) r (hp m) (st m) ->
  exists k, (k <= cell_fuel m)%nat ->
    halt_result m = ROk (Done (rcell r)) (with_stack m tempty (sp m)).
Proof.
  intros V.
  assert (H : exists k, forall f, (k <= f)%nat -> get_as_cell builtin_name (hp m) (st m) f (acc m) = Ok (rcell r)).
  { destruct r as [c|b]; cbn [vrep rcell] in *.
    - destruct V as [R _]. exact (R (hp m) (st m) (ext_refl _ _)).
    - destruct V as (p & -> & A & C). exists 2%nat. intros f Hf.
      destruct f as [|[|f]]; try lia. cbn [get_as_cell]. rewrite (heap_get_alloc _ _ A), C. reflexivity. }
  destruct H as [k Hk]. exists k. intros Hle.
  unfold halt_result, to_cell, as_cell, lift. rewrite (Hk _ Hle). reflexivity.
Qed.
