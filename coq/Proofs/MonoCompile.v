(* MonoCompile.v — the COMPILER (Model/Compile.v) and prepare_eval leave the stack alone:
   [mono sframe]: stack contents, capacity, sp, bp, ep, ip, acc, output log unchanged on
   EVERY exit (normal or error); only the heap (interned symbols, quoted data, lambdas,
   macros), the Rc tables (fresh ids) and the global bindings (fresh slots) change.       *)
From Coq Require Import Lia List String.
From MW Require Import Model.Base Model.F64 Model.Num Model.Datum Model.TransformDef Model.Transform
  Model.VmTypes Model.Heap Model.VmBase Model.Compile Model.Vm
  Proofs.GcProofs Proofs.SymtabProofs Proofs.VmProofs0 Proofs.TailProofs Proofs.FlatCompile Proofs.MonoBase.
Open Scope N_scope.
Arguments N.add : simpl never.
Arguments N.sub : simpl never.
Arguments N.eqb : simpl never.
Arguments N.ltb : simpl never.
Arguments N.leb : simpl never.
Arguments N.mul : simpl never.

(* ------------------------------------------------------------------ quoted data *)
Theorem mpc_sext c : forall h x v h' x', maybe_put_cell h x c = Ok (v, h', x') -> sext x x'.
Proof.
  induction c as [c Hnp Hnv|ca cd IHa IHd|l HF] using cell_ind2; intros h x v h' x' H.
  - destruct c; cbn [maybe_put_cell] in H;
      try (injection H as <- <- <-; apply sext_refl); try discriminate.
    + exfalso. now apply (Hnp c1 c2).
    + pose proof (sext_new_str x s) as S1.
      destruct (new_str x s) as [sid x1]. destruct (heap_put h (VStr sid)) as [p h1].
      injection H as <- <- <-. exact S1.
    + destruct (heap_put h (VSym s)) as [p h1]. injection H as <- <- <-. apply sext_refl.
    + exfalso. now apply (Hnv l).
  - cbn [maybe_put_cell] in H. apply bind_ok_inv in H as [[[va h1] x1] [H1 H]].
    pose proof (IHa _ _ _ _ _ H1) as S1.
    destruct (match va with VPtr _ => (va, h1) | _ => heap_put h1 va end) as [pa h2].
    apply bind_ok_inv in H as [[[vd h3] x3] [H3 H]].
    pose proof (IHd _ _ _ _ _ H3) as S3.
    destruct (match vd with VPtr _ => (vd, h3) | _ => heap_put h3 vd end) as [pd h4].
    destruct pa; try discriminate. destruct pd; try discriminate.
    destruct (heap_put h4 (VPair p p0)) as [pp h5]. injection H as <- <- <-.
    eapply sext_trans; eassumption.
  - cbn [maybe_put_cell] in H.
    set (elems := fix elems (h : heap) (s : store) (l : list cell) (acc : list vcell) {struct l} :
                    out (list vcell * heap * store) :=
                    match l with
                    | [] => Ok (rev acc, h, s)
                    | x :: r => do (v, h1, s1) <- maybe_put_cell h s x; elems h1 s1 r (v :: acc)
                    end) in *.
    assert (HE : forall l0, Forall (fun c => forall h x v h' x',
                   maybe_put_cell h x c = Ok (v, h', x') -> sext x x') l0 ->
                 forall h0 x0 acc vs h0' x0', elems h0 x0 l0 acc = Ok (vs, h0', x0') -> sext x0 x0').
    { induction l0 as [|c r IHr]; intros Fa h0 x0 acc vs h0' x0' HEq.
      - cbn in HEq. injection HEq as <- <- <-. apply sext_refl.
      - cbn in HEq. apply bind_ok_inv in HEq as [[[vx hx] sx] [HX HEq]].
        inversion Fa as [|c0 r0 Hc Hr]; subst.
        eapply sext_trans; [exact (Hc _ _ _ _ _ HX)|exact (IHr Hr _ _ _ _ _ _ HEq)]. }
    apply bind_ok_inv in H as [[[vs h1] x1] [H1 H]].
    pose proof (HE l HF _ _ _ _ _ _ H1) as S1.
    pose proof (sext_new_vec x1 vs) as S2.
    destruct (new_vec x1 vs) as [vid x2]. destruct (heap_put h1 (VVec vid)) as [p h2].
    injection H as <- <- <-. eapply sext_trans; eassumption.
Qed.

Theorem pc_sext c h x v h' x' : put_cell h x c = Ok (v, h', x') -> sext x x'.
Proof.
  intros H. unfold put_cell in H. apply bind_ok_inv in H as [[[v1 h1] x1] [H1 H]].
  pose proof (mpc_sext c _ _ _ _ _ H1) as S1.
  destruct v1; try (destruct (heap_put h1 _) as [pp0 hh2]); injection H as <- <- <-; exact S1.
Qed.

Section Forms.
Context (R : vm -> vm -> Prop) `{FR : Fr R}.

Lemma mono_maybe_put_cell_m c : mono R (maybe_put_cell_m c).
Proof.
  intros s. unfold maybe_put_cell_m.
  destruct (maybe_put_cell (hp s) (st s) c) as [[[v h] x]| | |] eqn:E; unfold rpost; try exact I.
  - apply fr_sub, sframe_mem. exact (mpc_sext c _ _ _ _ _ E).
  - apply fr_refl.
Qed.
Lemma mono_put_cell_m c : mono R (put_cell_m c).
Proof.
  intros s. unfold put_cell_m.
  destruct (put_cell (hp s) (st s) c) as [[[v h] x]| | |] eqn:E; unfold rpost; try exact I.
  - apply fr_sub, sframe_mem. exact (pc_sext c _ _ _ _ _ E).
  - apply fr_refl.
Qed.
Hint Resolve mono_maybe_put_cell_m mono_put_cell_m : mono.

Lemma mono_put_cells l : mono R (put_cells l).
Proof. induction l as [|c r IH]; cbn [put_cells]; mgo. Qed.
Lemma mono_compile_formals a : forall acc, mono R (compile_formals a acc).
Proof. induction a; intros acc; cbn [compile_formals]; mgo. Qed.
Lemma mono_location_operand l r : mono R (location_operand l r).
Proof. mgo. Qed.
Hint Resolve mono_put_cells mono_compile_formals mono_location_operand : mono.

Variable ce : lambda -> bool -> cell -> M lambda.
Variable cq : lambda -> cell -> N -> M lambda.
Hypothesis IHe : forall l tail e, mono R (ce l tail e).
Hypothesis IHq : forall l e d, mono R (cq l e d).

Lemma f_quote_mono l x : mono R (f_quote l x). Proof. mgo. Qed.
Lemma f_store_mono l x : mono R (f_store l x). Proof. mgo. Qed.
Lemma f_body_mono b : forall lam, mono R (f_body ce b lam).
Proof. induction b; intros lam; cbn [f_body]; mgo. Qed.
Hint Resolve f_quote_mono f_store_mono f_body_mono : mono.
Lemma f_lambda_mono iof expr d : mono R (f_lambda ce iof expr d). Proof. mgo. Qed.
Lemma f_if_core_mono l tail t c alt : mono R (f_if_core ce l tail t c alt). Proof. mgo. Qed.
Hint Resolve f_lambda_mono f_if_core_mono : mono.
Lemma f_if_mono l tail rest : mono R (f_if ce l tail rest). Proof. mgo. Qed.
Lemma f_args_mono r : forall lam n, mono R (f_args ce r lam n).
Proof. induction r; intros lam k; cbn [f_args]; mgo. Qed.
Hint Resolve f_if_mono f_args_mono : mono.
Lemma f_app_mono l tail proc rest : mono R (f_app ce l tail proc rest). Proof. mgo. Qed.
Lemma f_defsyntax_mono l e : mono R (f_defsyntax l e).
Proof.
  unfold f_defsyntax. apply mono_bind; [exact _|mgo|]. intros tr s.
  cbv beta iota delta [new_macro]. destruct (heap_put (hp s) _) as [tp h].
  set (s1 := with_store (with_heap s h) _).
  assert (S1 : R s s1).
  { apply fr_sub, sframe_mem. exact (sext_new_macro (st s) tr). }
  match goal with |- rpost R s (?m s1) => assert (Hm : mono R m) by mgo; specialize (Hm s1); destruct (m s1) end;
    unfold rpost in *; try exact I; eapply fr_trans; eassumption.
Qed.
Lemma f_define_mono l e rest : mono R (f_define ce l e rest). Proof. mgo. Qed.
Lemma f_set_mono l rest : mono R (f_set ce l rest). Proof. mgo. Qed.
Hint Resolve f_app_mono f_defsyntax_mono f_define_mono f_set_mono : mono.
Theorem f_expr_mono l tail e : mono R (f_expr ce cq l tail e). Proof. mgo. Qed.

Lemma f_items_mono depth its : forall lam, mono R (f_items cq depth its lam).
Proof. induction its; intros lam; cbn [f_items]; mgo. Qed.
Lemma f_elems_mono depth r : forall lam cnt, mono R (f_elems cq depth r lam cnt).
Proof. induction r; intros lam cnt; cbn [f_elems]; mgo. Qed.
Hint Resolve f_items_mono f_elems_mono : mono.
Theorem f_quasi_mono l e d : mono R (f_quasi ce cq l e d). Proof. mgo. Qed.
End Forms.

Theorem compile_mono R `{FR : Fr R} f :
  (forall l tail e, mono R (compile_expression f l tail e)) /\
  (forall l e d, mono R (compile_quasiquote f l e d)).
Proof.
  induction f as [|f [IHe IHq]].
  - split; intros; intros s; exact I.
  - split; intros.
    + rewrite compile_expression_S. apply f_expr_mono; assumption.
    + rewrite compile_quasiquote_S. apply f_quasi_mono; assumption.
Qed.

Theorem mono_compile R `{FR : Fr R} l tail e : mono R (compile l tail e).
Proof.
  intros s. unfold compile. destruct (transform_expr _ _ _); try exact I.
  - apply (proj1 (compile_mono R _)).
  - unfold rpost. apply fr_refl.
Qed.
Theorem mono_compile_runnable R `{FR : Fr R} e : mono R (compile_runnable e).
Proof. unfold compile_runnable. pose proof (mono_compile R). mgo. Qed.

(* ------------------------------------------------------------------ prepare_eval *)
(* on its ERROR path (read/compile failure: vm/mod.rs:99-107 returns before `self.ip = ...`)
   prepare_eval leaves every register and the whole stack untouched *)
Theorem prepare_eval_err_sframe e s code msg s' :
  prepare_eval e s = RErr code msg s' -> sframe s s'.
Proof.
  unfold prepare_eval, bindM. pose proof (mono_compile_runnable sframe e s) as H1.
  destruct (compile_runnable e s) as [entry s1|c1 m1 s1| |]; try discriminate.
  - pose proof (mono_put_lambda sframe entry s1) as H2. unfold put_lambda in *.
    cbv beta iota delta [new_lam] in *. destruct (heap_put (hp s1) _) as [p h]. unfold rpost in *.
    pose proof (sframe_trans _ _ _ H1 H2) as H3.
    destruct p; cbn; intros H; try discriminate H; injection H as <- <- <-; exact H3.
  - intros [= <- <- <-]. exact H1.
Qed.
(* on success only %ip changes besides heap / Rc tables / globals *)
Theorem prepare_eval_ok_frame e s u s' :
  prepare_eval e s = ROk u s' ->
  stack s' = stack s /\ scap s' = scap s /\ sp s' = sp s /\ bp s' = bp s /\ ep s' = ep s /\
  acc s' = acc s /\ out_log s' = out_log s /\ sext (st s) (st s') /\
  (exists k, g_slots s' = g_slots s ++ repeat VUndef k) /\ (exists nb, g_bind s' = nb ++ g_bind s).
Proof.
  unfold prepare_eval, bindM. pose proof (mono_compile_runnable sframe e s) as H1.
  destruct (compile_runnable e s) as [entry s1|c1 m1 s1| |]; try discriminate.
  pose proof (mono_put_lambda sframe entry s1) as H2. unfold put_lambda in *.
  cbv beta iota delta [new_lam] in *. destruct (heap_put (hp s1) _) as [p h]. unfold rpost in *.
  pose proof (sframe_trans _ _ _ H1 H2) as [A1 A2 A3 A4 A5 A6 A7 A8 A9 A10 A11].
  destruct p; cbn; try discriminate. intros [= _ <-]. cbn in *. auto 12.
Qed.
Theorem prepare_eval_kmono e : mono kmono (prepare_eval e).
Proof. unfold prepare_eval. pose proof (mono_compile_runnable kmono). mgo. Qed.

(* the `eval` builtin *)
Theorem b_eval_kmono : mono kmono b_eval.
Proof. unfold b_eval. pose proof (mono_compile kmono). mgo. Qed.
