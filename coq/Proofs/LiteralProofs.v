(* LiteralProofs.v — a printed spelling written after the matching #b/#o/#d/#x
   prefix is read by the scanner and parser as that prefix plus ONE token, and
   denotes what string->number gives for the spelling (C16 literal lemma)      *)
From Coq Require Import ZArith List Bool Lia.
From MW Require Import Model.Base Model.F64 Model.Num Model.Digits Model.F64Fmt Model.NumFmt
  Model.Datum Model.NumProc Model.Lex Model.Parse Proofs.LexProofs Proofs.DigitsProofs Proofs.NumFmtProofs.
Open Scope N_scope.

Definition is_prefix_radix (r : Z) : Prop := In r [2; 8; 10; 16]%Z.

Lemma slice_mid pre sp post :
  slice (pre ++ sp ++ post) (blen pre) (blen pre + blen sp) = Ok sp.
Proof.
  unfold slice.
  assert (E : (blen pre + blen sp <? blen pre) = false) by (apply N.ltb_ge; lia).
  rewrite E, take_bytes_app.
  replace (blen pre + blen sp - blen pre) with (blen sp) by lia.
  now rewrite take_bytes_app.
Qed.

Lemma scan_fuel_tok f o c r ty a b : lex1 c r = STok ty a b ->
  scan_fuel (S f) o (c :: r) = (do ts <- scan_fuel f (o + blen a) b; Ok (mk_token o (o + blen a) ty :: ts)).
Proof. intros H. cbn [scan_fuel]. rewrite H. reflexivity. Qed.

(* what the literal denotes, given what Number::parse makes of the spelling *)
Definition literal_datum (sp : text) (o : option num) : cell :=
  match o with Some n => CNum n | None => CSym sp end.

(* #x<spelling> where the spelling is scanned as exactly one token of type Number or
   Symbol: the parser hands the spelling to Number::parse with the prefix's radix *)
Theorem literal_parse r c rest ty : is_prefix_radix r ->
  lex1 c rest = STok ty (c :: rest) [] -> (ty = TNumber \/ ty = TSymbol) ->
  parse_text (radix_prefix r ++ c :: rest) =
    (do o <- parse_with_exactness (c :: rest) Unspecified r; Ok (literal_datum (c :: rest) o, None)).
Proof.
  intros Hr Hlex Hty. set (sp := c :: rest) in *.
  assert (Hgen : forall x, utf8_len x = 1 -> lex1 35 (x :: sp) = STok TNumPrefix [35; x] sp ->
            scan ([35; x] ++ sp) = Ok [mk_token 0 2 TNumPrefix; mk_token 2 (2 + blen sp) ty]).
  { intros x Hu Hx. unfold scan. subst sp. cbn [app length].
    rewrite (scan_fuel_tok _ _ _ _ _ _ _ Hx). rewrite (scan_fuel_tok _ _ _ _ _ _ _ Hlex).
    cbn [scan_fuel bind blen]. rewrite Hu. reflexivity. }
  assert (Hscan : exists p, radix_prefix r = p /\ prefix_kind p = Some (None, Some r) /\ blen p = 2 /\
            scan (p ++ sp) = Ok [mk_token 0 2 TNumPrefix; mk_token 2 (2 + blen sp) ty]).
  { destruct Hr as [<-|[<-|[<-|[<-|[]]]]].
    - exists [35; 98]. repeat split. apply Hgen; reflexivity.
    - exists [35; 111]. repeat split. apply Hgen; reflexivity.
    - exists [35; 100]. repeat split. apply Hgen; reflexivity.
    - exists [35; 120]. repeat split. apply Hgen; reflexivity. }
  destruct Hscan as (p & -> & Hpk & Hbl & Hscan).
  unfold parse_text. rewrite Hscan. cbn [bind parse_fuel length Nat.mul Nat.add parse t_ty].
  cbn [parse_number t_ty].
  assert (S1 : tok_span (p ++ sp) (mk_token 0 2 TNumPrefix) = Ok p).
  { unfold tok_span. cbn [t_start t_end].
    pose proof (slice_mid [] p sp) as H. cbn [app blen] in H. rewrite Hbl in H. exact H. }
  assert (S2 : tok_span (p ++ sp) (mk_token 2 (2 + blen sp) ty) = Ok sp).
  { unfold tok_span. cbn [t_start t_end].
    pose proof (slice_mid p sp []) as H. rewrite app_nil_r, Hbl in H. exact H. }
  rewrite S1. cbn [bind]. rewrite Hpk.
  assert (Hnp : forall (A : Type) (a b : A),
            match ty with TNumPrefix => a | _ => b end = b)
    by (intros; destruct Hty as [-> | ->]; reflexivity).
  rewrite Hnp. rewrite S2. cbn [bind].
  destruct (parse_with_exactness sp Unspecified r) as [o| | |]; try reflexivity.
  cbn [bind]. destruct o; reflexivity.
Qed.

(* the same statement against the procedure: the literal denotes the number that
   string->number returns for the spelling (a symbol when it returns #f) *)
Theorem literal_is_string_to_number r c rest ty : is_prefix_radix r ->
  lex1 c rest = STok ty (c :: rest) [] -> (ty = TNumber \/ ty = TSymbol) ->
  parse_text (radix_prefix r ++ c :: rest) =
    (do v <- string_to_number Debug (c :: rest) r;
     Ok (match v with CNum n => CNum n | _ => CSym (c :: rest) end, None)).
Proof.
  intros Hr Hlex Hty. rewrite (literal_parse r c rest ty Hr Hlex Hty).
  unfold string_to_number, parse_with_exactness.
  assert (Hrad : ((r <? 2) || (36 <? r))%Z = false)
    by (destruct Hr as [<-|[<-|[<-|[<-|[]]]]]; reflexivity).
  rewrite Hrad.
  destruct (parse_with_exactness_p Debug (c :: rest) Unspecified r) as [o| | |]; try reflexivity.
  cbn [bind]. destruct o; reflexivity.
Qed.

(* ------------------------------------------- printed spellings are one token *)
Definition numch (c : cp) : Prop := c = 47 \/ c = 46 \/ hexdigit c.

Lemma hexdigit_classes c : hexdigit c ->
  is_subsequent_number c = true /\ is_subsequent_identifier c = true.
Proof.
  intros (d & Hd & ->).
  assert (Hall : forallb (fun k => is_subsequent_number (digit_char (Z.of_nat k))
                                   && is_subsequent_identifier (digit_char (Z.of_nat k))) (seq 0 16) = true)
    by (vm_compute; reflexivity).
  rewrite forallb_forall in Hall. specialize (Hall (Z.to_nat d)).
  rewrite Z2Nat.id in Hall by lia.
  apply andb_true_iff. apply Hall. apply in_seq. lia.
Qed.

Lemma numch_classes c : numch c ->
  is_subsequent_number c = true /\ is_subsequent_identifier c = true /\ (c =? 59) = false.
Proof.
  intros [->|[->|H]]. repeat split. repeat split.
  destruct (hexdigit_classes c H) as (A & B). repeat split; try assumption.
  destruct H as (d & Hd & ->). pose proof (digit_char_range d ltac:(lia)) as R. cbv zeta in R.
  apply N.eqb_neq. lia.
Qed.

Lemma scan_number_rest_all l : Forall numch l -> scan_number_rest l TNumber = (l, TNumber, []).
Proof.
  induction 1 as [|c l Hc _ IH]. reflexivity.
  cbn [scan_number_rest]. destruct (numch_classes c Hc) as (A & _). now rewrite A, IH.
Qed.

Lemma span_ident_all l : Forall numch l -> span is_subsequent_identifier l = (l, []).
Proof.
  induction 1 as [|c l Hc _ IH]. reflexivity.
  cbn [span]. destruct (numch_classes c Hc) as (_ & B & _). now rewrite B, IH.
Qed.

(* a spelling that starts with '-' or a hex digit and continues with hex digits and
   '/' is one token: Number when it starts with '-' or 0-9, Symbol when it starts
   with a letter *)
Lemma lex1_spelling c rest : (c = 45 \/ hexdigit c) -> Forall numch rest ->
  exists ty, lex1 c rest = STok ty (c :: rest) [] /\ (ty = TNumber \/ ty = TSymbol).
Proof.
  intros Hc Hrest.
  assert (Hcases : c = 45 \/ (48 <= c <= 57) \/ (97 <= c <= 102)).
  { destruct Hc as [->|(d & Hd & ->)]; [now left|right].
    unfold digit_char. destruct (d <? 10)%Z eqn:E.
    apply Z.ltb_lt in E. left. lia. apply Z.ltb_ge in E. right. lia. }
  destruct Hcases as [->|[H|H]].
  - exists TNumber. split; [|now left].
    change (lex1 45 rest) with (let '(a, ty, b) := scan_number_rest rest TNumber in STok ty (45 :: a) b).
    now rewrite scan_number_rest_all.
  - exists TNumber. split; [|now left].
    assert (Hd : c = 48 \/ c = 49 \/ c = 50 \/ c = 51 \/ c = 52 \/ c = 53 \/ c = 54 \/ c = 55 \/ c = 56 \/ c = 57) by lia.
    repeat (destruct Hd as [->|Hd]); try subst c;
    match goal with |- lex1 ?k rest = _ =>
      change (lex1 k rest) with (let '(a, ty, b) := scan_number_rest rest TNumber in STok ty (k :: a) b) end;
    now rewrite scan_number_rest_all.
  - exists TSymbol. split; [|now right].
    assert (Hd : c = 97 \/ c = 98 \/ c = 99 \/ c = 100 \/ c = 101 \/ c = 102) by lia.
    repeat (destruct Hd as [->|Hd]); try subst c;
    match goal with |- lex1 ?k rest = _ =>
      change (lex1 k rest) with (let '(a, b) := span is_subsequent_identifier rest in STok TSymbol (k :: a) b) end;
    now rewrite span_ident_all.
Qed.

(* the shape of the text of an exact number in radix 2, 8, 10 or 16 *)
Lemma show_int_radix_shape r z : (2 <= r <= 16)%Z ->
  exists c l, show_int_radix r z = c :: l /\ (c = 45 \/ hexdigit c) /\ Forall hexdigit l.
Proof.
  intros Hr. destruct (Z_lt_le_dec z 0) as [Hz|Hz].
  - rewrite show_int_radix_neg by assumption.
    destruct (show_nat_radix_hex r (- z) Hr ltac:(lia)) as (c & l & -> & Hc & Hl).
    exists 45, (c :: l). split; [reflexivity|]. split; [now left|]. now constructor.
  - rewrite show_int_radix_pos by assumption.
    destruct (show_nat_radix_hex r z Hr Hz) as (c & l & -> & Hc & Hl).
    exists c, l. split; [reflexivity|]. split; [now right|assumption].
Qed.

Lemma exact_text_shape r n : is_prefix_radix r -> exact_wf n ->
  exists c rest, exact_text r n = c :: rest /\ (c = 45 \/ hexdigit c) /\ Forall numch rest.
Proof.
  intros Hr Hwf. assert (Hr16 : (2 <= r <= 16)%Z) by (unfold is_prefix_radix in Hr; cbn in Hr; lia).
  assert (Hh : forall l, Forall hexdigit l -> Forall numch l)
    by (intros l; apply Forall_impl; intros a Ha; right; now right).
  destruct n as [z|z|a b|f]; cbn [exact_text exact_wf] in *.
  - destruct (show_int_radix_shape r z Hr16) as (c & l & -> & Hc & Hl). exists c, l. auto.
  - destruct (show_int_radix_shape r z Hr16) as (c & l & -> & Hc & Hl). exists c, l. auto.
  - unfold ratio_fmt. destruct (b =? 1)%Z.
    + destruct (show_int_radix_shape r a Hr16) as (c & l & -> & Hc & Hl). exists c, l. auto.
    + destruct (show_int_radix_shape r a Hr16) as (c & l & -> & Hc & Hl).
      destruct Hwf as (_ & _ & Hb & _).
      rewrite (show_int_radix_pos r b) by lia.
      destruct (show_nat_radix_hex r b Hr16 ltac:(lia)) as (c2 & l2 & -> & Hc2 & Hl2).
      exists c, (l ++ [47] ++ c2 :: l2). split; [reflexivity|]. split; [assumption|].
      apply Forall_app. split; [auto|]. constructor; [now left|]. constructor; [right; now right|auto].
  - contradiction.
Qed.

(* C16: the printed form of an exact number, written after the matching prefix, is a
   literal for the number string->number reads from it — the number itself *)
Theorem exact_literal r n rc : is_prefix_radix r -> exact_wf n -> pop_usize rc = Ok r ->
  parse_text (radix_prefix r ++ exact_text r n) = Ok (CNum (reread n), None) /\
  string_number [CStr (exact_text r n); rc] = Ok (CNum (reread n)).
Proof.
  intros Hr Hwf Hrc. split; [|now apply exact_roundtrip].
  destruct (exact_text_shape r n Hr Hwf) as (c & rest & E & Hc & Hrest).
  destruct (lex1_spelling c rest Hc Hrest) as (ty & Hlex & Hty).
  rewrite E, (literal_parse r c rest ty Hr Hlex Hty), <- E.
  unfold parse_with_exactness, parse_with_exactness_p.
  rewrite number_parse_exact_text; [reflexivity| |assumption].
  unfold is_prefix_radix in Hr; cbn in Hr; lia.
Qed.
