(* MonoAll.v — C07, unconditionally for the real builtin table:
   (1) [cap_monotone other_builtin]: no instruction, builtin or compilation shrinks the stack
       vector; the two capacity theorems of RunProofs2 without hypothesis;
   (2) a compile-time failure (Failed _ _ None) leaves registers and stack untouched; sequences
       that MIX run-time and compile-time failures.                                       *)
From Coq Require Import Lia List String.
From MW Require Import Model.Base Model.F64 Model.Num Model.Datum Model.TransformDef Model.Transform
  Model.VmTypes Model.Heap Model.VmBase Model.Compile Model.Vm Model.Builtins
  Proofs.VmProofs0 Proofs.TailProofs Proofs.RunProofs Proofs.RunProofs2
  Proofs.MonoBase Proofs.MonoCompile Proofs.MonoStep Proofs.MonoBuiltins.
Open Scope N_scope.

(* ------------------------------------------------------------------ (1) capacity *)
Theorem cap_monotone_other : cap_monotone other_builtin.
Proof. exact (cap_monotone_of other_builtin km_other_builtin). Qed.

Theorem failure_capacity_is_max_other fuel c s e msg t s' :
  eval other_builtin fuel c s = ROk (Failed e msg (Some t)) s' ->
  scap s <= scap s' /\
  exists p n, prepare_eval c s = ROk tt p /\ scap p <= scap s' /\
    forall j s_j, (j <= n)%nat -> steps other_builtin j p = Some s_j -> scap s_j <= scap s'.
Proof. exact (failure_capacity_is_max other_builtin fuel c s e msg t s' cap_monotone_other). Qed.

Theorem k_failures_capacity_other k s s' : fail_seq other_builtin k s s' -> scap s <= scap s'.
Proof. exact (k_failures_capacity other_builtin k s s' cap_monotone_other). Qed.

(* every exit of one instruction / of a whole evaluation, whatever the outcome *)
Theorem step_capacity s :
  match run_one other_builtin s with
  | ROk _ s' => scap s <= scap s' | RErr _ _ s' => scap s <= scap s' | _ => True end.
Proof.
  pose proof (km_run_one other_builtin km_other_builtin s) as H.
  destruct (run_one other_builtin s); unfold rpost in H; try exact I; exact (km_cap _ _ H).
Qed.
Theorem eval_capacity fuel c s :
  match eval other_builtin fuel c s with
  | ROk _ s' => scap s <= scap s' | RErr _ _ s' => scap s <= scap s' | _ => True end.
Proof.
  pose proof (eval_kmono other_builtin km_other_builtin fuel c s) as H.
  destruct (eval other_builtin fuel c s); unfold rpost in H; try exact I; exact (km_cap _ _ H).
Qed.
(* invoking a continuation leaves the capacity exactly as it is *)
Theorem restore_continuation_capacity cid s u s' : restore_continuation cid s = ROk u s' -> scap s' = scap s.
Proof.
  unfold restore_continuation. destruct (tget _ _); [|discriminate].
  destruct (scap s <? _); [discriminate|]. intros [= _ <-]. reflexivity.
Qed.

(* ------------------------------------------------------------------ (2) compile-time failures *)
Section Mixed.
Variable ob : N -> M vcell.

(* what the registers and the stack are *)
Definition same_regs_stack (s s' : vm) : Prop :=
  stack s' = stack s /\ scap s' = scap s /\ sp s' = sp s /\ bp s' = bp s /\ ep s' = ep s /\
  ip s' = ip s /\ acc s' = acc s /\ out_log s' = out_log s.
Lemma same_regs_stack_refl s : same_regs_stack s s.
Proof. repeat split. Qed.
Lemma same_regs_stack_trans a b c : same_regs_stack a b -> same_regs_stack b c -> same_regs_stack a c.
Proof.
  intros (A1 & A2 & A3 & A4 & A5 & A6 & A7 & A8) (B1 & B2 & B3 & B4 & B5 & B6 & B7 & B8).
  repeat split; congruence.
Qed.

Lemma eval_compile_failure_inv fuel c s e msg s1 :
  eval ob fuel c s = ROk (Failed e msg None) s1 -> prepare_eval c s = RErr e msg s1.
Proof.
  unfold eval. destruct (prepare_eval c s) as [u p|e1 m1 p| |]; try discriminate.
  - intros H. unfold run_count in H.
    destruct (failed_exit_equation ob _ _ _ _ _ _ _ _ H) as (n & s_n & s_f & t & _ & _ & _ & _ & Etr & _).
    discriminate Etr.
  - intros [= -> -> ->]. reflexivity.
Qed.

(* the error path of prepare_eval, at the level of Vm::eval: every register, the stack
   contents and its capacity, the output log are untouched; existing global slots keep
   their values (fresh Undefined slots may have been appended for symbols met before the
   error); Rc ids only grow and continuation objects stay *)
Theorem compile_failure_frame fuel c s e msg s' :
  eval ob fuel c s = ROk (Failed e msg None) s' ->
  same_regs_stack s s' /\
  (exists k, g_slots s' = g_slots s ++ repeat VUndef k) /\ (exists nb, g_bind s' = nb ++ g_bind s) /\
  next_id (st s) <= next_id (st s') /\
  (forall j, j < next_id (st s) -> tget (conts (st s')) j = tget (conts (st s)) j).
Proof.
  intros H. apply eval_compile_failure_inv in H. apply prepare_eval_err_sframe in H.
  destruct H as [A1 A2 A3 A4 A5 A6 A7 A8 [A9 A9'] A10 A11].
  split; [repeat split; assumption|]. auto.
Qed.

(* k failing evaluations, r of them at run time (the others at read/compile time), chained *)
Inductive mfail_seq : nat -> nat -> vm -> vm -> Prop :=
| mfs_0 s : mfail_seq 0 0 s s
| mfs_run k r s s1 s2 fuel c e msg t :
    eval ob fuel c s = ROk (Failed e msg (Some t)) s1 -> mfail_seq k r s1 s2 -> mfail_seq (S k) (S r) s s2
| mfs_compile k r s s1 s2 fuel c e msg :
    eval ob fuel c s = ROk (Failed e msg None) s1 -> mfail_seq k r s1 s2 -> mfail_seq (S k) r s s2.

Lemma fail_seq_mfail_seq k s s' : fail_seq ob k s s' -> mfail_seq k k s s'.
Proof. induction 1; [constructor|econstructor; eassumption]. Qed.
Lemma mfail_seq_count k r s s' : mfail_seq k r s s' -> (r <= k)%nat.
Proof. induction 1; lia. Qed.

(* the state between evaluations *)
Definition regs_reset (s : vm) : Prop :=
  sp s = 0 /\ bp s = 0 /\ ep s = USIZE_MAX /\ acc s = VUndef /\ stack s = tempty.

Lemma regs_reset_same s s' : regs_reset s -> same_regs_stack s s' -> regs_reset s'.
Proof.
  intros (A1 & A2 & A3 & A4 & A5) (B1 & B2 & B3 & B4 & B5 & B6 & B7 & B8). unfold regs_reset.
  repeat split; congruence.
Qed.
Lemma run_failure_reset fuel c s e msg t s1 :
  eval ob fuel c s = ROk (Failed e msg (Some t)) s1 -> regs_reset s1.
Proof.
  intros He. destruct (eval_failed_equation ob _ _ _ _ _ _ _ He) as (p & n & s_n & s_f & _ & _ & _ & _ & _ & ->).
  repeat split.
Qed.

(* only compile-time failures: nothing moved *)
Theorem mixed_compile_only k s s' : mfail_seq k 0 s s' -> same_regs_stack s s'.
Proof.
  intros H. remember 0%nat as r eqn:Er. induction H as [s|k r s s1 s2 fuel c e msg t He Hseq IH|k r s s1 s2 fuel c e msg He Hseq IH].
  - apply same_regs_stack_refl.
  - discriminate Er.
  - eapply same_regs_stack_trans; [exact (proj1 (compile_failure_frame _ _ _ _ _ _ He))|exact (IH Er)].
Qed.
(* a clean machine stays clean through ANY mix of failures *)
Theorem mixed_keeps_reset k r s s' : mfail_seq k r s s' -> regs_reset s -> regs_reset s'.
Proof.
  induction 1 as [s|k r s s1 s2 fuel c e msg t He Hseq IH|k r s s1 s2 fuel c e msg He Hseq IH]; intros Hs.
  - exact Hs.
  - apply IH. exact (run_failure_reset _ _ _ _ _ _ _ He).
  - apply IH. exact (regs_reset_same _ _ Hs (proj1 (compile_failure_frame _ _ _ _ _ _ He))).
Qed.
(* at least one run-time failure in the mix: the registers are reset, whatever the start *)
Theorem mixed_no_accumulation k r s s' : mfail_seq k r s s' -> (0 < r)%nat -> regs_reset s'.
Proof.
  induction 1 as [s|k r s s1 s2 fuel c e msg t He Hseq IH|k r s s1 s2 fuel c e msg He Hseq IH]; intros Hr.
  - lia.
  - exact (mixed_keeps_reset _ _ _ _ Hseq (run_failure_reset _ _ _ _ _ _ _ He)).
  - apply IH. exact Hr.
Qed.

Hypothesis OB : forall b, km (ob b).
Theorem mixed_kmono k r s s' : mfail_seq k r s s' -> kmono s s'.
Proof.
  induction 1 as [s|k r s s1 s2 fuel c e msg t He Hseq IH|k r s s1 s2 fuel c e msg He Hseq IH].
  - apply kmono_refl.
  - pose proof (eval_kmono ob OB fuel c s) as H. rewrite He in H. eapply kmono_trans; eassumption.
  - pose proof (eval_kmono ob OB fuel c s) as H. rewrite He in H. eapply kmono_trans; eassumption.
Qed.
End Mixed.

Theorem mixed_capacity_other k r s s' : mfail_seq other_builtin k r s s' -> scap s <= scap s'.
Proof. intros H. exact (km_cap _ _ (mixed_kmono other_builtin km_other_builtin _ _ _ _ H)). Qed.
