(* PreludeMapProofs2.v — the hand model of prelude.scm's map and for-each
   (Model/PreludeLists.v: any_null map1 p_apply map_all for_each_all, prelude.scm:222-253)
   against the abstract list view of Model/ListVecSpec.v (work package c19c).

   The procedure argument is abstract ([fn : list vcell -> M vcell]) under the hypothesis that
   on well-formed arguments it returns a value, keeps the heap invariant and every live
   object ([pres]).  The theorems give the result list (fresh pairs, one element per call,
   stops at the shortest list) AND the trace of the run ([calls]): bookkeeping that only
   allocates, then fn on the first elements, bookkeeping, fn on the second elements, ... *)
From Coq Require Import Lia FMapPositive.
From MW Require Import Model.Base Model.F64 Model.Num Model.Datum Model.TransformDef
  Model.VmTypes Model.Heap Model.VmBase Model.ListVec Model.PreludeLists Model.ListVecSpec
  Proofs.ListVecProofs Proofs.PreludeMemProofs Proofs.PreludeMapProofs.
Open Scope N_scope.

(* ================================================================ small facts *)
Definition anil : aval := AImm VNil.
Definition pair_with (a : astore) (v : aval) (xd : aval * aval) : Prop :=
  exists p, v = ALoc (LPair p) /\ a_pair a p = Some xd.

Lemma not_pair_kind v : (forall p, v <> ALoc (LPair p)) -> akind_pair v = false.
Proof. intros H. destruct v as [c|l|]; try reflexivity. destruct l; try reflexivity. now destruct (H p). Qed.
Lemma a_pair_absv s p xd : a_pair (abs s) p = Some xd -> absv s (VPtr p) = ALoc (LPair p).
Proof.
  cbn [abs a_pair absv]. destruct (heap_get (hp s) p) as [c| | |]; try discriminate.
  destruct c; try discriminate. reflexivity.
Qed.
Lemma achain_nil_inv a v : achain a v [] anil -> v = anil.
Proof. intros H. inversion H; subst. reflexivity. Qed.
Lemma anil_end a : achain a anil [] anil.
Proof. constructor. intros p. discriminate. Qed.

Lemma pres_pair_with s s' v xd :
  values_are_refs s -> pres s s' -> pair_with (abs s) v xd -> pair_with (abs s') v xd.
Proof.
  intros W P (p & -> & Hp). exists p. split; [reflexivity|].
  rewrite (pres_a_pair s s' p W P); [exact Hp|].
  exact (a_pair_live s p xd (proj1 W) Hp).
Qed.
Lemma pres_pairs_with s s' vs xds :
  values_are_refs s -> pres s s' -> Forall2 (pair_with (abs s)) vs xds -> Forall2 (pair_with (abs s')) vs xds.
Proof. intros W P H. induction H; constructor; [eapply pres_pair_with; eauto | assumption]. Qed.
Lemma quiet_pres s s' : quiet s s' -> pres s s'.
Proof. intros (P & _). exact P. Qed.

(* ================================================================= any? null? *)
(* prelude.scm:222-225 with proc = null?: #t iff some element of the list of lists is () —
   the elements after the first () are not looked at; the machine is unchanged *)
Lemma any_null_spec fuel s0 :
  values_are_refs s0 ->
  forall av vs e, achain (abs s0) av vs e ->
  forall s xss f, same s0 s -> sp s < scap s -> val_ok s xss -> absv s xss = av ->
    (length vs + 1 <= f)%nat ->
    exists s', any_null fuel f xss s = ROk (existsb akind_null vs) s' /\ same s s' /\ sp s' < scap s'.
Proof.
  intros W0 av vs e Hc. induction Hc as [v Hnp | p x d xs e Hp Hc IH]; intros s xss f S0 Hsp Hv Ha Hf.
  - destruct f as [|f]; [cbn in Hf; lia|]. cbn [any_null existsb].
    assert (I : inv s) by exact (same_inv _ _ S0 W0 Hsp).
    destruct (callA_pair s xss I Hv) as (s1 & E1 & S1 & Hsp1).
    rewrite (bind_ok _ _ _ _ _ E1), (bind_ok _ _ _ _ _ (truthy_bool _ s1)).
    rewrite Ha, (not_pair_kind v Hnp). cbn [negb].
    exists s1. split; [reflexivity|]. split; assumption.
  - destruct f as [|f]; [cbn in Hf; lia|]. cbn [any_null existsb].
    assert (I : inv s) by exact (same_inv _ _ S0 W0 Hsp).
    assert (Hp' : a_pair (abs s) p = Some (x, d)) by (rewrite (same_a_pair _ _ _ S0); exact Hp).
    destruct (callA_pair s xss I Hv) as (s1 & E1 & S1 & Hsp1).
    rewrite (bind_ok _ _ _ _ _ E1), (bind_ok _ _ _ _ _ (truthy_bool _ s1)).
    rewrite Ha. cbn [akind_pair negb].
    assert (I1 : inv s1) by exact (same_inv _ _ S1 (proj1 I) Hsp1).
    destruct (callA_car fuel s1 xss p x d I1 (same_val_ok _ _ _ S1 Hv)
                ltac:(rewrite (same_absv _ _ _ S1); exact Ha)
                ltac:(rewrite (same_a_pair _ _ _ S1); exact Hp'))
      as (a & s2 & E2 & S2 & Hsp2 & Hva & Haa).
    rewrite (bind_ok _ _ _ _ _ E2).
    assert (I2 : inv s2) by exact (same_inv _ _ S2 (proj1 I1) Hsp2).
    destruct (callA_null s2 a I2 (same_val_ok _ _ _ S2 Hva)) as (s3 & E3 & S3 & Hsp3).
    rewrite (bind_ok _ _ _ _ _ E3), (bind_ok _ _ _ _ _ (truthy_bool _ s3)).
    rewrite (same_absv _ _ _ S2), Haa.
    assert (S03 : same s s3) by (eapply same_trans; [exact S1 | eapply same_trans; eauto]).
    destruct (akind_null x) eqn:Ex; cbn [orb].
    + exists s3. split; [reflexivity|]. split; assumption.
    + assert (I3 : inv s3) by exact (same_inv _ _ S3 (proj1 I2) Hsp3).
      destruct (callA_cdr fuel s3 xss p x d I3 (same_val_ok _ _ _ S03 Hv)
                  ltac:(rewrite (same_absv _ _ _ S03); exact Ha)
                  ltac:(rewrite (same_a_pair _ _ _ S03); exact Hp'))
        as (dd & s4 & E4 & S4 & Hsp4 & Hvd & Had).
      rewrite (bind_ok _ _ _ _ _ E4).
      assert (S04 : same s s4) by (eapply same_trans; eauto).
      cbn [length] in Hf.
      destruct (IH s4 dd f (same_trans _ _ _ S0 S04) Hsp4 (same_val_ok _ _ _ S4 Hvd)
                  ltac:(rewrite (same_absv _ _ _ S4); exact Had) ltac:(lia))
        as (s5 & E5 & S5 & Hsp5).
      exists s5. split; [exact E5|]. split; [eapply same_trans; eauto | exact Hsp5].
Qed.

(* ====================================================================== apply *)
(* builtin/procedure.rs:70-101: the elements of the last argument are pushed as the addresses
   of their car cells.  On a proper list: fn is entered with one value per element. *)
Lemma pchain_head_deref h v cells e : pchain h v cells e -> exists c, heap_deref h v = Ok c.
Proof. intros H. destruct H; eexists; eassumption. Qed.

Lemma apply_args_spec s v cells e :
  pchain (hp s) v cells e -> heap_deref (hp s) e = Ok VNil ->
  forall c acc f, heap_deref (hp s) v = Ok c -> (length cells + 1 <= f)%nat ->
    apply_args f c acc s = ROk (rev acc ++ map (fun ad => VPtr (fst ad)) cells) s.
Proof.
  intros Hc He. induction Hc as [v c0 Hd Hp | v a d cells e Hd Hc IH]; intros c acc f Hdc Hf.
  - rewrite He in Hdc. injection Hdc as <-.
    destruct f as [|f]; [cbn in Hf; lia|]. cbn [apply_args is_pair is_nil map]. now rewrite app_nil_r.
  - rewrite Hd in Hdc. injection Hdc as <-.
    destruct f as [|f]; [cbn in Hf; lia|]. cbn [apply_args is_pair as_car as_cdr].
    destruct (pchain_head_deref _ _ _ _ Hc) as (c' & Hc').
    unfold bindM at 1. cbn [ret]. unfold bindM at 1. cbn [ret].
    rewrite (bind_ok _ _ _ _ _ (hderef_ok s (VPtr d) c' Hc')).
    cbn [length] in Hf. rewrite (IH He c' (VPtr a :: acc) f Hc' ltac:(lia)).
    cbn [rev map fst]. now rewrite <- app_assoc.
Qed.

Lemma p_apply_spec fuel (fn : list vcell -> M vcell) s l xs :
  values_are_refs s -> val_ok s l -> achain (abs s) (absv s l) xs anil -> (length xs + 1 <= fuel)%nat ->
  exists args, p_apply fuel fn l s = fn args s /\ Forall (val_ok s) args /\ map (absv s) args = xs.
Proof.
  intros W Hl Hch Hf.
  destruct (achain_pchain s W _ _ _ Hch l Hl eq_refl) as (cells & e' & Hpc & Hm & He & Hve).
  destruct (pchain_end_deref _ _ _ _ Hpc) as (ce & Hce & Hpe).
  assert (ce = VNil) by (apply (nil_deref s e' ce Hve Hce); exact He). subst ce.
  destruct (pchain_head_deref _ _ _ _ Hpc) as (c & Hc).
  assert (Hlen : length cells = length xs) by (rewrite <- Hm; now rewrite map_length).
  exists (map (fun ad => VPtr (fst ad)) cells). split; [|split].
  - unfold p_apply. rewrite (bind_ok _ _ _ _ _ (hderef_ok s l c Hc)).
    assert (Hk : negb (is_nil c) && negb (is_pair c) = false).
    { inversion Hpc as [v0 c0 Hd0 Hp0 | v0 a0 d0 cells0 e0 Hd0 Hc0]; subst.
      - rewrite Hce in Hc. injection Hc as <-. reflexivity.
      - rewrite Hd0 in Hc. injection Hc as <-. reflexivity. }
    rewrite Hk.
    rewrite (bind_ok _ _ _ _ _ (apply_args_spec s l cells e' Hpc Hce c [] fuel Hc ltac:(lia))).
    reflexivity.
  - destruct (pchain_cells_ok s l cells e' W Hl Hpc) as (Hcok & _).
    rewrite Forall_forall in *. intros a Hin. apply in_map_iff in Hin. destruct Hin as (ad & <- & Hin).
    cbn [val_ok]. exact (proj1 (Hcok ad Hin)).
  - rewrite map_map. exact Hm.
Qed.

(* ======================================================================= map1 *)
(* prelude.scm:227-230 with f = car or cdr, over the list of lists: a NEW list of the cars
   (cdrs); every element of the list of lists must be a pair.  Only fresh cells are written. *)
Lemma map1_spec fuel b s0 :
  values_are_refs s0 ->
  forall av vs, achain (abs s0) av vs anil ->
  forall xds, Forall2 (pair_with (abs s0)) vs xds ->
  forall s xss f, quiet s0 s -> inv s -> val_ok s xss -> absv s xss = av -> (length vs + 1 <= f)%nat ->
    exists r s', map1 fuel (cxr fuel b) f xss s = ROk r s' /\ quiet s s' /\ inv s' /\ val_ok s' r /\
      achain (abs s') (absv s' r) (map (sel b) xds) anil.
Proof.
  intros W0 av vs Hc. remember anil as e eqn:Ee.
  induction Hc as [v Hnp | p x d xs e Hp Hc IH]; intros xds HF s xss f Q0 I Hv Ha Hf.
  - inversion HF; subst.
    destruct f as [|f]; [cbn in Hf; lia|]. cbn [map1 map].
    destruct (callA_null s xss I Hv) as (s1 & E1 & S1 & Hsp1).
    rewrite (bind_ok _ _ _ _ _ E1), (bind_ok _ _ _ _ _ (truthy_bool _ s1)).
    rewrite Ha. cbn [anil akind_null].
    exists VNil, s1. split; [reflexivity|]. split; [exact (same_quiet _ _ S1)|].
    split; [exact (same_inv _ _ S1 (proj1 I) Hsp1)|]. split; [exact Logic.I|]. apply anil_end.
  - inversion HF as [|v0 xd vs0 xds0 Hxd HF']; subst.
    destruct f as [|f]; [cbn in Hf; lia|]. cbn [map1 map].
    pose proof (quiet_pres _ _ Q0) as P0.
    assert (Hp' : a_pair (abs s) p = Some (x, d)).
    { rewrite (pres_a_pair s0 s p W0 P0); [exact Hp | exact (a_pair_live s0 p _ (proj1 W0) Hp)]. }
    destruct (callA_null s xss I Hv) as (s1 & E1 & S1 & Hsp1).
    rewrite (bind_ok _ _ _ _ _ E1), (bind_ok _ _ _ _ _ (truthy_bool _ s1)).
    rewrite Ha. cbn [akind_null].
    assert (I1 : inv s1) by exact (same_inv _ _ S1 (proj1 I) Hsp1).
    destruct (callA_car fuel s1 xss p x d I1 (same_val_ok _ _ _ S1 Hv)
                ltac:(rewrite (same_absv _ _ _ S1); exact Ha)
                ltac:(rewrite (same_a_pair _ _ _ S1); exact Hp'))
      as (a & s2 & E2 & S2 & Hsp2 & Hva & Haa).
    rewrite (bind_ok _ _ _ _ _ E2).
    assert (I2 : inv s2) by exact (same_inv _ _ S2 (proj1 I1) Hsp2).
    assert (S02 : same s s2) by (eapply same_trans; eauto).
    (* the element is a pair: apply car / cdr to it *)
    destruct (pres_pair_with s0 s x xd W0 P0 Hxd) as (q & Hxq & Hq).
    destruct (callA_cxr fuel b s2 a q xd I2 (same_val_ok _ _ _ S2 Hva)
                ltac:(rewrite (same_absv _ _ _ S2), Haa; exact Hxq)
                ltac:(rewrite (same_a_pair _ _ _ S02); exact Hq))
      as (ga & s3 & E3 & S3 & Hsp3 & Hvg & Hag).
    rewrite (bind_ok _ _ _ _ _ E3).
    assert (I3 : inv s3) by exact (same_inv _ _ S3 (proj1 I2) Hsp3).
    assert (S03 : same s s3) by (eapply same_trans; eauto).
    destruct (callA_cdr fuel s3 xss p x d I3 (same_val_ok _ _ _ S03 Hv)
                ltac:(rewrite (same_absv _ _ _ S03); exact Ha)
                ltac:(rewrite (same_a_pair _ _ _ S03); exact Hp'))
      as (dd & s4 & E4 & S4 & Hsp4 & Hvd & Had).
    rewrite (bind_ok _ _ _ _ _ E4).
    assert (I4 : inv s4) by exact (same_inv _ _ S4 (proj1 I3) Hsp4).
    assert (S04 : same s s4) by (eapply same_trans; eauto).
    cbn [length] in Hf.
    destruct (IH eq_refl xds0 HF' s4 dd f (quiet_trans _ _ _ Q0 (same_quiet _ _ S04)) I4
                (same_val_ok _ _ _ S4 Hvd) ltac:(rewrite (same_absv _ _ _ S4); exact Had) ltac:(lia))
      as (r & s5 & E5 & Q5 & I5 & Hvr & Hchr).
    rewrite (bind_ok _ _ _ _ _ E5).
    pose proof (quiet_pres _ _ Q5) as P5.
    (* ga is a value of s2; carried to s5 *)
    assert (Hvg4 : val_ok s4 ga) by (apply (same_val_ok s3 s4 _ S4); apply (same_val_ok s2 s3 _ S3); exact Hvg).
    assert (Hag4 : absv s4 ga = sel b xd) by (rewrite (same_absv _ _ _ S4), (same_absv _ _ _ S3); exact Hag).
    destruct (callA_cons s5 ga r I5 (pres_val_ok _ _ _ P5 Hvg4) Hvr)
      as (p' & s6 & E6 & Hnl & Hp6 & Q6 & I6 & T6).
    exists (VPtr p'), s6. split; [exact E6|].
    split; [exact (quiet_trans _ _ _ (same_quiet _ _ S04) (quiet_trans _ _ _ Q5 Q6))|].
    split; [exact I6|]. split; [exact T6|].
    rewrite (a_pair_absv s6 p' _ Hp6).
    rewrite (pres_absv s4 s5 ga P5 Hvg4), Hag4 in Hp6. econstructor; [exact Hp6|].
    exact (achain_pres s5 s6 _ _ _ (proj1 I5) (quiet_pres _ _ Q6) Hchr).
Qed.

(* ================================================================ the rows of map *)
(* the argument lists seen row by row: while no list is empty every list must be a pair; the
   row is the list of their cars and the walk continues with their cdrs; it stops at the first
   row in which some list is ().  (The lists need not be proper beyond the shortest one.) *)
Inductive amap_rows (a : astore) : list aval -> list (list aval) -> Prop :=
| mr_stop : forall vs, existsb akind_null vs = true -> amap_rows a vs []
| mr_step : forall vs xds rows,
    existsb akind_null vs = false -> Forall2 (pair_with a) vs xds ->
    amap_rows a (map snd xds) rows -> amap_rows a vs (map fst xds :: rows).

Lemma Forall2_length {A B} (R : A -> B -> Prop) l1 l2 : Forall2 R l1 l2 -> length l1 = length l2.
Proof. intros H. induction H; cbn [length]; congruence. Qed.

Lemma absv_listy_val_ok s v :
  heap_ok (hp s) -> (absv s v = anil \/ exists p, absv s v = ALoc (LPair p)) -> val_ok s v.
Proof.
  intros Hok H. destruct v; cbn [val_ok]; try exact Logic.I;
    try (destruct H as [H | (q & H)]; cbn [absv] in H; discriminate H).
  cbn [absv] in H. destruct (heap_get (hp s) p) as [c| | |] eqn:Hg;
    try (destruct H as [H | (q & H)]; discriminate H).
  assert (Hc : c = VNil \/ exists a d, c = VPair a d).
  { destruct H as [H | (q & H)]; destruct c; cbn [cell_val] in H; try discriminate H.
    - left. reflexivity.
    - right. eauto. }
  split.
  - apply (nonblank_live _ _ c Hok Hg). destruct Hc as [-> | (a & d & ->)]; discriminate.
  - exists c. split; [exact Hg|]. destruct Hc as [-> | (a & d & ->)]; exact Logic.I.
Qed.

(* VARARG keeps the registers and the stack *)
Lemma keeps_vararg_go : forall l acc,
  keeps ((fix go (l : list vcell) (acc : N) : M N :=
            match l with
            | [] => ret acc
            | x :: r => dom px <- hput x; dom xp <- as_ptr px; dom pp <- hput (VPair xp acc); dom p <- as_ptr pp; go r p
            end) l acc).
Proof.
  induction l as [|x r IH]; intros acc; [apply keeps_ret|].
  apply keeps_bind; [apply keeps_hput|]. intros px. apply keeps_bind; [apply keeps_as_ptr|]. intros xp.
  apply keeps_bind; [apply keeps_hput|]. intros pp. apply keeps_bind; [apply keeps_as_ptr|]. intros p. apply IH.
Qed.
Lemma mono_vararg_go : forall l acc,
  regs_mono ((fix go (l : list vcell) (acc : N) : M N :=
            match l with
            | [] => ret acc
            | x :: r => dom px <- hput x; dom xp <- as_ptr px; dom pp <- hput (VPair xp acc); dom p <- as_ptr pp; go r p
            end) l acc).
Proof.
  induction l as [|x r IH]; intros acc; [apply mono_ret|].
  apply mono_bind; [apply mono_hput|]. intros px. apply mono_bind; [apply mono_as_ptr|]. intros xp.
  apply mono_bind; [apply mono_hput|]. intros pp. apply mono_bind; [apply mono_as_ptr|]. intros p. apply IH.
Qed.
Lemma keeps_vararg_list args : keeps (vararg_list args).
Proof.
  unfold vararg_list. destruct args as [|a [|b r]].
  - apply keeps_bind; [apply keeps_hput|]. intros pn. apply keeps_bind; [apply keeps_as_ptr|]. intros np.
    apply keeps_bind; [apply keeps_vararg_go|]. intros p. apply keeps_ret.
  - apply keeps_bind; [apply keeps_hput|]. intros pa. apply keeps_bind; [apply keeps_as_ptr|]. intros ap.
    apply keeps_bind; [apply keeps_hput|]. intros pn. apply keeps_bind; [apply keeps_as_ptr|]. intros np.
    apply keeps_hput.
  - apply keeps_bind; [apply keeps_hput|]. intros pn. apply keeps_bind; [apply keeps_as_ptr|]. intros np.
    apply keeps_bind; [apply keeps_vararg_go|]. intros p. apply keeps_ret.
Qed.
Lemma mono_vararg_list args : regs_mono (vararg_list args).
Proof.
  unfold vararg_list. destruct args as [|a [|b r]].
  - apply mono_bind; [apply mono_hput|]. intros pn. apply mono_bind; [apply mono_as_ptr|]. intros np.
    apply mono_bind; [apply mono_vararg_go|]. intros p. apply mono_ret.
  - apply mono_bind; [apply mono_hput|]. intros pa. apply mono_bind; [apply mono_as_ptr|]. intros ap.
    apply mono_bind; [apply mono_hput|]. intros pn. apply mono_bind; [apply mono_as_ptr|]. intros np.
    apply mono_hput.
  - apply mono_bind; [apply mono_hput|]. intros pn. apply mono_bind; [apply mono_as_ptr|]. intros np.
    apply mono_bind; [apply mono_vararg_go|]. intros p. apply mono_ret.
Qed.

(* the list of the argument lists that VARARG hands to map / for-each *)
Lemma vararg_lists_spec s lists :
  inv s -> Forall (val_ok s) lists ->
  exists xss s1, vararg_list lists s = ROk xss s1 /\ quiet s s1 /\ inv s1 /\ val_ok s1 xss /\
    achain (abs s1) (absv s1 xss) (map (absv s) lists) anil.
Proof.
  intros (W & Hsp) Hl.
  destruct (prelude_list_spec s lists W Hl) as (r & s1 & locs & E & Hpre & Hfr & P & W1).
  unfold p_list in E.
  destruct (mono_vararg_list lists _ _ _ E) as (M1 & M2).
  exists r, s1. split; [exact E|]. split; [split; [exact P | exact (keeps_vararg_list lists _ _ _ E)]|].
  split; [split; [exact W1 | lia]|].
  assert (Hch : achain (abs s1) (absv s1 r) (map (absv s) lists) anil).
  { rewrite <- (app_nil_r (map (absv s) lists)). eapply aprefix_achain; [exact Hpre | apply anil_end]. }
  split; [|exact Hch].
  apply absv_listy_val_ok; [exact (proj1 W1)|].
  inversion Hch; subst; [left; reflexivity | right; eauto].
Qed.

(* ============================================================ map and for-each *)
Section MapFn.
Variable fuel : nat.
Variable fn : list vcell -> M vcell.
Variable Pre : list aval -> Prop.        (* the rows fn is specified on *)
(* the procedure argument: on well-formed argument values (whose abstract values satisfy
   Pre) it returns a value, keeps the invariant and every live object *)
Hypothesis Hfn : forall s args,
  values_are_refs s -> sp s < scap s -> Forall (val_ok s) args -> Pre (map (absv s) args) ->
  exists r s', fn args s = ROk r s' /\ pres s s' /\ values_are_refs s' /\ sp s' < scap s' /\ val_ok s' r.

(* the trace of a run: [calls s rows ys s'] — from s, bookkeeping that only moves the stack
   and allocates fresh cells ([quiet]), then fn on argument values whose abstract values are
   the first row, returning (abstractly) the first y, and so on in order; s' at the end *)
Inductive calls : vm -> list (list aval) -> list aval -> vm -> Prop :=
| calls_nil : forall s s', quiet s s' -> calls s [] [] s'
| calls_cons : forall s s1 args r s2 rows ys s',
    quiet s s1 -> Forall (val_ok s1) args -> fn args s1 = ROk r s2 -> pres s1 s2 ->
    calls s2 rows ys s' ->
    calls s (map (absv s1) args :: rows) (absv s2 r :: ys) s'.

Lemma calls_quiet_l s0 s rows ys s' : quiet s0 s -> calls s rows ys s' -> calls s0 rows ys s'.
Proof.
  intros Q H. destruct H as [s s' Q1 | s s1 args r s2 rows ys s' Q1 Ha E P H].
  - constructor. eapply quiet_trans; eauto.
  - econstructor; eauto. eapply quiet_trans; eauto.
Qed.
Lemma calls_quiet_r s rows ys s' s'' : calls s rows ys s' -> quiet s' s'' -> calls s rows ys s''.
Proof.
  intros H Q. induction H as [s s' Q1 | s s1 args r s2 rows ys s' Q1 Ha E P H IH].
  - constructor. eapply quiet_trans; eauto.
  - econstructor; eauto.
Qed.
Lemma calls_pres s rows ys s' : calls s rows ys s' -> pres s s'.
Proof.
  intros H. induction H as [s s' Q1 | s s1 args r s2 rows ys s' Q1 Ha E P H IH].
  - exact (quiet_pres _ _ Q1).
  - eapply pres_trans; [exact (quiet_pres _ _ Q1)|]. eapply pres_trans; eauto.
Qed.
Lemma calls_lengths s rows ys s' : calls s rows ys s' -> length ys = length rows.
Proof. intros H. induction H; cbn [length]; congruence. Qed.

(* one round of map / for-each up to the recursive call: any? null?, the cars, apply, the cdrs *)
Lemma map_round s0 s xss vs xds :
  values_are_refs s0 -> pres s0 s -> inv s -> val_ok s xss ->
  achain (abs s) (absv s xss) vs anil -> (length vs + 1 <= fuel)%nat ->
  existsb akind_null vs = false -> Forall2 (pair_with (abs s0)) vs xds -> Pre (map fst xds) ->
  exists s1 cars s2 args r s3 cdrs s4,
    any_null fuel fuel xss s = ROk false s1 /\
    map1 fuel (car fuel) fuel xss s1 = ROk cars s2 /\
    p_apply fuel fn cars s2 = fn args s2 /\ fn args s2 = ROk r s3 /\
    map1 fuel (cdr fuel) fuel xss s3 = ROk cdrs s4 /\
    quiet s s2 /\ Forall (val_ok s2) args /\ map (absv s2) args = map fst xds /\
    pres s2 s3 /\ val_ok s3 r /\ quiet s3 s4 /\ inv s4 /\ val_ok s4 cdrs /\
    achain (abs s4) (absv s4 cdrs) (map snd xds) anil.
Proof.
  intros W0 P0 I Hv Hch Hf Hnull HF HPre.
  destruct (any_null_spec fuel s (proj1 I) _ _ _ Hch s xss fuel (same_refl s) (proj2 I) Hv eq_refl Hf)
    as (s1 & E1 & S1 & Hsp1).
  rewrite Hnull in E1.
  assert (I1 : inv s1) by exact (same_inv _ _ S1 (proj1 I) Hsp1).
  pose proof (quiet_pres _ _ (same_quiet _ _ S1)) as P1.
  assert (P01 : pres s0 s1) by (eapply pres_trans; eauto).
  destruct (map1_spec fuel true s1 (proj1 I1) _ _ (same_achain _ _ _ _ _ S1 Hch) xds
              (pres_pairs_with s0 s1 _ _ W0 P01 HF) s1 xss fuel (quiet_refl s1) I1
              (same_val_ok _ _ _ S1 Hv) (same_absv _ _ _ S1) Hf)
    as (cars & s2 & E2 & Q2 & I2 & Hvc & Hcc).
  change (map (sel true) xds) with (map fst xds) in Hcc.
  assert (Hlen : length vs = length xds) by exact (Forall2_length _ _ _ HF).
  destruct (p_apply_spec fuel fn s2 cars (map fst xds) (proj1 I2) Hvc Hcc
              ltac:(rewrite map_length; lia)) as (args & E3 & Hargs & Hm).
  destruct (Hfn s2 args (proj1 I2) (proj2 I2) Hargs ltac:(rewrite Hm; exact HPre))
    as (r & s3 & E4 & P3 & W3 & Hsp3 & Hvr).
  assert (Q02 : quiet s s2) by (eapply quiet_trans; [exact (same_quiet _ _ S1) | exact Q2]).
  pose proof (quiet_pres _ _ Q02) as P02.
  assert (P03 : pres s s3) by (eapply pres_trans; eauto).
  assert (I3 : inv s3) by (split; assumption).
  destruct (map1_spec fuel false s3 W3 _ _ (achain_pres s s3 _ _ _ (proj1 I) P03 Hch) xds
              (pres_pairs_with s0 s3 _ _ W0 (pres_trans _ _ _ P0 P03) HF) s3 xss fuel (quiet_refl s3) I3
              (pres_val_ok _ _ _ P03 Hv) (pres_absv _ _ _ P03 Hv) Hf)
    as (cdrs & s4 & E5 & Q4 & I4 & Hvd & Hcd).
  change (map (sel false) xds) with (map snd xds) in Hcd.
  exists s1, cars, s2, args, r, s3, cdrs, s4.
  repeat (split; [assumption|]). assumption.
Qed.

(* ---- map: one call of fn per row, in order; the result is a NEWLY ALLOCATED list of the
   results (its pairs [locs] are not live before) *)
Lemma map_all_spec s0 :
  values_are_refs s0 ->
  forall vs rows, amap_rows (abs s0) vs rows ->
  forall s xss f, pres s0 s -> inv s -> val_ok s xss -> achain (abs s) (absv s xss) vs anil ->
    (length vs + 1 <= fuel)%nat -> (length rows + 1 <= f)%nat -> Forall Pre rows ->
    exists r s' ys locs, map_all fuel fn f xss s = ROk r s' /\ calls s rows ys s' /\ inv s' /\
      val_ok s' r /\ aprefix (abs s') (absv s' r) locs ys anil /\ fresh_in s locs.
Proof.
  intros W0 vs rows HR.
  induction HR as [vs Hnull | vs xds rows Hnull HF HR IH]; intros s xss f P0 I Hv Hch Hfu Hf HPre.
  - destruct f as [|f]; [cbn in Hf; lia|]. cbn [map_all].
    destruct (any_null_spec fuel s (proj1 I) _ _ _ Hch s xss fuel (same_refl s) (proj2 I) Hv eq_refl Hfu)
      as (s1 & E1 & S1 & Hsp1).
    rewrite Hnull in E1. rewrite (bind_ok _ _ _ _ _ E1).
    exists VNil, s1, [], []. split; [reflexivity|]. split; [constructor; exact (same_quiet _ _ S1)|].
    split; [exact (same_inv _ _ S1 (proj1 I) Hsp1)|]. split; [exact Logic.I|].
    split; [constructor | constructor].
  - destruct f as [|f]; [cbn in Hf; lia|]. cbn [map_all].
    inversion HPre as [|row0 rows0 HPre1 HPre2]; subst.
    destruct (map_round s0 s xss vs xds W0 P0 I Hv Hch Hfu Hnull HF HPre1)
      as (s1 & cars & s2 & args & r & s3 & cdrs & s4 & E1 & E2 & E3 & E4 & E5 & Q02 & Hargs & Hm &
          P23 & Hvr & Q34 & I4 & Hvd & Hcd).
    rewrite (bind_ok _ _ _ _ _ E1). cbv iota.
    rewrite (bind_ok _ _ _ _ _ E2). unfold bindM at 1. rewrite E3, E4.
    rewrite (bind_ok _ _ _ _ _ E5).
    assert (P04 : pres s s4).
    { eapply pres_trans; [exact (quiet_pres _ _ Q02)|]. eapply pres_trans; [exact P23 | exact (quiet_pres _ _ Q34)]. }
    cbn [length] in Hf.
    destruct (IH s4 cdrs f (pres_trans _ _ _ P0 P04) I4 Hvd Hcd
                ltac:(rewrite map_length, <- (Forall2_length _ _ _ HF); exact Hfu) ltac:(lia) HPre2)
      as (rr & s5 & ys & locs & E6 & C6 & I5 & Hvrr & Hpre & Hfr).
    rewrite (bind_ok _ _ _ _ _ E6).
    pose proof (calls_pres _ _ _ _ C6) as P45.
    assert (P35 : pres s3 s5) by (eapply pres_trans; [exact (quiet_pres _ _ Q34) | exact P45]).
    destruct (callA_cons s5 r rr I5 (pres_val_ok _ _ _ P35 Hvr) Hvrr)
      as (p' & s6 & E7 & Hnl & Hp6 & Q6 & I6 & T6).
    exists (VPtr p'), s6, (absv s3 r :: ys), (p' :: locs).
    split; [exact E7|]. split.
    { rewrite <- Hm. econstructor; [exact Q02 | exact Hargs | exact E4 | exact P23 |].
      eapply calls_quiet_l; [exact Q34|]. eapply calls_quiet_r; [exact C6 | exact Q6]. }
    split; [exact I6|]. split; [exact T6|]. split.
    + rewrite (a_pair_absv s6 p' _ Hp6). rewrite (pres_absv s3 s5 r P35 Hvr) in Hp6.
      econstructor; [exact Hp6|].
      exact (aprefix_pres s5 s6 _ _ _ _ (proj1 I5) (quiet_pres _ _ Q6) Hpre).
    + constructor.
      * intros Hl. apply Hnl. destruct (pres_trans _ _ _ P04 P45) as (A1 & _). exact (A1 _ Hl).
      * exact (fresh_in_pres s s4 locs P04 Hfr).
Qed.

(* ---- for-each: the same calls in the same order; the result is #<void> *)
Lemma for_each_all_spec s0 :
  values_are_refs s0 ->
  forall vs rows, amap_rows (abs s0) vs rows ->
  forall s xss f, pres s0 s -> inv s -> val_ok s xss -> achain (abs s) (absv s xss) vs anil ->
    (length vs + 1 <= fuel)%nat -> (length rows + 1 <= f)%nat -> Forall Pre rows ->
    exists s' ys, for_each_all fuel fn f xss s = ROk VVoid s' /\ calls s rows ys s' /\ inv s'.
Proof.
  intros W0 vs rows HR.
  induction HR as [vs Hnull | vs xds rows Hnull HF HR IH]; intros s xss f P0 I Hv Hch Hfu Hf HPre.
  - destruct f as [|f]; [cbn in Hf; lia|]. cbn [for_each_all].
    destruct (any_null_spec fuel s (proj1 I) _ _ _ Hch s xss fuel (same_refl s) (proj2 I) Hv eq_refl Hfu)
      as (s1 & E1 & S1 & Hsp1).
    rewrite Hnull in E1. rewrite (bind_ok _ _ _ _ _ E1).
    exists s1, []. split; [reflexivity|]. split; [constructor; exact (same_quiet _ _ S1)|].
    exact (same_inv _ _ S1 (proj1 I) Hsp1).
  - destruct f as [|f]; [cbn in Hf; lia|]. cbn [for_each_all].
    inversion HPre as [|row0 rows0 HPre1 HPre2]; subst.
    destruct (map_round s0 s xss vs xds W0 P0 I Hv Hch Hfu Hnull HF HPre1)
      as (s1 & cars & s2 & args & r & s3 & cdrs & s4 & E1 & E2 & E3 & E4 & E5 & Q02 & Hargs & Hm &
          P23 & Hvr & Q34 & I4 & Hvd & Hcd).
    rewrite (bind_ok _ _ _ _ _ E1). cbv iota.
    rewrite (bind_ok _ _ _ _ _ E2). unfold bindM at 1. rewrite E3, E4.
    rewrite (bind_ok _ _ _ _ _ E5).
    assert (P04 : pres s s4).
    { eapply pres_trans; [exact (quiet_pres _ _ Q02)|]. eapply pres_trans; [exact P23 | exact (quiet_pres _ _ Q34)]. }
    cbn [length] in Hf.
    destruct (IH s4 cdrs f (pres_trans _ _ _ P0 P04) I4 Hvd Hcd
                ltac:(rewrite map_length, <- (Forall2_length _ _ _ HF); exact Hfu) ltac:(lia) HPre2)
      as (s5 & ys & E6 & C6 & I5).
    rewrite (bind_ok _ _ _ _ _ E6).
    exists s5, (absv s3 r :: ys). split; [reflexivity|]. split; [|exact I5].
    rewrite <- Hm. econstructor; [exact Q02 | exact Hargs | exact E4 | exact P23 |].
    eapply calls_quiet_l; [exact Q34 | exact C6].
Qed.

(* ---- (map fn l1 ... ln) and (for-each fn l1 ... ln) as called: VARARG builds the list of lists *)
Theorem prelude_map_spec s lists rows :
  inv s -> Forall (val_ok s) lists -> amap_rows (abs s) (map (absv s) lists) rows ->
  (length lists + 1 <= fuel)%nat -> (length rows + 1 <= fuel)%nat -> Forall Pre rows ->
  exists r s' ys locs, p_map fuel fn lists s = ROk r s' /\ calls s rows ys s' /\ inv s' /\
    val_ok s' r /\ aprefix (abs s') (absv s' r) locs ys anil /\ fresh_in s locs.
Proof.
  intros I Hl HR Hf1 Hf2 HPre. unfold p_map.
  destruct (vararg_lists_spec s lists I Hl) as (xss & s1 & E1 & Q1 & I1 & Hvx & Hch).
  rewrite (bind_ok _ _ _ _ _ E1).
  destruct (map_all_spec s (proj1 I) _ _ HR s1 xss fuel (quiet_pres _ _ Q1) I1 Hvx Hch
              ltac:(rewrite map_length; exact Hf1) Hf2 HPre)
    as (r & s' & ys & locs & E & C & I' & Hvr & Hpre & Hfr).
  exists r, s', ys, locs. split; [exact E|]. split; [exact (calls_quiet_l _ _ _ _ _ Q1 C)|].
  split; [exact I'|]. split; [exact Hvr|]. split; [exact Hpre|].
  exact (fresh_in_pres s s1 locs (quiet_pres _ _ Q1) Hfr).
Qed.

Theorem prelude_for_each_spec s lists rows :
  inv s -> Forall (val_ok s) lists -> amap_rows (abs s) (map (absv s) lists) rows ->
  (length lists + 1 <= fuel)%nat -> (length rows + 1 <= fuel)%nat -> Forall Pre rows ->
  exists s' ys, p_for_each fuel fn lists s = ROk VVoid s' /\ calls s rows ys s' /\ inv s'.
Proof.
  intros I Hl HR Hf1 Hf2 HPre. unfold p_for_each.
  destruct (vararg_lists_spec s lists I Hl) as (xss & s1 & E1 & Q1 & I1 & Hvx & Hch).
  rewrite (bind_ok _ _ _ _ _ E1).
  destruct (for_each_all_spec s (proj1 I) _ _ HR s1 xss fuel (quiet_pres _ _ Q1) I1 Hvx Hch
              ltac:(rewrite map_length; exact Hf1) Hf2 HPre)
    as (s' & ys & E & C & I').
  exists s', ys. split; [exact E|]. split; [exact (calls_quiet_l _ _ _ _ _ Q1 C) | exact I'].
Qed.
End MapFn.

(* ============================================== the one-list and the two-list forms *)
Definition row1 (x : aval) : list aval := [x].
Definition row2 (xy : aval * aval) : list aval := [fst xy; snd xy].

Lemma rows_one a v xs : achain a v xs anil -> amap_rows a [v] (map row1 xs).
Proof.
  intros H. remember anil as e eqn:Ee. induction H as [v Hnp | p x d xs e Hp Hc IH]; subst.
  - apply mr_stop. reflexivity.
  - cbn [map]. apply (mr_step a [ALoc (LPair p)] [(x, d)] (map row1 xs)).
    + reflexivity.
    + constructor; [|constructor]. exists p. split; [reflexivity | exact Hp].
    + exact (IH eq_refl).
Qed.

Lemma rows_two a v w xs ys :
  achain a v xs anil -> achain a w ys anil -> amap_rows a [v; w] (map row2 (combine xs ys)).
Proof.
  intros H. revert w ys. remember anil as e eqn:Ee.
  induction H as [v Hnp | p x d xs e Hp Hc IH]; intros w ys Hw; subst.
  - apply mr_stop. reflexivity.
  - remember anil as e' eqn:Ee'. destruct Hw as [w Hnq | q y e0 ys e' Hq Hw]; subst.
    + apply mr_stop. reflexivity.
    + cbn [combine map]. apply (mr_step a [ALoc (LPair p); ALoc (LPair q)] [(x, d); (y, e0)] (map row2 (combine xs ys))).
      * reflexivity.
      * constructor; [exists p; split; [reflexivity | exact Hp]|].
        constructor; [exists q; split; [reflexivity | exact Hq]|constructor].
      * exact (IH eq_refl e0 ys Hw).
Qed.

Section MapForms.
Variable fuel : nat.
Variable fn : list vcell -> M vcell.
Variable Pre : list aval -> Prop.
Hypothesis Hfn : forall s args,
  values_are_refs s -> sp s < scap s -> Forall (val_ok s) args -> Pre (map (absv s) args) ->
  exists r s', fn args s = ROk r s' /\ pres s s' /\ values_are_refs s' /\ sp s' < scap s' /\ val_ok s' r.

(* (map fn l): l a proper list x1 ... xn: fn is called on x1, then on x2, ...; the result is a
   fresh proper list of the n results *)
Theorem prelude_map_one s l xs :
  inv s -> val_ok s l -> achain (abs s) (absv s l) xs anil ->
  (length xs + 2 <= fuel)%nat -> Forall (fun x => Pre [x]) xs ->
  exists r s' ys locs, p_map fuel fn [l] s = ROk r s' /\ calls fn s (map row1 xs) ys s' /\ inv s' /\
    val_ok s' r /\ aprefix (abs s') (absv s' r) locs ys anil /\ fresh_in s locs /\ length ys = length xs.
Proof.
  intros I Hl Hch Hf HPre.
  destruct (prelude_map_spec fuel fn Pre Hfn s [l] (map row1 xs) I ltac:(constructor; [exact Hl|constructor])
              (rows_one _ _ _ Hch) ltac:(cbn [length]; lia) ltac:(rewrite map_length; lia)
              ltac:(apply Forall_map; exact HPre))
    as (r & s' & ys & locs & E & C & I' & Hvr & Hpre & Hfr).
  exists r, s', ys, locs. repeat (split; [assumption|]).
  rewrite (calls_lengths _ _ _ _ _ C). apply map_length.
Qed.

(* (map fn l1 l2): fn is called on (x1 y1), (x2 y2), ... up to the shorter list *)
Theorem prelude_map_two s l1 l2 xs ys :
  inv s -> val_ok s l1 -> val_ok s l2 ->
  achain (abs s) (absv s l1) xs anil -> achain (abs s) (absv s l2) ys anil ->
  (3 <= fuel)%nat -> (Nat.min (length xs) (length ys) + 1 <= fuel)%nat ->
  Forall (fun xy => Pre (row2 xy)) (combine xs ys) ->
  exists r s' zs locs, p_map fuel fn [l1; l2] s = ROk r s' /\ calls fn s (map row2 (combine xs ys)) zs s' /\
    inv s' /\ val_ok s' r /\ aprefix (abs s') (absv s' r) locs zs anil /\ fresh_in s locs /\
    length zs = Nat.min (length xs) (length ys).
Proof.
  intros I Hl1 Hl2 Hc1 Hc2 Hf3 Hf HPre.
  destruct (prelude_map_spec fuel fn Pre Hfn s [l1; l2] (map row2 (combine xs ys)) I
              ltac:(constructor; [exact Hl1|constructor; [exact Hl2|constructor]])
              (rows_two _ _ _ _ _ Hc1 Hc2) ltac:(cbn [length]; lia)
              ltac:(rewrite map_length, combine_length; lia)
              ltac:(apply Forall_map; exact HPre))
    as (r & s' & zs & locs & E & C & I' & Hvr & Hpre & Hfr).
  exists r, s', zs, locs. repeat (split; [assumption|]).
  rewrite (calls_lengths _ _ _ _ _ C), map_length. apply combine_length.
Qed.

Theorem prelude_for_each_one s l xs :
  inv s -> val_ok s l -> achain (abs s) (absv s l) xs anil ->
  (length xs + 2 <= fuel)%nat -> Forall (fun x => Pre [x]) xs ->
  exists s' ys, p_for_each fuel fn [l] s = ROk VVoid s' /\ calls fn s (map row1 xs) ys s' /\ inv s'.
Proof.
  intros I Hl Hch Hf HPre.
  exact (prelude_for_each_spec fuel fn Pre Hfn s [l] (map row1 xs) I ltac:(constructor; [exact Hl|constructor])
           (rows_one _ _ _ Hch) ltac:(cbn [length]; lia) ltac:(rewrite map_length; lia)
           ltac:(apply Forall_map; exact HPre)).
Qed.

Theorem prelude_for_each_two s l1 l2 xs ys :
  inv s -> val_ok s l1 -> val_ok s l2 ->
  achain (abs s) (absv s l1) xs anil -> achain (abs s) (absv s l2) ys anil ->
  (3 <= fuel)%nat -> (Nat.min (length xs) (length ys) + 1 <= fuel)%nat ->
  Forall (fun xy => Pre (row2 xy)) (combine xs ys) ->
  exists s' zs, p_for_each fuel fn [l1; l2] s = ROk VVoid s' /\
    calls fn s (map row2 (combine xs ys)) zs s' /\ inv s'.
Proof.
  intros I Hl1 Hl2 Hc1 Hc2 Hf3 Hf HPre.
  exact (prelude_for_each_spec fuel fn Pre Hfn s [l1; l2] (map row2 (combine xs ys)) I
           ltac:(constructor; [exact Hl1|constructor; [exact Hl2|constructor]])
           (rows_two _ _ _ _ _ Hc1 Hc2) ltac:(cbn [length]; lia)
           ltac:(rewrite map_length, combine_length; lia)
           ltac:(apply Forall_map; exact HPre)).
Qed.
End MapForms.

(* ============================================ the hypothesis on fn is satisfiable *)
(* a procedure that allocates: (lambda (a b) (cons a b)) as a direct call of the builtin *)
Definition fn_cons (args : list vcell) : M vcell :=
  match args with [a; b] => callb cons_ [a; b] | _ => fail E_OTHER end.
Definition two_args (row : list aval) : Prop := length row = 2%nat.

Lemma fn_cons_ok : forall s args,
  values_are_refs s -> sp s < scap s -> Forall (val_ok s) args -> two_args (map (absv s) args) ->
  exists r s', fn_cons args s = ROk r s' /\ pres s s' /\ values_are_refs s' /\ sp s' < scap s' /\ val_ok s' r.
Proof.
  intros s args W Hsp Hargs H2. unfold two_args in H2. rewrite map_length in H2.
  destruct args as [|a [|b [|c r]]]; try discriminate H2.
  inversion Hargs as [|? ? Ha Hr]; subst. inversion Hr as [|? ? Hb _]; subst.
  destruct (callA_cons s a b (conj W Hsp) Ha Hb) as (p & s' & E & _ & _ & Q & (W' & Hsp') & T).
  exists (VPtr p), s'. split; [exact E|]. split; [exact (quiet_pres _ _ Q)|]. split; [exact W'|].
  split; [exact Hsp' | exact T].
Qed.

(* the identity on one argument *)
Definition fn_id (args : list vcell) : M vcell := match args with [a] => ret a | _ => fail E_OTHER end.
Definition one_arg (row : list aval) : Prop := length row = 1%nat.
Lemma fn_id_ok : forall s args,
  values_are_refs s -> sp s < scap s -> Forall (val_ok s) args -> one_arg (map (absv s) args) ->
  exists r s', fn_id args s = ROk r s' /\ pres s s' /\ values_are_refs s' /\ sp s' < scap s' /\ val_ok s' r.
Proof.
  intros s args W Hsp Hargs H1. unfold one_arg in H1. rewrite map_length in H1.
  destruct args as [|a [|b r]]; try discriminate H1.
  inversion Hargs as [|? ? Ha _]; subst.
  exists a, s. split; [reflexivity|]. split; [apply pres_refl|]. repeat (split; [assumption|]). assumption.
Qed.

(* ================================================ the hypotheses are satisfiable *)
Lemma inv_empty : inv (vm_empty 64).
Proof. split; [apply wf_empty; reflexivity | reflexivity]. Qed.

(* a machine holding ((1 . 2) . 3): the hypotheses of caar / cdar hold *)
Lemma cxxr_hyps_inhabited :
  exists s o p x d q y e,
    inv s /\ val_ok s o /\ absv s o = ALoc (LPair p) /\ a_pair (abs s) p = Some (x, d) /\
    x = ALoc (LPair q) /\ a_pair (abs s) q = Some (y, e) /\ y = AImm (VNum (Fixnum 1)).
Proof.
  destruct (callA_cons (vm_empty 64) (VNum (Fixnum 1)) (VNum (Fixnum 2)) inv_empty Logic.I Logic.I)
    as (p1 & s1 & _ & _ & Hp1 & _ & I1 & T1).
  destruct (callA_cons s1 (VPtr p1) (VNum (Fixnum 3)) I1 T1 Logic.I)
    as (p2 & s2 & _ & _ & Hp2 & Q2 & I2 & T2).
  exists s2, (VPtr p2), p2, (ALoc (LPair p1)), (AImm (VNum (Fixnum 3))), p1,
         (AImm (VNum (Fixnum 1))), (AImm (VNum (Fixnum 2))).
  split; [exact I2|]. split; [exact T2|]. split; [exact (a_pair_absv s2 p2 _ Hp2)|].
  split; [rewrite Hp2, (a_pair_absv s1 p1 _ Hp1); reflexivity|]. split; [reflexivity|].
  split; [|reflexivity].
  rewrite (pres_a_pair s1 s2 p1 (proj1 I1) (quiet_pres _ _ Q2) (proj1 T1)). exact Hp1.
Qed.

(* two proper lists (1 2 3) and (4 5) on one machine: the hypotheses of the two-list forms *)
Lemma map_hyps_inhabited :
  exists s l1 l2 xs ys,
    inv s /\ val_ok s l1 /\ val_ok s l2 /\
    achain (abs s) (absv s l1) xs anil /\ achain (abs s) (absv s l2) ys anil /\
    length xs = 3%nat /\ length ys = 2%nat /\ Forall (fun xy => two_args (row2 xy)) (combine xs ys).
Proof.
  set (n := fun z => VNum (Fixnum z)).
  destruct (vararg_lists_spec (vm_empty 64) [n 1%Z; n 2%Z; n 3%Z] inv_empty
              ltac:(repeat constructor)) as (l1 & s1 & _ & Q1 & I1 & Hv1 & Hc1).
  destruct (vararg_lists_spec s1 [n 4%Z; n 5%Z] I1 ltac:(repeat constructor))
    as (l2 & s2 & _ & Q2 & I2 & Hv2 & Hc2).
  pose proof (quiet_pres _ _ Q2) as P2.
  exists s2, l1, l2, (map (absv (vm_empty 64)) [n 1%Z; n 2%Z; n 3%Z]), (map (absv s1) [n 4%Z; n 5%Z]).
  split; [exact I2|]. split; [exact (pres_val_ok _ _ _ P2 Hv1)|]. split; [exact Hv2|].
  split; [rewrite (pres_absv _ _ _ P2 Hv1); exact (achain_pres s1 s2 _ _ _ (proj1 I1) P2 Hc1)|].
  split; [exact Hc2|]. split; [reflexivity|]. split; [reflexivity|].
  repeat constructor.
Qed.
