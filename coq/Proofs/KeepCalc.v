(* KeepCalc.v — C01 (R2): the part of the machine invariant [minv] of CompileCorrect.v that
   FlatProofs' [finv] does not contain, as an invariant [J] of EVERY monadic computation of
   the model:

     ginv       every bound symbol address has a slot inside g_slots, slots are injective
     sp < scap  the stack pointer is inside the stack vector
     conts_ok   every captured continuation saved its stack up to its own sp
                (needed for [sp < scap] across restore_continuation)

   [J] depends on g_bind, the LENGTH of g_slots, sp, scap and the continuation table only.
   [kp m]: from a J state, m ends (normally or with an error) in a J state.  There are no
   side conditions on values, so the calculus is driven by one tactic, [kpa].            *)
From Coq Require Import Lia List String.
From MW Require Import Model.Base Model.F64 Model.Num Model.Datum Model.TransformDef Model.Transform
  Model.VmTypes Model.Heap Model.VmBase Model.Compile Model.Vm
  Proofs.GcProofs Proofs.VmProofs0 Proofs.TailProofs Proofs.CompileCorrect.
Open Scope N_scope.
Arguments N.add : simpl never.
Arguments N.sub : simpl never.
Arguments N.eqb : simpl never.
Arguments N.ltb : simpl never.
Arguments N.leb : simpl never.
Arguments N.mul : simpl never.

Definition conts_ok (x : store) : Prop :=
  forall cid k, tget (conts x) cid = Some k -> k_sp k < len (k_stack k).

Record J (s : vm) : Prop := {
  j_glob : ginv s;
  j_sp : sp s < scap s;
  j_conts : conts_ok (st s)
}.

Lemma J_same s s' :
  g_bind s' = g_bind s -> len (g_slots s') = len (g_slots s) -> sp s' = sp s -> scap s' = scap s ->
  conts (st s') = conts (st s) -> J s -> J s'.
Proof.
  intros Eb El Ep Ec Ek [G S K]. constructor.
  - unfold ginv in *. rewrite Eb, El. exact G.
  - rewrite Ep, Ec. exact S.
  - unfold conts_ok in *. rewrite Ek. exact K.
Qed.

Lemma J_empty c : J (vm_empty c).
Proof.
  constructor.
  - split; cbn [vm_empty g_bind assoc_find]; intros; discriminate.
  - reflexivity.
  - intros cid k H. cbn in H. rewrite tget_tempty in H. discriminate.
Qed.

Definition jpost {A} (r : res A) : Prop :=
  match r with ROk _ s' | RErr _ _ s' => J s' | _ => True end.
Definition kp {A} (m : M A) : Prop := forall s, J s -> jpost (m s).

Lemma jpost_bind {A B} (m : M A) (f : A -> M B) s :
  jpost (m s) -> (forall a s', m s = ROk a s' -> J s' -> jpost (f a s')) -> jpost (bindM m f s).
Proof.
  unfold bindM. intros H K. destruct (m s) as [a s1|e msg s1|k|]; cbn [jpost] in *; auto.
Qed.
Lemma kp_bind {A B} (m : M A) (f : A -> M B) : kp m -> (forall a, kp (f a)) -> kp (bindM m f).
Proof. intros Hm Hf s Hs. apply jpost_bind; [apply Hm, Hs|]. intros a s' _ H'. apply Hf, H'. Qed.
Lemma kp_ret {A} (a : A) : kp (ret a). Proof. intros s H; exact H. Qed.
Lemma kp_fail {A} e : kp (@fail A e). Proof. intros s H; exact H. Qed.
Lemma kp_fail_msg {A} e m : kp (@fail_msg A e m). Proof. intros s H; exact H. Qed.
Lemma kp_panic {A} k : kp (@panic A k). Proof. intros s H; exact I. Qed.
Lemma kp_nofuel {A} : kp (fun _ : vm => @RNoFuel A). Proof. intros s H; exact I. Qed.
Lemma kp_pure {A} (m : M A) : pure m -> kp m.
Proof. intros P s H. specialize (P s). unfold jpost. destruct (m s); try exact I; subst; exact H. Qed.
Lemma kp_lift {A} (o : out A) : kp (lift o). Proof. apply kp_pure, pure_lift. Qed.
Lemma kp_get_vm : kp get_vm. Proof. apply kp_pure, pure_get_vm. Qed.

(* a state update that leaves the five components alone *)
Lemma kp_upd {A} (a : A) (g : vm -> vm) :
  (forall s, g_bind (g s) = g_bind s /\ len (g_slots (g s)) = len (g_slots s) /\ sp (g s) = sp s /\
             scap (g s) = scap s /\ conts (st (g s)) = conts (st s)) ->
  kp (fun s => ROk a (g s)).
Proof. intros H s Hs. destruct (H s) as (E1 & E2 & E3 & E4 & E5). exact (J_same s (g s) E1 E2 E3 E4 E5 Hs). Qed.

(* ------------------------------------------------------------------ stack *)
Lemma kp_push v : kp (push v).
Proof.
  intros s [G S K]. unfold push. cbn [jpost]. constructor; [exact G| |exact K].
  cbn [sp scap with_scap with_stack]. destruct (N.ltb_spec (sp s + 1) (scap s)); lia.
Qed.
Lemma J_with_sp s p : J s -> p < scap s -> J (with_sp s p).
Proof. intros [G S K] H. constructor; [exact G|exact H|exact K]. Qed.
Lemma kp_pop_raw : kp pop_raw.
Proof.
  intros s Hs. unfold pop_raw. destruct (sp s =? 0); [exact Hs|].
  pose proof (j_sp s Hs). destruct (sp s <? scap s); cbn [jpost]; apply J_with_sp; auto; lia.
Qed.
Lemma kp_stack_get i : kp (stack_get i). Proof. apply kp_pure, pure_stack_get. Qed.
Lemma kp_stack_get_offset z : kp (stack_get_offset z). Proof. apply kp_pure, pure_stack_get_offset. Qed.
Lemma kp_stack_put i v : kp (stack_put i v).
Proof. intros s Hs. unfold stack_put. destruct (i <? scap s); [|exact Hs]. revert Hs. apply J_same; reflexivity. Qed.
Lemma kp_stack_put_offset z v : kp (stack_put_offset z v).
Proof. intros s Hs. unfold stack_put_offset. destruct (_ <? 0)%Z; [exact Hs|apply kp_stack_put, Hs]. Qed.

(* ------------------------------------------------------------------ heap, store *)
Lemma kp_hget p : kp (hget p). Proof. apply kp_pure, pure_hget. Qed.
Lemma kp_hderef v : kp (hderef v). Proof. apply kp_pure, pure_hderef. Qed.
Lemma kp_hset p v : kp (hset p v).
Proof.
  intros s Hs. unfold hset. destruct (heap_set (hp s) p v); cbn [jpost]; try exact I; [|exact Hs].
  revert Hs. apply J_same; reflexivity.
Qed.
Lemma kp_hput v : kp (hput v).
Proof. intros s Hs. unfold hput. destruct (heap_put (hp s) v). revert Hs. apply J_same; reflexivity. Qed.
Lemma kp_hmaybe_put v : kp (hmaybe_put v).
Proof. intros s Hs. unfold hmaybe_put. destruct (heap_maybe_put (hp s) v). revert Hs. apply J_same; reflexivity. Qed.
Lemma kp_pop_deref : kp pop_deref.
Proof. unfold pop_deref. apply kp_bind; [apply kp_pop_raw|intros; apply kp_hderef]. Qed.
Lemma kp_as_ptr v : kp (as_ptr v). Proof. apply kp_pure, pure_as_ptr. Qed.
Lemma kp_str_get i : kp (str_get i).
Proof. intros s Hs. unfold str_get. destruct (tget _ _); [exact Hs|exact I]. Qed.
Lemma kp_vec_get i : kp (vec_get i).
Proof. intros s Hs. unfold vec_get. destruct (tget _ _); [exact Hs|exact I]. Qed.
Lemma kp_str_set i t : kp (str_set i t).
Proof. intros s. apply J_same; reflexivity. Qed.
Lemma kp_vec_set i l : kp (vec_set i l).
Proof. intros s. apply J_same; reflexivity. Qed.
Lemma kp_str_new t : kp (str_new t).
Proof. intros s. unfold str_new, new_str. apply J_same; reflexivity. Qed.
Lemma kp_vec_new l : kp (vec_new l).
Proof. intros s. unfold vec_new, new_vec. apply J_same; reflexivity. Qed.
Lemma kp_as_cell bn f v : kp (as_cell bn f v).
Proof. intros s Hs. unfold as_cell. apply kp_lift, Hs. Qed.
Lemma kp_to_cell v : kp (to_cell v).
Proof. intros s Hs. unfold to_cell. apply kp_as_cell, Hs. Qed.

(* ------------------------------------------------------------------ the tactic *)
Create HintDb kp.
#[export] Hint Resolve kp_ret kp_fail kp_fail_msg kp_panic kp_nofuel kp_lift kp_get_vm kp_push kp_pop_raw kp_stack_get
  kp_stack_get_offset kp_stack_put kp_stack_put_offset kp_hget kp_hderef kp_hset kp_hput kp_hmaybe_put
  kp_pop_deref kp_as_ptr kp_str_get kp_vec_get kp_str_set kp_vec_set kp_str_new kp_vec_new kp_as_cell
  kp_to_cell : kp.

Ltac kp_step :=
  lazymatch goal with
  | |- kp (bindM _ _) => apply kp_bind; [|intro]
  | |- kp (if ?c then _ else _) => destruct c
  | |- kp (match ?x with _ => _ end) => destruct x
  | |- kp _ => solve [auto 2 with kp]
  end.
Ltac kpa := repeat kp_step.

(* ------------------------------------------------------------------ typed poppers *)
Lemma kp_pop_argc mn mx : kp (pop_argc mn mx).
Proof. unfold pop_argc. kpa. Qed.
Lemma kp_pop_value : kp pop_value. Proof. apply kp_pop_deref. Qed.
#[export] Hint Resolve kp_pop_argc kp_pop_value : kp.
Lemma kp_pop_number : kp pop_number. Proof. unfold pop_number. kpa. Qed.
Lemma kp_pop_char : kp pop_char. Proof. unfold pop_char. kpa. Qed.
Lemma kp_pop_string : kp pop_string. Proof. unfold pop_string. kpa. Qed.
Lemma kp_pop_symbol : kp pop_symbol. Proof. unfold pop_symbol. kpa. Qed.
Lemma kp_pop_vector : kp pop_vector. Proof. unfold pop_vector. kpa. Qed.
#[export] Hint Resolve kp_pop_number kp_pop_char kp_pop_string kp_pop_symbol kp_pop_vector : kp.

(* ------------------------------------------------------------------ Vm.v helpers *)
Lemma kp_as_argc v : kp (as_argc v). Proof. apply kp_pure, pure_as_argc. Qed.
Lemma kp_as_lexenv v : kp (as_lexenv v). Proof. apply kp_pure, pure_as_lexenv. Qed.
Lemma kp_as_bp v : kp (as_bp v). Proof. destruct v; cbn [as_bp]; auto with kp. Qed.
Lemma kp_as_ep v : kp (as_ep v). Proof. destruct v; cbn [as_ep]; auto with kp. Qed.
Lemma kp_as_ip v : kp (as_ip v). Proof. destruct v; cbn [as_ip]; auto with kp. Qed.
Lemma kp_usub a b : kp (Vm.usub a b). Proof. apply kp_pure, pure_usub. Qed.
Lemma kp_get_lambda i : kp (get_lambda i). Proof. apply kp_pure, pure_get_lambda. Qed.
Lemma kp_as_lambda v : kp (as_lambda v). Proof. apply kp_pure, pure_as_lambda. Qed.
Lemma kp_env_slots i : kp (env_slots i). Proof. apply kp_pure, pure_env_slots. Qed.
Lemma kp_env_get e i : kp (env_get e i). Proof. apply kp_pure, pure_env_get. Qed.
#[export] Hint Resolve kp_as_argc kp_as_lexenv kp_as_bp kp_as_ep kp_as_ip kp_usub kp_get_lambda kp_as_lambda
  kp_env_slots kp_env_get : kp.
Lemma kp_env_put e i v : kp (env_put e i v).
Proof.
  unfold env_put. kpa. intros s. apply J_same; reflexivity.
Qed.
Lemma kp_env_new l : kp (env_new l).
Proof. intros s. unfold env_new, new_env. apply J_same; reflexivity. Qed.
Lemma kp_set_ip i : kp (set_ip i). Proof. intros s. apply J_same; reflexivity. Qed.
Lemma kp_set_acc i : kp (set_acc i). Proof. intros s. apply J_same; reflexivity. Qed.
Lemma kp_set_bp i : kp (set_bp i). Proof. intros s. apply J_same; reflexivity. Qed.
Lemma kp_set_ep i : kp (set_ep i). Proof. intros s. apply J_same; reflexivity. Qed.
#[export] Hint Resolve kp_env_put kp_env_new kp_set_ip kp_set_acc kp_set_bp kp_set_ep : kp.
