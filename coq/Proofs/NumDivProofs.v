(* NumDivProofs.v — number.rs modulo and Div on exact operands (Model/NumArith.v)
   against Z / Q: the statements left OPEN by the "num" package (C08).           *)
From Coq Require Import ZArith Lia Bool QArith List.
From MW Require Import Model.Base Model.F64 Model.Num Model.Ratio32 Model.NumArith Model.NumSpec
  Proofs.GcdProofs Proofs.Ratio32Proofs Proofs.NumProofs.
Import ListNotations.
Open Scope Z_scope.

(* ============================================================ modulo 271-276 *)
(* rem (rem a b + b) b is the flooring remainder *)
Lemma rem_small x b : b <> 0 -> Z.abs x < Z.abs b -> Z.rem x b = x.
Proof. intros. now apply Z.rem_small_iff. Qed.
Lemma rem_add_rem a b : b <> 0 -> Z.rem (Z.rem a b + b) b = a mod b.
Proof.
  intros Hb.
  pose proof (Z.rem_bound_abs a b Hb) as RB.
  pose proof (Z.quot_rem' a b) as E.
  assert (S1 : 0 <= a -> 0 <= Z.rem a b) by (intros; apply Z.rem_nonneg; lia).
  assert (S2 : a <= 0 -> Z.rem a b <= 0) by (intros; apply Z.rem_nonpos; lia).
  set (m := Z.rem a b) in *. set (q := Z.quot a b) in *.
  assert (A : Z.rem (m + b) b = m \/ (Z.rem (m + b) b = m + b /\ Z.abs (m + b) < Z.abs b)).
  { destruct (Z_lt_le_dec (Z.abs (m + b)) (Z.abs b)) as [L|L].
    - right. split; [now apply rem_small|exact L].
    - left. replace (m + b) with (m + 1 * b) by ring. rewrite Z.rem_add by nia. apply rem_small; lia. }
  destruct (Z.lt_trichotomy b 0) as [Bn|[B0|Bp]]; [|lia|].
  - destruct (Z_le_gt_dec m 0) as [Mn|Mp].
    + destruct A as [A|[A L]]; [|lia]. rewrite A. apply Z.mod_unique_neg with q; lia.
    + destruct A as [A|[A L]].
      * exfalso. assert (Z.abs (m + b) < Z.abs b) by lia.
        rewrite rem_small in A by lia. lia.
      * rewrite A. apply Z.mod_unique_neg with (q - 1); lia.
  - destruct (Z_le_gt_dec 0 m) as [Mn|Mp].
    + destruct A as [A|[A L]]; [|lia]. rewrite A. apply Z.mod_unique_pos with q; lia.
    + destruct A as [A|[A L]].
      * exfalso. assert (Z.abs (m + b) < Z.abs b) by lia.
        rewrite rem_small in A by lia. lia.
      * rewrite A. apply Z.mod_unique_pos with (q - 1); lia.
Qed.

(* The two classes on which the OPEN statement of the "num" package is false: both in the
   arm Fixnum % Rational, which runs on Rational64 (number.rs:870-878) and then adds two
   Rational32.  (1) i64::MIN % -1 panics in both profiles; (2) rem + divisor leaves i32:
   checked_add answers None and modulo continues on floats. *)
Definition modulo_known (a b : num) : bool :=
  match a, b with
  | Fixnum l, Rational rn _ =>
      ((l =? I64_MIN) && (rn =? -1)) || negb (in_i32 (Z.rem l rn + rn))
  | _, _ => false
  end.

Lemma in_i64_add_split x y : in_i64 (x + y) = true \/ in_i64 (x + y) = false.
Proof. destruct (in_i64 (x + y)); auto. Qed.

Lemma rnew32_int p m : in_i32 m = true -> rnew p W32 m 1 = Ok (m, 1).
Proof.
  intros Hm. unfold rnew, rreduce. cbn [Z.eqb].
  destruct (Z.eqb_spec m 0) as [->|M0]; [reflexivity|].
  destruct (Z.eqb_spec m 1) as [->|M1]; [reflexivity|].
  rewrite igcd_spec; try (reflexivity || assumption || (unfold W32; lia)).
  2:{ split; [intros _; split; discriminate|intros E; discriminate E]. }
  rewrite Z.gcd_1_r. cbn [bind].
  rewrite !idiv_ok by (try lia; right; lia). cbn [bind]. rewrite !Z.quot_1_r. reflexivity.
Qed.

Lemma rnew64_int p m : in_i64 m = true -> rnew p W64 m 1 = Ok (m, 1).
Proof.
  intros Hm. unfold rnew, rreduce. cbn [Z.eqb].
  destruct (Z.eqb_spec m 0) as [->|M0]; [reflexivity|].
  destruct (Z.eqb_spec m 1) as [->|M1]; [reflexivity|].
  rewrite igcd_spec; try (reflexivity || assumption || (unfold W64; lia)).
  2:{ split; [intros _; split; discriminate|intros E; discriminate E]. }
  rewrite Z.gcd_1_r. cbn [bind].
  rewrite !idiv_ok by (try lia; right; lia). cbn [bind]. rewrite !Z.quot_1_r. reflexivity.
Qed.

Lemma i32_i64 z : in_i32 z = true -> in_i64 z = true.
Proof.
  unfold in_i32, in_i64, I32_MIN, I32_MAX, I64_MIN, I64_MAX. rewrite !andb_true_iff, !Z.leb_le.
  assert (2 ^ 31 < 2 ^ 63) by (apply Z.pow_lt_mono_r; lia). lia.
Qed.

Lemma in_i32_iff z : in_i32 z = true <-> - 2 ^ 31 <= z <= 2 ^ 31 - 1.
Proof. unfold in_i32, I32_MIN, I32_MAX. rewrite andb_true_iff, !Z.leb_le. tauto. Qed.
Lemma in_i64_iff z : in_i64 z = true <-> - 2 ^ 63 <= z <= 2 ^ 63 - 1.
Proof. unfold in_i64, I64_MIN, I64_MAX. rewrite andb_true_iff, !Z.leb_le. tauto. Qed.

Lemma rwfb_int n : rwfb n 1 = true -> in_i32 n = true.
Proof. unfold rwfb. rewrite !andb_true_iff. tauto. Qed.

(* the three steps of modulo on the integer representations *)
Lemma rem_int_result p a b za zb :
  wfb a = true -> wfb b = true ->
  int_of a = Some za -> int_of b = Some zb -> zb <> 0 -> both_rational a b = false ->
  match a, b with Fixnum l, Rational rn _ => (l =? I64_MIN) && (rn =? -1) | _, _ => false end = false ->
  exists r, num_rem p a b = Ok (Some r) /\ int_of r = Some (Z.rem za zb) /\ wfb r = true /\
    match b with Rational _ _ => match a with Fixnum _ => exists m, r = Rational m 1 | _ => exists m, r = BigInt m end
    | _ => forall n d, r <> Rational n d end.
Proof.
  intros Wa Wb Ia Ib Nz NR NK.
  destruct b as [r0|r0|rn rd|fr]; try discriminate.
  - destruct (remainder_exact p a (Fixnum r0) za zb Wa Wb Ia Ib Nz ltac:(discriminate)) as [r [Hr Ir]].
    exists r. split; [exact Hr|]. split; [exact Ir|].
    destruct a as [l|l|ln ld|fl]; try discriminate; cbn [num_rem] in Hr.
    + unfold some_fix, fix_wrapping_rem in Hr. cbn [int_of] in Ia, Ib. inv_ok Ia. inv_ok Ib.
      destruct (Z.eqb_spec zb 0); [contradiction|]. cbn [bind] in Hr. inv_ok Hr.
      split; [|discriminate]. cbn [wfb] in *. apply in_i64_iff. apply in_i64_iff in Wa. apply in_i64_iff in Wb.
      pose proof (Z.rem_bound_abs za zb Nz). lia.
    + unfold some_big, big_rem in Hr. cbn [int_of] in Ib. inv_ok Ib.
      destruct (Z.eqb_spec zb 0); [contradiction|]. cbn [bind] in Hr. inv_ok Hr. split; [reflexivity|discriminate].
    + apply int_of_rational in Ia. destruct Ia; subst. rewrite rto_integer_1 in Hr. cbn [bind] in Hr.
      cbn [int_of] in Ib. inv_ok Ib. cbn [wfb] in Wa.
      rewrite irem_ok in Hr by (try lia; left; eapply i32_not_i64min; eassumption).
      cbn [some_fix bind] in Hr. inv_ok Hr. split; [|discriminate].
      cbn [wfb] in *. apply in_i64_iff. apply in_i64_iff in Wb.
      pose proof (Z.rem_bound_abs ln zb Nz). lia.
  - destruct (remainder_exact p a (BigInt r0) za zb Wa Wb Ia Ib Nz ltac:(discriminate)) as [r [Hr Ir]].
    exists r. split; [exact Hr|]. split; [exact Ir|].
    cbn [int_of] in Ib. inv_ok Ib.
    destruct a as [l|l|ln ld|fl]; try discriminate; cbn [num_rem] in Hr;
      try (apply int_of_rational in Ia; destruct Ia; subst; rewrite rto_integer_1 in Hr; cbn [bind] in Hr);
      unfold some_big, big_rem in Hr; (destruct (Z.eqb_spec zb 0); [contradiction|]); cbn [bind] in Hr; inv_ok Hr;
      (split; [reflexivity|discriminate]).
  - apply int_of_rational in Ib. destruct Ib; subst rd zb.
    destruct a as [l|l|ln ld|fl]; try discriminate.
    + (* Fixnum % n/1 on Rational64 *)
      cbn [int_of] in Ia. inv_ok Ia. cbn [wfb] in Wa, Wb. pose proof (rwfb_int _ Wb) as Rn.
      assert (B : Z.abs (Z.rem za rn) < Z.abs rn) by (apply Z.rem_bound_abs; exact Nz).
      assert (Rm : in_i32 (Z.rem za rn) = true).
      { apply in_i32_iff in Rn. rewrite in_i32_iff. lia. }
      cbn [num_rem].
      rewrite rnew64_int by (now apply i32_i64).
      cbn [bind]. unfold rrem, rarith, rfrom_integer. cbn [Z.eqb Pos.eqb]. cbn [apply_aop].
      rewrite irem_ok; [|exact Nz|].
      2:{ destruct (Z.eqb_spec za I64_MIN) as [E1|E1]; [|left; exact E1].
          destruct (Z.eqb_spec rn (-1)) as [E2|E2]; [discriminate NK|right; exact E2]. }
      cbn [bind]. rewrite rnew64_int by (now apply i32_i64).
      cbn [bind fst snd].
      assert (Wm : wrap 32 (Z.rem za rn) = Z.rem za rn).
      { apply in_i32_iff in Rm. unfold wrap. change (2 ^ 32) with 4294967296 in *.
        change (2 ^ (32 - 1)) with 2147483648 in *. change (2 ^ 31) with 2147483648 in *.
        destruct (Z.ltb_spec (Z.rem za rn mod 4294967296) 2147483648) as [L|L].
        - destruct (Z_le_gt_dec 0 (Z.rem za rn)).
          + apply Z.mod_small. lia.
          + exfalso. rewrite <- (Z.mod_add _ 1) in L by lia. rewrite Z.mod_small in L by lia. lia.
        - destruct (Z_le_gt_dec 0 (Z.rem za rn)).
          + exfalso. rewrite Z.mod_small in L by lia. lia.
          + rewrite <- (Z.mod_add _ 1) by lia. rewrite Z.mod_small by lia. lia. }
      rewrite Wm. change (wrap 32 1) with 1.
      rewrite rnew32_int by assumption. cbn [bind r32 fst snd].
      eexists. split; [reflexivity|]. split; [reflexivity|]. split; [|eexists; reflexivity].
      cbn [wfb r32 fst snd]. unfold rwfb. rewrite Rm, Z.gcd_1_r. reflexivity.
    + cbn [int_of] in Ia. inv_ok Ia. cbn [num_rem]. rewrite ris_integer_1, rto_integer_1. cbn [bind].
      unfold some_big, big_rem. destruct (Z.eqb_spec rn 0); [contradiction|]. cbn [bind].
      eexists. split; [reflexivity|]. split; [reflexivity|]. split; [reflexivity|eexists; reflexivity].
Qed.

(* the addition step, on the shapes the remainder step produces *)
Lemma add_int_result p a b za zb :
  wfb a = true -> wfb b = true -> int_of a = Some za -> int_of b = Some zb ->
  match a, b with
  | Fixnum _, Fixnum _ | Fixnum _, BigInt _ | BigInt _, Fixnum _ | BigInt _, BigInt _
  | BigInt _, Rational _ _ => true
  | _, _ => false end = true ->
  exists s, num_add p a b = Ok s /\ int_of s = Some (za + zb) /\ wfb s = true /\
            forall n d, s <> Rational n d.
Proof.
  intros Wa Wb Ia Ib Sh.
  destruct a as [l|l|ln ld|fl]; destruct b as [r0|r0|rn rd|fr]; try discriminate;
    try (apply int_of_rational in Ib; destruct Ib; subst);
    cbn [int_of] in *; try (inv_ok Ia); try (inv_ok Ib); cbn [num_add];
    rewrite ?ris_integer_1, ?rto_integer_1; cbn [bind].
  - unfold ichecked_add, ichecked, W64. change (in_int 64 (za + zb)) with (in_i64 (za + zb)).
    destruct (in_i64 (za + zb)) eqn:E; eexists; (split; [reflexivity|]); cbn [int_of wfb];
      (split; [reflexivity|]); (split; [try reflexivity; exact E|discriminate]).
  - eexists. split; [reflexivity|]. cbn [int_of wfb]. split; [f_equal; ring|]. split; [reflexivity|discriminate].
  - eexists. split; [reflexivity|]. cbn [int_of wfb]. split; [reflexivity|]. split; [reflexivity|discriminate].
  - eexists. split; [reflexivity|]. cbn [int_of wfb]. split; [reflexivity|]. split; [reflexivity|discriminate].
  - eexists. split; [reflexivity|]. cbn [int_of wfb]. split; [reflexivity|]. split; [reflexivity|discriminate].
Qed.

(* Rational32 m/1 + n/1 when the sum fits *)
Lemma rchecked_add_ints p m n : in_i32 m = true -> in_i32 n = true -> in_i32 (m + n) = true ->
  rchecked_add p W32 (m, 1) (n, 1) = Ok (Some (m + n, 1)).
Proof.
  intros Hm Hn Hs. unfold rchecked_add, rchecked_addsub.
  replace (igcd p W32 1 1) with (Ok 1 : out Z).
  2:{ symmetry. rewrite igcd_spec; [reflexivity|unfold W32; lia|reflexivity|reflexivity|split; discriminate]. }
  cbn [bind]. change (idiv W32 1 1) with (Ok 1 : out Z). cbn [bind].
  change (ichecked_mul W32 1 1) with (Some 1). cbn iota. change (idiv W32 1 1) with (Ok 1 : out Z). cbn [bind].
  unfold ichecked_mul, ichecked_add. rewrite !Z.mul_1_l.
  rewrite !ichecked_in by assumption. rewrite rnew32_int by assumption. reflexivity.
Qed.

Theorem modulo_exact p a b za zb :
  wfb a = true -> wfb b = true -> int_of a = Some za -> int_of b = Some zb -> zb <> 0 ->
  both_rational a b = false -> modulo_known a b = false ->
  exists r, num_modulo p a b = Ok (Some r) /\ int_of r = Some (za mod zb).
Proof.
  intros Wa Wb Ia Ib Nz NR NK.
  assert (NK1 : match a, b with Fixnum l, Rational rn _ => (l =? I64_MIN) && (rn =? -1) | _, _ => false end = false).
  { destruct a; destruct b; try reflexivity. cbn [modulo_known] in NK. apply orb_false_iff in NK. tauto. }
  destruct (rem_int_result p a b za zb Wa Wb Ia Ib Nz NR NK1) as [r1 [H1 [I1 [W1 Sh1]]]].
  unfold num_modulo. rewrite H1. cbn [bind].
  rewrite <- rem_add_rem by exact Nz. set (m := Z.rem za zb) in *.
  destruct b as [r0|r0|rn rd|fr]; try discriminate.
  - (* Fixnum divisor *)
    destruct (add_int_result p r1 (Fixnum r0) m zb W1 Wb I1 Ib) as [s [Hs [Is [Ws Ss]]]].
    { destruct r1 as [x|x|x y|x]; try reflexivity; try discriminate. exfalso. eapply Sh1. reflexivity. }
    rewrite Hs. cbn [bind].
    destruct (rem_int_result p s (Fixnum r0) (m + zb) zb Ws Wb Is Ib Nz) as [r [Hr [Ir _]]].
    { destruct s; reflexivity. } { destruct s; reflexivity. }
    exists r. split; assumption.
  - destruct (add_int_result p r1 (BigInt r0) m zb W1 Wb I1 Ib) as [s [Hs [Is [Ws Ss]]]].
    { destruct r1 as [x|x|x y|x]; try reflexivity; try discriminate. exfalso. eapply Sh1. reflexivity. }
    rewrite Hs. cbn [bind].
    destruct (rem_int_result p s (BigInt r0) (m + zb) zb Ws Wb Is Ib Nz) as [r [Hr [Ir _]]].
    { destruct s; reflexivity. } { destruct s; reflexivity. }
    exists r. split; assumption.
  - destruct a as [l|l|ln ld|fl]; try discriminate.
    + (* Fixnum by n/1: Rational32 arithmetic *)
      destruct Sh1 as [m' E]. subst r1. cbn [int_of Z.eqb Pos.eqb] in I1. inv_ok I1.
      pose proof Ib as Ib'. apply int_of_rational in Ib'. destruct Ib'; subst rd zb.
      cbn [int_of] in Ia. assert (El : l = za) by congruence. subst l. clear Ia.
      cbn [modulo_known] in NK. apply orb_false_iff in NK. destruct NK as [_ NK]. apply negb_false_iff in NK.
      fold m in NK. cbn [wfb] in W1, Wb. pose proof (rwfb_int _ W1) as Rm. pose proof (rwfb_int _ Wb) as Rn.
      assert (B : Z.abs m < Z.abs rn) by (apply Z.rem_bound_abs; exact Nz).
      cbn [num_add]. rewrite rchecked_add_ints by assumption. cbn [or_float bind r32 fst snd].
      unfold r32. cbn [fst snd num_rem]. unfold rrem, rarith. cbn [Z.eqb Pos.eqb apply_aop].
      rewrite irem_ok; [|exact Nz|].
      2:{ destruct (Z.eq_dec rn (-1)) as [E|E]; [|right; exact E]. left. subst rn.
          change (imin W32) with (-2147483648). lia. }
      cbn [bind].
      assert (B2 : Z.abs (Z.rem (m + rn) rn) < Z.abs rn) by (apply Z.rem_bound_abs; exact Nz).
      rewrite rnew32_int.
      2:{ apply in_i32_iff in Rn. apply in_i32_iff. lia. }
      cbn [bind r32 fst snd]. eexists. split; [reflexivity|]. reflexivity.
    + (* BigInt by n/1 *)
      destruct (add_int_result p r1 (Rational rn rd) m zb W1 Wb I1 Ib) as [s [Hs [Is [Ws Ss]]]].
      { destruct Sh1 as [m' E]. subst r1. reflexivity. }
      rewrite Hs. cbn [bind].
      destruct (rem_int_result p s (Rational rn rd) (m + zb) zb Ws Wb Is Ib Nz) as [r [Hr [Ir _]]].
      { destruct s as [x|x|x y|x]; try reflexivity. exfalso. eapply Ss. reflexivity. }
      { destruct s as [x|x|x y|x]; try reflexivity.
        destruct Sh1 as [m' E]. subst r1. cbn [num_add] in Hs.
        destruct (ris_integer (rn, rd)); [|discriminate Hs].
        destruct (rto_integer W32 (rn, rd)); cbn [bind] in Hs; discriminate Hs. }
      exists r. split; assumption.
Qed.
