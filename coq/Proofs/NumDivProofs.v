(* NumDivProofs.v — number.rs modulo and Div on exact operands (Model/NumArith.v)
   against Z / Q: the statements left OPEN by the "num" package (C08).           *)
From Coq Require Import ZArith Lia Bool QArith List.
From MW Require Import Model.Base Model.F64 Model.Num Model.Ratio32 Model.NumArith Model.NumSpec
  Proofs.GcdProofs Proofs.Ratio32Proofs Proofs.NumProofs.
Import ListNotations.
Open Scope Z_scope.

(* ============================================================ modulo 271-276 *)
(* rem (rem a b + b) b is the flooring remainder *)
Lemma rem_small x b : b <> 0 -> Z.abs x < Z.abs b -> Z.rem x b = x.
Proof. intros. now apply Z.rem_small_iff. Qed.
Lemma rem_add_rem a b : b <> 0 -> Z.rem (Z.rem a b + b) b = a mod b.
Proof.
  intros Hb.
  pose proof (Z.rem_bound_abs a b Hb) as RB.
  pose proof (Z.quot_rem' a b) as E.
  assert (S1 : 0 <= a -> 0 <= Z.rem a b) by (intros; apply Z.rem_nonneg; lia).
  assert (S2 : a <= 0 -> Z.rem a b <= 0) by (intros; apply Z.rem_nonpos; lia).
  set (m := Z.rem a b) in *. set (q := Z.quot a b) in *.
  assert (A : Z.rem (m + b) b = m \/ (Z.rem (m + b) b = m + b /\ Z.abs (m + b) < Z.abs b)).
  { destruct (Z_lt_le_dec (Z.abs (m + b)) (Z.abs b)) as [L|L].
    - right. split; [now apply rem_small|exact L].
    - left. replace (m + b) with (m + 1 * b) by ring. rewrite Z.rem_add by nia. apply rem_small; lia. }
  destruct (Z.lt_trichotomy b 0) as [Bn|[B0|Bp]]; [|lia|].
  - destruct (Z_le_gt_dec m 0) as [Mn|Mp].
    + destruct A as [A|[A L]]; [|lia]. rewrite A. apply Z.mod_unique_neg with q; lia.
    + destruct A as [A|[A L]].
      * exfalso. assert (Z.abs (m + b) < Z.abs b) by lia.
        rewrite rem_small in A by lia. lia.
      * rewrite A. apply Z.mod_unique_neg with (q - 1); lia.
  - destruct (Z_le_gt_dec 0 m) as [Mn|Mp].
    + destruct A as [A|[A L]]; [|lia]. rewrite A. apply Z.mod_unique_pos with q; lia.
    + destruct A as [A|[A L]].
      * exfalso. assert (Z.abs (m + b) < Z.abs b) by lia.
        rewrite rem_small in A by lia. lia.
      * rewrite A. apply Z.mod_unique_pos with (q - 1); lia.
Qed.

(* The two classes on which the OPEN statement of the "num" package is false: both in the
   arm Fixnum % Rational, which runs on Rational64 (number.rs:870-878) and then adds two
   Rational32.  (1) i64::MIN % -1 panics in both profiles; (2) rem + divisor leaves i32:
   checked_add answers None and modulo continues on floats. *)
Definition modulo_known (a b : num) : bool :=
  match a, b with
  | Fixnum l, Rational rn _ =>
      ((l =? I64_MIN) && (rn =? -1)) || negb (in_i32 (Z.rem l rn + rn))
  | _, _ => false
  end.

Lemma in_i64_add_split x y : in_i64 (x + y) = true \/ in_i64 (x + y) = false.
Proof. destruct (in_i64 (x + y)); auto. Qed.

Lemma rnew32_int p m : in_i32 m = true -> rnew p W32 m 1 = Ok (m, 1).
Proof.
  intros Hm. unfold rnew, rreduce. cbn [Z.eqb].
  destruct (Z.eqb_spec m 0) as [->|M0]; [reflexivity|].
  destruct (Z.eqb_spec m 1) as [->|M1]; [reflexivity|].
  rewrite igcd_spec; try (reflexivity || assumption || (unfold W32; lia)).
  2:{ split; [intros _; split; discriminate|intros E; discriminate E]. }
  rewrite Z.gcd_1_r. cbn [bind].
  rewrite !idiv_ok by (try lia; right; lia). cbn [bind]. rewrite !Z.quot_1_r. reflexivity.
Qed.

Lemma rnew64_int p m : in_i64 m = true -> rnew p W64 m 1 = Ok (m, 1).
Proof.
  intros Hm. unfold rnew, rreduce. cbn [Z.eqb].
  destruct (Z.eqb_spec m 0) as [->|M0]; [reflexivity|].
  destruct (Z.eqb_spec m 1) as [->|M1]; [reflexivity|].
  rewrite igcd_spec; try (reflexivity || assumption || (unfold W64; lia)).
  2:{ split; [intros _; split; discriminate|intros E; discriminate E]. }
  rewrite Z.gcd_1_r. cbn [bind].
  rewrite !idiv_ok by (try lia; right; lia). cbn [bind]. rewrite !Z.quot_1_r. reflexivity.
Qed.

Lemma i32_i64 z : in_i32 z = true -> in_i64 z = true.
Proof.
  unfold in_i32, in_i64, I32_MIN, I32_MAX, I64_MIN, I64_MAX. rewrite !andb_true_iff, !Z.leb_le.
  assert (2 ^ 31 < 2 ^ 63) by (apply Z.pow_lt_mono_r; lia). lia.
Qed.

Lemma in_i32_iff z : in_i32 z = true <-> - 2 ^ 31 <= z <= 2 ^ 31 - 1.
Proof. unfold in_i32, I32_MIN, I32_MAX. rewrite andb_true_iff, !Z.leb_le. tauto. Qed.
Lemma in_i64_iff z : in_i64 z = true <-> - 2 ^ 63 <= z <= 2 ^ 63 - 1.
Proof. unfold in_i64, I64_MIN, I64_MAX. rewrite andb_true_iff, !Z.leb_le. tauto. Qed.

Lemma rwfb_int n : rwfb n 1 = true -> in_i32 n = true.
Proof. unfold rwfb. rewrite !andb_true_iff. tauto. Qed.

(* the three steps of modulo on the integer representations *)
Lemma rem_int_result p a b za zb :
  wfb a = true -> wfb b = true ->
  int_of a = Some za -> int_of b = Some zb -> zb <> 0 -> both_rational a b = false ->
  match a, b with Fixnum l, Rational rn _ => (l =? I64_MIN) && (rn =? -1) | _, _ => false end = false ->
  exists r, num_rem p a b = Ok (Some r) /\ int_of r = Some (Z.rem za zb) /\ wfb r = true /\
    match b with Rational _ _ => match a with Fixnum _ => exists m, r = Rational m 1 | _ => exists m, r = BigInt m end
    | _ => forall n d, r <> Rational n d end.
Proof.
  intros Wa Wb Ia Ib Nz NR NK.
  destruct b as [r0|r0|rn rd|fr]; try discriminate.
  - destruct (remainder_exact p a (Fixnum r0) za zb Wa Wb Ia Ib Nz ltac:(discriminate)) as [r [Hr Ir]].
    exists r. split; [exact Hr|]. split; [exact Ir|].
    destruct a as [l|l|ln ld|fl]; try discriminate; cbn [num_rem] in Hr.
    + unfold some_fix, fix_wrapping_rem in Hr. cbn [int_of] in Ia, Ib. inv_ok Ia. inv_ok Ib.
      destruct (Z.eqb_spec zb 0); [contradiction|]. cbn [bind] in Hr. inv_ok Hr.
      split; [|discriminate]. cbn [wfb] in *. apply in_i64_iff. apply in_i64_iff in Wa. apply in_i64_iff in Wb.
      pose proof (Z.rem_bound_abs za zb Nz). lia.
    + unfold some_big, big_rem in Hr. cbn [int_of] in Ib. inv_ok Ib.
      destruct (Z.eqb_spec zb 0); [contradiction|]. cbn [bind] in Hr. inv_ok Hr. split; [reflexivity|discriminate].
    + apply int_of_rational in Ia. destruct Ia; subst. rewrite rto_integer_1 in Hr. cbn [bind] in Hr.
      cbn [int_of] in Ib. inv_ok Ib. cbn [wfb] in Wa.
      rewrite irem_ok in Hr by (try lia; left; eapply i32_not_i64min; eassumption).
      cbn [some_fix bind] in Hr. inv_ok Hr. split; [|discriminate].
      cbn [wfb] in *. apply in_i64_iff. apply in_i64_iff in Wb.
      pose proof (Z.rem_bound_abs ln zb Nz). lia.
  - destruct (remainder_exact p a (BigInt r0) za zb Wa Wb Ia Ib Nz ltac:(discriminate)) as [r [Hr Ir]].
    exists r. split; [exact Hr|]. split; [exact Ir|].
    cbn [int_of] in Ib. inv_ok Ib.
    destruct a as [l|l|ln ld|fl]; try discriminate; cbn [num_rem] in Hr;
      try (apply int_of_rational in Ia; destruct Ia; subst; rewrite rto_integer_1 in Hr; cbn [bind] in Hr);
      unfold some_big, big_rem in Hr; (destruct (Z.eqb_spec zb 0); [contradiction|]); cbn [bind] in Hr; inv_ok Hr;
      (split; [reflexivity|discriminate]).
  - apply int_of_rational in Ib. destruct Ib; subst rd zb.
    destruct a as [l|l|ln ld|fl]; try discriminate.
    + (* Fixnum % n/1 on Rational64 *)
      cbn [int_of] in Ia. inv_ok Ia. cbn [wfb] in Wa, Wb. pose proof (rwfb_int _ Wb) as Rn.
      assert (B : Z.abs (Z.rem za rn) < Z.abs rn) by (apply Z.rem_bound_abs; exact Nz).
      assert (Rm : in_i32 (Z.rem za rn) = true).
      { apply in_i32_iff in Rn. rewrite in_i32_iff. lia. }
      cbn [num_rem].
      rewrite rnew64_int by (now apply i32_i64).
      cbn [bind]. unfold rrem, rarith, rfrom_integer. cbn [Z.eqb Pos.eqb]. cbn [apply_aop].
      rewrite irem_ok; [|exact Nz|].
      2:{ destruct (Z.eqb_spec za I64_MIN) as [E1|E1]; [|left; exact E1].
          destruct (Z.eqb_spec rn (-1)) as [E2|E2]; [discriminate NK|right; exact E2]. }
      cbn [bind]. rewrite rnew64_int by (now apply i32_i64).
      cbn [bind fst snd].
      assert (Wm : wrap 32 (Z.rem za rn) = Z.rem za rn).
      { apply in_i32_iff in Rm. unfold wrap. change (2 ^ 32) with 4294967296 in *.
        change (2 ^ (32 - 1)) with 2147483648 in *. change (2 ^ 31) with 2147483648 in *.
        destruct (Z.ltb_spec (Z.rem za rn mod 4294967296) 2147483648) as [L|L].
        - destruct (Z_le_gt_dec 0 (Z.rem za rn)).
          + apply Z.mod_small. lia.
          + exfalso. rewrite <- (Z.mod_add _ 1) in L by lia. rewrite Z.mod_small in L by lia. lia.
        - destruct (Z_le_gt_dec 0 (Z.rem za rn)).
          + exfalso. rewrite Z.mod_small in L by lia. lia.
          + rewrite <- (Z.mod_add _ 1) by lia. rewrite Z.mod_small by lia. lia. }
      rewrite Wm. change (wrap 32 1) with 1.
      rewrite rnew32_int by assumption. cbn [bind r32 fst snd].
      eexists. split; [reflexivity|]. split; [reflexivity|]. split; [|eexists; reflexivity].
      cbn [wfb r32 fst snd]. unfold rwfb. rewrite Rm, Z.gcd_1_r. reflexivity.
    + cbn [int_of] in Ia. inv_ok Ia. cbn [num_rem]. rewrite ris_integer_1, rto_integer_1. cbn [bind].
      unfold some_big, big_rem. destruct (Z.eqb_spec rn 0); [contradiction|]. cbn [bind].
      eexists. split; [reflexivity|]. split; [reflexivity|]. split; [reflexivity|eexists; reflexivity].
Qed.

(* the addition step, on the shapes the remainder step produces *)
Lemma add_int_result p a b za zb :
  wfb a = true -> wfb b = true -> int_of a = Some za -> int_of b = Some zb ->
  match a, b with
  | Fixnum _, Fixnum _ | Fixnum _, BigInt _ | BigInt _, Fixnum _ | BigInt _, BigInt _
  | BigInt _, Rational _ _ => true
  | _, _ => false end = true ->
  exists s, num_add p a b = Ok s /\ int_of s = Some (za + zb) /\ wfb s = true /\
            forall n d, s <> Rational n d.
Proof.
  intros Wa Wb Ia Ib Sh.
  destruct a as [l|l|ln ld|fl]; destruct b as [r0|r0|rn rd|fr]; try discriminate;
    try (apply int_of_rational in Ib; destruct Ib; subst);
    cbn [int_of] in *; try (inv_ok Ia); try (inv_ok Ib); cbn [num_add];
    rewrite ?ris_integer_1, ?rto_integer_1; cbn [bind].
  - unfold ichecked_add, ichecked, W64. change (in_int 64 (za + zb)) with (in_i64 (za + zb)).
    destruct (in_i64 (za + zb)) eqn:E; eexists; (split; [reflexivity|]); cbn [int_of wfb];
      (split; [reflexivity|]); (split; [try reflexivity; exact E|discriminate]).
  - eexists. split; [reflexivity|]. cbn [int_of wfb]. split; [f_equal; ring|]. split; [reflexivity|discriminate].
  - eexists. split; [reflexivity|]. cbn [int_of wfb]. split; [reflexivity|]. split; [reflexivity|discriminate].
  - eexists. split; [reflexivity|]. cbn [int_of wfb]. split; [reflexivity|]. split; [reflexivity|discriminate].
  - eexists. split; [reflexivity|]. cbn [int_of wfb]. split; [reflexivity|]. split; [reflexivity|discriminate].
Qed.

(* Rational32 m/1 + n/1 when the sum fits *)
Lemma rchecked_add_ints p m n : in_i32 m = true -> in_i32 n = true -> in_i32 (m + n) = true ->
  rchecked_add p W32 (m, 1) (n, 1) = Ok (Some (m + n, 1)).
Proof.
  intros Hm Hn Hs. unfold rchecked_add, rchecked_addsub.
  replace (igcd p W32 1 1) with (Ok 1 : out Z).
  2:{ symmetry. rewrite igcd_spec; [reflexivity|unfold W32; lia|reflexivity|reflexivity|split; discriminate]. }
  cbn [bind]. change (idiv W32 1 1) with (Ok 1 : out Z). cbn [bind].
  change (ichecked_mul W32 1 1) with (Some 1). cbn iota. change (idiv W32 1 1) with (Ok 1 : out Z). cbn [bind].
  unfold ichecked_mul, ichecked_add. rewrite !Z.mul_1_l.
  rewrite !ichecked_in by assumption. rewrite rnew32_int by assumption. reflexivity.
Qed.

Theorem modulo_exact p a b za zb :
  wfb a = true -> wfb b = true -> int_of a = Some za -> int_of b = Some zb -> zb <> 0 ->
  both_rational a b = false -> modulo_known a b = false ->
  exists r, num_modulo p a b = Ok (Some r) /\ int_of r = Some (za mod zb).
Proof.
  intros Wa Wb Ia Ib Nz NR NK.
  assert (NK1 : match a, b with Fixnum l, Rational rn _ => (l =? I64_MIN) && (rn =? -1) | _, _ => false end = false).
  { destruct a; destruct b; try reflexivity. cbn [modulo_known] in NK. apply orb_false_iff in NK. tauto. }
  destruct (rem_int_result p a b za zb Wa Wb Ia Ib Nz NR NK1) as [r1 [H1 [I1 [W1 Sh1]]]].
  unfold num_modulo. rewrite H1. cbn [bind].
  rewrite <- rem_add_rem by exact Nz. set (m := Z.rem za zb) in *.
  destruct b as [r0|r0|rn rd|fr]; try discriminate.
  - (* Fixnum divisor *)
    destruct (add_int_result p r1 (Fixnum r0) m zb W1 Wb I1 Ib) as [s [Hs [Is [Ws Ss]]]].
    { destruct r1 as [x|x|x y|x]; try reflexivity; try discriminate. exfalso. eapply Sh1. reflexivity. }
    rewrite Hs. cbn [bind].
    destruct (rem_int_result p s (Fixnum r0) (m + zb) zb Ws Wb Is Ib Nz) as [r [Hr [Ir _]]].
    { destruct s; reflexivity. } { destruct s; reflexivity. }
    exists r. split; assumption.
  - destruct (add_int_result p r1 (BigInt r0) m zb W1 Wb I1 Ib) as [s [Hs [Is [Ws Ss]]]].
    { destruct r1 as [x|x|x y|x]; try reflexivity; try discriminate. exfalso. eapply Sh1. reflexivity. }
    rewrite Hs. cbn [bind].
    destruct (rem_int_result p s (BigInt r0) (m + zb) zb Ws Wb Is Ib Nz) as [r [Hr [Ir _]]].
    { destruct s; reflexivity. } { destruct s; reflexivity. }
    exists r. split; assumption.
  - destruct a as [l|l|ln ld|fl]; try discriminate.
    + (* Fixnum by n/1: Rational32 arithmetic *)
      destruct Sh1 as [m' E]. subst r1. cbn [int_of Z.eqb Pos.eqb] in I1. inv_ok I1.
      pose proof Ib as Ib'. apply int_of_rational in Ib'. destruct Ib'; subst rd zb.
      cbn [int_of] in Ia. assert (El : l = za) by congruence. subst l. clear Ia.
      cbn [modulo_known] in NK. apply orb_false_iff in NK. destruct NK as [_ NK]. apply negb_false_iff in NK.
      fold m in NK. cbn [wfb] in W1, Wb. pose proof (rwfb_int _ W1) as Rm. pose proof (rwfb_int _ Wb) as Rn.
      assert (B : Z.abs m < Z.abs rn) by (apply Z.rem_bound_abs; exact Nz).
      cbn [num_add]. rewrite rchecked_add_ints by assumption. cbn [or_float bind r32 fst snd].
      unfold r32. cbn [fst snd num_rem]. unfold rrem, rarith. cbn [Z.eqb Pos.eqb apply_aop].
      rewrite irem_ok; [|exact Nz|].
      2:{ destruct (Z.eq_dec rn (-1)) as [E|E]; [|right; exact E]. left. subst rn.
          change (imin W32) with (-2147483648). lia. }
      cbn [bind].
      assert (B2 : Z.abs (Z.rem (m + rn) rn) < Z.abs rn) by (apply Z.rem_bound_abs; exact Nz).
      rewrite rnew32_int.
      2:{ apply in_i32_iff in Rn. apply in_i32_iff. lia. }
      cbn [bind r32 fst snd]. eexists. split; [reflexivity|]. reflexivity.
    + (* BigInt by n/1 *)
      destruct (add_int_result p r1 (Rational rn rd) m zb W1 Wb I1 Ib) as [s [Hs [Is [Ws Ss]]]].
      { destruct Sh1 as [m' E]. subst r1. reflexivity. }
      rewrite Hs. cbn [bind].
      destruct (rem_int_result p s (Rational rn rd) (m + zb) zb Ws Wb Is Ib Nz) as [r [Hr [Ir _]]].
      { destruct s as [x|x|x y|x]; try reflexivity. exfalso. eapply Ss. reflexivity. }
      { destruct s as [x|x|x y|x]; try reflexivity.
        destruct Sh1 as [m' E]. subst r1. cbn [num_add] in Hs.
        destruct (ris_integer (rn, rd)); [|discriminate Hs].
        destruct (rto_integer W32 (rn, rd)); cbn [bind] in Hs; discriminate Hs. }
      exists r. split; assumption.
Qed.

(* ================================================================ Div 697-792 *)
(* ---- Integer::gcd: the Debug build panics exactly on the unrepresentable gcds *)
Lemma iabs_min_panics w : 1 <= w -> iabs Debug w (imin w) = Panic P_OVERFLOW.
Proof.
  intros Hw. unfold iabs, ineg, ovf. pose proof (imin_neg w Hw) as N.
  destruct (Z.ltb_spec (imin w) 0); [|lia].
  destruct (in_int w (- imin w)) eqn:E; [|reflexivity].
  apply in_int_iff in E. rewrite imax_succ in E. lia.
Qed.

Lemma igcd_cases p w m n : 2 <= w -> in_int w m = true -> in_int w n = true -> m <> n ->
  igcd p w m n = Ok (Z.gcd m n) \/ igcd Debug w m n = Panic P_OVERFLOW.
Proof.
  intros Hw Hm Hn Hne.
  destruct (Z.eq_dec m (imin w)) as [Em|Em]; destruct (Z.eq_dec n (imin w)) as [En|En].
  - exfalso. congruence.
  - destruct (Z.eq_dec n 0) as [N0|N0].
    + right. subst. unfold igcd. rewrite Z.eqb_refl, orb_true_r, Z.lor_0_r. apply iabs_min_panics. lia.
    + left. apply igcd_spec; try assumption. split; [intros _; split; assumption|intros E; contradiction].
  - destruct (Z.eq_dec m 0) as [M0|M0].
    + right. subst. unfold igcd. rewrite Z.eqb_refl. cbn [orb]. rewrite Z.lor_0_l. apply iabs_min_panics. lia.
    + left. apply igcd_spec; try assumption. split; [intros E; contradiction|intros _; split; assumption].
  - left. apply igcd_spec; try assumption. split; intros E; contradiction.
Qed.

(* the reduced parts of a fraction with a non-zero denominator *)
Lemma gcd_parts n d : d <> 0 ->
  exists n1 d1, let g := Z.gcd n d in
    0 < g /\ n = n1 * g /\ d = d1 * g /\ Z.gcd n1 d1 = 1 /\ Z.quot n g = n1 /\ Z.quot d g = d1.
Proof.
  intros Hd. cbn zeta. set (g := Z.gcd n d).
  assert (Pg : 0 < g).
  { pose proof (Z.gcd_nonneg n d). destruct (Z.eq_dec g 0) as [G0|G0]; [|subst g; lia].
    apply Z.gcd_eq_0_r in G0. contradiction. }
  destruct (Z.gcd_divide_l n d) as [n1 En]. destruct (Z.gcd_divide_r n d) as [d1 Ed]. fold g in En, Ed.
  exists n1, d1. repeat split; try assumption.
  - assert (G : Z.gcd (n / g) (d / g) = 1) by (apply Z.gcd_div_gcd; [lia|reflexivity]).
    rewrite En, Ed, !Z.div_mul in G by lia. exact G.
  - rewrite En. apply Z.quot_mul. lia.
  - rewrite Ed. apply Z.quot_mul. lia.
Qed.

Lemma in_int_factor w x g : 1 <= w -> 0 < g -> in_int w (x * g) = true -> in_int w x = true.
Proof.
  intros Hw Pg H. apply in_int_iff in H. apply in_int_iff. pose proof (imin_neg w Hw).
  rewrite imax_succ in *. nia.
Qed.

(* ---- Ratio::new(n, d) with a denominator of either sign (nr:124-158) *)
Lemma rreduce_gen p w n d : 2 <= w -> in_int w n = true -> in_int w d = true -> d <> 0 ->
  (exists s, rreduce Debug w (n, d) = Panic s) \/
  exists n' d', rreduce p w (n, d) = Ok (n', d') /\ rwf w (n', d') /\ n' * d = n * d'.
Proof.
  intros Hw Hn Hd Nd. unfold rreduce.
  destruct (Z.eqb_spec d 0); [contradiction|].
  destruct (Z.eqb_spec n 0) as [N0|N0].
  { right. exists 0, 1. subst n. split; [reflexivity|]. split; [now apply rwf_zero|lia]. }
  destruct (Z.eqb_spec n d) as [ND|ND].
  { right. exists 1, 1. subst n. split; [reflexivity|]. split; [now apply rwf_one|lia]. }
  assert (MINneg : imin w < 0) by (apply imin_neg; lia).
  assert (S : gcd_safe w n d).
  { split; intros E; split; congruence. }
  rewrite !igcd_spec by assumption. cbn [bind].
  destruct (gcd_parts n d Nd) as [n1 [d1 [Pg [En [Ed [G1 [Qn Qd]]]]]]]. cbn zeta in *.
  set (g := Z.gcd n d) in *.
  rewrite !idiv_ok by lia. cbn [bind]. rewrite Qn, Qd.
  assert (Rn1 : in_int w n1 = true) by (apply in_int_factor with g; try lia; now rewrite <- En).
  assert (Rd1 : in_int w d1 = true) by (apply in_int_factor with g; try lia; now rewrite <- Ed).
  assert (D1 : d1 <> 0) by (intros E; rewrite E in Ed; lia).
  destruct (Z.ltb_spec d1 0) as [Dn|Dn].
  - unfold isub, ovf. cbn [Z.sub Z.add].
    destruct (in_int w (- n1)) eqn:R1; [|left; eexists; reflexivity]. cbn [bind].
    destruct (in_int w (- d1)) eqn:R2; [|left; eexists; reflexivity]. cbn [bind].
    right. exists (- n1), (- d1). split; [reflexivity|]. split.
    + split; [|cbn [fst snd]; now rewrite Z.gcd_opp_l, Z.gcd_opp_r].
      unfold rok; cbn [fst snd]. repeat split; try assumption. lia.
    + clearbody g. subst n d. ring.
  - right. exists n1, d1. split; [reflexivity|]. split.
    + split; [|exact G1]. unfold rok; cbn [fst snd]. repeat split; try assumption. lia.
    + clearbody g. subst n d. ring.
Qed.

(* ---- CheckedDiv (nr:824-870), cut at its two stages *)
Definition cd_nd p w (an ad bn bd : Z) : out (option (Z * Z)) :=
  if ad =? bd then Ok (Some (an, bn))
  else if an =? bn then Ok (Some (bd, ad))
  else
    do gac <- igcd p w an bn;
    do gbd <- igcd p w ad bd;
    do x1 <- idiv w an gac; do x2 <- idiv w bd gbd;
    match ichecked_mul w x1 x2 with
    | None => Ok None
    | Some nn =>
        do y1 <- idiv w ad gbd; do y2 <- idiv w bn gac;
        match ichecked_mul w y1 y2 with
        | None => Ok None
        | Some dd => Ok (Some (nn, dd))
        end
    end.
Definition cd_tail p w (nd : option (Z * Z)) : out (option ratio) :=
  match nd with
  | None => Ok None
  | Some (numer, denom) =>
      if denom =? 0 then Ok None
      else if numer =? 0 then Ok (Some rzero)
      else if numer =? denom then Ok (Some rone)
      else
        do g <- igcd p w numer denom;
        do n1 <- idiv w numer g;
        do d1 <- idiv w denom g;
        if d1 <? 0 then
          match ichecked_mul w n1 (-1) with
          | None => Ok None
          | Some n2 => match ichecked_mul w d1 (-1) with
                       | None => Ok None
                       | Some d2 => Ok (Some (n2, d2))
                       end
          end
        else Ok (Some (n1, d1))
  end.
Lemma rchecked_div_unfold p w an ad bn bd :
  rchecked_div p w (an, ad) (bn, bd) =
  if bn =? 0 then Ok None else do nd <- cd_nd p w an ad bn bd; cd_tail p w nd.
Proof. reflexivity. Qed.

Lemma cd_tail_spec p w numer denom : 2 <= w ->
  in_int w numer = true -> in_int w denom = true -> denom <> 0 ->
  cd_tail p w (Some (numer, denom)) = Ok None \/
  exists r, cd_tail p w (Some (numer, denom)) = Ok (Some r) /\ rwf w r /\
            fst r * denom = numer * snd r.
Proof.
  intros Hw Hn Hd Nd. unfold cd_tail.
  destruct (Z.eqb_spec denom 0); [contradiction|].
  destruct (Z.eqb_spec numer 0) as [N0|N0].
  { right. exists rzero. subst numer. split; [reflexivity|]. split; [now apply rwf_zero|cbn; lia]. }
  destruct (Z.eqb_spec numer denom) as [ND|ND].
  { right. exists rone. subst numer. split; [reflexivity|]. split; [now apply rwf_one|cbn [rone fst snd]; lia]. }
  assert (MINneg : imin w < 0) by (apply imin_neg; lia).
  assert (S : gcd_safe w numer denom).
  { split; intros E; split; congruence. }
  rewrite !igcd_spec by assumption. cbn [bind].
  destruct (gcd_parts numer denom Nd) as [n1 [d1 [Pg [En [Ed [G1 [Qn Qd]]]]]]]. cbn zeta in *.
  set (g := Z.gcd numer denom) in *.
  rewrite !idiv_ok by lia. cbn [bind]. rewrite Qn, Qd.
  assert (Rn1 : in_int w n1 = true) by (apply in_int_factor with g; try lia; now rewrite <- En).
  assert (Rd1 : in_int w d1 = true) by (apply in_int_factor with g; try lia; now rewrite <- Ed).
  assert (D1 : d1 <> 0) by (intros E; rewrite E in Ed; lia).
  destruct (Z.ltb_spec d1 0) as [Dn|Dn].
  - unfold ichecked_mul.
    destruct (ichecked w (n1 * -1)) as [n2|] eqn:R1; [|left; reflexivity].
    destruct (ichecked w (d1 * -1)) as [d2|] eqn:R2; [|left; reflexivity].
    apply ichecked_some in R1. apply ichecked_some in R2. destruct R1 as [-> R1]. destruct R2 as [-> R2].
    right. eexists. split; [reflexivity|]. cbn [fst snd]. split.
    + split; [|cbn [fst snd]; replace (n1 * -1) with (- n1) by ring; replace (d1 * -1) with (- d1) by ring;
               now rewrite Z.gcd_opp_l, Z.gcd_opp_r].
      unfold rok; cbn [fst snd]. repeat split; try assumption. lia.
    + clearbody g. subst numer denom. ring.
  - right. exists (n1, d1). split; [reflexivity|]. cbn [fst snd]. split.
    + split; [|exact G1]. unfold rok; cbn [fst snd]. repeat split; try assumption. lia.
    + clearbody g. subst numer denom. ring.
Qed.

Lemma cd_nd_spec p w an ad bn bd : 2 <= w -> rok w (an, ad) -> rok w (bn, bd) -> bn <> 0 ->
  (exists s, cd_nd Debug w an ad bn bd = Panic s) \/
  cd_nd p w an ad bn bd = Ok None \/
  exists numer denom, cd_nd p w an ad bn bd = Ok (Some (numer, denom)) /\
    in_int w numer = true /\ in_int w denom = true /\ denom <> 0 /\
    numer * (ad * bn) = denom * (an * bd).
Proof.
  intros Hw [Han [Had Pa]] [Hbn [Hbd Pb]] Nb. cbn [fst snd] in *. unfold cd_nd.
  destruct (Z.eqb_spec ad bd) as [Ed|Ed].
  { right. right. exists an, bn. subst bd. repeat split; try assumption. ring. }
  destruct (Z.eqb_spec an bn) as [En|En].
  { right. right. exists bd, ad. subst bn. repeat split; try assumption; try lia. }
  assert (MINneg : imin w < 0) by (apply imin_neg; lia).
  destruct (igcd_cases p w an bn Hw Han Hbn En) as [G1|G1].
  2:{ left. rewrite G1. eexists. reflexivity. }
  right. rewrite G1. cbn [bind].
  assert (S2 : gcd_safe w ad bd).
  { pose proof Had as Had'. pose proof Hbd as Hbd'. apply in_int_iff in Had'. apply in_int_iff in Hbd'. split; intros E; lia. }
  rewrite igcd_spec by assumption. cbn [bind].
  destruct (gcd_parts an bn Nb) as [x1 [y2 [Pg1 [Ean [Ebn [_ [Qx1 Qy2]]]]]]]. cbn zeta in *.
  destruct (gcd_parts ad bd ltac:(lia)) as [y1 [x2 [Pg2 [Ead [Ebd [_ [Qy1 Qx2]]]]]]]. cbn zeta in *.
  set (gac := Z.gcd an bn) in *. set (gbd := Z.gcd ad bd) in *.
  rewrite !idiv_ok by lia. cbn [bind]. rewrite Qx1, Qx2.
  unfold ichecked_mul.
  destruct (ichecked w (x1 * x2)) as [nn|] eqn:Hn; [|left; reflexivity].
  apply ichecked_some in Hn. destruct Hn as [-> Rn].
  rewrite ?idiv_ok by lia. cbn [bind]. rewrite ?Qy1, ?Qy2.
  destruct (ichecked w (y1 * y2)) as [dd|] eqn:Hd; [|left; reflexivity].
  apply ichecked_some in Hd. destruct Hd as [-> Rd].
  right. exists (x1 * x2), (y1 * y2). split; [reflexivity|]. repeat split; try assumption.
  - assert (y1 <> 0) by (intros E; rewrite E in Ead; lia).
    assert (y2 <> 0) by (intros E; rewrite E in Ebn; lia). nia.
  - clearbody gac gbd. subst an bn ad bd. ring.
Qed.

Lemma rq_div_eq (r a b : ratio) : 0 < snd r -> 0 < snd a -> 0 < snd b ->
  fst r * (snd a * fst b) = fst a * snd b * snd r -> (rq r * rq b == rq a)%Q.
Proof.
  intros Pr Pa Pb E. unfold rq, Qeq, Qmult. cbn [Qnum Qden].
  rewrite Pos2Z.inj_mul, !Z2Pos.id by assumption. lia.
Qed.

(* checked_div: unless the Debug build panics (gcd(0, MIN)), the answer is None or the
   reduced exact quotient — the same in both profiles *)
Lemma rchecked_div_spec p w a b : 2 <= w -> rok w a -> rok w b -> fst b <> 0 ->
  (exists s, rchecked_div Debug w a b = Panic s) \/
  rchecked_div p w a b = Ok None \/
  exists r, rchecked_div p w a b = Ok (Some r) /\ rwf w r /\ (rq r * rq b == rq a)%Q.
Proof.
  intros Hw Ha Hb Nb. destruct a as [an ad], b as [bn bd]. cbn [fst snd] in Nb.
  rewrite !rchecked_div_unfold. destruct (Z.eqb_spec bn 0); [contradiction|].
  destruct (cd_nd_spec p w an ad bn bd Hw Ha Hb Nb) as [[s Hs]|[Hn|[numer [denom [Hn [Rn [Rd [Nd E1]]]]]]]].
  - left. rewrite Hs. eexists. reflexivity.
  - right. left. rewrite Hn. reflexivity.
  - right. rewrite Hn. cbn [bind].
    destruct (cd_tail_spec p w numer denom Hw Rn Rd Nd) as [Ht|[r [Ht [Wr E2]]]].
    + left. exact Ht.
    + right. exists r. split; [exact Ht|]. split; [exact Wr|].
      destruct Wr as [[_ [_ Pr]] _]. destruct Ha as [_ [_ Pa]]. destruct Hb as [_ [_ Pb]].
      apply rq_div_eq; try assumption. cbn [fst snd] in *.
      apply (Z.mul_reg_l _ _ denom Nd).
      replace (denom * (fst r * (ad * bn))) with ((fst r * denom) * (ad * bn)) by ring. rewrite E2.
      replace (numer * snd r * (ad * bn)) with (snd r * (numer * (ad * bn))) by ring. rewrite E1. ring.
Qed.

Lemma or_float_div (oD o : out (option ratio)) fbD fb r (va vb : Q) :
  ((exists s, oD = Panic s) \/ o = Ok None \/
   exists q, o = Ok (Some q) /\ rwf 32 q /\ (rq q * vb == va)%Q) ->
  (forall s, or_float oD fbD <> Panic s) ->
  or_float o fb = Ok r -> is_exact r = true -> wfb r = true /\ (qv r * vb == va)%Q.
Proof.
  intros [[s H]|[H|[q [H [W E]]]]] NP Hr Hx.
  - exfalso. apply (NP s). rewrite H. reflexivity.
  - rewrite H in Hr. cbn in Hr. inv_ok Hr. discriminate.
  - rewrite H in Hr. cbn in Hr. inv_ok Hr. split; [now apply wfb_r32|]. now rewrite qv_r32.
Qed.

Lemma ratio_of_ints_exact p l r0 r : in_i32 l = true -> in_i32 r0 = true -> r0 <> 0 ->
  (forall s, ratio_of_ints Debug l r0 <> Panic s) ->
  ratio_of_ints p l r0 = Ok r -> wfb r = true /\ (qv r * inject_Z r0 == inject_Z l)%Q.
Proof.
  intros Hl Hr Nz NP H. unfold ratio_of_ints, rnew in *.
  destruct (rreduce_gen p W32 l r0 ltac:(unfold W32; lia) Hl Hr Nz) as [[s Hs]|[n' [d' [Hq [W E]]]]].
  - exfalso. apply (NP s). rewrite Hs. reflexivity.
  - rewrite Hq in H. cbn [bind] in H. inv_ok H. split; [now apply wfb_r32|].
    destruct W as [[_ [_ Pd]] _]. cbn [fst snd] in Pd.
    cbn [r32 fst snd qv]. unfold Qeq, Qmult, inject_Z. cbn [Qnum Qden].
    rewrite Pos2Z.inj_mul, Z2Pos.id by assumption. lia.
Qed.

Lemma qv_int_nz z : ~ (inject_Z z == 0)%Q -> z <> 0.
Proof. intros H E. apply H. subst z. reflexivity. Qed.
Lemma qv_rat_nz n d : ~ (n # Z.to_pos d == 0)%Q -> n <> 0.
Proof. intros H E. apply H. subst n. reflexivity. Qed.

(* exact / exact with an exact result: the result is well-formed and is the true quotient,
   in both profiles, whenever the Debug build does not panic (class ratio32-overflow-panic) *)
Theorem div_exact p a b r :
  wfb a = true -> wfb b = true -> is_exact a = true -> is_exact b = true -> ~ (qv b == 0)%Q ->
  (forall s, num_div Debug a b <> Panic s) ->
  num_div p a b = Ok r -> is_exact r = true -> wfb r = true /\ (qv r * qv b == qv a)%Q.
Proof.
  intros Wa Wb Xa Xb Nz NP Hr Xr.
  assert (H32 : 2 <= 32) by lia.
  destruct a as [l|l|ln ld|fl]; destruct b as [r0|r0|rn rd|fr]; try discriminate;
    cbn [num_div] in Hr, NP; cbn [qv wfb] in *;
    try (apply rwfb_rwf in Wa); try (apply rwfb_rwf in Wb);
    try (apply qv_int_nz in Nz); try (apply qv_rat_nz in Nz).
  (* integer / integer *)
  1,2,4,5: destruct (in_i32 l) eqn:El; destruct (in_i32 r0) eqn:Er; cbn [andb] in Hr, NP;
    try (inv_ok Hr; discriminate); eapply ratio_of_ints_exact; eassumption.
  (* integer / rational *)
  1,2: destruct (in_i32 l) eqn:El; [|inv_ok Hr; discriminate];
    eapply or_float_div; [|exact NP|exact Hr|exact Xr];
    exact (rchecked_div_spec p 32 (rfrom_integer l) (rn, rd) H32 (rok_int l El) (rwf_rok _ _ Wb) Nz).
  (* rational / integer *)
  1,2: destruct (in_i32 r0) eqn:Er; [|inv_ok Hr; discriminate];
    eapply or_float_div; [|exact NP|exact Hr|exact Xr];
    exact (rchecked_div_spec p 32 (ln, ld) (rfrom_integer r0) H32 (rwf_rok _ _ Wa) (rok_int r0 Er) Nz).
  (* rational / rational *)
  eapply or_float_div; [|exact NP|exact Hr|exact Xr].
  exact (rchecked_div_spec p 32 (ln, ld) (rn, rd) H32 (rwf_rok _ _ Wa) (rwf_rok _ _ Wb) Nz).
Qed.

(* remainder with an integer-valued Rational divisor as well (the arms excluded from
   remainder_exact): Fixnum % n/1 runs on Rational64, BigInt % n/1 on BigInt *)
Definition rem_known (a b : num) : bool :=
  match a, b with Fixnum l, Rational rn _ => (l =? I64_MIN) && (rn =? -1) | _, _ => false end.
Theorem remainder_exact_gen p a b za zb :
  wfb a = true -> wfb b = true ->
  int_of a = Some za -> int_of b = Some zb -> zb <> 0 -> both_rational a b = false ->
  rem_known a b = false ->
  exists r, num_rem p a b = Ok (Some r) /\ int_of r = Some (Z.rem za zb) /\ wfb r = true.
Proof.
  intros Wa Wb Ia Ib Nz NR NK.
  destruct (rem_int_result p a b za zb Wa Wb Ia Ib Nz NR NK) as [r [H [I [W _]]]].
  exists r. auto.
Qed.
