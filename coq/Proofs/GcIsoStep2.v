(* GcIsoStep2.v — C03, part 9: the allocating instructions CONS, VPUSH, VARARG. *)
From Coq Require Import Lia List.
From MW Require Import Model.Base Model.Num Model.VmTypes Model.Heap Model.Gc Model.VmBase Model.Vm
  Proofs.GcProofs Proofs.SymtabProofs Proofs.GcIso Proofs.GcIsoPrim Proofs.GcIsoStep Proofs.GcIsoAlloc
  Proofs.GcIsoHmi Proofs.GcIsoPayload.
Open Scope N_scope.
Arguments N.add : simpl never.
Arguments N.sub : simpl never.
Arguments N.eqb : simpl never.
Arguments N.ltb : simpl never.
Arguments N.leb : simpl never.
Arguments N.mul : simpl never.

Ltac xt := first [ apply ext_refl | eassumption | eapply ext_trans; [eassumption|xt] ].
Lemma vr_x W W' v1 v2 : ext W W' -> vr W v1 v2 -> vr W' v1 v2.
Proof. intros [E _]. apply vr_ext, E. Qed.
Lemma ar_x W W' v1 v2 : ext W W' -> ar W v1 v2 -> ar W' v1 v2.
Proof. intros [E _]. apply ar_ext, E. Qed.
Lemma lr_x W W' v1 v2 : ext W W' -> lr W v1 v2 -> lr W' v1 v2.
Proof. intros [E _]. apply lr_ext, E. Qed.
Lemma wi_x W W' i : ext W W' -> wi W i -> wi W' i.
Proof. intros [E _]. apply (ex_i _ _ E). Qed.
Lemma top_x W W' i : ext W W' -> i <= wtop W -> i <= wtop W'.
Proof. intros [_ E]. lia. Qed.
Ltac sb L := eapply sim_bind_i; [L|hmi|intros; hmi|].

Lemma vr_pair W a1 a2 d1 d2 : ar W a1 a2 -> ar W d1 d2 -> vr W (VPair a1 d1) (VPair a2 d2).
Proof.
  intros [-> La] [-> Ld]. split; [reflexivity|]. split; [|intros i []].
  intros x [<-|[<-|[]]]; assumption.
Qed.
Lemma vr_ptr W a1 a2 : ar W a1 a2 -> vr W (VPtr a1) (VPtr a2).
Proof. intros [-> La]. split; [reflexivity|]. split; [|intros i []]. intros x [<-|[]]. exact La. Qed.
Lemma vr_nil W : vr W VNil VNil. Proof. apply vr_plain; reflexivity. Qed.
Lemma vr_argc W n : vr W (VArgc n) (VArgc n). Proof. apply vr_plain; reflexivity. Qed.

(* ------------------------------------------------------------------ CONS *)
Definition cons_body : M bool :=
  dom d <- pop_raw; dom dp <- hput d;
  dom a <- pop_raw; dom ap <- hput a;
  dom ai <- as_ptr ap; dom di <- as_ptr dp;
  dom p <- hput (VPair ai di); dom _ <- set_acc p; ret false.
Lemma sim_cons W : sim W eqr cons_body cons_body.
Proof.
  unfold cons_body.
  sb ltac:(apply sim_pop_raw). intros W1 d1 d2 E1 Hd.
  sb ltac:(apply sim_hput, Hd). intros W2 dp1 dp2 E2 Hdp.
  sb ltac:(apply sim_pop_raw). intros W3 a1 a2 E3 Ha.
  sb ltac:(apply sim_hput, Ha). intros W4 ap1 ap2 E4 Hap.
  sb ltac:(apply sim_as_ptr, Hap). intros W5 ai1 ai2 E5 Hai.
  sb ltac:(apply sim_as_ptr; eapply vr_x; [|exact Hdp]; xt). intros W6 di1 di2 E6 Hdi.
  sb ltac:(apply sim_hput, vr_pair; [eapply ar_x; [|exact Hai]; xt|exact Hdi]). intros W7 p1 p2 E7 Hp.
  sb ltac:(apply sim_set_acc, Hp). intros. apply sim_ret. reflexivity.
Qed.

(* ------------------------------------------------------------------ VPUSH *)
Definition vpush_body : M bool :=
  dom v <- pop_raw; dom vp <- hderef v;
  match vp with
  | VVec vid => dom l <- vec_get vid; dom s <- get_vm;
                dom _ <- vec_set vid (l ++ [acc s]); dom _ <- set_acc v; ret false
  | _ => fail E_OTHER
  end.
Lemma sim_vpush W : sim W eqr vpush_body vpush_body.
Proof.
  unfold vpush_body.
  sb ltac:(apply sim_pop_raw). intros W1 v1 v2 E1 Hv.
  sb ltac:(apply sim_hderef, Hv). intros W2 vp1 vp2 E2 [-> Lp].
  destruct vp1; cbn [vmap]; try apply sim_fail.
  assert (Hi : wi W2 (PVec vid)) by (apply (vlive_id _ _ _ Lp); now left).
  sb ltac:(apply sim_vec_get, Hi). intros W3 l1 l2 E3 Hl.
  sb ltac:(apply sim_get_vm). intros W4 x1 x2 E4 Hs.
  sb ltac:(apply sim_vec_set; [eapply wi_x; [|exact Hi]; xt|apply lr_app; [eapply lr_x; [|exact Hl]; xt|apply lr_one, (sn_acc _ _ _ Hs)]]).
  intros W5 ? ? E5 _.
  sb ltac:(apply sim_set_acc; eapply vr_x; [|exact Hv]; xt). intros. apply sim_ret. reflexivity.
Qed.

(* ------------------------------------------------------------------ VARARG *)
Lemma hmi_vararg_collect k : forall v, hmi (vararg_collect k v).
Proof. induction k as [|k IH]; intros v; cbn [vararg_collect]; hmi; try apply IH. Qed.
#[export] Hint Resolve hmi_vararg_collect : hmi.

Lemma sim_vararg_collect k : forall W v1 v2, ar W v1 v2 -> sim W ar (vararg_collect k v1) (vararg_collect k v2).
Proof.
  induction k as [|k IH]; intros W v1 v2 Hv; cbn [vararg_collect]; [apply sim_ret, Hv|].
  sb ltac:(apply sim_pop_raw). intros W1 a1 a2 E1 Ha.
  sb ltac:(apply sim_hput, Ha). intros W2 ap1 ap2 E2 Hap.
  sb ltac:(apply sim_as_ptr, Hap). intros W3 ai1 ai2 E3 Hai.
  sb ltac:(apply sim_hput, vr_pair; [exact Hai|eapply ar_x; [|exact Hv]; xt]). intros W4 pp1 pp2 E4 Hpp.
  sb ltac:(apply sim_as_ptr, Hpp). intros W5 pi1 pi2 E5 Hpi. apply IH, Hpi.
Qed.

Definition vararg_rest (nargs : N) : M bool :=
  dom req <- usub nargs 1;
  dom a <- stack_get_offset (-2); dom argc <- as_argc a;
  if argc <? req then fail E_OTHER else
  if argc =? req + 1 then
    dom v <- stack_get_offset (-3);
    dom ap <- hput v; dom np <- hput VNil;
    dom ai <- as_ptr ap; dom ni <- as_ptr np;
    dom pp <- hput (VPair ai ni);
    dom _ <- stack_put_offset (-3) pp; ret false
  else
    dom saved_ep <- pop_raw;
    dom saved_ip <- pop_raw;
    dom _ <- pop_raw;
    dom np <- hput VNil; dom ni <- as_ptr np;
    dom varargs <- vararg_collect (N.to_nat (argc - req)) ni;
    dom _ <- push (VPtr varargs);
    dom _ <- push (VArgc (req + 1));
    dom _ <- push saved_ip;
    dom _ <- push saved_ep; ret false.
Lemma sim_vararg_rest W n : sim W eqr (vararg_rest n) (vararg_rest n).
Proof.
  unfold vararg_rest.
  sb ltac:(apply sim_usub). intros W1 r1 r2 E1 Hr. red in Hr. subst r2.
  sb ltac:(apply sim_stack_get_offset; lia). intros W2 a1 a2 E2 Ha.
  sb ltac:(apply sim_as_argc, Ha). intros W3 c1 c2 E3 Hc. red in Hc. subst c2.
  destruct (c1 <? r1); [apply sim_fail|]. destruct (c1 =? r1 + 1).
  - sb ltac:(apply sim_stack_get_offset; lia). intros W4 v1 v2 E4 Hv.
    sb ltac:(apply sim_hput, Hv). intros W5 ap1 ap2 E5 Hap.
    sb ltac:(apply sim_hput, vr_nil). intros W6 np1 np2 E6 Hnp.
    sb ltac:(apply sim_as_ptr; eapply vr_x; [|exact Hap]; xt). intros W7 ai1 ai2 E7 Hai.
    sb ltac:(apply sim_as_ptr; eapply vr_x; [|exact Hnp]; xt). intros W8 ni1 ni2 E8 Hni.
    sb ltac:(apply sim_hput, vr_pair; [eapply ar_x; [|exact Hai]; xt|exact Hni]). intros W9 pp1 pp2 E9 Hpp.
    sb ltac:(apply sim_stack_put_offset, Hpp). intros. apply sim_ret. reflexivity.
  - sb ltac:(apply sim_pop_raw). intros W4 e1 e2 E4 He.
    sb ltac:(apply sim_pop_raw). intros W5 i1 i2 E5 Hi.
    sb ltac:(apply sim_pop_raw). intros W6 ? ? E6 _.
    sb ltac:(apply sim_hput, vr_nil). intros W7 np1 np2 E7 Hnp.
    sb ltac:(apply sim_as_ptr, Hnp). intros W8 ni1 ni2 E8 Hni.
    sb ltac:(apply sim_vararg_collect, Hni). intros W9 va1 va2 E9 Hva.
    sb ltac:(apply sim_push, vr_ptr, Hva). intros W10 ? ? E10 _.
    sb ltac:(apply sim_push, vr_argc). intros W11 ? ? E11 _.
    sb ltac:(apply sim_push; eapply vr_x; [|exact Hi]; xt). intros W12 ? ? E12 _.
    sb ltac:(apply sim_push; eapply vr_x; [|exact He]; xt). intros. apply sim_ret. reflexivity.
Qed.
