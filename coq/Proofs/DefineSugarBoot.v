(* DefineSugarBoot.v — C01 (work package c01e): the sugared define on the booted machine / in
   sessions, and the non-vacuity example (define (flip b) (if b #f #t)). *)
From Coq Require Import Lia List String.
From MW Require Import Model.Base Model.F64 Model.Num Model.Datum Model.Lex Model.Parse Model.TransformDef Model.Transform
  Model.VmTypes Model.Heap Model.Gc Model.VmBase Model.Compile Model.Vm Model.Builtins
  Proofs.VmProofs0 Proofs.CompileProofs Proofs.RunProofs Proofs.CompileCorrect Proofs.CompileCorrect2
  Proofs.Closures6 Proofs.CompileCorrect6 Proofs.CompileStatic6 Proofs.EvalFragment6
  Proofs.DefineSugar Proofs.DefineSugar6.
From MW Require Proofs.FlatAll Proofs.BootMinv.
From MW Require Gen.Builtins.
Import ListNotations.
Open Scope N_scope.

Theorem eval_fragment6_sugar_session (ob : N -> M vcell) (bsem : N -> list rval -> option rval) :
  (forall b, builtin_ok ob bsem b) -> (forall b, builtin_envs ob bsem b) ->
  forall x ps fs bodies mu sg rho r sg' rho' s0 s,
  booted = Some s0 -> FlatAll.evals s0 s ->
  wf6 (WDefine x (WLam ps fs bodies)) [] ->
  ref_eval6 bsem [] [] sg rho (WDefine x (WLam ps fs bodies)) r sg' rho' -> genv_rel6 mu rho s -> store_rel mu sg s ->
  transform_expr TRANSFORM_FUEL s (sugar6 x ps bodies) = Ok (sugar6 x ps bodies) ->
  exists n m mu', (forall fuel, (n <= fuel)%nat -> eval ob fuel (sugar6 x ps bodies) s = halt_result m) /\
    (exists more, mu' = mu ++ more) /\ vrep6 mu' m (acc m) r /\ genv_rel6 mu' rho' m /\ store_rel mu' sg' m /\
    minv m /\ cext s m /\ sp m = sp s /\ bp m = bp s /\ ep m = ep s /\ out_log m = out_log s.
Proof.
  intros Hb He x ps fs bodies mu sg rho r sg' rho' s0 s B R Hwf HR G SR Ht.
  exact (eval_fragment6_sugar ob bsem Hb He x ps fs bodies mu sg rho r sg' rho' s Hwf HR
           (BootMinv.session_minv s0 s B R) G SR Ht).
Qed.

(* ------------------------------------------------------------ example *)
Definition flip6 : text := S_ "flip".
Definition b6 : text := S_ "b".
Definition flip_bodies6 : list expr6 := [WIf (WVar b6) F6 T6].
Definition flip_def6 : expr6 := WDefine flip6 (WLam [b6] [] flip_bodies6).
Definition flip_val6 : rval6 := R6Clo [b6] [] flip_bodies6 [].
Definition flip_src6 : text := S_ "(define (flip b) (if b #f #t))"%string.
Definition flip_call6 : expr6 := WApp (WVar flip6) [F6].

Lemma flip6_parse :
  match parse_text flip_src6 with Ok (d, _) => d = sugar6 flip6 [b6] flip_bodies6 | _ => False end.
Proof. vm_compute. reflexivity. Qed.

Lemma flip6_hypotheses :
  wf6 flip_def6 [] /\ minv (vm_empty 8192) /\ genv_rel6 [] rho6_empty (vm_empty 8192) /\ store_rel [] [] (vm_empty 8192) /\
  ref_eval6 bsem_not [] [] [] rho6_empty flip_def6 vVoid6 [] (upd6 rho6_empty flip6 flip_val6) /\
  transform_expr TRANSFORM_FUEL (vm_empty 8192) (sugar6 flip6 [b6] flip_bodies6) = Ok (sugar6 flip6 [b6] flip_bodies6).
Proof.
  split.
  { cbn [flip_def6 wf6]. split; [reflexivity|]. split; [reflexivity|].
    apply wf6_lam. split; [discriminate|]. split; [intros x Hx; in_cases6 Hx; reflexivity|].
    split; [intros b Hb; in_cases6 Hb; reflexivity|]. split; [vm_compute; reflexivity|].
    split; [intros x Hx; cbn in Hx; in_cases6 Hx; left; left; reflexivity|].
    constructor; [|constructor]. cbn [wf6]. split; [reflexivity|]. split; apply wf6_bool. }
  split; [apply minv_vm_empty; reflexivity|]. split; [apply genv_rel6_empty|]. split; [apply store_rel_nil|].
  split; [|vm_compute; reflexivity].
  unfold flip_def6, vVoid6. apply R6_define. apply (R6_lam bsem_not [] [] _ _ [b6] [] _ []). constructor.
Qed.

(* the model: the sugared form, then (flip #f), on the empty machine: #<void>, then #t; the
   translated form (define flip (lambda (b) (if b #f #t))) gives the same two answers *)
Lemma flip6_run :
  (match eval Model.Builtins.other_builtin 300 (sugar6 flip6 [b6] flip_bodies6) (vm_empty 8192) with
   | ROk (Done c) s1 => c = CVoid /\
       match eval Model.Builtins.other_builtin 300 (cell_of6 flip_call6) s1 with
       | ROk (Done c') s2 => c' = CBool true /\ sp s2 = 0 /\ bp s2 = 0 /\ ep s2 = USIZE_MAX
       | _ => False
       end
   | _ => False
   end) /\
  (match eval Model.Builtins.other_builtin 300 (desugar_define (sugar6 flip6 [b6] flip_bodies6)) (vm_empty 8192) with
   | ROk (Done c) s1 => c = CVoid /\
       match eval Model.Builtins.other_builtin 300 (cell_of6 flip_call6) s1 with
       | ROk (Done c') s2 => c' = CBool true /\ sp s2 = 0 /\ bp s2 = 0 /\ ep s2 = USIZE_MAX
       | _ => False
       end
   | _ => False
   end).
Proof. vm_compute. repeat split. Qed.

(* the spelling theorem on the example: same lambda object, same heap / stack registers *)
Lemma flip6_spelling_run :
  match compile_expression 50 (lambda_new []) true (sugar6 flip6 [b6] flip_bodies6) (vm_empty 8192),
        compile_expression 51 (lambda_new []) true (desugar_define (sugar6 flip6 [b6] flip_bodies6)) (vm_empty 8192) with
  | ROk l1 s1, ROk l2 s2 => l1 = l2 /\ hp s1 = hp s2 /\ g_slots s1 = g_slots s2 /\ fwd l1 <> []
  | _, _ => False
  end.
Proof. vm_compute. repeat split; discriminate. Qed.
