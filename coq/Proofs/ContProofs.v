(* ContProofs.v — C05: (call/cc f) IS the call (f k); invoking k from any later state equals
   the normal return of the receiver on stack / registers while heap, store and globals are
   those of the invoking state; escapes discard the frames above the capture point.
   Instruction level, generic in the table [ob] of the other builtin procedures.
   Builds on VmProofs.v (k_invoke), CompileCorrect.v (code_in, seg, pushed, cext, step
   lemmas) and FrameSteps.v (CALL / ENTER / RET of closures).                              *)
From Coq Require Import String Lia FMapPositive.
From MW Require Import Model.Base Model.F64 Model.Num Model.Datum Model.TransformDef Model.Transform
  Model.VmTypes Model.Heap Model.Gc Model.VmBase Model.Compile Model.Vm
  Proofs.VmProofs0 Proofs.HeapProofs Proofs.VmProofs Proofs.GcProofs Proofs.SymtabProofs
  Proofs.QuoteHeapProofs Proofs.CompileProofs Proofs.RunProofs Proofs.CompileCorrect
  Proofs.TailProofs Proofs.FrameSteps.
From MW Require Proofs.ScopeProofs.
Open Scope N_scope.

Arguments N.add : simpl never.
Arguments N.sub : simpl never.
Arguments N.mul : simpl never.
Arguments N.eqb : simpl never.
Arguments N.ltb : simpl never.
Arguments N.leb : simpl never.

(* ------------------------------------------------------------ the saved stack *)
Lemma range_asc_length n : forall a, length (range_asc a n) = n.
Proof. induction n as [|n IH]; intros a; cbn [range_asc length]; [reflexivity|rewrite IH; reflexivity]. Qed.

Lemma range_asc_nth n : forall a j d, (j < n)%nat -> nth j (range_asc a n) d = a + N.of_nat j.
Proof.
  induction n as [|n IH]; intros a j d Hj; [lia|]. cbn [range_asc].
  destruct j as [|j]; cbn [nth]; [lia|]. rewrite IH by lia. lia.
Qed.

Lemma stack_to_sp_len s : len (stack_to_sp s) = sp s + 1.
Proof. unfold len, stack_to_sp. rewrite map_length, range_asc_length. lia. Qed.

Lemma stack_to_sp_nth s j : j <= sp s -> nth (N.to_nat j) (stack_to_sp s) VUndef = sget s j.
Proof.
  intros Hj. unfold stack_to_sp.
  rewrite (nth_indep _ VUndef (sget s 0)) by (rewrite map_length, range_asc_length; lia).
  rewrite (map_nth (sget s) (range_asc 0 (S (N.to_nat (sp s)))) 0 (N.to_nat j)).
  rewrite range_asc_nth by lia. f_equal. lia.
Qed.

(* ------------------------------------------------------------ the state after call/cc *)
(* [s]: the machine inside CALL/TCALL, instruction pointer already past the call *)
Definition cc_cont (s : vm) : cont :=
  mk_cont (stack_to_sp (with_sp s (sp s - 2))) (sp s - 2) (ep s) (ip s) (bp s).
Definition cc_cid (s : vm) : N := next_id (st s).
Definition cc_put (s : vm) : vcell * heap := heap_put (hp s) (VCont (cc_cid s)).
Definition cc_state (s : vm) : vm :=
  let s0 := with_sp s (sp s - 2) in
  let s1 := with_heap (with_store s0 (snd (new_cont (st s) (cc_cont s)))) (snd (cc_put s)) in
  with_ip (pushed (pushed s1 (fst (cc_put s))) (VArgc 1)) (fst (ip s), snd (ip s) - 1).

Lemma with_sp_twice s a b : with_sp (with_sp s a) b = with_sp s b.
Proof. reflexivity. Qed.

(* procedure.rs:119-134 as one state equation *)
Lemma b_call_cc_eq s pv :
  sget s (sp s) = VArgc 1 -> 2 <= sp s -> sp s < scap s ->
  heap_deref (hp s) (sget s (sp s - 1)) = Ok pv -> is_procedure pv = true -> snd (ip s) <> 0 ->
  b_call_cc s = ROk (sget s (sp s - 1)) (cc_state s).
Proof.
  intros Hargc Hsp Hcap Hpv Hisp Hip.
  unfold b_call_cc. unfold bindM at 1. unfold pop_argc. unfold bindM at 1.
  unfold pop_raw at 1.
  destruct (N.eqb_spec (sp s) 0) as [E0|_]; [lia|].
  destruct (N.ltb_spec (sp s) (scap s)) as [_|E1]; [|lia].
  rewrite Hargc. change ((1 <? 1) || (1 <? 1))%bool with false. cbv iota. unfold ret at 1.
  unfold bindM at 1. unfold pop_raw at 1. cbn [sp scap with_sp with_stack].
  destruct (N.eqb_spec (sp s - 1) 0) as [E2|_]; [lia|].
  destruct (N.ltb_spec (sp s - 1) (scap s)) as [_|E3]; [|lia].
  change (sget (with_sp s (sp s - 1)) (sp s - 1)) with (sget s (sp s - 1)).
  rewrite with_sp_twice. replace (sp s - 1 - 1) with (sp s - 2) by lia.
  unfold bindM at 1. unfold hderef, lift. change (hp (with_sp s (sp s - 2))) with (hp s). rewrite Hpv.
  rewrite Hisp. cbn [negb].
  unfold bindM at 1. unfold to_continuation.
  change (st (with_sp s (sp s - 2))) with (st s).
  change (mk_cont (stack_to_sp (with_sp s (sp s - 2))) (sp (with_sp s (sp s - 2)))
            (ep (with_sp s (sp s - 2))) (ip (with_sp s (sp s - 2))) (bp (with_sp s (sp s - 2))))
    with (cc_cont s).
  unfold new_cont at 1. cbv beta iota.
  unfold bindM at 1. unfold hput. cbn [hp with_store]. change (hp (with_sp s (sp s - 2))) with (hp s).
  change (heap_put (hp s) (VCont (next_id (st s)))) with (cc_put s).
  destruct (cc_put s) as [kp h] eqn:Eput.
  unfold bindM at 1. rewrite push_eq.
  unfold bindM at 1. rewrite push_eq.
  unfold bindM at 1. unfold dec_ip.
  change (ip (pushed (pushed ?x _) _)) with (ip x).
  cbn [ip with_heap with_store with_sp with_stack].
  destruct (N.eqb_spec (snd (ip s)) 0) as [E4|_]; [congruence|].
  unfold ret. unfold cc_state. rewrite Eput. reflexivity.
Qed.

(* what the equation says, field by field *)
Lemma cc_state_fields s kp h' :
  cc_put s = (VPtr kp, h') -> 2 <= sp s -> sp s < scap s ->
  hp (cc_state s) = h' /\
  tget (conts (st (cc_state s))) (cc_cid s) = Some (cc_cont s) /\
  next_id (st (cc_state s)) = next_id (st s) + 1 /\
  (forall j, j <> cc_cid s -> tget (conts (st (cc_state s))) j = tget (conts (st s)) j) /\
  strs (st (cc_state s)) = strs (st s) /\ vecs (st (cc_state s)) = vecs (st s) /\
  envs (st (cc_state s)) = envs (st s) /\ lams (st (cc_state s)) = lams (st s) /\
  macros (st (cc_state s)) = macros (st s) /\
  sp (cc_state s) = sp s /\ scap (cc_state s) = scap s /\
  sget (cc_state s) (sp s) = VArgc 1 /\ sget (cc_state s) (sp s - 1) = VPtr kp /\
  (forall j, j <> sp s -> j <> sp s - 1 -> sget (cc_state s) j = sget s j) /\
  ip (cc_state s) = (fst (ip s), snd (ip s) - 1) /\
  bp (cc_state s) = bp s /\ ep (cc_state s) = ep s /\ acc (cc_state s) = acc s /\
  g_bind (cc_state s) = g_bind s /\ g_slots (cc_state s) = g_slots s /\ out_log (cc_state s) = out_log s.
Proof.
  intros Eput Hsp Hcap. unfold cc_state. rewrite Eput. cbn [fst snd].
  set (s1 := with_heap (with_store (with_sp s (sp s - 2)) (snd (new_cont (st s) (cc_cont s)))) h').
  assert (Hsp1 : sp s1 = sp s - 2) by reflexivity.
  assert (Hcap1 : scap s1 = scap s) by reflexivity.
  set (s2 := pushed s1 (VPtr kp)).
  assert (Hsp2 : sp s2 = sp s - 1) by (unfold s2, pushed; cbn [sp with_scap with_stack]; lia).
  assert (Hcap2 : scap s2 = scap s).
  { unfold s2, pushed. cbn [scap with_scap with_stack]. rewrite Hsp1, Hcap1.
    destruct (N.ltb_spec (sp s - 2 + 1) (scap s)); [reflexivity|lia]. }
  set (s3 := pushed s2 (VArgc 1)).
  assert (Hsp3 : sp s3 = sp s) by (unfold s3, pushed; cbn [sp with_scap with_stack]; lia).
  assert (Hcap3 : scap s3 = scap s).
  { unfold s3, pushed. cbn [scap with_scap with_stack]. rewrite Hsp2, Hcap2.
    destruct (N.ltb_spec (sp s - 1 + 1) (scap s)); [reflexivity|lia]. }
  split; [reflexivity|].
  split; [cbn [st conts with_ip]; unfold s3, s2, s1, pushed, new_cont; cbn [st conts with_scap with_stack with_heap with_store snd]; apply tget_tset_same|].
  split; [reflexivity|].
  split; [intros j Hj; unfold s3, s2, s1, pushed, new_cont; cbn [st conts with_ip with_scap with_stack with_heap with_store snd]; apply tget_tset_other; unfold cc_cid in Hj; congruence|].
  do 5 (split; [reflexivity|]).
  split; [exact Hsp3|]. split; [exact Hcap3|].
  split.
  { change (sget (with_ip s3 ?x) ?j) with (sget s3 j). unfold s3.
    replace (sp s) with (sp s2 + 1) at 1 by lia. apply sget_pushed_top. }
  split.
  { change (sget (with_ip s3 ?x) ?j) with (sget s3 j). unfold s3.
    rewrite sget_pushed_other by lia. unfold s2.
    replace (sp s - 1) with (sp s1 + 1) by lia. apply sget_pushed_top. }
  split.
  { intros j H1 H2. change (sget (with_ip s3 ?x) ?j) with (sget s3 j). unfold s3.
    rewrite sget_pushed_other by lia. unfold s2. rewrite sget_pushed_other by lia. reflexivity. }
  repeat split.
Qed.

(* the slots the continuation saved: those of the machine below the receiver *)
Lemma cc_cont_slot s j : 2 <= sp s -> j <= sp s - 2 ->
  nth (N.to_nat j) (k_stack (cc_cont s)) VUndef = sget s j.
Proof.
  intros Hsp Hj. unfold cc_cont. cbn [k_stack].
  rewrite stack_to_sp_nth by (cbn [sp with_sp with_stack]; lia). reflexivity.
Qed.
Lemma cc_cont_len s : len (k_stack (cc_cont s)) = sp s - 2 + 1.
Proof. unfold cc_cont. cbn [k_stack]. rewrite stack_to_sp_len. reflexivity. Qed.

(* with a well-formed heap the continuation object lands in a fresh cell and every cell
   that was allocated keeps its content *)
Lemma cc_put_inv s : heap_inv (hp s) ->
  exists kp h', cc_put s = (VPtr kp, h') /\ allocated h' kp /\ cell_at h' kp = VCont (cc_cid s) /\
    heap_inv h' /\ hext (hp s) h' /\ ~ allocated (hp s) kp.
Proof.
  intros HI. unfold cc_put. destruct (heap_put (hp s) (VCont (cc_cid s))) as [r h'] eqn:E.
  destruct (heap_put_frame _ _ _ _ HI E ltac:(discriminate)) as (a & -> & A & C & HI' & X).
  exists a, h'. split; [reflexivity|]. split; [exact A|]. split; [exact C|]. split; [exact HI'|].
  split; [exact X|].
  (* freshness: heap_put of a non-symbol allocates *)
  unfold heap_put, heap_store_new in E. destruct (heap_alloc (hp s)) as [q h0] eqn:Ea.
  injection E as <- <-. destruct (heap_alloc_frame _ _ _ HI Ea) as (_ & _ & NA & _). exact NA.
Qed.

Section Cont.
Variable ob : N -> M vcell.
Notation run_one := (Vm.run_one ob).
Notation steps := (RunProofs.steps ob).
Notation run_builtin := (Vm.run_builtin ob).
Notation resolve_callee := (Vm.resolve_callee ob).

Definition call_op (tail : bool) : vcell := VOp (if tail then OTCallAcc else OCallAcc).

(* ============================================================ (a) call/cc is a call *)
(* the machine [m] is AT the CALL / TCALL instruction (lp, i), %acc holds the builtin
   call/cc, the stack top is [receiver; Argc 1] *)
Record at_callcc (m : vm) (lp i : N) (bc : list vcell) (tail : bool) (fp : N) (pv : vcell) : Prop := {
  ac_code : code_in m lp bc;
  ac_ip : ip m = (lp, i);
  ac_seg : seg bc i [call_op tail];
  ac_acc : exists b, heap_deref (hp m) (acc m) = Ok (VBuiltin b) /\ run_builtin b = b_call_cc;
  ac_argc : sget m (sp m) = VArgc 1;
  ac_sp : 2 <= sp m;
  ac_cap : sp m < scap m;
  ac_recv : sget m (sp m - 1) = VPtr fp;
  ac_proc : heap_get (hp m) fp = Ok pv;
  ac_isp : is_procedure pv = true
}.

(* the state right after the capture *)
Definition s_cap (m : vm) (lp i fp : N) : vm := with_acc (cc_state (with_ip m (lp, i + 1))) (VPtr fp).
Definition k_cap (m : vm) (lp i : N) : cont := cc_cont (with_ip m (lp, i + 1)).

Lemma with_heap_id s : with_heap s (hp s) = s.
Proof. destruct s; reflexivity. Qed.

(* ONE instruction: the machine is again at the same CALL / TCALL, now of the receiver
   with the single argument k *)
Theorem callcc_step m lp i bc tail fp pv : at_callcc m lp i bc tail fp pv ->
  run_one m = ROk false (s_cap m lp i fp).
Proof.
  intros [Hc Hip Hs (b & Hd & Hb) Hargc Hsp Hcap Hrecv Hproc Hisp].
  set (s := with_ip m (lp, i + 1)).
  assert (E : run_builtin b s = ROk (VPtr fp) (cc_state s)).
  { rewrite Hb. rewrite <- Hrecv. change (sget m (sp m - 1)) with (sget s (sp s - 1)).
    apply (b_call_cc_eq s pv); try assumption.
    - change (sget s (sp s - 1)) with (sget m (sp m - 1)). rewrite Hrecv. exact Hproc.
    - unfold s. cbn [ip with_ip snd]. lia. }
  unfold s_cap. fold s.
  rewrite <- (with_heap_id (cc_state s)) at 1.
  eapply (step_call_builtin ob m lp i bc tail b (VPtr fp) (cc_state s) (VPtr fp) (hp (cc_state s)));
    try eassumption. reflexivity.
Qed.


(* ------------------------------------------------------------ the captured state, read back *)
Lemma s_cap_spec m lp i bc tail fp pv : at_callcc m lp i bc tail fp pv ->
  heap_inv (hp m) -> allocated (hp m) fp ->
  let sc := s_cap m lp i fp in
  let k := k_cap m lp i in
  let cid := next_id (st m) in
  exists kp,
    (* the continuation object *)
    allocated (hp sc) kp /\ cell_at (hp sc) kp = VCont cid /\ ~ allocated (hp m) kp /\
    tget (conts (st sc)) cid = Some k /\ next_id (st sc) = cid + 1 /\
    (forall j, j <> cid -> tget (conts (st sc)) j = tget (conts (st m)) j) /\
    k_sp k = sp m - 2 /\ k_ep k = ep m /\ k_ip k = (lp, i + 1) /\ k_bp k = bp m /\
    len (k_stack k) = sp m - 2 + 1 /\
    (forall j, j <= sp m - 2 -> nth (N.to_nat j) (k_stack k) VUndef = sget m j) /\
    (* the machine: at the same CALL / TCALL, about to apply the receiver to k *)
    ip sc = (lp, i) /\ code_in sc lp bc /\ acc sc = VPtr fp /\ heap_get (hp sc) fp = Ok pv /\
    sp sc = sp m /\ scap sc = scap m /\
    sget sc (sp sc) = VArgc 1 /\ sget sc (sp sc - 1) = VPtr kp /\
    (forall j, j <> sp m -> j <> sp m - 1 -> sget sc j = sget m j) /\
    bp sc = bp m /\ ep sc = ep m /\ g_bind sc = g_bind m /\ g_slots sc = g_slots m /\
    out_log sc = out_log m /\
    heap_inv (hp sc) /\ cext m sc /\ envs (st sc) = envs (st m).
Proof.
  intros [Hc Hip Hs (b & Hd & Hb) Hargc Hsp Hcap Hrecv Hproc Hisp] HI Afp sc k cid.
  set (s := with_ip m (lp, i + 1)).
  assert (Hsps : sp s = sp m) by reflexivity.
  assert (Hcaps : scap s = scap m) by reflexivity.
  assert (Hhps : hp s = hp m) by reflexivity.
  assert (Hsts : st s = st m) by reflexivity.
  assert (Hips : ip s = (lp, i + 1)) by reflexivity.
  assert (Hsg : forall j, sget s j = sget m j) by reflexivity.
  assert (Hregs : bp s = bp m /\ ep s = ep m /\ g_bind s = g_bind m /\ g_slots s = g_slots m /\ out_log s = out_log m)
    by (repeat split).
  destruct Hregs as (Hbps & Heps & Hgbs & Hgss & Hols).
  assert (HIs : heap_inv (hp s)) by exact HI.
  assert (Hsp_s : 2 <= sp s) by (rewrite Hsps; exact Hsp).
  assert (Hcap_s : sp s < scap s) by (rewrite Hsps, Hcaps; exact Hcap).
  destruct (cc_put_inv s HIs) as (kp & h' & Eput & Akp & Ckp & HI' & X & Fresh).
  destruct (cc_state_fields s kp h' Eput Hsp_s Hcap_s)
    as (F1 & F2 & F3 & F4 & F5 & F6 & F7 & F8 & F9 & F10 & F11 & F12 & F13 & F14 & F15 & F16 & F17 & F18 & F19 & F20 & F21).
  pose proof (cc_cont_len s) as KLen. pose proof (cc_cont_slot s) as KSlot.
  assert (Ksp : k_sp (cc_cont s) = sp s - 2) by reflexivity.
  assert (Kep : k_ep (cc_cont s) = ep s) by reflexivity.
  assert (Kip : k_ip (cc_cont s) = ip s) by reflexivity.
  assert (Kbp : k_bp (cc_cont s) = bp s) by reflexivity.
  assert (Ecid : cc_cid s = next_id (st s)) by reflexivity.
  assert (Esc : sc = with_acc (cc_state s) (VPtr fp)) by reflexivity.
  assert (Ek : k = cc_cont s) by reflexivity.
  clearbody sc k. subst sc k. subst cid.
  remember (cc_state s) as Y eqn:EY. remember (cc_cont s) as K eqn:EK. rewrite Ecid in *.
  clear EY EK Ecid Eput.
  rewrite Hsps, ?Hcaps, ?Hhps, ?Hsts, ?Hips, ?Hbps, ?Heps, ?Hgbs, ?Hgss, ?Hols in *.
  clearbody s.
  assert (Ehp : hp (with_acc Y (VPtr fp)) = h') by exact F1.
  assert (Est : st (with_acc Y (VPtr fp)) = st Y) by reflexivity.
  assert (Esg : forall j, sget (with_acc Y (VPtr fp)) j = sget Y j) by reflexivity.
  assert (CX : cext m (with_acc Y (VPtr fp))).
  { constructor.
    - rewrite Ehp. exact X.
    - rewrite Est. split; [rewrite F3; lia|].
      intros j _. rewrite F5, F6. split; reflexivity.
    - intros j _. rewrite Est, F8. reflexivity.
    - intros a k0 H. change (g_bind (with_acc Y (VPtr fp))) with (g_bind Y). rewrite F19. exact H.
    - change (g_slots (with_acc Y (VPtr fp))) with (g_slots Y). rewrite F20. lia. }
  exists kp. rewrite Ehp, Est. rewrite !Esg.
  change (sp (with_acc Y (VPtr fp))) with (sp Y). change (scap (with_acc Y (VPtr fp))) with (scap Y).
  change (ip (with_acc Y (VPtr fp))) with (ip Y). change (bp (with_acc Y (VPtr fp))) with (bp Y).
  change (ep (with_acc Y (VPtr fp))) with (ep Y). change (acc (with_acc Y (VPtr fp))) with (VPtr fp).
  change (g_bind (with_acc Y (VPtr fp))) with (g_bind Y). change (g_slots (with_acc Y (VPtr fp))) with (g_slots Y).
  change (out_log (with_acc Y (VPtr fp))) with (out_log Y).
  split; [exact Akp|]. split; [exact Ckp|]. split; [exact Fresh|].
  split; [exact F2|]. split; [exact F3|]. split; [exact F4|].
  split; [exact Ksp|]. split; [exact Kep|]. split; [exact Kip|]. split; [exact Kbp|].
  split; [exact KLen|].
  split; [intros j Hj; rewrite (KSlot j Hsp Hj); apply Hsg|].
  split; [rewrite F15; cbn [fst snd]; f_equal; lia|].
  split; [eapply code_in_ext; eassumption|].
  split; [reflexivity|].
  split.
  { destruct (X fp Afp) as [A' C'].
    rewrite (heap_get_alloc _ _ A'), C'. rewrite <- (heap_get_alloc _ _ Afp). exact Hproc. }
  split; [exact F10|]. split; [exact F11|].
  rewrite F10.
  split; [exact F12|]. split; [exact F13|].
  split; [intros j H1 H2; rewrite Esg, (F14 j H1 H2); apply Hsg|].
  split; [exact F16|]. split; [exact F17|]. split; [exact F19|]. split; [exact F20|]. split; [exact F21|].
  split; [exact HI'|]. split; [exact CX|]. exact F7.
Qed.

(* ------------------------------------------------------------ invoking a continuation: one instruction *)
Definition inv_state (s : vm) (k : cont) : vm :=
  mk_vm (hp s) (st s) (g_bind s) (g_slots s) (write_slots (k_stack k) 0 (stack s)) (scap s)
        (k_sp k) (k_bp k) (k_ep k) (k_ip k) (sget s (sp s - 1)) (out_log s).

(* the machine [s] is AT a CALL / TCALL instruction, %acc holds a continuation, the stack top
   is [.. v; Argc n], n >= 1 *)
Record at_invoke (s : vm) (cid : N) (tail : bool) : Prop := {
  ai_code : exists lq iq bq, code_in s lq bq /\ ip s = (lq, iq) /\ seg bq iq [call_op tail];
  ai_acc : heap_deref (hp s) (acc s) = Ok (VCont cid);
  ai_argc : exists n, sget s (sp s) = VArgc n /\ n <> 0;
  ai_sp : 2 <= sp s;
  ai_cap : sp s < scap s
}.
(* the continuation object is still there (in the Rust: the Rc is alive as long as a cell
   refers to it) and the stack vector is long enough (it never shrinks) *)
Record klive (cid : N) (k : cont) (s : vm) : Prop := {
  kl_cont : tget (conts (st s)) cid = Some k;
  kl_cap : len (k_stack k) <= scap s
}.

Theorem step_invoke s cid k tail : at_invoke s cid tail -> klive cid k s ->
  run_one s = ROk false (inv_state s k).
Proof.
  intros [(lq & iq & bq & Hc & Hip & Hs) Hacc (n & Hargc & Hn) Hsp Hcap] [Hk Hlen].
  apply seg_head in Hs as [H0 _]. unfold call_op in H0.
  pose proof (k_invoke ob (with_ip s (lq, iq + 1)) cid k n Hacc Hk Hargc Hn Hsp Hcap Hlen) as E.
  unfold Vm.run_one. unfold bindM at 1.
  destruct tail; rewrite (read_opcode_ok _ _ _ _ _ Hc Hip H0); cbv beta iota;
    unfold bindM at 1; rewrite E; reflexivity.
Qed.

Lemma inv_state_slot s k j : j < len (k_stack k) ->
  sget (inv_state s k) j = nth (N.to_nat j) (k_stack k) VUndef.
Proof.
  intros Hj. unfold sget, inv_state. cbn [stack].
  rewrite (restored_slot s k j). apply N.ltb_lt in Hj. rewrite Hj. reflexivity.
Qed.
Lemma inv_state_slot_above s k j : len (k_stack k) <= j -> sget (inv_state s k) j = sget s j.
Proof.
  intros Hj. unfold sget at 1. unfold inv_state. cbn [stack].
  rewrite (restored_slot s k j). apply N.ltb_ge in Hj. rewrite Hj. reflexivity.
Qed.

(* "any number of times": invoking changes neither the continuation object nor anything
   else in heap and store *)
Lemma klive_inv_state cid k s k' : klive cid k s -> klive cid k (inv_state s k').
Proof. intros [H1 H2]. split; [exact H1|exact H2]. Qed.

(* cext-style extension that also keeps the continuation objects and the stack vector *)
Record kext (s s' : vm) : Prop := {
  kx_cext : cext s s';
  kx_conts : forall j, j < next_id (st s) -> tget (conts (st s')) j = tget (conts (st s)) j;
  kx_cap : scap s <= scap s'
}.
Lemma kext_refl s : kext s s.
Proof. split; [apply cext_refl|auto|lia]. Qed.
Lemma kext_trans a b c : kext a b -> kext b c -> kext a c.
Proof.
  intros [X1 K1 C1] [X2 K2 C2]. split; [eapply cext_trans; eassumption| |lia].
  intros j Hj. rewrite K2, K1; auto. destruct (ce_store _ _ X1). lia.
Qed.
Lemma kext_klive cid k s s' : klive cid k s -> cid < next_id (st s) -> kext s s' -> klive cid k s'.
Proof.
  intros [H1 H2] Hc [X K C]. split; [rewrite K; assumption|lia].
Qed.
Lemma kext_deref s s' kp cid : kext s s' -> allocated (hp s) kp -> cell_at (hp s) kp = VCont cid ->
  heap_deref (hp s') (VPtr kp) = Ok (VCont cid).
Proof.
  intros [X _ _] A C. destruct (ce_heap _ _ X kp A) as [A' C']. cbn [heap_deref].
  rewrite (heap_get_alloc _ _ A'). congruence.
Qed.
(* the invoking state keeps the relation: registers and stack do not matter *)
Lemma kext_inv_state s s' k : kext s s' -> kext s (inv_state s' k).
Proof.
  intros [[H S L B G] K C]. split; [constructor; assumption|exact K|exact C].
Qed.

(* ------------------------------------------------------------ (a) the receiver, kind by kind *)
(* the state an ordinary CALL of the procedure at [lamp] produces from [s] *)
Definition called (s : vm) (lp i lamp : N) : vm :=
  with_ip (pushed (pushed (with_ip s (lp, i + 1)) (VEp (ep s))) (VIp lp (i + 1))) (lamp, 0).

(* a closure: the very CALL path of an ordinary application (FrameSteps.step_call_closure
   is the lemma about ANY CALL of a closure; here it is applied to the captured state) *)
Theorem callcc_closure m lp i bc fp lamp cep :
  at_callcc m lp i bc false fp (VClosure lamp cep) -> heap_inv (hp m) -> allocated (hp m) fp ->
  steps 2 m = Some (called (s_cap m lp i fp) lp i lamp).
Proof.
  intros H HI A. pose proof (callcc_step _ _ _ _ _ _ _ H) as E1.
  destruct (s_cap_spec _ _ _ _ _ _ _ H HI A) as (kp & _ & _ & _ & _ & _ & _ & _ & _ & _ & _ & _ & _ &
    Hip & Hc & Hacc & Hg & _).
  change 2%nat with (1 + 1)%nat. eapply steps_trans; [apply steps_one; exact E1|].
  apply steps_one. destruct H as [_ _ Hs _ _ _ _ _ _ _].
  exact (step_call_closure ob _ lp i bc fp lamp cep Hc Hip Hs Hacc Hg).
Qed.

(* a closure-less lambda *)
Theorem callcc_lambda m lp i bc fp lid :
  at_callcc m lp i bc false fp (VLambda lid) -> heap_inv (hp m) -> allocated (hp m) fp ->
  steps 2 m = Some (called (s_cap m lp i fp) lp i fp).
Proof.
  intros H HI A. pose proof (callcc_step _ _ _ _ _ _ _ H) as E1.
  destruct (s_cap_spec _ _ _ _ _ _ _ H HI A) as (kp & _ & _ & _ & _ & _ & _ & _ & _ & _ & _ & _ & _ &
    Hip & Hc & Hacc & Hg & _).
  change 2%nat with (1 + 1)%nat. eapply steps_trans; [apply steps_one; exact E1|].
  apply steps_one. destruct H as [_ _ Hs _ _ _ _ _ _ _].
  exact (step_call_lambda ob _ lp i bc fp lid Hc Hip Hs Hacc Hg).
Qed.

(* another continuation k2: it is invoked with the new continuation as its value *)
Theorem callcc_cont m lp i bc tail fp cid2 k2 :
  at_callcc m lp i bc tail fp (VCont cid2) -> heap_inv (hp m) -> allocated (hp m) fp ->
  klive cid2 k2 m -> cid2 < next_id (st m) ->
  exists kp, sget (s_cap m lp i fp) (sp m - 1) = VPtr kp /\
    cell_at (hp (s_cap m lp i fp)) kp = VCont (next_id (st m)) /\
    steps 2 m = Some (inv_state (s_cap m lp i fp) k2) /\
    acc (inv_state (s_cap m lp i fp) k2) = VPtr kp.
Proof.
  intros H HI A [Hk2 Hl2] Hlt. pose proof (callcc_step _ _ _ _ _ _ _ H) as E1.
  destruct (s_cap_spec _ _ _ _ _ _ _ H HI A) as (kp & _ & Ckp & _ & _ & _ & Hoth & _ & _ & _ & _ & _ & _ &
    Hip & Hc & Hacc & Hg & Hsp' & Hcap' & Hargc' & Harg' & _).
  exists kp. rewrite Hsp' in Harg'. split; [exact Harg'|]. split; [exact Ckp|].
  assert (AI : at_invoke (s_cap m lp i fp) cid2 tail).
  { destruct H as [_ _ Hs _ _ Hsp Hcap _ _ _]. constructor.
    - exists lp, i, bc. auto.
    - rewrite Hacc. cbn [heap_deref]. exact Hg.
    - exists 1. split; [exact Hargc'|discriminate].
    - rewrite Hsp'. exact Hsp.
    - rewrite Hsp', Hcap'. exact Hcap. }
  assert (KL : klive cid2 k2 (s_cap m lp i fp)).
  { split; [rewrite Hoth by lia; exact Hk2|rewrite Hcap'; exact Hl2]. }
  split.
  - change 2%nat with (1 + 1)%nat. eapply steps_trans; [apply steps_one; exact E1|].
    apply steps_one. exact (step_invoke _ cid2 k2 tail AI KL).
  - unfold inv_state. cbn [acc]. rewrite Hsp'. exact Harg'.
Qed.

(* a builtin procedure b2: it runs with the one argument k on the stack *)
Theorem callcc_builtin m lp i bc tail fp b2 r m2 v' h' :
  at_callcc m lp i bc tail fp (VBuiltin b2) -> heap_inv (hp m) -> allocated (hp m) fp ->
  run_builtin b2 (with_ip (s_cap m lp i fp) (lp, i + 1)) = ROk r m2 ->
  (match r with VPtr _ => (r, hp m2) | _ => heap_maybe_put (hp m2) r end) = (v', h') ->
  steps 2 m = Some (with_acc (with_heap m2 h') v').
Proof.
  intros H HI A Hb Hbox. pose proof (callcc_step _ _ _ _ _ _ _ H) as E1.
  destruct (s_cap_spec _ _ _ _ _ _ _ H HI A) as (kp & _ & _ & _ & _ & _ & _ & _ & _ & _ & _ & _ & _ &
    Hip & Hc & Hacc & Hg & _).
  change 2%nat with (1 + 1)%nat. eapply steps_trans; [apply steps_one; exact E1|].
  apply steps_one. destruct H as [_ _ Hs _ _ _ _ _ _ _].
  eapply (step_call_builtin ob _ lp i bc tail b2 r m2 v' h'); try eassumption.
Qed.

End Cont.
