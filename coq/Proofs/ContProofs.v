(* ContProofs.v — C05: (call/cc f) IS the call (f k); invoking k from any later state equals
   the normal return of the receiver on stack / registers while heap, store and globals are
   those of the invoking state; escapes discard the frames above the capture point.
   Instruction level, generic in the table [ob] of the other builtin procedures.
   Builds on VmProofs.v (k_invoke), CompileCorrect.v (code_in, seg, pushed, cext, step
   lemmas) and FrameSteps.v (CALL / ENTER / RET of closures).                              *)
From Coq Require Import String Lia FMapPositive.
From MW Require Import Model.Base Model.F64 Model.Num Model.Datum Model.TransformDef Model.Transform
  Model.VmTypes Model.Heap Model.Gc Model.VmBase Model.Compile Model.Vm
  Proofs.VmProofs0 Proofs.HeapProofs Proofs.VmProofs Proofs.GcProofs Proofs.SymtabProofs
  Proofs.QuoteHeapProofs Proofs.CompileProofs Proofs.RunProofs Proofs.CompileCorrect
  Proofs.TailProofs Proofs.FrameSteps.
From MW Require Proofs.ScopeProofs.
Open Scope N_scope.

Arguments N.add : simpl never.
Arguments N.sub : simpl never.
Arguments N.mul : simpl never.
Arguments N.eqb : simpl never.
Arguments N.ltb : simpl never.
Arguments N.leb : simpl never.

(* ------------------------------------------------------------ the saved stack *)
Lemma range_asc_length n : forall a, length (range_asc a n) = n.
Proof. induction n as [|n IH]; intros a; cbn [range_asc length]; [reflexivity|rewrite IH; reflexivity]. Qed.

Lemma range_asc_nth n : forall a j d, (j < n)%nat -> nth j (range_asc a n) d = a + N.of_nat j.
Proof.
  induction n as [|n IH]; intros a j d Hj; [lia|]. cbn [range_asc].
  destruct j as [|j]; cbn [nth]; [lia|]. rewrite IH by lia. lia.
Qed.

Lemma stack_to_sp_len s : len (stack_to_sp s) = sp s + 1.
Proof. unfold len, stack_to_sp. rewrite map_length, range_asc_length. lia. Qed.

Lemma stack_to_sp_nth s j : j <= sp s -> nth (N.to_nat j) (stack_to_sp s) VUndef = sget s j.
Proof.
  intros Hj. unfold stack_to_sp.
  rewrite (nth_indep _ VUndef (sget s 0)) by (rewrite map_length, range_asc_length; lia).
  rewrite (map_nth (sget s) (range_asc 0 (S (N.to_nat (sp s)))) 0 (N.to_nat j)).
  rewrite range_asc_nth by lia. f_equal. lia.
Qed.

(* ------------------------------------------------------------ the state after call/cc *)
(* [s]: the machine inside CALL/TCALL, instruction pointer already past the call *)
Definition cc_cont (s : vm) : cont :=
  mk_cont (stack_to_sp (with_sp s (sp s - 2))) (sp s - 2) (ep s) (ip s) (bp s).
Definition cc_cid (s : vm) : N := next_id (st s).
Definition cc_put (s : vm) : vcell * heap := heap_put (hp s) (VCont (cc_cid s)).
Definition cc_state (s : vm) : vm :=
  let s0 := with_sp s (sp s - 2) in
  let s1 := with_heap (with_store s0 (snd (new_cont (st s) (cc_cont s)))) (snd (cc_put s)) in
  with_ip (pushed (pushed s1 (fst (cc_put s))) (VArgc 1)) (fst (ip s), snd (ip s) - 1).

Lemma with_sp_twice s a b : with_sp (with_sp s a) b = with_sp s b.
Proof. reflexivity. Qed.

(* procedure.rs:119-134 as one state equation *)
Lemma b_call_cc_eq s pv :
  sget s (sp s) = VArgc 1 -> 2 <= sp s -> sp s < scap s ->
  heap_deref (hp s) (sget s (sp s - 1)) = Ok pv -> is_procedure pv = true -> snd (ip s) <> 0 ->
  b_call_cc s = ROk (sget s (sp s - 1)) (cc_state s).
Proof.
  intros Hargc Hsp Hcap Hpv Hisp Hip.
  unfold b_call_cc. unfold bindM at 1. unfold pop_argc. unfold bindM at 1.
  unfold pop_raw at 1.
  destruct (N.eqb_spec (sp s) 0) as [E0|_]; [lia|].
  destruct (N.ltb_spec (sp s) (scap s)) as [_|E1]; [|lia].
  rewrite Hargc. change ((1 <? 1) || (1 <? 1))%bool with false. cbv iota. unfold ret at 1.
  unfold bindM at 1. unfold pop_raw at 1. cbn [sp scap with_sp with_stack].
  destruct (N.eqb_spec (sp s - 1) 0) as [E2|_]; [lia|].
  destruct (N.ltb_spec (sp s - 1) (scap s)) as [_|E3]; [|lia].
  change (sget (with_sp s (sp s - 1)) (sp s - 1)) with (sget s (sp s - 1)).
  rewrite with_sp_twice. replace (sp s - 1 - 1) with (sp s - 2) by lia.
  unfold bindM at 1. unfold hderef, lift. change (hp (with_sp s (sp s - 2))) with (hp s). rewrite Hpv.
  rewrite Hisp. cbn [negb].
  unfold bindM at 1. unfold to_continuation.
  change (st (with_sp s (sp s - 2))) with (st s).
  change (mk_cont (stack_to_sp (with_sp s (sp s - 2))) (sp (with_sp s (sp s - 2)))
            (ep (with_sp s (sp s - 2))) (ip (with_sp s (sp s - 2))) (bp (with_sp s (sp s - 2))))
    with (cc_cont s).
  unfold new_cont at 1. cbv beta iota.
  unfold bindM at 1. unfold hput. cbn [hp with_store]. change (hp (with_sp s (sp s - 2))) with (hp s).
  change (heap_put (hp s) (VCont (next_id (st s)))) with (cc_put s).
  destruct (cc_put s) as [kp h] eqn:Eput.
  unfold bindM at 1. rewrite push_eq.
  unfold bindM at 1. rewrite push_eq.
  unfold bindM at 1. unfold dec_ip.
  change (ip (pushed (pushed ?x _) _)) with (ip x).
  cbn [ip with_heap with_store with_sp with_stack].
  destruct (N.eqb_spec (snd (ip s)) 0) as [E4|_]; [congruence|].
  unfold ret. unfold cc_state. rewrite Eput. reflexivity.
Qed.

(* what the equation says, field by field *)
Lemma cc_state_fields s kp h' :
  cc_put s = (VPtr kp, h') -> 2 <= sp s -> sp s < scap s ->
  hp (cc_state s) = h' /\
  tget (conts (st (cc_state s))) (cc_cid s) = Some (cc_cont s) /\
  next_id (st (cc_state s)) = next_id (st s) + 1 /\
  (forall j, j <> cc_cid s -> tget (conts (st (cc_state s))) j = tget (conts (st s)) j) /\
  strs (st (cc_state s)) = strs (st s) /\ vecs (st (cc_state s)) = vecs (st s) /\
  envs (st (cc_state s)) = envs (st s) /\ lams (st (cc_state s)) = lams (st s) /\
  macros (st (cc_state s)) = macros (st s) /\
  sp (cc_state s) = sp s /\ scap (cc_state s) = scap s /\
  sget (cc_state s) (sp s) = VArgc 1 /\ sget (cc_state s) (sp s - 1) = VPtr kp /\
  (forall j, j <> sp s -> j <> sp s - 1 -> sget (cc_state s) j = sget s j) /\
  ip (cc_state s) = (fst (ip s), snd (ip s) - 1) /\
  bp (cc_state s) = bp s /\ ep (cc_state s) = ep s /\ acc (cc_state s) = acc s /\
  g_bind (cc_state s) = g_bind s /\ g_slots (cc_state s) = g_slots s /\ out_log (cc_state s) = out_log s.
Proof.
  intros Eput Hsp Hcap. unfold cc_state. rewrite Eput. cbn [fst snd].
  set (s1 := with_heap (with_store (with_sp s (sp s - 2)) (snd (new_cont (st s) (cc_cont s)))) h').
  assert (Hsp1 : sp s1 = sp s - 2) by reflexivity.
  assert (Hcap1 : scap s1 = scap s) by reflexivity.
  set (s2 := pushed s1 (VPtr kp)).
  assert (Hsp2 : sp s2 = sp s - 1) by (unfold s2, pushed; cbn [sp with_scap with_stack]; lia).
  assert (Hcap2 : scap s2 = scap s).
  { unfold s2, pushed. cbn [scap with_scap with_stack]. rewrite Hsp1, Hcap1.
    destruct (N.ltb_spec (sp s - 2 + 1) (scap s)); [reflexivity|lia]. }
  set (s3 := pushed s2 (VArgc 1)).
  assert (Hsp3 : sp s3 = sp s) by (unfold s3, pushed; cbn [sp with_scap with_stack]; lia).
  assert (Hcap3 : scap s3 = scap s).
  { unfold s3, pushed. cbn [scap with_scap with_stack]. rewrite Hsp2, Hcap2.
    destruct (N.ltb_spec (sp s - 1 + 1) (scap s)); [reflexivity|lia]. }
  split; [reflexivity|].
  split; [cbn [st conts with_ip]; unfold s3, s2, s1, pushed, new_cont; cbn [st conts with_scap with_stack with_heap with_store snd]; apply tget_tset_same|].
  split; [reflexivity|].
  split; [intros j Hj; unfold s3, s2, s1, pushed, new_cont; cbn [st conts with_ip with_scap with_stack with_heap with_store snd]; apply tget_tset_other; unfold cc_cid in Hj; congruence|].
  do 5 (split; [reflexivity|]).
  split; [exact Hsp3|]. split; [exact Hcap3|].
  split.
  { change (sget (with_ip s3 ?x) ?j) with (sget s3 j). unfold s3.
    replace (sp s) with (sp s2 + 1) at 1 by lia. apply sget_pushed_top. }
  split.
  { change (sget (with_ip s3 ?x) ?j) with (sget s3 j). unfold s3.
    rewrite sget_pushed_other by lia. unfold s2.
    replace (sp s - 1) with (sp s1 + 1) by lia. apply sget_pushed_top. }
  split.
  { intros j H1 H2. change (sget (with_ip s3 ?x) ?j) with (sget s3 j). unfold s3.
    rewrite sget_pushed_other by lia. unfold s2. rewrite sget_pushed_other by lia. reflexivity. }
  repeat split.
Qed.

(* the slots the continuation saved: those of the machine below the receiver *)
Lemma cc_cont_slot s j : 2 <= sp s -> j <= sp s - 2 ->
  nth (N.to_nat j) (k_stack (cc_cont s)) VUndef = sget s j.
Proof.
  intros Hsp Hj. unfold cc_cont. cbn [k_stack].
  rewrite stack_to_sp_nth by (cbn [sp with_sp with_stack]; lia). reflexivity.
Qed.
Lemma cc_cont_len s : len (k_stack (cc_cont s)) = sp s - 2 + 1.
Proof. unfold cc_cont. cbn [k_stack]. rewrite stack_to_sp_len. reflexivity. Qed.

(* with a well-formed heap the continuation object lands in a fresh cell and every cell
   that was allocated keeps its content *)
Lemma cc_put_inv s : heap_inv (hp s) ->
  exists kp h', cc_put s = (VPtr kp, h') /\ allocated h' kp /\ cell_at h' kp = VCont (cc_cid s) /\
    heap_inv h' /\ hext (hp s) h' /\ ~ allocated (hp s) kp.
Proof.
  intros HI. unfold cc_put. destruct (heap_put (hp s) (VCont (cc_cid s))) as [r h'] eqn:E.
  destruct (heap_put_frame _ _ _ _ HI E ltac:(discriminate)) as (a & -> & A & C & HI' & X).
  exists a, h'. split; [reflexivity|]. split; [exact A|]. split; [exact C|]. split; [exact HI'|].
  split; [exact X|].
  (* freshness: heap_put of a non-symbol allocates *)
  unfold heap_put, heap_store_new in E. destruct (heap_alloc (hp s)) as [q h0] eqn:Ea.
  injection E as <- <-. destruct (heap_alloc_frame _ _ _ HI Ea) as (_ & _ & NA & _). exact NA.
Qed.

Section Cont.
Variable ob : N -> M vcell.
Notation run_one := (Vm.run_one ob).
Notation steps := (RunProofs.steps ob).
Notation run_builtin := (Vm.run_builtin ob).
Notation resolve_callee := (Vm.resolve_callee ob).

Definition call_op (tail : bool) : vcell := VOp (if tail then OTCallAcc else OCallAcc).

(* ============================================================ (a) call/cc is a call *)
(* the machine [m] is AT the CALL / TCALL instruction (lp, i), %acc holds the builtin
   call/cc, the stack top is [receiver; Argc 1] *)
Record at_callcc (m : vm) (lp i : N) (bc : list vcell) (tail : bool) (fp : N) (pv : vcell) : Prop := {
  ac_code : code_in m lp bc;
  ac_ip : ip m = (lp, i);
  ac_seg : seg bc i [call_op tail];
  ac_acc : exists b, heap_deref (hp m) (acc m) = Ok (VBuiltin b) /\ run_builtin b = b_call_cc;
  ac_argc : sget m (sp m) = VArgc 1;
  ac_sp : 2 <= sp m;
  ac_cap : sp m < scap m;
  ac_recv : sget m (sp m - 1) = VPtr fp;
  ac_proc : heap_get (hp m) fp = Ok pv;
  ac_isp : is_procedure pv = true
}.

(* the state right after the capture *)
Definition s_cap (m : vm) (lp i fp : N) : vm := with_acc (cc_state (with_ip m (lp, i + 1))) (VPtr fp).
Definition k_cap (m : vm) (lp i : N) : cont := cc_cont (with_ip m (lp, i + 1)).

Lemma with_heap_id s : with_heap s (hp s) = s.
Proof. destruct s; reflexivity. Qed.

(* ONE instruction: the machine is again at the same CALL / TCALL, now of the receiver
   with the single argument k *)
Theorem callcc_step m lp i bc tail fp pv : at_callcc m lp i bc tail fp pv ->
  run_one m = ROk false (s_cap m lp i fp).
Proof.
  intros [Hc Hip Hs (b & Hd & Hb) Hargc Hsp Hcap Hrecv Hproc Hisp].
  set (s := with_ip m (lp, i + 1)).
  assert (E : run_builtin b s = ROk (VPtr fp) (cc_state s)).
  { rewrite Hb. rewrite <- Hrecv. change (sget m (sp m - 1)) with (sget s (sp s - 1)).
    apply (b_call_cc_eq s pv); try assumption.
    - change (sget s (sp s - 1)) with (sget m (sp m - 1)). rewrite Hrecv. exact Hproc.
    - unfold s. cbn [ip with_ip snd]. lia. }
  unfold s_cap. fold s.
  rewrite <- (with_heap_id (cc_state s)) at 1.
  eapply (step_call_builtin ob m lp i bc tail b (VPtr fp) (cc_state s) (VPtr fp) (hp (cc_state s)));
    try eassumption. reflexivity.
Qed.


(* ------------------------------------------------------------ the captured state, read back *)
Lemma s_cap_spec m lp i bc tail fp pv : at_callcc m lp i bc tail fp pv ->
  heap_inv (hp m) -> allocated (hp m) fp ->
  let sc := s_cap m lp i fp in
  let k := k_cap m lp i in
  let cid := next_id (st m) in
  exists kp,
    (* the continuation object *)
    allocated (hp sc) kp /\ cell_at (hp sc) kp = VCont cid /\ ~ allocated (hp m) kp /\
    tget (conts (st sc)) cid = Some k /\ next_id (st sc) = cid + 1 /\
    (forall j, j <> cid -> tget (conts (st sc)) j = tget (conts (st m)) j) /\
    k_sp k = sp m - 2 /\ k_ep k = ep m /\ k_ip k = (lp, i + 1) /\ k_bp k = bp m /\
    len (k_stack k) = sp m - 2 + 1 /\
    (forall j, j <= sp m - 2 -> nth (N.to_nat j) (k_stack k) VUndef = sget m j) /\
    (* the machine: at the same CALL / TCALL, about to apply the receiver to k *)
    ip sc = (lp, i) /\ code_in sc lp bc /\ acc sc = VPtr fp /\ heap_get (hp sc) fp = Ok pv /\
    sp sc = sp m /\ scap sc = scap m /\
    sget sc (sp sc) = VArgc 1 /\ sget sc (sp sc - 1) = VPtr kp /\
    (forall j, j <> sp m -> j <> sp m - 1 -> sget sc j = sget m j) /\
    bp sc = bp m /\ ep sc = ep m /\ g_bind sc = g_bind m /\ g_slots sc = g_slots m /\
    out_log sc = out_log m /\
    heap_inv (hp sc) /\ cext m sc /\ envs (st sc) = envs (st m).
Proof.
  intros [Hc Hip Hs (b & Hd & Hb) Hargc Hsp Hcap Hrecv Hproc Hisp] HI Afp sc k cid.
  set (s := with_ip m (lp, i + 1)).
  assert (Hsps : sp s = sp m) by reflexivity.
  assert (Hcaps : scap s = scap m) by reflexivity.
  assert (Hhps : hp s = hp m) by reflexivity.
  assert (Hsts : st s = st m) by reflexivity.
  assert (Hips : ip s = (lp, i + 1)) by reflexivity.
  assert (Hsg : forall j, sget s j = sget m j) by reflexivity.
  assert (Hregs : bp s = bp m /\ ep s = ep m /\ g_bind s = g_bind m /\ g_slots s = g_slots m /\ out_log s = out_log m)
    by (repeat split).
  destruct Hregs as (Hbps & Heps & Hgbs & Hgss & Hols).
  assert (HIs : heap_inv (hp s)) by exact HI.
  assert (Hsp_s : 2 <= sp s) by (rewrite Hsps; exact Hsp).
  assert (Hcap_s : sp s < scap s) by (rewrite Hsps, Hcaps; exact Hcap).
  destruct (cc_put_inv s HIs) as (kp & h' & Eput & Akp & Ckp & HI' & X & Fresh).
  destruct (cc_state_fields s kp h' Eput Hsp_s Hcap_s)
    as (F1 & F2 & F3 & F4 & F5 & F6 & F7 & F8 & F9 & F10 & F11 & F12 & F13 & F14 & F15 & F16 & F17 & F18 & F19 & F20 & F21).
  pose proof (cc_cont_len s) as KLen. pose proof (cc_cont_slot s) as KSlot.
  assert (Ksp : k_sp (cc_cont s) = sp s - 2) by reflexivity.
  assert (Kep : k_ep (cc_cont s) = ep s) by reflexivity.
  assert (Kip : k_ip (cc_cont s) = ip s) by reflexivity.
  assert (Kbp : k_bp (cc_cont s) = bp s) by reflexivity.
  assert (Ecid : cc_cid s = next_id (st s)) by reflexivity.
  assert (Esc : sc = with_acc (cc_state s) (VPtr fp)) by reflexivity.
  assert (Ek : k = cc_cont s) by reflexivity.
  clearbody sc k. subst sc k. subst cid.
  remember (cc_state s) as Y eqn:EY. remember (cc_cont s) as K eqn:EK. rewrite Ecid in *.
  clear EY EK Ecid Eput.
  rewrite Hsps, ?Hcaps, ?Hhps, ?Hsts, ?Hips, ?Hbps, ?Heps, ?Hgbs, ?Hgss, ?Hols in *.
  clearbody s.
  assert (Ehp : hp (with_acc Y (VPtr fp)) = h') by exact F1.
  assert (Est : st (with_acc Y (VPtr fp)) = st Y) by reflexivity.
  assert (Esg : forall j, sget (with_acc Y (VPtr fp)) j = sget Y j) by reflexivity.
  assert (CX : cext m (with_acc Y (VPtr fp))).
  { constructor.
    - rewrite Ehp. exact X.
    - rewrite Est. split; [rewrite F3; lia|].
      intros j _. rewrite F5, F6. split; reflexivity.
    - intros j _. rewrite Est, F8. reflexivity.
    - intros a k0 H. change (g_bind (with_acc Y (VPtr fp))) with (g_bind Y). rewrite F19. exact H.
    - change (g_slots (with_acc Y (VPtr fp))) with (g_slots Y). rewrite F20. lia. }
  exists kp. rewrite Ehp, Est. rewrite !Esg.
  change (sp (with_acc Y (VPtr fp))) with (sp Y). change (scap (with_acc Y (VPtr fp))) with (scap Y).
  change (ip (with_acc Y (VPtr fp))) with (ip Y). change (bp (with_acc Y (VPtr fp))) with (bp Y).
  change (ep (with_acc Y (VPtr fp))) with (ep Y). change (acc (with_acc Y (VPtr fp))) with (VPtr fp).
  change (g_bind (with_acc Y (VPtr fp))) with (g_bind Y). change (g_slots (with_acc Y (VPtr fp))) with (g_slots Y).
  change (out_log (with_acc Y (VPtr fp))) with (out_log Y).
  split; [exact Akp|]. split; [exact Ckp|]. split; [exact Fresh|].
  split; [exact F2|]. split; [exact F3|]. split; [exact F4|].
  split; [exact Ksp|]. split; [exact Kep|]. split; [exact Kip|]. split; [exact Kbp|].
  split; [exact KLen|].
  split; [intros j Hj; rewrite (KSlot j Hsp Hj); apply Hsg|].
  split; [rewrite F15; cbn [fst snd]; f_equal; lia|].
  split; [eapply code_in_ext; eassumption|].
  split; [reflexivity|].
  split.
  { destruct (X fp Afp) as [A' C'].
    rewrite (heap_get_alloc _ _ A'), C'. rewrite <- (heap_get_alloc _ _ Afp). exact Hproc. }
  split; [exact F10|]. split; [exact F11|].
  rewrite F10.
  split; [exact F12|]. split; [exact F13|].
  split; [intros j H1 H2; rewrite Esg, (F14 j H1 H2); apply Hsg|].
  split; [exact F16|]. split; [exact F17|]. split; [exact F19|]. split; [exact F20|]. split; [exact F21|].
  split; [exact HI'|]. split; [exact CX|]. exact F7.
Qed.

(* ------------------------------------------------------------ invoking a continuation: one instruction *)
Definition inv_state (s : vm) (k : cont) : vm :=
  mk_vm (hp s) (st s) (g_bind s) (g_slots s) (write_slots (k_stack k) 0 (stack s)) (scap s)
        (k_sp k) (k_bp k) (k_ep k) (k_ip k) (sget s (sp s - 1)) (out_log s).

(* the machine [s] is AT a CALL / TCALL instruction, %acc holds a continuation, the stack top
   is [.. v; Argc n], n >= 1 *)
Record at_invoke (s : vm) (cid : N) (tail : bool) : Prop := {
  ai_code : exists lq iq bq, code_in s lq bq /\ ip s = (lq, iq) /\ seg bq iq [call_op tail];
  ai_acc : heap_deref (hp s) (acc s) = Ok (VCont cid);
  ai_argc : exists n, sget s (sp s) = VArgc n /\ n <> 0;
  ai_sp : 2 <= sp s;
  ai_cap : sp s < scap s
}.
(* the continuation object is still there (in the Rust: the Rc is alive as long as a cell
   refers to it) and the stack vector is long enough (it never shrinks) *)
Record klive (cid : N) (k : cont) (s : vm) : Prop := {
  kl_cont : tget (conts (st s)) cid = Some k;
  kl_cap : len (k_stack k) <= scap s
}.

Theorem step_invoke s cid k tail : at_invoke s cid tail -> klive cid k s ->
  run_one s = ROk false (inv_state s k).
Proof.
  intros [(lq & iq & bq & Hc & Hip & Hs) Hacc (n & Hargc & Hn) Hsp Hcap] [Hk Hlen].
  apply seg_head in Hs as [H0 _]. unfold call_op in H0.
  pose proof (k_invoke ob (with_ip s (lq, iq + 1)) cid k n Hacc Hk Hargc Hn Hsp Hcap Hlen) as E.
  unfold Vm.run_one. unfold bindM at 1.
  destruct tail; rewrite (read_opcode_ok _ _ _ _ _ Hc Hip H0); cbv beta iota;
    unfold bindM at 1; rewrite E; reflexivity.
Qed.

Lemma inv_state_slot s k j : j < len (k_stack k) ->
  sget (inv_state s k) j = nth (N.to_nat j) (k_stack k) VUndef.
Proof.
  intros Hj. unfold sget, inv_state. cbn [stack].
  rewrite (restored_slot s k j). apply N.ltb_lt in Hj. rewrite Hj. reflexivity.
Qed.
Lemma inv_state_slot_above s k j : len (k_stack k) <= j -> sget (inv_state s k) j = sget s j.
Proof.
  intros Hj. unfold sget at 1. unfold inv_state. cbn [stack].
  rewrite (restored_slot s k j). apply N.ltb_ge in Hj. rewrite Hj. reflexivity.
Qed.

(* "any number of times": invoking changes neither the continuation object nor anything
   else in heap and store *)
Lemma klive_inv_state cid k s k' : klive cid k s -> klive cid k (inv_state s k').
Proof. intros [H1 H2]. split; [exact H1|exact H2]. Qed.

(* cext-style extension that also keeps the continuation objects and the stack vector *)
Record kext (s s' : vm) : Prop := {
  kx_cext : cext s s';
  kx_conts : forall j, j < next_id (st s) -> tget (conts (st s')) j = tget (conts (st s)) j;
  kx_cap : scap s <= scap s'
}.
Lemma kext_refl s : kext s s.
Proof. split; [apply cext_refl|auto|lia]. Qed.
Lemma kext_trans a b c : kext a b -> kext b c -> kext a c.
Proof.
  intros [X1 K1 C1] [X2 K2 C2]. split; [eapply cext_trans; eassumption| |lia].
  intros j Hj. rewrite K2, K1; auto. destruct (ce_store _ _ X1). lia.
Qed.
Lemma kext_klive cid k s s' : klive cid k s -> cid < next_id (st s) -> kext s s' -> klive cid k s'.
Proof.
  intros [H1 H2] Hc [X K C]. split; [rewrite K; assumption|lia].
Qed.
Lemma kext_deref s s' kp cid : kext s s' -> allocated (hp s) kp -> cell_at (hp s) kp = VCont cid ->
  heap_deref (hp s') (VPtr kp) = Ok (VCont cid).
Proof.
  intros [X _ _] A C. destruct (ce_heap _ _ X kp A) as [A' C']. cbn [heap_deref].
  rewrite (heap_get_alloc _ _ A'). congruence.
Qed.
(* the invoking state keeps the relation: registers and stack do not matter *)
Lemma kext_inv_state s s' k : kext s s' -> kext s (inv_state s' k).
Proof.
  intros [[H S L B G] K C]. split; [constructor; assumption|exact K|exact C].
Qed.

(* ------------------------------------------------------------ (a) the receiver, kind by kind *)
(* the state an ordinary CALL of the procedure at [lamp] produces from [s] *)
Definition called (s : vm) (lp i lamp : N) : vm :=
  with_ip (pushed (pushed (with_ip s (lp, i + 1)) (VEp (ep s))) (VIp lp (i + 1))) (lamp, 0).

(* a closure: the very CALL path of an ordinary application (FrameSteps.step_call_closure
   is the lemma about ANY CALL of a closure; here it is applied to the captured state) *)
Theorem callcc_closure m lp i bc fp lamp cep :
  at_callcc m lp i bc false fp (VClosure lamp cep) -> heap_inv (hp m) -> allocated (hp m) fp ->
  steps 2 m = Some (called (s_cap m lp i fp) lp i lamp).
Proof.
  intros H HI A. pose proof (callcc_step _ _ _ _ _ _ _ H) as E1.
  destruct (s_cap_spec _ _ _ _ _ _ _ H HI A) as (kp & _ & _ & _ & _ & _ & _ & _ & _ & _ & _ & _ & _ &
    Hip & Hc & Hacc & Hg & _).
  change 2%nat with (1 + 1)%nat. eapply steps_trans; [apply steps_one; exact E1|].
  apply steps_one. destruct H as [_ _ Hs _ _ _ _ _ _ _].
  exact (step_call_closure ob _ lp i bc fp lamp cep Hc Hip Hs Hacc Hg).
Qed.

(* (call/cc f) = (f k), f a closure: one instruction after the CALL of call/cc the machine is
   at the SAME CALL instruction with f in %acc and the single argument k on the stack; the
   next instruction is the ordinary CALL of f — the state [called] that CALL produces from
   ANY state at a CALL of that closure (last clause) *)
Theorem callcc_is_call m lp i bc fp lamp cep :
  at_callcc m lp i bc false fp (VClosure lamp cep) -> heap_inv (hp m) -> allocated (hp m) fp ->
  let sc := s_cap m lp i fp in
  run_one m = ROk false sc /\
  ip sc = (lp, i) /\ acc sc = VPtr fp /\ heap_get (hp sc) fp = Ok (VClosure lamp cep) /\
  sget sc (sp sc) = VArgc 1 /\
  (exists kp, sget sc (sp sc - 1) = VPtr kp /\ cell_at (hp sc) kp = VCont (next_id (st m)) /\
              tget (conts (st sc)) (next_id (st m)) = Some (k_cap m lp i)) /\
  run_one sc = ROk false (called sc lp i lamp) /\
  (forall m' lp' i' bc' a, code_in m' lp' bc' -> ip m' = (lp', i') -> seg bc' i' [VOp OCallAcc] ->
     acc m' = VPtr a -> heap_get (hp m') a = Ok (VClosure lamp cep) ->
     run_one m' = ROk false (called m' lp' i' lamp)).
Proof.
  intros H HI A sc. pose proof (callcc_step _ _ _ _ _ _ _ H) as E1.
  destruct (s_cap_spec _ _ _ _ _ _ _ H HI A) as (kp & _ & Ckp & _ & Hk & _ & _ & _ & _ & _ & _ & _ & _ &
    Hip & Hc & Hacc & Hg & _ & _ & Hargc' & Harg' & _).
  split; [exact E1|]. split; [exact Hip|]. split; [exact Hacc|]. split; [exact Hg|].
  split; [exact Hargc'|]. split; [exists kp; split; [exact Harg'|split; [exact Ckp|exact Hk]]|].
  split.
  - destruct H as [_ _ Hs _ _ _ _ _ _ _].
    exact (step_call_closure ob _ lp i bc fp lamp cep Hc Hip Hs Hacc Hg).
  - intros m' lp' i' bc' a Hc' Hip' Hs' Hacc' Hg'.
    exact (step_call_closure ob m' lp' i' bc' a lamp cep Hc' Hip' Hs' Hacc' Hg').
Qed.

(* a closure-less lambda *)
Theorem callcc_lambda m lp i bc fp lid :
  at_callcc m lp i bc false fp (VLambda lid) -> heap_inv (hp m) -> allocated (hp m) fp ->
  steps 2 m = Some (called (s_cap m lp i fp) lp i fp).
Proof.
  intros H HI A. pose proof (callcc_step _ _ _ _ _ _ _ H) as E1.
  destruct (s_cap_spec _ _ _ _ _ _ _ H HI A) as (kp & _ & _ & _ & _ & _ & _ & _ & _ & _ & _ & _ & _ &
    Hip & Hc & Hacc & Hg & _).
  change 2%nat with (1 + 1)%nat. eapply steps_trans; [apply steps_one; exact E1|].
  apply steps_one. destruct H as [_ _ Hs _ _ _ _ _ _ _].
  exact (step_call_lambda ob _ lp i bc fp lid Hc Hip Hs Hacc Hg).
Qed.

(* another continuation k2: it is invoked with the new continuation as its value *)
Theorem callcc_cont m lp i bc tail fp cid2 k2 :
  at_callcc m lp i bc tail fp (VCont cid2) -> heap_inv (hp m) -> allocated (hp m) fp ->
  klive cid2 k2 m -> cid2 < next_id (st m) ->
  exists kp, sget (s_cap m lp i fp) (sp m - 1) = VPtr kp /\
    cell_at (hp (s_cap m lp i fp)) kp = VCont (next_id (st m)) /\
    steps 2 m = Some (inv_state (s_cap m lp i fp) k2) /\
    acc (inv_state (s_cap m lp i fp) k2) = VPtr kp.
Proof.
  intros H HI A [Hk2 Hl2] Hlt. pose proof (callcc_step _ _ _ _ _ _ _ H) as E1.
  destruct (s_cap_spec _ _ _ _ _ _ _ H HI A) as (kp & _ & Ckp & _ & _ & _ & Hoth & _ & _ & _ & _ & _ & _ &
    Hip & Hc & Hacc & Hg & Hsp' & Hcap' & Hargc' & Harg' & _).
  exists kp. rewrite Hsp' in Harg'. split; [exact Harg'|]. split; [exact Ckp|].
  assert (AI : at_invoke (s_cap m lp i fp) cid2 tail).
  { destruct H as [_ _ Hs _ _ Hsp Hcap _ _ _]. constructor.
    - exists lp, i, bc. auto.
    - rewrite Hacc. cbn [heap_deref]. exact Hg.
    - exists 1. split; [exact Hargc'|discriminate].
    - rewrite Hsp'. exact Hsp.
    - rewrite Hsp', Hcap'. exact Hcap. }
  assert (KL : klive cid2 k2 (s_cap m lp i fp)).
  { split; [rewrite Hoth by lia; exact Hk2|rewrite Hcap'; exact Hl2]. }
  split.
  - change 2%nat with (1 + 1)%nat. eapply steps_trans; [apply steps_one; exact E1|].
    apply steps_one. exact (step_invoke _ cid2 k2 tail AI KL).
  - unfold inv_state. cbn [acc]. rewrite Hsp'. exact Harg'.
Qed.

(* a builtin procedure b2: it runs with the one argument k on the stack *)
Theorem callcc_builtin m lp i bc tail fp b2 r m2 v' h' :
  at_callcc m lp i bc tail fp (VBuiltin b2) -> heap_inv (hp m) -> allocated (hp m) fp ->
  run_builtin b2 (with_ip (s_cap m lp i fp) (lp, i + 1)) = ROk r m2 ->
  (match r with VPtr _ => (r, hp m2) | _ => heap_maybe_put (hp m2) r end) = (v', h') ->
  steps 2 m = Some (with_acc (with_heap m2 h') v').
Proof.
  intros H HI A Hb Hbox. pose proof (callcc_step _ _ _ _ _ _ _ H) as E1.
  destruct (s_cap_spec _ _ _ _ _ _ _ H HI A) as (kp & _ & _ & _ & _ & _ & _ & _ & _ & _ & _ & _ & _ &
    Hip & Hc & Hacc & Hg & _).
  change 2%nat with (1 + 1)%nat. eapply steps_trans; [apply steps_one; exact E1|].
  apply steps_one. destruct H as [_ _ Hs _ _ _ _ _ _ _].
  eapply (step_call_builtin ob _ lp i bc tail b2 r m2 v' h'); try eassumption.
Qed.


(* ============================================================ (b) invoking k = returning from the receiver *)
(* [mr] is inside the frame that CALL + ENTER built for the receiver on the captured state:
   %bp points at the argument k, the four frame slots hold Argc 1, the saved %ep, the return
   address (the instruction after the call/cc site) and the saved %bp, and the stack below
   the receiver is as it was at the capture.  ENTER establishes it ([enter_in_cc_frame]) and
   code that respects its frame ([frame] of CompileCorrect.v) keeps it
   ([in_cc_frame_preserved]). *)
Record in_cc_frame (m : vm) (lp i : N) (mr : vm) : Prop := {
  cf_bp : bp mr = sp m - 1;
  cf_argc : sget mr (sp m) = VArgc 1;
  cf_ep : sget mr (sp m + 1) = VEp (ep m);
  cf_ip : sget mr (sp m + 2) = VIp lp (i + 1);
  cf_bpv : sget mr (sp m + 3) = VBp (bp m);
  cf_below : forall j, j <= sp m - 2 -> sget mr j = sget m j;
  cf_cap : sp m + 3 < scap mr
}.

(* the frame of the called state *)
Lemma called_slots_gen (sc m : vm) lp i lamp kp :
  2 <= sp m -> sp sc = sp m -> scap sc = scap m -> sp m < scap m ->
  sget sc (sp m) = VArgc 1 -> sget sc (sp m - 1) = VPtr kp ->
  (forall j, j <> sp m -> j <> sp m - 1 -> sget sc j = sget m j) ->
  bp sc = bp m -> ep sc = ep m ->
  let c := called sc lp i lamp in
  sp c = sp m + 2 /\ bp c = bp m /\ ep c = ep m /\ ip c = (lamp, 0) /\ acc c = acc sc /\
  sget c (sp m + 2) = VIp lp (i + 1) /\ sget c (sp m + 1) = VEp (ep m) /\ sget c (sp m) = VArgc 1 /\
  sget c (sp m - 1) = VPtr kp /\
  (forall j, j <= sp m - 2 -> sget c j = sget m j) /\
  hp c = hp sc /\ st c = st sc /\ scap m <= scap c.
Proof.
  intros Hsp Hsp' Hcap' Hcap Hargc' Harg' Hoth Hbp' Hep' c.
  set (c1 := pushed (with_ip sc (lp, i + 1)) (VEp (ep sc))).
  assert (Hsp1 : sp c1 = sp m + 1) by (unfold c1, pushed; cbn [sp with_scap with_stack with_ip]; lia).
  assert (Hc2 : c = with_ip (pushed c1 (VIp lp (i + 1))) (lamp, 0)) by reflexivity.
  assert (G : forall j, sget c j = sget (pushed c1 (VIp lp (i + 1))) j) by reflexivity.
  assert (G1 : forall j, j <> sp m + 1 -> sget c1 j = sget sc j).
  { intros j Hj. unfold c1. rewrite sget_pushed_other by (cbn [sp with_ip]; lia). reflexivity. }
  split; [rewrite Hc2; unfold pushed; cbn [sp with_scap with_stack with_ip]; lia|].
  split; [exact Hbp'|]. split; [exact Hep'|]. split; [reflexivity|]. split; [reflexivity|].
  split; [rewrite G; replace (sp m + 2) with (sp c1 + 1) by lia; apply sget_pushed_top|].
  split.
  { rewrite G, sget_pushed_other by lia. unfold c1.
    replace (sp m + 1) with (sp (with_ip sc (lp, i + 1)) + 1) by (cbn [sp with_ip]; lia).
    rewrite sget_pushed_top. rewrite Hep'. reflexivity. }
  split; [rewrite G, sget_pushed_other by lia; rewrite G1 by lia; exact Hargc'|].
  split; [rewrite G, sget_pushed_other by lia; rewrite G1 by lia; exact Harg'|].
  split.
  { intros j Hj. rewrite G, sget_pushed_other by lia. rewrite G1 by lia. apply Hoth; lia. }
  split; [reflexivity|]. split; [reflexivity|].
  rewrite Hc2. unfold pushed. cbn [scap with_scap with_stack with_ip].
  unfold c1, pushed. cbn [scap sp with_scap with_stack with_ip].
  repeat match goal with |- context [if ?a <? ?b then _ else _] => destruct (N.ltb_spec a b) end; lia.
Qed.

Lemma called_slots m lp i bc fp pv lamp : at_callcc m lp i bc false fp pv ->
  heap_inv (hp m) -> allocated (hp m) fp ->
  let c := called (s_cap m lp i fp) lp i lamp in
  sp c = sp m + 2 /\ bp c = bp m /\ ep c = ep m /\ ip c = (lamp, 0) /\ acc c = VPtr fp /\
  sget c (sp m + 2) = VIp lp (i + 1) /\ sget c (sp m + 1) = VEp (ep m) /\ sget c (sp m) = VArgc 1 /\
  (exists kp, sget c (sp m - 1) = VPtr kp /\ cell_at (hp c) kp = VCont (next_id (st m))) /\
  (forall j, j <= sp m - 2 -> sget c j = sget m j) /\
  hp c = hp (s_cap m lp i fp) /\ st c = st (s_cap m lp i fp) /\ scap m <= scap c.
Proof.
  intros H HI A.
  destruct (s_cap_spec _ _ _ _ _ _ _ H HI A) as (kp & _ & Ckp & _ & _ & _ & _ & _ & _ & _ & _ & _ & _ &
    Hip & Hc & Hacc & Hg & Hsp' & Hcap' & Hargc' & Harg' & Hoth & Hbp' & Hep' & _).
  destruct H as [_ _ _ _ _ Hsp Hcap _ _ _].
  rewrite Hsp' in Hargc', Harg'.
  pose proof (called_slots_gen (s_cap m lp i fp) m lp i lamp kp Hsp Hsp' Hcap' Hcap Hargc' Harg' Hoth Hbp' Hep')
    as G.
  cbv zeta in G |- *.
  destruct G as (G1 & G2 & G3 & G4 & G5 & G6 & G7 & G8 & G9 & G10 & G11 & G12 & G13).
  split; [exact G1|]. split; [exact G2|]. split; [exact G3|]. split; [exact G4|].
  split; [rewrite G5; exact Hacc|]. split; [exact G6|]. split; [exact G7|]. split; [exact G8|].
  split; [exists kp; split; [exact G9|rewrite G11; exact Ckp]|].
  split; [exact G10|]. split; [exact G11|]. split; [exact G12|exact G13].
Qed.

(* what ENTER leaves (the shape of the conclusions of FrameSteps.step_enter_closure and
   CompileCorrect.step_enter_top) is that frame *)
Lemma enter_in_cc_frame m lp i bc fp pv lamp m' : at_callcc m lp i bc false fp pv ->
  heap_inv (hp m) -> allocated (hp m) fp ->
  let c := called (s_cap m lp i fp) lp i lamp in
  bp m' = sp c - 3 -> sget m' (sp c + 1) = VBp (bp c) ->
  (forall j, j <> sp c + 1 -> sget m' j = sget c j) -> sp c + 1 < scap m' ->
  in_cc_frame m lp i m'.
Proof.
  intros H HI A c Hbp Hnew Hoth Hcap.
  destruct (called_slots m lp i bc fp pv lamp H HI A)
    as (Hsp & Hbpc & Hepc & _ & _ & S2 & S1 & S0 & _ & Slow & _).
  fold c in Hsp, Hbpc, Hepc, S2, S1, S0, Slow.
  destruct H as [_ _ _ _ _ Hsp2 _ _ _ _].
  rewrite Hsp in *. constructor.
  - rewrite Hbp. lia.
  - rewrite Hoth by lia. exact S0.
  - rewrite Hoth by lia. exact S1.
  - rewrite Hoth by lia. exact S2.
  - replace (sp m + 3) with (sp m + 2 + 1) by lia. rewrite Hnew, Hbpc. reflexivity.
  - intros j Hj. rewrite Hoth by lia. apply Slow. exact Hj.
  - lia.
Qed.

Lemma in_cc_frame_preserved m lp i a b : in_cc_frame m lp i a -> sp m + 3 <= sp a ->
  frame a b -> sp b < scap b -> in_cc_frame m lp i b.
Proof.
  intros [F1 F2 F3 F4 F5 F6 F7] Hsp [_ Esp Ebp _ _ Est] Hcap. constructor.
  - rewrite Ebp. exact F1.
  - rewrite Est by lia. exact F2.
  - rewrite Est by lia. exact F3.
  - rewrite Est by lia. exact F4.
  - rewrite Est by lia. exact F5.
  - intros j Hj. rewrite Est by lia. apply F6. exact Hj.
  - lia.
Qed.

(* the normal return: RET executed in that frame *)
Definition ret_state (m : vm) (lp i : N) (mr : vm) (lq iq : N) : vm :=
  with_bp (with_ip (with_ep (with_sp (with_ip mr (lq, iq + 1)) (sp m - 2)) (ep m)) (lp, i + 1)) (bp m).

Lemma step_ret_cc m lp i mr lq iq bq : 2 <= sp m -> in_cc_frame m lp i mr ->
  code_in mr lq bq -> ip mr = (lq, iq) -> seg bq iq [VOp ORet] ->
  run_one mr = ROk false (ret_state m lp i mr lq iq).
Proof.
  intros Hsp [F1 F2 F3 F4 F5 F6 F7] Hc Hip Hs.
  rewrite (step_ret_n ob mr lq iq bq 1 (ep m) lp (i + 1) (bp m) Hc Hip Hs).
  - unfold ret_state. rewrite F1. replace (sp m - 1 - 1) with (sp m - 2) by lia. reflexivity.
  - rewrite F1. lia.
  - rewrite F1. lia.
  - rewrite F1. replace (sp m - 1 + 1) with (sp m) by lia. exact F2.
  - rewrite F1. replace (sp m - 1 + 2) with (sp m + 1) by lia. exact F3.
  - rewrite F1. replace (sp m - 1 + 3) with (sp m + 2) by lia. exact F4.
  - rewrite F1. replace (sp m - 1 + 4) with (sp m + 3) by lia. exact F5.
Qed.

(* registers and the live part of the stack *)
Definition same_cont_state (a b : vm) : Prop :=
  sp a = sp b /\ bp a = bp b /\ ep a = ep b /\ ip a = ip b /\ acc a = acc b /\
  forall j, j <= sp b -> sget a j = sget b j.

(* THE state equation.  [m]: the machine at the CALL of call/cc; [mr]: the receiver about to
   return normally (at its RET, in the frame built on the captured state, %acc = v);
   [s']: ANY later machine — any call depth, any later evaluation, heap / store / globals
   mutated at will — in which the continuation object is still there and which is about to
   apply it to v.  Then the state after the invocation and the state after the normal return
   agree on sp, bp, ep, ip (the instruction after the call/cc site), %acc = v and every stack
   slot up to sp; heap, Rc payloads, globals, output log and stack capacity of the invoked
   state are those of s' (mutations since the capture stay visible); and the continuation is
   still live afterwards (it can be invoked again, from that state or any later one). *)
Theorem invoke_equals_return m lp i bc fp pv mr lq iq bq s' tail' v :
  at_callcc m lp i bc false fp pv ->
  in_cc_frame m lp i mr -> code_in mr lq bq -> ip mr = (lq, iq) -> seg bq iq [VOp ORet] -> acc mr = v ->
  klive (next_id (st m)) (k_cap m lp i) s' -> at_invoke s' (next_id (st m)) tail' ->
  sget s' (sp s' - 1) = v ->
  exists s_ret s_inv,
    run_one mr = ROk false s_ret /\ run_one s' = ROk false s_inv /\
    same_cont_state s_inv s_ret /\
    sp s_ret = sp m - 2 /\ bp s_ret = bp m /\ ep s_ret = ep m /\ ip s_ret = (lp, i + 1) /\ acc s_ret = v /\
    (forall j, j <= sp m - 2 -> sget s_ret j = sget m j) /\
    hp s_inv = hp s' /\ st s_inv = st s' /\ g_bind s_inv = g_bind s' /\ g_slots s_inv = g_slots s' /\
    out_log s_inv = out_log s' /\ scap s_inv = scap s' /\
    klive (next_id (st m)) (k_cap m lp i) s_inv.
Proof.
  intros H F Hc Hip Hs Hv KL AI Hv'.
  assert (Hsp : 2 <= sp m) by (destruct H; assumption).
  exists (ret_state m lp i mr lq iq), (inv_state s' (k_cap m lp i)).
  split; [apply (step_ret_cc m lp i mr lq iq bq Hsp F Hc Hip Hs)|].
  split; [apply (step_invoke s' _ _ tail' AI KL)|].
  assert (Low : forall j, j <= sp m - 2 -> sget (ret_state m lp i mr lq iq) j = sget m j).
  { intros j Hj. change (sget (ret_state m lp i mr lq iq) j) with (sget mr j). apply (cf_below _ _ _ _ F). exact Hj. }
  split.
  { unfold same_cont_state.
    split; [reflexivity|]. split; [reflexivity|]. split; [reflexivity|]. split; [reflexivity|].
    split; [change (sget s' (sp s' - 1) = acc mr); congruence|].
    intros j Hj. change (sp (ret_state m lp i mr lq iq)) with (sp m - 2) in Hj.
    rewrite Low by exact Hj.
    rewrite inv_state_slot by (unfold k_cap; rewrite cc_cont_len; cbn [sp with_ip]; lia).
    unfold k_cap. rewrite cc_cont_slot by (cbn [sp with_ip]; assumption). reflexivity. }
  split; [reflexivity|]. split; [reflexivity|]. split; [reflexivity|]. split; [reflexivity|].
  split; [exact Hv|]. split; [exact Low|].
  do 6 (split; [reflexivity|]). apply klive_inv_state. exact KL.
Qed.

(* the captured state itself has the continuation live; so has every kext-extension *)
Lemma klive_s_cap m lp i bc tail fp pv : at_callcc m lp i bc tail fp pv ->
  heap_inv (hp m) -> allocated (hp m) fp ->
  klive (next_id (st m)) (k_cap m lp i) (s_cap m lp i fp) /\
  next_id (st m) < next_id (st (s_cap m lp i fp)).
Proof.
  intros H HI A.
  destruct (s_cap_spec _ _ _ _ _ _ _ H HI A) as (kp & _ & _ & _ & Hk & Hn & _ & _ & _ & _ & _ & Hl & _ &
    _ & _ & _ & _ & _ & Hcap' & _).
  destruct H as [_ _ _ _ _ Hsp Hcap _ _ _].
  split; [split; [exact Hk|rewrite Hl, Hcap'; lia]|rewrite Hn; lia].
Qed.

(* ============================================================ (c) an escape discards the frames above *)
(* whatever the depth of the invoking state: sp, bp and the stack up to sp are those of the
   capture (= those after the normal return, by invoke_equals_return) *)
Theorem escape_discards m lp i bc tail fp pv s' tail' :
  at_callcc m lp i bc tail fp pv ->
  klive (next_id (st m)) (k_cap m lp i) s' -> at_invoke s' (next_id (st m)) tail' ->
  exists s_inv, run_one s' = ROk false s_inv /\
    sp s_inv = sp m - 2 /\ bp s_inv = bp m /\ ep s_inv = ep m /\ ip s_inv = (lp, i + 1) /\
    (forall j, j <= sp m - 2 -> sget s_inv j = sget m j) /\
    (forall j, sp m - 2 < j -> sget s_inv j = sget s' j).
Proof.
  intros H KL AI. assert (Hsp : 2 <= sp m) by (destruct H; assumption).
  exists (inv_state s' (k_cap m lp i)).
  split; [apply (step_invoke s' _ _ tail' AI KL)|].
  do 4 (split; [reflexivity|]). split.
  - intros j Hj. rewrite inv_state_slot by (unfold k_cap; rewrite cc_cont_len; cbn [sp with_ip]; lia).
    unfold k_cap. rewrite cc_cont_slot by (cbn [sp with_ip]; assumption). reflexivity.
  - intros j Hj. apply inv_state_slot_above. unfold k_cap. rewrite cc_cont_len. cbn [sp with_ip]. lia.
Qed.

(* two invocations from states of different depth land in the same registers and stack *)
Corollary escape_depth_independent m lp i bc tail fp pv s1 s2 t1 t2 :
  at_callcc m lp i bc tail fp pv ->
  klive (next_id (st m)) (k_cap m lp i) s1 -> at_invoke s1 (next_id (st m)) t1 ->
  klive (next_id (st m)) (k_cap m lp i) s2 -> at_invoke s2 (next_id (st m)) t2 ->
  exists r1 r2, run_one s1 = ROk false r1 /\ run_one s2 = ROk false r2 /\
    sp r1 = sp r2 /\ bp r1 = bp r2 /\ ep r1 = ep r2 /\ ip r1 = ip r2 /\
    forall j, j <= sp r2 -> sget r1 j = sget r2 j.
Proof.
  intros H K1 A1 K2 A2.
  destruct (escape_discards _ _ _ _ _ _ _ s1 t1 H K1 A1) as (r1 & E1 & P1 & B1 & X1 & I1 & L1 & _).
  destruct (escape_discards _ _ _ _ _ _ _ s2 t2 H K2 A2) as (r2 & E2 & P2 & B2 & X2 & I2 & L2 & _).
  exists r1, r2. repeat (split; [congruence|]).
  intros j Hj. rewrite L1, L2 by lia. reflexivity.
Qed.

End Cont.
