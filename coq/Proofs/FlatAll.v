(* FlatAll.v — C02 locations_flat, UNCONDITIONALLY for the machine of marwood:

   [builtins_ok other_builtin] for the real builtin table of Model/Builtins.v
   (FlatListVec.v: list.rs/vector.rs/predicate.rs; FlatPkg.v: number.rs, string.rs, char.rs,
   symbol.rs; FlatProofs.v: procedure.rs/ports.rs; FlatCompile.v: `eval`), the compiler
   (FlatCompile.v), hence: every state reached from a [finv] state by Vm::eval of ANY datum
   satisfies [finv], in particular locations are flat there; the boot sequence
   (Vm::new: load_builtins, then every form of the prelude) ends in a [finv] state — by the
   preservation theorems, not by evaluating [booted]. *)
From Coq Require Import Lia List String FMapPositive.
From MW Require Import Model.Base Model.F64 Model.Num Model.Datum Model.Lex Model.Parse Model.TransformDef
  Model.Transform Model.VmTypes Model.Heap Model.Gc Model.VmBase Model.Compile Model.Vm Model.Builtins
  Proofs.GcProofs Proofs.SymtabProofs Proofs.VmProofs0 Proofs.TailProofs Proofs.ScopeProofs
  Proofs.EnvProofs Proofs.FlatProofs Proofs.FlatPrims Proofs.FlatCompile Proofs.FlatListVec Proofs.FlatPkg.
Open Scope N_scope.

(* (H1) the whole builtin table *)
Theorem pres_other_builtin : forall b, pres (other_builtin b) no_lexptr.
Proof. apply pres_pkg_builtin; [apply pres_maybe_put_cell_m'|apply pres_lv_builtin]. Qed.

Theorem builtins_ok_other : builtins_ok other_builtin.
Proof. apply builtins_ok_of; [apply pres_other_builtin|apply b_eval_finv]. Qed.

(* one instruction / the run loop / Vm::eval of the real machine *)
Theorem step_finv s r s' : finv s -> run_one other_builtin s = ROk r s' -> finv s'.
Proof. apply finv_step, builtins_ok_other. Qed.

Theorem run_finv fuel count s res s' :
  finv s -> run_count other_builtin fuel count s = ROk res s' -> finv s'.
Proof. apply run_count_finv, builtins_ok_other. Qed.

(* every outcome of Vm::eval that leaves a machine leaves one satisfying the invariant *)
Theorem eval_post ob fuel e s : builtins_ok ob -> finv s ->
  match eval ob fuel e s with ROk _ s' | RErr _ _ s' => finv s' | _ => True end.
Proof.
  intros Hob F. rewrite eval_unfold. pose proof (prepare_eval_finv e s F I) as P.
  destruct (prepare_eval e s) as [u s1|er m s1|k|]; cbn [post] in P; auto.
  exact (run_loop_finv ob Hob fuel 0 None s1 (proj1 P)).
Qed.

Theorem eval_finv_all fuel e s res s' :
  finv s -> eval other_builtin fuel e s = ROk res s' -> finv s'.
Proof.
  intros F H. pose proof (eval_post other_builtin fuel e s builtins_ok_other F) as P.
  rewrite H in P. exact P.
Qed.

Theorem eval_locations_flat fuel e s res s' :
  finv s -> eval other_builtin fuel e s = ROk res s' ->
  forall p k q k2 eid l,
    env_at s' p = Some (eid, l) -> list_get l k = Some (VLexPtr q k2) ->
    exists e2 l2 v, env_at s' q = Some (e2, l2) /\ list_get l2 k2 = Some v /\
                    match v with VLexPtr _ _ => False | _ => True end.
Proof. intros F H. exact (finv_flat s' (eval_finv_all fuel e s res s' F H)). Qed.

(* sliced execution (the interface of the REPL: prepare_eval, then run_count with a budget) *)
Theorem prepare_eval_state e s u s' : finv s -> prepare_eval e s = ROk u s' -> finv s'.
Proof. intros F H. pose proof (prepare_eval_finv e s F I) as P. rewrite H in P. exact (proj1 P). Qed.

(* ------------------------------------------------------------------ boot *)
Lemma pres_load_builtins_from l : forall i, pres (load_builtins_from l i) T.
Proof.
  induction l as [|[name x] r IH]; intros i; cbn [load_builtins_from]; [apply pres_ret; exact I|].
  eapply pres_bind; [apply pres_hput; exact I|intros syscall Hs].
  eapply pres_bind; [apply pres_hput; exact I|intros sym _].
  eapply pres_bind; [apply pres_as_ptr|intros p _].
  eapply pres_bind; [apply pres_get_binding|intros slot _].
  eapply pres_bind with (Q := T); [|intros _ _; apply IH].
  intros s F _. cbn [post]. split; [|exact I]. apply finv_globals; [exact F|].
  destruct Hs as [a ->]. exact I.
Qed.
Theorem pres_load_builtins : pres load_builtins T.
Proof. apply pres_load_builtins_from. Qed.

Lemma eval_cell_post ef d s : finv s ->
  match eval_cell_f ef d s with ROk _ s' | RErr _ _ s' => finv s' | _ => True end.
Proof. intros F. exact (eval_post other_builtin ef d s builtins_ok_other F). Qed.

(* one unfolding *)
Lemma eval_text_all_f_S ef f t s acc :
  eval_text_all_f ef (S f) t s acc =
      match parse_text t with
      | Ok (d, rest) =>
          match eval_cell_f ef d s with
          | ROk (Done c) s' =>
              match rest with
              | Some r => eval_text_all_f ef f r s' (FOk c :: acc)
              | None => (rev (FOk c :: acc), s')
              end
          | ROk (Failed e m _) s' =>
              match rest with
              | Some r => eval_text_all_f ef f r s' (FErr e m :: acc)
              | None => (rev (FErr e m :: acc), s')
              end
          | ROk Yield s' => (rev (FNoFuel :: acc), s')
          | RErr e m s' => (rev (FErr e m :: acc), s')
          | RPanic k => (rev (FPanic k :: acc), s)
          | RNoFuel => (rev (FNoFuel :: acc), s)
          end
      | Err e => (rev (FErr e [] :: acc), s)
      | Panic k => (rev (FPanic k :: acc), s)
      | NoFuel => (rev (FNoFuel :: acc), s)
      end.
Proof. reflexivity. Qed.

(* evaluating a whole text, datum by datum (the front ends' loop; the prelude at boot) *)
Theorem eval_text_all_finv ef fuel : forall t s acc rs s',
  finv s -> eval_text_all_f ef fuel t s acc = (rs, s') -> finv s'.
Proof.
  induction fuel as [|f IH]; intros t s acc rs s' F H.
  - cbn [eval_text_all_f] in H. injection H as _ <-. exact F.
  - rewrite eval_text_all_f_S in H. destruct (parse_text t) as [[d rest]| | |]; try (injection H as _ <-; exact F).
    pose proof (eval_cell_post ef d s F) as P.
    destruct (eval_cell_f ef d s) as [res s1|e m s1|k|]; try (injection H as _ <-; assumption).
    destruct res as [c| |e m tr].
    + destruct rest as [r|]; [exact (IH r s1 _ rs s' P H)|injection H as _ <-; exact P].
    + injection H as _ <-; exact P.
    + destruct rest as [r|]; [exact (IH r s1 _ rs s' P H)|injection H as _ <-; exact P].
Qed.

Theorem boot_with_finv prelude s : boot_with prelude = Some s -> finv s.
Proof.
  unfold boot_with. intros H.
  assert (F0 : finv (vm_empty 8192)) by (apply finv_empty; reflexivity).
  pose proof (pres_load_builtins (vm_empty 8192) F0 I) as P.
  destruct (load_builtins (vm_empty 8192)) as [u s0| | |]; try discriminate H. cbn [post] in P.
  destruct P as [F1 _].
  assert (G : (let '(rs, s1) := eval_text_all (S (length prelude)) prelude s0 [] in
               if forallb (fun r => match r with FOk _ => true | _ => false end) rs then Some s1 else None)
              = Some s -> finv s).
  { unfold eval_text_all.
    destruct (eval_text_all_f EVAL_FUEL (S (length prelude)) prelude s0 []) as [rs s1] eqn:E.
    destruct (forallb _ rs); [|discriminate]. intros [= <-].
    exact (eval_text_all_finv _ _ _ _ _ _ _ F1 E). }
  destruct (scan prelude) as [[|tk tks]| | |]; try exact (G H).
  injection H as <-. exact F1.
Qed.

(* the machine of Vm::new (builtins + the prelude of the pinned tree) *)
Theorem booted_finv s : booted = Some s -> finv s.
Proof. apply boot_with_finv. Qed.

(* ------------------------------------------------------------------ example *)
(* ((lambda (x) ((lambda (y) (lambda () (if x y x))) 2)) 1): the innermost closure captures
   [x] through a pointer and [y] by value *)
Definition fa_src : text :=
  S_ "((lambda (x) ((lambda (y) (lambda () (if x y x))) 2)) 1)"%string.
Definition fa_datum : cell := match parse_text fa_src with Ok (d, _) => d | _ => CNil end.
Definition has_lexptr (s : vm) : bool :=
  existsb (fun p => existsb (fun v => negb (no_lexptrb v)) (snd p)) (PositiveMap.elements (envs (st s))).

Example fa_example :
  exists c s', eval other_builtin 200 fa_datum (vm_empty 64) = ROk (Done c) s' /\
               has_lexptr s' = true /\ finv s' /\ flat s'.
Proof.
  assert (H : match eval other_builtin 200 fa_datum (vm_empty 64) with
              | ROk (Done c) s' => has_lexptr s'
              | _ => false end = true) by (vm_compute; reflexivity).
  assert (F0 : finv (vm_empty 64)) by (apply finv_empty; reflexivity).
  destruct (eval other_builtin 200 fa_datum (vm_empty 64)) as [res s'| | |] eqn:E; try discriminate H.
  destruct res as [c| |]; try discriminate H.
  exists c, s'. split; [reflexivity|]. split; [exact H|].
  pose proof (eval_finv_all _ _ _ _ _ F0 E) as F1. split; [exact F1|apply finv_flat, F1].
Qed.

(* the boot sequence does succeed on the machine without the prelude text (the value is
   computed here only to show that [boot_with_finv] is not vacuous; the theorem itself does
   not evaluate anything) *)
Example fa_boot_bare : exists s, boot_with [] = Some s /\ finv s.
Proof.
  assert (H : match boot_with [] with Some _ => true | None => false end = true) by (vm_compute; reflexivity).
  destruct (boot_with []) as [s|] eqn:E; [|discriminate H].
  exists s. split; [reflexivity|]. exact (boot_with_finv [] s E).
Qed.

(* the compiler on the same datum: four code objects are installed (three lambdas and the
   runnable wrapper), the entry code is returned; all of it satisfies bc_ok — by the theorem,
   and (independently) by the boolean checker *)
Example fa_compile :
  exists l s', compile_runnable fa_datum (vm_empty 64) = ROk l s' /\
    l_bc (lambda_finish l) = [VOp OPushImmediate; VArgc 0; VOp OMovImmediate; VPtr 5; VAcc; VOp OCallAcc; VOp OHalt] /\
    PositiveMap.cardinal (lams (st s')) = 4%nat /\
    forallb (fun p => bc_okb (l_bc (snd p))) (PositiveMap.elements (lams (st s'))) = true /\
    bc_ok (l_bc (lambda_finish l)) /\ finv s'.
Proof.
  assert (H : match compile_runnable fa_datum (vm_empty 64) with
              | ROk l s' => Some (l_bc (lambda_finish l), PositiveMap.cardinal (lams (st s')),
                                  forallb (fun p => bc_okb (l_bc (snd p))) (PositiveMap.elements (lams (st s'))))
              | _ => None end
              = Some ([VOp OPushImmediate; VArgc 0; VOp OMovImmediate; VPtr 5; VAcc; VOp OCallAcc; VOp OHalt],
                      4%nat, true)) by (vm_compute; reflexivity).
  assert (F0 : finv (vm_empty 64)) by (apply finv_empty; reflexivity).
  pose proof (compile_runnable_bc_ok fa_datum (vm_empty 64) F0) as P.
  destruct (compile_runnable fa_datum (vm_empty 64)) as [l s'| | |] eqn:E; try discriminate H.
  injection H as H1 H2 H3. destruct P as [F1 B].
  exists l, s'. split; [reflexivity|]. split; [exact H1|]. split; [exact H2|]. split; [exact H3|]. split; [exact B|exact F1].
Qed.

(* ------------------------------------------------------------------ sessions *)
(* the states a front end can reach: any number of Vm::eval calls, with any data and any
   instruction budgets of the model, whatever their outcomes *)
Inductive evals : vm -> vm -> Prop :=
| evals_refl s : evals s s
| evals_step s fuel e res s1 s2 :
    eval other_builtin fuel e s = ROk res s1 -> evals s1 s2 -> evals s s2.

Theorem evals_finv s s' : evals s s' -> finv s -> finv s'.
Proof.
  induction 1 as [s|s fuel e res s1 s2 H _ IH]; intros F; [exact F|].
  apply IH. exact (eval_finv_all fuel e s res s1 F H).
Qed.

Theorem session_locations_flat s0 s :
  booted = Some s0 -> evals s0 s ->
  forall p k q k2 eid l,
    env_at s p = Some (eid, l) -> list_get l k = Some (VLexPtr q k2) ->
    exists e2 l2 v, env_at s q = Some (e2, l2) /\ list_get l2 k2 = Some v /\
                    match v with VLexPtr _ _ => False | _ => True end.
Proof. intros B R. exact (finv_flat s (evals_finv s0 s R (booted_finv s0 B))). Qed.
