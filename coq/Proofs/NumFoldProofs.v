(* NumFoldProofs.v — the variadic procedures of builtin/number.rs on exact arguments (C08):
   + * (fold from the last argument to the first, 144-159 / 192-207), - (161-190),
   / (one or two arguments, 209-226), min max (440-464).
   An inexact accumulator stays inexact, so an EXACT final result means every step was exact,
   and then it is the n-ary mathematical operation.                                  *)
From Coq Require Import ZArith Lia Bool QArith List Setoid Morphisms.
From MW Require Import Model.Base Model.F64 Model.Num Model.Ratio32 Model.NumArith Model.NumSpec
  Proofs.GcdProofs Proofs.Ratio32Proofs Proofs.NumProofs Proofs.NumDivProofs Proofs.CmpProofs.
Import ListNotations.
Open Scope Z_scope.

(* n-ary sum and product *)
Definition Qsum (l : list Q) : Q := fold_right Qplus 0%Q l.
Definition Qprod (l : list Q) : Q := fold_right Qmult 1%Q l.

(* ---- a Float operand makes a Float result (number.rs: every arm with a Float) *)
Lemma add_float_l p x b : exists y, num_add p (Float x) b = Ok (Float y).
Proof. destruct b; eexists; reflexivity. Qed.
Lemma mul_float_l p x b : exists y, num_mul p (Float x) b = Ok (Float y).
Proof. destruct b; eexists; reflexivity. Qed.
Lemma sub_float_r p a x : exists y, num_sub p a (Float x) = Ok (Float y).
Proof. destruct a; eexists; reflexivity. Qed.

(* ------------------------------------------------------------ the generic fold *)
Section Fold.
  Variable f : num -> num -> out num.
  Variable opq : Q -> Q -> Q.
  Hypothesis opq_comp : Proper (Qeq ==> Qeq ==> Qeq) opq.
  Hypothesis f_exact : forall a b r, exact_wf a -> exact_wf b -> f a b = Ok r -> is_exact r = true ->
    wfb r = true /\ (qv r == opq (qv a) (qv b))%Q.
  Hypothesis f_total : forall a b, exact_wf a -> exact_wf b -> exists r, f a b = Ok r.
  Hypothesis f_float : forall x b, exists y, f (Float x) b = Ok (Float y).

  Lemma fold_left_Qeq l : forall a b, (a == b)%Q -> (fold_left opq l a == fold_left opq l b)%Q.
  Proof.
    induction l as [|x l IH]; intros a b E; cbn [fold_left]; [exact E|].
    apply IH. now apply opq_comp.
  Qed.

  Lemma fold_float l : forall x, Forall exact_wf l ->
    exists y, fold_args f (Float x) (map ANum l) = Ok (Float y).
  Proof.
    induction l as [|b l IH]; intros x Hl; cbn [map fold_args]; [eexists; reflexivity|].
    inversion Hl as [|? ? Hb Hl']; subst.
    destruct (f_float x b) as [y Hy]. rewrite Hy. cbn [bind]. now apply IH.
  Qed.

  Lemma fold_exact l : forall acc r, Forall exact_wf l -> exact_wf acc ->
    fold_args f acc (map ANum l) = Ok r -> is_exact r = true ->
    wfb r = true /\ (qv r == fold_left opq (map qv l) (qv acc))%Q.
  Proof.
    induction l as [|b l IH]; intros acc r Hl Ha Hr Xr; cbn [map fold_args fold_left] in *.
    - inv_ok Hr. split; [apply Ha|reflexivity].
    - inversion Hl as [|? ? Hb Hl']; subst.
      destruct (f acc b) as [acc'| | |] eqn:E; try discriminate. cbn [bind] in Hr.
      destruct acc' as [z|z|n d|x] eqn:EA.
      4:{ destruct (fold_float l x Hl') as [y Hy]. rewrite Hy in Hr. inv_ok Hr. discriminate. }
      all: rewrite <- EA in *; assert (Xa : is_exact acc' = true) by (subst acc'; reflexivity);
        destruct (f_exact acc b acc' Ha Hb E Xa) as [Wa Va];
        destruct (IH acc' r Hl' (conj Wa Xa) Hr Xr) as [Wr Vr]; split; [exact Wr|];
        rewrite Vr; now apply fold_left_Qeq.
  Qed.

  Lemma fold_total l : forall acc, Forall exact_wf l -> (is_exact acc = true -> wfb acc = true) ->
    exists r, fold_args f acc (map ANum l) = Ok r.
  Proof.
    induction l as [|b l IH]; intros acc Hl Ha; cbn [map fold_args]; [eexists; reflexivity|].
    inversion Hl as [|? ? Hb Hl']; subst.
    destruct (is_exact acc) eqn:Xa.
    - destruct (f_total acc b (conj (Ha eq_refl) Xa) Hb) as [acc' E]. rewrite E. cbn [bind].
      apply IH; [exact Hl'|]. intros X'. exact (proj1 (f_exact acc b acc' (conj (Ha eq_refl) Xa) Hb E X')).
    - destruct acc as [z|z|n d|x]; try discriminate.
      destruct (f_float x b) as [y Hy]. rewrite Hy. cbn [bind]. apply IH; [exact Hl'|discriminate].
  Qed.
End Fold.

Lemma rev_map_ANum l : rev (map ANum l) = map ANum (rev l).
Proof. symmetry. apply map_rev. Qed.

Lemma fold_left_plus_rev l : forall a, (fold_left Qplus (rev l) a == a + Qsum l)%Q.
Proof.
  induction l as [|x l IH]; intros a; cbn [rev Qsum fold_right fold_left].
  - ring.
  - rewrite fold_left_app. cbn [fold_left]. rewrite IH. unfold Qsum. ring.
Qed.
Lemma fold_left_mult_rev l : forall a, (fold_left Qmult (rev l) a == a * Qprod l)%Q.
Proof.
  induction l as [|x l IH]; intros a; cbn [rev Qprod fold_right fold_left].
  - ring.
  - rewrite fold_left_app. cbn [fold_left]. rewrite IH. unfold Qprod. ring.
Qed.

Lemma exact_wf_fix z : in_i64 z = true -> exact_wf (Fixnum z).
Proof. intros H. split; [exact H|reflexivity]. Qed.

Lemma add_exact' p a b r : exact_wf a -> exact_wf b -> num_add p a b = Ok r -> is_exact r = true ->
  wfb r = true /\ (qv r == qv a + qv b)%Q.
Proof. intros [Wa Xa] [Wb Xb]. now apply add_exact. Qed.
Lemma mul_exact' p a b r : exact_wf a -> exact_wf b -> num_mul p a b = Ok r -> is_exact r = true ->
  wfb r = true /\ (qv r == qv a * qv b)%Q.
Proof. intros [Wa Xa] [Wb Xb]. now apply mul_exact. Qed.
Lemma add_total' p a b : exact_wf a -> exact_wf b -> exists r, num_add p a b = Ok r.
Proof. intros [Wa Xa] [Wb Xb]. exact (proj1 (addsubmul_total p a b Wa Wb Xa Xb)). Qed.
Lemma mul_total' p a b : exact_wf a -> exact_wf b -> exists r, num_mul p a b = Ok r.
Proof. intros [Wa Xa] [Wb Xb]. exact (proj2 (proj2 (addsubmul_total p a b Wa Wb Xa Xb))). Qed.

(* ================================================================== + 144-159 *)
Theorem plus_exact p l r : Forall exact_wf l ->
  b_plus p (map ANum l) = Ok (RNum r) -> is_exact r = true ->
  wfb r = true /\ (qv r == Qsum (map qv l))%Q.
Proof.
  intros Hl Hr Xr. unfold b_plus in Hr. rewrite rev_map_ANum in Hr.
  destruct (fold_args (num_add p) (Fixnum 0) (map ANum (rev l))) as [s| | |] eqn:E; try discriminate.
  cbn [bind] in Hr. inv_ok Hr.
  destruct (fold_exact (num_add p) Qplus Qplus_comp (add_exact' p) (add_float_l p) (rev l) (Fixnum 0) r) as [W V];
    try assumption; [now apply Forall_rev|now apply exact_wf_fix|].
  split; [exact W|]. rewrite V, map_rev, fold_left_plus_rev. cbn [qv]. ring.
Qed.

Theorem plus_total p l : Forall exact_wf l -> exists r, b_plus p (map ANum l) = Ok (RNum r).
Proof.
  intros Hl. unfold b_plus. rewrite rev_map_ANum.
  destruct (fold_total (num_add p) Qplus (add_exact' p) (add_total' p) (add_float_l p) (rev l) (Fixnum 0)) as [s E];
    [now apply Forall_rev|reflexivity|]. rewrite E. eexists. reflexivity.
Qed.

(* ================================================================== * 192-207 *)
Theorem multiply_exact p l r : Forall exact_wf l ->
  b_multiply p (map ANum l) = Ok (RNum r) -> is_exact r = true ->
  wfb r = true /\ (qv r == Qprod (map qv l))%Q.
Proof.
  intros Hl Hr Xr. unfold b_multiply in Hr. rewrite rev_map_ANum in Hr.
  destruct (fold_args (num_mul p) (Fixnum 1) (map ANum (rev l))) as [s| | |] eqn:E; try discriminate.
  cbn [bind] in Hr. inv_ok Hr.
  destruct (fold_exact (num_mul p) Qmult Qmult_comp (mul_exact' p) (mul_float_l p) (rev l) (Fixnum 1) r) as [W V];
    try assumption; [now apply Forall_rev|now apply exact_wf_fix|].
  split; [exact W|]. rewrite V, map_rev, fold_left_mult_rev. cbn [qv]. ring.
Qed.

Theorem multiply_total p l : Forall exact_wf l -> exists r, b_multiply p (map ANum l) = Ok (RNum r).
Proof.
  intros Hl. unfold b_multiply. rewrite rev_map_ANum.
  destruct (fold_total (num_mul p) Qmult (mul_exact' p) (mul_total' p) (mul_float_l p) (rev l) (Fixnum 1)) as [s E];
    [now apply Forall_rev|reflexivity|]. rewrite E. eexists. reflexivity.
Qed.

(* ================================================================== - 161-190 *)
(* (- a) = -a;  (- a b c ...) = a - (b + c + ...) *)
Definition Qminus_nary (a : Q) (others : list Q) : Q :=
  match others with [] => (- a)%Q | _ => (a - Qsum others)%Q end.

Theorem minus_exact p a others r : exact_wf a -> Forall exact_wf others ->
  b_minus p (map ANum (a :: others)) = Ok (RNum r) -> is_exact r = true ->
  wfb r = true /\ (qv r == Qminus_nary (qv a) (map qv others))%Q.
Proof.
  intros Ha Hl Hr Xr. cbn [map b_minus] in Hr. rewrite rev_map_ANum in Hr.
  destruct (fold_args (num_add p) (Fixnum 0) (map ANum (rev others))) as [s| | |] eqn:E; try discriminate.
  cbn [bind] in Hr.
  destruct (num_sub p a s) as [d| | |] eqn:Ed; try discriminate. cbn [bind] in Hr.
  (* the difference is exact, because the final result is *)
  assert (Xd : is_exact d = true).
  { destruct d as [z|z|n q|x]; try reflexivity. exfalso.
    destruct (map ANum others); [|cbn [bind] in Hr; inv_ok Hr; discriminate].
    destruct (mul_float_l p x (Fixnum (-1))) as [y Hy]. rewrite Hy in Hr. cbn [bind] in Hr. inv_ok Hr. discriminate. }
  assert (Xs : is_exact s = true).
  { destruct s as [z|z|n q|x]; try reflexivity. exfalso.
    destruct (sub_float_r p a x) as [y Hy]. rewrite Hy in Ed. inv_ok Ed. discriminate. }
  destruct (fold_exact (num_add p) Qplus Qplus_comp (add_exact' p) (add_float_l p) (rev others) (Fixnum 0) s) as [Ws Vs];
    try assumption; [now apply Forall_rev|now apply exact_wf_fix|].
  rewrite map_rev, fold_left_plus_rev in Vs. cbn [qv] in Vs.
  destruct Ha as [Wa Xa].
  destruct (sub_exact p a s d Wa Ws Xa Xs Ed Xd) as [Wd Vd].
  destruct others as [|b others'].
  - cbn [map] in Hr. destruct (num_mul p d (Fixnum (-1))) as [m| | |] eqn:Em; try discriminate.
    cbn [bind] in Hr. inv_ok Hr.
    destruct (mul_exact p d (Fixnum (-1)) r Wd eq_refl Xd eq_refl Em Xr) as [Wr Vr].
    split; [exact Wr|]. cbn [map Qminus_nary]. rewrite Vr, Vd, Vs. cbn [qv map Qsum fold_right]. ring.
  - cbn [map bind] in Hr. inv_ok Hr. split; [exact Wd|].
    unfold Qminus_nary. cbn [map]. rewrite Vd, Vs. cbn [map]. ring.
Qed.

(* ================================================================== / 209-226 *)
Lemma is_zero_exact p y : exact_wf y -> num_is_zero p y = Ok (is_Eq (qv y ?= 0)%Q).
Proof. intros [W X]. unfold num_is_zero. now rewrite eq_exact. Qed.

Lemma is_Eq_nonzero q : ~ (q == 0)%Q -> is_Eq (q ?= 0)%Q = false.
Proof. intros H. destruct (q ?= 0)%Q eqn:C; try reflexivity. apply Qeq_alt in C. contradiction. Qed.

Lemma b_divide_2 p x y : exact_wf y -> ~ (qv y == 0)%Q ->
  b_divide p [ANum x; ANum y] = do r <- num_div p x y; Ok (RNum r).
Proof.
  intros Hy Nz. cbn [b_divide pop_number bind]. rewrite is_zero_exact by exact Hy.
  rewrite is_Eq_nonzero by exact Nz. reflexivity.
Qed.
Lemma b_divide_1 p y : exact_wf y -> ~ (qv y == 0)%Q ->
  b_divide p [ANum y] = do r <- num_div p (Fixnum 1) y; Ok (RNum r).
Proof.
  intros Hy Nz. cbn [b_divide pop_number bind]. rewrite is_zero_exact by exact Hy.
  rewrite is_Eq_nonzero by exact Nz. reflexivity.
Qed.
(* an exact zero divisor is an error in both forms, never a value *)
Lemma b_divide_zero p x y : exact_wf y -> (qv y == 0)%Q ->
  b_divide p [ANum x; ANum y] = Err E_OTHER /\ b_divide p [ANum y] = Err E_OTHER.
Proof.
  intros Hy Z. cbn [b_divide pop_number bind]. rewrite is_zero_exact by exact Hy.
  apply Qeq_alt in Z. rewrite Z. split; reflexivity.
Qed.

Theorem divide_exact p x y r : exact_wf x -> exact_wf y -> ~ (qv y == 0)%Q ->
  (forall s, num_div Debug x y <> Panic s) ->
  b_divide p [ANum x; ANum y] = Ok (RNum r) -> is_exact r = true ->
  wfb r = true /\ (qv r * qv y == qv x)%Q.
Proof.
  intros [Wx Xx] [Wy Xy] Nz NP Hr Xr. rewrite b_divide_2 in Hr by (try split; assumption).
  destruct (num_div p x y) as [q| | |] eqn:E; try discriminate. cbn [bind] in Hr. inv_ok Hr.
  exact (div_exact p x y r Wx Wy Xx Xy Nz NP E Xr).
Qed.

Theorem reciprocal_exact p y r : exact_wf y -> ~ (qv y == 0)%Q ->
  (forall s, num_div Debug (Fixnum 1) y <> Panic s) ->
  b_divide p [ANum y] = Ok (RNum r) -> is_exact r = true ->
  wfb r = true /\ (qv r * qv y == 1)%Q.
Proof.
  intros [Wy Xy] Nz NP Hr Xr. rewrite b_divide_1 in Hr by (try split; assumption).
  destruct (num_div p (Fixnum 1) y) as [q| | |] eqn:E; try discriminate. cbn [bind] in Hr. inv_ok Hr.
  exact (div_exact p (Fixnum 1) y r eq_refl Wy eq_refl Xy Nz NP E Xr).
Qed.

(* ============================================================ min / max 440-464 *)
Definition mm_le (is_max : bool) (x m : num) : Prop :=
  if is_max then (qv x <= qv m)%Q else (qv m <= qv x)%Q.

Lemma mm_le_refl is_max x : mm_le is_max x x.
Proof. destruct is_max; apply Qle_refl. Qed.
Lemma mm_le_trans is_max x y z : mm_le is_max x y -> mm_le is_max y z -> mm_le is_max x z.
Proof. destruct is_max; cbn; intros; eapply Qle_trans; eassumption. Qed.

Lemma minmax_loop_spec (is_max : bool) p r : forall result, exact_wf result -> Forall exact_wf r ->
  exists m, minmax_loop is_max p (map ANum r) result = Ok m /\ exact_wf m /\
    (m = result \/ In m r) /\ mm_le is_max result m /\ Forall (fun x => mm_le is_max x m) r.
Proof.
  induction r as [|x r IH]; intros result Hres Hr; cbn [map minmax_loop].
  - exists result. repeat split; auto using mm_le_refl; apply Hres.
  - inversion Hr as [|? ? Hx Hr']; subst. cbn [pop_number bind].
    destruct Hx as [Wx Xx]. destruct Hres as [Wr Xr].
    assert (C : exists c : bool, (if is_max then num_gt p x result else num_lt p x result) = Ok c /\
                  mm_le is_max result (if c then x else result) /\ mm_le is_max x (if c then x else result)).
    { destruct is_max.
      - rewrite gt_exact by assumption. destruct (qv x ?= qv result)%Q eqn:C; eexists; (split; [reflexivity|]); cbn [mm_le].
        + apply Qeq_alt in C. rewrite C. split; apply Qle_refl.
        + apply Qlt_alt in C. split; [apply Qle_refl|now apply Qlt_le_weak].
        + apply Qgt_alt in C. split; [now apply Qlt_le_weak|apply Qle_refl].
      - rewrite lt_exact by assumption. destruct (qv x ?= qv result)%Q eqn:C; eexists; (split; [reflexivity|]); cbn [mm_le].
        + apply Qeq_alt in C. rewrite C. split; apply Qle_refl.
        + apply Qlt_alt in C. split; [now apply Qlt_le_weak|apply Qle_refl].
        + apply Qgt_alt in C. split; [apply Qle_refl|now apply Qlt_le_weak]. }
    destruct C as [c [Hc [L1 L2]]]. rewrite Hc. cbn [bind].
    destruct (IH (if c then x else result)) as [m [Hm [Em [Im [Lm Fm]]]]]; [destruct c; split; assumption|exact Hr'|].
    exists m. split; [exact Hm|]. split; [exact Em|]. split; [|split].
    + destruct Im as [->|I]; [destruct c; [right; left; reflexivity|left; reflexivity]|right; right; exact I].
    + eapply mm_le_trans; eassumption.
    + constructor; [eapply mm_le_trans; eassumption|exact Fm].
Qed.

(* (max a1 ... an), (min a1 ... an), n >= 2, exact arguments: the result is one of the arguments
   (so it is exact and well-formed) and bounds all of them *)
Theorem minmax_nary (is_max : bool) p l : (2 <= length l)%nat -> Forall exact_wf l ->
  exists m, b_minmax is_max p (map ANum l) = Ok (RNum m) /\ In m l /\
    Forall (fun x => mm_le is_max x m) l.
Proof.
  intros Len Hl. unfold b_minmax. rewrite rev_map_ANum.
  assert (Hr : Forall exact_wf (rev l)) by now apply Forall_rev.
  assert (Lr : (2 <= length (rev l))%nat) by now rewrite rev_length.
  destruct (rev l) as [|a [|b r]] eqn:E; cbn [length] in Lr; try lia.
  inversion Hr as [|? ? Ha Hr']; subst.
  cbn [map pop_number bind].
  destruct (minmax_loop_spec is_max p (b :: r) a Ha Hr') as [m [Hm [Em [Im [Lm Fm]]]]].
  cbn [map] in Hm. rewrite Hm. cbn [bind]. exists m. split; [reflexivity|].
  assert (In' : In m (rev l)) by (rewrite E; destruct Im as [->|I]; [left; reflexivity|right; exact I]).
  split; [now apply in_rev|].
  apply Forall_forall. intros x Hx. apply in_rev in Hx. rewrite E in Hx.
  destruct Hx as [<-|Hx]; [exact Lm|]. rewrite Forall_forall in Fm. now apply Fm.
Qed.

(* ---- a fold whose every step is justified can still answer inexactly although the true sum is
   representable: (+ 1/2 1/2 4294967296) adds 2^32 + 1/2 (not representable: justified float)
   and then 1/2: the float 4294967297.0, while 4294967297 is a Fixnum.  Member of the recorded
   class float-fallback-representable "followed step by step". *)
Definition inexact_res (o : out res) : bool :=
  match o with Ok (RNum r) => negb (is_exact r) | _ => false end.
Theorem plus_fold_inexact_representable : forall p,
  inexact_res (b_plus p [ANum (Rational 1 2); ANum (Rational 1 2); ANum (Fixnum (2 ^ 32))]) = true /\
  (qv (Fixnum (2 ^ 32 + 1)) == Qsum (map qv [Rational 1 2; Rational 1 2; Fixnum (2 ^ 32)]))%Q /\
  wfb (Fixnum (2 ^ 32 + 1)) = true.
Proof. intros []; repeat split; vm_compute; reflexivity. Qed.
