(* NoPanicListVec.v — C06: every list / vector / predicate / compare builtin of Model/ListVec.v, from a
   [wfm] state, ends (normally or with an error) in a [wfm] state that [grow]s, returns a [vwf]
   value, and can only panic at a site of [okp] (the ListVec sites 30..33, the heap index 10,
   the Rc payload 20, the conversion 14, the unmodelled builtin 99).
   The calculus is [npost okp] of NoPanicBase.v; [np_go] walks the monadic code. *)
From Coq Require Import Lia List String.
From MW Require Import Model.Base Model.F64 Model.Num Model.Datum Model.TransformDef Model.Transform
  Model.VmTypes Model.Heap Model.Gc Model.VmBase Model.Compile Model.Vm Model.Builtins
  Proofs.GcProofs Proofs.SymtabProofs Proofs.VmProofs0 Proofs.TailProofs Proofs.EnvProofs
  Proofs.FlatProofs Proofs.FlatListVec Proofs.NoPanicBase Proofs.NoPanicPrims Proofs.NoPanicPrims2.
From MW Require Model.ListVec.
Open Scope N_scope.
Arguments N.add : simpl never.
Arguments N.sub : simpl never.
Arguments N.eqb : simpl never.
Arguments N.ltb : simpl never.
Arguments N.leb : simpl never.
Arguments N.mul : simpl never.

(* ------------------------------------------------------------------ lists of values *)
Definition lwf (s : vm) (l : list vcell) : Prop := Forall (vwf s) l.

Lemma lwf_of_get s l : (forall j v, list_get l j = Some v -> vwf s v) -> lwf s l.
Proof.
  intros H. apply Forall_forall. intros x Hx. apply In_nth_error in Hx as [n Hn].
  apply (H (N.of_nat n)). unfold list_get. rewrite Nnat.Nat2N.id. exact Hn.
Qed.
Lemma lwf_get s l : lwf s l -> forall j v, list_get l j = Some v -> vwf s v.
Proof.
  intros H j v E. unfold list_get in E. apply nth_error_In in E.
  exact (proj1 (Forall_forall _ _) H v E).
Qed.
Lemma lwf_grow s s' l : grow0 s s' -> lwf s l -> lwf s' l.
Proof. intros G H. eapply Forall_impl; [|exact H]. intros v. apply vwf_grow, G. Qed.
Lemma lwf_sub s l l' : lwf s l -> (forall x, In x l' -> In x l) -> lwf s l'.
Proof.
  intros H Hi. apply Forall_forall. intros x Hx. exact (proj1 (Forall_forall _ _) H x (Hi x Hx)).
Qed.
Lemma lwf_nil s : lwf s [].
Proof. constructor. Qed.
Lemma lwf_cons s v l : vwf s v -> lwf s l -> lwf s (v :: l).
Proof. intros; constructor; assumption. Qed.
Lemma lwf_cons_inv s v l : lwf s (v :: l) -> vwf s v /\ lwf s l.
Proof. intros H. inversion H; subst. split; assumption. Qed.
Lemma lwf_set_nat s v : vwf s v -> forall l i, lwf s l -> lwf s (list_set_nat l i v).
Proof.
  intros Hv. induction l as [|x r IH]; intros i Hl; cbn [list_set_nat]; [destruct i; constructor|].
  apply lwf_cons_inv in Hl as [Hx Hr]. destruct i as [|k]; apply lwf_cons; auto.
Qed.
Lemma lwf_vput s l i v : lwf s l -> vwf s v -> lwf s (ListVec.vput l i v).
Proof.
  intros Hl Hv. unfold ListVec.vput. destruct (i <? len l); [|exact Hl].
  unfold list_set. apply lwf_set_nat; assumption.
Qed.
Lemma lwf_vget s l i v : lwf s l -> ListVec.vget l i = Some v -> vwf s v.
Proof.
  intros Hl. unfold ListVec.vget. destruct (i <? len l); [|discriminate]. apply lwf_get, Hl.
Qed.
Lemma lwf_put_all s : forall vals l at_, lwf s l -> lwf s vals -> lwf s (ListVec.put_all l at_ vals).
Proof.
  induction vals as [|v r IH]; intros l at_ Hl Hv; cbn [ListVec.put_all]; [exact Hl|].
  apply lwf_cons_inv in Hv as [Hv Hr]. apply IH; [apply lwf_vput; assumption|exact Hr].
Qed.
Lemma lwf_repeat s v n : vwf s v -> lwf s (repeat v n).
Proof. intros Hv. apply Forall_forall. intros x Hx. apply repeat_spec in Hx. subst x. exact Hv. Qed.
Lemma lwf_map_const s v (l : list vcell) : vwf s v -> lwf s (map (fun _ => v) l).
Proof.
  intros Hv. apply Forall_forall. intros x Hx. apply in_map_iff in Hx as (y & <- & _). exact Hv.
Qed.
Lemma lwf_rev s l : lwf s l -> lwf s (rev l).
Proof. intros H. apply Forall_rev, H. Qed.
Lemma lwf_take_drop s l a b : lwf s l -> lwf s (ListVec.take a (ListVec.drop b l)).
Proof. intros H. apply (lwf_sub s l); [exact H|]. intros x Hx. apply in_take, in_drop in Hx. exact Hx. Qed.

(* ------------------------------------------------------------------ tactics *)
(* transport the facts about the old state along [G : grow s s1] *)
Ltac np_tr G :=
  repeat match goal with
         | H : vwf ?s0 _ |- _ =>
             lazymatch type of G with grow s0 _ => apply (vwf_grow _ _ _ (grow_grow0 _ _ G)) in H end
         | H : lwf ?s0 _ |- _ =>
             lazymatch type of G with grow s0 _ => apply (lwf_grow _ _ _ (grow_grow0 _ _ G)) in H end
         end.

(* destructure a postcondition *)
Ltac np_dq H :=
  lazymatch type of H with
  | True => clear H
  | _ /\ _ => let H1 := fresh "Q" in let H2 := fresh "Q" in destruct H as [H1 H2]; np_dq H1; np_dq H2
  | exists _, _ => let x := fresh "x" in let H1 := fresh "Q" in destruct H as [x H1]; np_dq H1
  | ?a = ?b => first [ is_var a; subst a | is_var b; subst b | discriminate H | idtac ]
  | V _ _ => unfold V in H
  | T_ _ _ => clear H
  | forall j v, list_get ?l j = Some v -> vwf ?s v => apply lwf_of_get in H
  | _ => idtac
  end.

Ltac np_cell :=
  match goal with
  | H : forall p, _ = VPtr p -> _ = cell_at _ p |- _ => symmetry; apply H; reflexivity
  end.

Ltac np_val :=
  unfold V, T_; cbn [fst snd];
  lazymatch goal with
  | |- True => exact I
  | |- _ /\ _ => split; np_val
  | |- wfm _ => assumption
  | |- okp _ => reflexivity
  | |- vwf _ (if ?c then _ else _) => destruct c; np_val
  | |- vwf _ ?v =>
      first [ assumption | exact I
            | match goal with H : ListVec.vget ?l ?i = Some v |- _ => apply (lwf_vget _ l i v); [assumption|exact H] end
            | idtac ]
  | |- lwf _ _ =>
      first [ assumption | apply lwf_nil | apply lwf_cons; np_val | apply lwf_rev; np_val
            | apply lwf_vput; np_val | apply lwf_put_all; np_val | apply lwf_repeat; np_val
            | apply lwf_map_const; np_val | apply lwf_take_drop; np_val | idtac ]
  | |- forall j v, list_get _ j = Some v -> vwf _ v => apply lwf_get; np_val
  | |- cell_at _ _ = VPair _ _ => np_cell
  | |- exists p, VPtr _ = VPtr p => eexists; reflexivity
  | |- _ => idtac
  end.

(* user extensible: loops and compound operations *)
Ltac np_user := fail.

Ltac np_prim :=
  lazymatch goal with
  | |- npost _ ?s (?m ?s) _ =>
      lazymatch m with
      | pop_argc _ _ => apply np_pop_argc
      | pop_value => apply np_pop_value
      | pop_raw => apply np_pop_raw
      | pop_vector => apply np_pop_vector
      | hput _ => apply np_hput
      | vec_get _ => apply np_vec_get
      | vec_set _ _ => apply np_vec_set
      | vec_new _ => apply np_vec_new
      | str_get _ => apply np_str_get
      | hset _ (VPair _ _) => eapply np_hset_pair
      | _ => np_user
      end
  end; np_val.

Ltac np_bindq m :=
  lazymatch m with
  | (if _ then _ else _) =>
      lazymatch type of m with
      | M vcell => eapply npost_bind with (Q := V)
      | _ => eapply npost_bind with (Q := T_)
      end
  | _ => eapply npost_bind
  end.

Ltac np_go :=
  cbv beta zeta;
  lazymatch goal with
  | |- npost _ ?s (bindM ?m ?f ?s) _ =>
      np_bindq m;
      [ np_go
      | let a := fresh "a" in let s1 := fresh "s" in let W1 := fresh "W" in
        let G1 := fresh "G" in let Q1 := fresh "Q" in
        intros a s1 W1 G1 Q1; np_tr G1;
        (match goal with W0 : wfm s |- _ => clear W0 end); clear G1;
        cbv beta in Q1; np_dq Q1; np_go ]
  | |- npost _ ?s (ret _ ?s) _ => apply npost_ret; [assumption|np_val]
  | |- npost _ ?s (fail _ ?s) _ => apply npost_fail; assumption
  | |- npost _ _ (panic _ _) _ => apply npost_panic; reflexivity
  | |- npost _ _ (ListVec.nofuel _) _ => exact I
  | |- npost _ ?s ((if ?c then _ else _) ?s) _ => destruct c eqn:?; np_go
  | |- npost _ ?s ((match ?v with _ => _ end) ?s) _ =>
      tryif is_var v then destruct v else destruct v eqn:?; cbn [fst snd] in *; np_go
  | |- npost _ ?s (?m ?s) _ => np_prim
  end.

(* ------------------------------------------------------------------ pure helpers (state unchanged) *)
Lemma lv_usub a b s : wfm s -> npo s (ListVec.usub a b s) (fun s' _ => s' = s).
Proof.
  intros W. unfold ListVec.usub. destruct (a <? b); [apply npost_panic; reflexivity|].
  apply npost_ret; [exact W|reflexivity].
Qed.
Lemma lv_as_car v s : wfm s -> npo s (ListVec.as_car v s) (fun s' r => s' = s /\ exists a d, v = VPair a d /\ r = VPtr a).
Proof.
  intros W. destruct v; try apply npost_fail, W. apply npost_ret; [exact W|]. split; [reflexivity|eauto].
Qed.
Lemma lv_as_cdr v s : wfm s -> npo s (ListVec.as_cdr v s) (fun s' r => s' = s /\ exists a d, v = VPair a d /\ r = VPtr d).
Proof.
  intros W. destruct v; try apply npost_fail, W. apply npost_ret; [exact W|]. split; [reflexivity|eauto].
Qed.
Lemma lv_as_ptr v s : wfm s -> npo s (as_ptr v s) (fun s' p => s' = s /\ v = VPtr p).
Proof.
  intros W. destruct v; try apply npost_fail, W. apply npost_ret; [exact W|]. split; reflexivity.
Qed.
Lemma lv_hderef v s : wfm s -> vwf s v ->
  npo s (hderef v s) (fun s' a => s' = s /\ vwf s a /\ forall p, v = VPtr p -> a = cell_at (hp s) p).
Proof.
  intros W Hv. unfold hderef, heap_deref.
  destruct v; try (apply npost_ret; [exact W|split; [reflexivity|split; [exact Hv|intros p0 E; discriminate E]]]).
  eapply npost_weaken; [|apply (np_hget_c p s W)].
  intros s' a _ _ (-> & -> & H). split; [reflexivity|split; [exact H|]]. intros p0 E. injection E as <-. reflexivity.
Qed.

Ltac np_user ::=
  lazymatch goal with
  | |- npost _ ?s (?m ?s) _ =>
      lazymatch m with
      | ListVec.usub _ _ => apply lv_usub
      | ListVec.as_car _ => apply lv_as_car
      | ListVec.as_cdr _ => apply lv_as_cdr
      | as_ptr _ => apply lv_as_ptr
      | hderef _ => apply lv_hderef
      end
  end.

(* the induction hypothesis of a loop, or a lemma in the context *)
Ltac np_ih := match goal with H : context [npost] |- _ => apply H end.
Ltac np_more := np_ih.

Section LV.
Variable F : nat.

Lemma lv_fail_cell {X} v s (Q : vm -> X -> Prop) : wfm s -> vwf s v -> npo s (@ListVec.fail_cell F X v s) Q.
Proof.
  intros W Hv. unfold ListVec.fail_cell. eapply npost_bind; [apply np_as_cell; assumption|].
  intros a s1 W1 G1 _. apply npost_fail, W1.
Qed.

Lemma lv_pop_index s : wfm s -> npo s (ListVec.pop_index s) T_.
Proof. intros W. unfold ListVec.pop_index. np_go. Qed.

Ltac np_user ::=
  lazymatch goal with
  | |- npost _ ?s (?m ?s) _ =>
      lazymatch m with
      | ListVec.usub _ _ => apply lv_usub
      | ListVec.as_car _ => apply lv_as_car
      | ListVec.as_cdr _ => apply lv_as_cdr
      | as_ptr _ => apply lv_as_ptr
      | hderef _ => apply lv_hderef
      | ListVec.fail_cell _ _ => apply lv_fail_cell
      | ListVec.pop_index => apply lv_pop_index
      | _ => np_more
      end
  end.

(* ------------------------------------------------------------------ list.rs *)
Lemma np_car s : wfm s -> npo s (ListVec.car F s) V.
Proof. intros W. unfold ListVec.car. np_go. Qed.
Lemma np_cdr s : wfm s -> npo s (ListVec.cdr F s) V.
Proof. intros W. unfold ListVec.cdr. np_go. Qed.
Lemma np_cons_ s : wfm s -> npo s (ListVec.cons_ s) V.
Proof. intros W. unfold ListVec.cons_. np_go. Qed.
Lemma np_set_car s : wfm s -> npo s (ListVec.set_car s) V.
Proof. intros W. unfold ListVec.set_car. np_go. Qed.
Lemma np_set_cdr s : wfm s -> npo s (ListVec.set_cdr s) V.
Proof. intros W. unfold ListVec.set_cdr. np_go. Qed.

Definition V2 (s : vm) (r : vcell * vcell) : Prop := vwf s (fst r) /\ vwf s (snd r).

Lemma np_clone_loop : forall f list rest head tail nilp s,
  wfm s -> vwf s list -> vwf s rest -> vwf s head -> vwf s tail ->
  npo s (ListVec.clone_loop F f list rest head tail nilp s) V2.
Proof.
  unfold V2. induction f as [|f IH]; intros list rest head tail nilp s W Hl Hr Hh Ht; cbn [ListVec.clone_loop]; np_go.
Qed.
Lemma np_clone_list list s : wfm s -> vwf s list -> npo s (ListVec.clone_list F list s) V2.
Proof. intros W Hl. pose proof np_clone_loop as IH. unfold ListVec.clone_list. np_go. Qed.

Lemma np_append_loop : forall n tail s, wfm s -> vwf s tail -> npo s (ListVec.append_loop F n tail s) V.
Proof.
  pose proof np_clone_list as Hc. unfold V2 in Hc.
  induction n as [|n IH]; intros tail s W Ht; cbn [ListVec.append_loop]; np_go.
Qed.
Lemma np_append s : wfm s -> npo s (ListVec.append F s) V.
Proof. intros W. pose proof np_append_loop as IH. unfold ListVec.append. np_go. Qed.

Lemma np_reverse_loop : forall f list rest tail s, wfm s -> vwf s list -> vwf s rest -> vwf s tail ->
  npo s (ListVec.reverse_loop F f list rest tail s) V.
Proof.
  induction f as [|f IH]; intros list rest tail s W Hl Hr Ht; cbn [ListVec.reverse_loop]; np_go.
Qed.
Lemma np_reverse s : wfm s -> npo s (ListVec.reverse F s) V.
Proof. intros W. pose proof np_reverse_loop as IH. unfold ListVec.reverse. np_go. Qed.

Lemma np_get_list_tail_loop : forall f list rest idx s, wfm s -> vwf s list -> vwf s rest ->
  npo s (ListVec.get_list_tail_loop F f list rest idx s) V.
Proof.
  induction f as [|f IH]; intros list rest idx s W Hl Hr; cbn [ListVec.get_list_tail_loop]; np_go.
Qed.
Lemma np_get_list_tail list idx s : wfm s -> vwf s list -> npo s (ListVec.get_list_tail F list idx s) V.
Proof. intros W Hl. unfold ListVec.get_list_tail. apply np_get_list_tail_loop; assumption. Qed.
Lemma np_list_ref s : wfm s -> npo s (ListVec.list_ref F s) V.
Proof. intros W. pose proof np_get_list_tail as IH. unfold ListVec.list_ref. np_go. Qed.
Lemma np_list_tail s : wfm s -> npo s (ListVec.list_tail F s) V.
Proof. intros W. pose proof np_get_list_tail as IH. unfold ListVec.list_tail. np_go. Qed.

(* ------------------------------------------------------------------ vector.rs *)
Lemma lv_clone_vector l st en s : wfm s -> lwf s l -> npo s (ListVec.clone_vector l st en s) lwf.
Proof. intros W Hl. unfold ListVec.clone_vector. np_go. Qed.
Lemma np_pop_n : forall n acc0 s, wfm s -> lwf s acc0 -> npo s (ListVec.pop_n n acc0 s) lwf.
Proof. induction n as [|n IH]; intros acc0 s W Ha; cbn [ListVec.pop_n]; np_go. Qed.
Lemma np_vector s : wfm s -> npo s (ListVec.vector s) V.
Proof. intros W. pose proof np_pop_n as IH. unfold ListVec.vector. np_go. Qed.
Lemma np_make_vector s : wfm s -> npo s (ListVec.make_vector s) V.
Proof. intros W. unfold ListVec.make_vector. np_go. Qed.
Lemma np_vector_length s : wfm s -> npo s (ListVec.vector_length s) V.
Proof. intros W. unfold ListVec.vector_length. np_go. Qed.
Lemma np_vector_ref s : wfm s -> npo s (ListVec.vector_ref s) V.
Proof. intros W. unfold ListVec.vector_ref. np_go. Qed.
Lemma np_vector_set s : wfm s -> npo s (ListVec.vector_set s) V.
Proof. intros W. unfold ListVec.vector_set. np_go. Qed.
Lemma np_vector_fill s : wfm s -> npo s (ListVec.vector_fill s) V.
Proof. intros W. unfold ListVec.vector_fill. np_go. Qed.
Lemma np_v2l_loop : forall l tail s, wfm s -> lwf s l -> vwf s tail -> npo s (ListVec.v2l_loop l tail s) V.
Proof.
  induction l as [|x r IH]; intros tail s W Hl Ht; cbn [ListVec.v2l_loop]; [np_go|].
  apply lwf_cons_inv in Hl as [Hx Hr]. np_go.
Qed.
Lemma np_vector_to_list s : wfm s -> npo s (ListVec.vector_to_list s) V.
Proof. intros W. pose proof np_v2l_loop as IH. unfold ListVec.vector_to_list. np_go. Qed.
Definition VL (s : vm) (r : list vcell * vcell) : Prop := lwf s (fst r) /\ vwf s (snd r).
Lemma np_l2v_loop : forall f lst acc0 s, wfm s -> vwf s lst -> lwf s acc0 -> npo s (ListVec.l2v_loop f lst acc0 s) VL.
Proof.
  unfold VL. induction f as [|f IH]; intros lst acc0 s W Hl Ha; cbn [ListVec.l2v_loop]; np_go.
Qed.
Lemma np_list_to_vector s : wfm s -> npo s (ListVec.list_to_vector F s) V.
Proof. intros W. pose proof np_l2v_loop as IH. unfold VL in IH. unfold ListVec.list_to_vector. np_go. Qed.
Lemma np_vector_copy s : wfm s -> npo s (ListVec.vector_copy s) V.
Proof. intros W. pose proof lv_clone_vector as IH. unfold ListVec.vector_copy. np_go. Qed.
Lemma np_collect_range l : forall n i s, wfm s -> lwf s l -> npo s (ListVec.collect_range l i n s) lwf.
Proof.
  induction n as [|n IH]; intros i s W Hl; cbn [ListVec.collect_range]; np_go.
Qed.
Lemma np_vmc_after st en s : wfm s -> npo s (ListVec.vmc_after st en s) V.
Proof. intros W. pose proof np_collect_range as IH. unfold ListVec.vmc_after. np_go. Qed.
Lemma np_vector_mut_copy s : wfm s -> npo s (ListVec.vector_mut_copy s) V.
Proof. intros W. pose proof np_vmc_after as IH. unfold ListVec.vector_mut_copy. np_go. Qed.

(* ------------------------------------------------------------------ compare.rs *)
Lemma lv_eqv l r s : wfm s -> vwf s l -> vwf s r -> npo s (ListVec.eqv l r s) T_.
Proof. intros W Hl Hr. unfold ListVec.eqv. np_go. Qed.

Lemma lv_all2_m p :
  (forall x y s, wfm s -> vwf s x -> vwf s y -> npo s (p x y s) T_) ->
  forall xs ys s, wfm s -> lwf s xs -> lwf s ys -> npo s (ListVec.all2_m p xs ys s) T_.
Proof.
  intros Hp. induction xs as [|x xr IH]; intros ys s W Hx Hy; cbn [ListVec.all2_m]; [np_go|].
  destruct ys as [|y yr]; [np_go|].
  apply lwf_cons_inv in Hx as [Hx Hxr]. apply lwf_cons_inv in Hy as [Hy Hyr].
  eapply npost_bind; [apply Hp; assumption|]. intros e s1 W1 G1 _. np_tr G1. clear G1 W.
  destruct e; [apply IH; assumption|np_go].
Qed.

Lemma lv_equal_cp : forall f,
  (forall l r s, wfm s -> vwf s l -> vwf s r -> npo s (ListVec.equal f l r s) T_) /\
  (forall l r s, wfm s -> vwf s l -> vwf s r -> npo s (ListVec.compare_pair f l r s) T_).
Proof.
  pose proof lv_eqv as He.
  induction f as [|f [IHe IHc]]; split; intros l r s W Hl Hr; try exact I.
  - rewrite equal_S.
    eapply npost_bind; [apply He; assumption|]. intros e s1 W1 G1 _. np_tr G1. clear G1 W.
    destruct e; [np_go|].
    eapply npost_bind; [apply lv_hderef; assumption|]. intros l0 s2 W2 G2 (-> & Hl0 & _). clear G2 W2.
    eapply npost_bind; [apply lv_hderef; assumption|]. intros r0 s2 W2 G2 (-> & Hr0 & _). clear G2 W2.
    destruct l0; try (apply He; assumption); destruct r0; try (apply He; assumption).
    + apply IHc; [exact W1|exact I|exact I].
    + clear IHe. cbv beta iota. np_go.
    + clear He. cbv beta iota. pose proof (lv_all2_m _ IHe) as Ha. clear IHe. np_go.
  - rewrite compare_pair_S. np_go.
Qed.
Lemma lv_equal f l r s : wfm s -> vwf s l -> vwf s r -> npo s (ListVec.equal f l r s) T_.
Proof. apply lv_equal_cp. Qed.

(* ------------------------------------------------------------------ predicate.rs *)
Lemma np_type_pred p s : wfm s -> npo s (ListVec.type_pred p s) V.
Proof. intros W. unfold ListVec.type_pred. np_go. Qed.
Lemma np_is_port s : wfm s -> npo s (ListVec.is_port s) V.
Proof. intros W. unfold ListVec.is_port. np_go. Qed.
Lemma np_eq_b s : wfm s -> npo s (ListVec.eq_b s) V.
Proof. intros W. pose proof lv_eqv as IH. unfold ListVec.eq_b. np_go. Qed.
Lemma np_equal_b s : wfm s -> npo s (ListVec.equal_b F s) V.
Proof. intros W. pose proof lv_equal as IH. unfold ListVec.equal_b. np_go. Qed.
Lemma np_not_b s : wfm s -> npo s (ListVec.not_b s) V.
Proof. intros W. unfold ListVec.not_b. np_go. Qed.
Lemma np_is_list_loop : forall f rest slow adv s, wfm s -> vwf s rest -> vwf s slow ->
  npo s (ListVec.is_list_loop f rest slow adv s) V.
Proof.
  induction f as [|f IH]; intros rest slow adv s W Hr Hs; cbn [ListVec.is_list_loop]; np_go.
Qed.
Lemma np_is_list s : wfm s -> npo s (ListVec.is_list F s) V.
Proof. intros W. pose proof np_is_list_loop as IH. unfold ListVec.is_list. np_go. Qed.

End LV.

(* ------------------------------------------------------------------ the table of Model/Builtins.v *)
Theorem np_lv_builtin : forall b s, wfm s -> npo s (lv_builtin b s) V.
Proof.
  intros b s W. unfold lv_builtin. cbv zeta.
  repeat match goal with
         | |- npost _ _ ((if ?c then _ else _) _) _ => destruct c
         end;
    lazymatch goal with
    | |- npost _ _ (ListVec.car _ _) _ => apply np_car, W
    | |- npost _ _ (ListVec.cdr _ _) _ => apply np_cdr, W
    | |- npost _ _ (ListVec.cons_ _) _ => apply np_cons_, W
    | |- npost _ _ (ListVec.set_car _) _ => apply np_set_car, W
    | |- npost _ _ (ListVec.set_cdr _) _ => apply np_set_cdr, W
    | |- npost _ _ (ListVec.append _ _) _ => apply np_append, W
    | |- npost _ _ (ListVec.reverse _ _) _ => apply np_reverse, W
    | |- npost _ _ (ListVec.list_tail _ _) _ => apply np_list_tail, W
    | |- npost _ _ (ListVec.list_ref _ _) _ => apply np_list_ref, W
    | |- npost _ _ (ListVec.vector _) _ => apply np_vector, W
    | |- npost _ _ (ListVec.make_vector _) _ => apply np_make_vector, W
    | |- npost _ _ (ListVec.vector_length _) _ => apply np_vector_length, W
    | |- npost _ _ (ListVec.vector_ref _) _ => apply np_vector_ref, W
    | |- npost _ _ (ListVec.vector_set _) _ => apply np_vector_set, W
    | |- npost _ _ (ListVec.vector_fill _) _ => apply np_vector_fill, W
    | |- npost _ _ (ListVec.vector_to_list _) _ => apply np_vector_to_list, W
    | |- npost _ _ (ListVec.list_to_vector _ _) _ => apply np_list_to_vector, W
    | |- npost _ _ (ListVec.vector_copy _) _ => apply np_vector_copy, W
    | |- npost _ _ (ListVec.vector_mut_copy _) _ => apply np_vector_mut_copy, W
    | |- npost _ _ (ListVec.is_boolean _) _ => apply np_type_pred, W
    | |- npost _ _ (ListVec.is_char _) _ => apply np_type_pred, W
    | |- npost _ _ (ListVec.is_null _) _ => apply np_type_pred, W
    | |- npost _ _ (ListVec.is_number _) _ => apply np_type_pred, W
    | |- npost _ _ (ListVec.is_complex _) _ => apply np_type_pred, W
    | |- npost _ _ (ListVec.is_real _) _ => apply np_type_pred, W
    | |- npost _ _ (ListVec.is_rational _) _ => apply np_type_pred, W
    | |- npost _ _ (ListVec.is_integer _) _ => apply np_type_pred, W
    | |- npost _ _ (ListVec.is_pair_b _) _ => apply np_type_pred, W
    | |- npost _ _ (ListVec.is_procedure _) _ => apply np_type_pred, W
    | |- npost _ _ (ListVec.is_string _) _ => apply np_type_pred, W
    | |- npost _ _ (ListVec.is_symbol _) _ => apply np_type_pred, W
    | |- npost _ _ (ListVec.is_vector _) _ => apply np_type_pred, W
    | |- npost _ _ (ListVec.is_port _) _ => apply np_is_port, W
    | |- npost _ _ (ListVec.is_list _ _) _ => apply np_is_list, W
    | |- npost _ _ (ListVec.eq_b _) _ => apply np_eq_b, W
    | |- npost _ _ (ListVec.eqv_b _) _ => apply np_eq_b, W
    | |- npost _ _ (ListVec.equal_b _ _) _ => apply np_equal_b, W
    | |- npost _ _ (ListVec.not_b _) _ => apply np_not_b, W
    | |- npost _ _ (panic _ _) _ => apply npost_panic; reflexivity
    end.
Qed.

Print Assumptions np_lv_builtin.
